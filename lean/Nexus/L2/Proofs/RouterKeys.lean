/-
  Session keys in the realms of a reachable router.

  Every realm of a router reachable by ANY history of well-formed operations (`Router.Reachable`) satisfies,
  besides the realm invariant (`RealmsOk`, WpCShutdownRouter.lean), the control invariant `WpC.CtlInv` — no
  client is stored under the meta session's key, every session marked as ending is attached — and has
  pairwise distinct client keys: the per-realm facts of `Realm.Reachable.clients_wf`, lifted to the router
  (whose realms are not literally `Realm.Reachable`: a realm created by the router starts with an offset
  publication counter and — when created later — at the router's current time, and `.rnd` sets the oracle
  directly).
-/
import Nexus.L2.Proofs.WpCShutdownRouter
import Nexus.L2.Proofs.RealmKeys

namespace Nexus.L2.Router
open Nexus.L2 Nexus.L2.Realm Nexus.L2.WpC Nexus.Gen.N

/-- the per-realm facts: realm invariant, at most a fuel marker, control invariant, distinct client keys -/
def KeysOk (r : Realm) : Prop :=
  RealmInv r ∧ FuelOnly r.panic ∧ CtlInv r ∧ (r.clients.map (·.key)).Nodup

theorem KeysOk.step {r : Realm} (h : KeysOk r) (op : Realm.Op) : KeysOk (r.step op).2 := by
  obtain ⟨hi, hp, hc, hn⟩ := h
  have := step_inv hi hp op
  exact ⟨this.1, this.2.1, CtlInv.step' hi hp hc op, keys_nodup_step hi hp hc hn op⟩

theorem KeysOk.congr {r r' : Realm} (h : KeysOk r) (hi : RealmInv r') (hp : r'.panic = r.panic)
    (hcl : r'.clients = r.clients) (he : r'.ending = r.ending) (ht : r'.tasks = r.tasks) (hd : r'.deferred = r.deferred)
    (hr : r'.retries = r.retries) (hm : r'.metaS = r.metaS) : KeysOk r' := by
  obtain ⟨_, h2, hc, hn⟩ := h
  refine ⟨hi, by rw [hp]; exact h2, hc.congr ⟨?_, ?_, ?_, ?_, ?_, ?_, ?_⟩ he hcl hd hr, by rw [hcl]; exact hn⟩
  · rw [hcl]; exact hc.safe.noClient
  · rw [he]; exact hc.safe.ending
  · rw [ht]; exact hc.safe.tasks
  · rw [hd]; exact hc.safe.deferred
  · rw [hr]; exact hc.safe.retries
  · rw [hm]; exact hc.safe.mkey
  · rw [hm]; exact hc.safe.metaPPT

theorem keysOk_created {cfg : Config} {r : Realm} (h : Realm.create cfg = some r) (n : Nat) :
    KeysOk ({ r with pubCount := n } : Realm) := by
  have hr : Realm.Reachable cfg r := .init h
  have h0 : KeysOk r := ⟨hr.inv.1, hr.inv.2, hr.ctl, hr.keys_nodup⟩
  exact h0.congr (created_ok h n).1 rfl rfl rfl rfl rfl rfl rfl

/-- … also when it starts at the router's current time (a realm created later) -/
theorem keysOk_created_at {cfg : Config} {r : Realm} (h : Realm.create cfg = some r) (n t : Nat) :
    KeysOk ({ r with pubCount := n, now := t } : Realm) := by
  have hr : Realm.Reachable cfg r := .init h
  have h0 : KeysOk r := ⟨hr.inv.1, hr.inv.2, hr.ctl, hr.keys_nodup⟩
  exact h0.congr (created_ok_at h n t).1 rfl rfl rfl rfl rfl rfl rfl

/-- every realm of the table satisfies `KeysOk` -/
def RealmsKeysOk (rt : Router) : Prop := ∀ p ∈ rt.realms, KeysOk p.2

theorem realmsKeysOk_setRealm {rt : Router} (h : RealmsKeysOk rt) {A : String} {r : Realm}
    (hr : KeysOk r) (sr : List (SessKey × String)) :
    RealmsKeysOk { rt.setRealm A r with sessRealm := sr } := by
  intro p hp
  rcases mem_setRealm (rt := rt) hp with ⟨rfl, _⟩ | ⟨hp, _⟩
  · exact hr
  · exact h p hp

theorem realmsKeysOk_ensureRealm {rt : Router} (h : RealmsKeysOk rt) (name : String) :
    RealmsKeysOk (rt.ensureRealm name) := by
  rcases ensureRealm_cases rt name with e | ⟨_, t, r, _, hcr, e⟩
  · rw [e]; exact h
  · rw [e]
    intro p hp
    rcases List.mem_append.mp hp with hp | hp
    · exact h p hp
    · rw [List.mem_singleton.mp hp]
      exact keysOk_created_at hcr _ _

theorem realmsKeysOk_step {rt : Router} (h : RealmsKeysOk rt) (op : ROp) : RealmsKeysOk (rt.step op).2 := by
  cases op with
  | join name k l d ro c =>
    cases hc : (rt.closed || name == "") with
    | true => rw [step_join_refused hc]; exact h
    | false =>
      have he := realmsKeysOk_ensureRealm h name
      cases hr : (rt.ensureRealm name).realm? name with
      | none => rw [step_join_none hc hr]; exact he
      | some r =>
        rw [step_join_some hc hr]
        exact realmsKeysOk_setRealm he ((he _ (realm?_mem hr)).step (.join k l d ro c)) _
  | sess k op =>
    cases hk : rt.realmOf k with
    | none => rw [step_sess_unknown hk]; exact h
    | some A =>
      cases hr : rt.realm? A with
      | none => rw [step_sess_gone hk hr]; exact h
      | some r =>
        rw [step_sess_some hk hr]
        exact realmsKeysOk_setRealm (rt := rt) h ((h _ (realm?_mem hr)).step op) rt.sessRealm
  | tick ms =>
    rw [step_tick_eq]
    apply tickFold_all KeysOk ms rt.realms ({}, { rt with now := rt.now + ms }) h
    intro p hp
    exact (h p hp).step (.tick ms)
  | rnd n =>
    rw [step_rnd]
    intro p hp
    obtain ⟨q, hq, rfl⟩ := List.mem_map.mp hp
    have hq' : KeysOk q.2 := h q hq
    have hi : RealmInv q.2 := hq'.1
    exact KeysOk.congr hq' (hi.of_parts rfl hi.binv hi.dinv hi.bmem hi.dref hi.callers hi.retr hi.tasks hi.inb rfl)
      rfl rfl rfl rfl rfl rfl rfl
  | close => rw [step_close]; intro p hp; cases hp
  | removeRealm A =>
    cases hr : rt.realm? A with
    | none => rw [step_remove_none hr]; exact h
    | some r =>
      rw [step_remove_some hr]
      intro p hp
      exact h p (List.mem_filter.mp hp).1
  | addRealm cfg =>
    rw [step_add]
    split
    · exact h
    · split
      · rename_i r hcr
        intro p hp
        rcases List.mem_append.mp hp with hp | hp
        · exact h p hp
        · rw [List.mem_singleton.mp hp]
          exact keysOk_created_at hcr _ _
      · exact h

theorem createStep_keysOk {acc : Option Router} (h : ∀ rt, acc = some rt → RealmsKeysOk rt) (cfg : Config) :
    ∀ rt, createStep acc cfg = some rt → RealmsKeysOk rt := by
  intro rt' e
  unfold createStep at e
  split at e
  · cases e
  · rename_i rt
    have h0 := h rt rfl
    split at e
    · cases e
    · split at e
      · rename_i r hcr
        cases e
        intro p hp
        rcases List.mem_append.mp hp with hp | hp
        · exact h0 p hp
        · rw [List.mem_singleton.mp hp]
          exact keysOk_created hcr _
      · cases e

theorem foldl_createStep_keysOk : ∀ (cfgs : List Config) (acc : Option Router),
    (∀ rt, acc = some rt → RealmsKeysOk rt) → ∀ rt, cfgs.foldl createStep acc = some rt → RealmsKeysOk rt
  | [], _, h => h
  | cfg :: cfgs, _, h => foldl_createStep_keysOk cfgs _ (createStep_keysOk h cfg)

/-- In a router reachable by ANY history of well-formed operations, every realm of the table: satisfies the
    realm invariant; holds at most a fuel marker; stores no client under the meta session's key; has pairwise
    distinct client keys; marks as ending only attached sessions. -/
theorem Reachable.realmsKeysOk {rt : Router} (h : Router.Reachable rt) : RealmsKeysOk rt := by
  induction h with
  | init t h =>
    rw [create_eq] at h
    have hok := foldl_createStep_keysOk _ (some {}) (by
      intro rt0 e
      cases e
      intro p hp
      cases hp) _ h
    intro p hp
    exact hok p hp
  | step rop _ _ ih => exact realmsKeysOk_step ih rop

end Nexus.L2.Router
