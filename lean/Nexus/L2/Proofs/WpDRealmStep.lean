/-
  Quiescence at step boundaries (helpers for the step-level statements of C10).

  `Realm.step` runs every internal task an input caused "to quiescence": after a step the task
  list is empty — unless the model ran out of fuel, in which case the panic flag carries the fuel
  marker.  `step_tasks_nil` states this for one step; `Reachable.tasks_nil` for every state
  reachable from `Realm.create`.
-/
import Nexus.L2.Proofs.RealmInv

namespace Nexus.L2
namespace Realm
namespace WpD

/-- after `drain` no task is pending, or the panic flag is set (fuel marker) -/
theorem drain_tasks : ∀ (fuel : Nat) (r : Realm), (drain fuel r).tasks = [] ∨ (drain fuel r).panic ≠ none
  | 0, r => by
    rw [drain_zero]
    split
    · rename_i h; exact Or.inl (List.isEmpty_iff.mp h)
    · right
      unfold setPanic
      cases hp : r.panic with
      | none => simp
      | some x => simp [hp]
  | fuel + 1, r => by
    cases ht : r.tasks with
    | nil => rw [drain_succ_nil _ _ ht]; exact Or.inl ht
    | cons t ts => rw [drain_succ_cons _ _ t ts ht]; exact drain_tasks fuel _

theorem flush_tasks (r : Realm) : r.flush.2.tasks = r.tasks ∧ r.flush.2.panic = r.panic := by
  unfold flush
  extract_lets reading out seenClosed keep keepEmpty
  exact ⟨rfl, rfl⟩

/-- One external input other than the clock, ANY realm state: afterwards no internal task is
    pending, unless the panic flag is set. -/
theorem step_tasks_nil (r : Realm) (op : Op) (hop : ∀ ms, op ≠ .tick ms) (hp : (r.step op).2.panic = none) :
    (r.step op).2.tasks = [] := by
  rw [step_of_not_tick r op hop] at hp ⊢
  obtain ⟨h1, h2⟩ := flush_tasks (drain taskFuel (stepOp r op))
  rw [h1]
  rw [h2] at hp
  rcases drain_tasks taskFuel (stepOp r op) with h | h
  · exact h
  · exact absurd hp h

theorem advance_tasks : ∀ (fuel : Nat) {r : Realm} (target : Nat), RealmInv r → FuelOnly r.panic →
    (r.tasks = [] ∨ r.panic ≠ none) →
    (advance fuel r target).tasks = [] ∨ (advance fuel r target).panic ≠ none
  | 0, r, target, _, _, _ => by
    unfold advance
    right
    unfold setPanic
    cases r.panic with
    | none => simp
    | some x => simp
  | fuel + 1, r, target, hi, hf, ht => by
    unfold advance
    split
    · exact ht
    · rename_i d hd
      extract_lets r1 r2
      have hi1 : RealmInv r1 :=
        hi.of_parts rfl hi.binv hi.dinv hi.bmem hi.dref hi.callers hi.retr hi.tasks hi.inb rfl
      have h2 : RealmInv r2 ∧ r2.panic = r.panic := by
        cases d with
        | timer t => exact timerDue_rinv hi1 t
        | retry x => exact retryDue_rinv hi1 x (hi.retr x (nextDue_retry hd))
      obtain ⟨h3, h4⟩ := drain_inv taskFuel h2.1 (by rw [h2.2]; exact hf)
      exact advance_tasks fuel target h3 h4 (drain_tasks taskFuel r2)

/-- The clock, in a realm satisfying the invariant with no task pending: same conclusion. -/
theorem step_tick_tasks_nil {r : Realm} (hi : RealmInv r) (hf : FuelOnly r.panic) (ht : r.tasks = [] ∨ r.panic ≠ none)
    (ms : Nat) (hp : (r.step (.tick ms)).2.panic = none) : (r.step (.tick ms)).2.tasks = [] := by
  rw [step_tick] at hp ⊢
  obtain ⟨h1, h2⟩ := flush_tasks (advance 10000 r (r.now + ms))
  rw [h1]
  rw [h2] at hp
  rcases advance_tasks 10000 (r.now + ms) hi hf ht with h | h
  · exact h
  · exact absurd hp h

/-- Every reachable realm state is quiescent: no internal task is pending between two external
    inputs (or the model's fuel marker is set). -/
theorem Reachable.tasks_nil {cfg : Config} {r : Realm} (h : Reachable cfg r) : r.tasks = [] ∨ r.panic ≠ none := by
  induction h with
  | init h => exact Or.inl (create_rinv h).2.2.2.2.2.1
  | @step r0 op hr ih =>
    by_cases hp : (r0.step op).2.panic = none
    · left
      by_cases ht : ∃ ms, op = .tick ms
      · obtain ⟨ms, rfl⟩ := ht
        exact step_tick_tasks_nil hr.inv.1 hr.inv.2 ih ms hp
      · exact step_tasks_nil r0 op (fun ms e => ht ⟨ms, e⟩) hp
    · exact Or.inr hp

end WpD
end Realm
end Nexus.L2
