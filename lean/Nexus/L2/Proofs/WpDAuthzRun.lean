/-
  "Allowed messages behave exactly as without an Authorizer", at the level of whole steps and
  runs (helpers for C10, audit item a2).

  Only two functions of `Nexus.L2.Realm` read the configuration: the authorization gate
  (`cfg.authz`, `cfg.localAuthz`) and `cleanDetails` (`cfg.metaStrict`, `cfg.metaInc`).  So a realm
  `withCfg c₁ r` whose gate lets every message through behaves, under every function of the model,
  like `withCfg c₂ r` where `c₂` is `c₁` with the Authorizer removed — the configuration is carried
  along unchanged.
-/
import Nexus.L2.Proofs.RealmAuthz

namespace Nexus.L2
namespace Realm
namespace WpD
open Gen.N

/-! ### functions that do not read the configuration -/

theorem withCfg_takeTestaments (c : Config) (r : Realm) (k : SessKey) :
    (withCfg c r).takeTestaments k = ((r.takeTestaments k).1, withCfg c (r.takeTestaments k).2) := by
  unfold takeTestaments
  cfg_simp
  split <;> rfl

theorem withCfg_leaveSend (c : Config) (r : Realm) (k : SessKey) (mode : LeaveMode) :
    leaveSend (withCfg c r) k mode = withCfg c (leaveSend r k mode) := by
  cases mode <;> first | exact withCfg_trySend _ _ _ | rfl

theorem withCfg_leaveRemove (c : Config) (r : Realm) (k : SessKey) (quiet : Bool) :
    leaveRemove (withCfg c r) k quiet = withCfg c (leaveRemove r k quiet) := by
  unfold leaveRemove
  cfg_simp
  simp only [withCfg_applyD]
  cfg_tac

theorem withCfg_leaveAnnounce (c : Config) (r : Realm) (s : Session) (tst : Option TBucket) (silent : Bool) :
    leaveAnnounce (withCfg c r) s tst silent = withCfg c (leaveAnnounce r s tst silent) := by
  unfold leaveAnnounce
  split <;> rfl

theorem withCfg_leaveClose (c : Config) (r : Realm) (s : Session) :
    leaveClose (withCfg c r) s = withCfg c (leaveClose r s) := rfl

theorem withCfg_leave (c : Config) (r : Realm) (k : SessKey) (mode : LeaveMode) :
    (withCfg c r).leave k mode = withCfg c (r.leave k mode) := by
  cases hf : r.clients.find? (fun c => c.key == k) with
  | none => rw [leave_none mode hf, leave_none mode (r := withCfg c r) hf]
  | some s =>
    rw [leave_some mode hf, leave_some mode (r := withCfg c r) hf]
    simp only [withCfg_leaveSend, withCfg_takeTestaments, withCfg_leaveRemove, withCfg_leaveAnnounce,
      withCfg_leaveClose]

theorem withCfg_killWhere (c : Config) (r : Realm) (sel : Session → Bool) (g : Msg) (ka : Bool) :
    (withCfg c r).killWhere sel g ka = ((r.killWhere sel g ka).1, withCfg c (r.killWhere sel g ka).2) := rfl

theorem withCfg_timerDue (c : Config) (r : Realm) (t : Timer) :
    (withCfg c r).timerDue t = withCfg c (r.timerDue t) := by
  unfold timerDue
  cfg_simp
  exact withCfg_applyD ..

theorem withCfg_nextDue (c : Config) (r : Realm) (limit : Nat) : (withCfg c r).nextDue limit = r.nextDue limit := rfl

theorem withCfg_flush (c : Config) (r : Realm) :
    (withCfg c r).flush = (r.flush.1, withCfg c r.flush.2) := rfl


/-! ### `cleanDetails` and the meta procedures read `metaStrict` / `metaInc` only -/

structure SameMeta (c₁ c₂ : Config) : Prop where
  strict : c₁.metaStrict = c₂.metaStrict
  inc : c₁.metaInc = c₂.metaInc

theorem withCfg_cleanDetails {c : Config} {r : Realm} (h : SameMeta c r.cfg) (d : Dict) :
    (withCfg c r).cleanDetails d = r.cleanDetails d := by
  unfold cleanDetails
  have e1 : (withCfg c r).cfg.metaStrict = r.cfg.metaStrict := h.strict
  have e2 : (withCfg c r).cfg.metaInc = r.cfg.metaInc := h.inc
  rw [e1, e2]

theorem withCfg_keyOfSid (c : Config) (r : Realm) (sid : Nat) : (withCfg c r).keyOfSid sid = r.keyOfSid sid := rfl


theorem ite_pair {α β : Type} (c : Prop) [Decidable c] (f : β → β) (a a' b b' : α × β)
    (ha : c → a = (a'.1, f a'.2)) (hb : ¬c → b = (b'.1, f b'.2)) :
    (if c then a else b) = ((if c then a' else b').1, f (if c then a' else b').2) := by
  split
  · exact ha ‹_›
  · exact hb ‹_›

/-- a meta procedure run in `withCfg c r` (c agreeing with `r.cfg` on `metaStrict`/`metaInc`)
    answers as in `r` and returns the same state, configuration carried along -/
theorem withCfg_metaProc {c : Config} {r : Realm} (h : SameMeta c r.cfg) (proc : String) (req : Nat) (details : Dict)
    (args : List WVal) (kw : Dict) :
    metaProc (withCfg c r) proc req details args kw =
      ((metaProc r proc req details args kw).1, withCfg c (metaProc r proc req details args kw).2) := by
  unfold metaProc
  simp only [withCfg_cleanDetails h, withCfg_keyOfSid, withCfg_killWhere]
  cfg_simp
  repeat' (refine ite_pair _ _ _ _ _ _ (fun _ => ?_) (fun _ => ?_))
  all_goals (repeat' split)
  all_goals first | rfl | (exfalso; simp_all; done) | (simp_all; done) | (exfalso; grind)


theorem withCfg_retryDue (c : Config) (r : Realm) (x : Retry) :
    (withCfg c r).retryDue x = withCfg c (r.retryDue x) := by
  unfold retryDue
  cfg_simp
  simp only [withCfg_applyD]
  cfg_simp
  split
  · rename_i h1
    split
    · rfl
    · rename_i h2; exact absurd h1 h2
  · rename_i h1
    split
    · rename_i h2; exact absurd h2 h1
    · rfl

/-! ### two configurations whose gates let everything through -/

/-- the authorization gate of configuration `c` refuses nothing -/
def GatePass (c : Config) : Prop :=
  ∀ (r : Realm) (s : Session) (m : Msg), authzGate (withCfg c r) s m = (true, withCfg c r)

theorem gatePass_none (c : Config) (h : c.authz = none) : GatePass c := by
  intro r s m
  rw [authzGate_eq_gateG]
  show gateG (c.authz.map authzDecision) c.localAuthz (withCfg c r) s m = _
  rw [h]
  rfl

/-- an Authorizer that returns true for every message (with or without an error) -/
theorem gatePass_allowAll (c : Config) (rules : List AuthzRule) (h : c.authz = some rules)
    (hall : ∀ k m, authzDecision rules k m = "allow" ∨ authzDecision rules k m = "allowerr") : GatePass c := by
  intro r s m
  rw [authzGate_eq_gateG]
  show gateG (c.authz.map authzDecision) c.localAuthz (withCfg c r) s m = _
  rw [h, Option.map_some]
  exact gateG_allow _ _ _ s m (hall s.key m)

theorem handleMsg_pass {c : Config} (h : GatePass c) (r : Realm) (s : Session) (m : Msg) :
    handleMsg (withCfg c r) s m = withCfg c (dispatch r s m) := by
  rw [handleMsg_eq, h r s m]
  exact dispatch_withCfg c r s m

/-- `c₁` and `c₂` differ at most in the Authorizer (and `localAuthz`, `uri`, … which no function
    behind the gate reads), and neither Authorizer refuses anything -/
structure Alike (c₁ c₂ : Config) : Prop where
  sameMeta : SameMeta c₁ c₂
  pass₁ : GatePass c₁
  pass₂ : GatePass c₂

variable {c₁ c₂ : Config}

theorem Alike.self₂ (h : Alike c₁ c₂) : Alike c₂ c₂ := ⟨⟨rfl, rfl⟩, h.pass₂, h.pass₂⟩

theorem alike_handleMsg (h : Alike c₁ c₂) (r : Realm) (s : Session) (m : Msg) :
    handleMsg (withCfg c₁ r) s m = withCfg c₁ (handleMsg (withCfg c₂ r) s m) := by
  rw [handleMsg_pass h.pass₁, handleMsg_pass h.pass₂]; rfl

theorem alike_recvMsg (h : Alike c₁ c₂) (r : Realm) (k : SessKey) (m : Msg) :
    (withCfg c₁ r).recvMsg k m = withCfg c₁ ((withCfg c₂ r).recvMsg k m) := by
  rw [recvMsg_eq, recvMsg_eq]
  show (match r.clients.find? (fun c => c.key == k) with | none => _ | some s => _) =
    withCfg c₁ (match r.clients.find? (fun c => c.key == k) with | none => _ | some s => _)
  split
  · rfl
  · show (if r.ending.contains k then _ else if r.busy k then _ else _) =
      withCfg c₁ (if r.ending.contains k then _ else if r.busy k then _ else _)
    split
    · rfl
    · split
      · split <;> rfl
      · exact alike_handleMsg h r _ m

theorem alike_metaProc (h : Alike c₁ c₂) (r : Realm) (proc : String) (req : Nat) (details : Dict)
    (args : List WVal) (kw : Dict) :
    metaProc (withCfg c₁ r) proc req details args kw =
      ((metaProc (withCfg c₂ r) proc req details args kw).1,
       withCfg c₁ (metaProc (withCfg c₂ r) proc req details args kw).2) :=
  withCfg_metaProc (c := c₁) (r := withCfg c₂ r) h.sameMeta proc req details args kw

theorem alike_runTask (h : Alike c₁ c₂) (r : Realm) (t : Task) :
    (withCfg c₁ r).runTask t = withCfg c₁ ((withCfg c₂ r).runTask t) := by
  cases t with
  | inMsg k m => exact alike_recvMsg h r k m
  | metaPub p =>
    show handlePublish (withCfg c₁ r) _ _ _ _ _ _ = withCfg c₁ (handlePublish (withCfg c₂ r) _ _ _ _ _ _)
    rw [withCfg_handlePublish, withCfg_handlePublish]; rfl
  | metaInvoke req reg details args kw =>
    rw [runTask_metaInvoke, runTask_metaInvoke]
    show (match r.metaProcs.find? (fun p => p.1 == reg) with | none => _ | some (_, proc) => _) =
      withCfg c₁ (match r.metaProcs.find? (fun p => p.1 == reg) with | none => _ | some (_, proc) => _)
    split
    · rfl
    · rw [alike_metaProc h]; rfl
  | metaMsg m => exact alike_handleMsg h r _ m
  | leave k mode =>
    rw [runTask_leave, runTask_leave]
    show (if r.busy k then _ else _) = withCfg c₁ (if r.busy k then _ else _)
    split
    · rfl
    · rw [withCfg_leave, withCfg_leave]; rfl

theorem alike_drain (h : Alike c₁ c₂) : ∀ (fuel : Nat) (r : Realm),
    drain fuel (withCfg c₁ r) = withCfg c₁ (drain fuel (withCfg c₂ r))
  | 0, r => by
    rw [drain_zero, drain_zero]
    show (if r.tasks.isEmpty then _ else _) = withCfg c₁ (if r.tasks.isEmpty then _ else _)
    split
    · rfl
    · rw [withCfg_setPanic, withCfg_setPanic]; rfl
  | fuel + 1, r => by
    cases ht : r.tasks with
    | nil => rw [drain_succ_nil _ (withCfg c₁ r) ht, drain_succ_nil _ (withCfg c₂ r) ht]; rfl
    | cons t ts =>
      rw [drain_succ_cons _ (withCfg c₁ r) t ts ht, drain_succ_cons _ (withCfg c₂ r) t ts ht]
      show drain fuel ((withCfg c₁ { r with tasks := ts }).runTask t) =
        withCfg c₁ (drain fuel ((withCfg c₂ { r with tasks := ts }).runTask t))
      rw [alike_runTask h, alike_drain h fuel, ← alike_runTask h.self₂]

theorem alike_stepOp (h : Alike c₁ c₂) (r : Realm) (op : Op) :
    (withCfg c₁ r).stepOp op = withCfg c₁ ((withCfg c₂ r).stepOp op) := by
  cases op with
  | join k isLocal details roles cap =>
    rw [stepOp_join, stepOp_join]
    have e : (withCfg c₁ r).cleanDetails details = (withCfg c₂ r).cleanDetails details :=
      withCfg_cleanDetails (c := c₁) (r := withCfg c₂ r) h.sameMeta details
    rw [e]
    show (if (k == metaKey || r.clients.any (fun c => c.key == k)) = true then _ else _) =
      withCfg c₁ (if (k == metaKey || r.clients.any (fun c => c.key == k)) = true then _ else _)
    split <;> rfl
  | msg k m => exact alike_recvMsg h r k m
  | buffer k => rfl
  | drop k =>
    rw [stepOp_drop, stepOp_drop]
    show (if (!r.clients.any (fun c => c.key == k)) = true then _ else if r.ending.contains k then _ else _) =
      withCfg c₁ (if (!r.clients.any (fun c => c.key == k)) = true then _ else if r.ending.contains k then _ else _)
    split
    · rfl
    split <;> rfl
  | stall k => rfl
  | resume k => rfl
  | tick ms => rfl
  | rnd n => rfl

theorem alike_advance (h : Alike c₁ c₂) : ∀ (fuel : Nat) (r : Realm) (target : Nat),
    advance fuel (withCfg c₁ r) target = withCfg c₁ (advance fuel (withCfg c₂ r) target)
  | 0, r, target => by
    unfold advance
    show (withCfg c₁ { r with now := target }).setPanic _ = withCfg c₁ ((withCfg c₂ { r with now := target }).setPanic _)
    rw [withCfg_setPanic, withCfg_setPanic]; rfl
  | fuel + 1, r, target => by
    rw [advance, advance]
    rw [withCfg_nextDue, withCfg_nextDue]
    cases hd : r.nextDue target with
    | none => rfl
    | some d =>
      dsimp only
      cases d with
      | timer t =>
        show advance fuel (drain taskFuel ((withCfg c₁ { r with now := max r.now t.deadline }).timerDue t)) target =
          withCfg c₁ (advance fuel (drain taskFuel ((withCfg c₂ { r with now := max r.now t.deadline }).timerDue t)) target)
        rw [withCfg_timerDue, withCfg_timerDue]
        generalize ({ r with now := max r.now t.deadline } : Realm).timerDue t = r'
        rw [alike_drain h, alike_advance h fuel, ← alike_drain h.self₂]
      | retry x =>
        show advance fuel (drain taskFuel ((withCfg c₁ { r with now := max r.now x.next }).retryDue x)) target =
          withCfg c₁ (advance fuel (drain taskFuel ((withCfg c₂ { r with now := max r.now x.next }).retryDue x)) target)
        rw [withCfg_retryDue, withCfg_retryDue]
        generalize ({ r with now := max r.now x.next } : Realm).retryDue x = r'
        rw [alike_drain h, alike_advance h fuel, ← alike_drain h.self₂]


/-- ONE STEP: what becomes observable is the same, and the new states differ in the configuration
    only. -/
theorem alike_step (h : Alike c₁ c₂) (r : Realm) (op : Op) :
    (withCfg c₁ r).step op = (((withCfg c₂ r).step op).1, withCfg c₁ ((withCfg c₂ r).step op).2) := by
  by_cases ht : ∃ ms, op = .tick ms
  · obtain ⟨ms, rfl⟩ := ht
    rw [step_tick, step_tick]
    show flush (advance 10000 (withCfg c₁ r) (r.now + ms)) = _
    rw [alike_advance h, withCfg_flush]
    rfl
  · rw [step_of_not_tick _ op (fun ms e => ht ⟨ms, e⟩), step_of_not_tick _ op (fun ms e => ht ⟨ms, e⟩)]
    rw [alike_stepOp h, alike_drain h, withCfg_flush, ← alike_stepOp h.self₂]

/-- a step keeps the configuration it was started with -/
theorem step_withCfg_idem (h : Alike c₁ c₂) (r : Realm) (op : Op) :
    withCfg c₂ ((withCfg c₂ r).step op).2 = ((withCfg c₂ r).step op).2 := by
  have := alike_step h.self₂ r op
  exact (congrArg Prod.snd this).symm

/-- a run of external inputs: observations and final state -/
def runOps (r : Realm) : List Op → List Observed × Realm
  | [] => ([], r)
  | op :: ops => ((r.step op).1 :: (runOps (r.step op).2 ops).1, (runOps (r.step op).2 ops).2)

/-- WHOLE RUNS: the same observation at every step; the final states differ in the configuration
    only. -/
theorem alike_run (h : Alike c₁ c₂) : ∀ (ops : List Op) (r : Realm),
    runOps (withCfg c₁ r) ops = ((runOps (withCfg c₂ r) ops).1, withCfg c₁ (runOps (withCfg c₂ r) ops).2)
  | [], r => rfl
  | op :: ops, r => by
    simp only [runOps]
    rw [alike_step h r op]
    dsimp only
    rw [alike_run h ops, step_withCfg_idem h]

end WpD
end Realm
end Nexus.L2
