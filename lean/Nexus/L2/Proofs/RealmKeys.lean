/-
  Session keys of reachable realms.

  `Realm.stepOp` treats the inputs that cannot occur as no-ops: a `join` under the meta session's key or
  under the key of an attached client (session ids are drawn by the router), a `drop` of a key that names
  no attached client (only an attached client has a transport to lose).  Hence, for EVERY history of
  inputs (`Realm.Reachable`, no side condition on the keys the inputs use):

    * no client is stored under the meta session's key            (`MetaSafe.noClient`, WpCMeta.lean)
    * the keys of the attached clients are pairwise distinct       (`keys_nodup`, here)
    * every key in `ending` is the key of an attached client       (`CtlInv.ending`, WpCCtl.lean)

  collected in `Realm.Reachable.clients_wf`, with the look-up corollaries used by the property files
  (`session?` of a client key is `client?`, `find?` by key finds the client itself).
-/
import Nexus.L2.Proofs.WpCCtl
import Nexus.L2.Proofs.RealmQueue
import Nexus.L2.Proofs.RealmLeave

namespace Nexus.L2.WpC
open Nexus.L2 Nexus.L2.Realm Nexus.Gen.N

/-- the keys of the attached clients, in attachment order -/
def keys (r : Realm) : List SessKey := r.clients.map (·.key)

/-- one internal task only removes keys (a departure) -/
theorem keys_taskAct {r r' : Realm} (h : TaskAct r r') : (keys r').Sublist (keys r) := by
  cases h with
  | eff h => unfold keys; rw [h.clients]; exact List.Sublist.refl _
  | invoke h => unfold keys; rw [h.keys]; exact List.Sublist.refl _
  | defer k mode hk hb => exact List.Sublist.refl _
  | leave k mode s hk hf hb =>
    obtain ⟨_, _, _, _, _, _, _, c8, _⟩ := leave_ctl mode hf
    unfold keys; rw [c8]
    exact List.filter_sublist.map _
  | none => exact List.Sublist.refl _

theorem keys_setPanic (r : Realm) (p : Option String) : keys (r.setPanic p) = keys r := by
  unfold keys; rw [(eff_setPanic (P := fun _ => False) (Q := fun _ => False) r p).clients]

theorem keys_drain : ∀ (fuel : Nat) {r : Realm}, CtlInv r → (keys (drain fuel r)).Sublist (keys r)
  | 0, r, _ => by
    rw [drain_zero]
    split
    · exact List.Sublist.refl _
    · rw [keys_setPanic]; exact List.Sublist.refl _
  | fuel + 1, r, hc => by
    cases ht : r.tasks with
    | nil => rw [drain_succ_nil _ _ ht]; exact List.Sublist.refl _
    | cons t ts =>
      rw [drain_succ_cons _ _ t ts ht]
      have h1 := (hc.tail ht).1
      have h2 := (hc.tail ht).2
      have h3 : (keys (({ r with tasks := ts } : Realm).runTask t)).Sublist (keys ({ r with tasks := ts } : Realm)) :=
        keys_taskAct (runTask_act h1.safe t h2)
      exact (keys_drain fuel (h1.runTask t h2)).trans h3

theorem keys_timerDue (r : Realm) (t : Timer) : keys (r.timerDue t) = keys r := by
  unfold keys; rw [(eff_timerDue (P := fun _ => False) (Q := fun _ => False) r t).clients]

theorem keys_retryDue (r : Realm) (x : Retry) : keys (r.retryDue x) = keys r := by
  have hcl : (r.retryDue x).clients = r.clients := by
    rw [retryDue_eq]; split <;> exact dapplyD_clients _ _
  unfold keys; rw [hcl]

theorem keys_advance : ∀ (fuel : Nat) {r : Realm} (target : Nat), RealmInv r → FuelOnly r.panic → CtlInv r →
    (keys (advance fuel r target)).Sublist (keys r)
  | 0, r, target, _, _, _ => by
    unfold Realm.advance
    rw [keys_setPanic]; exact List.Sublist.refl _
  | fuel + 1, r, target, hi, hp, hc => by
    unfold Realm.advance
    split
    · exact List.Sublist.refl _
    · rename_i d hd
      extract_lets r1 r2
      have hi1 : RealmInv r1 :=
        hi.of_parts rfl hi.binv hi.dinv hi.bmem hi.dref hi.callers hi.retr hi.tasks hi.inb rfl
      have hc1 : CtlInv r1 :=
        hc.congr ⟨hc.safe.noClient, hc.safe.ending, hc.safe.tasks, hc.safe.deferred, hc.safe.retries, hc.safe.mkey,
          hc.safe.metaPPT⟩ rfl rfl rfl rfl
      have h2 : (RealmInv r2 ∧ r2.panic = r.panic) ∧ CtlInv r2 ∧ keys r2 = keys r := by
        cases d with
        | timer t => exact ⟨timerDue_rinv hi1 t, hc1.timerDue t, keys_timerDue r1 t⟩
        | retry x =>
          exact ⟨retryDue_rinv hi1 x (hi.retr x (nextDue_retry hd)), CtlInv.retryDue hi1 hc1 (nextDue_retry hd),
            keys_retryDue r1 x⟩
      obtain ⟨h3, h4⟩ := drain_inv taskFuel h2.1.1 (by rw [h2.1.2]; exact hp)
      have := (keys_advance fuel target h3 h4 (CtlInv.drain taskFuel h2.2.1)).trans (keys_drain taskFuel h2.2.1)
      rw [h2.2.2] at this
      exact this

theorem keys_flush (r : Realm) : keys r.flush.2 = keys r := by
  unfold keys; rw [(flush_ctl r).2.2.1]

/-- an external input keeps the keys distinct: a `join` under a key in use is a no-op -/
theorem keys_nodup_stepOp {r : Realm} (hm : MetaSafe r) (h : (keys r).Nodup) (op : Op) : (keys (r.stepOp op)).Nodup := by
  cases op with
  | join k isLocal details roles cap =>
    rw [stepOp_join]
    split
    · exact h
    rename_i hg
    have hfc := (join_guard_false hg).2
    show (List.map (·.key) (r.clients ++ [_])).Nodup
    rw [List.map_append, List.nodup_append]
    refine ⟨h, by simp, ?_⟩
    intro a ha b hb
    simp at hb; subst hb
    obtain ⟨c, hc, rfl⟩ := List.mem_map.mp ha
    exact hfc c hc
  | msg k m =>
    exact (keys_taskAct (runTask_act hm (.inMsg k m) trivial)).nodup h
  | buffer k =>
    rw [stepOp_buffer]
    have : keys ({ r with clients := r.clients.map (fun c => if c.key == k then { c with buffered := true } else c) } : Realm) =
        keys r := by
      unfold keys; rw [List.map_map]; apply List.map_congr_left; intro c _; simp only [Function.comp]; split <;> rfl
    rw [this]; exact h
  | drop k =>
    rw [stepOp_drop]
    split
    · exact h
    split <;> exact h
  | stall k =>
    rw [stepOp_stall]
    have : keys ({ r with clients := r.clients.map (fun c => if c.key == k then { c with stalled := true } else c) } : Realm) =
        keys r := by
      unfold keys; rw [List.map_map]; apply List.map_congr_left; intro c _; simp only [Function.comp]; split <;> rfl
    rw [this]; exact h
  | resume k =>
    rw [stepOp_resume]
    have : keys ({ r with clients := r.clients.map (fun c => if c.key == k then { c with stalled := false } else c),
                          ghosts := r.ghosts.filter (· != k) } : Realm) = keys r := by
      unfold keys; rw [List.map_map]; apply List.map_congr_left; intro c _; simp only [Function.comp]; split <;> rfl
    rw [this]; exact h
  | tick ms => exact h
  | rnd n => exact h

theorem keys_nodup_step {r : Realm} (hi : RealmInv r) (hp : FuelOnly r.panic) (hc : CtlInv r) (h : (keys r).Nodup)
    (op : Op) : (keys (r.step op).2).Nodup := by
  by_cases ht : ∃ ms, op = .tick ms
  · obtain ⟨ms, rfl⟩ := ht
    rw [step_tick, keys_flush]
    exact (keys_advance _ _ hi hp hc).nodup h
  · rw [step_of_not_tick r op (fun ms e => ht ⟨ms, e⟩), keys_flush]
    exact (keys_drain _ (hc.stepOp' op)).nodup (keys_nodup_stepOp hc.safe h op)

end Nexus.L2.WpC

namespace Nexus.L2.Realm
open Nexus.L2.WpC

/-- the keys of the attached clients of a reachable realm are pairwise distinct — ANY history of inputs -/
theorem Reachable.keys_nodup {cfg : Config} {r : Realm} (h : Reachable cfg r) : (r.clients.map (·.key)).Nodup := by
  induction h with
  | init h =>
    obtain ⟨_, _, hc, _⟩ := create_rinv h
    rw [hc]; exact List.nodup_nil
  | step op hr ih => exact keys_nodup_step hr.inv.1 hr.inv.2 hr.ctl ih op

/-- SESSION KEYS OF A REACHABLE REALM, for every history of inputs whatsoever: no client is stored under the
    meta session's key; client keys are pairwise distinct; every session marked as ending is attached. -/
theorem Reachable.clients_wf {cfg : Config} {r : Realm} (h : Reachable cfg r) :
    (∀ c ∈ r.clients, c.key ≠ metaKey) ∧ (r.clients.map (·.key)).Nodup ∧
    (∀ k ∈ r.ending, r.clients.any (·.key == k) = true) := by
  refine ⟨h.metaSafe.noClient, h.keys_nodup, ?_⟩
  intro k hk
  obtain ⟨c, hc, e⟩ := h.ctl.ending k hk
  exact List.any_eq_true.mpr ⟨c, hc, by simp [e]⟩

/-- WHO THE REALM'S OWN PER-SESSION TABLES REFER TO, in every reachable realm (any history of inputs): every
    session marked as ending, every session with a deferred departure (its handler is in the yield retry loop),
    every session with input waiting in its transport, every owner of a testament bucket IS AN ATTACHED CLIENT
    (in particular not the meta session); a handler in the retry loop belongs to an attached client or to the
    meta session. -/
theorem Reachable.refs_wf {cfg : Config} {r : Realm} (h : Reachable cfg r) :
    (∀ k ∈ r.ending, r.isClient k) ∧
    (∀ d ∈ r.deferred, r.isClient d.1 ∧ r.busy d.1 = true) ∧
    (∀ e ∈ r.inbox, r.isClient e.1) ∧
    (∀ t ∈ r.testaments, r.isClient t.1) ∧
    (∀ x ∈ r.retries, x.callee = metaKey ∨ r.isClient x.callee) := by
  have hi := h.inv.1
  have hc := h.ctl
  refine ⟨hc.ending, ?_, ?_, h.testaments, hi.retr⟩
  · intro d hd
    have hb := hc.defBusy d hd
    refine ⟨?_, hb⟩
    obtain ⟨x, hx, hxk⟩ := List.any_eq_true.mp hb
    have hxk' : x.callee = d.1 := by simpa using hxk
    rcases hi.retr x hx with hm | hcl
    · exact absurd (hxk' ▸ hm) (hc.safe.deferred d hd)
    · exact hxk' ▸ hcl
  · intro e he
    obtain ⟨⟨c, hcm, hck, _⟩, _⟩ := hi.inb e he
    exact ⟨c, hcm, hck⟩

/-- … hence the key of an attached client is not the meta session's -/
theorem Reachable.client_ne_meta {cfg : Config} {r : Realm} (h : Reachable cfg r) {k : SessKey} (hk : r.isClient k) :
    k ≠ metaKey := h.metaSafe.client_ne hk

/-- … looking a client up by its key finds that very client -/
theorem Reachable.find?_client {cfg : Config} {r : Realm} (h : Reachable cfg r) {c : Session} (hc : c ∈ r.clients) :
    r.clients.find? (fun s => s.key == c.key) = some c := by
  have hn := h.keys_nodup
  generalize r.clients = l at hc hn
  induction l with
  | nil => cases hc
  | cons a l ih =>
    rw [List.map_cons, List.nodup_cons] at hn
    rw [List.find?_cons]
    rcases List.mem_cons.mp hc with rfl | hc'
    · simp
    · have hne : a.key ≠ c.key := fun e => hn.1 (e ▸ List.mem_map.mpr ⟨c, hc', rfl⟩)
      have : (a.key == c.key) = false := by simpa using hne
      rw [this]
      exact ih hc' hn.2

/-- … and the realm's session table (`session?`: the meta session or an attached client) coincides with the
    client table on every key but the meta session's, where it is the meta session and no client -/
theorem Reachable.session?_client {cfg : Config} {r : Realm} (h : Reachable cfg r) {c : Session} (hc : c ∈ r.clients) :
    r.session? c.key = some c := by
  unfold Realm.session?
  rw [if_neg (h.metaSafe.noClient c hc)]
  exact h.find?_client hc

/-- `client?` / `find?` by key: the key found is not the meta session's -/
theorem Reachable.client?_ne_meta {cfg : Config} {r : Realm} (h : Reachable cfg r) {k : SessKey} {c : Session}
    (hc : r.client? k = some c) : k ≠ metaKey :=
  h.metaSafe.client_ne ⟨c, (client?_mem hc).1, (client?_mem hc).2⟩

theorem Reachable.find?_ne_meta {cfg : Config} {r : Realm} (h : Reachable cfg r) {k : SessKey} {c : Session}
    (hc : r.clients.find? (fun s => s.key == k) = some c) : k ≠ metaKey :=
  h.client?_ne_meta (r := r) hc

/-- on the key of a client the two tables agree: the realm's session table finds exactly what the client
    table finds -/
theorem Reachable.session?_of_client? {cfg : Config} {r : Realm} (h : Reachable cfg r) {k : SessKey} {c : Session}
    (hc : r.client? k = some c) : r.session? k = some c := by
  unfold Realm.session?
  rw [if_neg (h.client?_ne_meta hc)]
  exact hc

/-- … and on every key but the meta session's `session?` IS `client?` (by definition); on the meta session's
    key `client?` finds nothing -/
theorem Reachable.session?_eq {cfg : Config} {r : Realm} (h : Reachable cfg r) (k : SessKey) :
    (k ≠ metaKey → r.session? k = r.client? k) ∧ r.client? metaKey = none ∧ r.session? metaKey = some r.metaS := by
  refine ⟨fun hk => ?_, ?_, ?_⟩
  · unfold Realm.session? Realm.client?; rw [if_neg hk]
  · apply List.find?_eq_none.mpr
    intro c hc
    simpa using h.metaSafe.noClient c hc
  · unfold Realm.session?; rw [if_pos rfl]

theorem Reachable.find?_meta {cfg : Config} {r : Realm} (h : Reachable cfg r) :
    r.clients.find? (fun s => s.key == metaKey) = none := by
  apply List.find?_eq_none.mpr
  intro c hc
  simpa using h.metaSafe.noClient c hc

end Nexus.L2.Realm
