/-
  Declarative vocabulary used by the statements of C01, C08, C12 and C20 (broker half).
  DEFINITIONS ONLY — no lemma of the proof development lives here, so that the meaning
  of a property theorem in `Nexus/Props/*.lean` can be read off this file and the model.

  Everything here is written from the property texts (properties.jsonl), not from the
  model's code: `ruledOut` does not mention `mkFilter`/`Filter.allowed`, `Expected` does not
  mention `syncPublish`, `retained` does not mention `Hist.save`.
-/
import Nexus.L2.Proofs.Broker

namespace Nexus.L2
open Gen.N

/-! ### C01: who is ruled out by the exclude/eligible options of a publication -/

/-- `n` is one of the valid ids (per `wamp.AsID`) listed under option `key`. -/
def IsIdOf (opts : Dict) (key : String) (n : Nat) : Prop :=
  ∃ v l x, opts.get? key = some v ∧ v.asList = some l ∧ x ∈ l ∧ x.asID = some n

/-- Session attribute `attr` (a key of the session details) has the non-empty string value `a`. -/
def HasAttr (details : Dict) (attr a : String) : Prop :=
  a ≠ "" ∧ details.get? attr = some (.str a)

/-- The session with id `sid` and details `details` is ruled out by the publish options:
    * its id is in `exclude`; or
    * `eligible` lists at least one valid id and not this one; or
    * some key `exclude_<attr>` has a list value containing the session's (non-empty, string)
      attribute `<attr>`; or
    * some key `eligible_<attr>` has a list value with at least one non-empty string, and the
      session's attribute `<attr>` is missing / empty / not a string / not in that list. -/
def ruledOut (opts : Dict) (sid : Nat) (details : Dict) : Prop :=
  IsIdOf opts "exclude" sid ∨
  ((∃ n, IsIdOf opts "eligible" n) ∧ ¬ IsIdOf opts "eligible" sid) ∨
  (∃ attr v l a, ("exclude_" ++ attr, v) ∈ opts ∧ v.asList = some l ∧
      HasAttr details attr a ∧ WVal.str a ∈ l) ∨
  (∃ attr v l, ("eligible_" ++ attr, v) ∈ opts ∧ v.asList = some l ∧
      (∃ s, s ≠ "" ∧ WVal.str s ∈ l) ∧ ¬ ∃ a, HasAttr details attr a ∧ WVal.str a ∈ l)

/-! ### C01: who must receive a publication -/

/-- Session `k`, attached as `c`, must receive publication `p` through subscription `s`. -/
def Expected (b : Broker) (sess : SessKey → Option Session) (p : Publication)
    (s : Sub) (k : SessKey) (c : Session) : Prop :=
  s ∈ b.subs ∧ s.matchesTopic p.topic = true ∧ k ∈ s.members ∧ sess k = some c ∧
  ¬(c.key = p.publisher ∧ p.excludePub = true) ∧ ¬ ruledOut p.opts (sidOf c.key) c.details

/-- The EVENT that `c` must get through `s`: the subscription's id, the publication's id, the
    per-recipient details, the publisher's arguments. -/
def expectedEvent (p : Publication) (s : Sub) (c : Session) : Msg :=
  .event s.id p.pubId (eventDetails p s.isPattern (some c)) p.args p.kw

/-- subscription id carried by an EVENT -/
def Msg.eventSub? : Msg → Option Nat
  | .event sub _ _ _ _ => some sub
  | _ => none

/-- The messages of `sends` that go to session `k` as EVENTs of subscription `id`, in order. -/
def through (sends : List Send) (k : SessKey) (id : Nat) : List Send :=
  sends.filter (fun x => x.to == k && x.msg.eventSub? == some id)

/-- A session table is coherent when the session stored under key `k` has key `k`
    (true of `Realm.session?` for every attached client). -/
def SessCoherent (sess : SessKey → Option Session) : Prop :=
  ∀ k c, sess k = some c → c.key = k

/-- What session `k` must find in its queue, through subscription `s`, for publication `p`:
    the expected EVENT if `(s, k)` is an expected pair, nothing otherwise.  (Depends on the broker
    only through `s`, and on the session table only through `sess k`.) -/
noncomputable def deliveryOf (sess : SessKey → Option Session) (p : Publication) (s : Sub) (k : SessKey) :
    List Send :=
  open Classical in
  match sess k with
  | some c =>
    if s.matchesTopic p.topic = true ∧ k ∈ s.members ∧
       ¬(c.key = p.publisher ∧ p.excludePub = true) ∧ ¬ ruledOut p.opts (sidOf c.key) c.details
    then [⟨k, expectedEvent p s c⟩] else []
  | none => []

/-- publishing a list of publications in order, collecting all messages sent -/
def Broker.publishAll (b : Broker) : List ((SessKey → Option Session) × Nat × Publication) → Broker × List Send
  | [] => (b, [])
  | (sess, now, p) :: rest =>
    let r := b.syncPublish sess now p
    let r' := Broker.publishAll r.1 rest
    (r'.1, r.2 ++ r'.2)

/-- publication id carried by an EVENT -/
def Msg.eventPub? : Msg → Option Nat
  | .event _ pub _ _ _ => some pub
  | _ => none

/-! ### C12: publisher identity -/

/-- the three detail keys that reveal the publisher -/
def isPublisherKey (key : String) : Prop :=
  key = "publisher" ∨ key = "publisher_authid" ∨ key = "publisher_authrole"

/-- Is the publisher's identity to be disclosed to recipient `r`?  Only when the publication asked
    for it (and the realm allowed it: `p.disclose` is set by `broker.publish` only then) and the
    recipient announced `subscriber.features.publisher_identification`.  Never for the history
    store (`r = none`). -/
def disclosedTo (p : Publication) (r : Option Session) : Bool :=
  match r with
  | some s => p.disclose && s.hasFeature RoleSubscriber FeaturePubIdent
  | none => false

/-! ### C20: broker histories and what a store must retain -/

/-- One step of the broker goroutine. -/
inductive BStep where
  | publish (sess : SessKey → Option Session) (now : Nat) (p : Publication)
  | subscribe (k : SessKey) (req : Nat) (topic «match» : String) (pub0 : Nat)
  | unsubscribe (k : SessKey) (req subId pub0 : Nat)
  | removeSession (k : SessKey) (pub0 : Nat)

def BStep.isPublish : BStep → Bool
  | .publish .. => true
  | _ => false

def Broker.step (b : Broker) : BStep → Broker
  | .publish sess now p => (b.syncPublish sess now p).1
  | .subscribe k req topic m pub0 => (b.syncSubscribe k req topic m pub0).1
  | .unsubscribe k req subId pub0 => (b.syncUnsubscribe k req subId pub0).1
  | .removeSession k pub0 => (b.syncRemoveSession k pub0).1

def Broker.run (b : Broker) (steps : List BStep) : Broker := steps.foldl Broker.step b

/-- The last `n` elements of a list, in their order. -/
def lastN {α : Type} (n : Nat) (l : List α) : List α := l.drop (l.length - n)

/-- The entry a store of subscription `s` must hold for publication `p` made at time `now`:
    publication id, arguments, and `details.topic = p.topic` iff `s` is pattern-based. -/
def retainedEntry (s : Sub) (now : Nat) (p : Publication) : HistEntry :=
  { pub := p.pubId, sub := s.id,
    details := if s.isPattern then p.baseDetails.set "topic" (.str p.topic) else p.baseDetails,
    args := p.args, kw := p.kw, time := now }

/-- Ghost history: the publications so far, in publish order, that match `s` under its policy and
    carry neither `exclude` nor `eligible`, as the entries the store must hold. -/
def retained (s : Sub) : List BStep → List HistEntry
  | [] => []
  | .publish _ now p :: rest =>
    if s.matchesTopic p.topic && !p.opts.contains "exclude" && !p.opts.contains "eligible"
    then retainedEntry s now p :: retained s rest else retained s rest
  | _ :: rest => retained s rest

end Nexus.L2
