/-
  WP-C / C07 (yield retry loop), part 3: the last turn (phase 16) and who can make the dealer answer "again".
-/
import Nexus.L2.Proofs.WpCRetryInv

namespace Nexus.L2.WpC
open Nexus.L2 Nexus.L2.Realm Gen.N

theorem findInv_forget (d : Dealer) (c i : ReqId) : (d.forget c i).findInv i = none := by
  unfold Dealer.findInv
  rw [forget_invs, List.find?_eq_none]
  intro v hv
  have := (List.mem_filter.mp hv).2
  simpa using this

/-- under the invariant an entry is in phase 16 iff the deadline has passed when it fires -/
theorem phase16_of_deadline {r : Realm} {x : Retry} {n : Nat} (hn : n ≤ 16) (hp : InPhase x n) (hnow : r.now = x.next)
    (hdl : sendResultDeadlineMs ≤ r.now - x.start) : n = 16 := by
  have h := phase_canRetry hp hnow
  have : decide (r.now - x.start < sendResultDeadlineMs) = false := by
    simp only [decide_eq_false_iff_not, Nat.not_lt]; exact hdl
  rw [this] at h
  have : ¬ n ≤ 15 := by
    intro hc
    rw [decide_eq_true hc] at h
    cases h
  omega

/-- the turn in phase 16: the dealer is asked with `canRetry = false` -/
theorem retryOut_last {r : Realm} {x : Retry} (hp : InPhase x 16) (hnow : r.now = x.next) :
    r.now = x.start + 65535 ∧ sendResultDeadlineMs ≤ r.now - x.start ∧
    retryOut r x = syncYield r.denv r.ds x.callee x.req x.opts x.args x.kw x.progress false ∧
    (retryOut r x).again = false := by
  have hcr : decide (r.now - x.start < sendResultDeadlineMs) = false := by
    rw [phase_canRetry hp hnow]; rfl
  have hout : retryOut r x = syncYield r.denv r.ds x.callee x.req x.opts x.args x.kw x.progress false := by
    unfold retryOut; rw [hcr]
  obtain ⟨_, h2, _⟩ := hp
  have h16 : (2 : Nat) ^ 16 = 65536 := by decide
  refine ⟨by omega, ?_, hout, by rw [hout]; exact syncYield_not_again ..⟩
  simp only [decide_eq_false_iff_not, Nat.not_lt] at hcr
  exact hcr

/-- the dropped-RESULT branch, for the stored invocation `v` of the retried YIELD -/
theorem retryOut_giveup {r : Realm} (hd : DealerInv r.ds) {x : Retry} (hp : InPhase x 16) (hnow : r.now = x.next)
    {v : Invk} (hf : r.ds.d.findInv ⟨x.callee, x.req⟩ = some v) (hfull : r.isFull v.callId.sess = true)
    (h1 : yieldPptCalleeBad r.denv x.callee x.opts = false)
    (h2 : yieldPptCallerBad r.denv v.callId.sess x.opts = false) :
    retryOut r x =
      if v.canceled then { st := yieldFinish r.ds x.progress v ⟨x.callee, x.req⟩ }
      else
        { st := { cancelMark (yieldTimer r.ds x.progress v) v with
                  d := (cancelMark (yieldTimer r.ds x.progress v) v).d.forget v.callId ⟨x.callee, x.req⟩ }
          sends := (if canInterrupt r.denv v CancelModeKillNoWait
                    then [interruptOf v ⟨x.callee, x.req⟩ CancelModeKillNoWait ErrCanceled] else []) ++
                   [callErr v.callId [] ErrCanceled [] []] } := by
  obtain ⟨hv, hid⟩ := findInv_some_mem hf
  rw [(retryOut_last hp hnow).2.2.1, syncYield_some' hd.call x.opts x.args x.kw x.progress false hf]
  exact yieldOut_giveup' hd x.args x.kw x.progress hv hid h1 h2 hfull

/-- a session whose queue is full gets nothing from a dealer action -/
theorem applyD_full_queue (r : Realm) (o : DOut) {k : SessKey} (hfull : r.isFull k = true)
    (hk : r.isClient k) : (r.applyD o).dqueueOf k = r.dqueueOf k := by
  unfold isFull at hfull
  by_cases hm : k = metaKey
  · rw [if_pos hm] at hfull; cases hfull
  · rw [if_neg hm] at hfull
    unfold session? at hfull
    rw [if_neg hm] at hfull
    cases hc : r.clients.find? (fun s => s.key == k) with
    | none =>
      obtain ⟨c, hcm, hck⟩ := hk
      have := List.find?_eq_none.mp hc c hcm
      simp [hck] at this
    | some c =>
      rw [hc] at hfull
      simp only [ge_iff_le, decide_eq_true_eq] at hfull
      rw [dapplyD_queueOf r o hm hc]
      have : c.cap - r.queueLen k = 0 := by omega
      rw [this]
      simp

theorem retryDue_queueOf (r : Realm) (x : Retry) (k : SessKey) :
    (r.retryDue x).dqueueOf k =
      (({ r with retries := r.retries.filter (fun y => y.callee != x.callee) } : Realm).applyD (retryOut r x)).dqueueOf k := by
  rw [retryDue_eq]
  split <;> rfl

theorem retryDue_full_queue (r : Realm) (x : Retry) {k : SessKey} (hfull : r.isFull k = true) (hk : r.isClient k) :
    (r.retryDue x).dqueueOf k = r.dqueueOf k := by
  rw [retryDue_queueOf]
  exact applyD_full_queue ({ r with retries := r.retries.filter (fun y => y.callee != x.callee) } : Realm)
    (retryOut r x) hfull hk

/-- the dealer answers "again" only for a stored invocation of that callee whose caller's queue is full -/
theorem syncYield_again_full {env : DEnv} {s : DState} {callee : SessKey} {req : Nat} {opts : Dict} {args : List WVal}
    {kw : Dict} {progress : Bool}
    (h : (syncYield env s callee req opts args kw progress true).again = true) :
    ∃ v ∈ s.d.invs, v.id = ⟨callee, req⟩ ∧ v.callee = callee ∧ env.full v.callId.sess = true := by
  unfold syncYield at h
  simp only at h
  split at h
  · split at h <;> cases h
  · rename_i v hf
    obtain ⟨hv, hid⟩ := findInv_some_mem hf
    split at h
    · cases h
    · rename_i hce
      split at h
      · cases h
      · split at h
        · cases h
        · split at h
          · cases h
          · split at h
            · cases h
            · rename_i hfull
              refine ⟨v, hv, hid, by simpa using hce, ?_⟩
              simpa using hfull

/-- `Enter k`, and no invocation served by `k` has a caller with a full queue: nothing is appended -/
theorem Enter.none_full {k : SessKey} {r r' : Realm} (e : Enter k r r')
    (hfree : ∀ v ∈ r.ds.d.invs, v.callee = k → r.isFull v.callId.sess = false) : r'.retries = r.retries := by
  obtain ⟨_, hr | ⟨req, opts, args, kw, ha, _⟩⟩ := e
  · exact hr
  · obtain ⟨v, hv, _, hc, hfull⟩ := syncYield_again_full ha
    have := hfree v hv hc
    have hfull' : r.isFull v.callId.sess = true := hfull
    rw [this] at hfull'
    cases hfull'

/-- an entry appended through `Enter k` has callee `k` -/
theorem Enter.mem {k : SessKey} {r r' : Realm} (e : Enter k r r') {x : Retry} (hx : x ∈ r'.retries) :
    x ∈ r.retries ∨ x.callee = k := by
  obtain ⟨_, hr | ⟨req, opts, args, kw, _, hr⟩⟩ := e
  · exact Or.inl (hr ▸ hx)
  · rw [hr] at hx
    rcases List.mem_append.mp hx with hx | hx
    · exact Or.inl hx
    · rw [List.mem_singleton.mp hx]; exact Or.inr rfl

/-- Every retry turn `advance` runs (relational form `Adv`) starts from a state satisfying the invariants, for an
    entry of the table that is in one of the 16 phases, with the clock set exactly to the entry's time. -/
theorem adv_retry_fired {target : Nat} {r r' : Realm} {evs : List (Realm × Due)} (h : Adv target r evs r') :
    RealmInv r → RetryInv r → r.now ≤ target →
    ∀ p ∈ evs, ∀ x, p.2 = .retry x →
      RealmInv p.1 ∧ RetryInv p.1 ∧ x ∈ p.1.retries ∧ p.1.now ≤ x.next ∧ x.next ≤ target ∧
      (∃ n, 1 ≤ n ∧ n ≤ 16 ∧ InPhase x n) ∧
      fireDue p.1 (.retry x) = drain taskFuel (({ p.1 with now := x.next } : Realm).retryDue x) ∧
      RetryInv ({ p.1 with now := x.next } : Realm) := by
  induction h with
  | done _ => intro _ _ _ p hp; cases hp
  | @fire r d evs r' hn _ ih =>
    intro hi hr hle p hp x hx
    rcases List.mem_cons.1 hp with rfl | hp
    · simp only at hx
      subst hx
      have hmem : x ∈ r.retries := nextDue_retry hn
      obtain ⟨hph, hnx, _⟩ := hr.1 x hmem
      obtain ⟨hxle, hmin⟩ := nextDue_min hn
      refine ⟨hi, hr, hmem, hnx, hxle, hph, ?_, hr.jump hnx (fun y hy => ?_)⟩
      · show drain taskFuel (({ r with now := max r.now x.next } : Realm).retryDue x) = _
        rw [Nat.max_eq_right hnx]
      · by_cases hy' : y.next ≤ target
        · exact hmin y hy hy'
        · have : x.next ≤ target := hxle
          omega
    · obtain ⟨h4, h5⟩ := fireDue_retry hi hr hle hn
      exact ih (fireDue_rinv hi hn).1 h4 h5 p hp x hx

end Nexus.L2.WpC
