/-
  Router-level helper lemmas for C06: a closed router stays closed and answers nothing but
  refusals; a removed realm is gone from the table (joins are refused, operations of its former
  sessions and the clock do not touch it) until it is added again.
-/
import Nexus.L2.Proofs.RouterFrame
import Nexus.L2.Proofs.RealmInv

namespace Nexus.L2.WpC
open Nexus.L2 Nexus.L2.Realm Nexus.L2.Router

/-- operations that attach something to the router: a session, or a realm -/
def isAttach : ROp → Bool
  | .join .. => true
  | .addRealm _ => true
  | _ => false

/-- the router after a list of operations -/
def runROps (rt : Router) (ops : List ROp) : Router := ops.foldl (fun rt op => (rt.step op).2) rt

theorem runROps_nil (rt : Router) : runROps rt [] = rt := rfl
theorem runROps_cons (rt : Router) (op : ROp) (ops : List ROp) :
    runROps rt (op :: ops) = runROps (rt.step op).2 ops := rfl

/-! ### lookups -/

theorem realm?_nil {rt : Router} (h : rt.realms = []) (A : String) : rt.realm? A = none := by
  unfold realm?; rw [h]; rfl

theorem realm?_none_iff (rt : Router) (A : String) : rt.realm? A = none ↔ A ∉ rt.realms.map (·.1) := by
  constructor
  · intro h hm
    obtain ⟨p, hp, e⟩ := List.mem_map.mp hm
    exact realm?_none h p hp e
  · intro h
    unfold realm?
    have : rt.realms.find? (fun p => p.1 == A) = none := by
      apply List.find?_eq_none.mpr
      intro p hp e
      exact h (List.mem_map.mpr ⟨p, hp, by simpa using e⟩)
    rw [this]; rfl

theorem realm?_none_of_names {rt rt' : Router} {A : String} (hn : rt'.realms.map (·.1) = rt.realms.map (·.1))
    (h : rt.realm? A = none) : rt'.realm? A = none := by
  rw [realm?_none_iff] at h ⊢
  rw [hn]; exact h

theorem realm?_append_new {rt : Router} {A : String} (h : rt.realm? A = none) (r : Realm) (c : Nat) :
    ({ rt with realms := rt.realms ++ [(A, r)], created := c } : Router).realm? A = some r := by
  have hn : rt.realms.find? (fun p => p.1 == A) = none := by
    apply List.find?_eq_none.mpr
    intro p hp e
    exact realm?_none h p hp (by simpa using e)
  unfold realm?
  show ((rt.realms ++ [(A, r)]).find? (fun p => p.1 == A)).map (·.2) = some r
  rw [List.find?_append, hn]
  simp

/-! ### a closed router -/

/-- the time a list of operations lets pass: the sum of its ticks -/
def elapsedAll (ops : List ROp) : Nat := (ops.map ROp.elapsed).sum

theorem elapsedAll_nil : elapsedAll [] = 0 := rfl
theorem elapsedAll_cons (op : ROp) (ops : List ROp) : elapsedAll (op :: ops) = op.elapsed + elapsedAll ops := by
  simp [elapsedAll]

/-- a closed router with an empty table: no operation changes it — except that the clock goes on
    (`.tick ms` adds `ms` to `now`, `ROp.elapsed`) — or produces anything; attaching is refused -/
theorem step_closed_empty {rt : Router} (hc : rt.closed = true) (hr : rt.realms = []) (op : ROp) :
    (rt.step op).2 = { rt with now := rt.now + op.elapsed } ∧ (rt.step op).1.out = [] ∧ (rt.step op).1.closed = [] ∧
    (rt.step op).1.panic = none ∧ (rt.step op).1.refused = isAttach op := by
  have hself : ({ rt with realms := [], closed := true } : Router) = rt := by
    obtain ⟨a, b, c, d, e, f⟩ := rt
    simp only at hc hr
    subst hc hr
    rfl
  cases op with
  | join name k l d ro c =>
    rw [step_join_refused (by rw [hc]; rfl)]
    exact ⟨rfl, rfl, rfl, rfl, rfl⟩
  | sess k op =>
    cases h : rt.realmOf k with
    | none => rw [step_sess_unknown h]; exact ⟨rfl, rfl, rfl, rfl, rfl⟩
    | some A => rw [step_sess_gone h (realm?_nil hr A)]; exact ⟨rfl, rfl, rfl, rfl, rfl⟩
  | tick ms =>
    rw [step_tick_eq, hr]
    exact ⟨rfl, rfl, rfl, rfl, rfl⟩
  | rnd n =>
    rw [step_rnd, hr]
    exact ⟨rfl, rfl, rfl, rfl, rfl⟩
  | close =>
    rw [step_close, hr]
    refine ⟨?_, rfl, rfl, rfl, rfl⟩
    show ({ rt with realms := [], closed := true } : Router) = { rt with realms := [], now := rt.now + 0 }
    rw [hself]
    obtain ⟨a, b, c, d, e, f⟩ := rt
    simp only at hr
    subst hr
    rfl
  | removeRealm A =>
    rw [step_remove_none (realm?_nil hr A)]
    exact ⟨rfl, rfl, rfl, rfl, rfl⟩
  | addRealm cfg =>
    rw [step_add, if_pos (by rw [hc]; rfl)]
    exact ⟨rfl, rfl, rfl, rfl, rfl⟩

/-- … hence a closed router with an empty table stays what it is under every history, up to the
    clock, which has advanced by the ticks of the history -/
theorem runROps_closed_empty {rt : Router} (hc : rt.closed = true) (hr : rt.realms = []) :
    ∀ ops : List ROp, runROps rt ops = { rt with now := rt.now + elapsedAll ops }
  | [] => rfl
  | op :: ops => by
    rw [runROps_cons, (step_closed_empty hc hr op).1,
      runROps_closed_empty (rt := { rt with now := rt.now + op.elapsed }) hc hr ops, elapsedAll_cons]
    show ({ rt with now := rt.now + op.elapsed + elapsedAll ops } : Router) = _
    rw [Nat.add_assoc]

/-- `closed` is set by `Router.Close` only, which empties the table; nothing is added afterwards -/
theorem closed_empty_step {rt : Router} (h : rt.closed = true → rt.realms = []) (op : ROp) :
    (rt.step op).2.closed = true → (rt.step op).2.realms = [] := by
  cases hcl : rt.closed with
  | true =>
    intro _
    rw [(step_closed_empty hcl (h hcl) op).1]
    exact h hcl
  | false =>
    cases op with
    | join name k l d ro c =>
      cases hc : (rt.closed || name == "") with
      | true =>
        rw [step_join_refused hc]
        intro h'; rw [hcl] at h'; cases h'
      | false =>
        have hce : (rt.ensureRealm name).closed = false := by rw [(ensureRealm_fields rt name).2.1]; exact hcl
        cases hr : (rt.ensureRealm name).realm? name with
        | none =>
          rw [step_join_none hc hr]
          intro h'; rw [hce] at h'; cases h'
        | some r =>
          rw [step_join_some hc hr]
          intro h'
          have : (rt.ensureRealm name).closed = true := h'
          rw [hce] at this; cases this
    | sess k op =>
      rw [step_sess]
      intro h'
      have : rt.closed = true := by
        revert h'
        split
        · exact id
        · split <;> exact id
      rw [hcl] at this; cases this
    | tick ms =>
      intro h'
      rw [(tick_fields rt ms).2, hcl] at h'; cases h'
    | rnd n =>
      rw [step_rnd]
      intro h'
      have : rt.closed = true := h'
      rw [hcl] at this; cases this
    | close => intro _; rfl
    | removeRealm A =>
      rw [step_remove]
      intro h'
      have : rt.closed = true := by
        revert h'
        split <;> exact id
      rw [hcl] at this; cases this
    | addRealm cfg =>
      rw [step_add]
      intro h'
      have : rt.closed = true := by
        revert h'
        split
        · exact id
        · split <;> exact id
      rw [hcl] at this; cases this

theorem createStep_open {acc : Option Router} (h : ∀ rt, acc = some rt → rt.closed = false) (cfg : Config) :
    ∀ rt, createStep acc cfg = some rt → rt.closed = false := by
  intro rt' e
  unfold createStep at e
  split at e
  · cases e
  · rename_i rt
    have := h rt rfl
    split at e
    · cases e
    · split at e
      · cases e; exact this
      · cases e

theorem foldl_createStep_open : ∀ (cfgs : List Config) (acc : Option Router),
    (∀ rt, acc = some rt → rt.closed = false) → ∀ rt, cfgs.foldl createStep acc = some rt → rt.closed = false
  | [], _, h => h
  | cfg :: cfgs, _, h => foldl_createStep_open cfgs _ (createStep_open h cfg)

theorem create_open {cfgs : List Config} {rt : Router} (h : Router.create cfgs = some rt) : rt.closed = false := by
  rw [create_eq] at h
  refine foldl_createStep_open cfgs (some {}) ?_ rt h
  intro rt0 e
  cases e
  rfl

theorem Reachable.closed_empty {rt : Router} (h : Router.Reachable rt) : rt.closed = true → rt.realms = [] := by
  induction h with
  | init t h =>
    intro hc
    have hc' : _ = true := hc
    dsimp only at hc'
    rw [create_open h] at hc'; cases hc'
  | step rop _ _ ih => exact closed_empty_step ih rop

/-! ### a removed realm -/

theorem realm?_removed (rt : Router) (A : String) :
    ({ rt with realms := rt.realms.filter (fun p => p.1 != A) } : Router).realm? A = none := by
  rw [realm?_none_iff]
  intro hm
  obtain ⟨p, hp, e⟩ := List.mem_map.mp hm
  have := (List.mem_filter.mp hp).2
  simp [e] at this

/-- the router after `RemoveRealm A` (whether or not `A` existed) -/
theorem remove_fields (rt : Router) (A : String) :
    (rt.step (.removeRealm A)).2.realm? A = none ∧ (rt.step (.removeRealm A)).2.realms = rt.others A ∧
    (rt.step (.removeRealm A)).2.sessRealm = rt.sessRealm ∧ (rt.step (.removeRealm A)).2.closed = rt.closed ∧
    (rt.step (.removeRealm A)).2.template = rt.template ∧ (rt.step (.removeRealm A)).2.created = rt.created ∧
    (rt.step (.removeRealm A)).2.now = rt.now := by
  cases hr : rt.realm? A with
  | none =>
    rw [step_remove_none hr]
    refine ⟨hr, ?_, rfl, rfl, rfl, rfl, rfl⟩
    unfold others
    symm
    apply List.filter_eq_self.mpr
    intro p hp
    simpa using realm?_none hr p hp
  | some r =>
    rw [step_remove_some hr]
    exact ⟨realm?_removed rt A, rfl, rfl, rfl, rfl, rfl, rfl⟩

theorem ensureRealm_no_template {rt : Router} (h : rt.template = none) (A : String) : rt.ensureRealm A = rt := by
  rcases ensureRealm_cases rt A with e | ⟨_, t, _, ht, _, _⟩
  · exact e
  · rw [h] at ht; cases ht

theorem ensureRealm_template {rt : Router} {A : String} {t : Config} {r0 : Realm} (hr : rt.realm? A = none)
    (ht : rt.template = some t) (hc : Realm.create { t with uri := A } = some r0) :
    rt.ensureRealm A =
      { rt with realms := rt.realms ++ [(A, { r0 with pubCount := rt.created * 1000000, now := rt.now })],
                created := rt.created + 1 } := by
  unfold ensureRealm
  rw [hr, ht]
  simp only [hc]

/-- a join of a realm that is absent and cannot be created: refused, nothing changes -/
theorem step_join_absent {rt : Router} {A : String} (hr : rt.realm? A = none) (ht : rt.template = none)
    (k : SessKey) (l : Bool) (d : Dict) (ro : Roles) (c : Nat) :
    rt.step (.join A k l d ro c) = ({ refused := true }, rt) := by
  cases hc : (rt.closed || A == "") with
  | true => exact step_join_refused hc k l d ro c
  | false =>
    have he := ensureRealm_no_template ht A
    have := step_join_none hc (by rw [he]; exact hr) k l d ro c
    rw [he] at this
    exact this

theorem tickFold_names (ms : Nat) : ∀ (l : List (String × Realm)) (acc : RObserved × Router),
    (tickFold ms l acc).2.realms.map (·.1) = acc.2.realms.map (·.1) ∧
    (tickFold ms l acc).2.template = acc.2.template
  | [], _ => ⟨rfl, rfl⟩
  | p :: l, acc => by
    rw [tickFold_cons]
    obtain ⟨h1, h2⟩ := tickFold_names ms l
      (merge acc.1 (p.2.step (.tick ms)).1, acc.2.setRealm p.1 (p.2.step (.tick ms)).2)
    exact ⟨h1.trans (names_setRealm _ _ _), h2⟩

theorem step_tick_names (rt : Router) (ms : Nat) :
    (rt.step (.tick ms)).2.realms.map (·.1) = rt.realms.map (·.1) ∧
    (rt.step (.tick ms)).2.template = rt.template := by
  rw [step_tick_eq]
  exact tickFold_names ms rt.realms ({}, { rt with now := rt.now + ms })

/-- a realm that is absent stays absent (and no template appears) under every operation except
    `addRealm` with that name, when there is no template -/
theorem absent_step {rt : Router} {A : String} (hr : rt.realm? A = none) (ht : rt.template = none) (op : ROp)
    (hop : ∀ cfg, op = .addRealm cfg → cfg.uri ≠ A) :
    (rt.step op).2.realm? A = none ∧ (rt.step op).2.template = none := by
  cases op with
  | join name k l d ro c =>
    cases hc : (rt.closed || name == "") with
    | true => rw [step_join_refused hc]; exact ⟨hr, ht⟩
    | false =>
      have he := ensureRealm_no_template ht name
      cases hrn : (rt.ensureRealm name).realm? name with
      | none => rw [step_join_none hc hrn, he]; exact ⟨hr, ht⟩
      | some r =>
        rw [step_join_some hc hrn, he]
        exact ⟨realm?_none_of_names (names_setRealm rt name _) hr, ht⟩
  | sess k op =>
    cases h : rt.realmOf k with
    | none => rw [step_sess_unknown h]; exact ⟨hr, ht⟩
    | some B =>
      cases hrb : rt.realm? B with
      | none => rw [step_sess_gone h hrb]; exact ⟨hr, ht⟩
      | some r =>
        rw [step_sess_some h hrb]
        exact ⟨realm?_none_of_names (names_setRealm rt B _) hr, ht⟩
  | tick ms =>
    obtain ⟨h1, h2⟩ := step_tick_names rt ms
    exact ⟨realm?_none_of_names h1 hr, h2.trans ht⟩
  | rnd n =>
    rw [step_rnd]
    refine ⟨realm?_none_of_names ?_ hr, ht⟩
    show (rt.realms.map (fun p => (p.1, { p.2 with rnd := n }))).map (·.1) = _
    rw [List.map_map]; rfl
  | close =>
    rw [step_close]
    exact ⟨realm?_nil rfl A, ht⟩
  | removeRealm B =>
    cases hrb : rt.realm? B with
    | none => rw [step_remove_none hrb]; exact ⟨hr, ht⟩
    | some r =>
      rw [step_remove_some hrb]
      refine ⟨?_, ht⟩
      rw [realm?_none_iff] at hr ⊢
      intro hm
      obtain ⟨p, hp, e⟩ := List.mem_map.mp hm
      exact hr (List.mem_map.mpr ⟨p, (List.mem_filter.mp hp).1, e⟩)
  | addRealm cfg =>
    rw [step_add]
    split
    · exact ⟨hr, ht⟩
    · split
      · refine ⟨?_, ht⟩
        rw [realm?_none_iff] at hr ⊢
        show A ∉ (rt.realms ++ [(cfg.uri, _)]).map (fun p : String × Realm => p.1)
        rw [List.map_append, List.mem_append]
        rintro (h | h)
        · exact hr h
        · simp only [List.map_cons, List.map_nil, List.mem_singleton] at h
          exact hop cfg rfl h.symm
      · exact ⟨hr, ht⟩

theorem absent_runROps {A : String} : ∀ (ops : List ROp) {rt : Router}, rt.realm? A = none → rt.template = none →
    (∀ op ∈ ops, ∀ cfg, op = .addRealm cfg → cfg.uri ≠ A) →
    (runROps rt ops).realm? A = none ∧ (runROps rt ops).template = none
  | [], _, hr, ht, _ => ⟨hr, ht⟩
  | op :: ops, rt, hr, ht, hop => by
    rw [runROps_cons]
    obtain ⟨h1, h2⟩ := absent_step hr ht op (hop op (List.mem_cons_self ..))
    exact absent_runROps ops h1 h2 (fun o ho => hop o (List.mem_cons_of_mem _ ho))

/-! ### every realm of a reachable router satisfies the realm invariant -/

/-- every realm of the table satisfies `RealmInv` and has at most a fuel marker in `panic` -/
def RealmsOk (rt : Router) : Prop := ∀ p ∈ rt.realms, RealmInv p.2 ∧ FuelOnly p.2.panic

theorem realmsOk_setRealm {rt : Router} (h : RealmsOk rt) {A : String} {r : Realm}
    (hr : RealmInv r ∧ FuelOnly r.panic) (sr : List (SessKey × String)) :
    RealmsOk { rt.setRealm A r with sessRealm := sr } := by
  intro p hp
  rcases mem_setRealm (rt := rt) hp with ⟨rfl, _⟩ | ⟨hp, _⟩
  · exact hr
  · exact h p hp

theorem created_ok {cfg : Config} {r : Realm} (h : Realm.create cfg = some r) (n : Nat) :
    RealmInv ({ r with pubCount := n } : Realm) ∧ FuelOnly ({ r with pubCount := n } : Realm).panic := by
  obtain ⟨hi, hp, _⟩ := create_rinv h
  exact ⟨hi.of_parts rfl hi.binv hi.dinv hi.bmem hi.dref hi.callers hi.retr hi.tasks hi.inb rfl, Or.inl hp⟩

/-- … also when it starts at the router's current time (a realm created later) -/
theorem created_ok_at {cfg : Config} {r : Realm} (h : Realm.create cfg = some r) (n t : Nat) :
    RealmInv ({ r with pubCount := n, now := t } : Realm) ∧ FuelOnly ({ r with pubCount := n, now := t } : Realm).panic := by
  obtain ⟨hi, hp, _⟩ := create_rinv h
  exact ⟨hi.of_parts rfl hi.binv hi.dinv hi.bmem hi.dref hi.callers hi.retr hi.tasks hi.inb rfl, Or.inl hp⟩

theorem realmsOk_ensureRealm {rt : Router} (h : RealmsOk rt) (name : String) : RealmsOk (rt.ensureRealm name) := by
  rcases ensureRealm_cases rt name with e | ⟨_, t, r, _, hcr, e⟩
  · rw [e]; exact h
  · rw [e]
    intro p hp
    rcases List.mem_append.mp hp with hp | hp
    · exact h p hp
    · rw [List.mem_singleton.mp hp]
      exact created_ok_at hcr _ _

theorem tickFold_all (Q : Realm → Prop) (ms : Nat) : ∀ (l : List (String × Realm)) (acc : RObserved × Router),
    (∀ p ∈ acc.2.realms, Q p.2) → (∀ p ∈ l, Q (p.2.step (.tick ms)).2) →
    ∀ p ∈ (tickFold ms l acc).2.realms, Q p.2
  | [], _, h, _ => h
  | q :: l, acc, h, hl => by
    rw [tickFold_cons]
    apply tickFold_all Q ms l
    · intro p hp
      rcases mem_setRealm (rt := acc.2) hp with ⟨rfl, _⟩ | ⟨hp, _⟩
      · exact hl q (List.mem_cons_self ..)
      · exact h p hp
    · intro p hp
      exact hl p (List.mem_cons_of_mem _ hp)

theorem realmsOk_step {rt : Router} (h : RealmsOk rt) (op : ROp) : RealmsOk (rt.step op).2 := by
  cases op with
  | join name k l d ro c =>
    cases hc : (rt.closed || name == "") with
    | true => rw [step_join_refused hc]; exact h
    | false =>
      have he := realmsOk_ensureRealm h name
      cases hr : (rt.ensureRealm name).realm? name with
      | none => rw [step_join_none hc hr]; exact he
      | some r =>
        rw [step_join_some hc hr]
        obtain ⟨h1, h2⟩ := he _ (realm?_mem hr)
        have := step_inv h1 h2 (.join k l d ro c)
        exact realmsOk_setRealm he ⟨this.1, this.2.1⟩ _
  | sess k op =>
    cases hk : rt.realmOf k with
    | none => rw [step_sess_unknown hk]; exact h
    | some A =>
      cases hr : rt.realm? A with
      | none => rw [step_sess_gone hk hr]; exact h
      | some r =>
        rw [step_sess_some hk hr]
        obtain ⟨h1, h2⟩ := h _ (realm?_mem hr)
        have := step_inv h1 h2 op
        exact realmsOk_setRealm (rt := rt) h ⟨this.1, this.2.1⟩ rt.sessRealm
  | tick ms =>
    rw [step_tick_eq]
    apply tickFold_all (fun r => RealmInv r ∧ FuelOnly r.panic) ms rt.realms ({}, { rt with now := rt.now + ms }) h
    intro p hp
    obtain ⟨h1, h2⟩ := h p hp
    have := step_inv h1 h2 (.tick ms)
    exact ⟨this.1, this.2.1⟩
  | rnd n =>
    rw [step_rnd]
    intro p hp
    obtain ⟨q, hq, rfl⟩ := List.mem_map.mp hp
    obtain ⟨hi, h2⟩ := h q hq
    exact ⟨hi.of_parts rfl hi.binv hi.dinv hi.bmem hi.dref hi.callers hi.retr hi.tasks hi.inb rfl, h2⟩
  | close => rw [step_close]; intro p hp; cases hp
  | removeRealm A =>
    cases hr : rt.realm? A with
    | none => rw [step_remove_none hr]; exact h
    | some r =>
      rw [step_remove_some hr]
      intro p hp
      exact h p (List.mem_filter.mp hp).1
  | addRealm cfg =>
    rw [step_add]
    split
    · exact h
    · split
      · rename_i r hcr
        intro p hp
        rcases List.mem_append.mp hp with hp | hp
        · exact h p hp
        · rw [List.mem_singleton.mp hp]
          exact created_ok_at hcr _ _
      · exact h

theorem createStep_ok {acc : Option Router} (h : ∀ rt, acc = some rt → RealmsOk rt) (cfg : Config) :
    ∀ rt, createStep acc cfg = some rt → RealmsOk rt := by
  intro rt' e
  unfold createStep at e
  split at e
  · cases e
  · rename_i rt
    have h0 := h rt rfl
    split at e
    · cases e
    · split at e
      · rename_i r hcr
        cases e
        intro p hp
        rcases List.mem_append.mp hp with hp | hp
        · exact h0 p hp
        · rw [List.mem_singleton.mp hp]
          exact created_ok hcr _
      · cases e

theorem foldl_createStep_ok : ∀ (cfgs : List Config) (acc : Option Router),
    (∀ rt, acc = some rt → RealmsOk rt) → ∀ rt, cfgs.foldl createStep acc = some rt → RealmsOk rt
  | [], _, h => h
  | cfg :: cfgs, _, h => foldl_createStep_ok cfgs _ (createStep_ok h cfg)

theorem Reachable.realmsOk {rt : Router} (h : Router.Reachable rt) : RealmsOk rt := by
  induction h with
  | init t h =>
    rw [create_eq] at h
    have hok := foldl_createStep_ok _ (some {}) (by
      intro rt0 e
      cases e
      intro p hp
      cases hp) _ h
    intro p hp
    exact hok p hp
  | step rop _ _ ih => exact realmsOk_step ih rop

/-! ### what `Router.Close` shows: the farewells of all realms -/

theorem closeFold_panic : ∀ (l : List (String × Realm)) (acc : RObserved), acc.panic = none →
    (∀ p ∈ l, (shutdownRealm p.2).1.panic = none) →
    (l.foldl (fun (acc : RObserved) p => merge acc (shutdownRealm p.2).1) acc).panic = none
  | [], _, h, _ => h
  | p :: l, acc, h, hl => by
    rw [List.foldl_cons]
    apply closeFold_panic l
    · show (match acc.panic with | some x => some x | none => (shutdownRealm p.2).1.panic) = none
      rw [h]
      exact hl p (List.mem_cons_self ..)
    · exact fun q hq => hl q (List.mem_cons_of_mem _ hq)

end Nexus.L2.WpC
