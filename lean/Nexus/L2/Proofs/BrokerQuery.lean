/-
  `wamp.subscription.get_events` (C20_query): the scan loop of `subEventHistory`
  (`Realm.histScan`) equals the declarative pipeline `scanSpec` (BrokerQuerySpec) for EVERY
  query; consequences for the single filters; the `MetaProcEventHistory` branch of
  `Realm.metaProc` answers with `histAnswer`.
-/
import Nexus.L2.Proofs.BrokerQuerySpec
import Nexus.L2.Proofs.BrokerSpec

namespace Nexus.L2
open Gen.N
open Realm (HistQuery histScan takeLast histEntryVal histQuery? metaProc mYield mErr)

/-- the scan with an arbitrary loop state -/
def untilG (ur : Bool) (x : Nat) (l : List HistEntry) : List HistEntry :=
  if x = 0 then l else if ur then [] else untilStage x l

def scanG (q : HistQuery) (es : List HistEntry) (fp ap : Nat) (ur : Bool) : List HistEntry :=
  (untilG ur q.untilPub (beforeStage q.beforePub (afterStage ap (fromStage fp
    (es.filter (timeOk q)))))).filter (topicOk q)

theorem untilG_nil (ur : Bool) (x : Nat) : untilG ur x [] = [] := by
  unfold untilG untilStage; split <;> (try split) <;> simp

/-- one iteration of the scan loop, with the conditions of the time bounds and of the topic
    abstracted (so that the statement does not depend on how `match` was compiled) -/
theorem scan_step (q : HistQuery) (e : HistEntry) (rest : List HistEntry) (fp ap : Nat) (ur : Bool)
    (ih : ∀ fp ap ur, histScan q rest fp ap ur = scanG q rest fp ap ur)
    (c1 c2 c3 c4 tk : Bool) (hc : timeOk q e = !(c1 || c2 || c3 || c4)) (htk : tk = topicOk q e) :
    (if c1 = true then histScan q rest fp ap ur
     else if c2 = true then histScan q rest fp ap ur
     else if c3 = true then histScan q rest fp ap ur
     else if c4 = true then histScan q rest fp ap ur
     else if (fp != 0 && e.pub != fp) = true then histScan q rest fp ap ur
     else if (ap != 0) = true then histScan q rest 0 (if (e.pub == ap) = true then 0 else ap) ur
     else if (decide (q.beforePub > 0) && e.pub == q.beforePub) = true then []
     else if (decide (q.untilPub > 0) && ur) = true then []
     else if tk = true then e :: histScan q rest 0 ap (ur || decide (q.untilPub > 0) && e.pub == q.untilPub)
     else histScan q rest 0 ap (ur || decide (q.untilPub > 0) && e.pub == q.untilPub)) =
    scanG q (e :: rest) fp ap ur := by
  subst htk
  by_cases ht : timeOk q e = true
  · rw [ht] at hc
    have hcs : c1 = false ∧ c2 = false ∧ c3 = false ∧ c4 = false := by
      cases c1 <;> cases c2 <;> cases c3 <;> cases c4 <;> simp at hc <;> simp
    obtain ⟨rfl, rfl, rfl, rfl⟩ := hcs
    simp only [Bool.false_eq_true, if_false]
    have hfil : (e :: rest).filter (timeOk q) = e :: rest.filter (timeOk q) := by
      rw [List.filter_cons, if_pos ht]
    by_cases hf : (fp != 0 && e.pub != fp) = true
    · rw [if_pos hf, ih]
      simp only [Bool.and_eq_true, bne_iff_ne, ne_eq] at hf
      unfold scanG
      rw [hfil]
      congr 4
      unfold fromStage
      rw [if_neg hf.1, if_neg hf.1, List.dropWhile_cons, if_pos (by simpa using hf.2)]
    · rw [if_neg hf]
      have hfrom : fromStage fp (e :: rest.filter (timeOk q)) = e :: rest.filter (timeOk q) := by
        unfold fromStage
        by_cases h0 : fp = 0
        · rw [if_pos h0]
        · rw [if_neg h0, List.dropWhile_cons]
          have : e.pub = fp := by
            simp only [Bool.and_eq_true, bne_iff_ne, ne_eq, not_and, Decidable.not_not] at hf
            exact hf h0
          rw [if_neg (by simp [this])]
      have hfrom0 : ∀ l, fromStage 0 l = l := fun l => by unfold fromStage; simp
      by_cases ha : (ap != 0) = true
      · rw [if_pos ha, ih]
        simp only [bne_iff_ne, ne_eq] at ha
        have hafter : afterStage ap (e :: rest.filter (timeOk q)) =
            afterStage (if (e.pub == ap) = true then 0 else ap) (rest.filter (timeOk q)) := by
          by_cases hp : e.pub = ap
          · have h1 : (e.pub == ap) = true := by simpa using hp
            rw [if_pos h1]
            unfold afterStage
            rw [if_neg ha, if_pos rfl, List.dropWhile_cons, if_neg (by simp [hp])]
            rfl
          · have h1 : ¬ (e.pub == ap) = true := by simpa using hp
            rw [if_neg h1]
            unfold afterStage
            rw [if_neg ha, if_neg ha, List.dropWhile_cons, if_pos (by simpa using hp)]
        unfold scanG
        rw [hfil, hfrom, hfrom0, hafter]
      · rw [if_neg ha]
        have ha0 : ap = 0 := by simpa using ha
        subst ha0
        have hafter0 : ∀ l, afterStage 0 l = l := fun l => by unfold afterStage; simp
        by_cases hb : (decide (q.beforePub > 0) && e.pub == q.beforePub) = true
        · rw [if_pos hb]
          simp only [Bool.and_eq_true, decide_eq_true_eq, beq_iff_eq] at hb
          unfold scanG
          rw [hfil, hfrom, hafter0]
          unfold beforeStage
          rw [if_neg (by omega), List.takeWhile_cons, if_neg (by simp [hb.2]), untilG_nil]
          rfl
        · rw [if_neg hb]
          have hbefore : beforeStage q.beforePub (e :: rest.filter (timeOk q)) =
              e :: beforeStage q.beforePub (rest.filter (timeOk q)) := by
            unfold beforeStage
            by_cases h0 : q.beforePub = 0
            · rw [if_pos h0, if_pos h0]
            · rw [if_neg h0, if_neg h0, List.takeWhile_cons]
              have : e.pub ≠ q.beforePub := by
                intro he; apply hb; simp [he]; omega
              rw [if_pos (by simpa using this)]
          by_cases hu : (decide (q.untilPub > 0) && ur) = true
          · rw [if_pos hu]
            simp only [Bool.and_eq_true, decide_eq_true_eq] at hu
            unfold scanG untilG
            rw [if_neg (by omega), if_pos hu.2]
            rfl
          · rw [if_neg hu]
            have hrest := ih 0 0 (ur || (decide (q.untilPub > 0) && e.pub == q.untilPub))
            rw [hrest]
            have hspec : scanG q (e :: rest) fp 0 ur =
                (if topicOk q e then [e] else []) ++
                  scanG q rest 0 0 (ur || (decide (q.untilPub > 0) && e.pub == q.untilPub)) := by
              unfold scanG
              rw [hfil, hfrom, hafter0, hbefore, hfrom0, hafter0]
              unfold untilG
              by_cases hx : q.untilPub = 0
              · rw [if_pos hx, if_pos hx, List.filter_cons]
                split <;> simp
              · rw [if_neg hx, if_neg hx]
                have hur : ur = false := by
                  cases ur
                  · rfl
                  · exfalso; apply hu; simp; omega
                subst hur
                simp only [Bool.false_eq_true, if_false, Bool.false_or]
                unfold untilStage
                rw [if_neg hx, if_neg hx, List.takeWhile_cons, List.dropWhile_cons]
                by_cases hp : e.pub = q.untilPub
                · have hd : decide (q.untilPub > 0) = true := by simp; omega
                  simp [hp, hd, List.filter_cons]
                · have : (e.pub == q.untilPub) = false := by simpa using hp
                  simp [this, hp, List.filter_cons]
                  split <;> simp
            rw [hspec]
            split <;> simp
  · have hf : timeOk q e = false := by simpa using ht
    have hfil : (e :: rest).filter (timeOk q) = rest.filter (timeOk q) := by
      rw [List.filter_cons, if_neg ht]
    have hspec : scanG q (e :: rest) fp ap ur = scanG q rest fp ap ur := by
      unfold scanG; rw [hfil]
    rw [hspec, ← ih]
    rw [hf] at hc
    cases c1 <;> cases c2 <;> cases c3 <;> cases c4 <;> simp at hc <;> simp

theorem histScan_eq_scanG (q : HistQuery) : ∀ (es : List HistEntry) (fp ap : Nat) (ur : Bool),
    histScan q es fp ap ur = scanG q es fp ap ur
  | [], fp, ap, ur => by
    unfold scanG histScan fromStage afterStage beforeStage
    simp [untilG_nil]
  | e :: rest, fp, ap, ur => by
    have ih := histScan_eq_scanG q rest
    unfold histScan
    refine scan_step q e rest fp ap ur ih _ _ _ _ _ ?_ ?_
    · unfold timeOk
      cases q.fromT <;> cases q.afterT <;> cases q.beforeT <;> cases q.untilT <;>
        (simp only [Option.all]; rw [Bool.eq_iff_iff]; simp; try omega)
    · rfl

theorem histScan_eq_scanSpec (q : HistQuery) (es : List HistEntry) :
    histScan q es q.fromPub q.afterPub false = scanSpec q es := by
  rw [histScan_eq_scanG]
  unfold scanG scanSpec untilG
  by_cases h : q.untilPub = 0
  · rw [if_pos h]; unfold untilStage; rw [if_pos h]
  · rw [if_neg h]; rfl


/-! ### the single filters -/

theorem fromStage_zero (l : List HistEntry) : fromStage 0 l = l := by unfold fromStage; simp
theorem afterStage_zero (l : List HistEntry) : afterStage 0 l = l := by unfold afterStage; simp
theorem beforeStage_zero (l : List HistEntry) : beforeStage 0 l = l := by unfold beforeStage; simp
theorem untilStage_zero (l : List HistEntry) : untilStage 0 l = l := by unfold untilStage; simp

theorem filter_timeOk_none (q : HistQuery) (h : q.fromT = none ∧ q.afterT = none ∧ q.beforeT = none ∧ q.untilT = none)
    (es : List HistEntry) : es.filter (timeOk q) = es := by
  rw [List.filter_eq_self]
  intro e _
  unfold timeOk
  rw [h.1, h.2.1, h.2.2.1, h.2.2.2]
  rfl

theorem filter_topicOk_none (q : HistQuery) (h : q.topic = "") (es : List HistEntry) :
    es.filter (topicOk q) = es := by
  rw [List.filter_eq_self]
  intro e _
  unfold topicOk
  rw [h]; rfl

theorem dropWhile_decomp (x : Nat) (pre post : List HistEntry) (f : HistEntry) (hf : f.pub = x)
    (hpre : ∀ e ∈ pre, e.pub ≠ x) :
    (pre ++ f :: post).dropWhile (fun e => e.pub != x) = f :: post := by
  induction pre with
  | nil => simp [hf]
  | cons a pre ih =>
    have ha := hpre a (List.mem_cons_self ..)
    simp only [List.cons_append, List.dropWhile_cons]
    rw [if_pos (by simpa using ha)]
    exact ih (fun e he => hpre e (List.mem_cons_of_mem _ he))

theorem takeWhile_decomp (x : Nat) (pre post : List HistEntry) (f : HistEntry) (hf : f.pub = x)
    (hpre : ∀ e ∈ pre, e.pub ≠ x) :
    (pre ++ f :: post).takeWhile (fun e => e.pub != x) = pre := by
  induction pre with
  | nil => simp [hf]
  | cons a pre ih =>
    have ha := hpre a (List.mem_cons_self ..)
    simp only [List.cons_append, List.takeWhile_cons]
    rw [if_pos (by simpa using ha)]
    rw [ih (fun e he => hpre e (List.mem_cons_of_mem _ he))]

theorem dropWhile_absent (x : Nat) (es : List HistEntry) (h : ∀ e ∈ es, e.pub ≠ x) :
    es.dropWhile (fun e => e.pub != x) = [] := by
  induction es with
  | nil => rfl
  | cons a es ih =>
    rw [List.dropWhile_cons, if_pos (by simpa using h a (List.mem_cons_self ..))]
    exact ih (fun e he => h e (List.mem_cons_of_mem _ he))

theorem takeWhile_absent (x : Nat) (es : List HistEntry) (h : ∀ e ∈ es, e.pub ≠ x) :
    es.takeWhile (fun e => e.pub != x) = es := by
  induction es with
  | nil => rfl
  | cons a es ih =>
    rw [List.takeWhile_cons, if_pos (by simpa using h a (List.mem_cons_self ..))]
    rw [ih (fun e he => h e (List.mem_cons_of_mem _ he))]

/-- with distinct publication ids, the entries before the one named `x` do not carry `x` -/
theorem pre_ne_of_nodup {pre post : List HistEntry} {f : HistEntry}
    (hn : ((pre ++ f :: post).map (·.pub)).Nodup) : ∀ e ∈ pre, e.pub ≠ f.pub := by
  intro e he heq
  rw [List.map_append, List.nodup_append] at hn
  exact hn.2.2 e.pub (List.mem_map.mpr ⟨e, he, rfl⟩) f.pub (by simp) heq

/-! ### the meta procedure -/

set_option maxRecDepth 2000 in
/-- The `wamp.subscription.get_events` branch of `metaProc`, for a well-formed call on an existing
    subscription with a store: the answer is `histAnswer` rendered by `histEntryVal`. -/
theorem metaProc_history (r : Realm) (req : Nat) (details : Dict) (a : WVal) (rest : List WVal) (kw : Dict)
    (id : Nat) (q : HistQuery) (h : Hist) (ha : a.asID = some id) (hq : histQuery? kw = some q)
    (hsub : (r.broker.findId id).isSome = true) (hh : r.broker.hist.find? (fun h => h.sub == id) = some h) :
    metaProc r MetaProcEventHistory req details (a :: rest) kw =
      (mYield req ((histAnswer (subQuery r id q) h.entries).map histEntryVal)
        [("is_limit_reached", .bool (h.entries.length ≥ h.limit))], r) := by
  unfold metaProc
  have e1 : (MetaProcEventHistory == MetaProcSessionCount) = false := by decide
  have e2 : (MetaProcEventHistory == MetaProcSessionList) = false := by decide
  have e3 : (MetaProcEventHistory == MetaProcSessionGet) = false := by decide
  have e4 : (MetaProcEventHistory == MetaProcSessionKill) = false := by decide
  have e5 : (MetaProcEventHistory == MetaProcSessionKillByAuthid) = false := by decide
  have e6 : (MetaProcEventHistory == MetaProcSessionKillByAuthrole) = false := by decide
  have e7 : (MetaProcEventHistory == MetaProcSessionKillAll) = false := by decide
  have e8 : (MetaProcEventHistory == MetaProcSessionModifyDetails) = false := by decide
  have e9 : (MetaProcEventHistory == MetaProcRegList) = false := by decide
  have e10 : (MetaProcEventHistory == MetaProcRegLookup) = false := by decide
  have e11 : (MetaProcEventHistory == MetaProcRegMatch) = false := by decide
  have e12 : (MetaProcEventHistory == MetaProcRegGet) = false := by decide
  have e13 : (MetaProcEventHistory == MetaProcRegListCallees) = false := by decide
  have e14 : (MetaProcEventHistory == MetaProcRegCountCallees) = false := by decide
  have e15 : (MetaProcEventHistory == MetaProcSubList) = false := by decide
  have e16 : (MetaProcEventHistory == MetaProcSubLookup) = false := by decide
  have e17 : (MetaProcEventHistory == MetaProcSubMatch) = false := by decide
  have e18 : (MetaProcEventHistory == MetaProcSubGet) = false := by decide
  have e19 : (MetaProcEventHistory == MetaProcSubListSubscribers) = false := by decide
  have e20 : (MetaProcEventHistory == MetaProcSubCountSubscribers) = false := by decide
  have e21 : (MetaProcEventHistory == MetaProcEventHistory) = true := by decide
  simp only [e1, e2, e3, e4, e5, e6, e7, e8, e9, e10, e11, e12, e13, e14, e15, e16, e17, e18, e19, e20, e21,
    Bool.or_self, Bool.false_eq_true, if_false, if_true, ha, hq, hsub, hh]
  rfl

end Nexus.L2
