/-
  The dealer's messages as the realm delivers them (Nexus.L2.Realm): `Realm.deliver` appends the messages
  of a dealer action to the recipients' queues in order, dropping exactly those that meet a full queue;
  INVOCATIONs for the meta session become `metaInvoke` tasks, aborts become `leave … aborted` tasks.
  End-to-end consequences for `Realm.leave`, `Realm.timerDue`, and the yield retry loop
  (`Realm.handleYield` / `Realm.retryDue`).
-/
import Nexus.L2.Proofs.RealmBase
import Nexus.L2.Proofs.DealerRealm
import Nexus.L2.Proofs.DealerTimer

namespace Nexus.L2
open Gen.N

namespace Realm

/-! ### queues -/

/-- the router→client queue of session `k` (empty if it has none) -/
def dqueueOf (r : Realm) (k : SessKey) : List Msg :=
  match r.queues.find? (fun q => q.1 == k) with
  | some q => q.2
  | none => []

theorem dqueueLen_eq (r : Realm) (k : SessKey) : r.queueLen k = (r.dqueueOf k).length := by
  unfold queueLen dqueueOf
  cases r.queues.find? (fun q => q.1 == k) <;> rfl

/-- the messages of a list of sends addressed to `k`, in order -/
def dmsgsTo (k : SessKey) (ss : List Send) : List Msg := (ss.filter (fun x => x.to == k)).map (·.msg)

theorem dmsgsTo_cons (k : SessKey) (x : Send) (ss : List Send) :
    dmsgsTo k (x :: ss) = if x.to = k then x.msg :: dmsgsTo k ss else dmsgsTo k ss := by
  unfold dmsgsTo
  by_cases h : x.to = k <;> simp [h]

/-- the task an INVOCATION for the meta session becomes -/
def dmetaTask (x : Send) : Option Task :=
  if x.to = metaKey then
    match x.msg with
    | .invocation req reg details args kw => some (.metaInvoke req reg details args kw)
    | _ => none
  else none

@[simp] theorem dsetPanic_queues (r : Realm) (p : Option String) : (r.setPanic p).queues = r.queues := by
  unfold setPanic; split <;> rfl
@[simp] theorem dsetPanic_clients (r : Realm) (p : Option String) : (r.setPanic p).clients = r.clients := by
  unfold setPanic; split <;> rfl
@[simp] theorem dsetPanic_tasks (r : Realm) (p : Option String) : (r.setPanic p).tasks = r.tasks := by
  unfold setPanic; split <;> rfl
@[simp] theorem dsetPanic_retries (r : Realm) (p : Option String) : (r.setPanic p).retries = r.retries := by
  unfold setPanic; split <;> rfl
@[simp] theorem dsetPanic_now (r : Realm) (p : Option String) : (r.setPanic p).now = r.now := by
  unfold setPanic; split <;> rfl
@[simp] theorem dsetPanic_queueOf (r : Realm) (p : Option String) (k : SessKey) : (r.setPanic p).dqueueOf k = r.dqueueOf k := by
  unfold dqueueOf; rw [dsetPanic_queues]

@[simp] theorem dtrySend_clients (r : Realm) (x : Send) : (r.trySend x).clients = r.clients := by
  unfold trySend
  split
  · split <;> rfl
  · split
    · simp
    · split
      · rfl
      · split <;> rfl

@[simp] theorem dtrySend_retries (r : Realm) (x : Send) : (r.trySend x).retries = r.retries := by
  unfold trySend
  split
  · split <;> rfl
  · split
    · simp
    · split
      · rfl
      · split <;> rfl

@[simp] theorem dtrySend_now (r : Realm) (x : Send) : (r.trySend x).now = r.now := by
  unfold trySend
  split
  · split <;> rfl
  · split
    · simp
    · split
      · rfl
      · split <;> rfl

@[simp] theorem dsetPanic_inbox (r : Realm) (p : Option String) : (r.setPanic p).inbox = r.inbox := by
  unfold setPanic; split <;> rfl
@[simp] theorem dsetPanic_deferred (r : Realm) (p : Option String) : (r.setPanic p).deferred = r.deferred := by
  unfold setPanic; split <;> rfl

@[simp] theorem dtrySend_inbox (r : Realm) (x : Send) : (r.trySend x).inbox = r.inbox := by
  unfold trySend
  split
  · split <;> rfl
  · split
    · simp
    · split
      · rfl
      · split <;> rfl

@[simp] theorem dtrySend_deferred (r : Realm) (x : Send) : (r.trySend x).deferred = r.deferred := by
  unfold trySend
  split
  · split <;> rfl
  · split
    · simp
    · split
      · rfl
      · split <;> rfl

theorem dtrySend_tasks (r : Realm) (x : Send) : (r.trySend x).tasks = r.tasks ++ (dmetaTask x).toList := by
  unfold trySend dmetaTask
  split
  · cases x.msg <;> simp
  · split
    · simp
    · split
      · simp
      · split <;> simp

/-- a message for another session does not touch `k`'s queue -/
theorem dtrySend_queueOf_other (r : Realm) (x : Send) {k : SessKey} (h : x.to ≠ k) :
    (r.trySend x).dqueueOf k = r.dqueueOf k := by
  unfold trySend
  split
  · split <;> rfl
  · split
    · simp
    · split
      · rfl
      · split
        · unfold dqueueOf
          simp only
          rw [List.find?_map]
          have : ((fun q : SessKey × List Msg => q.1 == k) ∘
              fun q : SessKey × List Msg => if (q.1 == x.to) = true then (q.1, q.2 ++ [x.msg]) else q) =
              fun q => q.1 == k := by
            funext q
            simp only [Function.comp]
            split <;> rfl
          rw [this]
          cases hf : r.queues.find? (fun q => q.1 == k) with
          | none => rfl
          | some q =>
            have hq : q.1 = k := by simpa using List.find?_some hf
            have : ¬ q.1 = x.to := fun he => h (he.symm.trans hq)
            simp [this]
        · unfold dqueueOf
          simp only [List.find?_append]
          cases hf : r.queues.find? (fun q => q.1 == k) with
          | some q => rfl
          | none => simp [h]

/-- a message for client `k` is appended to its queue unless the queue is full -/
theorem dtrySend_queueOf_self (r : Realm) (x : Send) {c : Session} (hk : x.to ≠ metaKey)
    (hc : r.clients.find? (fun c => c.key == x.to) = some c) :
    (r.trySend x).dqueueOf x.to =
      if r.queueLen x.to ≥ c.cap then r.dqueueOf x.to else r.dqueueOf x.to ++ [x.msg] := by
  unfold trySend
  rw [if_neg hk]
  simp only [hc]
  split
  · rfl
  · split
    · rename_i hany
      unfold dqueueOf
      simp only
      rw [List.find?_map]
      have : ((fun q : SessKey × List Msg => q.1 == x.to) ∘
          fun q : SessKey × List Msg => if (q.1 == x.to) = true then (q.1, q.2 ++ [x.msg]) else q) =
          fun q => q.1 == x.to := by
        funext q
        simp only [Function.comp]
        split <;> rfl
      rw [this]
      cases hf : r.queues.find? (fun q => q.1 == x.to) with
      | none =>
        exfalso
        rw [List.find?_eq_none] at hf
        rcases List.any_eq_true.1 hany with ⟨q, hq, hqk⟩
        exact hf q hq hqk
      | some q =>
        have hq : q.1 = x.to := by simpa using List.find?_some hf
        simp [hq]
    · rename_i hany
      have hnone : r.queues.find? (fun q => q.1 == x.to) = none := by
        rw [List.find?_eq_none]
        intro q hq hqk
        exact hany (List.any_eq_true.2 ⟨q, hq, hqk⟩)
      unfold dqueueOf
      simp [List.find?_append, hnone]

@[simp] theorem ddeliver_clients : ∀ (ss : List Send) (r : Realm), (r.deliver ss).clients = r.clients
  | [], _ => rfl
  | x :: ss, r => by rw [deliver, ddeliver_clients ss, dtrySend_clients]

@[simp] theorem ddeliver_retries : ∀ (ss : List Send) (r : Realm), (r.deliver ss).retries = r.retries
  | [], _ => rfl
  | x :: ss, r => by rw [deliver, ddeliver_retries ss, dtrySend_retries]

@[simp] theorem ddeliver_now : ∀ (ss : List Send) (r : Realm), (r.deliver ss).now = r.now
  | [], _ => rfl
  | x :: ss, r => by rw [deliver, ddeliver_now ss, dtrySend_now]

@[simp] theorem ddeliver_inbox : ∀ (ss : List Send) (r : Realm), (r.deliver ss).inbox = r.inbox
  | [], _ => rfl
  | x :: ss, r => by rw [deliver, ddeliver_inbox ss, dtrySend_inbox]

@[simp] theorem ddeliver_deferred : ∀ (ss : List Send) (r : Realm), (r.deliver ss).deferred = r.deferred
  | [], _ => rfl
  | x :: ss, r => by rw [deliver, ddeliver_deferred ss, dtrySend_deferred]

/-- meta invocations become `metaInvoke` tasks, in order; nothing else is added to the task list -/
theorem ddeliver_tasks : ∀ (ss : List Send) (r : Realm), (r.deliver ss).tasks = r.tasks ++ ss.filterMap dmetaTask
  | [], r => by simp [deliver]
  | x :: ss, r => by
    rw [deliver, ddeliver_tasks ss, dtrySend_tasks, List.filterMap_cons]
    cases dmetaTask x <;> simp

/-- DELIVERY IN ORDER.  After delivering `ss`, the queue of client `k` is its old content followed by the messages
    of `ss` addressed to `k`, in order, cut off where the queue's capacity is reached (later messages for a full
    queue are dropped; other sessions are not affected). -/
theorem ddeliver_queueOf {k : SessKey} {c : Session} (hk : k ≠ metaKey) : ∀ (ss : List Send) (r : Realm),
    r.clients.find? (fun c => c.key == k) = some c →
    (r.deliver ss).dqueueOf k = r.dqueueOf k ++ (dmsgsTo k ss).take (c.cap - r.queueLen k)
  | [], r, _ => by simp [deliver, dmsgsTo]
  | x :: ss, r, hc => by
    have hc' : (r.trySend x).clients.find? (fun c => c.key == k) = some c := by rw [dtrySend_clients]; exact hc
    rw [deliver, ddeliver_queueOf hk ss (r.trySend x) hc', dmsgsTo_cons]
    by_cases hx : x.to = k
    · subst hx
      rw [if_pos rfl, dqueueLen_eq (r.trySend x), dtrySend_queueOf_self r x hk hc]
      by_cases hfull : r.queueLen x.to ≥ c.cap
      · rw [if_pos hfull]
        have h0 : c.cap - r.queueLen x.to = 0 := by omega
        have h0' : c.cap - (r.dqueueOf x.to).length = 0 := by rw [← dqueueLen_eq]; exact h0
        rw [h0, h0']; simp
      · rw [if_neg hfull]
        have hpos : c.cap - r.queueLen x.to = (c.cap - (r.dqueueOf x.to ++ [x.msg]).length) + 1 := by
          rw [dqueueLen_eq] at hfull ⊢
          simp only [List.length_append, List.length_cons, List.length_nil]
          omega
        rw [hpos, List.take_succ_cons]
        simp
    · rw [if_neg hx, dqueueLen_eq (r.trySend x), dtrySend_queueOf_other r x hx, ← dqueueLen_eq]

/-! ### applying a dealer action -/

@[simp] theorem dapplyD_clients (r : Realm) (o : DOut) : (r.applyD o).clients = r.clients := by
  unfold applyD; simp [addTasks]

@[simp] theorem dapplyD_retries (r : Realm) (o : DOut) : (r.applyD o).retries = r.retries := by
  unfold applyD; simp [addTasks]

@[simp] theorem dapplyD_now (r : Realm) (o : DOut) : (r.applyD o).now = r.now := by
  unfold applyD; simp [addTasks]

@[simp] theorem dapplyD_inbox (r : Realm) (o : DOut) : (r.applyD o).inbox = r.inbox := by
  unfold applyD; simp [addTasks]

@[simp] theorem dapplyD_deferred (r : Realm) (o : DOut) : (r.applyD o).deferred = r.deferred := by
  unfold applyD; simp [addTasks]

/-- the queues after a dealer action: its `sends`, delivered in order -/
theorem dapplyD_queueOf (r : Realm) (o : DOut) {k : SessKey} {c : Session} (hk : k ≠ metaKey)
    (hc : r.clients.find? (fun c => c.key == k) = some c) :
    (r.applyD o).dqueueOf k = r.dqueueOf k ++ (dmsgsTo k o.sends).take (c.cap - r.queueLen k) := by
  unfold applyD
  simp only [dsetPanic_queueOf]
  have : ∀ (r' : Realm) (e : List SessKey), ({ r' with ending := e } : Realm).dqueueOf k = r'.dqueueOf k := fun _ _ => rfl
  rw [this]
  have h2 : ∀ (r' : Realm) (ts : List Task), (r'.addTasks ts).dqueueOf k = r'.dqueueOf k := fun _ _ => rfl
  rw [h2, h2]
  exact ddeliver_queueOf hk o.sends { r with ds := o.st } hc

/-- the tasks after a dealer action: INVOCATIONs for the meta session, then the meta events, then one
    `leave … aborted` per aborted session -/
theorem dapplyD_tasks (r : Realm) (o : DOut) :
    (r.applyD o).tasks = r.tasks ++ o.sends.filterMap dmetaTask ++ o.metaPubs.map Task.metaPub ++
      o.aborts.map (fun k => Task.leave k .aborted) := by
  unfold applyD
  simp only [dsetPanic_tasks, addTasks]
  rw [ddeliver_tasks]

theorem dapplyD_ending (r : Realm) (o : DOut) : (r.applyD o).ending = r.ending ++ o.aborts := by
  unfold applyD
  have : ∀ (ss : List Send) (r : Realm), (r.deliver ss).ending = r.ending := by
    intro ss
    induction ss with
    | nil => intro r; rfl
    | cons x ss ih =>
      intro r
      rw [deliver, ih]
      unfold trySend
      split
      · split <;> rfl
      · split
        · unfold setPanic; split <;> rfl
        · split
          · rfl
          · split <;> rfl
  have hsp : ∀ (r : Realm) (p : Option String), (r.setPanic p).ending = r.ending := by
    intro r p; unfold setPanic; split <;> rfl
  simp only [hsp, addTasks]
  rw [this]

/-! ### replies in a queue -/

/-- the replies (RESULT / ERROR of type CALL) to request `req` among a list of messages -/
def qReplies (req : Nat) (ms : List Msg) : List Msg := ms.filter (fun m => m.replyReq == some req)

theorem dqReplies_msgsTo (c : ReqId) (ss : List Send) :
    qReplies c.req (dmsgsTo c.sess ss) = (repliesFor c ss).map (·.msg) := by
  unfold qReplies dmsgsTo repliesFor
  rw [List.filter_map, List.filter_filter]
  congr 1
  apply List.filter_congr
  intro x _
  obtain ⟨cs, cr⟩ := c
  cases hm : x.msg.replyReq with
  | none => simp [Send.replyTo, hm, Function.comp]
  | some r =>
    simp only [Send.replyTo, hm, Function.comp, Option.map_some]
    have hne : ∀ (a b : SessKey) (u v : Nat), ((⟨a, u⟩ : ReqId) == ⟨b, v⟩) = (decide (a = b) && decide (u = v)) := by
      intro a b u v
      show decide ((⟨a, u⟩ : ReqId) = ⟨b, v⟩) = _
      simp only [ReqId.mk.injEq, Bool.decide_and]
    by_cases h1 : x.to = cs <;> by_cases h2 : r = cr <;> simp [h1, h2, hne]

theorem qReplies_append (req : Nat) (a b : List Msg) : qReplies req (a ++ b) = qReplies req a ++ qReplies req b := by
  simp [qReplies]

theorem qReplies_of_none {req : Nat} {ms : List Msg} (h : ∀ m ∈ ms, m.replyReq = none) : qReplies req ms = [] := by
  unfold qReplies
  rw [List.filter_eq_nil_iff]
  intro m hm; simp [h m hm]

/-! ### the broker's part of `leave` sends EVENTs only -/

theorem dmetaEvent_noreply (b : Broker) (t : String) (pid : Nat) (cause : SessKey) (args : List WVal) :
    ∀ x ∈ b.metaEvent t pid cause args, x.msg.replyReq = none := by
  intro x hx
  unfold Broker.metaEvent at hx
  rcases List.mem_flatMap.1 hx with ⟨p, _, hp⟩
  rcases List.mem_map.1 hp with ⟨k, _, rfl⟩
  rfl

theorem dremoveMember_noreply (b : Broker) (k : SessKey) (id pub0 : Nat) :
    ∀ x ∈ (b.removeMember k id pub0).2.1, x.msg.replyReq = none := by
  unfold Broker.removeMember
  split
  · simp
  · simp only
    split
    · intro x hx
      rcases List.mem_append.1 hx with hx | hx <;> exact dmetaEvent_noreply _ _ _ _ _ x hx
    · exact dmetaEvent_noreply _ _ _ _ _

theorem dremoveMembers_noreply (k : SessKey) : ∀ (ids : List Nat) (b : Broker) (pub0 : Nat),
    ∀ x ∈ (b.removeMembers k pub0 ids).2.1, x.msg.replyReq = none
  | [], _, _ => by simp [Broker.removeMembers]
  | id :: ids, b, pub0 => by
    intro x hx
    simp only [Broker.removeMembers] at hx
    rcases List.mem_append.1 hx with hx | hx
    · exact dremoveMember_noreply b k id pub0 x hx
    · exact dremoveMembers_noreply k ids _ _ x hx

theorem dbrokerRemove_noreply (b : Broker) (k : SessKey) (pub0 : Nat) :
    ∀ x ∈ (b.syncRemoveSession k pub0).2.1, x.msg.replyReq = none := by
  unfold Broker.syncRemoveSession
  split
  · simp
  · exact dremoveMembers_noreply k _ _ _

/-! ### `Realm.leave` -/

theorem dmem_msgsTo {k : SessKey} {ss : List Send} {m : Msg} (h : m ∈ dmsgsTo k ss) : ∃ x ∈ ss, x.to = k ∧ x.msg = m := by
  unfold dmsgsTo at h
  rcases List.mem_map.1 h with ⟨x, hx, rfl⟩
  have := List.mem_filter.1 hx
  exact ⟨x, this.1, by simpa using this.2, rfl⟩

theorem dtakeTestaments_denv (r : Realm) (k : SessKey) : (r.takeTestaments k).2.denv = r.denv := by
  unfold takeTestaments; split <;> rfl
theorem dtakeTestaments_ds (r : Realm) (k : SessKey) : (r.takeTestaments k).2.ds = r.ds := by
  unfold takeTestaments; split <;> rfl
theorem dtakeTestaments_clients (r : Realm) (k : SessKey) : (r.takeTestaments k).2.clients = r.clients := by
  unfold takeTestaments; split <;> rfl
theorem dtakeTestaments_queueOf (r : Realm) (k k' : SessKey) : (r.takeTestaments k).2.dqueueOf k' = r.dqueueOf k' := by
  unfold takeTestaments; split <;> rfl

theorem dleaveSend_ds (r : Realm) (k : SessKey) (mode : LeaveMode) : (leaveSend r k mode).ds = r.ds := by
  cases mode <;> simp [leaveSend]
theorem dleaveSend_clients (r : Realm) (k : SessKey) (mode : LeaveMode) : (leaveSend r k mode).clients = r.clients := by
  cases mode <;> simp [leaveSend]

/-- the queue of `caller` after the dealer/broker part of a (non-shutdown) departure of `k`: the dealer's
    messages for `caller` in order, then the broker's meta EVENTs for it, each cut off at the queue's capacity -/
theorem leaveRemove_queueOf (r : Realm) (k : SessKey) {caller : SessKey} {c : Session} (hcm : caller ≠ metaKey)
    (hc : r.clients.find? (fun c => c.key == caller) = some c) :
    ∃ bs : List Msg, (∀ m ∈ bs, m.replyReq = none) ∧
      (leaveRemove r k false).dqueueOf caller =
        (r.dqueueOf caller ++ (dmsgsTo caller (syncRemoveSession r.denv r.ds k).sends).take (c.cap - r.queueLen caller)) ++
          bs.take (c.cap - (r.dqueueOf caller ++
            (dmsgsTo caller (syncRemoveSession r.denv r.ds k).sends).take (c.cap - r.queueLen caller)).length) := by
  unfold leaveRemove
  simp only [Bool.false_eq_true, if_false]
  have hqo := dapplyD_queueOf r (syncRemoveSession r.denv r.ds k) hcm hc
  have hcl := dapplyD_clients r (syncRemoveSession r.denv r.ds k)
  generalize r.applyD (syncRemoveSession r.denv r.ds k) = r' at hqo hcl ⊢
  rcases hb : r'.broker.syncRemoveSession k r'.pubCount with ⟨b, sends, n⟩
  simp only
  refine ⟨dmsgsTo caller sends, ?_, ?_⟩
  · intro m hm
    obtain ⟨x, hx, _, rfl⟩ := dmem_msgsTo hm
    have := dbrokerRemove_noreply r'.broker k r'.pubCount x
    rw [hb] at this
    exact this hx
  · have hdel := ddeliver_queueOf hcm sends ({ r' with broker := b, pubCount := r'.pubCount + n } : Realm)
      (c := c) (by show r'.clients.find? _ = _; rw [hcl]; exact hc)
    have hq' : ({ r' with broker := b, pubCount := r'.pubCount + n } : Realm).dqueueOf caller = r'.dqueueOf caller := rfl
    rw [hdel, dqueueLen_eq, hq', hqo]

/-- the queue of `caller` after `Realm.leave r k mode` (not a shutdown) -/
theorem leave_queueOf (r : Realm) {k : SessKey} {s : Session} (mode : LeaveMode)
    (hfind : r.clients.find? (fun c => c.key == k) = some s) (hmode : mode.isShutdown = false)
    {caller : SessKey} {c : Session} (hcm : caller ≠ metaKey)
    (hc : r.clients.find? (fun c => c.key == caller) = some c) :
    ∃ bs : List Msg, (∀ m ∈ bs, m.replyReq = none) ∧
      (r.leave k mode).dqueueOf caller =
        ((leaveSend r k mode).dqueueOf caller ++
          (dmsgsTo caller (syncRemoveSession (leaveSend r k mode).denv r.ds k).sends).take
            (c.cap - (leaveSend r k mode).queueLen caller)) ++
          bs.take (c.cap - ((leaveSend r k mode).dqueueOf caller ++
            (dmsgsTo caller (syncRemoveSession (leaveSend r k mode).denv r.ds k).sends).take
              (c.cap - (leaveSend r k mode).queueLen caller)).length) := by
  rw [leave_some mode hfind, hmode]
  have hc1 : ((leaveSend r k mode).takeTestaments k).2.clients.find? (fun c => c.key == caller) = some c := by
    rw [dtakeTestaments_clients, dleaveSend_clients]; exact hc
  obtain ⟨bs, hbs, hq⟩ := leaveRemove_queueOf ((leaveSend r k mode).takeTestaments k).2 k hcm hc1
  refine ⟨bs, hbs, ?_⟩
  have hclose : ∀ (r' : Realm), (leaveClose r' s).dqueueOf caller = r'.dqueueOf caller := fun _ => rfl
  have hann : ∀ (r' : Realm) (t : Option TBucket), (leaveAnnounce r' s t false).dqueueOf caller = r'.dqueueOf caller :=
    fun _ _ => rfl
  rw [hclose, hann, hq, dtakeTestaments_denv, dtakeTestaments_ds, dtakeTestaments_queueOf, dqueueLen_eq,
    dtakeTestaments_queueOf, dleaveSend_ds, ← dqueueLen_eq]



theorem dtake_all {α} {l : List α} {n : Nat} (h : l.length ≤ n) : l.take n = l := List.take_of_length_le h

/-- END TO END: the callee's session ends (not a realm shutdown).  For every call `k` was serving whose caller is
    an attached client with room for the dealer's messages: the caller's queue grows by a list `app` that contains
    exactly one reply to that request, ERROR(CALL, req, wamp.error.canceled). -/
theorem leave_callee_gone (r : Realm) (h : DealerInv r.ds) {k : SessKey} {s : Session} (mode : LeaveMode)
    (hfind : r.clients.find? (fun c => c.key == k) = some s) (hmode : mode.isShutdown = false)
    {v : Invk} (hv : v ∈ r.ds.d.invs) (hk : v.callee = k) {c : Session} (hcm : v.callId.sess ≠ metaKey)
    (hc : r.clients.find? (fun c => c.key == v.callId.sess) = some c)
    (hroom : (leaveSend r k mode).queueLen v.callId.sess +
      (dmsgsTo v.callId.sess (syncRemoveSession (leaveSend r k mode).denv r.ds k).sends).length ≤ c.cap) :
    ∃ app, (r.leave k mode).dqueueOf v.callId.sess = (leaveSend r k mode).dqueueOf v.callId.sess ++ app ∧
      qReplies v.callId.req app = [.error tCALL v.callId.req [] ErrCanceled [.str "<text>"] []] ∧
      v.callId ∉ (syncRemoveSession (leaveSend r k mode).denv r.ds k).st.d.calls := by
  obtain ⟨bs, hbs, hq⟩ := leave_queueOf r mode hfind hmode hcm hc
  rw [dtake_all (by omega)] at hq
  refine ⟨_, by rw [hq, List.append_assoc], ?_, ?_⟩
  · rw [qReplies_append, dqReplies_msgsTo]
    rcases syncRemoveSession_replies (env := (leaveSend r k mode).denv) h k v.callId with ⟨_, h2⟩ | ⟨h1, _⟩
    · exact absurd rfl (h2 v hv hk)
    · rw [h1, qReplies_of_none (fun m hm => hbs m (List.mem_of_mem_take hm))]
      rfl
  · exact fun hcc => (syncRemoveSession_calls h k v.callId hcc).2.2 v hv hk rfl

/-! ### a call timer fires -/

theorem syncCancel_live_replies {env : DEnv} {s : DState} (h : DealerInv s) {c : ReqId} {v : Invk} (hv : v ∈ s.d.invs)
    (hvc : v.callId = c) (hcan : v.canceled = false) {mode : String} (hmode : mode ≠ CancelModeKill) (reason : String)
    (errArgs : List WVal) :
    repliesFor c (syncCancel env s c.sess c.req mode reason errArgs).sends = [callErr c [] reason errArgs []] ∧
      (syncCancel env s c.sess c.req mode reason errArgs).sends.length ≤ 2 ∧
      c ∉ (syncCancel env s c.sess c.req mode reason errArgs).st.d.calls := by
  rw [syncCancel_live h hv hvc hcan]
  split
  · exact ⟨by simp [repliesFor_cons], by simp, by simp⟩
  · exact ⟨by simp [repliesFor_cons], by simp, by simp⟩

/-- END TO END: the router-side timeout of a pending, not cancelled call fires.  The caller (an attached client)
    gets the dealer's messages for it appended in order as far as its queue has room; among them is exactly one
    reply to that request, ERROR(CALL, req, wamp.error.timeout); the call is removed from the dealer. -/
theorem timerDue_queueOf (r : Realm) (h : DealerInv r.ds) (t : Timer) {v : Invk} (hv : v ∈ r.ds.d.invs)
    (hvc : v.callId = ⟨t.caller, t.req⟩) (hcan : v.canceled = false) {c : Session} (hcm : t.caller ≠ metaKey)
    (hc : r.clients.find? (fun c => c.key == t.caller) = some c) :
    ∃ app, (r.timerDue t).dqueueOf t.caller = r.dqueueOf t.caller ++ app.take (c.cap - r.queueLen t.caller) ∧
      qReplies t.req app = [.error tCALL t.req [] ErrTimeout [.str "<text>"] []] ∧ app.length ≤ 2 ∧
      (⟨t.caller, t.req⟩ : ReqId) ∉ (r.timerDue t).ds.d.calls := by
  have h' := h.filterTimers (fun y => y.id != t.id)
  obtain ⟨h1, h2, h3⟩ := syncCancel_live_replies (env := r.denv) h' (c := ⟨t.caller, t.req⟩) hv hvc hcan
    (mode := CancelModeKillNoWait) (by decide) ErrTimeout [.str "<text>"]
  refine ⟨dmsgsTo t.caller (syncCancel r.denv { r.ds with timers := r.ds.timers.filter (fun y => y.id != t.id) }
    t.caller t.req CancelModeKillNoWait ErrTimeout [.str "<text>"]).sends, ?_, ?_, ?_, ?_⟩
  · unfold timerDue
    exact dapplyD_queueOf ({ r with ds := { r.ds with timers := r.ds.timers.filter (fun y => y.id != t.id) } } : Realm)
      _ hcm hc
  · have := dqReplies_msgsTo (⟨t.caller, t.req⟩ : ReqId) (syncCancel r.denv
      { r.ds with timers := r.ds.timers.filter (fun y => y.id != t.id) } t.caller t.req CancelModeKillNoWait ErrTimeout
      [.str "<text>"]).sends
    simp only at this
    rw [this, h1]
    rfl
  · unfold dmsgsTo
    rw [List.length_map]
    exact Nat.le_trans (List.length_filter_le _ _) h2
  · rw [timerDue_ds]; exact h3

/-! ### the yield retry loop -/

theorem syncYield_not_again (env : DEnv) (s : DState) (callee : SessKey) (req : Nat) (opts : Dict)
    (args : List WVal) (kw : Dict) (progress : Bool) :
    (syncYield env s callee req opts args kw progress false).again = false := by
  have hc : ∀ (caller : SessKey) (rq : Nat) (mode reason : String) (ea : List WVal) (s' : DState),
      (syncCancel env s' caller rq mode reason ea).again = false := by
    intro caller rq mode reason ea s'
    unfold syncCancel
    simp only
    split
    · rfl
    · split
      · rfl
      · split
        · rfl
        · split
          · rfl
          · split <;> rfl
  unfold syncYield
  simp only
  split
  · split <;> rfl
  · split
    · rfl
    · split
      · rfl
      · split
        · rfl
        · split
          · rfl
          · split
            · rfl
            · simp only [Bool.false_eq_true, if_false]
              exact hc ..

/-- a retry entry in phase `n` (n-th turn of the loop): it fires `2^n - 1` ms after the start, with delay `2^(n-1)` -/
def InPhase (x : Retry) (n : Nat) : Prop := 1 ≤ n ∧ x.next + 1 = x.start + 2 ^ n ∧ x.delay = 2 ^ (n - 1)

/-- `dealer.yield` blocked on a full caller queue: the handler enters the retry loop in phase 1 and is busy -/
theorem handleYield_again (r : Realm) (s : Session) (req : Nat) (opts : Dict) (args : List WVal) (kw : Dict)
    (ha : (syncYield r.denv r.ds s.key req opts args kw (opts.optFlag OptProgress) true).again = true) :
    ∃ x, (r.handleYield s req opts args kw).retries = r.retries ++ [x] ∧ x.callee = s.key ∧ x.start = r.now ∧
      InPhase x 1 ∧ (r.handleYield s req opts args kw).busy s.key = true := by
  unfold handleYield
  simp only [ha, if_true, dapplyD_retries, dapplyD_now]
  refine ⟨_, rfl, rfl, rfl, ⟨Nat.le_refl _, by simp [yieldRetryDelayMs], by simp [yieldRetryDelayMs]⟩, ?_⟩
  simp [busy]

/-- one turn of the retry loop -/
def retryOut (r : Realm) (x : Retry) : DOut :=
  syncYield r.denv r.ds x.callee x.req x.opts x.args x.kw x.progress (decide (r.now - x.start < sendResultDeadlineMs))

theorem retryDue_eq (r : Realm) (x : Retry) :
    r.retryDue x =
      if (retryOut r x).again then
        { ({ r with retries := r.retries.filter (fun y => y.callee != x.callee) } : Realm).applyD (retryOut r x) with
          retries := (({ r with retries := r.retries.filter (fun y => y.callee != x.callee) } : Realm).applyD
              (retryOut r x)).retries ++
            [{ x with next := (({ r with retries := r.retries.filter (fun y => y.callee != x.callee) } : Realm).applyD
              (retryOut r x)).now + x.delay * 2, delay := x.delay * 2 }] }
      else
        { ({ r with retries := r.retries.filter (fun y => y.callee != x.callee) } : Realm).applyD (retryOut r x) with
          deferred := (({ r with retries := r.retries.filter (fun y => y.callee != x.callee) } : Realm).applyD
            (retryOut r x)).deferred.filter (fun d => d.1 != x.callee)
          inbox := (({ r with retries := r.retries.filter (fun y => y.callee != x.callee) } : Realm).applyD
            (retryOut r x)).inbox.filter (fun d => d.1 != x.callee)
          tasks := (({ r with retries := r.retries.filter (fun y => y.callee != x.callee) } : Realm).applyD
            (retryOut r x)).tasks ++
            ((({ r with retries := r.retries.filter (fun y => y.callee != x.callee) } : Realm).applyD
              (retryOut r x)).inbox.filter (fun d => d.1 == x.callee)).map (fun d => Task.inMsg d.1 d.2) ++
            ((({ r with retries := r.retries.filter (fun y => y.callee != x.callee) } : Realm).applyD
              (retryOut r x)).deferred.filter (fun d => d.1 == x.callee)).map (fun d => Task.leave d.1 d.2) } := rfl

theorem retryDue_retries (r : Realm) (x : Retry) :
    (r.retryDue x).retries =
      if (retryOut r x).again then
        r.retries.filter (fun y => y.callee != x.callee) ++ [{ x with next := r.now + x.delay * 2, delay := x.delay * 2 }]
      else r.retries.filter (fun y => y.callee != x.callee) := by
  rw [retryDue_eq]
  split
  · simp only [dapplyD_retries, dapplyD_now]
  · simp only [dapplyD_retries]

theorem retryDue_ds (r : Realm) (x : Retry) : (r.retryDue x).ds = (retryOut r x).st := by
  rw [retryDue_eq]
  split <;> simp only [applyD_ds]

theorem pow_le_15 {n : Nat} (h : n ≤ 15) : 2 ^ n ≤ 32768 := by
  have := Nat.pow_le_pow_right (show 0 < 2 by omega) h
  omega

theorem pow_ge_16 {n : Nat} (h : 16 ≤ n) : 65536 ≤ 2 ^ n := by
  have := Nat.pow_le_pow_right (show 0 < 2 by omega) h
  omega

/-- in phase `n`, fired on time, the loop may go on iff `n ≤ 15` (2^n - 1 < 60000) -/
theorem phase_canRetry {r : Realm} {x : Retry} {n : Nat} (hp : InPhase x n) (hnow : r.now = x.next) :
    decide (r.now - x.start < sendResultDeadlineMs) = decide (n ≤ 15) := by
  obtain ⟨h1, h2, _⟩ := hp
  apply decide_eq_decide.2
  unfold sendResultDeadlineMs
  constructor
  · intro hlt
    apply Classical.byContradiction
    intro hn
    have := pow_ge_16 (by omega : 16 ≤ n)
    omega
  · intro hn
    have := pow_le_15 hn
    omega

theorem phase_next {r : Realm} {x : Retry} {n : Nat} (hp : InPhase x n) (hnow : r.now = x.next) :
    InPhase { x with next := r.now + x.delay * 2, delay := x.delay * 2 } (n + 1) := by
  obtain ⟨h1, h2, h3⟩ := hp
  have e1 : 2 ^ (n + 1) = 2 ^ n * 2 := by rw [Nat.pow_succ]
  have e2 : 2 ^ n = 2 ^ (n - 1) * 2 := by
    have : n = (n - 1) + 1 := by omega
    conv => lhs; rw [this]
    rw [Nat.pow_succ]
  refine ⟨by omega, ?_, ?_⟩
  · show r.now + x.delay * 2 + 1 = x.start + 2 ^ (n + 1)
    rw [hnow, h3]
    omega
  · show x.delay * 2 = 2 ^ (n + 1 - 1)
    rw [h3]
    have : n + 1 - 1 = n := by omega
    rw [this]
    exact e2.symm

/-- a message from a session whose handler is in the retry loop is not processed: it is appended to `inbox`
    when the session is attached, not ending and `buffered`; otherwise nothing happens at all -/
theorem recvMsg_busy (r : Realm) (k : SessKey) (m : Msg) (hb : r.busy k = true) :
    r.recvMsg k m =
      if ((r.clients.find? (fun c => c.key == k)).any (·.buffered) && !r.ending.contains k) = true
      then { r with inbox := r.inbox ++ [(k, m)] } else r := by
  rw [recvMsg_eq]
  cases r.clients.find? (fun c => c.key == k) with
  | none => rfl
  | some s =>
    cases he : r.ending.contains k <;> cases hbuf : s.buffered <;>
      simp only [he, hb, hbuf, if_true, if_false, Option.any_some, Bool.not_false, Bool.not_true, Bool.and_self,
        Bool.and_true, Bool.and_false, Bool.false_eq_true]

theorem stepOp_msg_busy (r : Realm) (k : SessKey) (m : Msg) (hb : r.busy k = true) :
    r.stepOp (.msg k m) =
      if ((r.clients.find? (fun c => c.key == k)).any (·.buffered) && !r.ending.contains k) = true
      then { r with inbox := r.inbox ++ [(k, m)] } else r := by
  rw [stepOp_msg]; exact recvMsg_busy r k m hb


theorem retryOut_again_canRetry {r : Realm} {x : Retry} (ha : (retryOut r x).again = true) :
    decide (r.now - x.start < sendResultDeadlineMs) = true := by
  cases hd : decide (r.now - x.start < sendResultDeadlineMs) with
  | true => rfl
  | false =>
    unfold retryOut at ha
    rw [hd, syncYield_not_again] at ha
    cases ha

/-! ### the inbox: what a socket-attached client sends while its handler is in the retry loop -/

/-- the messages of session `k` waiting in the transport, oldest first -/
def inboxOf (r : Realm) (k : SessKey) : List Msg := (r.inbox.filter (fun d => d.1 == k)).map (·.2)

/-- the message of an attached, not ending, `buffered` session whose handler is busy is appended at
    the END of `inbox`; nothing else changes -/
theorem recvMsg_buffered {r : Realm} {k : SessKey} {s : Session} (m : Msg) (hb : r.busy k = true)
    (hf : r.clients.find? (fun c => c.key == k) = some s) (hbuf : s.buffered = true)
    (he : r.ending.contains k = false) :
    r.recvMsg k m = { r with inbox := r.inbox ++ [(k, m)] } := by
  rw [recvMsg_busy r k m hb, hf]
  simp only [Option.any_some, hbuf, he, Bool.not_false, Bool.and_self, if_true]

/-- … and for every other busy sender (a linked peer: not `buffered`; unknown; ending) nothing happens -/
theorem recvMsg_unbuffered {r : Realm} {k : SessKey} (m : Msg) (hb : r.busy k = true)
    (h : (∀ s, r.clients.find? (fun c => c.key == k) = some s → s.buffered = false) ∨ r.ending.contains k = true) :
    r.recvMsg k m = r := by
  rw [recvMsg_busy r k m hb]
  rcases h with h | h
  · cases hf : r.clients.find? (fun c => c.key == k) with
    | none => simp only [Option.any_none, Bool.false_and, Bool.false_eq_true, if_false]
    | some s => simp only [Option.any_some, h s hf, Bool.false_and, Bool.false_eq_true, if_false]
  · simp only [h, Bool.not_true, Bool.and_false, Bool.false_eq_true, if_false]

theorem inboxOf_append (r : Realm) (k : SessKey) (m : Msg) (k' : SessKey) :
    inboxOf ({ r with inbox := r.inbox ++ [(k, m)] } : Realm) k' = if k' = k then inboxOf r k' ++ [m] else inboxOf r k' := by
  unfold inboxOf
  by_cases h : k' = k
  · subst h; simp [List.filter_append]
  · have : ¬ k = k' := fun e => h e.symm
    simp [List.filter_append, h, this]

/-- the tasks made of waiting messages are for the callee: `inMsg k m` for each waiting `m`, in order -/
theorem inbox_tasks (l : List (SessKey × Msg)) (k : SessKey) :
    (l.filter (fun d => d.1 == k)).map (fun d => Task.inMsg d.1 d.2) =
      ((l.filter (fun d => d.1 == k)).map (·.2)).map (Task.inMsg k) := by
  rw [List.map_map]
  apply List.map_congr_left
  intro d hd
  have : d.1 = k := by simpa using (List.mem_filter.mp hd).2
  simp [this]

theorem deferred_tasks (l : List (SessKey × LeaveMode)) (k : SessKey) :
    (l.filter (fun d => d.1 == k)).map (fun d => Task.leave d.1 d.2) =
      ((l.filter (fun d => d.1 == k)).map (·.2)).map (Task.leave k) := by
  rw [List.map_map]
  apply List.map_congr_left
  intro d hd
  have : d.1 = k := by simpa using (List.mem_filter.mp hd).2
  simp [this]

/-- the tasks a turn of the retry loop itself queues (the dealer's part: invocations for the meta
    session, meta events, aborts) -/
def retryTasks (r : Realm) (x : Retry) : List Task :=
  (retryOut r x).sends.filterMap dmetaTask ++ (retryOut r x).metaPubs.map Task.metaPub ++
    (retryOut r x).aborts.map (fun k => Task.leave k .aborted)

/-- THE LOOP ENDS (`again = false`): the handler of `x.callee` is free again.  After whatever the turn itself
    queued, the task list gets exactly that session's waiting messages as `inMsg` tasks in arrival
    order, then its deferred departures; `inbox` and `deferred` keep the other sessions' entries (in
    order) and no longer mention the callee. -/
theorem retryDue_release (r : Realm) (x : Retry) (ha : (retryOut r x).again = false) :
    (r.retryDue x).tasks =
      r.tasks ++ retryTasks r x ++ (inboxOf r x.callee).map (Task.inMsg x.callee) ++
        ((r.deferred.filter (fun d => d.1 == x.callee)).map (·.2)).map (Task.leave x.callee) ∧
    (r.retryDue x).inbox = r.inbox.filter (fun d => d.1 != x.callee) ∧
    (r.retryDue x).deferred = r.deferred.filter (fun d => d.1 != x.callee) ∧
    inboxOf (r.retryDue x) x.callee = [] ∧
    (∀ k, k ≠ x.callee → inboxOf (r.retryDue x) k = inboxOf r k) := by
  have hinb : (r.retryDue x).inbox = r.inbox.filter (fun d => d.1 != x.callee) := by
    rw [retryDue_eq]; simp only [ha, Bool.false_eq_true, if_false, dapplyD_inbox]
  refine ⟨?_, hinb, ?_, ?_, ?_⟩
  · rw [retryDue_eq]
    simp only [ha, Bool.false_eq_true, if_false, dapplyD_inbox, dapplyD_deferred, dapplyD_tasks]
    rw [inbox_tasks, deferred_tasks]
    simp only [retryTasks, inboxOf, List.append_assoc]
  · rw [retryDue_eq]; simp only [ha, Bool.false_eq_true, if_false, dapplyD_deferred]
  · unfold inboxOf
    rw [hinb, List.filter_filter]
    have : (r.inbox.filter (fun d => (d.1 == x.callee) && (d.1 != x.callee))) = [] := by
      rw [List.filter_eq_nil_iff]; intro d _; simp
    rw [this]; rfl
  · intro k hk
    unfold inboxOf
    rw [hinb, List.filter_filter]
    congr 1
    apply List.filter_congr
    intro d _
    by_cases hd : d.1 = k
    · simp [hd, hk]
    · simp [hd]

/-- THE LOOP GOES ON (`again = true`): nothing is released — `inbox` and `deferred` are untouched, the task
    list gets only what the turn itself queued. -/
theorem retryDue_holds (r : Realm) (x : Retry) (ha : (retryOut r x).again = true) :
    (r.retryDue x).tasks = r.tasks ++ retryTasks r x ∧ (r.retryDue x).inbox = r.inbox ∧
    (r.retryDue x).deferred = r.deferred := by
  rw [retryDue_eq]
  simp only [ha, if_true, dapplyD_inbox, dapplyD_deferred, dapplyD_tasks, retryTasks, List.append_assoc]
  exact ⟨trivial, trivial, trivial⟩

theorem busy_of_mem {r : Realm} {x : Retry} (h : x ∈ r.retries) : r.busy x.callee = true := by
  unfold busy
  exact List.any_eq_true.2 ⟨x, h, by simp⟩

theorem not_busy_filter (rs : List Retry) (k : SessKey) :
    (rs.filter (fun y => y.callee != k)).any (fun x => x.callee == k) = false := by
  rw [List.any_eq_false]
  intro y hy
  have := (List.mem_filter.1 hy).2
  simpa using this

end Realm
end Nexus.L2
