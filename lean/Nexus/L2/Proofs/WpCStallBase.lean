/-
  C07 "stall isolation", part 1: the relation `EqOff x r r'` (two realm states that agree on everything
  except what concerns only the session `x` itself: the contents of x's outbound queue, whether x reads
  (`stalled`), and whether x's closure has been observed (`closedPeers`/`ghosts` at `x`)), and its
  preservation by the primitives (`setPanic`, `trySend`, `deliver`, `addTasks`), for ANY send.

  Nothing here needs an invariant.
-/
import Nexus.L2.Proofs.RealmQueue

set_option linter.unusedSimpArgs false

namespace Nexus.L2.WpC
open Nexus.L2 Nexus.L2.Realm Gen.N

/-! ### vocabulary -/

/-- forget whether the session keyed `x` reads -/
def unstall (x : SessKey) (c : Session) : Session := if c.key == x then { c with stalled := false } else c

/-- `r` and `r'` agree off `x`: every table, task list, clock, counter and the panic flag are equal; the
    attached clients are the same except for the `stalled` flag of `x`; the outbound queues are the same
    (same keys, same order, same contents) except for the entries of `x`; `closedPeers` and `ghosts`
    (which `flush` consults only to decide what the client itself has observed) are the same except
    for the entries `x`. -/
structure EqOff (x : SessKey) (r r' : Realm) : Prop where
  cfg : r'.cfg = r.cfg
  broker : r'.broker = r.broker
  ds : r'.ds = r.ds
  clients : r'.clients.map (unstall x) = r.clients.map (unstall x)
  ending : r'.ending = r.ending
  testaments : r'.testaments = r.testaments
  metaProcs : r'.metaProcs = r.metaProcs
  metaS : r'.metaS = r.metaS
  queues : r'.queues.filter (fun q => q.1 != x) = r.queues.filter (fun q => q.1 != x)
  closedPeers : r'.closedPeers.filter (· != x) = r.closedPeers.filter (· != x)
  tasks : r'.tasks = r.tasks
  retries : r'.retries = r.retries
  deferred : r'.deferred = r.deferred
  inbox : r'.inbox = r.inbox
  ghosts : r'.ghosts.filter (· != x) = r.ghosts.filter (· != x)
  now : r'.now = r.now
  pubCount : r'.pubCount = r.pubCount
  rnd : r'.rnd = r.rnd
  panic : r'.panic = r.panic

/-- close an `EqOff` goal between two states built from `r` and `r'` by the same record updates -/
macro "eqoff_upd " h:term : tactic => `(tactic|
  (refine EqOff.mk ?_ ?_ ?_ ?_ ?_ ?_ ?_ ?_ ?_ ?_ ?_ ?_ ?_ ?_ ?_ ?_ ?_ ?_ ?_ <;>
   simp only [($h).cfg, ($h).broker, ($h).ds, ($h).clients, ($h).ending, ($h).testaments, ($h).metaProcs,
     ($h).metaS, ($h).queues, ($h).closedPeers, ($h).tasks, ($h).retries, ($h).deferred, ($h).inbox,
     ($h).ghosts, ($h).now, ($h).pubCount, ($h).rnd, ($h).panic]))

variable {x : SessKey}

theorem EqOff.refl (r : Realm) : EqOff x r r :=
  ⟨rfl, rfl, rfl, rfl, rfl, rfl, rfl, rfl, rfl, rfl, rfl, rfl, rfl, rfl, rfl, rfl, rfl, rfl, rfl⟩

theorem EqOff.symm {r r' : Realm} (h : EqOff x r r') : EqOff x r' r :=
  ⟨h.cfg.symm, h.broker.symm, h.ds.symm, h.clients.symm, h.ending.symm, h.testaments.symm, h.metaProcs.symm,
   h.metaS.symm, h.queues.symm, h.closedPeers.symm, h.tasks.symm, h.retries.symm, h.deferred.symm, h.inbox.symm,
   h.ghosts.symm, h.now.symm, h.pubCount.symm, h.rnd.symm, h.panic.symm⟩

theorem EqOff.trans {a b c : Realm} (h1 : EqOff x a b) (h2 : EqOff x b c) : EqOff x a c :=
  ⟨h2.cfg.trans h1.cfg, h2.broker.trans h1.broker, h2.ds.trans h1.ds, h2.clients.trans h1.clients,
   h2.ending.trans h1.ending, h2.testaments.trans h1.testaments, h2.metaProcs.trans h1.metaProcs,
   h2.metaS.trans h1.metaS, h2.queues.trans h1.queues, h2.closedPeers.trans h1.closedPeers,
   h2.tasks.trans h1.tasks, h2.retries.trans h1.retries, h2.deferred.trans h1.deferred, h2.inbox.trans h1.inbox,
   h2.ghosts.trans h1.ghosts, h2.now.trans h1.now, h2.pubCount.trans h1.pubCount, h2.rnd.trans h1.rnd,
   h2.panic.trans h1.panic⟩

/-! ### sessions up to `stalled` -/

@[simp] theorem unstall_key (c : Session) : (unstall x c).key = c.key := by unfold unstall; split <;> rfl
@[simp] theorem unstall_details (c : Session) : (unstall x c).details = c.details := by unfold unstall; split <;> rfl
@[simp] theorem unstall_roles (c : Session) : (unstall x c).roles = c.roles := by unfold unstall; split <;> rfl
@[simp] theorem unstall_isLocal (c : Session) : (unstall x c).isLocal = c.isLocal := by unfold unstall; split <;> rfl
@[simp] theorem unstall_cap (c : Session) : (unstall x c).cap = c.cap := by unfold unstall; split <;> rfl
@[simp] theorem unstall_buffered (c : Session) : (unstall x c).buffered = c.buffered := by
  unfold unstall; split <;> rfl

theorem unstall_of_ne {c : Session} (h : c.key ≠ x) : unstall x c = c := by
  unfold unstall; rw [if_neg (by simpa using h)]

theorem unstall_hasFeature (c : Session) (role feat : String) :
    (unstall x c).hasFeature role feat = c.hasFeature role feat := by
  unfold Session.hasFeature; rw [unstall_roles]

/-- two sessions that differ at most in `stalled` (and then only if keyed `x`) -/
def SEq (x : SessKey) (c c' : Session) : Prop := unstall x c' = unstall x c

theorem SEq.key {c c' : Session} (h : SEq x c c') : c'.key = c.key := by
  have := congrArg Session.key h; simpa using this
theorem SEq.details {c c' : Session} (h : SEq x c c') : c'.details = c.details := by
  have := congrArg Session.details h; simpa using this
theorem SEq.roles {c c' : Session} (h : SEq x c c') : c'.roles = c.roles := by
  have := congrArg Session.roles h; simpa using this
theorem SEq.isLocal {c c' : Session} (h : SEq x c c') : c'.isLocal = c.isLocal := by
  have := congrArg Session.isLocal h; simpa using this
theorem SEq.cap {c c' : Session} (h : SEq x c c') : c'.cap = c.cap := by
  have := congrArg Session.cap h; simpa using this
theorem SEq.buffered {c c' : Session} (h : SEq x c c') : c'.buffered = c.buffered := by
  have := congrArg Session.buffered h; simpa using this
theorem SEq.hasFeature {c c' : Session} (h : SEq x c c') (role feat : String) :
    c'.hasFeature role feat = c.hasFeature role feat := by
  unfold Session.hasFeature; rw [h.roles]
theorem SEq.eq_of_ne {c c' : Session} (h : SEq x c c') (hk : c.key ≠ x) : c' = c := by
  have h' := h
  unfold SEq at h'
  rw [unstall_of_ne hk, unstall_of_ne (by rw [h.key]; exact hk)] at h'
  exact h'
theorem SEq.refl (c : Session) : SEq x c c := rfl

/-- option-lifted: both absent, or both present and equal up to `stalled` of `x` -/
def OSEq (x : SessKey) (a a' : Option Session) : Prop := a'.map (unstall x) = a.map (unstall x)

theorem OSEq.cases {a a' : Option Session} (h : OSEq x a a') :
    (a = none ∧ a' = none) ∨ ∃ c c', a = some c ∧ a' = some c' ∧ SEq x c c' := by
  unfold OSEq at h
  cases a <;> cases a' <;> simp at h
  · exact Or.inl ⟨rfl, rfl⟩
  · exact Or.inr ⟨_, _, rfl, rfl, h⟩

/-! ### lists up to a map -/

theorem find?_of_map_eq {α : Type} {u : α → α} {l l' : List α} (h : l'.map u = l.map u) (p : α → Bool)
    (hp : ∀ c, p (u c) = p c) : (l'.find? p).map u = (l.find? p).map u := by
  have e : (p ∘ u) = p := funext hp
  have h1 := List.find?_map (f := u) (p := p) (l := l)
  have h2 := List.find?_map (f := u) (p := p) (l := l')
  rw [e] at h1 h2
  rw [← h1, ← h2, h]

theorem any_of_map_eq {α : Type} {u : α → α} {l l' : List α} (h : l'.map u = l.map u) (p : α → Bool)
    (hp : ∀ c, p (u c) = p c) : l'.any p = l.any p := by
  have e : (p ∘ u) = p := funext hp
  have h1 := List.any_map (f := u) (p := p) (l := l)
  have h2 := List.any_map (f := u) (p := p) (l := l')
  rw [e] at h1 h2
  rw [← h1, ← h2, h]

theorem filter_of_map_eq {α : Type} {u : α → α} {l l' : List α} (h : l'.map u = l.map u) (p : α → Bool)
    (hp : ∀ c, p (u c) = p c) : (l'.filter p).map u = (l.filter p).map u := by
  have e : (p ∘ u) = p := funext hp
  have h1 := List.filter_map (f := u) (p := p) (l := l)
  have h2 := List.filter_map (f := u) (p := p) (l := l')
  rw [e] at h1 h2
  rw [← h1, ← h2, h]

theorem map_of_map_eq {α β : Type} {u : α → α} {l l' : List α} (h : l'.map u = l.map u) (g : α → β)
    (hg : ∀ c, g (u c) = g c) : l'.map g = l.map g := by
  have e : (g ∘ u) = g := funext hg
  have h1 : (l.map u).map g = l.map g := by rw [List.map_map, e]
  have h2 : (l'.map u).map g = l'.map g := by rw [List.map_map, e]
  rw [← h1, ← h2, h]

/-! ### lookups agree -/

theorem EqOff.find {r r' : Realm} (h : EqOff x r r') (k : SessKey) :
    OSEq x (r.clients.find? (fun c => c.key == k)) (r'.clients.find? (fun c => c.key == k)) :=
  find?_of_map_eq h.clients _ (fun c => by simp)

theorem EqOff.find_ne {r r' : Realm} (h : EqOff x r r') {k : SessKey} (hk : k ≠ x) :
    r'.clients.find? (fun c => c.key == k) = r.clients.find? (fun c => c.key == k) := by
  rcases (h.find k).cases with ⟨e1, e2⟩ | ⟨c, c', e1, e2, hs⟩
  · rw [e1, e2]
  · rw [e1, e2, hs.eq_of_ne]
    rw [(find?_key e1).2]; exact hk

theorem EqOff.session {r r' : Realm} (h : EqOff x r r') (k : SessKey) : OSEq x (r.session? k) (r'.session? k) := by
  unfold Realm.session?
  split
  · rw [h.metaS]; rfl
  · exact h.find k

theorem EqOff.session_ne {r r' : Realm} (h : EqOff x r r') {k : SessKey} (hk : k ≠ x) :
    r'.session? k = r.session? k := by
  unfold Realm.session?
  rw [h.metaS, h.find_ne hk]

theorem qlook_off {qs : List (SessKey × List Msg)} {k : SessKey} (hk : k ≠ x) :
    qlook (qs.filter (fun q => q.1 != x)) k = qlook qs k := by
  rw [qlook_filter_key (fun a => a != x) qs k, if_pos (by simpa using hk)]

theorem EqOff.queueOf {r r' : Realm} (h : EqOff x r r') {k : SessKey} (hk : k ≠ x) :
    r'.queueOf k = r.queueOf k := by
  rw [queueOf_eq, queueOf_eq, ← qlook_off hk, h.queues, qlook_off hk]

theorem EqOff.queueLen {r r' : Realm} (h : EqOff x r r') {k : SessKey} (hk : k ≠ x) :
    r'.queueLen k = r.queueLen k := by
  rw [queueLen_eq, queueLen_eq, h.queueOf hk]

/-- whether another session's queue is full does not depend on `x` -/
theorem EqOff.isFull {r r' : Realm} (h : EqOff x r r') {k : SessKey} (hk : k ≠ x) :
    r'.isFull k = r.isFull k := by
  unfold Realm.isFull
  rw [h.session_ne hk, h.queueLen hk]

/-! ### the queue table off `x` -/

theorem any_off {qs : List (SessKey × List Msg)} {k : SessKey} (hk : k ≠ x) :
    (qs.filter (fun q => q.1 != x)).any (fun q => q.1 == k) = qs.any (fun q => q.1 == k) := by
  induction qs with
  | nil => rfl
  | cons q qs ih =>
    rw [List.filter_cons]
    by_cases hq : q.1 = x
    · have : (q.1 != x) = false := by simp [hq]
      rw [this]
      simp only [Bool.false_eq_true, if_false, List.any_cons, ih]
      have : (q.1 == k) = false := by
        rw [hq]; simpa using fun e => hk e.symm
      rw [this, Bool.false_or]
    · have : (q.1 != x) = true := by simpa using hq
      rw [this]
      simp only [if_true, List.any_cons, ih]

theorem filter_mapq (qs : List (SessKey × List Msg)) (k : SessKey) (m : Msg) :
    (qs.map (fun q => if q.1 == k then (q.1, q.2 ++ [m]) else q)).filter (fun q => q.1 != x) =
      (qs.filter (fun q => q.1 != x)).map (fun q => if q.1 == k then (q.1, q.2 ++ [m]) else q) := by
  induction qs with
  | nil => rfl
  | cons q qs ih =>
    simp only [List.map_cons, List.filter_cons]
    have e : ((if (q.1 == k) = true then (q.1, q.2 ++ [m]) else q).1 != x) = (q.1 != x) := by split <;> rfl
    rw [e]
    split
    · rw [List.map_cons, ih]
    · exact ih

theorem filter_mapq_self (qs : List (SessKey × List Msg)) (m : Msg) :
    (qs.map (fun q => if q.1 == x then (q.1, q.2 ++ [m]) else q)).filter (fun q => q.1 != x) =
      qs.filter (fun q => q.1 != x) := by
  rw [filter_mapq]
  induction qs with
  | nil => rfl
  | cons q qs ih =>
    rw [List.filter_cons]
    split
    · rename_i hq
      have : (q.1 == x) = false := by simpa using hq
      rw [List.map_cons, ih, this]
      rfl
    · exact ih

theorem filter_enq_ne (qs : List (SessKey × List Msg)) {k : SessKey} (m : Msg) (hk : k ≠ x) :
    (enq qs k m).filter (fun q => q.1 != x) = enq (qs.filter (fun q => q.1 != x)) k m := by
  unfold enq
  rw [any_off hk]
  split
  · exact filter_mapq qs k m
  · rw [List.filter_append]
    have : (k != x) = true := by simpa using hk
    simp [List.filter_cons, this]

theorem filter_enq_self (qs : List (SessKey × List Msg)) (m : Msg) :
    (enq qs x m).filter (fun q => q.1 != x) = qs.filter (fun q => q.1 != x) := by
  unfold enq
  split
  · exact filter_mapq_self qs m
  · rw [List.filter_append]
    simp [List.filter_cons]

/-! ### primitives -/

theorem eqoff_setPanic {r r' : Realm} (h : EqOff x r r') (p : Option String) :
    EqOff x (r.setPanic p) (r'.setPanic p) := by
  unfold Realm.setPanic
  rw [h.panic]
  split
  · eqoff_upd h
  · exact h

theorem eqoff_addTasks {r r' : Realm} (h : EqOff x r r') (ts : List Task) :
    EqOff x (r.addTasks ts) (r'.addTasks ts) := by
  unfold Realm.addTasks
  eqoff_upd h

/-- the queue table replaced by one that is the same off `x` -/
theorem eqoff_queues (r : Realm) {qs : List (SessKey × List Msg)}
    (hq : qs.filter (fun q => q.1 != x) = r.queues.filter (fun q => q.1 != x)) :
    EqOff x r { r with queues := qs } :=
  ⟨rfl, rfl, rfl, rfl, rfl, rfl, rfl, rfl, hq, rfl, rfl, rfl, rfl, rfl, rfl, rfl, rfl, rfl, rfl⟩

/-- ONE SEND, to anybody.  A send to `x` itself may be queued in one state and dropped in the other
    (only x's queue differs afterwards); a send to anybody else finds the same room in both; a send to
    a session whose peer is closed is the model's panic in both or in neither. -/
theorem eqoff_trySend {r r' : Realm} (h : EqOff x r r') (s : Send) :
    EqOff x (r.trySend s) (r'.trySend s) := by
  by_cases hm : s.to = metaKey
  · unfold Realm.trySend
    rw [if_pos hm, if_pos hm]
    split
    · eqoff_upd h
    · exact h
  · rcases (h.find s.to).cases with ⟨e1, e2⟩ | ⟨c, c', e1, e2, hs⟩
    · rw [trySend_noclient r s hm e1, trySend_noclient r' s hm e2]
      exact eqoff_setPanic h _
    · rw [trySend_client r s hm e1, trySend_client r' s hm e2]
      by_cases hx : s.to = x
      · -- a send to `x`: whatever happens, it happens to x's queue only
        have a : EqOff x r (if r.queueLen s.to ≥ c.cap then r else { r with queues := enq r.queues s.to s.msg }) := by
          split
          · exact EqOff.refl r
          · exact eqoff_queues r (by rw [hx]; exact filter_enq_self _ _)
        have b : EqOff x r' (if r'.queueLen s.to ≥ c'.cap then r' else { r' with queues := enq r'.queues s.to s.msg }) := by
          split
          · exact EqOff.refl r'
          · exact eqoff_queues r' (by rw [hx]; exact filter_enq_self _ _)
        exact (a.symm.trans h).trans b
      · rw [h.queueLen hx, hs.cap]
        split
        · exact h
        · refine EqOff.mk h.cfg h.broker h.ds h.clients h.ending h.testaments h.metaProcs h.metaS ?_
            h.closedPeers h.tasks h.retries h.deferred h.inbox h.ghosts h.now h.pubCount h.rnd h.panic
          show (enq r'.queues s.to s.msg).filter _ = (enq r.queues s.to s.msg).filter _
          rw [filter_enq_ne _ _ hx, filter_enq_ne _ _ hx, h.queues]

/-- a send to `x` itself changes nothing off `x` (provided `x` is attached: otherwise the model panics) -/
theorem eqoff_trySend_self (r : Realm) (m : Msg) {c : Session} (hm : x ≠ metaKey) (hc : r.client? x = some c) :
    EqOff x r (r.trySend ⟨x, m⟩) := by
  rw [trySend_client r ⟨x, m⟩ hm hc]
  split
  · exact EqOff.refl r
  · exact eqoff_queues r (filter_enq_self _ _)

/-- `x` stops (or resumes) reading: nothing changes off `x` -/
theorem eqoff_stalled_self (r : Realm) (b : Bool) :
    EqOff x r { r with clients := r.clients.map (fun c => if c.key == x then { c with stalled := b } else c) } := by
  refine EqOff.mk rfl rfl rfl ?_ rfl rfl rfl rfl rfl rfl rfl rfl rfl rfl rfl rfl rfl rfl rfl
  dsimp only
  rw [List.map_map]
  apply List.map_congr_left
  intro c _
  simp only [Function.comp]
  unfold unstall
  split <;> simp_all

/-- a batch of sends, to anybody -/
theorem eqoff_deliver (ss : List Send) : ∀ {r r' : Realm}, EqOff x r r' → EqOff x (r.deliver ss) (r'.deliver ss) := by
  induction ss with
  | nil => intro r r' h; exact h
  | cons s ss ih => intro r r' h; exact ih (eqoff_trySend h s)

end Nexus.L2.WpC
