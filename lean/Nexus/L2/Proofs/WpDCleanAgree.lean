/-
  WpD (audit D, C09 c/d5): the two models of `realm.cleanSessionDetails` agree.

  `cleanSessionDetails` (router/realm.go:1222-1277) is modelled twice:
    * `Nexus.Auth.cleanSessionDetails metaStrict inc`  (Nexus/Auth/Model.lean) — the copy the C09
      theorems `clean_preserves_identity`, `clean_hides_transport_auth` are about;
    * `Nexus.L2.Realm.cleanDetails r`                  (Nexus/L2/Realm.lean)  — the copy that
      `wamp.session.get` and `wamp.session.on_join` of the L2 model actually use.
  This file bridges them.  It reads from Realm.lean ONLY the definition `Realm.cleanDetails` and the
  two configuration fields it reads (`r.cfg.metaStrict`, `r.cfg.metaInc`).

  Result: the two copies are equal EXCEPT on one family of inputs: `transport` is a dictionary
  whose `auth` is a dictionary and which has no other key.  Go leaves `altTrans` a nil `wamp.Dict`
  there (realm.go:1265-1275: `var altTrans wamp.Dict`, allocated only when a key other than `auth`
  is seen); the Auth copy renders that as `.null`, the L2 copy as `.dict []`.  `WVal` has no
  typed-nil map, so neither is "the" right one: a nil `wamp.Dict` serialises as null (JSON `null`,
  msgpack/CBOR nil) — the Auth copy is what a remote peer receives — while an in-process peer
  receives a (nil) map it can range over — the L2 copy.  The harness equates the two by its
  null/empty-dict normalisation.  Theorems:

    clean_models_agree              equal under the hypothesis "stripping `auth` leaves something"
    clean_models_disagree_witness   the smallest input on which they differ, and both values
    clean_models_agree_iff          they are equal EXACTLY when the input is not of that family
    clean_models_agree_modulo_nil   in every case the L2 copy with `transport` overwritten by
                                    `.null` where it is `.dict []` is the Auth copy; in particular
                                    all keys other than `transport` always agree
-/
import Nexus.Auth.Lemmas
import Nexus.L2.Realm

namespace Nexus.C09
open Nexus

/-- The inputs on which the two models differ: `transport` is a dictionary, its `auth` is a
    dictionary, and `auth` is its only key (more precisely: every key of it is `auth`). -/
def StripsToNothing (d : Dict) : Prop :=
  ∃ t a, Auth.dictChild d "transport" = some t ∧ Auth.dictChild t "auth" = some a ∧
    t.filter (fun kv => kv.1 != "auth") = []

/-- what both copies start from: the details, or under MetaStrict the picked keys -/
private def base (ms : Bool) (inc : List String) (d : Dict) : Dict :=
  if ms then
    (Gen.Auth.metaStdItems ++ inc).foldl
      (fun acc k => match d.get? k with | some v => acc.set k v | none => acc) []
  else d

private theorem auth_clean (ms : Bool) (inc : List String) (d : Dict) :
    Auth.cleanSessionDetails ms inc d =
      match d.get? "transport" with
      | some (.dict t) =>
        match Dict.get? t "auth" with
        | some (.dict _) =>
          (base ms inc d).set "transport"
            (if (t.filter (fun kv => kv.1 != "auth")).isEmpty then .null
             else .dict (t.filter (fun kv => kv.1 != "auth")))
        | _ => base ms inc d
      | _ => base ms inc d := by
  unfold Auth.cleanSessionDetails Auth.dictChild base
  cases ht : d.get? "transport" with
  | none => rfl
  | some v =>
    cases v with
    | dict t =>
      cases ha : Dict.get? t "auth" with
      | none => simp only [ha]; rfl
      | some a => cases a <;> simp only [ha] <;> rfl
    | _ => rfl

private theorem l2_clean (r : L2.Realm) (d : Dict) :
    r.cleanDetails d =
      match d.get? "transport" with
      | some (.dict t) =>
        match Dict.get? t "auth" with
        | some (.dict _) =>
          (base r.cfg.metaStrict r.cfg.metaInc d).set "transport" (.dict (t.filter (fun kv => kv.1 != "auth")))
        | _ => base r.cfg.metaStrict r.cfg.metaInc d
      | _ => base r.cfg.metaStrict r.cfg.metaInc d := by
  rfl

private theorem set_set (b : Dict) (k : String) (v v' : WVal) : (b.set k v).set k v' = b.set k v' := by
  induction b with
  | nil => simp [Dict.set]
  | cons p rest ih =>
    obtain ⟨k1, v1⟩ := p
    by_cases h : k1 = k
    · simp [Dict.set, h]
    · simp [Dict.set, h, ih]

private theorem strips_iff (d : Dict) :
    StripsToNothing d ↔
      ∃ t a, d.get? "transport" = some (.dict t) ∧ Dict.get? t "auth" = some (.dict a) ∧
        t.filter (fun kv => kv.1 != "auth") = [] := by
  unfold StripsToNothing Auth.dictChild
  constructor
  · rintro ⟨t, a, h1, h2, h3⟩
    refine ⟨t, a, ?_, ?_, h3⟩
    · split at h1
      · rename_i c hc; simp at h1; rw [hc, h1]
      · simp at h1
    · split at h2
      · rename_i c hc; simp at h2; rw [hc, h2]
      · simp at h2
  · rintro ⟨t, a, h1, h2, h3⟩
    exact ⟨t, a, by rw [h1], by rw [h2], h3⟩

/-- `clean_models_agree` (audit D, C09 c/d5): the model of `cleanSessionDetails` the C09 theorems are
    about (`Auth.cleanSessionDetails`) and the one `wamp.session.get` / `on_join` of the L2 model use
    (`Realm.cleanDetails`) return the same dictionary for the realm's `MetaStrict` /
    `MetaIncludeSessionDetails` configuration, for every details dictionary from which stripping
    `transport.auth` leaves at least one other transport detail (in particular: whenever there is
    no `transport`, or it is not a dictionary, or it has no dictionary-valued `auth`). -/
theorem clean_models_agree (r : L2.Realm) (d : Dict)
    (h : ∀ t a, Auth.dictChild d "transport" = some t → Auth.dictChild t "auth" = some a →
      t.filter (fun kv => kv.1 != "auth") ≠ []) :
    Auth.cleanSessionDetails r.cfg.metaStrict r.cfg.metaInc d = r.cleanDetails d := by
  rw [auth_clean, l2_clean]
  cases ht : d.get? "transport" with
  | none => rfl
  | some v =>
    cases v with
    | dict t =>
      dsimp only
      cases ha : Dict.get? t "auth" with
      | none => rfl
      | some a =>
        cases a with
        | dict a =>
          have hne := h t a (by simp [Auth.dictChild, ht]) (by simp [Auth.dictChild, ha])
          have he : (t.filter (fun kv => kv.1 != "auth")).isEmpty = false := by
            cases hf : t.filter (fun kv => kv.1 != "auth") with
            | nil => exact absurd hf hne
            | cons _ _ => rfl
          dsimp only
          rw [he]
          rfl
        | _ => rfl
    | _ => rfl

/-- the hypothesis of `clean_models_agree` is met, non-trivially: `transport.auth` is there, is
    stripped, and `transport.type` stays — both copies show `transport = {type: ws}` -/
example :
    Auth.cleanSessionDetails true ["x"]
        [("session", .int 7), ("authid", .str "alice"), ("x", .int 1), ("y", .int 2),
         ("transport", .dict [("type", .str "ws"), ("auth", .dict [("cookie", .str "c")])])] =
      ({ cfg := { metaStrict := true, metaInc := ["x"] } } : L2.Realm).cleanDetails
        [("session", .int 7), ("authid", .str "alice"), ("x", .int 1), ("y", .int 2),
         ("transport", .dict [("type", .str "ws"), ("auth", .dict [("cookie", .str "c")])])] ∧
    Auth.cleanSessionDetails true ["x"]
        [("session", .int 7), ("authid", .str "alice"), ("x", .int 1), ("y", .int 2),
         ("transport", .dict [("type", .str "ws"), ("auth", .dict [("cookie", .str "c")])])] =
      [("session", .int 7), ("authid", .str "alice"), ("transport", .dict [("type", .str "ws")]), ("x", .int 1)] :=
  ⟨rfl, rfl⟩

/-- The details of a websocket session: `WebsocketServer` hands `AttachClient` the transport details
    `wamp.Dict{"auth": authDict}` and nothing else (router/websocketserver.go:345), so once cookie
    tracking or request capture made `authDict` non-nil this is the shape of EVERY websocket
    session's `transport`. -/
def wsDetails : Dict :=
  [("session", .int 7), ("authid", .str "alice"),
   ("transport", .dict [("auth", .dict [("cookie", .str "c")])])]

/-- `clean_models_disagree_witness`: on `wsDetails` the two models genuinely differ — the Auth copy
    shows `transport: null`, the L2 copy `transport: {}`.  (Go: a nil `wamp.Dict`, realm.go:1265-1275;
    see the header for why `WVal` cannot say which is right.) -/
theorem clean_models_disagree_witness :
    Auth.cleanSessionDetails false [] wsDetails =
      [("session", .int 7), ("authid", .str "alice"), ("transport", .null)] ∧
    ({} : L2.Realm).cleanDetails wsDetails =
      [("session", .int 7), ("authid", .str "alice"), ("transport", .dict [])] ∧
    Auth.cleanSessionDetails ({} : L2.Realm).cfg.metaStrict ({} : L2.Realm).cfg.metaInc wsDetails ≠
      ({} : L2.Realm).cleanDetails wsDetails ∧
    StripsToNothing wsDetails := by
  refine ⟨rfl, rfl, ?_, ⟨[("auth", .dict [("cookie", .str "c")])], [("cookie", .str "c")], rfl, rfl, rfl⟩⟩
  intro h
  have e1 : Auth.cleanSessionDetails ({} : L2.Realm).cfg.metaStrict ({} : L2.Realm).cfg.metaInc wsDetails =
      [("session", .int 7), ("authid", .str "alice"), ("transport", .null)] := rfl
  have e2 : ({} : L2.Realm).cleanDetails wsDetails =
      [("session", .int 7), ("authid", .str "alice"), ("transport", .dict [])] := rfl
  rw [e1, e2] at h
  simp at h

/-- `clean_models_agree_modulo_nil`: what the difference is, in every case.  Either the input is
    not of the family `StripsToNothing` and the two copies are equal, or it is, and then the L2
    copy shows `transport = {}` where the Auth copy shows `transport = null`, everything else
    being equal (the Auth copy is the L2 copy with `transport` overwritten by `null`). -/
theorem clean_models_agree_modulo_nil (r : L2.Realm) (d : Dict) :
    (¬ StripsToNothing d ∧
      Auth.cleanSessionDetails r.cfg.metaStrict r.cfg.metaInc d = r.cleanDetails d) ∨
    (StripsToNothing d ∧
      Auth.cleanSessionDetails r.cfg.metaStrict r.cfg.metaInc d = (r.cleanDetails d).set "transport" .null ∧
      (r.cleanDetails d).get? "transport" = some (.dict []) ∧
      (Auth.cleanSessionDetails r.cfg.metaStrict r.cfg.metaInc d).get? "transport" = some .null) := by
  by_cases hs : StripsToNothing d
  · refine Or.inr ⟨hs, ?_⟩
    obtain ⟨t, a, ht, ha, hf⟩ := (strips_iff d).mp hs
    rw [auth_clean, l2_clean]
    simp only [ht, ha, hf, List.isEmpty_nil, if_true]
    exact ⟨(set_set _ _ _ _).symm, Auth.get?_set_self _ _ _, Auth.get?_set_self _ _ _⟩
  · refine Or.inl ⟨hs, clean_models_agree r d ?_⟩
    intro t a h1 h2 h3
    exact hs ⟨t, a, h1, h2, h3⟩

/-- `clean_models_agree_iff`: the exact condition — the two models of `cleanSessionDetails` return
    the same dictionary if and only if the input is NOT of the family "`transport` is a dictionary
    whose only key is a dictionary-valued `auth`". -/
theorem clean_models_agree_iff (r : L2.Realm) (d : Dict) :
    Auth.cleanSessionDetails r.cfg.metaStrict r.cfg.metaInc d = r.cleanDetails d ↔ ¬ StripsToNothing d := by
  constructor
  · intro h hs
    rcases clean_models_agree_modulo_nil r d with ⟨hn, _⟩ | ⟨_, _, h2, h3⟩
    · exact hn hs
    · rw [h, h2] at h3
      simp at h3
  · intro hs
    rcases clean_models_agree_modulo_nil r d with ⟨_, he⟩ | ⟨hs', _⟩
    · exact he
    · exact absurd hs' hs

/-- Key by key: every key other than `transport` is shown alike by the two models — in particular
    the session id and the four identity keys, so `clean_preserves_identity` (stated for the Auth
    copy) transfers to `wamp.session.get` / `on_join` of the L2 model. -/
theorem clean_models_agree_get? (r : L2.Realm) (d : Dict) {k : String} (hk : k ≠ "transport") :
    (Auth.cleanSessionDetails r.cfg.metaStrict r.cfg.metaInc d).get? k = (r.cleanDetails d).get? k := by
  rcases clean_models_agree_modulo_nil r d with ⟨_, he⟩ | ⟨_, he, _⟩
  · rw [he]
  · rw [he, Auth.get?_set_ne _ _ hk]

end Nexus.C09
