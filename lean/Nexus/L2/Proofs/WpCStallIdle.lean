/-
  C07 "stall isolation", part 6: the side condition `Idle x r` — the dealer does not refer to `x` (callee of
  no registration, caller of no pending call, callee of no invocation, no key of the callee index), x's
  handler is not in the yield retry loop, and no RPC message of `x` waits as an `inMsg` task — is preserved
  by everything that is not an RPC message of `x` itself.  (Unary; uses the dealer invariant through the
  existing `sync*_refs_sub` lemmas.)
-/
import Nexus.L2.Proofs.WpCStallRpc
import Nexus.L2.Proofs.DealerRealmRpc
import Nexus.L2.Proofs.RealmInv

set_option linter.unusedSimpArgs false

namespace Nexus.L2.WpC
open Nexus.L2 Nexus.L2.Realm Gen.N

variable {x : SessKey}

/-- the messages of `x` waiting as `inMsg` tasks, in order -/
def inX (x : SessKey) (l : List Task) : List Msg :=
  l.filterMap (fun t => match t with
    | .inMsg k m => if k = x then some m else none
    | _ => none)

@[simp] theorem inX_nil : inX x [] = [] := rfl
@[simp] theorem inX_append (a b : List Task) : inX x (a ++ b) = inX x a ++ inX x b := by
  unfold inX; rw [List.filterMap_append]
@[simp] theorem inX_metaTask (s : Send) : inX x (dmetaTask s).toList = [] := by
  unfold dmetaTask
  split
  · split <;> rfl
  · rfl
@[simp] theorem inX_metaTasks (ss : List Send) : inX x (ss.filterMap dmetaTask) = [] := by
  induction ss with
  | nil => rfl
  | cons s ss ih =>
    rw [List.filterMap_cons]
    have := inX_metaTask (x := x) s
    cases hd : dmetaTask s with
    | none => simpa using ih
    | some t =>
      rw [hd] at this
      simp only [Option.toList] at this
      show inX x ([t] ++ _) = []
      rw [inX_append, this, ih]; rfl
@[simp] theorem inX_metaPubs (l : List MetaPub) : inX x (l.map Task.metaPub) = [] := by
  induction l with
  | nil => rfl
  | cons p l ih => show inX x ([Task.metaPub p] ++ _) = []; rw [inX_append, ih]; rfl
@[simp] theorem inX_metaPubs' {α : Type} (l : List α) (f : α → MetaPub) :
    inX x (l.map (fun a => Task.metaPub (f a))) = [] := by
  induction l with
  | nil => rfl
  | cons p l ih => show inX x ([Task.metaPub (f p)] ++ _) = []; rw [inX_append, ih]; rfl
@[simp] theorem inX_leaves {α : Type} (l : List α) (f : α → SessKey) (g : α → LeaveMode) :
    inX x (l.map (fun a => Task.leave (f a) (g a))) = [] := by
  induction l with
  | nil => rfl
  | cons p l ih => show inX x ([Task.leave (f p) (g p)] ++ _) = []; rw [inX_append, ih]; rfl
@[simp] theorem inX_leave1 (k : SessKey) (m : LeaveMode) : inX x [Task.leave k m] = [] := rfl
@[simp] theorem inX_metaPub1 (p : MetaPub) : inX x [Task.metaPub p] = [] := rfl
@[simp] theorem inX_metaMsg1 (m : Msg) : inX x [Task.metaMsg m] = [] := rfl

theorem mem_inX {l : List Task} {m : Msg} : m ∈ inX x l ↔ Task.inMsg x m ∈ l := by
  unfold inX
  rw [List.mem_filterMap]
  constructor
  · rintro ⟨t, ht, he⟩
    cases t <;> simp at he
    obtain ⟨rfl, rfl⟩ := he
    exact ht
  · intro h
    exact ⟨_, h, by simp⟩

/-- `x` takes no part in any RPC: the dealer's tables do not mention it, its handler is not in the yield retry
    loop, and none of its own RPC messages is waiting to be handled -/
structure Idle (x : SessKey) (r : Realm) : Prop where
  refs : ¬ r.ds.refs x
  retries : ∀ y ∈ r.retries, y.callee ≠ x
  tasks : ∀ m ∈ inX x r.tasks, isRpc m = false

theorem Idle.didle {r : Realm} (h : Idle x r) : DIdle x r.ds := DIdle.of_not_refs h.refs

theorem Idle.not_busy {r : Realm} (h : Idle x r) : r.busy x = false := by
  unfold Realm.busy
  rw [Bool.eq_false_iff]
  intro hb
  obtain ⟨y, hy, hyk⟩ := List.any_eq_true.mp hb
  exact h.retries y hy (by simpa using hyk)

/-- the core constructor: no new reference, no new busy handler of `x`, no new waiting message of `x` -/
theorem Idle.mono {r r2 : Realm} (h : Idle x r) (hds : r2.ds.refs x → r.ds.refs x)
    (hre : ∀ y ∈ r2.retries, y ∈ r.retries ∨ y.callee ≠ x) (hta : inX x r2.tasks = inX x r.tasks) : Idle x r2 :=
  ⟨fun hr => h.refs (hds hr), fun y hy => (hre y hy).elim (h.retries y) id, by rw [hta]; exact h.tasks⟩

/-- the idleness of `x` concerns fields on which `EqOff x` states agree -/
theorem Idle.congr {r r' : Realm} (h : Idle x r) (e : EqOff x r r') : Idle x r' :=
  ⟨by rw [e.ds]; exact h.refs, by rw [e.retries]; exact h.retries, by rw [e.tasks]; exact h.tasks⟩

/-! ### primitives -/

theorem idle_trySend {r : Realm} (h : Idle x r) (s : Send) : Idle x (r.trySend s) :=
  h.mono (by rw [trySend_ds]; exact id) (by rw [dtrySend_retries]; exact fun y hy => Or.inl hy)
    (by rw [dtrySend_tasks]; simp)

theorem idle_deliver (ss : List Send) : ∀ {r : Realm}, Idle x r → Idle x (r.deliver ss) := by
  induction ss with
  | nil => intro r h; exact h
  | cons s ss ih => intro r h; exact ih (idle_trySend h s)

theorem idle_setPanic {r : Realm} (h : Idle x r) (p : Option String) : Idle x (r.setPanic p) :=
  h.mono (by rw [setPanic_ds]; exact id) (by rw [dsetPanic_retries]; exact fun y hy => Or.inl hy)
    (by rw [dsetPanic_tasks])

/-- a dealer action whose new state does not refer to `x` -/
theorem idle_applyD {r : Realm} (h : Idle x r) (o : DOut) (ho : o.st.refs x → r.ds.refs x) : Idle x (r.applyD o) :=
  h.mono (by rw [applyD_ds]; exact ho) (by rw [dapplyD_retries]; exact fun y hy => Or.inl hy)
    (by rw [dapplyD_tasks]; simp)

/-! ### handlers -/

macro "idle_frame " h:term : tactic => `(tactic|
  (refine Idle.mono $h ?_ ?_ ?_ <;>
   simp only [trySend_ds, deliver_ds, setPanic_ds, dtrySend_retries, ddeliver_retries, dsetPanic_retries,
     dtrySend_tasks, ddeliver_tasks, dsetPanic_tasks, inX_append, inX_metaTask, inX_metaTasks, inX_leave1,
     List.append_nil] <;>
   first | exact id | exact fun y hy => Or.inl hy | rfl))

theorem idle_handlePublish {r : Realm} (h : Idle x r) (s : Session) (req : Nat) (opts : Dict) (topic : String)
    (args : List WVal) (kw : Dict) : Idle x (handlePublish r s req opts topic args kw) := by
  unfold handlePublish
  simp only [Realm.freshPub]
  repeat' split
  all_goals first | exact h | idle_frame h

theorem idle_handleSubscribe {r : Realm} (h : Idle x r) (s : Session) (req : Nat) (opts : Dict) (topic : String) :
    Idle x (handleSubscribe r s req opts topic) := by
  unfold handleSubscribe
  dsimp only
  repeat' split
  all_goals first | exact h | idle_frame h

theorem idle_handleUnsubscribe {r : Realm} (h : Idle x r) (s : Session) (req sub : Nat) :
    Idle x (handleUnsubscribe r s req sub) := by
  unfold handleUnsubscribe
  dsimp only
  repeat' split
  all_goals first | exact h | idle_frame h

theorem idle_authzGate {r : Realm} (h : Idle x r) (s : Session) (m : Msg) : Idle x (authzGate r s m).2 := by
  unfold authzGate
  repeat' (first | split | dsimp only)
  all_goals first | exact h | exact idle_trySend h _

theorem refs_ne {s : DState} {k : SessKey} (hk : k ≠ x) (hr : s.refs x ∨ x = k) : s.refs x :=
  hr.elim id (fun e => absurd e.symm hk)

theorem idle_dispatch {r : Realm} (hd : DealerInv r.ds) (h : Idle x r) (s : Session) (m : Msg)
    (hm : isRpc m = false ∨ s.key ≠ x) : Idle x (Realm.dispatch r s m) := by
  cases m
  case publish => exact idle_handlePublish h s ..
  case subscribe => exact idle_handleSubscribe h s ..
  case unsubscribe => exact idle_handleUnsubscribe h s ..
  case goodbye =>
    show Idle x ({ (r.trySend _) with tasks := _, ending := _ } : Realm)
    idle_frame h
  case yield req opts args kw =>
    have hk : s.key ≠ x := hm.elim (fun e => by cases e) id
    show Idle x (handleYield r s req opts args kw)
    unfold handleYield
    dsimp only
    have h1 := idle_applyD h (syncYield r.denv r.ds s.key req opts args kw (opts.optFlag OptProgress) true)
      (syncYield_refs_sub hd _ _ _ _ _ _ _ x)
    split
    · refine h1.mono id ?_ rfl
      intro y hy
      rcases List.mem_append.mp hy with hy | hy
      · exact Or.inl hy
      · rw [List.mem_singleton.mp hy]; exact Or.inr hk
    · exact h1
  case call req opts proc args kw =>
    have hk : s.key ≠ x := hm.elim (fun e => by cases e) id
    exact idle_applyD h _ (fun hr => refs_ne hk (syncCall_refs_sub hd _ _ _ _ _ _ _ x hr))
  case cancel req opts =>
    show Idle x (handleCancel r s req opts)
    unfold handleCancel
    dsimp only
    repeat' split
    all_goals first
      | exact idle_trySend h _
      | exact idle_applyD h _ (syncCancel_refs_sub hd _ _ _ _ _ x)
  case register req opts proc =>
    have hk : s.key ≠ x := hm.elim (fun e => by cases e) id
    show Idle x (handleRegister r s req opts proc)
    unfold handleRegister
    dsimp only
    repeat' split
    all_goals first
      | exact idle_trySend h _
      | exact idle_applyD h _ (fun hr => refs_ne hk (syncRegister_refs_sub hd _ _ _ _ _ _ _ _ x hr))
  case unregister req reg =>
    exact idle_applyD h _ (syncUnregister_refs_sub hd _ _ _ x)
  case error typ req details err args kw =>
    show Idle x (if typ != tINVOCATION then _ else handleError r s req details err args kw)
    split
    · idle_frame h
    · exact idle_applyD h _ (syncError_refs_sub hd _ _ _ _ _ _ x)
  all_goals
    show Idle x ({ r with tasks := _, ending := _ } : Realm)
    idle_frame h

theorem idle_handleMsg {r : Realm} (hd : DealerInv r.ds) (h : Idle x r) (s : Session) (m : Msg)
    (hm : isRpc m = false ∨ s.key ≠ x) : Idle x (handleMsg r s m) := by
  rw [handleMsg_eq]
  split
  · exact idle_dispatch (by rw [authzGate_ds]; exact hd) (idle_authzGate h s m) s m hm
  · exact idle_authzGate h s m

end Nexus.L2.WpC
