/-
  Realm-level characterisation of the broker-facing handlers `Realm.handlePublish`,
  `Realm.handleSubscribe`, `Realm.handleUnsubscribe` (router/broker.go `publish`, `subscribe`,
  `unsubscribe` as run by a session's handler goroutine, plus the delivery of what the broker
  goroutine sends): each is `deliver` of an explicit list of sends on an explicit state; per-queue
  consequences through `RealmQueue`; ordering of EVENTs in one recipient's queue (C08); EVENTs are
  produced only for members (C08, SUBSCRIBED … UNSUBSCRIBED bracket).

  Vocabulary defined here: `pubOf`, `pptRefused`, `discloseRefused`, `ackList`, `evPubOf`, `eventsOf`,
  `PubReq`, `publishSeq`, `publishedIds`, `BMsg`, `handleB`, `runB`.
-/
import Nexus.L2.Proofs.RealmQueue
import Nexus.L2.Proofs.BrokerDeliver

namespace Nexus.L2
namespace Realm
open Gen.N

/-! ### vocabulary -/

/-- the publication `broker.publish` hands to the broker goroutine for PUBLISH(req, opts, topic, args, kw)
    of session `s` in realm state `r`: the next publication id, `exclude_me` defaulting to true,
    `disclose_me` as requested, payload-passthru details only -/
def pubOf (r : Realm) (s : Session) (opts : Dict) (topic : String) (args : List WVal) (kw : Dict) : Publication :=
  { publisher := s.key, pubDetails := s.details, topic := topic, pubId := pubBase + r.pubCount,
    args := args, kw := kw, opts := opts,
    excludePub := (match opts.get? OptExcludeMe with
      | some (.bool b) => b
      | _ => true),
    disclose := opts.optFlag OptDiscloseMe,
    baseDetails := if pptScheme opts != "" then pptInto opts [] else [] }

/-- the publisher uses payload passthru without having announced the feature -/
def pptRefused (s : Session) (opts : Dict) : Bool :=
  pptScheme opts != "" && !s.hasFeature RolePublisher FeaturePayloadPassthruMode

/-- disclose_me requested while the realm disallows disclosure -/
def discloseRefused (r : Realm) (opts : Dict) : Bool :=
  opts.optFlag OptDiscloseMe && !r.broker.allowDisclose

/-- the (at most one) reply for the publisher when acknowledgement was requested -/
def ackList (opts : Dict) (x : Send) : List Send := if opts.optFlag OptAcknowledge then [x] else []

theorem optFlag_iff (d : Dict) (k : String) : d.optFlag k = true ↔ d.get? k = some (.bool true) := by
  unfold Dict.optFlag WVal.flag
  split
  · rename_i b h; rw [h]; cases b <;> simp
  · rename_i h
    constructor
    · intro hh; cases hh
    · intro hh; exact absurd hh (h true)

/-! ### `handlePublish` -/

theorem handlePublish_invalid (r : Realm) (s : Session) (req : Nat) (opts : Dict) (topic : String) (args : List WVal)
    (kw : Dict) (hv : validUri r.broker.strict "" topic = false) :
    handlePublish r s req opts topic args kw = r.deliver (ackList opts ⟨s.key, invalidUriErr tPUBLISH req⟩) := by
  unfold handlePublish ackList
  simp only [hv, Bool.not_false, if_true]
  split <;> rfl

theorem handlePublish_ppt (r : Realm) (s : Session) (req : Nat) (opts : Dict) (topic : String) (args : List WVal)
    (kw : Dict) (hv : validUri r.broker.strict "" topic = true) (hp : pptRefused s opts = true) :
    handlePublish r s req opts topic args kw =
      { (r.trySend ⟨s.key, abortMsg "<text>"⟩) with
        tasks := (r.trySend ⟨s.key, abortMsg "<text>"⟩).tasks ++ [.leave s.key .aborted],
        ending := (r.trySend ⟨s.key, abortMsg "<text>"⟩).ending ++ [s.key] } := by
  unfold handlePublish
  unfold pptRefused at hp
  simp only [hv, Bool.not_true, Bool.false_eq_true, if_false, hp, if_true]

theorem handlePublish_refused (r : Realm) (s : Session) (req : Nat) (opts : Dict) (topic : String) (args : List WVal)
    (kw : Dict) (hv : validUri r.broker.strict "" topic = true) (hp : pptRefused s opts = false)
    (hd : discloseRefused r opts = true) :
    handlePublish r s req opts topic args kw =
      r.deliver (ackList opts ⟨s.key, errMsg tPUBLISH req ErrOptionDisallowedDiscloseMe⟩) := by
  unfold handlePublish ackList
  unfold pptRefused at hp
  unfold discloseRefused at hd
  simp only [hv, Bool.not_true, Bool.false_eq_true, if_false, hp, hd, if_true]
  split <;> rfl

theorem handlePublish_ok (r : Realm) (s : Session) (req : Nat) (opts : Dict) (topic : String) (args : List WVal)
    (kw : Dict) (hv : validUri r.broker.strict "" topic = true) (hp : pptRefused s opts = false)
    (hd : discloseRefused r opts = false) :
    handlePublish r s req opts topic args kw =
      ({ r with pubCount := r.pubCount + 1,
                broker := (r.broker.syncPublish r.session? r.now (pubOf r s opts topic args kw)).1 } : Realm).deliver
        ((r.broker.syncPublish r.session? r.now (pubOf r s opts topic args kw)).2 ++
          ackList opts ⟨s.key, .published req (pubBase + r.pubCount)⟩) := by
  unfold handlePublish ackList
  unfold pptRefused at hp
  unfold discloseRefused at hd
  simp only [hv, Bool.not_true, Bool.false_eq_true, if_false, hp, hd, freshPub]
  rw [deliver_append]
  split <;> rfl


/-- a realm state differing from `r` only in broker and publication counter, then a list of sends:
    the tables other than the broker, the counter, the queues, the tasks and the panic flag are `r`'s -/
theorem brokerStep_frame (r : Realm) (b : Broker) (n : Nat) (ss : List Send) :
    (({ r with pubCount := n, broker := b } : Realm).deliver ss).broker = b ∧
    (({ r with pubCount := n, broker := b } : Realm).deliver ss).pubCount = n ∧
    (({ r with pubCount := n, broker := b } : Realm).deliver ss).clients = r.clients ∧
    (({ r with pubCount := n, broker := b } : Realm).deliver ss).ds = r.ds ∧
    (({ r with pubCount := n, broker := b } : Realm).deliver ss).closedPeers = r.closedPeers ∧
    (({ r with pubCount := n, broker := b } : Realm).deliver ss).ghosts = r.ghosts ∧
    (({ r with pubCount := n, broker := b } : Realm).deliver ss).ending = r.ending ∧
    (({ r with pubCount := n, broker := b } : Realm).deliver ss).testaments = r.testaments ∧
    (({ r with pubCount := n, broker := b } : Realm).deliver ss).retries = r.retries ∧
    (({ r with pubCount := n, broker := b } : Realm).deliver ss).now = r.now ∧
    (({ r with pubCount := n, broker := b } : Realm).deliver ss).cfg = r.cfg := by
  have h := deliver_frame ss ({ r with pubCount := n, broker := b } : Realm)
  exact ⟨h.broker, h.pubCount, h.clients, h.ds, h.closedPeers, h.ghosts, h.ending, h.testaments, h.retries, h.now, h.cfg⟩

/-- … and the queue of an attached client `k` is its old queue offered the messages for `k` in order -/
theorem brokerStep_queue (r : Realm) (b : Broker) (n : Nat) (ss : List Send) (k : SessKey) (c : Session)
    (hk : k ≠ metaKey) (hc : r.client? k = some c) :
    (({ r with pubCount := n, broker := b } : Realm).deliver ss).queueOf k =
      accept c.cap (r.queueOf k) (msgsTo k ss) :=
  queueOf_deliver_client ss ({ r with pubCount := n, broker := b } : Realm) k c hk hc

theorem brokerStep_queue_other (r : Realm) (b : Broker) (n : Nat) (ss : List Send) (k : SessKey)
    (hk : k = metaKey ∨ r.client? k = none) :
    (({ r with pubCount := n, broker := b } : Realm).deliver ss).queueOf k = r.queueOf k :=
  queueOf_deliver_other ss ({ r with pubCount := n, broker := b } : Realm) k hk

/-! ### `handleSubscribe`, `handleUnsubscribe` -/

theorem handleSubscribe_invalid (r : Realm) (s : Session) (req : Nat) (opts : Dict) (topic : String)
    (hv : validUri r.broker.strict (opts.optString OptMatch) topic = false) :
    handleSubscribe r s req opts topic = r.deliver [⟨s.key, invalidUriErr tSUBSCRIBE req⟩] := by
  unfold handleSubscribe
  simp only [hv, Bool.not_false, if_true]
  rfl

theorem handleSubscribe_ok (r : Realm) (s : Session) (req : Nat) (opts : Dict) (topic : String)
    (hv : validUri r.broker.strict (opts.optString OptMatch) topic = true) :
    handleSubscribe r s req opts topic =
      ({ r with pubCount := r.pubCount +
                  (r.broker.syncSubscribe s.key req topic (opts.optString OptMatch) r.pubCount).2.2,
                broker := (r.broker.syncSubscribe s.key req topic (opts.optString OptMatch) r.pubCount).1 } : Realm).deliver
        (r.broker.syncSubscribe s.key req topic (opts.optString OptMatch) r.pubCount).2.1 := by
  unfold handleSubscribe
  simp only [hv, Bool.not_true, Bool.false_eq_true, if_false]

theorem handleUnsubscribe_eq (r : Realm) (s : Session) (req sub : Nat) :
    handleUnsubscribe r s req sub =
      ({ r with pubCount := r.pubCount + (r.broker.syncUnsubscribe s.key req sub r.pubCount).2.2,
                broker := (r.broker.syncUnsubscribe s.key req sub r.pubCount).1 } : Realm).deliver
        (r.broker.syncUnsubscribe s.key req sub r.pubCount).2.1 := by
  unfold handleUnsubscribe
  rfl


/-! ### ordering of the EVENTs in one recipient's queue (C08) -/

/-- publication id of a message that is an EVENT of subscription `i` -/
def evPubOf (i : Nat) : Msg → Option Nat
  | .event sub pub _ _ _ => if sub = i then some pub else none
  | _ => none

/-- one PUBLISH request of a session -/
structure PubReq where
  req : Nat
  opts : Dict
  topic : String
  args : List WVal
  kw : Dict

/-- session `s` sends a sequence of PUBLISH messages, each handled to completion -/
def publishSeq (r : Realm) (s : Session) : List PubReq → Realm
  | [] => r
  | x :: rest => publishSeq (handlePublish r s x.req x.opts x.topic x.args x.kw) s rest

/-- the publication ids drawn for those requests, in order (a request that is refused draws none) -/
def publishedIds (r : Realm) (s : Session) : List PubReq → List Nat
  | [] => []
  | x :: rest =>
    (if (handlePublish r s x.req x.opts x.topic x.args x.kw).pubCount = r.pubCount then []
     else [pubBase + r.pubCount]) ++
    publishedIds (handlePublish r s x.req x.opts x.topic x.args x.kw) s rest

theorem accept_sublist (cap : Nat) (ms : List Msg) : ∀ q, ∃ added, accept cap q ms = q ++ added ∧ added.Sublist ms := by
  induction ms with
  | nil => intro q; exact ⟨[], by simp [accept_nil], List.Sublist.refl _⟩
  | cons m ms ih =>
    intro q
    rw [accept_cons]
    split
    · obtain ⟨a, e, hs⟩ := ih (q ++ [m])
      exact ⟨m :: a, by rw [e]; simp, hs.cons_cons m⟩
    · obtain ⟨a, e, hs⟩ := ih q
      exact ⟨a, e, hs.cons m⟩

/-- after a list of sends the queue of an attached client is its old queue plus a subsequence of
    the messages addressed to it (those that found room) -/
theorem deliver_added (ss : List Send) (r : Realm) (k : SessKey) (c : Session) (hk : k ≠ metaKey)
    (hc : r.client? k = some c) :
    ∃ added, (r.deliver ss).queueOf k = r.queueOf k ++ added ∧ added.Sublist (msgsTo k ss) := by
  rw [queueOf_deliver_client ss r k c hk hc]
  exact accept_sublist c.cap (msgsTo k ss) (r.queueOf k)

theorem msgsTo_events (k : SessKey) (i : Nat) (l : List Send) :
    (msgsTo k l).filterMap (evPubOf i) = (through l k i).filterMap (fun x => x.msg.eventPub?) := by
  induction l with
  | nil => rfl
  | cons x l ih =>
    rw [msgsTo_cons]
    unfold through at ih ⊢
    rw [List.filter_cons]
    by_cases hto : x.to = k
    · rw [if_pos hto, List.filterMap_cons]
      cases hm : x.msg with
      | event sub pub d a kw =>
        by_cases hs : sub = i
        · simp [evPubOf, hs, hto, hm, Msg.eventSub?, Msg.eventPub?, ih]
        · simp [evPubOf, hs, hto, Msg.eventSub?, ih]
      | _ => simp [evPubOf, hto, Msg.eventSub?, ih]
    · have : (x.to == k) = false := by simpa using hto
      rw [if_neg hto, ih]
      simp [this]

/-- the EVENTs of one publication for one (recipient, subscription id): none, or one with its id -/
theorem syncPublish_events_pub {b : Broker} (hb : BrokerInv b) (sess : SessKey → Option Session) (now : Nat)
    (p : Publication) (k : SessKey) (i : Nat) :
    (through (b.syncPublish sess now p).2 k i).filterMap (fun x => x.msg.eventPub?) = [] ∨
    (through (b.syncPublish sess now p).2 k i).filterMap (fun x => x.msg.eventPub?) = [p.pubId] := by
  obtain ⟨_, h2, h3, _⟩ := delivery_exact hb sess now p
  by_cases he : ∃ s c, s.id = i ∧ Expected b sess p s k c
  · obtain ⟨s, c, rfl, hexp⟩ := he
    right
    rw [h2 s k c hexp]
    rfl
  · left
    rw [h3 k i he]
    rfl


theorem ackList_no_event (opts : Dict) (x : Send) (k : SessKey) (i : Nat) (hx : evPubOf i x.msg = none) :
    (msgsTo k (ackList opts x)).filterMap (evPubOf i) = [] := by
  unfold ackList
  split
  · rw [msgsTo_cons]
    split
    · simp [msgsTo_nil, hx]
    · rfl
  · rfl

/-- One PUBLISH handled by the realm, seen from recipient `k` and subscription id `i`: the queue of
    `k` grows by some messages, among which at most one EVENT of subscription `i`, carrying the
    publication id drawn in this step; nothing else about `k`, the clients or the subscriptions
    changes. -/
theorem handlePublish_step {r : Realm} (hb : BrokerInv r.broker) (s : Session) (x : PubReq) (k : SessKey)
    (c : Session) (hk : k ≠ metaKey) (hc : r.client? k = some c) (i : Nat) :
    BrokerInv (handlePublish r s x.req x.opts x.topic x.args x.kw).broker ∧
    (handlePublish r s x.req x.opts x.topic x.args x.kw).client? k = some c ∧
    (handlePublish r s x.req x.opts x.topic x.args x.kw).broker.subs = r.broker.subs ∧
    r.pubCount ≤ (handlePublish r s x.req x.opts x.topic x.args x.kw).pubCount ∧
    ∃ added, (handlePublish r s x.req x.opts x.topic x.args x.kw).queueOf k = r.queueOf k ++ added ∧
      (added.filterMap (evPubOf i)).Sublist
        (if (handlePublish r s x.req x.opts x.topic x.args x.kw).pubCount = r.pubCount then []
         else [pubBase + r.pubCount]) := by
  have hnoev : ∀ (l : List Send), (msgsTo k l).filterMap (evPubOf i) = [] →
      ∃ added, (r.deliver l).queueOf k = r.queueOf k ++ added ∧
        (added.filterMap (evPubOf i)).Sublist
          (if (r.deliver l).pubCount = r.pubCount then [] else [pubBase + r.pubCount]) := by
    intro l hl
    obtain ⟨added, e, hs⟩ := deliver_added l r k c hk hc
    refine ⟨added, e, ?_⟩
    have := hs.filterMap (evPubOf i)
    rw [hl] at this
    rw [List.sublist_nil.mp this]
    exact List.nil_sublist _
  by_cases hv : validUri r.broker.strict "" x.topic = true
  · by_cases hp : pptRefused s x.opts = true
    · rw [handlePublish_ppt r s x.req x.opts x.topic x.args x.kw hv hp]
      have hf := trySend_frame r ⟨s.key, abortMsg "<text>"⟩
      refine ⟨hf.broker ▸ hb, ?_, ?_, ?_, ?_⟩
      · show (r.trySend ⟨s.key, abortMsg "<text>"⟩).client? k = some c
        rw [client?_of_frame hf]; exact hc
      · show (r.trySend ⟨s.key, abortMsg "<text>"⟩).broker.subs = _
        rw [hf.broker]
      · show r.pubCount ≤ (r.trySend ⟨s.key, abortMsg "<text>"⟩).pubCount
        rw [hf.pubCount]; exact Nat.le_refl _
      · obtain ⟨added, e, hs⟩ := hnoev [⟨s.key, abortMsg "<text>"⟩] (by
          rw [msgsTo_cons]; split <;> rfl)
        exact ⟨added, e, hs⟩
    · have hp' : pptRefused s x.opts = false := by simpa using hp
      by_cases hd : discloseRefused r x.opts = true
      · rw [handlePublish_refused r s x.req x.opts x.topic x.args x.kw hv hp' hd]
        have hf := deliver_frame (ackList x.opts ⟨s.key, errMsg tPUBLISH x.req ErrOptionDisallowedDiscloseMe⟩) r
        refine ⟨hf.broker ▸ hb, by rw [client?_of_frame hf]; exact hc, by rw [hf.broker],
          by rw [hf.pubCount]; exact Nat.le_refl _, hnoev _ (ackList_no_event _ _ _ _ rfl)⟩
      · have hd' : discloseRefused r x.opts = false := by simpa using hd
        rw [handlePublish_ok r s x.req x.opts x.topic x.args x.kw hv hp' hd']
        obtain ⟨f1, f2, f3, _⟩ := brokerStep_frame r
          (r.broker.syncPublish r.session? r.now (pubOf r s x.opts x.topic x.args x.kw)).1 (r.pubCount + 1)
          ((r.broker.syncPublish r.session? r.now (pubOf r s x.opts x.topic x.args x.kw)).2 ++
            ackList x.opts ⟨s.key, .published x.req (pubBase + r.pubCount)⟩)
        refine ⟨by rw [f1]; exact hb.publish _ _ _, by unfold client?; rw [f3]; exact hc,
          by rw [f1]; exact (syncPublish_subs _ _ _ _).1, by rw [f2]; exact Nat.le_succ _, ?_⟩
        obtain ⟨added, e, hs⟩ := deliver_added
          ((r.broker.syncPublish r.session? r.now (pubOf r s x.opts x.topic x.args x.kw)).2 ++
            ackList x.opts ⟨s.key, .published x.req (pubBase + r.pubCount)⟩)
          ({ r with pubCount := r.pubCount + 1,
                    broker := (r.broker.syncPublish r.session? r.now (pubOf r s x.opts x.topic x.args x.kw)).1 } : Realm)
          k c hk hc
        refine ⟨added, e, ?_⟩
        rw [f2, if_neg (by omega)]
        refine (hs.filterMap (evPubOf i)).trans ?_
        rw [msgsTo_append, List.filterMap_append, ackList_no_event _ _ _ _ rfl, List.append_nil, msgsTo_events]
        rcases syncPublish_events_pub hb r.session? r.now (pubOf r s x.opts x.topic x.args x.kw) k i with h | h
        · rw [h]; exact List.nil_sublist _
        · rw [h]; exact List.Sublist.refl _
  · have hv' : validUri r.broker.strict "" x.topic = false := by simpa using hv
    rw [handlePublish_invalid r s x.req x.opts x.topic x.args x.kw hv']
    have hf := deliver_frame (ackList x.opts ⟨s.key, invalidUriErr tPUBLISH x.req⟩) r
    refine ⟨hf.broker ▸ hb, by rw [client?_of_frame hf]; exact hc, by rw [hf.broker],
      by rw [hf.pubCount]; exact Nat.le_refl _, hnoev _ (ackList_no_event _ _ _ _ rfl)⟩

/-- C08 at realm level: while session `s` sends PUBLISH after PUBLISH, the queue of recipient `k`
    only grows, and the EVENTs it gains through subscription `i` carry, in queue order, a
    subsequence of the publication ids drawn for those requests in request order (an EVENT is
    missing exactly when `k`'s queue was full at that moment). -/
theorem publishSeq_events (s : Session) (k : SessKey) (c : Session) (hk : k ≠ metaKey) (i : Nat) :
    ∀ (ps : List PubReq) {r : Realm}, BrokerInv r.broker → r.client? k = some c →
      ∃ added, (publishSeq r s ps).queueOf k = r.queueOf k ++ added ∧
        (added.filterMap (evPubOf i)).Sublist (publishedIds r s ps)
  | [], r, _, _ => ⟨[], by simp [publishSeq], List.Sublist.refl _⟩
  | x :: rest, r, hb, hc => by
    obtain ⟨hb', hc', _, _, a1, e1, s1⟩ := handlePublish_step hb s x k c hk hc i
    obtain ⟨a2, e2, s2⟩ := publishSeq_events s k c hk i rest hb' hc'
    refine ⟨a1 ++ a2, ?_, ?_⟩
    · simp only [publishSeq]
      rw [e2, e1, List.append_assoc]
    · simp only [publishedIds]
      rw [List.filterMap_append]
      exact List.Sublist.append s1 s2

/-- the ids drawn are increasing: all at least `pubBase + r.pubCount`, pairwise `<` in request order -/
theorem publishedIds_increasing (s : Session) : ∀ (ps : List PubReq) (r : Realm),
    (∀ n ∈ publishedIds r s ps, pubBase + r.pubCount ≤ n) ∧ (publishedIds r s ps).Pairwise (· < ·)
  | [], _ => ⟨fun _ h => (nomatch h), List.Pairwise.nil⟩
  | x :: rest, r => by
    obtain ⟨ih1, ih2⟩ := publishedIds_increasing s rest (handlePublish r s x.req x.opts x.topic x.args x.kw)
    have hmono : r.pubCount ≤ (handlePublish r s x.req x.opts x.topic x.args x.kw).pubCount := by
      by_cases hv : validUri r.broker.strict "" x.topic = true
      · by_cases hp : pptRefused s x.opts = true
        · rw [handlePublish_ppt r s x.req x.opts x.topic x.args x.kw hv hp]
          show r.pubCount ≤ (r.trySend ⟨s.key, abortMsg "<text>"⟩).pubCount
          rw [(trySend_frame r _).pubCount]; exact Nat.le_refl _
        · have hp' : pptRefused s x.opts = false := by simpa using hp
          by_cases hd : discloseRefused r x.opts = true
          · rw [handlePublish_refused r s x.req x.opts x.topic x.args x.kw hv hp' hd, (deliver_frame _ r).pubCount]
            exact Nat.le_refl _
          · have hd' : discloseRefused r x.opts = false := by simpa using hd
            rw [handlePublish_ok r s x.req x.opts x.topic x.args x.kw hv hp' hd', (brokerStep_frame r _ _ _).2.1]
            exact Nat.le_succ _
      · have hv' : validUri r.broker.strict "" x.topic = false := by simpa using hv
        rw [handlePublish_invalid r s x.req x.opts x.topic x.args x.kw hv', (deliver_frame _ r).pubCount]
        exact Nat.le_refl _
    simp only [publishedIds]
    constructor
    · intro n hn
      rcases List.mem_append.mp hn with h | h
      · split at h
        · cases h
        · rw [List.mem_singleton.mp h]; exact Nat.le_refl _
      · have := ih1 n h; omega
    · rw [List.pairwise_append]
      refine ⟨?_, ih2, ?_⟩
      · split
        · exact List.Pairwise.nil
        · exact List.pairwise_singleton _ _
      · intro a ha b hb
        split at ha
        · cases ha
        · rename_i hne
          rw [List.mem_singleton.mp ha]
          have := ih1 b hb
          omega


/-! ### EVENTs are only produced for members (C08, SUBSCRIBED … UNSUBSCRIBED bracket) -/

theorem bmetaEvent_member {b : Broker} {t : String} {pid : Nat} {cause : SessKey} {args : List WVal} {x : Send}
    (hx : x ∈ b.metaEvent t pid cause args) :
    ∃ i, x.msg.eventSub? = some i ∧ b.isMember x.to i ∧ x.to ≠ cause := by
  unfold Broker.metaEvent at hx
  simp only [List.mem_flatMap, List.mem_map, List.mem_filter] at hx
  obtain ⟨⟨msub, st⟩, hm, k, ⟨hk, hne⟩, rfl⟩ := hx
  have hs := ((mem_matching b t msub st).mp hm).1
  refine ⟨msub.id, rfl, ⟨msub, hs, rfl, hk⟩, ?_⟩
  simp only [bne_iff_ne, ne_eq] at hne
  intro h; simp only at h; subst h; exact hne rfl

theorem bsyncPublish_member {b : Broker} {sess : SessKey → Option Session} {now : Nat} {p : Publication} {x : Send}
    (hx : x ∈ (b.syncPublish sess now p).2) : ∃ i, x.msg.eventSub? = some i ∧ b.isMember x.to i := by
  obtain ⟨s, k, c, ⟨hs, _, hk, _⟩, rfl⟩ := (mem_syncPublish_sends b sess now p x).mp hx
  exact ⟨s.id, rfl, s, hs, rfl, hk⟩

/-- SUBSCRIBE of `k`: the sends are SUBSCRIBED(req, id) to `k` followed by meta EVENTs to OTHER sessions,
    each a member (already before the step) of the subscription it arrives through; afterwards `k` is
    a member of `id`; nobody else's memberships change. -/
theorem bsyncSubscribe_spec {b : Broker} (hb : BrokerInv b) (k : SessKey) (req : Nat) (topic m : String) (pub0 : Nat) :
    ∃ id rest, (b.syncSubscribe k req topic m pub0).2.1 = ⟨k, .subscribed req id⟩ :: rest ∧
      (∀ x ∈ rest, x.to ≠ k ∧ ∃ i, x.msg.eventSub? = some i ∧ b.isMember x.to i) ∧
      (b.syncSubscribe k req topic m pub0).1.isMember k id ∧
      (∀ k' i, k' ≠ k → ((b.syncSubscribe k req topic m pub0).1.isMember k' i ↔ b.isMember k' i)) := by
  by_cases hex : ∃ s ∈ b.subs, s.topic = topic ∧ s.kind = matchKind m
  · obtain ⟨s, hs, rfl, hkind⟩ := hex
    by_cases hm : k ∈ s.members
    · rw [syncSubscribe_member hb hs k req m pub0 hkind hm]
      exact ⟨s.id, [], rfl, fun _ h => (nomatch h), ⟨s, hs, rfl, hm⟩, fun _ _ _ => Iff.rfl⟩
    · obtain ⟨_, _, _, hiff⟩ := syncSubscribe_join hb hs k req m pub0 hkind hm
      have hothers : ∀ k' i, k' ≠ k →
          ((b.syncSubscribe k req s.topic m pub0).1.isMember k' i ↔ b.isMember k' i) := by
        intro k' i hne
        rw [hiff]
        exact ⟨fun h => h.elim id (fun e => absurd e.1 hne), Or.inl⟩
      have hsends : (b.syncSubscribe k req s.topic m pub0).2.1 = ⟨k, .subscribed req s.id⟩ ::
          (b.syncSubscribe k req s.topic m pub0).1.metaEvent MetaEventSubOnSubscribe (pubBase + pub0) k
            [sidVal k, .int s.id] := by
        unfold Broker.syncSubscribe
        rw [← hkind, findTopic_of_mem hb hs]
        simp only [List.contains_iff_mem, hm, if_false]
        rfl
      refine ⟨s.id, _, hsends, ?_, (hiff k s.id).mpr (Or.inr ⟨rfl, rfl⟩), hothers⟩
      intro x hx
      obtain ⟨i, h1, h2, h3⟩ := bmetaEvent_member hx
      exact ⟨h3, i, h1, (hothers x.to i h3).mp h2⟩
  · have hno : ∀ s ∈ b.subs, ¬(s.topic = topic ∧ s.kind = matchKind m) := fun s hs h => hex ⟨s, hs, h⟩
    obtain ⟨_, hfresh, hsubs, _⟩ := syncSubscribe_new hb k req topic m pub0 hno
    have hf : b.findTopic topic (matchKind m) = none := by
      cases h : b.findTopic topic (matchKind m) with
      | none => rfl
      | some t => obtain ⟨h1, h2, h3⟩ := findTopic_some h; exact absurd ⟨h3, h2⟩ (hno t h1)
    have hmem' : ∀ k' i, (b.syncSubscribe k req topic m pub0).1.isMember k' i ↔
        b.isMember k' i ∨ (k' = k ∧ i = b.nextSub + 1) := by
      intro k' i
      unfold Broker.isMember
      rw [hsubs]
      simp only [List.mem_append, List.mem_singleton]
      constructor
      · rintro ⟨s, hs | rfl, h1, h2⟩
        · exact Or.inl ⟨s, hs, h1, h2⟩
        · simp at h1 h2; exact Or.inr ⟨h2, h1.symm⟩
      · rintro (⟨s, hs, h1, h2⟩ | ⟨rfl, rfl⟩)
        · exact ⟨s, Or.inl hs, h1, h2⟩
        · exact ⟨_, Or.inr rfl, rfl, by simp⟩
    have hothers : ∀ k' i, k' ≠ k → ((b.syncSubscribe k req topic m pub0).1.isMember k' i ↔ b.isMember k' i) := by
      intro k' i hne
      rw [hmem']
      exact ⟨fun h => h.elim id (fun e => absurd e.1 hne), Or.inl⟩
    have hsends : (b.syncSubscribe k req topic m pub0).2.1 = ⟨k, .subscribed req (b.nextSub + 1)⟩ ::
        ((b.syncSubscribe k req topic m pub0).1.metaEvent MetaEventSubOnCreate (pubBase + pub0) k
            [sidVal k, subDetailsDict { id := b.nextSub + 1, topic := topic, «match» := m, members := [k] }] ++
         (b.syncSubscribe k req topic m pub0).1.metaEvent MetaEventSubOnSubscribe (pubBase + pub0 + 1) k
            [sidVal k, .int (b.nextSub + 1)]) := by
      unfold Broker.syncSubscribe
      rw [hf]
      rfl
    refine ⟨b.nextSub + 1, _, hsends, ?_, (hmem' k _).mpr (Or.inr ⟨rfl, rfl⟩), hothers⟩
    intro x hx
    rcases List.mem_append.mp hx with h | h
    · obtain ⟨i, h1, h2, h3⟩ := bmetaEvent_member h
      exact ⟨h3, i, h1, (hothers x.to i h3).mp h2⟩
    · obtain ⟨i, h1, h2, h3⟩ := bmetaEvent_member h
      exact ⟨h3, i, h1, (hothers x.to i h3).mp h2⟩


theorem bsyncUnsubscribe_sends {b : Broker} (k : SessKey) (req subId pub0 : Nat) {sub : Sub}
    (hf : b.findId subId = some sub) (hk : k ∈ sub.members) :
    ∃ rest, (b.syncUnsubscribe k req subId pub0).2.1 = ⟨k, .unsubscribed req⟩ :: rest ∧
      ∀ x ∈ rest, ∃ t pid args, x ∈ (b.syncUnsubscribe k req subId pub0).1.metaEvent t pid k args := by
  unfold Broker.syncUnsubscribe
  rw [hf]
  simp only
  have hc : (!sub.members.contains k) = false := by simpa using hk
  rw [hc]
  simp only [Bool.false_eq_true, if_false]
  split
  · refine ⟨_, rfl, ?_⟩
    intro x hx
    rcases List.mem_append.mp hx with h | h
    · exact ⟨_, _, _, h⟩
    · exact ⟨_, _, _, h⟩
  · exact ⟨_, rfl, fun x hx => ⟨_, _, _, hx⟩⟩

/-- UNSUBSCRIBE of `k` from a subscription it is a member of: UNSUBSCRIBED(req) to `k`, then meta EVENTs
    to OTHER sessions (members of the subscription they arrive through); `k` is no longer a member of
    that subscription; no other membership changes. -/
theorem bsyncUnsubscribe_spec {b : Broker} (hb : BrokerInv b) (k : SessKey) (req subId pub0 : Nat)
    (hm : b.isMember k subId) :
    ∃ rest, (b.syncUnsubscribe k req subId pub0).2.1 = ⟨k, .unsubscribed req⟩ :: rest ∧
      (∀ x ∈ rest, x.to ≠ k ∧ ∃ i, x.msg.eventSub? = some i ∧ b.isMember x.to i) ∧
      ¬ (b.syncUnsubscribe k req subId pub0).1.isMember k subId ∧
      (∀ k' i, (b.syncUnsubscribe k req subId pub0).1.isMember k' i ↔ b.isMember k' i ∧ ¬(k' = k ∧ i = subId)) := by
  obtain ⟨s, hs, hid, hk⟩ := hm
  have hf : b.findId subId = some s := hid ▸ findId_of_mem hb.ids_nodup hs
  obtain ⟨h1, _, _, _⟩ := syncUnsubscribe_state hb.ids_nodup k req subId pub0 hf hk
  have hmem : ∀ k' i, (b.syncUnsubscribe k req subId pub0).1.isMember k' i ↔
      b.isMember k' i ∧ ¬(k' = k ∧ i = subId) := by
    intro k' i
    rw [isMember_stripped h1]
    simp
  obtain ⟨rest, hsends, hrest⟩ := bsyncUnsubscribe_sends k req subId pub0 hf hk
  refine ⟨rest, hsends, ?_, fun h => ((hmem k subId).mp h).2 ⟨rfl, rfl⟩, hmem⟩
  intro x hx
  obtain ⟨t, pid, args, hme⟩ := hrest x hx
  obtain ⟨i, e1, e2, e3⟩ := bmetaEvent_member hme
  exact ⟨e3, i, e1, ((hmem x.to i).mp e2).1⟩

/-! realm level -/

/-- broker-facing inputs of attached sessions -/
inductive BMsg where
  | publish (s : Session) (x : PubReq)
  | subscribe (s : Session) (req : Nat) (opts : Dict) (topic : String)
  | unsubscribe (s : Session) (req sub : Nat)

def handleB (r : Realm) : BMsg → Realm
  | .publish s x => handlePublish r s x.req x.opts x.topic x.args x.kw
  | .subscribe s req opts topic => handleSubscribe r s req opts topic
  | .unsubscribe s req sub => handleUnsubscribe r s req sub

def runB (r : Realm) (l : List BMsg) : Realm := l.foldl handleB r

/-- the EVENTs of subscription `i` in a list of messages (by publication id) -/
def eventsOf (i : Nat) (q : List Msg) : List Nat := q.filterMap (evPubOf i)

theorem deliver_no_events (r : Realm) (ss : List Send) (k : SessKey) (i : Nat)
    (hno : ∀ x ∈ ss, x.to = k → x.msg.eventSub? ≠ some i) :
    eventsOf i ((r.deliver ss).queueOf k) = eventsOf i (r.queueOf k) := by
  by_cases hk : k = metaKey ∨ r.client? k = none
  · rw [queueOf_deliver_other ss r k hk]
  · have hk1 : k ≠ metaKey := fun e => hk (Or.inl e)
    cases hc : r.client? k with
    | none => exact absurd (Or.inr hc) hk
    | some c =>
      obtain ⟨added, e, hs⟩ := deliver_added ss r k c hk1 hc
      have h0 : (msgsTo k ss).filterMap (evPubOf i) = [] := by
        rw [msgsTo_events]
        have : through ss k i = [] := by
          unfold through
          rw [List.filter_eq_nil_iff]
          intro x hx hc'
          simp only [Bool.and_eq_true, beq_iff_eq] at hc'
          exact hno x hx hc'.1 hc'.2
        rw [this]; rfl
      have := hs.filterMap (evPubOf i)
      rw [h0] at this
      unfold eventsOf
      rw [e, List.filterMap_append, List.sublist_nil.mp this, List.append_nil]

/-- A broker-facing step produces no EVENT of subscription `i` for a session `k` that is not a member
    of `i` when the step begins (not even if the step is `k`'s own SUBSCRIBE creating the membership:
    the SUBSCRIBED reply comes first and the meta events of that step go to the others). -/
theorem handleB_no_events {r : Realm} (hb : BrokerInv r.broker) (m : BMsg) (k : SessKey) (i : Nat)
    (hnot : ¬ r.broker.isMember k i) :
    eventsOf i ((handleB r m).queueOf k) = eventsOf i (r.queueOf k) := by
  cases m with
  | publish s x =>
    show eventsOf i ((handlePublish r s x.req x.opts x.topic x.args x.kw).queueOf k) = _
    by_cases hv : validUri r.broker.strict "" x.topic = true
    · by_cases hp : pptRefused s x.opts = true
      · rw [handlePublish_ppt r s x.req x.opts x.topic x.args x.kw hv hp]
        show eventsOf i ((r.deliver [⟨s.key, abortMsg "<text>"⟩]).queueOf k) = _
        apply deliver_no_events
        intro y hy _
        rw [List.mem_singleton.mp hy]; simp [abortMsg, Msg.eventSub?]
      · have hp' : pptRefused s x.opts = false := by simpa using hp
        by_cases hd : discloseRefused r x.opts = true
        · rw [handlePublish_refused r s x.req x.opts x.topic x.args x.kw hv hp' hd]
          apply deliver_no_events
          intro y hy _
          unfold ackList at hy
          split at hy
          · rw [List.mem_singleton.mp hy]; simp [errMsg, Msg.eventSub?]
          · cases hy
        · have hd' : discloseRefused r x.opts = false := by simpa using hd
          rw [handlePublish_ok r s x.req x.opts x.topic x.args x.kw hv hp' hd']
          apply deliver_no_events
            (r := ({ r with pubCount := r.pubCount + 1,
                            broker := (r.broker.syncPublish r.session? r.now (pubOf r s x.opts x.topic x.args x.kw)).1 } : Realm))
          intro y hy hto he
          rcases List.mem_append.mp hy with h | h
          · obtain ⟨j, e1, e2⟩ := bsyncPublish_member h
            rw [he] at e1
            simp only [Option.some.injEq] at e1
            subst e1 hto
            exact hnot e2
          · unfold ackList at h
            split at h
            · rw [List.mem_singleton.mp h] at he; simp [Msg.eventSub?] at he
            · cases h
    · have hv' : validUri r.broker.strict "" x.topic = false := by simpa using hv
      rw [handlePublish_invalid r s x.req x.opts x.topic x.args x.kw hv']
      apply deliver_no_events
      intro y hy _
      unfold ackList at hy
      split at hy
      · rw [List.mem_singleton.mp hy]; simp [invalidUriErr, Msg.eventSub?]
      · cases hy
  | subscribe s req opts topic =>
    show eventsOf i ((handleSubscribe r s req opts topic).queueOf k) = _
    by_cases hv : validUri r.broker.strict (opts.optString OptMatch) topic = true
    · rw [handleSubscribe_ok r s req opts topic hv]
      obtain ⟨id, rest, hs, hrest, _, _⟩ := bsyncSubscribe_spec hb s.key req topic (opts.optString OptMatch) r.pubCount
      rw [hs]
      apply deliver_no_events
        (r := ({ r with pubCount := r.pubCount + (r.broker.syncSubscribe s.key req topic (opts.optString OptMatch) r.pubCount).2.2,
                        broker := (r.broker.syncSubscribe s.key req topic (opts.optString OptMatch) r.pubCount).1 } : Realm))
      intro y hy hto he
      rcases List.mem_cons.mp hy with h | h
      · rw [h] at he; simp [Msg.eventSub?] at he
      · obtain ⟨_, j, e1, e2⟩ := hrest y h
        rw [he] at e1
        simp only [Option.some.injEq] at e1
        subst e1 hto
        exact hnot e2
    · have hv' : validUri r.broker.strict (opts.optString OptMatch) topic = false := by simpa using hv
      rw [handleSubscribe_invalid r s req opts topic hv']
      apply deliver_no_events
      intro y hy _
      rw [List.mem_singleton.mp hy]; simp [invalidUriErr, Msg.eventSub?]
  | unsubscribe s req sub =>
    show eventsOf i ((handleUnsubscribe r s req sub).queueOf k) = _
    rw [handleUnsubscribe_eq]
    by_cases hm : r.broker.isMember s.key sub
    · obtain ⟨rest, hs, hrest, _, _⟩ := bsyncUnsubscribe_spec hb s.key req sub r.pubCount hm
      rw [hs]
      apply deliver_no_events
        (r := ({ r with pubCount := r.pubCount + (r.broker.syncUnsubscribe s.key req sub r.pubCount).2.2,
                        broker := (r.broker.syncUnsubscribe s.key req sub r.pubCount).1 } : Realm))
      intro y hy hto he
      rcases List.mem_cons.mp hy with h | h
      · rw [h] at he; simp [Msg.eventSub?] at he
      · obtain ⟨_, j, e1, e2⟩ := hrest y h
        rw [he] at e1
        simp only [Option.some.injEq] at e1
        subst e1 hto
        exact hnot e2
    · have herr := syncUnsubscribe_err_state r.broker s.key req sub r.pubCount (by
        intro sub' hf hk
        obtain ⟨h1, h2⟩ := findId_some hf
        exact hm ⟨sub', h1, h2, hk⟩)
      rw [herr]
      apply deliver_no_events (r := ({ r with pubCount := r.pubCount + 0, broker := r.broker } : Realm))
      intro y hy _
      rw [List.mem_singleton.mp hy]; simp [errMsg, Msg.eventSub?]


theorem handleB_binv {r : Realm} (hb : BrokerInv r.broker) (m : BMsg) : BrokerInv (handleB r m).broker := by
  cases m with
  | publish s x =>
    show BrokerInv (handlePublish r s x.req x.opts x.topic x.args x.kw).broker
    by_cases hv : validUri r.broker.strict "" x.topic = true
    · by_cases hp : pptRefused s x.opts = true
      · rw [handlePublish_ppt r s x.req x.opts x.topic x.args x.kw hv hp]
        show BrokerInv (r.trySend ⟨s.key, abortMsg "<text>"⟩).broker
        rw [(trySend_frame r _).broker]; exact hb
      · have hp' : pptRefused s x.opts = false := by simpa using hp
        by_cases hd : discloseRefused r x.opts = true
        · rw [handlePublish_refused r s x.req x.opts x.topic x.args x.kw hv hp' hd, (deliver_frame _ r).broker]
          exact hb
        · have hd' : discloseRefused r x.opts = false := by simpa using hd
          rw [handlePublish_ok r s x.req x.opts x.topic x.args x.kw hv hp' hd', (brokerStep_frame r _ _ _).1]
          exact hb.publish _ _ _
    · have hv' : validUri r.broker.strict "" x.topic = false := by simpa using hv
      rw [handlePublish_invalid r s x.req x.opts x.topic x.args x.kw hv', (deliver_frame _ r).broker]
      exact hb
  | subscribe s req opts topic =>
    show BrokerInv (handleSubscribe r s req opts topic).broker
    by_cases hv : validUri r.broker.strict (opts.optString OptMatch) topic = true
    · rw [handleSubscribe_ok r s req opts topic hv, (brokerStep_frame r _ _ _).1]
      exact hb.subscribe _ _ _ _ _
    · have hv' : validUri r.broker.strict (opts.optString OptMatch) topic = false := by simpa using hv
      rw [handleSubscribe_invalid r s req opts topic hv', (deliver_frame _ r).broker]
      exact hb
  | unsubscribe s req sub =>
    show BrokerInv (handleUnsubscribe r s req sub).broker
    rw [handleUnsubscribe_eq, (brokerStep_frame r _ _ _).1]
    exact hb.unsubscribe _ _ _ _

/-- "EVENTs for (k, i) are only produced while k is a member of i": over any sequence of broker-facing
    steps of any sessions, if `k` is not a member of subscription `i` at the beginning of each step,
    the EVENTs of `i` in `k`'s queue are the same at the end as at the start. -/
theorem runB_no_events (k : SessKey) (i : Nat) : ∀ (l : List BMsg) {r : Realm}, BrokerInv r.broker →
    (∀ pre m post, l = pre ++ m :: post → ¬ (runB r pre).broker.isMember k i) →
    eventsOf i ((runB r l).queueOf k) = eventsOf i (r.queueOf k)
  | [], _, _, _ => rfl
  | m :: rest, r, hb, hnot => by
    have h0 : ¬ r.broker.isMember k i := hnot [] m rest rfl
    have ih := runB_no_events k i rest (handleB_binv hb m) (by
      intro pre m' post e
      have := hnot (m :: pre) m' post (by rw [e]; rfl)
      exact this)
    show eventsOf i ((runB (handleB r m) rest).queueOf k) = _
    rw [ih, handleB_no_events hb m k i h0]

/-- SUBSCRIBE at realm level (valid URI, subscriber an attached non-meta session): the subscriber's
    queue is offered exactly SUBSCRIBED(req, id) — no EVENT in this step —, and afterwards the
    subscriber is a member of `id`. -/
theorem handleSubscribe_reply {r : Realm} (hb : BrokerInv r.broker) (s c : Session) (req : Nat) (opts : Dict)
    (topic : String) (hv : validUri r.broker.strict (opts.optString OptMatch) topic = true)
    (hk : s.key ≠ metaKey) (hc : r.client? s.key = some c) :
    ∃ id, (handleSubscribe r s req opts topic).queueOf s.key =
        accept c.cap (r.queueOf s.key) [.subscribed req id] ∧
      (handleSubscribe r s req opts topic).broker.isMember s.key id := by
  obtain ⟨id, rest, hs, hrest, hmem, _⟩ := bsyncSubscribe_spec hb s.key req topic (opts.optString OptMatch) r.pubCount
  refine ⟨id, ?_, ?_⟩
  · rw [handleSubscribe_ok r s req opts topic hv, brokerStep_queue r _ _ _ s.key c hk hc, hs, msgsTo_cons, if_pos rfl]
    have : msgsTo s.key rest = [] := by
      unfold msgsTo
      rw [List.filter_eq_nil_iff.mpr]
      · rfl
      · intro x hx; simpa using (hrest x hx).1
    rw [this]
  · rw [handleSubscribe_ok r s req opts topic hv, (brokerStep_frame r _ _ _).1]
    exact hmem

/-- UNSUBSCRIBE at realm level by a member: the queue is offered exactly UNSUBSCRIBED(req), and the
    session is no longer a member; by a non-member: exactly ERROR no_such_subscription, broker unchanged. -/
theorem handleUnsubscribe_reply {r : Realm} (hb : BrokerInv r.broker) (s c : Session) (req sub : Nat)
    (hk : s.key ≠ metaKey) (hc : r.client? s.key = some c) :
    (r.broker.isMember s.key sub →
      (handleUnsubscribe r s req sub).queueOf s.key = accept c.cap (r.queueOf s.key) [.unsubscribed req] ∧
      ¬ (handleUnsubscribe r s req sub).broker.isMember s.key sub) ∧
    (¬ r.broker.isMember s.key sub →
      (handleUnsubscribe r s req sub).queueOf s.key =
        accept c.cap (r.queueOf s.key) [.error tUNSUBSCRIBE req [] ErrNoSuchSubscription [] []] ∧
      (handleUnsubscribe r s req sub).broker = r.broker) := by
  constructor
  · intro hm
    obtain ⟨rest, hs, hrest, hnot, _⟩ := bsyncUnsubscribe_spec hb s.key req sub r.pubCount hm
    constructor
    · rw [handleUnsubscribe_eq, brokerStep_queue r _ _ _ s.key c hk hc, hs, msgsTo_cons, if_pos rfl]
      have : msgsTo s.key rest = [] := by
        unfold msgsTo
        rw [List.filter_eq_nil_iff.mpr]
        · rfl
        · intro x hx; simpa using (hrest x hx).1
      rw [this]
    · rw [handleUnsubscribe_eq, (brokerStep_frame r _ _ _).1]
      exact hnot
  · intro hm
    have herr := syncUnsubscribe_err_state r.broker s.key req sub r.pubCount (by
      intro sub' hf hk'
      obtain ⟨h1, h2⟩ := findId_some hf
      exact hm ⟨sub', h1, h2, hk'⟩)
    constructor
    · rw [handleUnsubscribe_eq, brokerStep_queue r _ _ _ s.key c hk hc, herr]
      simp only [msgsTo_cons, if_true, msgsTo_nil]
      rfl
    · rw [handleUnsubscribe_eq, (brokerStep_frame r _ _ _).1, herr]

end Realm
end Nexus.L2
