/-
  Work package C: the control invariant `CtlInv` (on top of `RealmInv` and `MetaSafe`):
    * every key in `ending` is the key of an attached client;
    * every deferred departure belongs to a session whose handler is (still) in the yield retry loop;
  the client-level reachability `ReachableC` (inputs as a harness/transport can produce them: a joining
  key is fresh and not the meta key, only attached clients are dropped), and quiescence: a reachable
  state whose panic flag is `none` has no pending task.
  `CtlInv` holds in EVERY reachable realm (`Realm.Reachable.ctl`): the inputs `ReachableC` excludes — a `join`
  under the meta key or a key in use, a `drop` of a key that names no attached client — are no-ops of the
  model.  `ReachableC` is still what gives the queue invariant (`ReachableC.qreachable`).
-/
import Nexus.L2.Proofs.WpCMeta

namespace Nexus.L2.WpC
open Nexus.L2 Nexus.L2.Realm Nexus.Gen.N

structure CtlInv (r : Realm) : Prop where
  safe : MetaSafe r
  ending : ∀ j ∈ r.ending, r.isClient j
  defBusy : ∀ d ∈ r.deferred, r.busy d.1 = true

theorem isClient_filter {r : Realm} {k j : SessKey} (hj : r.isClient j) (hne : j ≠ k) :
    ∃ c ∈ r.clients.filter (fun c => c.key != k), c.key = j := by
  obtain ⟨c, hc, rfl⟩ := hj
  exact ⟨c, List.mem_filter.mpr ⟨hc, by simpa using hne⟩, rfl⟩

theorem CtlInv.taskAct {r r' : Realm} (hc : CtlInv r) (h : TaskAct r r') : CtlInv r' := by
  refine ⟨hc.safe.taskAct h, ?_, ?_⟩
  · cases h with
    | eff h =>
      obtain ⟨e, he, pe⟩ := h.ending
      intro j hj
      rw [he] at hj
      apply (h.isClient j).mpr
      rcases List.mem_append.mp hj with hj | hj
      · exact hc.ending j hj
      · exact (pe j hj).1
    | invoke h =>
      obtain ⟨e, he, pe⟩ := h.ending
      intro j hj
      rw [he] at hj
      apply (h.isClient j).mpr
      rcases List.mem_append.mp hj with hj | hj
      · exact hc.ending j hj
      · exact (pe j hj).1
    | defer k mode hk hb => exact hc.ending
    | leave k mode s hk hf hb =>
      obtain ⟨_, _, _, _, _, _, _, c8, c9, _⟩ := leave_ctl mode hf
      intro j hj
      rw [c9] at hj
      obtain ⟨hj0, hne⟩ := List.mem_filter.mp hj
      unfold Realm.isClient
      rw [c8]
      exact isClient_filter (hc.ending j hj0) (by simpa using hne)
    | none => exact hc.ending
  · cases h with
    | eff h =>
      obtain ⟨xs, hxs, _⟩ := h.retries
      intro d hd
      rw [h.deferred] at hd
      exact busy_mono (fun x hx => by rw [hxs]; exact List.mem_append_left _ hx) (hc.defBusy d hd)
    | invoke h =>
      intro d hd
      rw [h.deferred] at hd
      exact busy_mono (fun x hx => by rw [h.retries]; exact hx) (hc.defBusy d hd)
    | defer k mode hk hb =>
      intro d hd
      rcases List.mem_append.mp hd with hd | hd
      · exact hc.defBusy d hd
      · rw [List.mem_singleton.mp hd]; exact hb
    | leave k mode s hk hf hb =>
      obtain ⟨_, _, _, _, c5, c6, _, _, _, _⟩ := leave_ctl mode hf
      intro d hd
      rw [c5] at hd
      exact busy_mono (fun x hx => by rw [c6]; exact hx) (hc.defBusy d hd)
    | none => exact hc.defBusy

theorem CtlInv.runTask {r : Realm} (hc : CtlInv r) (t : Task) (ht : MTaskOk t) : CtlInv (r.runTask t) :=
  hc.taskAct (runTask_act hc.safe t ht)

/-- an external input as a transport can produce it: a joining key is not the meta session's and names no
    attached client and no leftover queue (`JoinFresh`); only an attached client can be dropped -/
def OpC (r : Realm) : Op → Prop
  | .join k .. => k ≠ metaKey ∧ JoinFresh r k
  | .drop k => r.isClient k
  | _ => True

theorem OpC.opK {r : Realm} (hm : MetaSafe r) {op : Op} (h : OpC r op) : OpK op := by
  cases op with
  | join k isLocal details roles cap => exact h.1
  | drop k => exact hm.client_ne h
  | _ => trivial

theorem CtlInv.map_clients {r : Realm} (hc : CtlInv r) (f : Session → Session) (hf : ∀ c, (f c).key = c.key)
    (gh : List SessKey) : CtlInv { r with clients := r.clients.map f, ghosts := gh } := by
  refine ⟨hc.safe.map_clients f hf gh, ?_, hc.defBusy⟩
  intro j hj
  exact (isClient_congr (isClient_map (r := r) f hf) j).mpr (hc.ending j hj)

/-- every external input preserves the control invariant: a `join` under a key in use (or the meta
    session's) and a `drop` of a key that names no attached client are no-ops of the model -/
theorem CtlInv.stepOp' {r : Realm} (hc : CtlInv r) (op : Op) : CtlInv (r.stepOp op) := by
  cases op with
  | join k isLocal details roles cap =>
    refine ⟨hc.safe.stepOp _, ?_, ?_⟩
    · rw [stepOp_join]
      split
      · exact hc.ending
      intro j hj
      obtain ⟨c, hcm, e⟩ := hc.ending j hj
      exact ⟨c, List.mem_append_left _ hcm, e⟩
    · rw [stepOp_join]; split <;> exact hc.defBusy
  | msg k m =>
    rw [stepOp_msg]
    exact hc.taskAct (runTask_act hc.safe (.inMsg k m) trivial)
  | buffer k => rw [stepOp_buffer]; exact hc.map_clients _ (fun c => by split <;> rfl) r.ghosts
  | drop k =>
    refine ⟨hc.safe.stepOp _, ?_, ?_⟩
    · rcases stepOp_drop_cases r k with e | ⟨hop, _, e⟩
      · rw [e]; exact hc.ending
      · rw [e]
        intro j hj
        rcases List.mem_append.mp hj with hj | hj
        · exact hc.ending j hj
        · rw [List.mem_singleton.mp hj]; exact hop
    · rw [stepOp_drop]
      split <;> (try split) <;> exact hc.defBusy
  | stall k => rw [stepOp_stall]; exact hc.map_clients _ (fun c => by split <;> rfl) r.ghosts
  | resume k => rw [stepOp_resume]; exact hc.map_clients _ (fun c => by split <;> rfl) _
  | tick ms => exact hc
  | rnd n => exact ⟨hc.safe.stepOp _, hc.ending, hc.defBusy⟩

theorem CtlInv.stepOp {r : Realm} (hc : CtlInv r) (op : Op) (_hop : OpC r op) : CtlInv (r.stepOp op) :=
  hc.stepOp' op

theorem CtlInv.timerDue {r : Realm} (hc : CtlInv r) (t : Timer) : CtlInv (r.timerDue t) := by
  have h := eff_timerDue (P := fun _ => False) (Q := fun _ => False) r t
  obtain ⟨e, he, pe⟩ := h.ending
  obtain ⟨xs, hxs, _⟩ := h.retries
  have e0 : e = [] := by cases e with | nil => rfl | cons a _ => exact absurd (pe a (List.mem_cons_self ..)) id
  refine ⟨hc.safe.timerDue t, ?_, ?_⟩
  · intro j hj
    rw [he, e0, List.append_nil] at hj
    exact (h.isClient j).mpr (hc.ending j hj)
  · intro d hd
    rw [h.deferred] at hd
    exact busy_mono (fun x hx => by rw [hxs]; exact List.mem_append_left _ hx) (hc.defBusy d hd)

theorem CtlInv.retryDue {r : Realm} (hi : RealmInv r) (hc : CtlInv r) {x : Retry} (hx : x ∈ r.retries) :
    CtlInv (r.retryDue x) := by
  refine ⟨hc.safe.retryDue hx, ?_, ?_⟩
  · -- ending: only the callee can be aborted, and then it is an attached client
    have he : (r.retryDue x).ending = r.ending ++ (retryOut r x).aborts := by
      rw [retryDue_eq]; split <;> exact dapplyD_ending _ _
    have hcl : (r.retryDue x).clients = r.clients := by
      rw [retryDue_eq]; split <;> exact dapplyD_clients _ _
    intro j hj
    rw [he] at hj
    unfold Realm.isClient
    rw [hcl]
    rcases List.mem_append.mp hj with hj | hj
    · exact hc.ending j hj
    · obtain ⟨e1, e2⟩ := retryOut_aborts hc.safe hx j hj
      rcases hi.retr x hx with h | h
      · exact absurd (e1.trans h) e2
      · exact e1 ▸ h
  · rw [retryDue_eq]
    split
    · rename_i ha
      intro d hd
      have hd' : d ∈ r.deferred := by simpa using hd
      obtain ⟨y, hy, hyk⟩ := List.any_eq_true.mp (hc.defBusy d hd')
      unfold busy
      simp only [dapplyD_retries]
      by_cases e : y.callee = x.callee
      · exact List.any_eq_true.mpr ⟨_, List.mem_append_right _ (List.mem_singleton.mpr rfl), by
          have : y.callee = d.1 := by simpa using hyk
          simpa using e.symm.trans this⟩
      · exact List.any_eq_true.mpr ⟨y, List.mem_append_left _ (List.mem_filter.mpr ⟨hy, by simpa using e⟩), hyk⟩
    · intro d hd
      have hd' : d ∈ r.deferred.filter (fun d => d.1 != x.callee) := by simpa using hd
      obtain ⟨hd0, hne⟩ := List.mem_filter.mp hd'
      obtain ⟨y, hy, hyk⟩ := List.any_eq_true.mp (hc.defBusy d hd0)
      have hyd : y.callee = d.1 := by simpa using hyk
      unfold busy
      simp only [dapplyD_retries]
      exact List.any_eq_true.mpr ⟨y, List.mem_filter.mpr ⟨hy, by rw [hyd]; exact hne⟩, hyk⟩

theorem CtlInv.congr {r r' : Realm} (hc : CtlInv r) (hm : MetaSafe r') (he : r'.ending = r.ending)
    (hcl : r'.clients = r.clients) (hd : r'.deferred = r.deferred) (hr : r'.retries = r.retries) : CtlInv r' := by
  refine ⟨hm, ?_, ?_⟩
  · intro j hj
    unfold Realm.isClient
    rw [hcl]; exact hc.ending j (he ▸ hj)
  · intro d hd'
    unfold busy
    rw [hr]; exact hc.defBusy d (hd ▸ hd')

theorem CtlInv.setPanic {r : Realm} (hc : CtlInv r) (p : Option String) : CtlInv (r.setPanic p) := by
  have h := eff_setPanic (P := fun _ => False) (Q := fun _ => False) r p
  obtain ⟨e, he, pe⟩ := h.ending
  obtain ⟨xs, hxs, pxs⟩ := h.retries
  have e0 : e = [] := by cases e with | nil => rfl | cons a _ => exact absurd (pe a (List.mem_cons_self ..)) id
  have x0 : xs = [] := by cases xs with | nil => rfl | cons a _ => exact absurd (pxs a (List.mem_cons_self ..)) id
  exact hc.congr (hc.safe.setPanic p) (by rw [he, e0]; simp) h.clients h.deferred (by rw [hxs, x0]; simp)

theorem rinv_tail {r : Realm} (hi : RealmInv r) {t : Task} {ts : List Task} (ht : r.tasks = t :: ts) :
    RealmInv ({ r with tasks := ts } : Realm) ∧ TaskOk t :=
  ⟨hi.of_parts rfl hi.binv hi.dinv hi.bmem hi.dref hi.callers hi.retr
    (fun t' ht' => hi.tasks t' (by rw [ht]; exact List.mem_cons_of_mem _ ht')) hi.inb rfl,
   hi.tasks t (by rw [ht]; exact List.mem_cons_self ..)⟩

theorem CtlInv.tail {r : Realm} (hc : CtlInv r) {t : Task} {ts : List Task} (ht : r.tasks = t :: ts) :
    CtlInv ({ r with tasks := ts } : Realm) ∧ MTaskOk t :=
  ⟨hc.congr ⟨hc.safe.noClient, hc.safe.ending, fun t' ht' => hc.safe.tasks t' (by rw [ht]; exact List.mem_cons_of_mem _ ht'),
      hc.safe.deferred, hc.safe.retries, hc.safe.mkey, hc.safe.metaPPT⟩ rfl rfl rfl rfl,
   hc.safe.tasks t (by rw [ht]; exact List.mem_cons_self ..)⟩

theorem CtlInv.drain : ∀ (fuel : Nat) {r : Realm}, CtlInv r → CtlInv (drain fuel r)
  | 0, r, hc => by
    rw [drain_zero]
    split
    · exact hc
    · exact hc.setPanic _
  | fuel + 1, r, hc => by
    cases ht : r.tasks with
    | nil => rw [drain_succ_nil _ _ ht]; exact hc
    | cons t ts =>
      rw [drain_succ_cons _ _ t ts ht]
      exact CtlInv.drain fuel ((hc.tail ht).1.runTask t (hc.tail ht).2)

theorem CtlInv.advance : ∀ (fuel : Nat) {r : Realm} (target : Nat), RealmInv r → FuelOnly r.panic → CtlInv r →
    CtlInv (advance fuel r target)
  | 0, r, target, _, _, hc => by
    unfold Realm.advance
    have h0 : CtlInv ({ r with now := target } : Realm) :=
      hc.congr ⟨hc.safe.noClient, hc.safe.ending, hc.safe.tasks, hc.safe.deferred, hc.safe.retries, hc.safe.mkey,
        hc.safe.metaPPT⟩ rfl rfl rfl rfl
    exact h0.setPanic _
  | fuel + 1, r, target, hi, hp, hc => by
    unfold Realm.advance
    split
    · exact hc.congr ⟨hc.safe.noClient, hc.safe.ending, hc.safe.tasks, hc.safe.deferred, hc.safe.retries, hc.safe.mkey,
        hc.safe.metaPPT⟩ rfl rfl rfl rfl
    · rename_i d hd
      extract_lets r1 r2
      have hi1 : RealmInv r1 :=
        hi.of_parts rfl hi.binv hi.dinv hi.bmem hi.dref hi.callers hi.retr hi.tasks hi.inb rfl
      have hc1 : CtlInv r1 :=
        hc.congr ⟨hc.safe.noClient, hc.safe.ending, hc.safe.tasks, hc.safe.deferred, hc.safe.retries, hc.safe.mkey,
          hc.safe.metaPPT⟩ rfl rfl rfl rfl
      have h2 : (RealmInv r2 ∧ r2.panic = r.panic) ∧ CtlInv r2 := by
        cases d with
        | timer t => exact ⟨timerDue_rinv hi1 t, hc1.timerDue t⟩
        | retry x => exact ⟨retryDue_rinv hi1 x (hi.retr x (nextDue_retry hd)), CtlInv.retryDue hi1 hc1 (nextDue_retry hd)⟩
      obtain ⟨h3, h4⟩ := drain_inv taskFuel h2.1.1 (by rw [h2.1.2]; exact hp)
      exact CtlInv.advance fuel target h3 h4 (CtlInv.drain taskFuel h2.2)

theorem CtlInv.flush {r : Realm} (hc : CtlInv r) : CtlInv r.flush.2 := by
  obtain ⟨f1, _, f3, f4, f5, _⟩ := flush_ctl r
  exact hc.congr hc.safe.flush f1 f3 f5 f4

theorem CtlInv.step' {r : Realm} (hi : RealmInv r) (hp : FuelOnly r.panic) (hc : CtlInv r) (op : Op) :
    CtlInv (r.step op).2 := by
  by_cases ht : ∃ ms, op = .tick ms
  · obtain ⟨ms, rfl⟩ := ht
    rw [step_tick]
    exact (CtlInv.advance _ _ hi hp hc).flush
  · rw [step_of_not_tick r op (fun ms e => ht ⟨ms, e⟩)]
    exact (CtlInv.drain _ (hc.stepOp' op)).flush

theorem CtlInv.step {r : Realm} (hi : RealmInv r) (hp : FuelOnly r.panic) (hc : CtlInv r) (op : Op) (_hop : OpC r op) :
    CtlInv (r.step op).2 := CtlInv.step' hi hp hc op

/-- every reachable realm satisfies the control invariant: the meta session is no client and is never
    ending, every key in `ending` is the key of an attached client, every deferred departure belongs to
    a session whose handler is in the yield retry loop — no hypothesis on the inputs -/
theorem _root_.Nexus.L2.Realm.Reachable.ctl {cfg : Config} {r : Realm} (h : Realm.Reachable cfg r) : CtlInv r := by
  induction h with
  | init h =>
    obtain ⟨hm, hd, he⟩ := create_metaSafe h
    exact ⟨hm, (by rw [he]; intro j hj; cases hj), (by rw [hd]; intro d hd'; cases hd')⟩
  | step op hr ih => exact CtlInv.step' hr.inv.1 hr.inv.2 ih op

/-- realm states reachable by inputs as a transport / the harness can produce them -/
inductive ReachableC (cfg : Config) : Realm → Prop
  | init {r : Realm} : Realm.create cfg = some r → ReachableC cfg r
  | step {r : Realm} (op : Op) : ReachableC cfg r → OpC r op → ReachableC cfg (r.step op).2

theorem ReachableC.reachable {cfg : Config} {r : Realm} (h : ReachableC cfg r) : Realm.Reachable cfg r := by
  induction h with
  | init h => exact .init h
  | step op _ _ ih => exact .step op ih

theorem ReachableC.ctl {cfg : Config} {r : Realm} (h : ReachableC cfg r) : CtlInv r := h.reachable.ctl

theorem ReachableC.reachableK {cfg : Config} {r : Realm} (h : ReachableC cfg r) : ReachableK cfg r := by
  induction h with
  | init h => exact .init h
  | step op hr hop ih => exact .step op ih (hop.opK hr.ctl.safe)

theorem ReachableC.qreachable {cfg : Config} {r : Realm} (h : ReachableC cfg r) : QReachable cfg r := by
  induction h with
  | init h => exact .init h
  | step op hr hop ih =>
    refine .step op ih ?_
    intro k l d ro c e
    subst e
    exact hop.2

/-- the empty realm satisfies the control invariant -/
theorem ctlInv_empty : CtlInv ({} : Realm) := by
  refine ⟨⟨?_, ?_, ?_, ?_, ?_, rfl, by decide⟩, ?_, ?_⟩
  · intro c h; cases h
  · intro h; cases h
  · intro t h; cases h
  · intro d h; cases h
  · intro x h; cases h
  · intro j h; cases h
  · intro d h; cases h

/-! ### quiescence -/

theorem drain_rinv : ∀ (fuel : Nat) {r : Realm}, RealmInv r → RealmInv (drain fuel r)
  | 0, r, hi => by
    rw [drain_zero]
    split
    · exact hi
    · exact hi.setPanic _
  | fuel + 1, r, hi => by
    cases ht : r.tasks with
    | nil => rw [drain_succ_nil _ _ ht]; exact hi
    | cons t ts =>
      rw [drain_succ_cons _ _ t ts ht]
      exact drain_rinv fuel (runTask_inv (rinv_tail hi ht).1 t (rinv_tail hi ht).2).1

/-- one timed event of `advance` -/
def fire (r : Realm) (d : Due) : Realm :=
  match d with
  | .timer t => ({ r with now := max r.now d.time } : Realm).timerDue t
  | .retry x => ({ r with now := max r.now d.time } : Realm).retryDue x

theorem advance_succ_some {fuel : Nat} {r : Realm} {target : Nat} {d : Due} (hd : nextDue r target = some d) :
    advance (fuel + 1) r target = advance fuel (drain taskFuel (fire r d)) target := by
  rw [Realm.advance]
  simp only [hd]
  cases d <;> rfl

theorem advance_succ_none {fuel : Nat} {r : Realm} {target : Nat} (hd : nextDue r target = none) :
    advance (fuel + 1) r target = { r with now := target } := by
  rw [Realm.advance]
  simp only [hd]

theorem fire_rinv {r : Realm} {target : Nat} {d : Due} (hi : RealmInv r) (hd : nextDue r target = some d) :
    RealmInv (fire r d) ∧ (fire r d).panic = r.panic := by
  have hi1 : RealmInv ({ r with now := max r.now d.time } : Realm) :=
    hi.of_parts rfl hi.binv hi.dinv hi.bmem hi.dref hi.callers hi.retr hi.tasks hi.inb rfl
  cases d with
  | timer t => exact timerDue_rinv hi1 t
  | retry x => exact retryDue_rinv hi1 x (hi.retr x (nextDue_retry hd))

/-- the panic flag is never reset: if it is `none` after `advance`, it was `none` before -/
theorem advance_panic_mono : ∀ (fuel : Nat) (r : Realm) (target : Nat), RealmInv r →
    (advance fuel r target).panic = none → r.panic = none
  | 0, r, target, _, hp => by
    unfold Realm.advance at hp
    exact absurd hp (setPanic_some_ne_none _ _)
  | fuel + 1, r, target, hi, hp => by
    cases hd : nextDue r target with
    | none => rw [advance_succ_none hd] at hp; exact hp
    | some d =>
      rw [advance_succ_some hd] at hp
      obtain ⟨h1, h2⟩ := fire_rinv hi hd
      have h3 := advance_panic_mono fuel _ target (drain_rinv taskFuel h1) hp
      obtain ⟨_, _, g3, _⟩ := drain_quiescent (fun _ => True) (fun _ _ _ _ _ _ => trivial) taskFuel _ h1 trivial h3
      rw [← h2]; exact g3

/-- `advance` ends without pending tasks unless a fuel marker was set -/
theorem advance_tasks : ∀ (fuel : Nat) (r : Realm) (target : Nat), RealmInv r → r.tasks = [] →
    (advance fuel r target).panic = none → (advance fuel r target).tasks = []
  | 0, r, target, _, _, hp => by
    unfold Realm.advance at hp
    exact absurd hp (setPanic_some_ne_none _ _)
  | fuel + 1, r, target, hi, ht, hp => by
    cases hd : nextDue r target with
    | none => rw [advance_succ_none hd]; exact ht
    | some d =>
      rw [advance_succ_some hd] at hp ⊢
      obtain ⟨h1, _⟩ := fire_rinv hi hd
      have h3 := advance_panic_mono fuel _ target (drain_rinv taskFuel h1) hp
      obtain ⟨_, g2, _, g4⟩ := drain_quiescent (fun _ => True) (fun _ _ _ _ _ _ => trivial) taskFuel _ h1 trivial h3
      exact advance_tasks fuel _ target g4 g2 hp

theorem advance_rinv : ∀ (fuel : Nat) {r : Realm} (target : Nat), RealmInv r → RealmInv (advance fuel r target)
  | 0, r, target, hi => by
    unfold Realm.advance
    exact RealmInv.setPanic (r := { r with now := target })
      (hi.of_parts rfl hi.binv hi.dinv hi.bmem hi.dref hi.callers hi.retr hi.tasks hi.inb rfl) _
  | fuel + 1, r, target, hi => by
    cases hd : nextDue r target with
    | none =>
      rw [advance_succ_none hd]
      exact hi.of_parts rfl hi.binv hi.dinv hi.bmem hi.dref hi.callers hi.retr hi.tasks hi.inb rfl
    | some d =>
      rw [advance_succ_some hd]
      exact advance_rinv fuel target (drain_rinv taskFuel (fire_rinv hi hd).1)

/-- the panic flag is never reset by a step -/
theorem step_panic_mono {r : Realm} (hi : RealmInv r) (op : Op) (hp : (r.step op).2.panic = none) : r.panic = none := by
  by_cases htk : ∃ ms, op = .tick ms
  · obtain ⟨ms, rfl⟩ := htk
    rw [step_tick, (flush_inv (advance_rinv 10000 (r.now + ms) hi)).2.1] at hp
    exact advance_panic_mono _ _ _ hi hp
  · rw [step_of_not_tick r op (fun ms e => htk ⟨ms, e⟩)] at hp
    obtain ⟨s1, s2⟩ := stepOp_inv hi op
    rw [(flush_inv (drain_rinv taskFuel s1)).2.1] at hp
    obtain ⟨_, _, g3, _⟩ := drain_quiescent (fun _ => True) (fun _ _ _ _ _ _ => trivial) taskFuel _ s1 trivial hp
    rw [← s2]; exact g3

/-- QUIESCENCE: a step that leaves the panic flag `none` ends with no pending task (every task the input
    caused has run) — provided none was pending before -/
theorem step_quiescent {r : Realm} (hi : RealmInv r) (ht : r.tasks = []) (op : Op) (hp : (r.step op).2.panic = none) :
    (r.step op).2.tasks = [] := by
  by_cases htk : ∃ ms, op = .tick ms
  · obtain ⟨ms, rfl⟩ := htk
    rw [step_tick] at hp ⊢
    rw [(flush_inv (advance_rinv 10000 (r.now + ms) hi)).2.1] at hp
    rw [(flush_ctl _).2.1]
    exact advance_tasks _ _ _ hi ht hp
  · rw [step_of_not_tick r op (fun ms e => htk ⟨ms, e⟩)] at hp ⊢
    obtain ⟨s1, s2⟩ := stepOp_inv hi op
    rw [(flush_inv (drain_rinv taskFuel s1)).2.1] at hp
    rw [(flush_ctl _).2.1]
    exact (drain_quiescent (fun _ => True) (fun _ _ _ _ _ _ => trivial) taskFuel _ s1 trivial hp).2.1

theorem Reachable.quiescent {cfg : Config} {r : Realm} (h : Realm.Reachable cfg r) (hp : r.panic = none) : r.tasks = [] := by
  induction h with
  | init h => exact (create_rinv h).2.2.2.2.2.1
  | step op hr ih => exact step_quiescent hr.inv.1 (ih (step_panic_mono hr.inv.1 op hp)) op hp

end Nexus.L2.WpC
