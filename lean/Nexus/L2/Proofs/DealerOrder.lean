/-
  Ordering facts about runs of the dealer model (property C08, dealer half): per-recipient message
  streams of a run, the reply stream of one call, where RESULT messages come from, and the
  REGISTERED … UNREGISTERED bracket around INVOCATIONs.
-/
import Nexus.L2.Proofs.DealerFrame

namespace Nexus.L2
open Gen.N

/-! ### runs -/

theorem Run.split {s s' : DState} : ∀ {tr1 tr2 : List (DState × DOut)}, Run s (tr1 ++ tr2) s' →
    ∃ m, Run s tr1 m ∧ Run m tr2 s'
  | [], _, h => ⟨s, Run.nil s, h⟩
  | p :: tr1, tr2, h => by
    cases h with
    | cons st rest =>
      obtain ⟨m, h1, h2⟩ := Run.split rest
      exact ⟨m, Run.cons st h1, h2⟩

theorem Run.head {s s' : DState} {p : DState × DOut} {tr : List (DState × DOut)} (h : Run s (p :: tr) s') :
    p.1 = s ∧ DStep s p.2 ∧ Run p.2.st tr s' := by
  cases h with
  | cons st rest => exact ⟨rfl, st, rest⟩

theorem Run.gen_mono {s s' : DState} {tr : List (DState × DOut)} (run : Run s tr s') (h : DealerInv s) (k : SessKey) :
    genOf s.invGen k ≤ genOf s'.invGen k := by
  induction run with
  | nil => exact Nat.le_refl _
  | cons st _ ih => exact Nat.le_trans (st.gen_mono h k) (ih (st.inv h))

/-- the messages a run sends to session `k`, in order -/
def outStream (k : SessKey) (tr : List (DState × DOut)) : List Msg :=
  tr.flatMap (fun p => (p.2.sends.filter (fun x => x.to == k)).map (·.msg))

theorem outStream_append (k : SessKey) (a b : List (DState × DOut)) :
    outStream k (a ++ b) = outStream k a ++ outStream k b := by
  simp [outStream]

theorem outStream_cons (k : SessKey) (p : DState × DOut) (b : List (DState × DOut)) :
    outStream k (p :: b) = (p.2.sends.filter (fun x => x.to == k)).map (·.msg) ++ outStream k b := by
  simp [outStream]

/-- the replies to call `c` a run sends, in order -/
def replyStream (c : ReqId) (tr : List (DState × DOut)) : List Send :=
  tr.flatMap (fun p => repliesFor c p.2.sends)

theorem replyStream_cons (c : ReqId) (p : DState × DOut) (b : List (DState × DOut)) :
    replyStream c (p :: b) = repliesFor c p.2.sends ++ replyStream c b := by
  simp [replyStream]

/-! ### where RESULT messages come from -/

def Msg.isResult : Msg → Bool
  | .result .. => true
  | _ => false

theorem syncCancel_no_result (env : DEnv) (s : DState) (caller : SessKey) (req : Nat) (mode reason : String)
    (errArgs : List WVal) : ∀ x ∈ (syncCancel env s caller req mode reason errArgs).sends, x.msg.isResult = false := by
  unfold syncCancel
  simp only
  split
  · simp
  · split
    · simp
    · split
      · simp
      · split
        · simp
        · split <;> split <;> simp [Msg.isResult]

theorem syncError_no_result (s : DState) (callee : SessKey) (req : Nat) (details : Dict) (err : String)
    (args : List WVal) (kw : Dict) : ∀ x ∈ (syncError s callee req details err args kw).sends, x.msg.isResult = false := by
  unfold syncError
  simp only
  split
  · simp
  · split <;> simp [Msg.isResult]

theorem dispatch_no_result (env : DEnv) (s : DState) (caller : SessKey) (req : Nat) (callee : SessKey) (invReq : Nat)
    (v : Invk) (timeout : Nat) (m : Msg) (hm : m.isResult = false) :
    ∀ x ∈ (dispatch env s caller req callee invReq v timeout m).sends, x.msg.isResult = false := by
  unfold dispatch
  split
  · exact syncError_no_result _ _ _ _ _ _ _
  · simp [hm]

theorem dispatchL_no_result (env : DEnv) (s : DState) (caller : SessKey) (req : Nat) (callee : SessKey) (invReq : Nat)
    (v : Invk) (timeout : Nat) (m : Msg) (hm : m.isResult = false) :
    ∀ x ∈ (dispatchL env s caller req callee invReq v timeout m).sends, x.msg.isResult = false := by
  unfold dispatchL
  split
  · exact syncError_no_result _ _ _ _ _ _ _
  · simp [hm]

theorem syncCall_no_result (env : DEnv) (s : DState) (caller : SessKey) (req : Nat) (opts : Dict) (proc : String)
    (args : List WVal) (kw : Dict) (rnd : Nat) :
    ∀ x ∈ (syncCall env s caller req opts proc args kw rnd).sends, x.msg.isResult = false := by
  rw [syncCall_eq]
  split
  · split
    · simp
    · split
      · simp [progressAbort, abortMsg, Msg.isResult]
      · unfold laterChunk
        exact dispatchL_no_result _ _ _ _ _ _ _ _ _ rfl
  · split
    · simp [errMsg, Msg.isResult]
    · split
      · simp [errMsg, Msg.isResult]
      · split
        · simp [progressAbort, abortMsg, Msg.isResult]
        · split
          · simp
          · rw [firstChunk_eq]
            split
            · simp [errMsg, Msg.isResult]
            · simp [abortMsg, Msg.isResult]
            · exact dispatch_no_result _ _ _ _ _ _ _ _ _ rfl

theorem syncRegister_no_result (s : DState) (callee : SessKey) (req : Nat) (proc m invoke : String)
    (disclose fwd wampURI : Bool) :
    ∀ x ∈ (syncRegister s callee req proc m invoke disclose fwd wampURI).sends, x.msg.isResult = false := by
  unfold syncRegister
  simp only
  split
  · simp [Msg.isResult]
  · split
    · simp [Msg.isResult, errMsg]
    · split
      · simp [Msg.isResult, errMsg]
      · split <;> simp [Msg.isResult, errMsg]

theorem syncUnregister_no_result (s : DState) (callee : SessKey) (req regId : Nat) :
    ∀ x ∈ (syncUnregister s callee req regId).sends, x.msg.isResult = false := by
  unfold syncUnregister
  simp only
  split <;> simp [Msg.isResult, errMsg]

/-- a RESULT sent by `syncYield`: the YIELD is by the owner of a stored invocation, payload passthru is not
    misused, the caller has room, and the RESULT goes to the caller of that call with the YIELD's payload -/
theorem syncYield_result {env : DEnv} {s : DState} (h : DealerInv s) (callee : SessKey) (req : Nat) (opts : Dict)
    (args : List WVal) (kw : Dict) (progress canRetry : Bool) (x : Send)
    (hx : x ∈ (syncYield env s callee req opts args kw progress canRetry).sends) (hr : x.msg.isResult = true) :
    ∃ v ∈ s.d.invs, v.id = ⟨callee, req⟩ ∧
      x = ⟨v.callId.sess, .result v.callId.req (yieldDetails opts progress) args kw⟩ ∧
      (syncYield env s callee req opts args kw progress canRetry).sends = [x] := by
  cases hf : s.d.findInv ⟨callee, req⟩ with
  | none =>
    rw [syncYield_none opts args kw progress canRetry hf] at hx
    split at hx
    · simp only [List.mem_singleton] at hx; subst hx; cases hr
    · cases hx
  | some v =>
    have hv := findInv_some_mem hf
    rw [syncYield_some' h.call opts args kw progress canRetry hf] at hx ⊢
    refine ⟨v, hv.1, hv.2, ?_⟩
    cases h1 : yieldPptCalleeBad env callee opts
    case true =>
      rw [yieldOut_calleeBad args kw progress canRetry v h1] at hx
      simp only [List.mem_cons, List.not_mem_nil, or_false] at hx
      rcases hx with rfl | rfl <;> cases hr
    case false =>
    cases h2 : yieldPptCallerBad env v.callId.sess opts
    case true =>
      rw [yieldOut_callerBad args kw progress canRetry v h1 h2] at hx
      rcases List.mem_append.1 hx with hx | hx
      · simp only [List.mem_singleton] at hx; subst hx; cases hr
      · split at hx
        · cases hx
        · simp only [List.mem_singleton] at hx; subst hx; cases hr
    case false =>
    cases h3 : env.full v.callId.sess
    case false =>
      rw [yieldOut_deliver args kw progress canRetry v h1 h2 h3] at hx ⊢
      simp only [List.mem_singleton] at hx
      exact ⟨hx, by rw [hx]⟩
    case true =>
    cases canRetry
    case true => rw [yieldOut_retry args kw progress v h1 h2 h3] at hx; cases hx
    case false =>
      rw [yieldOut_giveup' h args kw progress hv.1 hv.2 h1 h2 h3] at hx
      split at hx
      · cases hx
      · rcases List.mem_append.1 hx with hx | hx
        · split at hx
          · simp only [List.mem_singleton] at hx; subst hx; cases hr
          · cases hx
        · simp only [List.mem_singleton] at hx; subst hx; cases hr

/-- Every RESULT the dealer sends is the forwarding of one YIELD by the callee that owns the invocation of that
    call: same arguments, details `yieldDetails`; it is the only message of that step. -/
theorem DStep.result_is_yield {s : DState} {o : DOut} (h : DealerInv s) (st : DStep s o) (x : Send)
    (hx : x ∈ o.sends) (hr : x.msg.isResult = true) :
    ∃ env callee req opts args kw progress canRetry,
      o = syncYield env s callee req opts args kw progress canRetry ∧
      ∃ v ∈ s.d.invs, v.id = ⟨callee, req⟩ ∧
        x = ⟨v.callId.sess, .result v.callId.req (yieldDetails opts progress) args kw⟩ ∧ o.sends = [x] := by
  cases st with
  | register => rw [syncRegister_no_result _ _ _ _ _ _ _ _ _ x hx] at hr; cases hr
  | unregister => rw [syncUnregister_no_result _ _ _ _ x hx] at hr; cases hr
  | call => rw [syncCall_no_result _ _ _ _ _ _ _ _ _ x hx] at hr; cases hr
  | cancel => rw [syncCancel_no_result _ _ _ _ _ _ _ x hx] at hr; cases hr
  | yield env callee req opts args kw progress canRetry =>
    obtain ⟨v, hv, hvi, hxe, hs⟩ := syncYield_result h callee req opts args kw progress canRetry x hx hr
    exact ⟨env, callee, req, opts, args, kw, progress, canRetry, rfl, v, hv, hvi, hxe, hs⟩
  | error => rw [syncError_no_result _ _ _ _ _ _ _ x hx] at hr; cases hr
  | removeSession =>
    rw [syncRemoveSession_sends h] at hx
    rcases List.mem_map.1 hx with ⟨v, _, rfl⟩
    cases hr
  | dropTimers => cases hx

/-! ### REGISTERED … UNREGISTERED -/

/-- REGISTER either is refused (state unchanged, one ERROR) or answers REGISTERED(req, id) and makes the sender a
    callee of exactly that registration -/
theorem syncRegister_registered {s : DState} (h : DealerInv s) (callee : SessKey) (req : Nat) (proc m invoke : String)
    (disclose fwd wampURI : Bool) :
    (∃ id, (syncRegister s callee req proc m invoke disclose fwd wampURI).sends = [⟨callee, .registered req id⟩] ∧
      ∀ id' k, calleeRel (syncRegister s callee req proc m invoke disclose fwd wampURI).st.d.regs id' k →
        calleeRel s.d.regs id' k ∨ (k = callee ∧ id' = id)) ∨
    ((syncRegister s callee req proc m invoke disclose fwd wampURI).st = s ∧
      (syncRegister s callee req proc m invoke disclose fwd wampURI).sends =
        [⟨callee, errMsg tREGISTER req ErrProcedureAlreadyExists⟩]) := by
  unfold syncRegister
  simp only
  cases hf : s.d.findProc proc (matchKind m) with
  | none =>
    left
    refine ⟨s.d.nextReg + 1, rfl, ?_⟩
    rintro id' k ⟨r, hr, h1, h2⟩
    rcases List.mem_append.1 hr with hr | hr
    · exact Or.inl ⟨r, hr, h1, h2⟩
    · simp only [List.mem_singleton] at hr; subst hr
      exact Or.inr ⟨by simpa using h2, h1.symm⟩
  | some reg =>
    simp only
    have hm := ((findProc_eq_some h.reg.regs.keys).1 hf).1
    split
    · exact Or.inr ⟨rfl, rfl⟩
    · split
      · exact Or.inr ⟨rfl, rfl⟩
      · split
        · exact Or.inr ⟨rfl, rfl⟩
        · left
          refine ⟨reg.id, rfl, ?_⟩
          intro id' k hx
          have hx' : calleeRel (s.d.setReg { reg with callees := reg.callees ++ [callee] }).regs id' k := hx
          rw [calleeRel_setReg hm] at hx'
          rcases hx' with ⟨_, hx'⟩ | ⟨rfl, hc⟩
          · exact Or.inl hx'
          · rcases List.mem_append.1 hc with hc | hc
            · exact Or.inl ⟨reg, hm, rfl, hc⟩
            · exact Or.inr ⟨by simpa using hc, rfl⟩

/-- an INVOCATION that opens a new invocation carries the id of a registration its recipient is a callee of -/
theorem DStep.new_invocation_registered {s : DState} {o : DOut} (h : DealerInv s) (st : DStep s o) (x : Send)
    (hx : x ∈ o.sends) (r g : Nat) (d : Dict) (a : List WVal) (kw : Dict) (hm : x.msg = .invocation r g d a kw)
    (hnew : ∀ v ∈ s.d.invs, v.id ≠ ⟨x.to, r⟩) : calleeRel s.d.regs g x.to := by
  have hi : x.msg.isInvocation = true := by rw [hm]; rfl
  obtain ⟨env, caller, req, opts, proc, args, kw', rnd, rfl⟩ := st.invocation_is_call h x hx hi
  obtain ⟨_, hform⟩ := syncCall_invocations h caller req opts proc args kw' rnd x hx hi
  cases hform with
  | first reg reg' callee hmm hb hp hr hf =>
    simp only [Msg.invocation.injEq] at hm
    obtain ⟨_, rfl, _⟩ := hm
    exact ⟨reg, matchProcedure_mem hmm, rfl, (pickCallee_mem hp).1⟩
  | later iid v0 hb hfi hf =>
    exfalso
    simp only [Msg.invocation.injEq] at hm
    obtain ⟨rfl, _⟩ := hm
    obtain ⟨_, v, hf', hv, hvi, _, hve⟩ := h.call.byCall?_some hb
    rw [hfi] at hf'; cases hf'
    exact hnew v0 hv (by rw [hvi, hve])

/-- … and an INVOCATION that continues a stored invocation (a later chunk of a progressive call) repeats the
    registration id recorded in it at the first chunk -/
theorem DStep.later_invocation_regId {s : DState} {o : DOut} (h : DealerInv s) (st : DStep s o) (x : Send)
    (hx : x ∈ o.sends) (r g : Nat) (d : Dict) (a : List WVal) (kw : Dict) (hm : x.msg = .invocation r g d a kw)
    {v : Invk} (hv : v ∈ s.d.invs) (hvi : v.id = ⟨x.to, r⟩) : g = v.regId ∧ x.to = v.callee := by
  have hi : x.msg.isInvocation = true := by rw [hm]; rfl
  obtain ⟨env, caller, req, opts, proc, args, kw', rnd, rfl⟩ := st.invocation_is_call h x hx hi
  obtain ⟨_, hform⟩ := syncCall_invocations h caller req opts proc args kw' rnd x hx hi
  cases hform with
  | first reg reg' callee hmm hb hp hr hf =>
    exfalso
    simp only [Msg.invocation.injEq] at hm
    obtain ⟨rfl, _⟩ := hm
    have := (h.aux.gen v hv).2
    rw [hvi] at this
    simp only at this
    omega
  | later iid v0 hb hfi hf =>
    simp only [Msg.invocation.injEq] at hm
    obtain ⟨rfl, rfl, _⟩ := hm
    obtain ⟨_, w, hf', hw, hwi, _, hwe⟩ := h.call.byCall?_some hb
    rw [hfi] at hf'; cases hf'
    have : v = v0 := nodup_map_inj h.call.invIds hv hw (by rw [hvi, hwi, hwe])
    subst this
    exact ⟨rfl, rfl⟩

end Nexus.L2
