/-
  TimerLive at realm level: in every reachable realm state, every pending, not cancelled invocation served by a
  client session that records a router-side timer HAS that timer live in the timer table — unless its callee's
  handler currently sits in the retry loop of a non-progress YIELD for that very invocation (`parked`).

  The invariant `TimerInv` is carried through every internal task, external input and timed event of
  `Realm.step` (the same skeleton as `RealmInv` / `TestamentsAttached`), using the per-`sync*` facts of
  `WpBTimerLive` (`LiveStep`).

  Restriction to client callees (`Excused`: the meta session is exempt).  The model runs the meta session's YIELDs
  as `metaMsg` tasks without looking at `busy metaKey`, so the meta session can own two retry entries at once, and
  `retryDue` drops ALL entries of a callee when one of them fires (see the report: model deviation).  For client
  sessions `recvMsg` guarantees one entry at most (`RetryUnique`).
-/
import Nexus.L2.Proofs.RealmInv
import Nexus.L2.Proofs.DealerRealmRpc
import Nexus.L2.Proofs.WpBTimerLive

namespace Nexus.L2.WpB
open Nexus.L2 Nexus.L2.Realm Nexus.Gen.N

/-- invocation `i` is parked: the handler of its callee sits in the retry loop of a non-progress YIELD for it
    (the YIELD stopped the call's timer; the call ends when the loop ends) -/
def parked (r : Realm) (i : ReqId) : Prop :=
  ∃ x ∈ r.retries, x.callee = i.sess ∧ x.req = i.req ∧ x.progress = false

/-- invocations the liveness invariant does not speak about: those served by the meta session, and the parked ones -/
def Excused (r : Realm) (i : ReqId) : Prop := i.sess = metaKey ∨ parked r i

/-- a client session's handler is in the retry loop at most once -/
def RetryUnique (r : Realm) : Prop :=
  ∀ x ∈ r.retries, ∀ y ∈ r.retries, x.callee = y.callee → x.callee ≠ metaKey → x = y

structure TimerInv (r : Realm) : Prop where
  /-- every stored, not cancelled invocation that records a timer has it live — or is excused -/
  live : TimerLive (Excused r) r.ds
  uniq : RetryUnique r

/-- the dealer moved by steps that let no recorded timer die; the retry list is unchanged -/
def Quiet (r r' : Realm) : Prop := r'.retries = r.retries ∧ LiveStep r.ds r'.ds none

theorem Quiet.refl (r : Realm) : Quiet r r := ⟨rfl, LiveStep.refl _⟩

theorem Quiet.trans {a b c : Realm} (h1 : Quiet a b) (h2 : Quiet b c) : Quiet a c :=
  ⟨h2.1.trans h1.1, h1.2.trans0 h2.2⟩

theorem Quiet.of_eq {r r' : Realm} (hd : r'.ds = r.ds) (hr : r'.retries = r.retries) : Quiet r r' :=
  ⟨hr, LiveStep.of_eq hd⟩

theorem TimerInv.quiet {r r' : Realm} (h : TimerInv r) (q : Quiet r r') : TimerInv r' := by
  refine ⟨?_, ?_⟩
  · intro i hd
    have := h.live.step0 q.2 i hd
    rcases this with hm | ⟨x, hx, h1, h2, h3⟩
    · exact Or.inl hm
    · exact Or.inr ⟨x, q.1 ▸ hx, h1, h2, h3⟩
  · intro x hx y hy
    rw [q.1] at hx hy
    exact h.uniq x hx y hy

/-! ### quiet handlers -/

theorem quiet_trySend (r : Realm) (x : Send) : Quiet r (r.trySend x) := Quiet.of_eq (trySend_ds r x) (dtrySend_retries r x)

theorem quiet_deliver (r : Realm) (ss : List Send) : Quiet r (r.deliver ss) :=
  Quiet.of_eq (deliver_ds ss r) (ddeliver_retries ss r)

theorem quiet_setPanic (r : Realm) (p : Option String) : Quiet r (r.setPanic p) :=
  Quiet.of_eq (setPanic_ds r p) (dsetPanic_retries r p)

theorem quiet_applyD (r : Realm) {o : DOut} (hl : LiveStep r.ds o.st none) : Quiet r (r.applyD o) :=
  ⟨dapplyD_retries r o, by rw [applyD_ds]; exact hl⟩

macro "frame_tac" : tactic => `(tactic| (
  try dsimp only
  repeat' split
  all_goals (first
    | rfl
    | simp only [trySend_ds, deliver_ds, applyD_ds, setPanic_ds, addTasks_ds, dtrySend_retries, ddeliver_retries,
        dapplyD_retries, dsetPanic_retries])))

theorem handlePublish_ds (r : Realm) (s : Session) (req : Nat) (opts : Dict) (topic : String) (args : List WVal)
    (kw : Dict) : (handlePublish r s req opts topic args kw).ds = r.ds := by
  unfold handlePublish
  simp only [freshPub]
  frame_tac

theorem handlePublish_retries (r : Realm) (s : Session) (req : Nat) (opts : Dict) (topic : String) (args : List WVal)
    (kw : Dict) : (handlePublish r s req opts topic args kw).retries = r.retries := by
  unfold handlePublish
  simp only [freshPub]
  frame_tac

theorem handleSubscribe_ds (r : Realm) (s : Session) (req : Nat) (opts : Dict) (topic : String) :
    (handleSubscribe r s req opts topic).ds = r.ds := by
  unfold handleSubscribe
  frame_tac

theorem handleSubscribe_retries (r : Realm) (s : Session) (req : Nat) (opts : Dict) (topic : String) :
    (handleSubscribe r s req opts topic).retries = r.retries := by
  unfold handleSubscribe
  frame_tac

theorem handleUnsubscribe_ds (r : Realm) (s : Session) (req sub : Nat) : (handleUnsubscribe r s req sub).ds = r.ds := by
  unfold handleUnsubscribe
  frame_tac

theorem handleUnsubscribe_retries (r : Realm) (s : Session) (req sub : Nat) :
    (handleUnsubscribe r s req sub).retries = r.retries := by
  unfold handleUnsubscribe
  frame_tac

theorem quiet_handleRegister {r : Realm} (hi : DealerInv r.ds) (s : Session) (req : Nat) (opts : Dict) (proc : String) :
    Quiet r (handleRegister r s req opts proc) := by
  unfold handleRegister
  simp only
  split
  · exact quiet_trySend _ _
  · split
    · exact quiet_trySend _ _
    · split
      · exact quiet_trySend _ _
      · split
        · exact quiet_trySend _ _
        · exact quiet_applyD r (syncRegister_liveStep hi _ _ _ _ _ _ _ _)

theorem quiet_handleCancel {r : Realm} (hi : DealerInv r.ds) (s : Session) (req : Nat) (opts : Dict) :
    Quiet r (handleCancel r s req opts) := by
  unfold handleCancel
  extract_lets mode0 mode
  split
  · exact quiet_applyD r (syncCancel_liveStep hi _ _ _ _ _)
  · exact quiet_trySend _ _

theorem quiet_authzGate (r : Realm) (s : Session) (m : Msg) : Quiet r (authzGate r s m).2 := by
  rw [authzGate_eq_gateG]
  unfold gateG
  split
  · exact Quiet.refl r
  · split
    · exact Quiet.refl r
    · split
      · exact Quiet.refl r
      · dsimp only
        split
        · exact Quiet.refl r
        · exact quiet_trySend _ _

theorem quiet_tasks (r : Realm) (ts : List Task) (en : List SessKey) :
    Quiet r { r with tasks := ts, ending := en } := Quiet.of_eq rfl rfl

/-! ### YIELD: the one handler that parks -/

theorem handleYield_tinv {r : Realm} (hi : RealmInv r) (h : TimerInv r) (s : Session)
    (hnb : s.key ≠ metaKey → ∀ x ∈ r.retries, x.callee ≠ s.key) (req : Nat) (opts : Dict) (args : List WVal) (kw : Dict) :
    TimerInv (handleYield r s req opts args kw) := by
  have hstep := syncYield_liveStep (env := r.denv) hi.dinv s.key req opts args kw (opts.optFlag OptProgress) true
  unfold handleYield
  extract_lets progress o r1
  have hr1 : r1.retries = r.retries := dapplyD_retries r o
  have hd1 : r1.ds = o.st := applyD_ds r o
  split
  · rename_i hag
    refine ⟨?_, ?_⟩
    · intro i hd
      have hd' : DeadInv o.st i := hd1 ▸ hd
      rcases hstep i hd' with hold | ⟨_, hp, rfl⟩
      · rcases h.live i hold with hm | ⟨x, hx, h1, h2, h3⟩
        · exact Or.inl hm
        · exact Or.inr ⟨x, List.mem_append_left _ (hr1 ▸ hx), h1, h2, h3⟩
      · exact Or.inr ⟨_, List.mem_append_right _ (List.mem_singleton.2 rfl), rfl, rfl, hp⟩
    · intro x hx y hy hxy hne
      have hx' : x ∈ r.retries ++ [_] := hr1 ▸ hx
      have hy' : y ∈ r.retries ++ [_] := hr1 ▸ hy
      rcases List.mem_append.1 hx' with hx0 | hx0 <;> rcases List.mem_append.1 hy' with hy0 | hy0
      · exact h.uniq x hx0 y hy0 hxy hne
      · exfalso
        rw [List.mem_singleton.1 hy0] at hxy
        exact hnb (fun e => hne (hxy.trans e)) x hx0 hxy
      · exfalso
        rw [List.mem_singleton.1 hx0] at hxy hne
        exact hnb hne y hy0 hxy.symm
      · rw [List.mem_singleton.1 hx0, List.mem_singleton.1 hy0]
  · rename_i hag
    refine ⟨?_, fun x hx y hy => h.uniq x (hr1 ▸ hx) y (hr1 ▸ hy)⟩
    intro i hd
    have hd' : DeadInv o.st i := hd1 ▸ hd
    rcases hstep i hd' with hold | ⟨ha, _, _⟩
    · rcases h.live i hold with hm | ⟨x, hx, h1, h2, h3⟩
      · exact Or.inl hm
      · exact Or.inr ⟨x, hr1 ▸ hx, h1, h2, h3⟩
    · exact absurd ha hag

/-! ### the message switch -/

theorem dispatch_tinv {r : Realm} (hi : RealmInv r) (h : TimerInv r) (s : Session)
    (hnb : s.key ≠ metaKey → ∀ x ∈ r.retries, x.callee ≠ s.key) (m : Msg) : TimerInv (Realm.dispatch r s m) := by
  cases m
  case publish => exact h.quiet (Quiet.of_eq (handlePublish_ds ..) (handlePublish_retries ..))
  case yield => exact handleYield_tinv hi h s hnb ..
  case call => exact h.quiet (quiet_applyD r (syncCall_liveStep hi.dinv _ _ _ _ _ _ _))
  case cancel => exact h.quiet (quiet_handleCancel hi.dinv ..)
  case subscribe => exact h.quiet (Quiet.of_eq (handleSubscribe_ds ..) (handleSubscribe_retries ..))
  case register => exact h.quiet (quiet_handleRegister hi.dinv ..)
  case unsubscribe => exact h.quiet (Quiet.of_eq (handleUnsubscribe_ds ..) (handleUnsubscribe_retries ..))
  case unregister => exact h.quiet (quiet_applyD r (syncUnregister_liveStep hi.dinv _ _ _))
  case error typ req details err args kw =>
    show TimerInv (if typ != tINVOCATION then _ else handleError r s req details err args kw)
    split
    · exact h.quiet (Quiet.of_eq rfl rfl)
    · exact h.quiet (quiet_applyD r (syncError_liveStep hi.dinv _ _ _ _ _ _))
  case goodbye =>
    exact h.quiet ((quiet_trySend r _).trans (Quiet.of_eq rfl rfl))
  all_goals exact h.quiet (Quiet.of_eq rfl rfl)

theorem handleMsg_tinv {r : Realm} (hi : RealmInv r) (h : TimerInv r) (s : Session) (m : Msg)
    (hs : r.isClient s.key ∨ (s.key = metaKey ∧ m.isMetaAnswer = true))
    (hnb : s.key ≠ metaKey → ∀ x ∈ r.retries, x.callee ≠ s.key) : TimerInv (handleMsg r s m) := by
  rw [handleMsg_eq]
  have ha : r.att s.key := hs.elim Or.inr (fun h => Or.inl h.1)
  have hg := good_authzGate hi s ha m
  have hq := quiet_authzGate r s m
  split
  · exact dispatch_tinv hg.1 (h.quiet hq) s (by rw [hq.1]; exact hnb) m
  · exact h.quiet hq

theorem recvMsg_tinv {r : Realm} (hi : RealmInv r) (h : TimerInv r) (k : SessKey) (m : Msg) :
    TimerInv (r.recvMsg k m) := by
  rw [recvMsg_eq]
  split
  · exact h
  · rename_i s hs
    split
    · exact h
    · split
      · split
        · exact h.quiet (Quiet.of_eq rfl rfl)
        · exact h
      · rename_i hb
        have hk : s.key = k := (find?_key hs).2
        exact handleMsg_tinv hi h s m (Or.inl (hk ▸ isClient_of_find hs)) (fun _ => hk ▸ not_busy hb)

/-! ### session end -/

theorem quiet_leaveRemove {r : Realm} (hi : DealerInv r.ds) (k : SessKey) (quiet : Bool) :
    Quiet r (leaveRemove r k quiet) := by
  have hl := syncRemoveSession_liveStep (env := r.denv) hi k
  unfold leaveRemove
  split
  · extract_lets o
    split
    rename_i b _ _ _
    have h1 : Quiet r ({ r with ds := o.st, broker := b } : Realm) := ⟨rfl, hl⟩
    exact h1.trans (quiet_setPanic _ _)
  · extract_lets o ra
    have h1 : Quiet r ra := quiet_applyD r hl
    split
    rename_i b sends n _
    have h2 : Quiet ra ({ ra with broker := b, pubCount := ra.pubCount + n } : Realm) := Quiet.of_eq rfl rfl
    exact h1.trans (h2.trans (quiet_deliver _ _))

theorem quiet_leave {r : Realm} (hi : RealmInv r) (k : SessKey) (mode : LeaveMode) : Quiet r (r.leave k mode) := by
  cases hf : r.clients.find? (fun c => c.key == k) with
  | none => rw [leave_none mode hf]; exact Quiet.refl r
  | some s =>
    rw [leave_some mode hf]
    have hcl : r.isClient k := isClient_of_find hf
    obtain ⟨g1, q1⟩ := good_leaveSend hi hcl mode
    have d1 : (leaveSend r k mode).ds = r.ds := dleaveSend_ds r k mode
    obtain ⟨g2, q2⟩ := good_takeTestaments g1.1 k
    have d2 : ((leaveSend r k mode).takeTestaments k).2.ds = (leaveSend r k mode).ds := dtakeTestaments_ds _ k
    have a : Quiet r ((leaveSend r k mode).takeTestaments k).2 := Quiet.of_eq (d2.trans d1) (q2.trans q1)
    have b := quiet_leaveRemove g2.1.dinv k mode.isShutdown
    refine (a.trans b).trans ?_
    refine Quiet.trans (b := leaveAnnounce _ s _ _) ?_ (Quiet.of_eq rfl rfl)
    unfold leaveAnnounce
    split
    · exact Quiet.refl _
    · exact Quiet.of_eq rfl rfl

/-! ### tasks and external inputs -/

theorem metaEffect_quiet {r r' : Realm} (e : MetaEffect r r') : Quiet r r' := by
  cases e with
  | same => exact Quiet.refl r
  | kill sel g ka => unfold killWhere; exact Quiet.of_eq rfl rfl
  | testaments t _ => exact Quiet.of_eq rfl rfl
  | modify k d => exact Quiet.of_eq rfl rfl

theorem runTask_tinv {r : Realm} (hi : RealmInv r) (h : TimerInv r) (t : Task) (ht : TaskOk t) :
    TimerInv (r.runTask t) := by
  cases t with
  | metaPub p => exact h.quiet (Quiet.of_eq (handlePublish_ds ..) (handlePublish_retries ..))
  | metaInvoke req reg details args kw =>
    rw [runTask_metaInvoke]
    split
    · exact h.quiet (Quiet.of_eq rfl rfl)
    · rename_i proc _
      exact h.quiet ((metaEffect_quiet (metaProc_effect r proc req details args kw)).trans (Quiet.of_eq rfl rfl))
  | metaMsg m =>
    exact handleMsg_tinv hi h r.metaS m (Or.inr ⟨hi.metaKey, ht⟩) (fun hne => absurd hi.metaKey hne)
  | leave k mode =>
    rw [runTask_leave]
    split
    · exact h.quiet (Quiet.of_eq rfl rfl)
    · exact h.quiet (quiet_leave hi k mode)
  | inMsg k m => exact recvMsg_tinv hi h k m

theorem stepOp_tinv {r : Realm} (hi : RealmInv r) (h : TimerInv r) (op : Op) : TimerInv (r.stepOp op) := by
  cases op with
  | join k isLocal details roles cap =>
    rw [stepOp_join]
    split
    · exact h
    · exact h.quiet (Quiet.of_eq rfl rfl)
  | msg k m => exact recvMsg_tinv hi h k m
  | buffer k => rw [stepOp_buffer]; exact h.quiet (Quiet.of_eq rfl rfl)
  | drop k =>
    rw [stepOp_drop]
    split
    · exact h
    split
    · exact h
    · exact h.quiet (Quiet.of_eq rfl rfl)
  | stall k => rw [stepOp_stall]; exact h.quiet (Quiet.of_eq rfl rfl)
  | resume k => rw [stepOp_resume]; exact h.quiet (Quiet.of_eq rfl rfl)
  | tick ms => exact h
  | rnd n => exact h.quiet (Quiet.of_eq rfl rfl)

theorem drain_tinv : ∀ (fuel : Nat) {r : Realm}, RealmInv r → TimerInv r → TimerInv (drain fuel r)
  | 0, r, _, h => by
    rw [drain_zero]
    split
    · exact h
    · exact h.quiet (quiet_setPanic _ _)
  | fuel + 1, r, hi, h => by
    cases ht : r.tasks with
    | nil => rw [drain_succ_nil _ _ ht]; exact h
    | cons t ts =>
      rw [drain_succ_cons _ _ t ts ht]
      have hi0 : RealmInv ({ r with tasks := ts } : Realm) :=
        hi.of_parts rfl hi.binv hi.dinv hi.bmem hi.dref hi.callers hi.retr
          (fun t' ht' => hi.tasks t' (by rw [ht]; exact List.mem_cons_of_mem _ ht')) hi.inb rfl
      have hto : TaskOk t := hi.tasks t (by rw [ht]; exact List.mem_cons_self ..)
      have h0 : TimerInv ({ r with tasks := ts } : Realm) := h.quiet (Quiet.of_eq rfl rfl)
      exact drain_tinv fuel (runTask_inv hi0 t hto).1 (runTask_tinv hi0 h0 t hto)

/-! ### timed events -/

/-- One turn of the retry loop.  If the turn ends the loop (`again = false`) of a non-progress YIELD, the invocation it
    was parked for is gone (`syncYield_final_gone`); otherwise it stays parked under the renewed entry. -/
theorem retryDue_tinv {r : Realm} (hi : RealmInv r) (h : TimerInv r) {x : Retry} (hx : x ∈ r.retries) :
    TimerInv (r.retryDue x) := by
  have hstep : LiveStep r.ds (retryOut r x).st _ :=
    syncYield_liveStep (env := r.denv) hi.dinv x.callee x.req x.opts x.args x.kw x.progress
      (decide (r.now - x.start < sendResultDeadlineMs))
  have hret := retryDue_retries r x
  have hds := retryDue_ds r x
  refine ⟨?_, ?_⟩
  · intro i hd
    rw [hds] at hd
    -- membership in the new retry list
    have hkeep : ∀ y ∈ r.retries, y.callee ≠ x.callee → y ∈ (r.retryDue x).retries := by
      intro y hy hne
      rw [hret]
      have : y ∈ r.retries.filter (fun y => y.callee != x.callee) := List.mem_filter.2 ⟨hy, by simpa using hne⟩
      split
      · exact List.mem_append_left _ this
      · exact this
    have hrenew : (retryOut r x).again = true →
        ({ x with next := r.now + x.delay * 2, delay := x.delay * 2 } : Retry) ∈ (r.retryDue x).retries := by
      intro ha
      rw [hret, if_pos ha]
      exact List.mem_append_right _ (List.mem_singleton.2 rfl)
    rcases hstep i hd with hold | ⟨ha, hp, rfl⟩
    · rcases h.live i hold with hm | ⟨y, hy, h1, h2, h3⟩
      · exact Or.inl hm
      · by_cases hyx : y.callee = x.callee
        · by_cases hmeta : y.callee = metaKey
          · exact Or.inl (h1 ▸ hmeta)
          · have hyx' : y = x := h.uniq y hy x hx hyx hmeta
            subst hyx'
            cases hag : (retryOut r y).again
            · -- the loop ended: the invocation is gone
              exfalso
              obtain ⟨w, hw, hid, _⟩ := hd
              have hgone : ∀ w ∈ (retryOut r y).st.d.invs, w.id ≠ ⟨y.callee, y.req⟩ := by
                have := syncYield_final_gone (env := r.denv) hi.dinv y.callee y.req y.opts y.args y.kw
                  (decide (r.now - y.start < sendResultDeadlineMs))
                unfold retryOut at hag ⊢
                rw [h3] at hag ⊢
                exact this hag
              apply hgone w hw
              rw [hid]
              cases i
              simp only at h1 h2
              rw [h1, h2]
            · exact Or.inr ⟨_, hrenew hag, h1, h2, h3⟩
        · exact Or.inr ⟨y, hkeep y hy hyx, h1, h2, h3⟩
    · exact Or.inr ⟨_, hrenew ha, rfl, rfl, hp⟩
  · intro a ha b hb hab hne
    rw [hret] at ha hb
    have hfil : ∀ z ∈ r.retries.filter (fun y => y.callee != x.callee), z ∈ r.retries ∧ z.callee ≠ x.callee := by
      intro z hz
      have := List.mem_filter.1 hz
      exact ⟨this.1, by simpa using this.2⟩
    split at ha
    · rename_i hag
      rw [if_pos hag] at hb
      rcases List.mem_append.1 ha with ha | ha <;> rcases List.mem_append.1 hb with hb | hb
      · exact h.uniq a (hfil a ha).1 b (hfil b hb).1 hab hne
      · exfalso
        rw [List.mem_singleton.1 hb] at hab
        exact (hfil a ha).2 hab
      · exfalso
        rw [List.mem_singleton.1 ha] at hab
        exact (hfil b hb).2 hab.symm
      · rw [List.mem_singleton.1 ha, List.mem_singleton.1 hb]
    · rename_i hag
      rw [if_neg hag] at hb
      exact h.uniq a (hfil a ha).1 b (hfil b hb).1 hab hne

theorem timerDue_tinv {r : Realm} (hi : RealmInv r) (h : TimerInv r) {t : Timer} (ht : t ∈ r.ds.timers)
    (hc : t.canceled = false) : TimerInv (r.timerDue t) := by
  have hl := timerFire_liveStep (env := r.denv) hi.dinv ht hc ErrTimeout [.str "<text>"]
  refine h.quiet ⟨?_, ?_⟩
  · unfold timerDue
    simp only [dapplyD_retries]
  · rw [timerDue_ds]
    exact hl

theorem quiet_now (r : Realm) (n : Nat) : Quiet r { r with now := n } := Quiet.of_eq rfl rfl

theorem advance_tinv : ∀ (fuel : Nat) {r : Realm} (target : Nat), RealmInv r → FuelOnly r.panic →
    TimerInv r → TimerInv (advance fuel r target)
  | 0, r, target, _, _, h => by
    unfold advance
    exact h.quiet ((quiet_now r target).trans (quiet_setPanic _ _))
  | fuel + 1, r, target, hi, hp, h => by
    unfold advance
    split
    · exact h.quiet (quiet_now r target)
    · rename_i d hd
      extract_lets r1 r2
      have hi1 : RealmInv r1 :=
        hi.of_parts rfl hi.binv hi.dinv hi.bmem hi.dref hi.callers hi.retr hi.tasks hi.inb rfl
      have h1 : TimerInv r1 := h.quiet (quiet_now r _)
      have h2 : (RealmInv r2 ∧ r2.panic = r.panic) ∧ TimerInv r2 := by
        cases d with
        | timer t =>
          obtain ⟨g1, g2, _⟩ := nextDue_timer hd
          exact ⟨timerDue_rinv hi1 t, timerDue_tinv hi1 h1 g1 g2⟩
        | retry x =>
          exact ⟨retryDue_rinv hi1 x (hi.retr x (nextDue_retry hd)), retryDue_tinv hi1 h1 (nextDue_retry hd)⟩
      obtain ⟨h3, h4⟩ := drain_inv taskFuel h2.1.1 (by rw [h2.1.2]; exact hp)
      exact advance_tinv fuel target h3 h4 (drain_tinv taskFuel h2.1.1 h2.2)

theorem flush_tinv {r : Realm} (h : TimerInv r) : TimerInv r.flush.2 := by
  unfold flush
  extract_lets reading out seenClosed keep keepEmpty
  exact h.quiet (Quiet.of_eq rfl rfl)

/-- one external input, run to quiescence -/
theorem step_tinv {r : Realm} (hi : RealmInv r) (hp : FuelOnly r.panic) (h : TimerInv r) (op : Op) :
    TimerInv (r.step op).2 := by
  by_cases ht : ∃ ms, op = .tick ms
  · obtain ⟨ms, rfl⟩ := ht
    rw [step_tick]
    exact flush_tinv (advance_tinv 10000 (r.now + ms) hi hp h)
  · rw [step_of_not_tick r op (fun ms e => ht ⟨ms, e⟩)]
    exact flush_tinv (drain_tinv taskFuel (stepOp_inv hi op).1 (stepOp_tinv hi h op))

/-! ### the initial state -/

theorem registerMeta_invs : ∀ (ps : List String) (r : Realm), DealerInv r.ds →
    (registerMeta r ps).ds.d.invs = r.ds.d.invs
  | [], _, _ => rfl
  | p :: ps, r, h => by
    unfold registerMeta
    have h1 := syncRegister_inv h metaKey 0 p "" "" true false true (by decide)
    rw [registerMeta_invs ps _ h1]
    exact (syncRegister_frame h ..).2.1

theorem create_tinv {cfg : Config} {r : Realm} (h : Realm.create cfg = some r) : TimerInv r := by
  have hret := (create_rinv h).2.2.2.2.2.2.1
  have hinv : r.ds.d.invs = [] := by
    unfold Realm.create at h
    split at h
    · cases h
    · split at h
      · cases h
      · simp only [Option.some.injEq] at h
        subst h
        rw [registerMeta_invs _ _ (DealerInv.init _ _)]
  refine ⟨?_, ?_⟩
  · rintro i ⟨w, hw, _⟩
    rw [hinv] at hw; cases hw
  · intro x hx
    rw [hret] at hx; cases hx

/-- `TimerInv` holds in every reachable realm state. -/
theorem Reachable.tinv {cfg : Config} {r : Realm} (h : Realm.Reachable cfg r) : TimerInv r := by
  induction h with
  | init h => exact create_tinv h
  | step op hr ih => exact step_tinv hr.inv.1 hr.inv.2 ih op

/-! ### the relational tick (`Realm.Adv`) -/

theorem fireDue_inv {r : Realm} {target : Nat} {d : Realm.Due} (hi : RealmInv r) (hp : FuelOnly r.panic) (h : TimerInv r)
    (hd : nextDue r target = some d) :
    RealmInv (fireDue r d) ∧ FuelOnly (fireDue r d).panic ∧ TimerInv (fireDue r d) := by
  have key : ∀ (r1 r2 : Realm), RealmInv r2 → r2.panic = r.panic → TimerInv r2 →
      RealmInv (drain taskFuel r2) ∧ FuelOnly (drain taskFuel r2).panic ∧ TimerInv (drain taskFuel r2) := by
    intro _ r2 a b c
    obtain ⟨h3, h4⟩ := drain_inv taskFuel a (by rw [b]; exact hp)
    exact ⟨h3, h4, drain_tinv taskFuel a c⟩
  cases d with
  | timer t =>
    have hi1 : RealmInv ({ r with now := max r.now t.deadline } : Realm) :=
      hi.of_parts rfl hi.binv hi.dinv hi.bmem hi.dref hi.callers hi.retr hi.tasks hi.inb rfl
    have h1 : TimerInv ({ r with now := max r.now t.deadline } : Realm) := h.quiet (quiet_now r _)
    obtain ⟨g1, g2, _⟩ := nextDue_timer hd
    have a := timerDue_rinv hi1 t
    exact key r _ a.1 a.2 (timerDue_tinv hi1 h1 g1 g2)
  | retry x =>
    have hi1 : RealmInv ({ r with now := max r.now x.next } : Realm) :=
      hi.of_parts rfl hi.binv hi.dinv hi.bmem hi.dref hi.callers hi.retr hi.tasks hi.inb rfl
    have h1 : TimerInv ({ r with now := max r.now x.next } : Realm) := h.quiet (quiet_now r _)
    have a := retryDue_rinv hi1 x (hi.retr x (nextDue_retry hd))
    exact key r _ a.1 a.2 (retryDue_tinv hi1 h1 (nextDue_retry hd))

/-- the invariants hold in every state of a tick in which a timed event fires, and at its end -/
theorem Adv.inv {target : Nat} {r r' : Realm} {evs : List (Realm × Realm.Due)} (h : Adv target r evs r') :
    RealmInv r → FuelOnly r.panic → TimerInv r →
      (∀ p ∈ evs, RealmInv p.1 ∧ TimerInv p.1) ∧ RealmInv r' ∧ FuelOnly r'.panic ∧ TimerInv r' := by
  induction h with
  | done _ =>
    intro hi hp ht
    exact ⟨fun _ hp' => (by cases hp'),
      hi.of_parts rfl hi.binv hi.dinv hi.bmem hi.dref hi.callers hi.retr hi.tasks hi.inb rfl, hp,
      ht.quiet (quiet_now _ _)⟩
  | fire hn _ ih =>
    intro hi hp ht
    obtain ⟨f1, f2, f3⟩ := fireDue_inv hi hp ht hn
    obtain ⟨g1, g2⟩ := ih f1 f2 f3
    refine ⟨?_, g2⟩
    intro p hp'
    rcases List.mem_cons.1 hp' with rfl | hp'
    · exact ⟨hi, ht⟩
    · exact g1 p hp'

end Nexus.L2.WpB
