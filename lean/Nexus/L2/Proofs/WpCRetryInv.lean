/-
  WP-C / C07 (yield retry loop), part 2: the invariant of the retry table.

  `RetryInv r` holds in every state `drain`/`advance` pass through (between atomic actions):
  every entry is in a phase `1 ≤ n ≤ 16`, is not overdue (`now ≤ next`), started in the past; two
  entries for the same callee exist only for the meta session.  `Strict r` (`now < next`) holds at
  quiescence.  Both are preserved by `stepOp`, `runTask`, `drain`, `timerDue`; `retryDue` preserves
  `RetryInv` when fired on time, `advance` re-establishes `Strict` unless its fuel marker is set.
-/
import Nexus.L2.Proofs.WpCRetryFrame

namespace Nexus.L2.WpC
open Nexus.L2 Nexus.L2.Realm Gen.N

/-- a retry entry at clock `now`: in one of the 16 phases, not overdue, started in the past -/
def EntryOk (now : Nat) (x : Retry) : Prop :=
  (∃ n, 1 ≤ n ∧ n ≤ 16 ∧ InPhase x n) ∧ now ≤ x.next ∧ x.start ≤ now

/-- two entries have different callees, unless it is the meta session -/
def Apart (a b : Retry) : Prop := a.callee = b.callee → a.callee = metaKey

def RetryInv (r : Realm) : Prop :=
  (∀ x ∈ r.retries, EntryOk r.now x) ∧ r.retries.Pairwise Apart

/-- no entry is due -/
def Strict (r : Realm) : Prop := ∀ x ∈ r.retries, r.now < x.next

theorem pow_split {n : Nat} (h : 1 ≤ n) : 2 ^ n = 2 * 2 ^ (n - 1) := by
  have : n = (n - 1) + 1 := by omega
  conv => lhs; rw [this]
  rw [Nat.pow_succ]; omega

/-- the arithmetic of a phase: the next turn is `2·delay − 1` ms after the start, at most 65535 ms -/
theorem phase_arith {x : Retry} {n : Nat} (hn : n ≤ 16) (hp : InPhase x n) :
    x.next + 1 = x.start + 2 * x.delay ∧ x.next ≤ x.start + 65535 := by
  obtain ⟨h1, h2, h3⟩ := hp
  have e := pow_split h1
  have hle : 2 ^ n ≤ 2 ^ 16 := Nat.pow_le_pow_right (by omega) hn
  have h16 : (2 : Nat) ^ 16 = 65536 := by decide
  rw [h3]
  omega

theorem EntryOk.arith {now : Nat} {x : Retry} (h : EntryOk now x) :
    x.next + 1 = x.start + 2 * x.delay ∧ x.next ≤ x.start + 65535 := by
  obtain ⟨⟨n, _, hn, hp⟩, _, _⟩ := h
  exact phase_arith hn hp

theorem entryOf_ok (r : Realm) (k : SessKey) (req : Nat) (opts : Dict) (args : List WVal) (kw : Dict) :
    EntryOk r.now (entryOf r k req opts args kw) ∧ r.now < (entryOf r k req opts args kw).next := by
  refine ⟨⟨⟨1, Nat.le_refl _, by omega, Nat.le_refl _, ?_, ?_⟩, ?_, Nat.le_refl _⟩, ?_⟩ <;>
    simp [entryOf, yieldRetryDelayMs]

theorem append_ne_self {α} (l : List α) (a : α) : l ++ [a] ≠ l := by
  intro h
  have := congrArg List.length h
  simp at this

/-! ### entering the loop keeps the invariant -/

theorem RetryInv.of_rn {r r' : Realm} (h : RetryInv r) (e : RN r r') : RetryInv r' := by
  unfold RetryInv
  rw [e.1, e.2]; exact h

theorem Strict.of_rn {r r' : Realm} (h : Strict r) (e : RN r r') : Strict r' := by
  unfold Strict
  rw [e.1, e.2]; exact h

theorem RetryInv.enter {k : SessKey} {r r' : Realm} (h : RetryInv r) (e : Enter k r r')
    (hk : r'.retries ≠ r.retries → k = metaKey ∨ r.busy k = false) : RetryInv r' := by
  obtain ⟨hnow, hr | ⟨req, opts, args, kw, _, hr⟩⟩ := e
  · exact h.of_rn ⟨hr, hnow⟩
  · have hne : r'.retries ≠ r.retries := by rw [hr]; exact append_ne_self _ _
    unfold RetryInv
    rw [hr, hnow]
    refine ⟨?_, List.pairwise_append.mpr ⟨h.2, List.pairwise_singleton _ _, ?_⟩⟩
    · intro x hx
      rcases List.mem_append.mp hx with hx | hx
      · exact h.1 x hx
      · rw [List.mem_singleton.mp hx]; exact (entryOf_ok r k req opts args kw).1
    · intro a ha b hb
      rw [List.mem_singleton.mp hb]
      intro hab
      have hab' : a.callee = k := hab
      rcases hk hne with hm | hb
      · exact hab'.trans hm
      · exact absurd hab' (not_busy (by simp [hb]) a ha)

theorem Strict.enter {k : SessKey} {r r' : Realm} (h : Strict r) (e : Enter k r r') : Strict r' := by
  obtain ⟨hnow, hr | ⟨req, opts, args, kw, _, hr⟩⟩ := e
  · exact h.of_rn ⟨hr, hnow⟩
  · unfold Strict
    rw [hr, hnow]
    intro x hx
    rcases List.mem_append.mp hx with hx | hx
    · exact h x hx
    · rw [List.mem_singleton.mp hx]; exact (entryOf_ok r k req opts args kw).2

theorem RetryInv.runTask {r : Realm} (hm : r.metaS.key = metaKey) (h : RetryInv r) (t : Task) :
    RetryInv (r.runTask t) := by
  obtain ⟨h1, h2⟩ := runTask_enter r t
  refine h.enter h1 (fun hne => ?_)
  rcases h2 hne with ⟨m, rfl⟩ | ⟨k, m, rfl, hb⟩
  · exact Or.inl hm
  · exact Or.inr hb

theorem Strict.runTask {r : Realm} (h : Strict r) (t : Task) : Strict (r.runTask t) :=
  h.enter (runTask_enter r t).1

theorem RetryInv.stepOp {r : Realm} (h : RetryInv r) (op : Op) : RetryInv (r.stepOp op) := by
  obtain ⟨k, h1, h2⟩ := stepOp_enter r op
  exact h.enter h1 (fun hne => Or.inr (h2 hne))

theorem Strict.stepOp {r : Realm} (h : Strict r) (op : Op) : Strict (r.stepOp op) := by
  obtain ⟨k, h1, _⟩ := stepOp_enter r op
  exact h.enter h1

/-! ### `drain` -/

theorem setPanic_some_panic (r : Realm) (m : String) : (r.setPanic (some m)).panic ≠ none := by
  unfold setPanic
  split
  · intro h; cases h
  · rename_i h1
    intro h
    cases hp : r.panic with
    | none => exact h1 m hp rfl
    | some x => rw [hp] at h; cases h

/-- `drain` keeps `RealmInv` (no assumption on the panic flag) and the panic flag is sticky through it -/
theorem retry_drain_rinv : ∀ (fuel : Nat) {r : Realm}, RealmInv r →
    RealmInv (drain fuel r) ∧ ((drain fuel r).panic = none → r.panic = none)
  | 0, r, hi => by
    rw [drain_zero]
    split
    · exact ⟨hi, id⟩
    · exact ⟨hi.setPanic _, fun hp => absurd hp (setPanic_some_panic _ _)⟩
  | fuel + 1, r, hi => by
    cases ht : r.tasks with
    | nil => rw [drain_succ_nil _ _ ht]; exact ⟨hi, id⟩
    | cons t ts =>
      rw [drain_succ_cons _ _ t ts ht]
      have hi0 : RealmInv ({ r with tasks := ts } : Realm) :=
        hi.of_parts rfl hi.binv hi.dinv hi.bmem hi.dref hi.callers hi.retr
          (fun t' ht' => hi.tasks t' (by rw [ht]; exact List.mem_cons_of_mem _ ht')) hi.inb rfl
      have hto : TaskOk t := hi.tasks t (by rw [ht]; exact List.mem_cons_self ..)
      obtain ⟨g1, g2⟩ := runTask_inv hi0 t hto
      obtain ⟨d1, d2⟩ := retry_drain_rinv fuel g1
      refine ⟨d1, fun hp => ?_⟩
      have := d2 hp
      rw [g2] at this
      exact this

theorem drain_retry : ∀ (fuel : Nat) {r : Realm}, RealmInv r → RetryInv r →
    RetryInv (drain fuel r) ∧ (drain fuel r).now = r.now ∧ (Strict r → Strict (drain fuel r))
  | 0, r, _, h => by
    rw [drain_zero]
    split
    · exact ⟨h, rfl, id⟩
    · exact ⟨h.of_rn (rn_setPanic _ _), (rn_setPanic _ _).2, fun hs => hs.of_rn (rn_setPanic _ _)⟩
  | fuel + 1, r, hi, h => by
    cases ht : r.tasks with
    | nil => rw [drain_succ_nil _ _ ht]; exact ⟨h, rfl, id⟩
    | cons t ts =>
      rw [drain_succ_cons _ _ t ts ht]
      have hi0 : RealmInv ({ r with tasks := ts } : Realm) :=
        hi.of_parts rfl hi.binv hi.dinv hi.bmem hi.dref hi.callers hi.retr
          (fun t' ht' => hi.tasks t' (by rw [ht]; exact List.mem_cons_of_mem _ ht')) hi.inb rfl
      have hto : TaskOk t := hi.tasks t (by rw [ht]; exact List.mem_cons_self ..)
      obtain ⟨g1, _⟩ := runTask_inv hi0 t hto
      have h0 : RetryInv ({ r with tasks := ts } : Realm) := h
      have h1 := RetryInv.runTask (r := { r with tasks := ts }) hi.metaKey h0 t
      obtain ⟨d1, d2, d3⟩ := drain_retry fuel g1 h1
      exact ⟨d1, d2.trans (runTask_enter _ t).1.1,
        fun hs => d3 (Strict.runTask (r := { r with tasks := ts }) hs t)⟩

/-! ### timed events -/

/-- the clock jumps forward to a time no entry has passed -/
theorem RetryInv.jump {r : Realm} (h : RetryInv r) {t : Nat} (hle : r.now ≤ t) (hmin : ∀ x ∈ r.retries, t ≤ x.next) :
    RetryInv ({ r with now := t } : Realm) := by
  refine ⟨fun x hx => ?_, h.2⟩
  obtain ⟨hp, _, hs⟩ := h.1 x hx
  exact ⟨hp, hmin x hx, Nat.le_trans hs hle⟩

theorem retryDue_now (r : Realm) (x : Retry) : (r.retryDue x).now = r.now := by
  rw [retryDue_eq]
  split <;> simp only [dapplyD_now]

/-- one turn of the loop, fired when the entry is due (`now = next`): the entry moves to the next phase (at most
    16, because "again" is answered only while retries are allowed, i.e. up to phase 15) or disappears -/
theorem RetryInv.retryDue {r : Realm} (h : RetryInv r) {x : Retry} (hx : x ∈ r.retries) (hnow : r.now = x.next) :
    RetryInv (r.retryDue x) := by
  unfold RetryInv
  rw [retryDue_now, retryDue_retries]
  have hf : ∀ y ∈ r.retries.filter (fun y => y.callee != x.callee), EntryOk r.now y :=
    fun y hy => h.1 y (List.mem_filter.mp hy).1
  have hpf : (r.retries.filter (fun y => y.callee != x.callee)).Pairwise Apart := h.2.filter _
  split
  · rename_i ha
    obtain ⟨⟨n, hn1, hn16, hp⟩, _, hs⟩ := h.1 x hx
    have h15 : n ≤ 15 := by
      have := retryOut_again_canRetry ha
      rw [phase_canRetry hp hnow] at this
      simpa using this
    refine ⟨?_, List.pairwise_append.mpr ⟨hpf, List.pairwise_singleton _ _, ?_⟩⟩
    · intro y hy
      rcases List.mem_append.mp hy with hy | hy
      · exact hf y hy
      · rw [List.mem_singleton.mp hy]
        refine ⟨⟨n + 1, by omega, by omega, phase_next hp hnow⟩, ?_, hs⟩
        show r.now ≤ r.now + x.delay * 2
        omega
    · intro a ha' b hb
      rw [List.mem_singleton.mp hb]
      intro hab
      have : a.callee ≠ x.callee := by simpa using (List.mem_filter.mp ha').2
      exact absurd hab this
  · exact ⟨hf, hpf⟩

/-- `nextDue` returns an earliest due event: no due retry entry is earlier -/
theorem nextDue_min {r : Realm} {limit : Nat} {d : Due} (h : nextDue r limit = some d) :
    d.time ≤ limit ∧ ∀ y ∈ r.retries, y.next ≤ limit → d.time ≤ y.next := by
  refine ⟨nextDue_time_le h, ?_⟩
  unfold nextDue at h
  obtain ⟨_, _, g3⟩ :=
    (foldl_min_spec ((dueTimers r limit).map Due.timer ++ (dueRetries r limit).map Due.retry) none).2 _ h
  intro y hy hle
  have hm : y ∈ dueRetries r limit := List.mem_filter.mpr ⟨hy, by simpa using hle⟩
  exact g3 (.retry y) (List.mem_append_right _ (List.mem_map_of_mem hm))

theorem advance_now : ∀ (fuel : Nat) (r : Realm) (target : Nat), (advance fuel r target).now = target
  | 0, r, target => by
    unfold advance
    exact (rn_setPanic _ _).2
  | fuel + 1, r, target => by
    unfold advance
    split
    · rfl
    · exact advance_now fuel _ target

theorem retry_advance_succ_none {fuel : Nat} {r : Realm} {target : Nat} (h : nextDue r target = none) :
    advance (fuel + 1) r target = { r with now := target } := by
  simp [advance, h]

theorem retry_advance_succ_some {fuel : Nat} {r : Realm} {target : Nat} {d : Due} (h : nextDue r target = some d) :
    advance (fuel + 1) r target = advance fuel (fireDue r d) target := by
  simp only [advance, h, fireDue]
  cases d <;> rfl

/-- one timed event of `advance` (with the tasks it causes) keeps `RealmInv`; the panic flag is sticky -/
theorem fireDue_rinv {r : Realm} (hi : RealmInv r) {target : Nat} {d : Due} (hd : nextDue r target = some d) :
    RealmInv (fireDue r d) ∧ ((fireDue r d).panic = none → r.panic = none) := by
  have hi1 : RealmInv ({ r with now := max r.now d.time } : Realm) :=
    hi.of_parts rfl hi.binv hi.dinv hi.bmem hi.dref hi.callers hi.retr hi.tasks hi.inb rfl
  cases d with
  | timer t =>
    obtain ⟨h2, h2p⟩ := timerDue_rinv hi1 t
    obtain ⟨h3, h3p⟩ := retry_drain_rinv taskFuel h2
    exact ⟨h3, fun hp => by have := h3p hp; rw [h2p] at this; exact this⟩
  | retry x =>
    obtain ⟨h2, h2p⟩ := retryDue_rinv hi1 x (hi.retr x (nextDue_retry hd))
    obtain ⟨h3, h3p⟩ := retry_drain_rinv taskFuel h2
    exact ⟨h3, fun hp => by have := h3p hp; rw [h2p] at this; exact this⟩

/-- one timed event of `advance` keeps the retry invariant: the clock jumps to the earliest due event, so no entry
    is passed; a retry entry fires exactly at its time -/
theorem fireDue_retry {r : Realm} (hi : RealmInv r) (h : RetryInv r) {target : Nat} (hle : r.now ≤ target) {d : Due}
    (hd : nextDue r target = some d) : RetryInv (fireDue r d) ∧ (fireDue r d).now ≤ target := by
  obtain ⟨hdle, hmin⟩ := nextDue_min hd
  have hi1 : RealmInv ({ r with now := max r.now d.time } : Realm) :=
    hi.of_parts rfl hi.binv hi.dinv hi.bmem hi.dref hi.callers hi.retr hi.tasks hi.inb rfl
  have hj : RetryInv ({ r with now := max r.now d.time } : Realm) := by
    refine h.jump (Nat.le_max_left _ _) (fun x hx => ?_)
    have h1 : r.now ≤ x.next := (h.1 x hx).2.1
    have h2 : d.time ≤ x.next := by
      by_cases hx' : x.next ≤ target
      · exact hmin x hx hx'
      · omega
    exact Nat.max_le.mpr ⟨h1, h2⟩
  have hnow1 : max r.now d.time ≤ target := Nat.max_le.mpr ⟨hle, hdle⟩
  cases d with
  | timer t =>
    obtain ⟨h2, _⟩ := timerDue_rinv hi1 t
    obtain ⟨d1, d2, _⟩ := drain_retry taskFuel h2 (hj.of_rn (rn_timerDue _ t))
    refine ⟨d1, ?_⟩
    show (drain taskFuel _).now ≤ target
    rw [d2, (rn_timerDue _ t).2]; exact hnow1
  | retry x =>
    have hx : x ∈ r.retries := nextDue_retry hd
    have hnx : r.now ≤ x.next := (h.1 x hx).2.1
    obtain ⟨h2, _⟩ := retryDue_rinv hi1 x (hi.retr x hx)
    have hr2 : RetryInv (({ r with now := max r.now (Due.retry x).time } : Realm).retryDue x) :=
      hj.retryDue hx (Nat.max_eq_right hnx)
    obtain ⟨d1, d2, _⟩ := drain_retry taskFuel h2 hr2
    refine ⟨d1, ?_⟩
    show (drain taskFuel _).now ≤ target
    rw [d2, retryDue_now]; exact hnow1

/-- the panic flag is sticky through `advance` -/
theorem advance_panic : ∀ (fuel : Nat) {r : Realm} (target : Nat), RealmInv r →
    (advance fuel r target).panic = none → r.panic = none
  | 0, r, target, _, hp => by
    unfold advance at hp
    exact absurd hp (setPanic_some_panic _ _)
  | fuel + 1, r, target, hi, hp => by
    cases hd : nextDue r target with
    | none => rw [retry_advance_succ_none hd] at hp; exact hp
    | some d =>
      rw [retry_advance_succ_some hd] at hp
      obtain ⟨h3, h3p⟩ := fireDue_rinv hi hd
      exact h3p (advance_panic fuel target h3 hp)

/-- `advance` from a state satisfying the invariant, not ahead of the target: unless the fuel marker is set,
    the invariant holds again and NO ENTRY IS DUE (`now = target < next`) -/
theorem advance_retry : ∀ (fuel : Nat) {r : Realm} (target : Nat), RealmInv r → RetryInv r → r.now ≤ target →
    (advance fuel r target).panic = none → RetryInv (advance fuel r target) ∧ Strict (advance fuel r target)
  | 0, r, target, _, _, _, hp => by
    unfold advance at hp
    exact absurd hp (setPanic_some_panic _ _)
  | fuel + 1, r, target, hi, h, hle, hp => by
    cases hd : nextDue r target with
    | none =>
      rw [retry_advance_succ_none hd]
      obtain ⟨_, hr⟩ := (nextDue_none_iff _ _).1 hd
      have hlt : ∀ x ∈ r.retries, target < x.next := by
        intro x hx
        apply Classical.byContradiction
        intro hc
        have : x ∈ dueRetries r target := List.mem_filter.mpr ⟨hx, by simp; omega⟩
        rw [hr] at this; cases this
      exact ⟨h.jump hle (fun x hx => Nat.le_of_lt (hlt x hx)), hlt⟩
    | some d =>
      rw [retry_advance_succ_some hd] at hp ⊢
      obtain ⟨h3, _⟩ := fireDue_rinv hi hd
      obtain ⟨h4, h5⟩ := fireDue_retry hi h hle hd
      exact advance_retry fuel target h3 h4 h5 hp

/-! ### one step, histories -/

theorem flush_panic (r : Realm) : r.flush.2.panic = r.panic := by
  unfold flush
  extract_lets reading out seenClosed keep keepEmpty
  rfl

/-- the panic flag is sticky through a step -/
theorem step_panic {r : Realm} (hi : RealmInv r) (op : Op) (hp : (r.step op).2.panic = none) : r.panic = none := by
  by_cases ht : ∃ ms, op = .tick ms
  · obtain ⟨ms, rfl⟩ := ht
    rw [step_tick, flush_panic] at hp
    exact advance_panic 10000 (r.now + ms) hi hp
  · rw [step_of_not_tick r op (fun ms e => ht ⟨ms, e⟩), flush_panic] at hp
    obtain ⟨s1, s2⟩ := stepOp_inv hi op
    have := (retry_drain_rinv taskFuel s1).2 hp
    rw [s2] at this
    exact this

/-- one external input run to quiescence: unless a fuel marker is set, the invariant holds again and no entry is due -/
theorem step_retry {r : Realm} (hi : RealmInv r) (h : RetryInv r) (hs : Strict r) (op : Op)
    (hp : (r.step op).2.panic = none) : RetryInv (r.step op).2 ∧ Strict (r.step op).2 := by
  by_cases ht : ∃ ms, op = .tick ms
  · obtain ⟨ms, rfl⟩ := ht
    rw [step_tick] at hp ⊢
    rw [flush_panic] at hp
    obtain ⟨h1, h2⟩ := advance_retry 10000 (r.now + ms) hi h (Nat.le_add_right _ _) hp
    exact ⟨h1.of_rn (rn_flush _), h2.of_rn (rn_flush _)⟩
  · rw [step_of_not_tick r op (fun ms e => ht ⟨ms, e⟩)]
    obtain ⟨s1, _⟩ := stepOp_inv hi op
    obtain ⟨d1, _, d3⟩ := drain_retry taskFuel s1 (h.stepOp op)
    exact ⟨d1.of_rn (rn_flush _), (d3 (hs.stepOp op)).of_rn (rn_flush _)⟩

theorem step_now (r : Realm) (ms : Nat) : (r.step (.tick ms)).2.now = r.now + ms := by
  rw [step_tick, (rn_flush _).2, advance_now]

theorem reachable_retry {cfg : Config} {r : Realm} (h : Realm.Reachable cfg r) (hp : r.panic = none) :
    RetryInv r ∧ Strict r := by
  induction h with
  | init h =>
    have hr := (create_rinv h).2.2.2.2.2.2.1
    unfold RetryInv Strict
    rw [hr]
    exact ⟨⟨fun x hx => (nomatch hx), List.Pairwise.nil⟩, fun x hx => (nomatch hx)⟩
  | step op hr ih =>
    have hp0 := step_panic hr.inv.1 op hp
    obtain ⟨i1, i2⟩ := ih hp0
    exact step_retry hr.inv.1 i1 i2 op hp

/-- distinct callees, the meta session apart -/
theorem RetryInv.nodup {r : Realm} (h : RetryInv r) :
    ((r.retries.filter (fun x => x.callee != metaKey)).map (·.callee)).Nodup := by
  rw [List.nodup_iff_pairwise_ne, List.pairwise_map]
  refine List.Pairwise.imp_of_mem ?_ (h.2.filter _)
  intro a b ha _ hab e
  have : a.callee ≠ metaKey := by simpa using (List.mem_filter.mp ha).2
  exact this (hab e)

end Nexus.L2.WpC
