/-
  Work package A / C18: who receives a subscription meta event (`Broker.metaEvent`), exactly once,
  with what — the analogue of `through_syncPublish_eq_deliveryOf` for the events the broker
  goroutine sends itself (`syncPubSubMeta`).
-/
import Nexus.L2.Proofs.BrokerDeliver

namespace Nexus.L2.WpA
open Nexus.L2 Nexus.Gen.N

/-- the EVENT a member `k` of `sub` gets for a subscription meta event, unless it caused it -/
def mevOpt (t : String) (pid : Nat) (cause : SessKey) (args : List WVal) (sub : Sub) (st : Bool)
    (k : SessKey) : Option Send :=
  if sidOf k != sidOf cause then
    some ⟨k, .event sub.id pid (if st then [("topic", .str t)] else []) args []⟩
  else none

/-- what one matching subscription contributes to `metaEvent` -/
def mevFor (t : String) (pid : Nat) (cause : SessKey) (args : List WVal) (sub : Sub) (st : Bool) : List Send :=
  (sub.members.filter (fun k => sidOf k != sidOf cause)).map fun k =>
    ⟨k, .event sub.id pid (if st then [("topic", .str t)] else []) args []⟩

theorem mevFor_eq (t : String) (pid : Nat) (cause : SessKey) (args : List WVal) (sub : Sub) (st : Bool) :
    mevFor t pid cause args sub st = sub.members.filterMap (mevOpt t pid cause args sub st) := by
  unfold mevFor mevOpt
  induction sub.members with
  | nil => rfl
  | cons a l ih =>
    rw [List.filter_cons, List.filterMap_cons]
    by_cases h : (sidOf a != sidOf cause) = true
    · simp only [h, if_true, List.map_cons]
      rw [ih]
    · simp only [h, Bool.false_eq_true, if_false]
      rw [ih]

theorem mevOpt_some {t pid cause args sub st k x} (h : mevOpt t pid cause args sub st k = some x) :
    x.to = k ∧ x.msg.eventSub? = some sub.id := by
  unfold mevOpt at h
  split at h
  · simp only [Option.some.injEq] at h; subst h; exact ⟨rfl, rfl⟩
  · simp at h

theorem metaEvent_eq_flatMap (b : Broker) (t : String) (pid : Nat) (cause : SessKey) (args : List WVal) :
    b.metaEvent t pid cause args = (b.matching t).flatMap (fun x => mevFor t pid cause args x.1 x.2) := rfl

/-- `metaEvent` visits the matching subscriptions kind by kind; `sendTopic` is `isPattern`. -/
theorem metaEvent_sends' (b : Broker) (t : String) (pid : Nat) (cause : SessKey) (args : List WVal) :
    b.metaEvent t pid cause args =
      (b.subs.filter (fun s => s.kind == .exact && s.topic == t) ++
       b.subs.filter (fun s => s.kind == .pfx && prefixMatch t s.topic) ++
       b.subs.filter (fun s => s.kind == .wild && wildcardMatch t s.topic)).flatMap
        (fun s => mevFor t pid cause args s s.isPattern) := by
  rw [metaEvent_eq_flatMap]
  unfold Broker.matching
  simp only [List.flatMap_append, List.flatMap_map]
  congr 1
  congr 1
  all_goals
    apply flatMap_congr'
    intro s hs
    have := (List.mem_filter.mp hs).2
    simp only [Bool.and_eq_true, beq_iff_eq] at this
    have e : s.isPattern = (s.kind != .exact) := rfl
    rw [e, this.1]
    rfl

theorem through_mevFor (t : String) (pid : Nat) (cause : SessKey) (args : List WVal) (sub : Sub) (st : Bool)
    (hn : sub.members.Nodup) (k : SessKey) (id : Nat) :
    through (mevFor t pid cause args sub st) k id =
      if sub.id = id ∧ k ∈ sub.members then (mevOpt t pid cause args sub st k).toList else [] := by
  rw [mevFor_eq, through_filterMap _ id (fun k x h => (mevOpt_some h).1) k _ hn]
  by_cases hm : k ∈ sub.members
  · simp only [hm, if_true, and_true]
    cases he : mevOpt t pid cause args sub st k with
    | none => simp [through]
    | some x =>
      obtain ⟨h1, h2⟩ := mevOpt_some he
      by_cases hid : sub.id = id
      · simp [through, h1, h2, hid]
      · simp [through, h2, hid]
  · simp [hm]

theorem mevOpt_toList (t : String) (pid : Nat) (cause : SessKey) (args : List WVal) (sub : Sub) (st : Bool)
    (k : SessKey) :
    (mevOpt t pid cause args sub st k).toList =
      if k ≠ cause then [⟨k, .event sub.id pid (if st then [("topic", .str t)] else []) args []⟩] else [] := by
  unfold mevOpt
  by_cases h : k = cause
  · subst h; simp
  · have : sidOf k ≠ sidOf cause := fun e => h (sidOf_inj e)
    simp [this, h]

/-- WHO receives a subscription meta event, EXACTLY ONCE, WITH WHAT: through a subscription `s` of the
    broker, session `k` gets exactly one EVENT (that subscription's id, the publication id, the meta
    topic in the details iff `s` is pattern-based, the arguments) iff `s` matches the meta topic, `k`
    is a member of `s` and `k` is not the session that caused the event; otherwise nothing. -/
theorem through_metaEvent {b : Broker} (hb : BrokerInv b) (t : String) (pid : Nat) (cause : SessKey)
    (args : List WVal) {s : Sub} (hs : s ∈ b.subs) (k : SessKey) :
    through (b.metaEvent t pid cause args) k s.id =
      if s.matchesTopic t = true ∧ k ∈ s.members ∧ k ≠ cause then
        [⟨k, .event s.id pid (if s.isPattern then [("topic", .str t)] else []) args []⟩]
      else [] := by
  rw [metaEvent_sends', through_flatMap]
  simp only [List.flatMap_append]
  have hH : ∀ u ∈ b.subs, u.id ≠ s.id → through (mevFor t pid cause args u u.isPattern) k s.id = [] := by
    intro u hu hne
    rw [through_mevFor _ _ _ _ _ _ (hb.members_nodup u hu)]
    simp [hne]
  rw [flatMap_filter_unique _ _ s b.subs hb.ids_nodup hs hH,
      flatMap_filter_unique _ _ s b.subs hb.ids_nodup hs hH,
      flatMap_filter_unique _ _ s b.subs hb.ids_nodup hs hH,
      through_mevFor _ _ _ _ _ _ (hb.members_nodup s hs), mevOpt_toList]
  unfold Sub.matchesTopic
  cases hk : s.kind <;> by_cases hm : k ∈ s.members <;> by_cases hc : k = cause <;> simp [hm, hc]
  all_goals
    split <;> simp_all

/-- frame: nothing goes through an id that is not the id of a subscription of the broker -/
theorem through_metaEvent_none (b : Broker) (t : String) (pid : Nat) (cause : SessKey) (args : List WVal)
    (k : SessKey) (id : Nat) (hno : ∀ s ∈ b.subs, s.id ≠ id) :
    through (b.metaEvent t pid cause args) k id = [] := by
  rw [metaEvent_eq_flatMap, through_flatMap]
  apply flatMap_all_nil
  intro x hx
  have hs := ((mem_matching b t x.1 x.2).mp hx).1
  unfold through
  rw [List.filter_eq_nil_iff]
  intro y hy
  rw [mevFor_eq] at hy
  obtain ⟨k', _, he⟩ := List.mem_filterMap.mp hy
  have := (mevOpt_some he).2
  simp [this, hno x.1 hs]

/-- every message `metaEvent` sends is an EVENT: it is counted by `through` of its own subscription id -/
theorem metaEvent_mem_shape (b : Broker) (t : String) (pid : Nat) (cause : SessKey) (args : List WVal)
    (x : Send) (hx : x ∈ b.metaEvent t pid cause args) :
    ∃ s ∈ b.subs, s.matchesTopic t = true ∧ x.to ∈ s.members ∧ x.to ≠ cause ∧
      x = ⟨x.to, .event s.id pid (if s.isPattern then [("topic", .str t)] else []) args []⟩ := by
  rw [metaEvent_eq_flatMap] at hx
  obtain ⟨⟨sub, st⟩, hms, hx'⟩ := List.mem_flatMap.mp hx
  obtain ⟨h1, h2, h3⟩ := (mem_matching b t sub st).mp hms
  unfold mevFor at hx'
  obtain ⟨k, hk, rfl⟩ := List.mem_map.mp hx'
  obtain ⟨hk1, hk2⟩ := List.mem_filter.mp hk
  simp only [bne_iff_ne, ne_eq] at hk2
  refine ⟨sub, h1, h2, hk1, fun e => hk2 (by rw [show k = cause from e]), ?_⟩
  subst h3
  rfl

end Nexus.L2.WpA
