/-
  The `baseDetails` that `Realm.handlePublish` hands to the broker (payload-passthru keys only)
  contain neither `topic` nor a publisher key: the side condition of the C01 topic clause and of
  C12 is met by every publication the realm model produces.
-/
import Nexus.L2.Dealer
import Nexus.L2.Proofs.BrokerDeliver

namespace Nexus.L2
open Gen.N

theorem pptInto_get?_other (opts : Dict) (key : String)
    (h : key ≠ OptPPTScheme ∧ key ≠ OptPPTSerializer ∧ key ≠ OptPPTCipher ∧ key ≠ OptPPTKeyId) :
    (pptInto opts []).get? key = none := by
  obtain ⟨h1, h2, h3, h4⟩ := h
  have step : ∀ (d : Dict) (k : String), k ≠ key → d.get? key = none →
      (match opts.get? k with | some (.str v) => Dict.set d k (.str v) | _ => d).get? key = none := by
    intro d k hk hd
    split
    · rw [Dict.get?_set, if_neg hk]; exact hd
    · exact hd
  unfold pptInto
  simp only [List.foldl_cons, List.foldl_nil]
  exact step _ _ (Ne.symm h4) (step _ _ (Ne.symm h3) (step _ _ (Ne.symm h2) (step _ _ (Ne.symm h1) rfl)))

/-- the two possible `baseDetails` of `handlePublish` -/
theorem realm_base_ok (opts : Dict) (usesPPT : Bool) (key : String)
    (hk : key = "topic" ∨ isPublisherKey key) :
    (if usesPPT then pptInto opts [] else ([] : Dict)).get? key = none := by
  cases usesPPT
  · rfl
  · apply pptInto_get?_other
    unfold isPublisherKey at hk
    rcases hk with rfl | rfl | rfl | rfl <;> decide

end Nexus.L2
