/-
  WP-C / C05 (1): the calls of a session that has left.

  * `leave` only removes invocations (`leave_invs_sub`), invocation ids are unique, so the
    invocation of a call made by the departed session is gone (`leave_findInv_none`);
  * a dealer action that only sends (no meta event, no abort, no panic) applied to the realm is
    `deliver` of its sends (`applyD_plain`);
  * `handleYield` for an invocation that does not exist: INTERRUPT(killnowait) to the yielding
    callee if the YIELD was progressive and the callee's queue has room, nothing otherwise
    (`handleYield_noInv`, `handleYield_noInv_client`).
-/
import Nexus.L2.Proofs.RealmIsolation
import Nexus.L2.Proofs.RealmQueue

namespace Nexus.L2
namespace WpC
open Gen.N Realm

/-- an invocation stored after the departure of `k` was stored before, with the same id, call and
    callee: `leave` only removes invocations -/
theorem leave_invs_sub {r : Realm} (hi : RealmInv r) {k : SessKey} {s : Session} (mode : LeaveMode)
    (hf : r.clients.find? (fun c => c.key == k) = some s) :
    ∀ w ∈ (r.leave k mode).ds.d.invs, ∃ v ∈ r.ds.d.invs, v.shapeC = w.shapeC := by
  obtain ⟨_, env, he⟩ := leave_tables mode hf
  rw [he]
  exact (syncRemoveSession_frame (env := env) hi.dinv k).2.1

theorem find_of_isClient {r : Realm} {k : SessKey} (hk : r.isClient k) :
    ∃ s, r.clients.find? (fun c => c.key == k) = some s := by
  obtain ⟨c, hc, hck⟩ := hk
  cases hf : r.clients.find? (fun c => c.key == k) with
  | none =>
    have := List.find?_eq_none.mp hf c hc
    simp [hck] at this
  | some s => exact ⟨s, rfl⟩

/-- two stored invocations with the same id are the same invocation -/
theorem inv_eq_of_id {d : Dealer} (h : CallInv d) {v w : Invk} (hv : v ∈ d.invs) (hw : w ∈ d.invs)
    (e : v.id = w.id) : v = w :=
  nodup_map_inj (f := fun x : Invk => x.id) h.invIds hv hw e

/-- the invocation of a call made by `k` is not stored any more after `k` has left: no invocation
    with its id is left (an invocation left over with that id would be the same invocation, whose
    caller `k` would still be referred to) -/
theorem leave_findInv_none {r : Realm} (hi : RealmInv r) {k : SessKey} {s : Session} (mode : LeaveMode)
    (hf : r.clients.find? (fun c => c.key == k) = some s)
    (hcallers : ∀ w ∈ (r.leave k mode).ds.d.invs, w.callId.sess ≠ k)
    {v : Invk} (hv : v ∈ r.ds.d.invs) (hvk : v.callId.sess = k) :
    (r.leave k mode).ds.d.findInv v.id = none := by
  rw [findInv_eq_none]
  intro w hw e
  obtain ⟨v0, hv0, hs⟩ := leave_invs_sub hi mode hf w hw
  simp only [Invk.shapeC, Prod.mk.injEq] at hs
  have : v0 = v := inv_eq_of_id hi.dinv.call hv0 hv (hs.1.trans e)
  subst this
  exact hcallers w hw (hs.2.1 ▸ hvk)

/-! ### a dealer action that only sends -/

theorem applyD_plain (r : Realm) (o : DOut) (hm : o.metaPubs = []) (ha : o.aborts = []) (hp : o.panic = none) :
    r.applyD o = ({ r with ds := o.st } : Realm).deliver o.sends := by
  rw [applyD_eq, hm, ha, hp, setPanic_none]
  simp only [List.map_nil, List.append_nil]

theorem deliver_same_ds (r : Realm) (ss : List Send) : ({ r with ds := r.ds } : Realm).deliver ss = r.deliver ss := rfl

/-- the INTERRUPT a progressive YIELD draws when its invocation is gone -/
def goneInterrupt (callee : SessKey) (req : Nat) : Send :=
  ⟨callee, .interrupt req [(OptMode, .str CancelModeKillNoWait)]⟩

/-- YIELD for an invocation that is not stored (the call was abandoned): the realm sends
    INTERRUPT(killnowait) to the yielding session if the YIELD is progressive and that session's queue
    is not full, and does nothing at all otherwise; the handler does not enter the retry loop. -/
theorem handleYield_noInv (r : Realm) (s : Session) (req : Nat) (opts : Dict) (args : List WVal) (kw : Dict)
    (hf : r.ds.d.findInv ⟨s.key, req⟩ = none) :
    handleYield r s req opts args kw =
      if opts.optFlag OptProgress = true ∧ r.isFull s.key = false then r.trySend (goneInterrupt s.key req) else r := by
  unfold handleYield
  extract_lets progress o r1
  have ho : o = if progress && !r.denv.full s.key then
        { st := r.ds, sends := [goneInterrupt s.key req] } else { st := r.ds } :=
    syncYield_none opts args kw progress true hf
  have hfull : r.denv.full s.key = r.isFull s.key := rfl
  by_cases hc : opts.optFlag OptProgress = true ∧ r.isFull s.key = false
  · have hcb : (progress && !r.denv.full s.key) = true := by
      rw [hfull, hc.2]; simp [progress, hc.1]
    rw [hcb, if_pos rfl] at ho
    have hr1 : r1 = r.trySend (goneInterrupt s.key req) := by
      show r.applyD o = _
      rw [ho, applyD_plain _ _ rfl rfl rfl]
      rfl
    have hag : o.again = false := by rw [ho]
    rw [if_pos hc, hag, hr1]
    simp
  · have hcb : (progress && !r.denv.full s.key) = false := by
      rw [hfull]
      cases hp : opts.optFlag OptProgress
      · simp [progress, hp]
      · cases hfl : r.isFull s.key
        · exact absurd ⟨hp, hfl⟩ hc
        · simp
    rw [hcb] at ho
    simp only [Bool.false_eq_true, if_false] at ho
    have hr1 : r1 = r := by
      show r.applyD o = _
      rw [ho, applyD_plain _ _ rfl rfl rfl]
      rfl
    have hag : o.again = false := by rw [ho]
    rw [if_neg hc, hag, hr1]
    simp

/-- … for an attached (non-meta) callee `c`: exactly the INTERRUPT is appended to exactly that
    session's queue when the YIELD is progressive and the queue has room — nothing else changes —,
    and the state is unchanged otherwise -/
theorem handleYield_noInv_client (r : Realm) (s c : Session) (req : Nat) (opts : Dict) (args : List WVal) (kw : Dict)
    (hf : r.ds.d.findInv ⟨s.key, req⟩ = none) (hk : s.key ≠ metaKey) (hc : r.client? s.key = some c) :
    handleYield r s req opts args kw =
      if opts.optFlag OptProgress = true ∧ r.queueLen s.key < c.cap
      then { r with queues := enq r.queues s.key (.interrupt req [(OptMode, .str CancelModeKillNoWait)]) }
      else r := by
  rw [handleYield_noInv r s req opts args kw hf]
  have hfull : r.isFull s.key = decide (r.queueLen s.key ≥ c.cap) := by
    unfold isFull session?
    rw [if_neg hk, if_neg hk]
    unfold client? at hc
    rw [hc]
  by_cases hroom : r.queueLen s.key < c.cap
  · have : r.isFull s.key = false := by rw [hfull]; simpa using hroom
    rw [this]
    by_cases hp : opts.optFlag OptProgress = true
    · rw [if_pos ⟨hp, rfl⟩, if_pos ⟨hp, hroom⟩]
      exact trySend_room r (goneInterrupt s.key req) hk hc hroom
    · rw [if_neg (fun h => hp h.1), if_neg (fun h => hp h.1)]
  · have : r.isFull s.key = true := by rw [hfull]; simpa using hroom
    rw [this, if_neg (fun h => by cases h.2), if_neg (fun h => hroom h.2)]

/-- … for the meta session as callee (it serves the `wamp.*` procedures; it never yields
    progressively, and an INTERRUPT for it is dropped): nothing changes -/
theorem handleYield_noInv_meta (r : Realm) (s : Session) (req : Nat) (opts : Dict) (args : List WVal) (kw : Dict)
    (hf : r.ds.d.findInv ⟨s.key, req⟩ = none) (hk : s.key = metaKey) :
    handleYield r s req opts args kw = r := by
  rw [handleYield_noInv r s req opts args kw hf]
  split
  · unfold trySend goneInterrupt
    simp only [hk, if_true]
  · rfl

end WpC
end Nexus.L2
