/-
  Work package A (sub-worker bk): helper lemmas for C12 — `Realm.handleRegister` split into its five
  branches, what `syncRegister` does to the `disclose` flags of the registrations, and the frame of
  a refused REGISTER.
-/
import Nexus.L2.Proofs.RealmPublish
import Nexus.L2.Proofs.DealerRealm

namespace Nexus.L2.WpA
open Nexus.L2 Gen.N
open Nexus.L2.Realm (handleRegister trySend applyD invalidUriErr knownPolicies)

/-! ### the branches of `handleRegister` -/

/-- the four refusals of `dealer.register`, as a message for the sender (none = accepted) -/
def registerRefusal (r : Realm) (s : Session) (req : Nat) (opts : Dict) (proc : String) : Option Msg :=
  if validUri r.ds.d.strict (opts.optString OptMatch) proc = false then some (invalidUriErr tREGISTER req)
  else if proc.startsWith "wamp." = true ∧ s.key ≠ metaKey then some (invalidUriErr tREGISTER req)
  else if r.ds.d.allowDisclose = false ∧ opts.optFlag OptDiscloseCaller = true ∧
      sessAttr s.details "authrole" ≠ "trusted" then some (errMsg tREGISTER req ErrOptionDisallowedDiscloseMe)
  else if (opts.optString OptInvoke) ∉ knownPolicies then
    some (.error tREGISTER req [] ErrInvalidArgument [.str "<text>"] [])
  else none

theorem handleRegister_eq (r : Realm) (s : Session) (req : Nat) (opts : Dict) (proc : String) :
    handleRegister r s req opts proc =
      match registerRefusal r s req opts proc with
      | some m => r.trySend ⟨s.key, m⟩
      | none => r.applyD (syncRegister r.ds s.key req proc (opts.optString OptMatch) (opts.optString OptInvoke)
          (opts.optFlag OptDiscloseCaller) (opts.optFlag OptForwardTimeout) (proc.startsWith "wamp.")) := by
  unfold handleRegister registerRefusal
  simp only
  by_cases h1 : validUri r.ds.d.strict (opts.optString OptMatch) proc = false
  · simp [h1]
  · have h1' : validUri r.ds.d.strict (opts.optString OptMatch) proc = true := by simpa using h1
    simp only [h1', Bool.not_true, Bool.false_eq_true, if_false, reduceCtorEq]
    by_cases h2 : proc.startsWith "wamp." = true ∧ s.key ≠ metaKey
    · have : (proc.startsWith "wamp." && s.key != metaKey) = true := by simp [h2.1, h2.2]
      rw [if_pos this, if_pos h2]
    · have : ¬ (proc.startsWith "wamp." && s.key != metaKey) = true := by
        intro h; apply h2; simpa using h
      rw [if_neg this, if_neg h2]
      by_cases h3 : r.ds.d.allowDisclose = false ∧ opts.optFlag OptDiscloseCaller = true ∧
          sessAttr s.details "authrole" ≠ "trusted"
      · have : (!r.ds.d.allowDisclose && opts.optFlag OptDiscloseCaller &&
            sessAttr s.details "authrole" != "trusted") = true := by simp [h3.1, h3.2.1, h3.2.2]
        rw [if_pos this, if_pos h3]
      · have : ¬ (!r.ds.d.allowDisclose && opts.optFlag OptDiscloseCaller &&
            sessAttr s.details "authrole" != "trusted") = true := by
          intro h; apply h3; simpa [and_assoc] using h
        rw [if_neg this, if_neg h3]
        by_cases h4 : (opts.optString OptInvoke) ∉ knownPolicies
        · have : (!knownPolicies.contains (opts.optString OptInvoke)) = true := by simpa using h4
          rw [if_pos this, if_pos h4]
        · have : ¬ (!knownPolicies.contains (opts.optString OptInvoke)) = true := by simpa using h4
          rw [if_neg this, if_neg h4]

/-- a message that is not an INVOCATION never adds a task (only INVOCATIONs for the meta session do) -/
theorem trySend_tasks_noninv (r : Realm) (x : Send)
    (h : ∀ req reg d a kw, x.msg ≠ .invocation req reg d a kw) : (r.trySend x).tasks = r.tasks := by
  unfold Realm.trySend
  split
  · split
    · rename_i req reg d a kw hm; exact absurd hm (h req reg d a kw)
    · rfl
  · split
    · unfold Realm.setPanic; split <;> rfl
    · split
      · rfl
      · split <;> rfl

/-! ### `syncRegister` and the `disclose` flags -/

/-- Every registration after `syncRegister` either continues one that was there (same id, same
    `disclose` flag — joining a shared registration changes only `callees`), or is the registration
    just created: fresh id, the registering session as only callee, `disclose` as requested. -/
theorem syncRegister_regs_origin (s : DState) (callee : SessKey) (req : Nat) (proc m invoke : String)
    (disclose fwd wampURI : Bool) :
    ∀ g ∈ (syncRegister s callee req proc m invoke disclose fwd wampURI).st.d.regs,
      (∃ g0 ∈ s.d.regs, g0.id = g.id ∧ g0.disclose = g.disclose) ∨
      (g.id = s.d.nextReg + 1 ∧ g.callees = [callee] ∧ g.proc = proc ∧ g.disclose = disclose) := by
  intro g hg
  unfold syncRegister at hg
  cases hf : s.d.findProc proc (matchKind m) with
  | none =>
    simp only [hf, List.mem_append, List.mem_singleton] at hg
    rcases hg with hg | rfl
    · exact Or.inl ⟨g, hg, rfl, rfl⟩
    · exact Or.inr ⟨rfl, rfl, rfl, rfl⟩
  | some reg =>
    have hreg : reg ∈ s.d.regs := by
      unfold Dealer.findProc at hf; exact List.mem_of_find?_eq_some hf
    simp only [hf] at hg
    split at hg
    · exact Or.inl ⟨g, hg, rfl, rfl⟩
    · split at hg
      · exact Or.inl ⟨g, hg, rfl, rfl⟩
      · split at hg
        · exact Or.inl ⟨g, hg, rfl, rfl⟩
        · simp only [Dealer.setReg, List.mem_map] at hg
          obtain ⟨x, hx, rfl⟩ := hg
          by_cases h : (x.id == reg.id) = true
          · rw [if_pos h]
            exact Or.inl ⟨reg, hreg, rfl, rfl⟩
          · rw [if_neg h]
            exact Or.inl ⟨x, hx, rfl, rfl⟩

end Nexus.L2.WpA
