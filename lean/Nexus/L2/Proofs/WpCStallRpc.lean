/-
  C07 "stall isolation", part 4: the dealer half at the level of the realm.  For a sender other than `x`,
  in a state where `x` is the callee of no registration, the caller of no pending call and the callee of
  no invocation (`DIdle x r.ds`), REGISTER / UNREGISTER / CALL / CANCEL / YIELD / ERROR preserve `EqOff x`;
  so does the whole message switch `handleMsg` (for the non-RPC messages: for every sender, also `x`).
-/
import Nexus.L2.Proofs.WpCStallPubSub
import Nexus.L2.Proofs.WpCStallDealer
import Nexus.L2.Proofs.RealmAuthz

set_option linter.unusedSimpArgs false

namespace Nexus.L2.WpC
open Nexus.L2 Nexus.L2.Realm Gen.N

variable {x : SessKey}

/-- the same dealer output applied to both states -/
theorem eqoff_applyD {r r' : Realm} (h : EqOff x r r') (o : DOut) : EqOff x (r.applyD o) (r'.applyD o) := by
  unfold Realm.applyD
  dsimp only
  apply eqoff_setPanic
  have h1 : EqOff x ({ r with ds := o.st } : Realm) ({ r' with ds := o.st } : Realm) := by eqoff_upd h
  have h2 := eqoff_deliver o.sends h1
  have h3 := eqoff_addTasks (eqoff_addTasks h2 (o.metaPubs.map Task.metaPub))
    (o.aborts.map (fun k => Task.leave k .aborted))
  eqoff_upd h3

theorem eqoff_handleRegister {r r' : Realm} (h : EqOff x r r') (s : Session) (req : Nat) (opts : Dict) (proc : String) :
    EqOff x (handleRegister r s req opts proc) (handleRegister r' s req opts proc) := by
  unfold handleRegister
  simp only [h.ds]
  repeat' split
  all_goals first | exact eqoff_trySend h _ | exact eqoff_applyD h _

theorem eqoff_handleUnregister {r r' : Realm} (h : EqOff x r r') (s : Session) (req reg : Nat) :
    EqOff x (handleUnregister r s req reg) (handleUnregister r' s req reg) := by
  unfold handleUnregister
  rw [h.ds]
  exact eqoff_applyD h _

theorem eqoff_handleError {r r' : Realm} (h : EqOff x r r') (s : Session) (req : Nat) (details : Dict) (err : String)
    (args : List WVal) (kw : Dict) :
    EqOff x (handleError r s req details err args kw) (handleError r' s req details err args kw) := by
  unfold handleError
  rw [h.ds]
  exact eqoff_applyD h _

/-- CALL: the INVOCATION goes to a callee of a registration (or of a stored invocation): never to `x` -/
theorem eqoff_handleCall {r r' : Realm} (h : EqOff x r r') (hd : DIdle x r.ds) (s : Session) (req : Nat)
    (opts : Dict) (proc : String) (args : List WVal) (kw : Dict) :
    EqOff x (handleCall r s req opts proc args kw) (handleCall r' s req opts proc args kw) := by
  unfold handleCall
  rw [h.ds, h.rnd, syncCall_congr h.denv _ _ _ _ _ _ _ _ hd.regs hd.invs]
  exact eqoff_applyD h _

theorem eqoff_handleCancel {r r' : Realm} (h : EqOff x r r') (hd : DIdle x r.ds) (s : Session) (req : Nat)
    (opts : Dict) : EqOff x (handleCancel r s req opts) (handleCancel r' s req opts) := by
  unfold handleCancel
  dsimp only
  repeat' split
  all_goals first
    | exact eqoff_trySend h _
    | (rw [h.ds, syncCancel_congr h.denv _ _ _ _ _ _ (Or.inr hd.invs)]
       exact eqoff_applyD h _)

/-- YIELD of a session other than `x`: the RESULT goes to the caller of a pending call: never to `x` -/
theorem eqoff_handleYield {r r' : Realm} (h : EqOff x r r') (hd : DIdle x r.ds) (s : Session) (hk : s.key ≠ x)
    (req : Nat) (opts : Dict) (args : List WVal) (kw : Dict) :
    EqOff x (handleYield r s req opts args kw) (handleYield r' s req opts args kw) := by
  unfold handleYield
  dsimp only
  rw [h.ds, syncYield_congr h.denv _ _ _ _ _ _ _ hk hd.calls hd.invs]
  have h1 := eqoff_applyD h (syncYield r.denv r.ds s.key req opts args kw (opts.optFlag OptProgress) true)
  split
  · eqoff_upd h1
  · exact h1

/-! ### the message switch -/

/-- the messages that reach the dealer -/
def isRpc : Msg → Bool
  | .call .. => true
  | .cancel .. => true
  | .yield .. => true
  | .register .. => true
  | .unregister .. => true
  | .error .. => true
  | _ => false

theorem authzGate_ds (r : Realm) (s : Session) (m : Msg) : (authzGate r s m).2.ds = r.ds := by
  unfold authzGate
  repeat' (first | split | dsimp only)
  all_goals first | rfl | exact (trySend_frame _ _).ds

/-- behind the gate -/
theorem eqoff_dispatch {r r' : Realm} (h : EqOff x r r') {s s' : Session} (hs : SEq x s s') (m : Msg)
    (hm : isRpc m = false ∨ (s.key ≠ x ∧ DIdle x r.ds)) :
    EqOff x (Realm.dispatch r s m) (Realm.dispatch r' s' m) := by
  cases m
  case publish => exact eqoff_handlePublish h hs ..
  case subscribe => exact eqoff_handleSubscribe h hs ..
  case unsubscribe => exact eqoff_handleUnsubscribe h hs ..
  case goodbye =>
    show EqOff x ({ (r.trySend _) with tasks := _, ending := _ } : Realm) ({ (r'.trySend _) with tasks := _, ending := _ } : Realm)
    rw [hs.key]
    have h1 := eqoff_trySend h ⟨s.key, .goodbye [] CloseGoodbyeAndOut⟩
    eqoff_upd h1
  case yield =>
    rcases hm with hm | ⟨hk, hd⟩
    · cases hm
    · rw [hs.eq_of_ne hk]; exact eqoff_handleYield h hd s hk ..
  case call =>
    rcases hm with hm | ⟨hk, hd⟩
    · cases hm
    · rw [hs.eq_of_ne hk]; exact eqoff_handleCall h hd s ..
  case cancel =>
    rcases hm with hm | ⟨hk, hd⟩
    · cases hm
    · rw [hs.eq_of_ne hk]; exact eqoff_handleCancel h hd s ..
  case register =>
    rcases hm with hm | ⟨hk, hd⟩
    · cases hm
    · rw [hs.eq_of_ne hk]; exact eqoff_handleRegister h s ..
  case unregister =>
    rcases hm with hm | ⟨hk, hd⟩
    · cases hm
    · rw [hs.eq_of_ne hk]; exact eqoff_handleUnregister h s ..
  case error typ req details err args kw =>
    rcases hm with hm | ⟨hk, hd⟩
    · cases hm
    · rw [hs.eq_of_ne hk]
      show EqOff x (if typ != tINVOCATION then _ else handleError r s req details err args kw)
        (if typ != tINVOCATION then _ else handleError r' s req details err args kw)
      split
      · eqoff_upd h
      · exact eqoff_handleError h s ..
  all_goals
    show EqOff x ({ r with tasks := _, ending := _ } : Realm) ({ r' with tasks := _, ending := _ } : Realm)
    rw [hs.key]
    eqoff_upd h

/-- ONE MESSAGE.  Any message of a session other than `x` in a state where the dealer does not refer to
    `x`; any non-RPC message (publish, subscribe, unsubscribe, goodbye, protocol violations) of any
    session, also of `x` itself. -/
theorem eqoff_handleMsg {r r' : Realm} (h : EqOff x r r') {s s' : Session} (hs : SEq x s s') (m : Msg)
    (hm : isRpc m = false ∨ (s.key ≠ x ∧ DIdle x r.ds)) :
    EqOff x (handleMsg r s m) (handleMsg r' s' m) := by
  rw [handleMsg_eq, handleMsg_eq]
  obtain ⟨g1, g2⟩ := eqoff_authzGate h hs m
  rw [g1]
  split
  · refine eqoff_dispatch g2 hs m ?_
    rcases hm with hm | ⟨hk, hd⟩
    · exact Or.inl hm
    · exact Or.inr ⟨hk, by
        have e := authzGate_ds r s m
        exact ⟨e ▸ hd.regs, e ▸ hd.calls, e ▸ hd.invs⟩⟩
  · exact g2

end Nexus.L2.WpC
