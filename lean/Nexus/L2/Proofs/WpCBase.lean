/-
  Work package C, base: what one atomic action of the realm model does to the CONTROL fields
  (`ending`, `tasks`, `retries`, `deferred`, `inbox`, `clients`, `metaS`, `now`, …), as opposed to the
  broker/dealer tables and the queues which the sibling proof files describe.

  `Eff P Q r r'`: `r'` is `r` after an action of a session handler —
    * configuration, meta-procedure map, meta session, clock, clients, deferred departures,
      closed peers, ghosts and the random oracle are untouched (the testament table too for every
      message handler: `handleMsg_testaments`; it is not part of `Eff` because `takeTestaments`, a stage
      of `leave`, is described with the same relation);
    * `ending`, `tasks`, `retries`, `inbox` are only APPENDED to;
    * every key appended to `ending`, every `leave` task appended and every sender appended to `inbox`
      satisfies `P`; every other task appended is a `metaPub` or a `metaInvoke` (never a `metaMsg`, an
      `inMsg`); every `Retry` appended satisfies `Q`.
  Every message handler of session `s` is an `Eff (· = s.key)`: WHO CAN BE ENDED BY A MESSAGE IS ITS
  SENDER, nobody else (C04).
-/
import Nexus.L2.Proofs.RealmIsolation
import Nexus.L2.Proofs.RealmQueue
import Nexus.L2.Proofs.DealerRealmRpc

namespace Nexus.L2.WpC
open Nexus.L2 Nexus.L2.Realm Nexus.Gen.N

/-- a task an action may append: a departure of a session satisfying `P`, a meta event, a meta invocation -/
def NewTask (P : SessKey → Prop) : Task → Prop
  | .leave j _ => P j
  | .metaPub _ => True
  | .metaInvoke .. => True
  | .metaMsg _ => False
  | .inMsg .. => False

theorem NewTask.mono {P P' : SessKey → Prop} (h : ∀ j, P j → P' j) : ∀ {t : Task}, NewTask P t → NewTask P' t
  | .leave j _, ht => h j ht
  | .metaPub _, _ => trivial
  | .metaInvoke .., _ => trivial
  | .metaMsg _, ht => ht
  | .inMsg .., ht => ht

structure Eff (P : SessKey → Prop) (Q : Retry → Prop) (r r' : Realm) : Prop where
  cfg : r'.cfg = r.cfg
  metaProcs : r'.metaProcs = r.metaProcs
  metaS : r'.metaS = r.metaS
  now : r'.now = r.now
  clients : r'.clients = r.clients
  deferred : r'.deferred = r.deferred
  closedPeers : r'.closedPeers = r.closedPeers
  ghosts : r'.ghosts = r.ghosts
  rnd : r'.rnd = r.rnd
  inbox : ∃ ib, r'.inbox = r.inbox ++ ib ∧ ∀ e ∈ ib, P e.1
  ending : ∃ e, r'.ending = r.ending ++ e ∧ ∀ j ∈ e, P j
  tasks : ∃ ts, r'.tasks = r.tasks ++ ts ∧ ∀ t ∈ ts, NewTask P t
  retries : ∃ xs, r'.retries = r.retries ++ xs ∧ ∀ x ∈ xs, Q x

variable {P P' : SessKey → Prop} {Q Q' : Retry → Prop}

theorem Eff.refl (r : Realm) : Eff P Q r r :=
  ⟨rfl, rfl, rfl, rfl, rfl, rfl, rfl, rfl, rfl, ⟨[], by simp, fun _ h => nomatch h⟩, ⟨[], by simp, fun _ h => nomatch h⟩,
   ⟨[], by simp, fun _ h => nomatch h⟩, ⟨[], by simp, fun _ h => nomatch h⟩⟩

theorem Eff.trans {a b c : Realm} (h1 : Eff P Q a b) (h2 : Eff P Q b c) : Eff P Q a c := by
  obtain ⟨i1, ei1, pi1⟩ := h1.inbox
  obtain ⟨i2, ei2, pi2⟩ := h2.inbox
  obtain ⟨e1, ee1, pe1⟩ := h1.ending
  obtain ⟨e2, ee2, pe2⟩ := h2.ending
  obtain ⟨t1, et1, pt1⟩ := h1.tasks
  obtain ⟨t2, et2, pt2⟩ := h2.tasks
  obtain ⟨x1, ex1, px1⟩ := h1.retries
  obtain ⟨x2, ex2, px2⟩ := h2.retries
  have app : ∀ {α : Type} {p : α → Prop} {l1 l2 : List α}, (∀ x ∈ l1, p x) → (∀ x ∈ l2, p x) → ∀ x ∈ l1 ++ l2, p x := by
    intro α p l1 l2 g1 g2 x hx
    rcases List.mem_append.mp hx with h | h
    · exact g1 x h
    · exact g2 x h
  exact ⟨h2.cfg.trans h1.cfg, h2.metaProcs.trans h1.metaProcs, h2.metaS.trans h1.metaS, h2.now.trans h1.now,
    h2.clients.trans h1.clients, h2.deferred.trans h1.deferred,
    h2.closedPeers.trans h1.closedPeers, h2.ghosts.trans h1.ghosts, h2.rnd.trans h1.rnd,
    ⟨i1 ++ i2, by rw [ei2, ei1, List.append_assoc], app pi1 pi2⟩,
    ⟨e1 ++ e2, by rw [ee2, ee1, List.append_assoc], app pe1 pe2⟩,
    ⟨t1 ++ t2, by rw [et2, et1, List.append_assoc], app pt1 pt2⟩,
    ⟨x1 ++ x2, by rw [ex2, ex1, List.append_assoc], app px1 px2⟩⟩

theorem Eff.mono {r r' : Realm} (h : Eff P Q r r') (hp : ∀ j, P j → P' j) (hq : ∀ x, Q x → Q' x) : Eff P' Q' r r' := by
  obtain ⟨i1, ei1, pi1⟩ := h.inbox
  obtain ⟨e1, ee1, pe1⟩ := h.ending
  obtain ⟨t1, et1, pt1⟩ := h.tasks
  obtain ⟨x1, ex1, px1⟩ := h.retries
  exact ⟨h.cfg, h.metaProcs, h.metaS, h.now, h.clients, h.deferred, h.closedPeers, h.ghosts, h.rnd,
    ⟨i1, ei1, fun e he => hp _ (pi1 e he)⟩, ⟨e1, ee1, fun j hj => hp _ (pe1 j hj)⟩,
    ⟨t1, et1, fun t ht => (pt1 t ht).mono hp⟩, ⟨x1, ex1, fun x hx => hq _ (px1 x hx)⟩⟩

/-- the clients and their keys are those of `r` -/
theorem Eff.isClient {r r' : Realm} (h : Eff P Q r r') (k : SessKey) : r'.isClient k ↔ r.isClient k := by
  unfold Realm.isClient; rw [h.clients]

/-- an action that only sends: `SendFrame` plus "only `metaInvoke` tasks appended" -/
theorem eff_of_frame {r r' : Realm} (hf : SendFrame r r')
    (ht : ∃ ts, r'.tasks = r.tasks ++ ts ∧ ∀ t ∈ ts, ∃ a b c d e, t = Task.metaInvoke a b c d e) : Eff P Q r r' := by
  obtain ⟨ts, e, o⟩ := ht
  refine ⟨hf.cfg, hf.metaProcs, hf.metaS, hf.now, hf.clients, hf.deferred, hf.closedPeers, hf.ghosts,
    hf.rnd, ⟨[], by rw [hf.inbox]; simp, fun _ h => nomatch h⟩, ⟨[], by rw [hf.ending]; simp, fun _ h => nomatch h⟩,
    ⟨ts, e, ?_⟩, ⟨[], by rw [hf.retries]; simp, fun _ h => nomatch h⟩⟩
  intro t ht
  obtain ⟨a, b, c, d, e, rfl⟩ := o t ht
  trivial

theorem metaTask_shape {x : Send} {t : Task} (h : t ∈ (dmetaTask x).toList) : ∃ a b c d e, t = Task.metaInvoke a b c d e := by
  unfold dmetaTask at h
  split at h
  · split at h
    · simp only [Option.toList_some, List.mem_singleton] at h
      exact ⟨_, _, _, _, _, h⟩
    · cases h
  · cases h

theorem metaTasks_shape {ss : List Send} {t : Task} (h : t ∈ ss.filterMap dmetaTask) :
    ∃ a b c d e, t = Task.metaInvoke a b c d e := by
  obtain ⟨x, _, hx⟩ := List.mem_filterMap.mp h
  exact metaTask_shape (by rw [hx]; simp)

theorem eff_trySend (r : Realm) (s : Send) : Eff P Q r (r.trySend s) :=
  eff_of_frame (trySend_frame r s) ⟨_, dtrySend_tasks r s, fun _ ht => metaTask_shape ht⟩

theorem eff_deliver (ss : List Send) (r : Realm) : Eff P Q r (r.deliver ss) :=
  eff_of_frame (deliver_frame ss r) ⟨_, ddeliver_tasks ss r, fun _ ht => metaTasks_shape ht⟩

theorem eff_setPanic (r : Realm) (p : Option String) : Eff P Q r (r.setPanic p) :=
  eff_of_frame (setPanic_frame r p) ⟨[], by rw [setPanic_tasks]; simp, fun _ h => nomatch h⟩

/-- a dealer action: the sessions it aborts are appended to `ending` with one `leave … aborted` task each -/
theorem eff_applyD (r : Realm) (o : DOut) (ha : ∀ j ∈ o.aborts, P j) : Eff P Q r (r.applyD o) := by
  have hf : SendFrame ({ r with ds := o.st } : Realm) (({ r with ds := o.st } : Realm).deliver o.sends) := deliver_frame _ _
  have hp := setPanic_frame ({ (({ r with ds := o.st } : Realm).deliver o.sends) with
          tasks := (({ r with ds := o.st } : Realm).deliver o.sends).tasks ++
            (o.metaPubs.map Task.metaPub ++ o.aborts.map (fun k => Task.leave k .aborted)),
          ending := (({ r with ds := o.st } : Realm).deliver o.sends).ending ++ o.aborts } : Realm) o.panic
  rw [← applyD_eq] at hp
  refine ⟨hp.cfg.trans hf.cfg, hp.metaProcs.trans hf.metaProcs, hp.metaS.trans hf.metaS, hp.now.trans hf.now,
    hp.clients.trans hf.clients, hp.deferred.trans hf.deferred,
    hp.closedPeers.trans hf.closedPeers, hp.ghosts.trans hf.ghosts, hp.rnd.trans hf.rnd,
    ⟨[], by rw [dapplyD_inbox]; simp, fun _ h => nomatch h⟩, ⟨o.aborts, dapplyD_ending r o, ha⟩,
    ⟨_, by rw [dapplyD_tasks, List.append_assoc, List.append_assoc], ?_⟩,
    ⟨[], by rw [dapplyD_retries]; simp, fun _ h => nomatch h⟩⟩
  intro t ht
  rcases List.mem_append.mp ht with h | h
  · obtain ⟨a, b, c, d, e, rfl⟩ := metaTasks_shape h; trivial
  · rcases List.mem_append.mp h with h | h
    · obtain ⟨p, _, rfl⟩ := List.mem_map.mp h; trivial
    · obtain ⟨j, hj, rfl⟩ := List.mem_map.mp h
      exact ha j hj

/-- marking the sender as ending and queueing its departure -/
theorem eff_end (r : Realm) (k : SessKey) (mode : LeaveMode) (hk : P k) :
    Eff P Q r { r with tasks := r.tasks ++ [.leave k mode], ending := r.ending ++ [k] } :=
  ⟨rfl, rfl, rfl, rfl, rfl, rfl, rfl, rfl, rfl, ⟨[], by simp, fun _ h => nomatch h⟩,
   ⟨[k], rfl, fun j hj => by rw [List.mem_singleton.mp hj]; exact hk⟩,
   ⟨[.leave k mode], rfl, fun t ht => by rw [List.mem_singleton.mp ht]; exact hk⟩,
   ⟨[], by simp, fun _ h => nomatch h⟩⟩

/-! ### the message handlers: only the sender can be ended -/

theorem eff_handlePublish (r : Realm) (s : Session) (req : Nat) (opts : Dict) (topic : String) (args : List WVal)
    (kw : Dict) (hs : (pptScheme opts != "" && !s.hasFeature RolePublisher FeaturePayloadPassthruMode) = true → P s.key) :
    Eff P Q r (handlePublish r s req opts topic args kw) := by
  unfold handlePublish
  simp only [freshPub]
  split
  · split
    · exact eff_trySend _ _
    · exact Eff.refl _
  · split
    · rename_i hppt
      exact (eff_trySend r _).trans (eff_end _ s.key .aborted (hs hppt))
    · split
      · split
        · exact eff_trySend _ _
        · exact Eff.refl _
      · have h0 : Eff P Q r ({ ({ r with pubCount := r.pubCount + 1 } : Realm) with
            broker := (r.broker.syncPublish ({ r with pubCount := r.pubCount + 1 } : Realm).session? r.now
              { publisher := s.key, pubDetails := s.details, topic := topic, pubId := pubBase + r.pubCount, args := args,
                kw := kw, opts := opts,
                excludePub := (match opts.get? OptExcludeMe with
                  | some (.bool b) => b
                  | _ => true),
                disclose := opts.optFlag OptDiscloseMe,
                baseDetails := if (pptScheme opts != "") = true then pptInto opts [] else [] }).1 } : Realm) :=
          ⟨rfl, rfl, rfl, rfl, rfl, rfl, rfl, rfl, rfl, ⟨[], by simp, fun _ h => nomatch h⟩,
            ⟨[], by simp, fun _ h => nomatch h⟩, ⟨[], by simp, fun _ h => nomatch h⟩, ⟨[], by simp, fun _ h => nomatch h⟩⟩
        split
        · exact (h0.trans (eff_deliver _ _)).trans (eff_trySend _ _)
        · exact h0.trans (eff_deliver _ _)

theorem eff_brokerStep (r : Realm) (b : Broker) (n : Nat) (sends : List Send) :
    Eff P Q r (({ r with broker := b, pubCount := n } : Realm).deliver sends) :=
  Eff.trans (b := ({ r with broker := b, pubCount := n } : Realm))
    ⟨rfl, rfl, rfl, rfl, rfl, rfl, rfl, rfl, rfl, ⟨[], by simp, fun _ h => nomatch h⟩,
      ⟨[], by simp, fun _ h => nomatch h⟩, ⟨[], by simp, fun _ h => nomatch h⟩, ⟨[], by simp, fun _ h => nomatch h⟩⟩
    (eff_deliver _ _)

theorem eff_handleSubscribe (r : Realm) (s : Session) (req : Nat) (opts : Dict) (topic : String) :
    Eff P Q r (handleSubscribe r s req opts topic) := by
  unfold handleSubscribe
  extract_lets m
  split
  · exact eff_trySend _ _
  · split
    exact eff_brokerStep _ _ _ _

theorem eff_handleUnsubscribe (r : Realm) (s : Session) (req sub : Nat) : Eff P Q r (handleUnsubscribe r s req sub) := by
  unfold handleUnsubscribe
  split
  exact eff_brokerStep _ _ _ _

theorem eff_handleRegister (r : Realm) (s : Session) (req : Nat) (opts : Dict) (proc : String) :
    Eff P Q r (handleRegister r s req opts proc) := by
  unfold handleRegister
  extract_lets m wampURI disclose invoke fwd
  split
  · exact eff_trySend _ _
  · split
    · exact eff_trySend _ _
    · split
      · exact eff_trySend _ _
      · split
        · exact eff_trySend _ _
        · exact eff_applyD _ _ (by rw [syncRegister_aborts]; intro j hj; cases hj)

theorem eff_handleUnregister (r : Realm) (s : Session) (req reg : Nat) : Eff P Q r (handleUnregister r s req reg) :=
  eff_applyD _ _ (by rw [syncUnregister_aborts]; intro j hj; cases hj)

theorem eff_handleCall (r : Realm) (s : Session) (req : Nat) (opts : Dict) (proc : String) (args : List WVal) (kw : Dict)
    (hs : P s.key) : Eff P Q r (handleCall r s req opts proc args kw) :=
  eff_applyD _ _ (fun j hj => (syncCall_aborts _ _ _ _ _ _ _ _ _ j hj) ▸ hs)

theorem eff_handleCancel (r : Realm) (s : Session) (req : Nat) (opts : Dict) : Eff P Q r (handleCancel r s req opts) := by
  unfold handleCancel
  extract_lets mode0 mode
  split
  · exact eff_applyD _ _ (by rw [syncCancel_aborts]; intro j hj; cases hj)
  · exact eff_trySend _ _

theorem eff_handleError (r : Realm) (s : Session) (req : Nat) (details : Dict) (err : String) (args : List WVal) (kw : Dict) :
    Eff P Q r (handleError r s req details err args kw) :=
  eff_applyD _ _ (by rw [syncError_aborts]; intro j hj; cases hj)

/-- the `Retry` entry `handleYield` creates: the YIELD as it was received, first turn 1 ms later -/
def freshRetry (now : Nat) (k : SessKey) (req : Nat) (opts : Dict) (args : List WVal) (kw : Dict) : Retry :=
  { callee := k, req := req, opts := opts, args := args, kw := kw, progress := opts.optFlag OptProgress,
    start := now, next := now + yieldRetryDelayMs, delay := yieldRetryDelayMs }

theorem eff_handleYield (r : Realm) (s : Session) (req : Nat) (opts : Dict) (args : List WVal) (kw : Dict)
    (hs : ∀ j ∈ (syncYield r.denv r.ds s.key req opts args kw (opts.optFlag OptProgress) true).aborts, P j)
    (hq : Q (freshRetry r.now s.key req opts args kw)) : Eff P Q r (handleYield r s req opts args kw) := by
  unfold handleYield
  extract_lets progress o r1
  have h1 : Eff P Q r r1 := eff_applyD _ _ hs
  split
  · refine h1.trans ⟨rfl, rfl, rfl, rfl, rfl, rfl, rfl, rfl, rfl, ⟨[], by simp, fun _ h => nomatch h⟩,
      ⟨[], by simp, fun _ h => nomatch h⟩, ⟨[], by simp, fun _ h => nomatch h⟩, ⟨[_], rfl, ?_⟩⟩
    intro x hx
    rw [List.mem_singleton.mp hx]
    have : r1.now = r.now := h1.now
    rw [this]
    exact hq
  · exact h1

theorem eff_authzGate (r : Realm) (s : Session) (m : Msg) : Eff P Q r (authzGate r s m).2 := by
  rw [authzGate_eq_gateG]
  unfold gateG
  split
  · exact Eff.refl _
  · split
    · exact Eff.refl _
    · split
      · exact Eff.refl _
      · dsimp only
        split
        · exact Eff.refl _
        · exact eff_trySend _ _

/-- what a `Retry` appended by the handling of message `m` of session `k` at time `now` looks like -/
def YieldRetry (now : Nat) (k : SessKey) (m : Msg) (x : Retry) : Prop :=
  ∃ req opts args kw, m = .yield req opts args kw ∧ x = freshRetry now k req opts args kw

theorem eff_dispatch (r : Realm) (s : Session) (m : Msg) (now : Nat) (hn : r.now = now) :
    Eff (· = s.key) (YieldRetry now s.key m) r (Realm.dispatch r s m) := by
  cases m
  case publish => exact eff_handlePublish _ _ _ _ _ _ _ (fun _ => rfl)
  case yield req opts args kw =>
    exact eff_handleYield _ _ _ _ _ _ (syncYield_aborts _ _ _ _ _ _ _ _ _) ⟨req, opts, args, kw, rfl, by rw [hn]⟩
  case call => exact eff_handleCall _ _ _ _ _ _ _ rfl
  case cancel => exact eff_handleCancel ..
  case subscribe => exact eff_handleSubscribe ..
  case register => exact eff_handleRegister ..
  case unsubscribe => exact eff_handleUnsubscribe ..
  case unregister => exact eff_handleUnregister ..
  case error typ req details err args kw =>
    show Eff _ _ r (if typ != tINVOCATION then _ else handleError r s req details err args kw)
    split
    · exact eff_end _ _ _ rfl
    · exact eff_handleError ..
  case goodbye =>
    exact (eff_trySend r ⟨s.key, .goodbye [] CloseGoodbyeAndOut⟩).trans (eff_end _ _ _ rfl)
  all_goals exact eff_end _ _ _ rfl

/-- WHO CAN BE ENDED BY A MESSAGE: its sender.  Whatever message `m` the handler of session `s` processes
    (authorization gate included): the only key that can be appended to `ending`, the only session a
    `leave` task can be queued for, is `s.key`; the only `Retry` that can be created is the one of a YIELD
    of `s`; clients, deferred departures, testaments, the meta session are untouched. -/
theorem eff_handleMsg (r : Realm) (s : Session) (m : Msg) :
    Eff (· = s.key) (YieldRetry r.now s.key m) r (handleMsg r s m) := by
  rw [handleMsg_eq]
  have hg : Eff (· = s.key) (YieldRetry r.now s.key m) r (authzGate r s m).2 := eff_authzGate r s m
  split
  · exact hg.trans (eff_dispatch _ s m r.now hg.now)
  · exact hg

/-- the arrival of a message from session `k` (`recvMsg`): nothing at all unless `k` is an attached
    client that is not ending; then either the message joins `inbox` (busy, buffered) or it is handled -/
theorem eff_recvMsg (r : Realm) (k : SessKey) (m : Msg) :
    Eff (fun j => j = k ∧ r.isClient k ∧ r.ending.contains k = false)
      (fun x => YieldRetry r.now k m x ∧ r.isClient k ∧ r.ending.contains k = false ∧ r.busy k = false) r (r.recvMsg k m) := by
  rw [recvMsg_eq]
  split
  · exact Eff.refl _
  · rename_i s hs
    have hk : s.key = k := (find?_key hs).2
    have hc : r.isClient k := isClient_of_find hs
    split
    · exact Eff.refl _
    · rename_i he
      have he' : r.ending.contains k = false := by simpa using he
      split
      · split
        · exact ⟨rfl, rfl, rfl, rfl, rfl, rfl, rfl, rfl, rfl,
            ⟨[(k, m)], rfl, fun e h => by rw [List.mem_singleton.mp h]; exact ⟨rfl, hc, he'⟩⟩,
            ⟨[], by simp, fun _ h => nomatch h⟩, ⟨[], by simp, fun _ h => nomatch h⟩, ⟨[], by simp, fun _ h => nomatch h⟩⟩
        · exact Eff.refl _
      · rename_i hb
        have hb' : r.busy k = false := by simpa using hb
        exact (eff_handleMsg r s m).mono (fun j hj => ⟨hj.trans hk, hc, he'⟩) (fun x hx => ⟨hk ▸ hx, hc, he', hb'⟩)

/-! ### task lists that grow by meta invocations only -/

/-- a task list that grew by `metaInvoke` tasks only -/
def OnlyInvokes (old new : List Task) : Prop := ∃ ts, new = old ++ ts ∧ ∀ t ∈ ts, ∃ a b c d e, t = Task.metaInvoke a b c d e

theorem OnlyInvokes.refl (l : List Task) : OnlyInvokes l l := ⟨[], by simp, fun _ h => nomatch h⟩
theorem OnlyInvokes.trans {a b c : List Task} (h1 : OnlyInvokes a b) (h2 : OnlyInvokes b c) : OnlyInvokes a c := by
  obtain ⟨t1, e1, p1⟩ := h1
  obtain ⟨t2, e2, p2⟩ := h2
  refine ⟨t1 ++ t2, by rw [e2, e1, List.append_assoc], ?_⟩
  intro t ht
  rcases List.mem_append.mp ht with h | h
  · exact p1 t h
  · exact p2 t h

theorem onlyInvokes_trySend (r : Realm) (s : Send) : OnlyInvokes r.tasks (r.trySend s).tasks :=
  ⟨_, dtrySend_tasks r s, fun _ ht => metaTask_shape ht⟩
theorem onlyInvokes_deliver (ss : List Send) (r : Realm) : OnlyInvokes r.tasks (r.deliver ss).tasks :=
  ⟨_, ddeliver_tasks ss r, fun _ ht => metaTasks_shape ht⟩
theorem onlyInvokes_deliver' (ss : List Send) (r : Realm) (old : List Task) (h : old = r.tasks) :
    OnlyInvokes old (r.deliver ss).tasks := h ▸ onlyInvokes_deliver ss r

theorem handlePublish_tasks (r : Realm) (s : Session) (req : Nat) (opts : Dict) (topic : String)
    (args : List WVal) (kw : Dict)
    (h : (validUri r.broker.strict "" topic &&
        (pptScheme opts != "" && !s.hasFeature RolePublisher FeaturePayloadPassthruMode)) = false) :
    OnlyInvokes r.tasks (handlePublish r s req opts topic args kw).tasks := by
  unfold handlePublish
  simp only [freshPub]
  split
  · split
    · exact onlyInvokes_trySend _ _
    · exact OnlyInvokes.refl _
  · rename_i hv
    split
    · rename_i hp
      have hv' : validUri r.broker.strict "" topic = true := by
        cases hh : validUri r.broker.strict "" topic
        · rw [hh] at hv; exact absurd rfl hv
        · rfl
      rw [hv', hp] at h; cases h
    · split
      · split
        · exact onlyInvokes_trySend _ _
        · exact OnlyInvokes.refl _
      · split
        · refine OnlyInvokes.trans ?_ (onlyInvokes_trySend _ _)
          exact onlyInvokes_deliver' _ _ _ rfl
        · exact onlyInvokes_deliver' _ _ _ rfl

theorem handlePublish_ending (r : Realm) (s : Session) (req : Nat) (opts : Dict) (topic : String)
    (args : List WVal) (kw : Dict)
    (h : (validUri r.broker.strict "" topic &&
        (pptScheme opts != "" && !s.hasFeature RolePublisher FeaturePayloadPassthruMode)) = false) :
    (handlePublish r s req opts topic args kw).ending = r.ending := by
  unfold handlePublish
  simp only [freshPub]
  split
  · split
    · exact trySend_ending _ _
    · rfl
  · rename_i hv
    split
    · rename_i hp
      have hv' : validUri r.broker.strict "" topic = true := by
        cases hh : validUri r.broker.strict "" topic
        · rw [hh] at hv; exact absurd rfl hv
        · rfl
      rw [hv', hp] at h; cases h
    · split
      · split
        · exact trySend_ending _ _
        · rfl
      · split
        · rw [trySend_ending, deliver_ending]
        · rw [deliver_ending]

theorem authzGate_tasks (r : Realm) (s : Session) (m : Msg) : OnlyInvokes r.tasks (authzGate r s m).2.tasks := by
  rw [authzGate_eq_gateG]
  unfold gateG
  split
  · exact OnlyInvokes.refl _
  · split
    · exact OnlyInvokes.refl _
    · split
      · exact OnlyInvokes.refl _
      · dsimp only
        split
        · exact OnlyInvokes.refl _
        · exact onlyInvokes_trySend _ _

/-! ### protocol violations -/

/-- the messages the router does not expect from a client (every type but PUBLISH, YIELD, CALL, CANCEL,
    SUBSCRIBE, REGISTER, UNSUBSCRIBE, UNREGISTER, GOODBYE, and ERROR answering an INVOCATION) -/
def isViolation : Msg → Bool
  | .publish .. | .yield .. | .call .. | .cancel .. | .subscribe .. | .register .. | .unsubscribe ..
  | .unregister .. | .goodbye .. => false
  | .error typ .. => typ != tINVOCATION
  | _ => true

theorem authzGate_true {r : Realm} {s : Session} {m : Msg} (h : (authzGate r s m).1 = true) : (authzGate r s m).2 = r := by
  revert h
  rw [authzGate_eq_gateG]
  unfold gateG
  split
  · intro _; rfl
  · split
    · intro _; rfl
    · split
      · intro _; rfl
      · intro h; cases h


end Nexus.L2.WpC
