/-
  WP-E: invariants and provenance ALONG THE GHOST TRACE of a history.

  * `hist_inv`: in every record of the trace of a history from a reachable realm the broker invariant and
    `KillOk` hold in the state the action starts in;
  * `hist_evOk`: hence every EVENT among the offers of every action of the history is addressed to a
    member of its subscription, before and after the action (C08);
  * `step_isMember_other`, `Rec.member_change`: an action changes the memberships of at most one session:
    the one whose SUBSCRIBE / UNSUBSCRIBE / departure its script hands to the broker;
  * `hist_entries`, `read_src`: every message waiting in a queue, and every message a client reads, was
    taken from the offers of an action of the history.
-/
import Nexus.L2.Proofs.WpEKill
import Nexus.L2.Proofs.WpEQueue

namespace Nexus.L2.WpE
open Nexus.L2 Nexus.L2.Realm Gen.N

/-! ### traces are well-formed: a `.task t` record starts in a state whose oldest task is `t` -/

def Rec.wf (x : Rec) : Prop := ∀ t, x.act = .task t → x.pre.tasks.head? = some t

theorem traceDrain_wf : ∀ (fuel : Nat) (r : Realm), ∀ x ∈ traceDrain fuel r, x.wf
  | 0, r, x, hx => by
    unfold traceDrain at hx
    split at hx
    · cases hx
    · rw [List.mem_singleton.mp hx]
      intro t e; cases e
  | fuel + 1, r, x, hx => by
    unfold traceDrain at hx
    split at hx
    · cases hx
    · rename_i t ts ht
      rcases List.mem_cons.mp hx with rfl | hx
      · intro t' e
        cases e
        show r.tasks.head? = some t
        rw [ht]; rfl
      · exact traceDrain_wf fuel _ x hx

theorem traceAdvance_wf : ∀ (fuel : Nat) (r : Realm) (target : Nat), ∀ x ∈ traceAdvance fuel r target, x.wf
  | 0, r, target, x, hx => by
    unfold traceAdvance at hx
    simp only [List.mem_cons, List.not_mem_nil, or_false] at hx
    rcases hx with rfl | rfl <;> (intro t e; cases e)
  | fuel + 1, r, target, x, hx => by
    unfold traceAdvance at hx
    split at hx
    · rw [List.mem_singleton.mp hx]; intro t e; cases e
    · rename_i d _
      rcases List.mem_cons.mp hx with rfl | hx
      · intro t e
        cases d <;> cases e
      · rcases List.mem_append.mp hx with hx | hx
        · exact traceDrain_wf _ _ x hx
        · exact traceAdvance_wf fuel _ target x hx

theorem traceStep_wf (r : Realm) (op : Op) : ∀ x ∈ traceStep r op, x.wf := by
  intro x hx
  have flushwf : ∀ q : Realm, (⟨q, .flush⟩ : Rec).wf := fun q t e => by cases e
  by_cases ht : ∃ ms, op = .tick ms
  · obtain ⟨ms, rfl⟩ := ht
    rcases List.mem_append.mp hx with hx | hx
    · exact traceAdvance_wf _ _ _ x hx
    · rw [List.mem_singleton.mp hx]; exact flushwf _
  · have e : traceStep r op =
        ⟨r, .op op⟩ :: (traceDrain taskFuel (r.stepOp op) ++ [⟨drain taskFuel (r.stepOp op), .flush⟩]) := by
      cases op <;> first | rfl | exact absurd ⟨_, rfl⟩ ht
    rw [e] at hx
    rcases List.mem_cons.mp hx with rfl | hx
    · intro t e; cases e
    · rcases List.mem_append.mp hx with hx | hx
      · exact traceDrain_wf _ _ x hx
      · rw [List.mem_singleton.mp hx]; exact flushwf _

theorem traceHist_wf : ∀ (ops : List Op) (r : Realm), ∀ x ∈ traceHist r ops, x.wf
  | [], _, _, hx => nomatch hx
  | op :: ops, r, x, hx => by
    rcases List.mem_append.mp hx with hx | hx
    · exact traceStep_wf r op x hx
    · exact traceHist_wf ops _ x hx

/-! ### invariants along a chain -/

theorem chain_tasksOk {P : SessKey → Msg → Prop} {r r' : Realm} {tr : List Rec} (h : Chain r tr r')
    (hw : ∀ x ∈ tr, x.wf) (hop : ∀ x ∈ tr, ∀ k m, x.act = .op (.msg k m) → P k m) (hk : TasksOk P r) :
    (∀ x ∈ tr, TasksOk P x.pre) ∧ TasksOk P r' := by
  induction h with
  | nil r => exact ⟨fun _ hx => (nomatch hx), hk⟩
  | @cons x tr r' _ ih =>
    have hk' : TasksOk P x.post :=
      tasksOk_apply hk x.act (hw x (List.mem_cons_self ..)) (hop x (List.mem_cons_self ..))
    obtain ⟨i1, i2⟩ := ih (fun y hy => hw y (List.mem_cons_of_mem _ hy))
      (fun y hy => hop y (List.mem_cons_of_mem _ hy)) hk'
    refine ⟨?_, i2⟩
    intro y hy
    rcases List.mem_cons.mp hy with rfl | hy
    · exact hk
    · exact i1 y hy

theorem chain_binv {r r' : Realm} {tr : List Rec} (h : Chain r tr r') (hb : BrokerInv r.broker) :
    (∀ x ∈ tr, BrokerInv x.pre.broker) ∧ BrokerInv r'.broker := by
  induction h with
  | nil r => exact ⟨fun _ hx => (nomatch hx), hb⟩
  | @cons x tr r' _ ih =>
    have hb' : BrokerInv x.post.broker := by rw [x.spec.1]; exact hb.run _
    obtain ⟨i1, i2⟩ := ih hb'
    refine ⟨?_, i2⟩
    intro y hy
    rcases List.mem_cons.mp hy with rfl | hy
    · exact hb
    · exact i1 y hy

theorem chain_inv {r r' : Realm} {tr : List Rec} (h : Chain r tr r') (hw : ∀ x ∈ tr, x.wf)
    (hb : BrokerInv r.broker) (hk : KillOk r) :
    (∀ x ∈ tr, BrokerInv x.pre.broker ∧ KillOk x.pre) ∧ BrokerInv r'.broker ∧ KillOk r' := by
  obtain ⟨b1, b2⟩ := chain_binv h hb
  obtain ⟨k1, k2⟩ := chain_tasksOk (P := fun _ _ => True) h hw (fun _ _ _ _ _ => trivial) hk
  exact ⟨fun x hx => ⟨b1 x hx, k1 x hx⟩, b2, k2⟩

theorem registerMeta_deferred : ∀ (ps : List String) (r : Realm), (registerMeta r ps).deferred = r.deferred
  | [], _ => rfl
  | p :: ps, r => by
    unfold registerMeta
    extract_lets o id
    exact registerMeta_deferred ps _

/-- the state `Realm.create` builds: no task, nothing deferred, no queue, nothing waiting in a transport -/
theorem create_empty {cfg : Config} {r : Realm} (h : Realm.create cfg = some r) :
    r.tasks = [] ∧ r.deferred = [] ∧ r.queues = [] ∧ r.inbox = [] := by
  unfold Realm.create at h
  split at h
  · cases h
  · split at h
    · cases h
    · extract_lets b d at h
      cases h
      obtain ⟨_, _, _, f4, _, _, f7, _⟩ := registerMeta_fields (metaProcNames cfg) { cfg := cfg, broker := b, ds := { d := d } }
      exact ⟨f4, registerMeta_deferred _ _, f7, registerMeta_inbox _ _⟩

theorem tasksOk_create {P : SessKey → Msg → Prop} {cfg : Config} {r : Realm} (h : Realm.create cfg = some r) :
    TasksOk P r := by
  obtain ⟨h1, h2, _, h4⟩ := create_empty h
  exact ⟨by rw [h1]; exact fun _ hx => (nomatch hx), by rw [h2]; exact fun _ hx => (nomatch hx),
    by rw [h4]; exact fun _ hx => (nomatch hx)⟩

theorem killOk_create {cfg : Config} {r : Realm} (h : Realm.create cfg = some r) : KillOk r := tasksOk_create h

theorem Reachable.killOk {cfg : Config} {r : Realm} (h : Realm.Reachable cfg r) : KillOk r := by
  induction h with
  | init h => exact killOk_create h
  | @step r op hr ih =>
    exact (chain_inv (chain_step r op) (traceStep_wf r op) hr.inv.1.binv ih).2.2

/-- IN EVERY RECORD of the ghost trace of a history from a reachable realm, the state the action starts in
    satisfies the broker invariant and `KillOk` -/
theorem hist_inv {cfg : Config} {r : Realm} (h : Realm.Reachable cfg r) (ops : List Op) :
    ∀ x ∈ traceHist r ops, BrokerInv x.pre.broker ∧ KillOk x.pre :=
  (chain_inv (chain_hist ops r) (traceHist_wf ops r) h.inv.1.binv (Reachable.killOk h)).1

/-- C08: every EVENT among the offers of every atomic action of a history is addressed to a session that is a
    member of the EVENT's subscription when the action starts and when it ends -/
theorem hist_evOk {cfg : Config} {r : Realm} (h : Realm.Reachable cfg r) (ops : List Op) :
    ∀ x ∈ traceHist r ops, ∀ s ∈ x.script.offers, ∀ i, s.msg.eventSub? = some i →
      x.pre.broker.isMember s.to i ∧ x.post.broker.isMember s.to i := by
  intro x hx s hs i hi
  obtain ⟨hb, hk⟩ := hist_inv h ops x hx
  have hw := traceHist_wf ops r x hx
  have := Rec.evOk x hb (fun t e => by
    have hh := hw t e
    have hmem : t ∈ x.pre.tasks := by
      cases hl : x.pre.tasks with
      | nil => rw [hl] at hh; cases hh
      | cons a l =>
        rw [hl] at hh
        simp only [List.head?_cons, Option.some.injEq] at hh
        subst hh; exact List.mem_cons_self ..
    exact (hk.tasks t hmem).evOk) s hs i hi
  rw [x.spec.1]
  exact this

/-! ### whose memberships an action changes -/

/-- the session whose SUBSCRIBE / UNSUBSCRIBE / departure the broker step is -/
def stepActor : BStep → Option SessKey
  | .publish .. => none
  | .subscribe k .. => some k
  | .unsubscribe k .. => some k
  | .removeSession k _ => some k

/-- a broker step changes the memberships of its actor only -/
theorem step_isMember_other {b : Broker} (hb : BrokerInv b) (e : BStep) (k : SessKey) (i : Nat)
    (hk : stepActor e ≠ some k) : (b.step e).isMember k i ↔ b.isMember k i := by
  cases e with
  | publish sess now p => exact isMember_congr_subs (syncPublish_subs _ _ _ _).1 _ _
  | subscribe k' req topic m pub0 =>
    obtain ⟨_, _, _, _, _, hoth⟩ := bsyncSubscribe_spec hb k' req topic m pub0
    exact hoth k i (fun e => hk (by rw [e]; rfl))
  | unsubscribe k' req subId pub0 =>
    show (b.syncUnsubscribe k' req subId pub0).1.isMember k i ↔ _
    by_cases hm : b.isMember k' subId
    · obtain ⟨_, _, _, _, hoth⟩ := bsyncUnsubscribe_spec hb k' req subId pub0 hm
      rw [hoth]
      exact ⟨fun h => h.1, fun h => ⟨h, fun e => hk (by rw [e.1]; rfl)⟩⟩
    · rw [syncUnsubscribe_err_state b k' req subId pub0 (by
        intro sb hf hk'
        exact hm ⟨sb, (findId_some hf).1, (findId_some hf).2, hk'⟩)]
  | removeSession k' pub0 =>
    show (b.syncRemoveSession k' pub0).1.isMember k i ↔ _
    rw [syncRemoveSession_isMember hb]
    exact ⟨fun h => h.1, fun h => ⟨h, fun e => hk (by rw [e]; rfl)⟩⟩

theorem run_isMember_other : ∀ (steps : List BStep) {b : Broker}, BrokerInv b → ∀ (k : SessKey) (i : Nat),
    (∀ e ∈ steps, stepActor e ≠ some k) → ((b.run steps).isMember k i ↔ b.isMember k i)
  | [], _, _, _, _, _ => Iff.rfl
  | e :: rest, b, hb, k, i, h => by
    show ((b.step e).run rest).isMember k i ↔ _
    rw [run_isMember_other rest (hb.step e) k i (fun e' he' => h e' (List.mem_cons_of_mem _ he'))]
    exact step_isMember_other hb e k i (h e (List.mem_cons_self ..))

/-- AN ATOMIC ACTION CHANGES THE MEMBERSHIPS OF SESSION `k` ONLY IF its script hands the broker a SUBSCRIBE, an
    UNSUBSCRIBE or the departure OF `k` -/
theorem Rec.member_change (x : Rec) (hb : BrokerInv x.pre.broker) (k : SessKey) (i : Nat)
    (h : ∀ e ∈ x.script.bsteps, stepActor e ≠ some k) : x.post.broker.isMember k i ↔ x.pre.broker.isMember k i := by
  rw [x.spec.1]
  exact run_isMember_other _ hb k i h

/-! ### where the messages in the queues come from -/

/-- `m` was appended to a queue of session `k` by an action of the trace -/
def Src (tr : List Rec) (k : SessKey) (m : Msg) : Prop := ∃ x ∈ tr, (⟨k, m⟩ : Send) ∈ x.enqueued

theorem Src.mono {tr tr' : List Rec} (h : ∀ x ∈ tr, x ∈ tr') {k : SessKey} {m : Msg} (hs : Src tr k m) : Src tr' k m := by
  obtain ⟨x, hx, hm⟩ := hs
  exact ⟨x, h x hx, hm⟩

theorem Rec.entries (x : Rec) : ∀ q ∈ x.post.queues, ∀ m ∈ q.2,
    (∃ q0 ∈ x.pre.queues, q0.1 = q.1 ∧ m ∈ q0.2) ∨ (⟨q.1, m⟩ : Send) ∈ x.enqueued := by
  intro q hq m hm
  cases hf : x.act.isFlush with
  | false => exact x.entries_post hf q hq m hm
  | true =>
    have ha : x.act = .flush := by
      cases ha : x.act <;> rw [ha] at hf <;> first | rfl | cases hf
    have hp : x.post = x.pre.flush.2 := by unfold Rec.post; rw [ha]; rfl
    rw [hp] at hq
    rcases (flush_entries x.pre).1 q hq with h | h
    · exact Or.inl ⟨q, h, rfl, hm⟩
    · rw [h] at hm; cases hm

theorem chain_entries {r r' : Realm} {tr : List Rec} (h : Chain r tr r') : ∀ q ∈ r'.queues, ∀ m ∈ q.2,
    (∃ q0 ∈ r.queues, q0.1 = q.1 ∧ m ∈ q0.2) ∨ Src tr q.1 m := by
  induction h with
  | nil r => exact fun q hq m hm => Or.inl ⟨q, hq, rfl, hm⟩
  | @cons x tr r' _ ih =>
    intro q hq m hm
    rcases ih q hq m hm with ⟨q0, hq0, hk, hm0⟩ | hs
    · rcases x.entries q0 hq0 m hm0 with ⟨q1, hq1, hk1, hm1⟩ | he
      · exact Or.inl ⟨q1, hq1, hk1.trans hk, hm1⟩
      · exact Or.inr ⟨x, List.mem_cons_self .., by rw [← hk]; exact he⟩
    · exact Or.inr (hs.mono (fun y hy => List.mem_cons_of_mem _ hy))

/-- the records of `traceStep r op` but the last lead to the state `flush` is applied to -/
theorem traceStep_flush (r : Realm) (op : Op) :
    ∃ tr q, traceStep r op = tr ++ [⟨q, .flush⟩] ∧ Chain r tr q ∧ r.step op = q.flush := by
  by_cases ht : ∃ ms, op = .tick ms
  · obtain ⟨ms, rfl⟩ := ht
    exact ⟨_, _, rfl, chain_advance _ _ _, rfl⟩
  · have e : traceStep r op =
        ⟨r, .op op⟩ :: (traceDrain taskFuel (r.stepOp op) ++ [⟨drain taskFuel (r.stepOp op), .flush⟩]) := by
      cases op <;> first | rfl | exact absurd ⟨_, rfl⟩ ht
    refine ⟨⟨r, .op op⟩ :: traceDrain taskFuel (r.stepOp op), drain taskFuel (r.stepOp op), ?_, ?_, ?_⟩
    · rw [e]; rfl
    · exact Chain.cons (x := ⟨r, .op op⟩) (chain_drain _ _)
    · exact step_of_not_tick r op (fun ms e => ht ⟨ms, e⟩)

/-- EVERY MESSAGE WAITING IN A QUEUE after a history from a fresh realm was appended by an action of the history -/
theorem hist_entries {cfg : Config} {r0 : Realm} (h0 : Realm.create cfg = some r0) (ops : List Op) :
    ∀ q ∈ (runOps r0 ops).queues, ∀ m ∈ q.2, Src (traceHist r0 ops) q.1 m := by
  intro q hq m hm
  rcases chain_entries (chain_hist ops r0) q hq m hm with ⟨q0, hq0, _, _⟩ | h
  · rw [(create_empty h0).2.2.1] at hq0; cases hq0
  · exact h

/-- EVERY MESSAGE A CLIENT READS (at the end of the step for input `op`, after the history `ops` from a fresh
    realm) was appended to its queue by an action of the history -/
theorem read_src {cfg : Config} {r0 : Realm} (h0 : Realm.create cfg = some r0) (ops : List Op) (op : Op) :
    ∀ q ∈ ((runOps r0 ops).step op).1.out, ∀ m ∈ q.2, Src (traceHist r0 (ops ++ [op])) q.1 m := by
  intro q hq m hm
  obtain ⟨tr, p, e, hc, hs⟩ := traceStep_flush (runOps r0 ops) op
  rw [hs] at hq
  have hq' : q ∈ p.queues := (flush_entries p).2 q hq
  have hchain : Chain r0 (traceHist r0 ops ++ tr) p := (chain_hist ops r0).append hc
  have hsub : ∀ x ∈ traceHist r0 ops ++ tr, x ∈ traceHist r0 (ops ++ [op]) := by
    intro x hx
    rw [traceHist_append]
    show x ∈ traceHist r0 ops ++ (traceStep (runOps r0 ops) op ++ [])
    rw [List.append_nil, e]
    rcases List.mem_append.mp hx with h | h
    · exact List.mem_append_left _ h
    · exact List.mem_append_right _ (List.mem_append_left _ h)
  rcases chain_entries hchain q hq' m hm with ⟨q0, hq0, _, _⟩ | h
  · rw [(create_empty h0).2.2.1] at hq0; cases hq0
  · exact h.mono hsub

end Nexus.L2.WpE
