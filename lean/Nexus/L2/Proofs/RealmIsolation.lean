/-
  The departure of one session and the other sessions (helper lemmas for C04_isolation):
  queues only grow, memberships and registrations of the others are untouched.
-/
import Nexus.L2.Proofs.RealmLeave

namespace Nexus.L2
namespace Realm
open Gen.N

/-! ### fields that sending never touches: broker -/

theorem setPanic_broker (r : Realm) (p : Option String) : (r.setPanic p).broker = r.broker := by
  unfold setPanic; split <;> rfl

theorem trySend_broker (r : Realm) (s : Send) : (r.trySend s).broker = r.broker := by
  unfold trySend
  split
  · split <;> rfl
  · split
    · exact setPanic_broker _ _
    · split
      · rfl
      · split <;> rfl

theorem deliver_broker : ∀ (ss : List Send) (r : Realm), (r.deliver ss).broker = r.broker
  | [], _ => rfl
  | s :: ss, r => by rw [deliver, deliver_broker ss, trySend_broker]

theorem applyD_broker (r : Realm) (o : DOut) : (r.applyD o).broker = r.broker := by
  rw [applyD_eq, setPanic_broker]
  exact deliver_broker _ _

/-! ### queues only grow -/

/-- every queue of `r'` is the queue of `r` with messages appended -/
def QGrow (r r' : Realm) : Prop := ∀ k, ∃ extra, queueOfList r'.queues k = queueOfList r.queues k ++ extra

theorem QGrow.refl (r : Realm) : QGrow r r := fun _ => ⟨[], by simp⟩

theorem QGrow.of_eq {r r' : Realm} (h : r'.queues = r.queues) : QGrow r r' := fun _ => ⟨[], by rw [h]; simp⟩

theorem QGrow.trans {a b c : Realm} (h1 : QGrow a b) (h2 : QGrow b c) : QGrow a c := by
  intro k
  obtain ⟨e1, h1⟩ := h1 k
  obtain ⟨e2, h2⟩ := h2 k
  exact ⟨e1 ++ e2, by rw [h2, h1, List.append_assoc]⟩

theorem trySend_queues (r : Realm) (s : Send) :
    (r.trySend s).queues = r.queues ∨ (r.trySend s).queues = enqueue r.queues s.to s.msg := by
  unfold trySend enqueue
  split
  · split <;> exact Or.inl rfl
  · split
    · exact Or.inl (setPanic_queues _ _)
    · split
      · exact Or.inl rfl
      · split
        · right; rfl
        · right; rfl

theorem qgrow_trySend (r : Realm) (s : Send) : QGrow r (r.trySend s) := by
  rcases trySend_queues r s with h | h
  · exact QGrow.of_eq h
  · intro k
    rw [h, queueOfList_enqueue]
    by_cases e : k = s.to
    · subst e; exact ⟨[s.msg], by simp⟩
    · exact ⟨[], by simp [e]⟩

theorem qgrow_deliver : ∀ (ss : List Send) (r : Realm), QGrow r (r.deliver ss)
  | [], r => QGrow.refl r
  | s :: ss, r => (qgrow_trySend r s).trans (qgrow_deliver ss _)

theorem qgrow_applyD (r : Realm) (o : DOut) : QGrow r (r.applyD o) := by
  rw [applyD_eq]
  refine QGrow.trans ?_ (QGrow.of_eq (setPanic_queues _ _))
  exact (QGrow.of_eq (r := r) (r' := ({ r with ds := o.st } : Realm)) rfl).trans
    ((qgrow_deliver o.sends _).trans (QGrow.of_eq rfl))

theorem qgrow_leave (r : Realm) (k : SessKey) (mode : LeaveMode) : QGrow r (r.leave k mode) := by
  cases hf : r.clients.find? (fun c => c.key == k) with
  | none => rw [leave_none mode hf]; exact QGrow.refl r
  | some s =>
    rw [leave_some mode hf]
    have h1 : QGrow r (leaveSend r k mode) := by
      cases mode <;> first | exact qgrow_trySend _ _ | exact QGrow.refl _
    have h2 : QGrow (leaveSend r k mode) ((leaveSend r k mode).takeTestaments k).2 := by
      unfold takeTestaments; split <;> exact QGrow.refl _
    have h3 : ∀ (x : Realm) (q : Bool), QGrow x (leaveRemove x k q) := by
      intro x q
      unfold leaveRemove
      split
      · extract_lets o
        split
        exact QGrow.of_eq (setPanic_queues _ _)
      · extract_lets o ra
        split
        exact (qgrow_applyD x o).trans ((QGrow.of_eq rfl).trans (qgrow_deliver _ _))
    have h4 : ∀ (x : Realm) (t : Option TBucket) (b : Bool), QGrow x (leaveAnnounce x s t b) := by
      intro x t b; unfold leaveAnnounce; split <;> exact QGrow.refl _
    exact h1.trans (h2.trans ((h3 _ _).trans ((h4 _ _ _).trans (QGrow.of_eq rfl))))

/-! ### broker and dealer tables after a departure -/

theorem leaveRemove_tables (r : Realm) (k : SessKey) (quiet : Bool) :
    (∃ p, (leaveRemove r k quiet).broker = (r.broker.syncRemoveSession k p).1) ∧
    (leaveRemove r k quiet).ds = (syncRemoveSession r.denv r.ds k).st := by
  unfold leaveRemove
  split
  · extract_lets o
    split
    rename_i b x1 x2 heq
    refine ⟨⟨r.pubCount, ?_⟩, ?_⟩
    · rw [setPanic_broker, heq]
    · rw [setPanic_ds]
  · extract_lets o ra
    split
    rename_i b sends n heq
    refine ⟨⟨ra.pubCount, ?_⟩, ?_⟩
    · rw [deliver_broker]
      show b = _
      have : ra.broker = r.broker := applyD_broker r o
      rw [← this, heq]
    · rw [deliver_ds]
      exact applyD_ds r o

theorem leave_tables {r : Realm} {k : SessKey} {s : Session} (mode : LeaveMode)
    (hf : r.clients.find? (fun c => c.key == k) = some s) :
    (∃ p, (r.leave k mode).broker = (r.broker.syncRemoveSession k p).1) ∧
    ∃ env, (r.leave k mode).ds = (syncRemoveSession env r.ds k).st := by
  rw [leave_some mode hf]
  have hb1 : (leaveSend r k mode).broker = r.broker := by
    cases mode <;> first | exact trySend_broker _ _ | rfl
  have hd1 : (leaveSend r k mode).ds = r.ds := by
    cases mode <;> first | exact trySend_ds _ _ | rfl
  have hb2 : ((leaveSend r k mode).takeTestaments k).2.broker = r.broker := by
    unfold takeTestaments; split <;> exact hb1
  have hd2 : ((leaveSend r k mode).takeTestaments k).2.ds = r.ds := by
    unfold takeTestaments; split <;> exact hd1
  obtain ⟨⟨p, hp⟩, hd⟩ := leaveRemove_tables ((leaveSend r k mode).takeTestaments k).2 k mode.isShutdown
  have h4b : ∀ (x : Realm) (t : Option TBucket) (b : Bool), (leaveAnnounce x s t b).broker = x.broker := by
    intro x t b; unfold leaveAnnounce; split <;> rfl
  have h4d : ∀ (x : Realm) (t : Option TBucket) (b : Bool), (leaveAnnounce x s t b).ds = x.ds := by
    intro x t b; unfold leaveAnnounce; split <;> rfl
  refine ⟨⟨p, ?_⟩, ⟨((leaveSend r k mode).takeTestaments k).2.denv, ?_⟩⟩
  · show (leaveAnnounce _ _ _ _).broker = _
    rw [h4b, hp, hb2]
  · show (leaveAnnounce _ _ _ _).ds = _
    rw [h4d, hd, hd2]

end Realm
end Nexus.L2
