/-
  Concrete reachable dealer states used as non-vacuity witnesses by the property files
  C02, C03, C12, C13: every state below is built from the empty dealer by the model's own
  `sync*` functions (so it is `Reachable`, hence satisfies `DealerInv`).
-/
import Nexus.L2.Proofs.DealerReply

namespace Nexus.L2.Ex
open Gen.N Nexus

/-- session 1: a callee that supports call canceling, progressive results/invocations and call timeout -/
def calleeS : Session :=
  { key := 1, details := [], isLocal := false,
    roles := [(RoleCallee, [FeatureCallCanceling, FeatureProgCallResults, FeatureProgCallInvocations, FeatureCallTimeout,
                            FeatureCallerIdent])] }
/-- session 2: a caller that may use progressive call invocations -/
def callerS : Session :=
  { key := 2, details := [("authid", .str "alice"), ("authrole", .str "user")], isLocal := false,
    roles := [(RoleCaller, [FeatureProgCallInvocations])] }
/-- session 3: a callee without any feature -/
def plainS : Session := { key := 3, details := [], isLocal := false, roles := [(RoleCallee, [])] }

def sessions (k : SessKey) : Option Session :=
  if k = 1 then some calleeS else if k = 2 then some callerS else if k = 3 then some plainS else none

/-- every queue has room, time 0 -/
def env : DEnv := { sess := sessions, full := fun _ => false, now := 0 }
/-- the caller (session 2) has stopped reading -/
def envCallerFull : DEnv := { sess := sessions, full := fun k => k == 2, now := 0 }

def s0 : DState := { d := { strict := false, allowDisclose := false } }
/-- session 1 registered "p" (exact, single) -/
def sReg : DState := (syncRegister s0 1 1 "p" "" "" false false false).st
/-- … and session 2 has a pending call (request 5) to it: invocation (1, 1) -/
def sCall : DState := (syncCall env sReg 2 5 [] "p" [.int 7] [] 0).st
/-- … which the caller cancelled in kill mode: the call waits for the callee's answer -/
def sKill : DState := (syncCancel env sCall 2 5 CancelModeKill ErrCanceled []).st
/-- a pending call with a router-side timeout of 100 ms armed at time 0 -/
def sTimed : DState := (syncCall env sReg 2 6 [(OptTimeout, .int 100)] "p" [] [] 0).st
/-- a pending progressive call invocation (first chunk) -/
def sProg : DState := (syncCall env sReg 2 7 [(OptProgress, .bool true)] "p" [] [] 0).st

/-- a registration served by the feature-less session 3 -/
def regPlain : Reg :=
  { id := 1, proc := "p", «match» := "", policy := "", disclose := false, fwdTimeout := false, callees := [3] }

/-- what the examples compare of a queued message: recipient, message type, request id it answers (if it is a
    reply to a CALL), and whether it is a final reply -/
def summary (x : Send) : SessKey × Nat × Option Nat × Bool := (x.to, x.msg.typeCode, x.msg.replyReq, x.msg.isFinalReply)

theorem s0_reach : Reachable s0 := .init false false
theorem sReg_reach : Reachable sReg := .step s0_reach (.register 1 1 "p" "" "" false false false (by decide))
theorem sCall_reach : Reachable sCall := .step sReg_reach (.call env 2 5 [] "p" [.int 7] [] 0)
theorem sKill_reach : Reachable sKill := .step sCall_reach (.cancel env 2 5 CancelModeKill ErrCanceled [])
theorem sTimed_reach : Reachable sTimed := .step sReg_reach (.call env 2 6 [(OptTimeout, .int 100)] "p" [] [] 0)
theorem sProg_reach : Reachable sProg := .step sReg_reach (.call env 2 7 [(OptProgress, .bool true)] "p" [] [] 0)

/-- the pending invocation of `sCall` -/
def vCall : Invk := { id := ⟨1, 1⟩, callId := ⟨2, 5⟩, callee := 1, options := [] }

theorem sCall_calls : sCall.d.calls = [⟨2, 5⟩] := by decide +kernel
theorem sCall_inv_ids : sCall.d.invs.map (fun v => (v.id, v.callId, v.callee, v.canceled, v.timer)) =
    [(⟨1, 1⟩, ⟨2, 5⟩, 1, false, none)] := by decide +kernel
theorem sKill_calls : sKill.d.calls = [⟨2, 5⟩] := by decide +kernel
theorem sKill_inv_ids : sKill.d.invs.map (fun v => (v.id, v.callId, v.callee, v.canceled, v.timer)) =
    [(⟨1, 1⟩, ⟨2, 5⟩, 1, true, none)] := by decide +kernel
theorem sTimed_timers : sTimed.timers.map (fun t => (t.id, t.deadline, t.caller, t.req, t.canceled)) =
    [(1, 100, 2, 6, false)] := by decide +kernel
theorem sTimed_inv_ids : sTimed.d.invs.map (fun v => (v.id, v.callId, v.callee, v.canceled, v.timer)) =
    [(⟨1, 1⟩, ⟨2, 6⟩, 1, false, some 1)] := by decide +kernel
theorem sProg_inv_ids : sProg.d.invs.map (fun v => (v.id, v.callId, v.callee, v.inProgress)) =
    [(⟨1, 1⟩, ⟨2, 7⟩, 1, true)] := by decide +kernel

/-! ### a progressive call invocation with a router-side timeout: two chunks, two timers, the first one cancelled by
    the second chunk -/

def env50 : DEnv := { sess := sessions, full := fun _ => false, now := 50 }
def env100 : DEnv := { sess := sessions, full := fun _ => false, now := 100 }
/-- first chunk at time 0 with timeout 100: timer 1, deadline 100 -/
def sProgT : DState := (syncCall env sReg 2 8 [(OptProgress, .bool true), (OptTimeout, .int 100)] "p" [] [] 0).st
/-- second chunk at time 50: timer 1 is cancelled; timer 2, deadline 150, is armed and recorded in the invocation -/
def sProgT2 : DState := (syncCall env50 sProgT 2 8 [(OptProgress, .bool true)] "p" [] [] 0).st

theorem sProgT_reach : Reachable sProgT :=
  .step sReg_reach (.call env 2 8 [(OptProgress, .bool true), (OptTimeout, .int 100)] "p" [] [] 0)
theorem sProgT2_reach : Reachable sProgT2 := .step sProgT_reach (.call env50 2 8 [(OptProgress, .bool true)] "p" [] [] 0)

theorem sProgT2_timers : sProgT2.timers.map (fun t => (t.id, t.deadline, t.caller, t.req, t.canceled)) =
    [(1, 100, 2, 8, true), (2, 150, 2, 8, false)] := by decide +kernel
theorem sProgT2_inv : sProgT2.d.invs.map (fun v => (v.id, v.callId, v.canceled, v.timer)) =
    [(⟨1, 1⟩, ⟨2, 8⟩, false, some 2)] := by decide +kernel

/-! ### a shared registration, a progressive call, and the serving callee unregisters -/

/-- sessions 1 and 3 share "s" (round robin): registration 2 -/
def sShared : DState :=
  (syncRegister (syncRegister sReg 1 2 "s" "" InvokeRoundRobin false false false).st 3 1 "s" "" InvokeRoundRobin
    false false false).st
/-- session 2's progressive call (request 9) to "s" is routed to session 1 -/
def sSharedCall : DState := (syncCall env sShared 2 9 [(OptProgress, .bool true)] "s" [] [] 0).st
/-- session 1 unregisters registration 2, which lives on with session 3; the call is still pending at session 1 -/
def sSharedUnreg : DState := (syncUnregister sSharedCall 1 3 2).st

theorem sShared_reach : Reachable sShared :=
  .step (.step sReg_reach (.register 1 2 "s" "" InvokeRoundRobin false false false (by decide)))
    (.register 3 1 "s" "" InvokeRoundRobin false false false (by decide))
theorem sSharedCall_reach : Reachable sSharedCall := .step sShared_reach (.call env 2 9 [(OptProgress, .bool true)] "s" [] [] 0)
theorem sSharedUnreg_reach : Reachable sSharedUnreg := .step sSharedCall_reach (.unregister 1 3 2)

theorem sSharedUnreg_regs : sSharedUnreg.d.regs.map (fun r => (r.id, r.callees)) = [(1, [1]), (2, [3])] := by decide +kernel
theorem sSharedUnreg_inv : sSharedUnreg.d.invs.map (fun v => (v.id, v.callId, v.callee, v.regId)) =
    [(⟨1, 1⟩, ⟨2, 9⟩, 1, 2)] := by decide +kernel

/-! ### a later chunk naming another procedure -/

/-- session 3 additionally registered "q" (registration 2) -/
def sReg2 : DState := (syncRegister sReg 3 2 "q" "" "" false false false).st
/-- session 2's progressive call (request 7) to "p" is pending at session 1 -/
def sProg2 : DState := (syncCall env sReg2 2 7 [(OptProgress, .bool true)] "p" [] [] 0).st

theorem sReg2_reach : Reachable sReg2 := .step sReg_reach (.register 3 2 "q" "" "" false false false (by decide))
theorem sProg2_reach : Reachable sProg2 := .step sReg2_reach (.call env 2 7 [(OptProgress, .bool true)] "p" [] [] 0)

end Nexus.L2.Ex
