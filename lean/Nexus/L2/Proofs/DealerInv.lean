/-
  DealerInv — the invariant of the dealer model (Nexus.L2.Dealer) carried by the
  property theorems C02, C03, C05, C12, C13 (DESIGN.md Appendix B).

  It is a conjunction of three independent parts:
  * `RegInv`  — registrations and the callee index (`calleeRegIDSet`);
  * `CallInv` — `calls`, `invocations`, `invocationByCall`;
  * `AuxInv`  — invocation-id generators (`invGen`) and call timers.

  This file: definitions, lookup lemmas under the invariant, and the elementary
  state updates the `sync*` functions are built from.  Preservation by the `sync*`
  functions themselves is in `DealerPres.lean`.
-/
import Nexus.L2.Realm
import Nexus.L2.Proofs.DealerList

namespace Nexus.L2
open Gen.N

/-! ### definitions -/

/-- last invocation id drawn from the generator of session `k` (0 = none yet) -/
def genOf (g : List (SessKey × Nat)) (k : SessKey) : Nat :=
  match g.find? (fun p => p.1 == k) with
  | some p => p.2
  | none => 0

/-- session `c` is a callee of the registration with id `id` -/
def calleeRel (regs : List Reg) (id : Nat) (c : SessKey) : Prop :=
  ∃ r ∈ regs, r.id = id ∧ c ∈ r.callees

/-- the part of the registration invariant that does not mention the index -/
structure RegsOk (regs : List Reg) (nextReg : Nat) : Prop where
  /-- registration ids are distinct -/
  ids : (regs.map (·.id)).Nodup
  /-- at most one registration per (procedure, kind of match) -/
  keys : (regs.map (fun r => (r.proc, r.kind))).Nodup
  /-- ids are positive and were drawn from the generator -/
  range : ∀ r ∈ regs, 0 < r.id ∧ r.id ≤ nextReg
  /-- callee lists are non-empty and duplicate-free -/
  callees : ∀ r ∈ regs, r.callees ≠ [] ∧ r.callees.Nodup
  /-- a registration with the single policy has one callee -/
  single : ∀ r ∈ regs, (r.policy = "" ∨ r.policy = InvokeSingle) → r.callees.length ≤ 1
  /-- only the invocation policies `dealer.register` accepts are stored -/
  known : ∀ r ∈ regs, r.policy ∈ Realm.knownPolicies

structure RegInv (d : Dealer) : Prop where
  regs : RegsOk d.regs d.nextReg
  /-- the index has one entry per session and no id twice -/
  ix : IdxOk d.index
  /-- `calleeRegIDSet` agrees with callee membership -/
  ixIff : ∀ k id, id ∈ idxIds d.index k ↔ calleeRel d.regs id k

structure CallInv (d : Dealer) : Prop where
  calls : d.calls.Nodup
  /-- invocation ids are distinct -/
  invIds : (d.invs.map (·.id)).Nodup
  /-- no two invocations serve the same call -/
  invCalls : (d.invs.map (·.callId)).Nodup
  byFst : (d.byCall.map (·.1)).Nodup
  bySnd : (d.byCall.map (·.2)).Nodup
  /-- the domain of `invocationByCall` is `calls`: every call has an invocation -/
  callBy : ∀ c, c ∈ d.calls ↔ ∃ i, (c, i) ∈ d.byCall
  /-- `invocationByCall` is exactly the relation `callId ↦ id` of the stored invocations -/
  byInv : ∀ c i, (c, i) ∈ d.byCall ↔ ∃ v ∈ d.invs, v.id = i ∧ v.callId = c
  /-- the `callee` field of an invocation is the session its id was issued to -/
  callee : ∀ v ∈ d.invs, v.callee = v.id.sess

structure AuxInv (s : DState) : Prop where
  /-- invocation ids issued to a callee are positive and ≤ that callee's generator -/
  gen : ∀ v ∈ s.d.invs, 0 < v.id.req ∧ v.id.req ≤ genOf s.invGen v.id.sess
  timerIds : (s.timers.map (·.id)).Nodup
  timerRange : ∀ t ∈ s.timers, 0 < t.id ∧ t.id ≤ s.nextTimer
  /-- the timer recorded in an invocation, if still there, is a timer for that invocation's call -/
  invTimer : ∀ v ∈ s.d.invs, ∀ tid, v.timer = some tid →
    0 < tid ∧ tid ≤ s.nextTimer ∧ ∀ t ∈ s.timers, t.id = tid → t.caller = v.callId.sess ∧ t.req = v.callId.req
  /-- two invocations never record the same timer -/
  invTimerInj : ∀ v ∈ s.d.invs, ∀ w ∈ s.d.invs, ∀ tid, v.timer = some tid → w.timer = some tid → v.id = w.id
  /-- every armed, not cancelled timer is THE timer recorded in the stored invocation of its call: a pending call has
      at most one live timer, and no live timer is left behind by a call that is gone (a later chunk of a progressive
      call invocation cancels the previous timer before arming the next; every completion cancels the recorded one) -/
  timerOwned : ∀ t ∈ s.timers, t.canceled = false → ∃ v ∈ s.d.invs, v.callId = ⟨t.caller, t.req⟩ ∧ v.timer = some t.id

/-- The dealer invariant. -/
structure DealerInv (s : DState) : Prop where
  reg : RegInv s.d
  call : CallInv s.d
  aux : AuxInv s

/-! ### field projections of the table updates -/

section proj
variable (d : Dealer) (r : Reg) (v : Invk) (c i : ReqId) (id : Nat)

@[simp] theorem setReg_calls : (d.setReg r).calls = d.calls := rfl
@[simp] theorem setReg_invs : (d.setReg r).invs = d.invs := rfl
@[simp] theorem setReg_byCall : (d.setReg r).byCall = d.byCall := rfl
@[simp] theorem setReg_index : (d.setReg r).index = d.index := rfl
@[simp] theorem setReg_nextReg : (d.setReg r).nextReg = d.nextReg := rfl
@[simp] theorem setReg_allow : (d.setReg r).allowDisclose = d.allowDisclose := rfl
@[simp] theorem delReg_calls : (d.delReg id).calls = d.calls := rfl
@[simp] theorem delReg_invs : (d.delReg id).invs = d.invs := rfl
@[simp] theorem delReg_byCall : (d.delReg id).byCall = d.byCall := rfl
@[simp] theorem delReg_index : (d.delReg id).index = d.index := rfl
@[simp] theorem delReg_nextReg : (d.delReg id).nextReg = d.nextReg := rfl
@[simp] theorem setInv_calls : (d.setInv v).calls = d.calls := rfl
@[simp] theorem setInv_byCall : (d.setInv v).byCall = d.byCall := rfl
@[simp] theorem setInv_regs : (d.setInv v).regs = d.regs := rfl
@[simp] theorem setInv_index : (d.setInv v).index = d.index := rfl
@[simp] theorem setInv_nextReg : (d.setInv v).nextReg = d.nextReg := rfl
@[simp] theorem setInv_allow : (d.setInv v).allowDisclose = d.allowDisclose := rfl
@[simp] theorem forget_calls : (d.forget c i).calls = d.calls.filter (· != c) := rfl
@[simp] theorem forget_invs : (d.forget c i).invs = d.invs.filter (fun x => x.id != i) := rfl
@[simp] theorem forget_byCall : (d.forget c i).byCall = d.byCall.filter (fun p => p.1 != c) := rfl
@[simp] theorem forget_regs : (d.forget c i).regs = d.regs := rfl
@[simp] theorem forget_index : (d.forget c i).index = d.index := rfl
@[simp] theorem forget_nextReg : (d.forget c i).nextReg = d.nextReg := rfl
@[simp] theorem forget_allow : (d.forget c i).allowDisclose = d.allowDisclose := rfl

theorem delInv_delByCall_delCall : ((d.delInv i).delByCall c).delCall c = d.forget c i := rfl
theorem delCall_delByCall_delInv : ((d.delCall c).delByCall c).delInv i = d.forget c i := rfl

end proj

@[simp] theorem cancelTimer_d (s : DState) (t : Option Nat) : (s.cancelTimer t).d = s.d := by
  cases t <;> rfl
@[simp] theorem cancelTimer_nextTimer (s : DState) (t : Option Nat) : (s.cancelTimer t).nextTimer = s.nextTimer := by
  cases t <;> rfl
@[simp] theorem cancelTimer_invGen (s : DState) (t : Option Nat) : (s.cancelTimer t).invGen = s.invGen := by
  cases t <;> rfl

/-- `cancelTimer` only sets `canceled` flags -/
theorem cancelTimer_timers (s : DState) (t : Option Nat) :
    (s.cancelTimer t).timers =
      s.timers.map (fun x => if some x.id = t then { x with canceled := true } else x) := by
  cases t with
  | none => simp [DState.cancelTimer]
  | some id =>
    simp only [DState.cancelTimer, Option.some.injEq]
    apply List.map_congr_left
    intro x _
    by_cases h : x.id = id <;> simp [h]

theorem cancelTimer_timers_shape (s : DState) (t : Option Nat) :
    (s.cancelTimer t).timers.map (fun x => (x.id, x.caller, x.req, x.deadline)) =
      s.timers.map (fun x => (x.id, x.caller, x.req, x.deadline)) := by
  rw [cancelTimer_timers, List.map_map]
  apply List.map_congr_left
  intro x _
  simp only [Function.comp]
  split <;> rfl

/-! ### lookups under the invariant -/

theorem findProc_eq_some {d : Dealer} (h : (d.regs.map (fun r => (r.proc, r.kind))).Nodup)
    {proc : String} {k : MatchKind} {r : Reg} :
    d.findProc proc k = some r ↔ r ∈ d.regs ∧ r.kind = k ∧ r.proc = proc := by
  unfold Dealer.findProc
  constructor
  · intro hf
    have := List.find?_some hf
    simp only [Bool.and_eq_true, beq_iff_eq] at this
    exact ⟨List.mem_of_find?_eq_some hf, this.1, this.2⟩
  · rintro ⟨hm, hk, hp⟩
    cases hw : d.regs.find? (fun r => r.kind == k && r.proc == proc) with
    | none =>
      rw [List.find?_eq_none] at hw
      exact absurd (by simp [hk, hp]) (hw r hm)
    | some w =>
      have h1 := List.mem_of_find?_eq_some hw
      have h2 := List.find?_some hw
      simp only [Bool.and_eq_true, beq_iff_eq] at h2
      have : (fun r : Reg => (r.proc, r.kind)) w = (fun r : Reg => (r.proc, r.kind)) r := by
        simp [h2.1, h2.2, hk, hp]
      rw [nodup_map_inj h h1 hm this]

theorem findProc_eq_none {d : Dealer} {proc : String} {k : MatchKind} :
    d.findProc proc k = none ↔ ∀ r ∈ d.regs, ¬ (r.kind = k ∧ r.proc = proc) := by
  unfold Dealer.findProc
  rw [List.find?_eq_none]
  constructor <;> intro h r hr <;> simpa using h r hr

theorem findReg_eq_some {d : Dealer} (h : (d.regs.map (·.id)).Nodup) {id : Nat} {r : Reg} :
    d.findReg id = some r ↔ r ∈ d.regs ∧ r.id = id :=
  find?_key_eq_some (f := fun r : Reg => r.id) h

theorem findReg_eq_none {d : Dealer} {id : Nat} : d.findReg id = none ↔ ∀ r ∈ d.regs, r.id ≠ id :=
  find?_key_eq_none (f := fun r : Reg => r.id)

theorem findInv_eq_some {d : Dealer} (h : (d.invs.map (·.id)).Nodup) {i : ReqId} {v : Invk} :
    d.findInv i = some v ↔ v ∈ d.invs ∧ v.id = i :=
  find?_key_eq_some (f := fun v : Invk => v.id) h

theorem findInv_some_mem {d : Dealer} {i : ReqId} {v : Invk} (h : d.findInv i = some v) :
    v ∈ d.invs ∧ v.id = i :=
  ⟨List.mem_of_find?_eq_some h, by simpa using List.find?_some h⟩

theorem findInv_eq_none {d : Dealer} {i : ReqId} : d.findInv i = none ↔ ∀ v ∈ d.invs, v.id ≠ i :=
  find?_key_eq_none (f := fun v : Invk => v.id)

theorem byCall?_eq_some {d : Dealer} (h : (d.byCall.map (·.1)).Nodup) {c i : ReqId} :
    d.byCall? c = some i ↔ (c, i) ∈ d.byCall := by
  unfold Dealer.byCall?
  constructor
  · intro hg
    rcases Option.map_eq_some_iff.1 hg with ⟨p, hp, rfl⟩
    obtain ⟨hm, hk⟩ := (find?_key_eq_some (f := fun p : ReqId × ReqId => p.1) h).1 hp
    cases p; simp only at hk; subst hk; exact hm
  · intro hm
    rw [(find?_key_eq_some (f := fun p : ReqId × ReqId => p.1) (k := c) h).2 ⟨hm, rfl⟩]; rfl

theorem byCall?_eq_none {d : Dealer} {c : ReqId} : d.byCall? c = none ↔ ∀ p ∈ d.byCall, p.1 ≠ c := by
  unfold Dealer.byCall?
  rw [Option.map_eq_none_iff]
  exact find?_key_eq_none (f := fun p : ReqId × ReqId => p.1)

theorem contains_calls {d : Dealer} {c : ReqId} : d.calls.contains c = true ↔ c ∈ d.calls := by
  simp

namespace CallInv
variable {d : Dealer} (h : CallInv d)
include h

/-- a pending call has its link and its invocation -/
theorem lookup {c : ReqId} (hc : c ∈ d.calls) :
    ∃ i v, d.byCall? c = some i ∧ d.findInv i = some v ∧ v ∈ d.invs ∧ v.id = i ∧ v.callId = c ∧
      v.callee = i.sess := by
  obtain ⟨i, hi⟩ := (h.callBy c).1 hc
  obtain ⟨v, hv, hvi, hvc⟩ := (h.byInv c i).1 hi
  exact ⟨i, v, (byCall?_eq_some h.byFst).2 hi, (findInv_eq_some h.invIds).2 ⟨hv, hvi⟩, hv, hvi, hvc,
    hvi ▸ h.callee v hv⟩

/-- an invocation belongs to a pending call -/
theorem inv_call {v : Invk} (hv : v ∈ d.invs) :
    v.callId ∈ d.calls ∧ d.byCall? v.callId = some v.id ∧ d.findInv v.id = some v := by
  have hb := (h.byInv v.callId v.id).2 ⟨v, hv, rfl, rfl⟩
  exact ⟨(h.callBy _).2 ⟨_, hb⟩, (byCall?_eq_some h.byFst).2 hb, (findInv_eq_some h.invIds).2 ⟨hv, rfl⟩⟩

theorem byCall?_none {c : ReqId} (hc : c ∉ d.calls) : d.byCall? c = none := by
  rw [byCall?_eq_none]
  intro p hp hpc
  exact hc ((h.callBy c).2 ⟨p.2, by cases p; simp only at hpc; subst hpc; exact hp⟩)

theorem byCall?_some {c i : ReqId} (hb : d.byCall? c = some i) :
    c ∈ d.calls ∧ ∃ v, d.findInv i = some v ∧ v ∈ d.invs ∧ v.id = i ∧ v.callId = c ∧ v.callee = i.sess := by
  have hm := (byCall?_eq_some h.byFst).1 hb
  have hc := (h.callBy c).2 ⟨i, hm⟩
  obtain ⟨v, hv, hvi, hvc⟩ := (h.byInv c i).1 hm
  exact ⟨hc, v, (findInv_eq_some h.invIds).2 ⟨hv, hvi⟩, hv, hvi, hvc, hvi ▸ h.callee v hv⟩

end CallInv

/-! ### the invariant depends on invocations, timers and registrations only through a few fields -/

theorem exists_of_map_eq {α β} {f : α → β} {l l' : List α} (h : l'.map f = l.map f) {v' : α}
    (hv : v' ∈ l') : ∃ v ∈ l, f v = f v' := by
  have : f v' ∈ l.map f := h ▸ List.mem_map_of_mem hv
  rcases List.mem_map.1 this with ⟨v, hv, he⟩
  exact ⟨v, hv, he⟩

theorem map_proj_of_map_eq {α β γ} {f : α → β} (g : β → γ) {l l' : List α} (h : l'.map f = l.map f) :
    l'.map (fun x => g (f x)) = l.map (fun x => g (f x)) := by
  have := congrArg (List.map g) h
  rw [List.map_map, List.map_map] at this
  exact this

/-- fields of an invocation the call tables' invariant looks at -/
def Invk.shapeC (v : Invk) : ReqId × ReqId × SessKey × Nat × Bool := (v.id, v.callId, v.callee, v.regId, v.fwdTimeout)

theorem CallInv.congr {d d' : Dealer} (h : CallInv d) (hc : d'.calls = d.calls) (hb : d'.byCall = d.byCall)
    (hi : d'.invs.map Invk.shapeC = d.invs.map Invk.shapeC) : CallInv d' := by
  have hid : d'.invs.map (·.id) = d.invs.map (·.id) := map_proj_of_map_eq (fun p => p.1) hi
  have hcid : d'.invs.map (·.callId) = d.invs.map (·.callId) := map_proj_of_map_eq (fun p => p.2.1) hi
  refine ⟨hc ▸ h.calls, hid ▸ h.invIds, hcid ▸ h.invCalls, hb ▸ h.byFst, hb ▸ h.bySnd, ?_, ?_, ?_⟩
  · intro c; rw [hc, hb]; exact h.callBy c
  · intro c i
    rw [hb, h.byInv c i]
    constructor
    · rintro ⟨v, hv, h1, h2⟩
      obtain ⟨v', hv', he⟩ := exists_of_map_eq hi.symm hv
      simp only [Invk.shapeC, Prod.mk.injEq] at he
      exact ⟨v', hv', he.1.trans h1, he.2.1.trans h2⟩
    · rintro ⟨v, hv, h1, h2⟩
      obtain ⟨v', hv', he⟩ := exists_of_map_eq hi hv
      simp only [Invk.shapeC, Prod.mk.injEq] at he
      exact ⟨v', hv', he.1.trans h1, he.2.1.trans h2⟩
  · intro v hv
    obtain ⟨v', hv', he⟩ := exists_of_map_eq hi hv
    simp only [Invk.shapeC, Prod.mk.injEq] at he
    rw [← he.2.2.1, ← he.1]; exact h.callee v' hv'

/-- fields of an invocation the generator/timer invariant looks at -/
def Invk.shapeA (v : Invk) : ReqId × ReqId × Option Nat := (v.id, v.callId, v.timer)

def Timer.shape (t : Timer) : Nat × SessKey × Nat × Nat := (t.id, t.caller, t.req, t.deadline)

/-- the timer table changed only in `canceled` flags, and only from false to true -/
theorem AuxInv.congrT {s s' : DState} (h : AuxInv s)
    (hi : s'.d.invs.map Invk.shapeA = s.d.invs.map Invk.shapeA) (hg : s'.invGen = s.invGen)
    (ht : s'.timers.map Timer.shape = s.timers.map Timer.shape) (hn : s'.nextTimer = s.nextTimer)
    (hc : ∀ t' ∈ s'.timers, t'.canceled = false → ∃ t ∈ s.timers, t.id = t'.id ∧ t.canceled = false) :
    AuxInv s' := by
  have htid : s'.timers.map (·.id) = s.timers.map (·.id) := map_proj_of_map_eq (fun p => p.1) ht
  refine ⟨?_, htid ▸ h.timerIds, ?_, ?_, ?_, ?_⟩
  · intro v hv
    obtain ⟨v', hv', he⟩ := exists_of_map_eq hi hv
    simp only [Invk.shapeA, Prod.mk.injEq] at he
    rw [hg, ← he.1]; exact h.gen v' hv'
  · intro t ht'
    obtain ⟨t', ht'', he⟩ := exists_of_map_eq ht ht'
    simp only [Timer.shape, Prod.mk.injEq] at he
    rw [hn, ← he.1]; exact h.timerRange t' ht''
  · intro v hv tid hvt
    obtain ⟨v', hv', he⟩ := exists_of_map_eq hi hv
    simp only [Invk.shapeA, Prod.mk.injEq] at he
    obtain ⟨h1, h2, h3⟩ := h.invTimer v' hv' tid (he.2.2.trans hvt)
    refine ⟨h1, hn ▸ h2, ?_⟩
    intro t ht' htid'
    obtain ⟨t', ht'', het⟩ := exists_of_map_eq ht ht'
    simp only [Timer.shape, Prod.mk.injEq] at het
    have := h3 t' ht'' (het.1.trans htid')
    rw [← het.2.1, ← het.2.2.1, ← he.2.1]; exact this
  · intro v hv w hw tid hvt hwt
    obtain ⟨v', hv', he⟩ := exists_of_map_eq hi hv
    obtain ⟨w', hw', he'⟩ := exists_of_map_eq hi hw
    simp only [Invk.shapeA, Prod.mk.injEq] at he he'
    rw [← he.1, ← he'.1]
    exact h.invTimerInj v' hv' w' hw' tid (he.2.2.trans hvt) (he'.2.2.trans hwt)
  · intro t' ht' hc'
    obtain ⟨t, htm, hid, hlive⟩ := hc t' ht' hc'
    obtain ⟨t2, ht2, het⟩ := exists_of_map_eq ht ht'
    simp only [Timer.shape, Prod.mk.injEq] at het
    have : t2 = t := nodup_map_inj h.timerIds ht2 htm (het.1.trans hid.symm)
    subst this
    obtain ⟨v, hv, hvc, hvt⟩ := h.timerOwned t2 htm hlive
    obtain ⟨v', hv', he⟩ := exists_of_map_eq hi.symm hv
    simp only [Invk.shapeA, Prod.mk.injEq] at he
    refine ⟨v', hv', ?_, ?_⟩
    · rw [he.2.1, hvc, het.2.1, het.2.2.1]
    · rw [he.2.2, hvt, het.1]

theorem AuxInv.congr {s s' : DState} (h : AuxInv s)
    (hi : s'.d.invs.map Invk.shapeA = s.d.invs.map Invk.shapeA) (hg : s'.invGen = s.invGen)
    (ht : s'.timers = s.timers) (hn : s'.nextTimer = s.nextTimer) :
    AuxInv s' :=
  h.congrT hi hg (by rw [ht]) hn (fun t' ht' hc => ⟨t', ht ▸ ht', rfl, hc⟩)

/-- fields of a registration the invariant looks at (everything but the round-robin cursor) -/
def Reg.shape (r : Reg) : Nat × String × String × String × List SessKey := (r.id, r.proc, r.«match», r.policy, r.callees)

theorem calleeRel_congr {regs regs' : List Reg} (hr : regs'.map Reg.shape = regs.map Reg.shape)
    (id : Nat) (c : SessKey) : calleeRel regs' id c ↔ calleeRel regs id c := by
  constructor
  · rintro ⟨r, hr', h1, h2⟩
    obtain ⟨r', hm, he⟩ := exists_of_map_eq hr hr'
    simp only [Reg.shape, Prod.mk.injEq] at he
    exact ⟨r', hm, he.1.trans h1, he.2.2.2.2 ▸ h2⟩
  · rintro ⟨r, hr', h1, h2⟩
    obtain ⟨r', hm, he⟩ := exists_of_map_eq hr.symm hr'
    simp only [Reg.shape, Prod.mk.injEq] at he
    exact ⟨r', hm, he.1.trans h1, he.2.2.2.2 ▸ h2⟩

theorem RegsOk.congr {regs regs' : List Reg} {n : Nat} (h : RegsOk regs n)
    (hr : regs'.map Reg.shape = regs.map Reg.shape) : RegsOk regs' n := by
  have hid : regs'.map (·.id) = regs.map (·.id) := map_proj_of_map_eq (fun p => p.1) hr
  have hk : regs'.map (fun r => (r.proc, r.kind)) = regs.map (fun r => (r.proc, r.kind)) :=
    map_proj_of_map_eq (fun p => (p.2.1, matchKind p.2.2.1)) hr
  refine ⟨hid ▸ h.ids, hk ▸ h.keys, ?_, ?_, ?_, ?_⟩
  all_goals
    intro r hr'
    obtain ⟨r', hm, he⟩ := exists_of_map_eq hr hr'
    simp only [Reg.shape, Prod.mk.injEq] at he
  · rw [← he.1]; exact h.range r' hm
  · rw [← he.2.2.2.2]; exact h.callees r' hm
  · rw [← he.2.2.2.2, ← he.2.2.2.1]; exact h.single r' hm
  · rw [← he.2.2.2.1]; exact h.known r' hm

theorem RegInv.congr {d d' : Dealer} (h : RegInv d) (hr : d'.regs.map Reg.shape = d.regs.map Reg.shape)
    (hn : d'.nextReg = d.nextReg) (hx : d'.index = d.index) : RegInv d' := by
  refine ⟨hn ▸ h.regs.congr hr, hx ▸ h.ix, ?_⟩
  intro k id
  rw [hx, calleeRel_congr hr]; exact h.ixIff k id

/-! ### elementary updates -/

/-- `setReg` with a registration that differs from the stored one only in the cursor -/
theorem setReg_shape {d : Dealer} (hids : (d.regs.map (·.id)).Nodup) {reg reg' : Reg} (hm : reg ∈ d.regs)
    (hs : reg'.shape = reg.shape) : (d.setReg reg').regs.map Reg.shape = d.regs.map Reg.shape := by
  unfold Dealer.setReg
  simp only
  apply map_update_map_eq (f := fun r : Reg => r.id) (u := fun _ => reg')
  intro x hx hk
  have hid : reg'.id = reg.id := congrArg (·.1) hs
  have : x = reg := nodup_map_inj hids hx hm (hk.trans hid)
  rw [this]; exact hs

theorem DealerInv.setReg {s : DState} (h : DealerInv s) {reg reg' : Reg} (hm : reg ∈ s.d.regs)
    (hs : reg'.shape = reg.shape) : DealerInv { s with d := s.d.setReg reg' } :=
  ⟨h.reg.congr (setReg_shape h.reg.regs.ids hm hs) rfl rfl,
   h.call.congr rfl rfl rfl,
   h.aux.congr rfl rfl rfl rfl⟩

theorem setInv_shapeC {d : Dealer} (hids : (d.invs.map (·.id)).Nodup) {v v' : Invk} (hm : v ∈ d.invs)
    (hs : v'.shapeC = v.shapeC) : (d.setInv v').invs.map Invk.shapeC = d.invs.map Invk.shapeC := by
  unfold Dealer.setInv
  simp only
  apply map_update_map_eq (f := fun r : Invk => r.id) (u := fun _ => v')
  intro x hx hk
  have hid : v'.id = v.id := congrArg (·.1) hs
  have : x = v := nodup_map_inj hids hx hm (hk.trans hid)
  rw [this]; exact hs

theorem setInv_shapeA {d : Dealer} (hids : (d.invs.map (·.id)).Nodup) {v v' : Invk} (hm : v ∈ d.invs)
    (hs : v'.shapeA = v.shapeA) : (d.setInv v').invs.map Invk.shapeA = d.invs.map Invk.shapeA := by
  unfold Dealer.setInv
  simp only
  apply map_update_map_eq (f := fun r : Invk => r.id) (u := fun _ => v')
  intro x hx hk
  have hid : v'.id = v.id := congrArg (·.1) hs
  have : x = v := nodup_map_inj hids hx hm (hk.trans hid)
  rw [this]; exact hs

/-- replacing a stored invocation by one that differs only in `canceled` / `inProgress` / `options` -/
theorem DealerInv.setInv {s : DState} (h : DealerInv s) {v v' : Invk} (hm : v ∈ s.d.invs)
    (hc : v'.shapeC = v.shapeC) (ha : v'.shapeA = v.shapeA) : DealerInv { s with d := s.d.setInv v' } :=
  ⟨h.reg.congr rfl rfl rfl,
   h.call.congr rfl rfl (setInv_shapeC h.call.invIds hm hc),
   h.aux.congr (setInv_shapeA h.call.invIds hm ha) rfl rfl rfl⟩

/-- a timer that is not cancelled after `cancelTimer` was in the table, not cancelled, before -/
theorem cancelTimer_live {s : DState} {x : Option Nat} {t' : Timer} (ht : t' ∈ (s.cancelTimer x).timers)
    (hc : t'.canceled = false) : t' ∈ s.timers ∧ x ≠ some t'.id := by
  rw [cancelTimer_timers] at ht
  rcases List.mem_map.1 ht with ⟨t, htm, rfl⟩
  by_cases hx : some t.id = x
  · simp [hx] at hc
  · simp only [hx, if_false] at hc ⊢
    exact ⟨htm, fun e => hx e.symm⟩

/-- `cancelTimer (some tid)`: every timer with id `tid` is cancelled afterwards -/
theorem cancelTimer_dead (s : DState) (x : Option Nat) :
    ∀ t ∈ (s.cancelTimer x).timers, x = some t.id → t.canceled = true := by
  intro t ht hx
  apply Classical.byContradiction
  intro hc
  exact (cancelTimer_live ht (by simpa using hc)).2 hx

theorem DealerInv.cancelTimer {s : DState} (h : DealerInv s) (t : Option Nat) : DealerInv (s.cancelTimer t) :=
  ⟨by rw [cancelTimer_d]; exact h.reg, by rw [cancelTimer_d]; exact h.call,
   h.aux.congrT (by rw [cancelTimer_d]) (by simp) (cancelTimer_timers_shape s t) (by simp)
     (fun t' ht' hc => ⟨t', (cancelTimer_live ht' hc).1, rfl, hc⟩)⟩

end Nexus.L2
