/-
  Work package A / C18: the four kill procedures end EXACTLY the targeted sessions — the full result
  of `metaProc` with the selector given declaratively.
-/
import Nexus.L2.Proofs.RealmMeta
import Nexus.L2.Proofs.WpAC18Broker

namespace Nexus.L2.Realm.WpA
open Nexus.L2 Nexus.L2.Realm Nexus.Gen.N

/-- the sessions a kill procedure with (declarative) selector `P` ends: the attached sessions that
    satisfy `P` and are not already ending, in `clients` order -/
noncomputable def killTargets (r : Realm) (P : Session → Prop) : List Session :=
  open Classical in r.clients.filter (fun c => decide (P c ∧ c.key ∉ r.ending))

/-- `r` after the sessions `vs` have been told to end with GOODBYE `g`: one `leave … (.killed g all)` task
    per session appended in order, their keys appended to `ending`; nothing else changes -/
def endSessions (r : Realm) (vs : List Session) (g : Msg) (all : Bool) : Realm :=
  { r with tasks := r.tasks ++ vs.map (fun c => Task.leave c.key (.killed g all)),
           ending := r.ending ++ vs.map (·.key) }

theorem mem_killTargets (r : Realm) (P : Session → Prop) (c : Session) :
    c ∈ killTargets r P ↔ c ∈ r.clients ∧ P c ∧ c.key ∉ r.ending := by
  unfold killTargets
  simp only [List.mem_filter, decide_eq_true_eq]

theorem killTargets_sublist (r : Realm) (P : Session → Prop) : (killTargets r P).Sublist r.clients := by
  unfold killTargets; exact List.filter_sublist

/-- a Boolean selector that decides `P` selects exactly `killTargets r P` -/
theorem filter_eq_killTargets (r : Realm) (sel : Session → Bool) (P : Session → Prop)
    (h : ∀ c ∈ r.clients, sel c = true ↔ P c) :
    r.clients.filter (fun c => sel c && !r.ending.contains c.key) = killTargets r P := by
  unfold killTargets
  apply List.filter_congr
  intro c hc
  have := h c hc
  by_cases hp : P c
  · have hs : sel c = true := this.mpr hp
    by_cases he : c.key ∈ r.ending <;> simp [hs, hp, he]
  · have hs : sel c = false := by
      cases hsc : sel c
      · rfl
      · exact absurd (this.mp hsc) hp
    simp [hs, hp]

theorem killWhere_exact (r : Realm) (sel : Session → Bool) (P : Session → Prop) (g : Msg) (ka : Bool)
    (h : ∀ c ∈ r.clients, sel c = true ↔ P c) :
    r.killWhere sel g ka = ((killTargets r P).length, endSessions r (killTargets r P) g ka) := by
  have e := killWhere_spec r sel g ka
  rw [filter_eq_killTargets r sel P h] at e
  exact Prod.ext e.1 e.2

/-- the selector of kill_by_authid / kill_by_authrole, declaratively -/
theorem killSel_iff (details : Dict) (key v : String) (c : Session) :
    killSel details key v c = true ↔ callerOf details ≠ some (sidOf c.key) ∧ c.details.get? key = some (.str v) := by
  unfold killSel
  simp only [Bool.and_eq_true, bne_iff_ne, ne_eq]
  constructor
  · rintro ⟨h1, h2⟩
    refine ⟨fun e => h1 e.symm, ?_⟩
    split at h2
    · rename_i x hx; rw [hx]; simp only [beq_iff_eq] at h2; rw [h2]
    · cases h2
  · rintro ⟨h1, h2⟩
    refine ⟨fun e => h1 e.symm, ?_⟩
    rw [h2]; simp

/-- `exactly the targeted sessions`: a `leave` task for key `k` is among the tasks `endSessions` appends
    iff `k` is the key of a session in `vs` -/
theorem endSessions_tasks (r : Realm) (vs : List Session) (g : Msg) (all : Bool) :
    (endSessions r vs g all).tasks = r.tasks ++ vs.map (fun c => Task.leave c.key (.killed g all)) ∧
    (endSessions r vs g all).ending = r.ending ++ vs.map (·.key) ∧
    (endSessions r vs g all).clients = r.clients ∧ (endSessions r vs g all).broker = r.broker ∧
    (endSessions r vs g all).ds = r.ds ∧ (endSessions r vs g all).queues = r.queues ∧
    (endSessions r vs g all).testaments = r.testaments := ⟨rfl, rfl, rfl, rfl, rfl, rfl, rfl⟩

theorem endSessions_nil (r : Realm) (g : Msg) (all : Bool) : endSessions r [] g all = r := by
  unfold endSessions; simp

/-! ### the four procedures -/

theorem kill_by_authid_exact (r : Realm) (req : Nat) (details : Dict) (v : String) (rest : List WVal) (kw : Dict)
    (hr : badReasonOf kw = false) :
    metaProc r MetaProcSessionKillByAuthid req details (.str v :: rest) kw =
      (mYield req [.int (killTargets r (fun c => callerOf details ≠ some (sidOf c.key) ∧
                            c.details.get? "authid" = some (.str v))).length],
       endSessions r (killTargets r (fun c => callerOf details ≠ some (sidOf c.key) ∧
                            c.details.get? "authid" = some (.str v)))
         (makeGoodbye (kwStr kw "reason") (kwStr kw "message") false) false) := by
  rw [metaProc_killByAuthid]
  simp only [WVal.asString, hr, Bool.false_eq_true, if_false]
  rw [killWhere_exact r _ _ _ _ (fun c _ => killSel_iff details "authid" v c)]

theorem kill_by_authrole_exact (r : Realm) (req : Nat) (details : Dict) (v : String) (rest : List WVal) (kw : Dict)
    (hr : badReasonOf kw = false) :
    metaProc r MetaProcSessionKillByAuthrole req details (.str v :: rest) kw =
      (mYield req [.int (killTargets r (fun c => callerOf details ≠ some (sidOf c.key) ∧
                            c.details.get? "authrole" = some (.str v))).length],
       endSessions r (killTargets r (fun c => callerOf details ≠ some (sidOf c.key) ∧
                            c.details.get? "authrole" = some (.str v)))
         (makeGoodbye (kwStr kw "reason") (kwStr kw "message") false) false) := by
  rw [metaProc_killByAuthrole]
  simp only [WVal.asString, hr, Bool.false_eq_true, if_false]
  rw [killWhere_exact r _ _ _ _ (fun c _ => killSel_iff details "authrole" v c)]

theorem kill_all_exact (r : Realm) (req : Nat) (details : Dict) (args : List WVal) (kw : Dict)
    (hr : badReasonOf kw = false) :
    metaProc r MetaProcSessionKillAll req details args kw =
      (mYield req [.int (killTargets r (fun c => callerOf details ≠ some (sidOf c.key))).length],
       endSessions r (killTargets r (fun c => callerOf details ≠ some (sidOf c.key)))
         (makeGoodbye (kwStr kw "reason") (kwStr kw "message") true) true) := by
  rw [metaProc_killAll]
  simp only [hr, Bool.false_eq_true, if_false]
  rw [killWhere_exact r _ (fun c => callerOf details ≠ some (sidOf c.key)) _ _
    (fun c _ => by simp only [bne_iff_ne, ne_eq]; exact ⟨fun h e => h e.symm, fun h e => h e.symm⟩)]

/-- `session.kill [sid]`: the target is the attached session with id `sid` -/
theorem kill_exact (r : Realm) (req : Nat) (details : Dict) (a : WVal) (rest : List WVal) (kw : Dict) (sid : Nat)
    (ha : a.asID = some sid) (hc : callerOf details ≠ some sid) (hr : badReasonOf kw = false)
    (hex : ∃ c ∈ r.clients, sidOf c.key = sid) :
    metaProc r MetaProcSessionKill req details (a :: rest) kw =
      (mYield req [],
       endSessions r (killTargets r (fun c => sidOf c.key = sid))
         (makeGoodbye (kwStr kw "reason") (kwStr kw "message") false) false) := by
  rw [metaProc_kill]
  have hc' : (callerOf details == some sid) = false := by
    cases h : callerOf details with
    | none => rfl
    | some x =>
      have : x ≠ sid := fun e => hc (by rw [h, e])
      simp [this]
  simp only [ha, hc', hr, Bool.false_eq_true, if_false]
  cases hk : r.keyOfSid sid with
  | none =>
    obtain ⟨c, hcm, hcs⟩ := hex
    have := List.find?_eq_none.mp hk c hcm
    simp [hcs] at this
  | some s =>
    have hs : sidOf s.key = sid := by simpa using List.find?_some hk
    simp only
    rw [killWhere_exact r _ (fun c => sidOf c.key = sid) _ _ (fun c _ => by
      simp only [beq_iff_eq]
      exact ⟨fun h => by rw [h, hs], fun h => sidOf_inj (h.trans hs.symm)⟩)]

/-- the error cases of `session.kill`, state unchanged in each -/
theorem kill_errors (r : Realm) (req : Nat) (details : Dict) (kw : Dict) :
    metaProc r MetaProcSessionKill req details [] kw = (mErr req ErrNoSuchSession, r) ∧
    (∀ a rest, a.asID = none → metaProc r MetaProcSessionKill req details (a :: rest) kw = (mErr req ErrNoSuchSession, r)) ∧
    (∀ a rest sid, a.asID = some sid → callerOf details = some sid →
      metaProc r MetaProcSessionKill req details (a :: rest) kw = (mErr req ErrNoSuchSession, r)) ∧
    (∀ a rest sid, a.asID = some sid → callerOf details ≠ some sid → badReasonOf kw = true →
      metaProc r MetaProcSessionKill req details (a :: rest) kw = (mErr req ErrInvalidURI, r)) ∧
    (∀ a rest sid, a.asID = some sid → callerOf details ≠ some sid → badReasonOf kw = false →
      (∀ c ∈ r.clients, sidOf c.key ≠ sid) →
      metaProc r MetaProcSessionKill req details (a :: rest) kw = (mErr req ErrNoSuchSession, r)) := by
  have hne : ∀ sid, callerOf details ≠ some sid → (callerOf details == some sid) = false := by
    intro sid hc
    cases h : callerOf details with
    | none => rfl
    | some x =>
      have : x ≠ sid := fun e => hc (by rw [h, e])
      simp [this]
  refine ⟨by rw [metaProc_kill], ?_, ?_, ?_, ?_⟩
  · intro a rest h; rw [metaProc_kill]; simp only [h]
  · intro a rest sid h hc; rw [metaProc_kill]; simp only [h, hc, beq_self_eq_true, if_true]
  · intro a rest sid h hc hb; rw [metaProc_kill]; simp only [h, hne sid hc, hb, Bool.false_eq_true, if_false, if_true]
  · intro a rest sid h hc hb hno
    rw [metaProc_kill]
    have : r.keyOfSid sid = none := List.find?_eq_none.mpr (fun c hcm => by simpa using hno c hcm)
    simp only [h, hne sid hc, hb, this, Bool.false_eq_true, if_false]

/-- the error cases of the three bulk kill procedures: state unchanged -/
theorem kill_bulk_errors (r : Realm) (req : Nat) (details : Dict) (kw : Dict) :
    (∀ proc, proc = MetaProcSessionKillByAuthid ∨ proc = MetaProcSessionKillByAuthrole →
      metaProc r proc req details [] kw = (mErr req ErrNoSuchSession, r) ∧
      (∀ a rest, a.asString = none → metaProc r proc req details (a :: rest) kw = (mErr req ErrNoSuchSession, r)) ∧
      (∀ v rest, badReasonOf kw = true → metaProc r proc req details (.str v :: rest) kw = (mErr req ErrInvalidURI, r))) ∧
    (∀ args, badReasonOf kw = true → metaProc r MetaProcSessionKillAll req details args kw = (mErr req ErrInvalidURI, r)) := by
  refine ⟨?_, ?_⟩
  · rintro proc (rfl | rfl)
    · refine ⟨by rw [metaProc_killByAuthid], ?_, ?_⟩
      · intro a rest h; rw [metaProc_killByAuthid]; simp only [h]
      · intro v rest hb; rw [metaProc_killByAuthid]; simp only [WVal.asString, hb, if_true]
    · refine ⟨by rw [metaProc_killByAuthrole], ?_, ?_⟩
      · intro a rest h; rw [metaProc_killByAuthrole]; simp only [h]
      · intro v rest hb; rw [metaProc_killByAuthrole]; simp only [WVal.asString, hb, if_true]
  · intro args hb; rw [metaProc_killAll]; simp only [hb, if_true]

end Nexus.L2.Realm.WpA
