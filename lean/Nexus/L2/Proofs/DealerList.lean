/-
  Generic list lemmas for the dealer proofs: tables kept as lists with a key
  projection (`find?` on the key, `filter` on the key, `map`-replace on the key),
  and the `calleeRegIDSet`-style index (`idxGet`/`idxAdd`/`idxDel`/`idxDrop`).
-/
import Nexus.L2.Dealer

namespace Nexus.L2

/-! ### keyed tables -/

theorem nodup_map_inj {α β} {f : α → β} : ∀ {l : List α}, (l.map f).Nodup →
    ∀ {a b}, a ∈ l → b ∈ l → f a = f b → a = b
  | [], _, _, _, ha, _, _ => by cases ha
  | x :: xs, h, a, b, ha, hb, hab => by
    rw [List.map_cons, List.nodup_cons] at h
    rcases List.mem_cons.1 ha with rfl | ha' <;> rcases List.mem_cons.1 hb with rfl | hb'
    · rfl
    · exact absurd (hab ▸ List.mem_map_of_mem (f := f) hb') h.1
    · exact absurd (hab ▸ List.mem_map_of_mem (f := f) ha') h.1
    · exact nodup_map_inj h.2 ha' hb' hab

theorem nodup_of_nodup_map {α β} (f : α → β) : ∀ {l : List α}, (l.map f).Nodup → l.Nodup
  | [], _ => List.nodup_nil
  | x :: xs, h => by
    rw [List.map_cons, List.nodup_cons] at h
    rw [List.nodup_cons]
    exact ⟨fun hx => h.1 (List.mem_map_of_mem hx), nodup_of_nodup_map f h.2⟩

theorem find?_key_eq_some {α κ} [BEq κ] [LawfulBEq κ] {f : α → κ} {l : List α}
    (h : (l.map f).Nodup) {k : κ} {v : α} :
    l.find? (fun x => f x == k) = some v ↔ v ∈ l ∧ f v = k := by
  constructor
  · intro hf
    exact ⟨List.mem_of_find?_eq_some hf, by simpa using List.find?_some hf⟩
  · rintro ⟨hv, hk⟩
    cases hw : l.find? (fun x => f x == k) with
    | none =>
      rw [List.find?_eq_none] at hw
      exact absurd (by simpa using hk) (hw v hv)
    | some w =>
      have hw1 := List.mem_of_find?_eq_some hw
      have hw2 : f w = k := by simpa using List.find?_some hw
      rw [nodup_map_inj h hw1 hv (hw2.trans hk.symm)]

theorem find?_key_eq_none {α κ} [BEq κ] [LawfulBEq κ] {f : α → κ} {l : List α} {k : κ} :
    l.find? (fun x => f x == k) = none ↔ ∀ v ∈ l, f v ≠ k := by
  rw [List.find?_eq_none]
  constructor
  · intro h v hv; simpa using h v hv
  · intro h v hv; simpa using h v hv

theorem find?_key_isSome {α κ} [BEq κ] [LawfulBEq κ] {f : α → κ} {l : List α} {k : κ} {v : α}
    (hv : v ∈ l) (hk : f v = k) : ∃ w, l.find? (fun x => f x == k) = some w := by
  cases hw : l.find? (fun x => f x == k) with
  | none => exact absurd hk (find?_key_eq_none.1 hw v hv)
  | some w => exact ⟨w, rfl⟩

/-- replacing the entries with key `k` does not change any projection the replacement preserves -/
theorem map_update_map_eq {α κ γ} [BEq κ] [LawfulBEq κ] {f : α → κ} {g : α → γ} {u : α → α}
    {l : List α} {k : κ} (h : ∀ x ∈ l, f x = k → g (u x) = g x) :
    (l.map (fun x => if f x == k then u x else x)).map g = l.map g := by
  rw [List.map_map]
  apply List.map_congr_left
  intro x hx
  by_cases hk : f x = k
  · simp [hk, h x hx hk]
  · simp [hk]

theorem mem_map_update {α κ} [BEq κ] [LawfulBEq κ] {f : α → κ} {u : α → α} {l : List α} {k : κ} {y : α} :
    y ∈ l.map (fun x => if f x == k then u x else x) ↔
      (y ∈ l ∧ f y ≠ k) ∨ (∃ x ∈ l, f x = k ∧ y = u x) := by
  rw [List.mem_map]
  constructor
  · rintro ⟨x, hx, rfl⟩
    by_cases hk : f x = k
    · right; exact ⟨x, hx, hk, by simp [hk]⟩
    · left; simp [hk, hx]
  · rintro (⟨hy, hk⟩ | ⟨x, hx, hk, rfl⟩)
    · exact ⟨y, hy, by simp [hk]⟩
    · exact ⟨x, hx, by simp [hk]⟩

theorem nodup_map_filter {α β} (f : α → β) (p : α → Bool) {l : List α} (h : (l.map f).Nodup) :
    ((l.filter p).map f).Nodup :=
  List.Nodup.sublist (List.Sublist.map f List.filter_sublist) h

theorem nodup_filter {α} (p : α → Bool) {l : List α} (h : l.Nodup) : (l.filter p).Nodup :=
  List.Nodup.sublist List.filter_sublist h

theorem nodup_map_append_singleton {α β} (f : α → β) {l : List α} {a : α} (h : (l.map f).Nodup)
    (ha : ∀ x ∈ l, f x ≠ f a) : ((l ++ [a]).map f).Nodup := by
  rw [List.map_append, List.nodup_append]
  refine ⟨h, by simp, ?_⟩
  intro x hx y hy
  rcases List.mem_map.1 hx with ⟨x', hx', rfl⟩
  simp only [List.map_cons, List.map_nil, List.mem_singleton] at hy
  subst hy
  exact ha x' hx'

/-! ### `eraseFirst` -/

theorem eraseFirst_eq_erase (k : SessKey) : ∀ l : List SessKey, eraseFirst k l = l.erase k
  | [] => rfl
  | x :: xs => by
    simp only [eraseFirst, List.erase_cons]
    by_cases h : x = k
    · simp [h]
    · simp [h, eraseFirst_eq_erase k xs]

theorem mem_eraseFirst {k x : SessKey} {l : List SessKey} (h : l.Nodup) :
    x ∈ eraseFirst k l ↔ x ≠ k ∧ x ∈ l := by
  rw [eraseFirst_eq_erase]; exact h.mem_erase_iff

theorem nodup_eraseFirst {k : SessKey} {l : List SessKey} (h : l.Nodup) : (eraseFirst k l).Nodup := by
  rw [eraseFirst_eq_erase]; exact h.erase k

theorem length_eraseFirst_le (k : SessKey) (l : List SessKey) : (eraseFirst k l).length ≤ l.length := by
  rw [eraseFirst_eq_erase]; exact List.length_erase_le

/-! ### the session → id-set index -/

/-- the ids recorded for `k` (none recorded = empty) -/
def idxIds (ix : List (SessKey × List Nat)) (k : SessKey) : List Nat := (idxGet ix k).getD []

/-- well-formedness of an index: one entry per session, no id twice in an entry -/
structure IdxOk (ix : List (SessKey × List Nat)) : Prop where
  keys : (ix.map (·.1)).Nodup
  ids : ∀ p ∈ ix, p.2.Nodup

theorem idxGet_eq_some {ix : List (SessKey × List Nat)} (h : (ix.map (·.1)).Nodup) {k ids} :
    idxGet ix k = some ids ↔ (k, ids) ∈ ix := by
  unfold idxGet
  constructor
  · intro hg
    rcases Option.map_eq_some_iff.1 hg with ⟨p, hp, rfl⟩
    have := (find?_key_eq_some (f := fun p : SessKey × List Nat => p.1) h).1 hp
    obtain ⟨hm, hk⟩ := this
    cases p; simp only at hk; subst hk; exact hm
  · intro hm
    have := (find?_key_eq_some (f := fun p : SessKey × List Nat => p.1) (k := k) h).2 ⟨hm, rfl⟩
    rw [this]; rfl

theorem didxGet_eq_none {ix : List (SessKey × List Nat)} {k} :
    idxGet ix k = none ↔ ∀ p ∈ ix, p.1 ≠ k := by
  unfold idxGet
  rw [Option.map_eq_none_iff]
  exact find?_key_eq_none (f := fun p : SessKey × List Nat => p.1)

theorem mem_idxIds {ix : List (SessKey × List Nat)} (h : (ix.map (·.1)).Nodup) {k x} :
    x ∈ idxIds ix k ↔ ∃ ids, (k, ids) ∈ ix ∧ x ∈ ids := by
  unfold idxIds
  cases hg : idxGet ix k with
  | none =>
    simp only [Option.getD_none, List.not_mem_nil, false_iff]
    rintro ⟨ids, hm, _⟩
    exact didxGet_eq_none.1 hg _ hm rfl
  | some ids =>
    simp only [Option.getD_some]
    have := (idxGet_eq_some h).1 hg
    constructor
    · intro hx; exact ⟨ids, this, hx⟩
    · rintro ⟨ids', hm, hx⟩
      have : (k, ids') = (k, ids) := nodup_map_inj h hm this rfl
      cases this; exact hx

theorem idxIds_nodup {ix : List (SessKey × List Nat)} (h : IdxOk ix) (k : SessKey) : (idxIds ix k).Nodup := by
  unfold idxIds
  cases hg : idxGet ix k with
  | none => simp
  | some ids => exact h.ids _ ((idxGet_eq_some h.keys).1 hg)

theorem idxOk_nil : IdxOk [] := ⟨by simp, by simp⟩

/-! #### idxAdd -/

theorem idxAdd_ok {ix : List (SessKey × List Nat)} (h : IdxOk ix) (k : SessKey) (id : Nat) :
    IdxOk (idxAdd ix k id) := by
  unfold idxAdd
  cases hg : idxGet ix k with
  | none =>
    simp only
    have hn := didxGet_eq_none.1 hg
    refine ⟨nodup_map_append_singleton _ h.keys (fun x hx => hn x hx), ?_⟩
    intro p hp
    rcases List.mem_append.1 hp with hp | hp
    · exact h.ids p hp
    · simp only [List.mem_singleton] at hp; subst hp; simp
  | some ids =>
    simp only
    have hm := (idxGet_eq_some h.keys).1 hg
    split
    · exact h
    · rename_i hc
      refine ⟨?_, ?_⟩
      · rw [map_update_map_eq (f := fun p : SessKey × List Nat => p.1) (u := fun _ => (k, ids ++ [id]))]
        · exact h.keys
        · intro x _ hk; exact hk.symm
      · intro p hp
        rcases (mem_map_update (f := fun p : SessKey × List Nat => p.1) (u := fun _ => (k, ids ++ [id]))).1 hp with
          ⟨hp, _⟩ | ⟨x, _, _, rfl⟩
        · exact h.ids p hp
        · simp only
          rw [List.nodup_append]
          refine ⟨h.ids _ hm, by simp, ?_⟩
          intro a ha b hb
          simp only [List.mem_singleton] at hb; subst hb
          intro hab; subst hab
          exact hc (by simpa using ha)

theorem mem_idxIds_idxAdd {ix : List (SessKey × List Nat)} (h : IdxOk ix) {k k' : SessKey} {id x : Nat} :
    x ∈ idxIds (idxAdd ix k id) k' ↔ x ∈ idxIds ix k' ∨ (k' = k ∧ x = id) := by
  have hok := idxAdd_ok h k id
  rw [mem_idxIds hok.keys, mem_idxIds h.keys]
  unfold idxAdd
  cases hg : idxGet ix k with
  | none =>
    have hn := didxGet_eq_none.1 hg
    simp only [List.mem_append, List.mem_singleton, Prod.mk.injEq]
    constructor
    · rintro ⟨ids, (hm | ⟨rfl, rfl⟩), hx⟩
      · left; exact ⟨ids, hm, hx⟩
      · right; exact ⟨rfl, by simpa using hx⟩
    · rintro (⟨ids, hm, hx⟩ | ⟨rfl, rfl⟩)
      · exact ⟨ids, Or.inl hm, hx⟩
      · exact ⟨[x], Or.inr ⟨rfl, rfl⟩, by simp⟩
  | some ids =>
    have hm := (idxGet_eq_some h.keys).1 hg
    simp only
    split
    · rename_i hc
      constructor
      · intro hx; exact Or.inl hx
      · rintro (hx | ⟨rfl, rfl⟩)
        · exact hx
        · exact ⟨ids, hm, by simpa using hc⟩
    · constructor
      · rintro ⟨ids', hm', hx⟩
        rcases (mem_map_update (f := fun p : SessKey × List Nat => p.1) (u := fun _ => (k, ids ++ [id]))).1 hm' with
          ⟨hp, _⟩ | ⟨p, _, _, he⟩
        · left; exact ⟨ids', hp, hx⟩
        · simp only [Prod.mk.injEq] at he
          obtain ⟨rfl, rfl⟩ := he
          rcases List.mem_append.1 hx with hx | hx
          · left; exact ⟨ids, hm, hx⟩
          · right; exact ⟨rfl, by simpa using hx⟩
      · rintro (⟨ids', hm', hx⟩ | ⟨rfl, rfl⟩)
        · by_cases hk : k' = k
          · subst hk
            have : (k', ids') = (k', ids) := nodup_map_inj h.keys hm' hm rfl
            cases this
            refine ⟨ids ++ [id], ?_, List.mem_append_left _ hx⟩
            exact (mem_map_update (f := fun p : SessKey × List Nat => p.1) (u := fun _ => (k', ids ++ [id]))).2
              (Or.inr ⟨_, hm, rfl, rfl⟩)
          · refine ⟨ids', ?_, hx⟩
            exact (mem_map_update (f := fun p : SessKey × List Nat => p.1) (u := fun _ => (k, ids ++ [id]))).2
              (Or.inl ⟨hm', hk⟩)
        · refine ⟨ids ++ [x], ?_, by simp⟩
          exact (mem_map_update (f := fun p : SessKey × List Nat => p.1) (u := fun _ => (k', ids ++ [x]))).2
            (Or.inr ⟨_, hm, rfl, rfl⟩)

/-! #### idxDel -/

theorem idxDel_ok {ix : List (SessKey × List Nat)} (h : IdxOk ix) (k : SessKey) (id : Nat) :
    IdxOk (idxDel ix k id) := by
  unfold idxDel
  refine ⟨?_, ?_⟩
  · apply nodup_map_filter
    rw [map_update_map_eq (f := fun p : SessKey × List Nat => p.1) (u := fun p => (k, p.2.filter (· != id)))]
    · exact h.keys
    · intro x _ hk; exact hk.symm
  · intro p hp
    have hp := (List.mem_filter.1 hp).1
    rcases (mem_map_update (f := fun p : SessKey × List Nat => p.1) (u := fun p => (k, p.2.filter (· != id)))).1 hp with
      ⟨hp, _⟩ | ⟨x, hx, _, rfl⟩
    · exact h.ids p hp
    · exact nodup_filter _ (h.ids x hx)

theorem mem_idxIds_idxDel {ix : List (SessKey × List Nat)} (h : IdxOk ix) {k k' : SessKey} {id x : Nat} :
    x ∈ idxIds (idxDel ix k id) k' ↔ x ∈ idxIds ix k' ∧ ¬ (k' = k ∧ x = id) := by
  have hok := idxDel_ok h k id
  rw [mem_idxIds hok.keys, mem_idxIds h.keys]
  unfold idxDel
  constructor
  · rintro ⟨ids', hm', hx⟩
    have hm' := (List.mem_filter.1 hm').1
    rcases (mem_map_update (f := fun p : SessKey × List Nat => p.1) (u := fun p => (k, p.2.filter (· != id)))).1 hm' with
      ⟨hp, hk⟩ | ⟨p, hp, hk, he⟩
    · exact ⟨⟨ids', hp, hx⟩, fun hc => hk hc.1⟩
    · simp only [Prod.mk.injEq] at he
      obtain ⟨rfl, rfl⟩ := he
      have hx' := List.mem_filter.1 hx
      refine ⟨⟨p.2, ?_, hx'.1⟩, fun hc => by simpa [hc.2] using hx'.2⟩
      cases p; simp only at hk; subst hk; exact hp
  · rintro ⟨⟨ids', hm', hx⟩, hne⟩
    by_cases hk : k' = k
    · subst hk
      have hxid : x ≠ id := fun hc => hne ⟨rfl, hc⟩
      refine ⟨ids'.filter (· != id), ?_, List.mem_filter.2 ⟨hx, by simpa using hxid⟩⟩
      refine List.mem_filter.2 ⟨?_, ?_⟩
      · exact (mem_map_update (f := fun p : SessKey × List Nat => p.1) (u := fun p => (k', p.2.filter (· != id)))).2
          (Or.inr ⟨_, hm', rfl, rfl⟩)
      · have : x ∈ ids'.filter (· != id) := List.mem_filter.2 ⟨hx, by simpa using hxid⟩
        have hne' : ids'.filter (· != id) ≠ [] := List.ne_nil_of_mem this
        simp [hne']
    · refine ⟨ids', List.mem_filter.2 ⟨?_, by simp [hk]⟩, hx⟩
      exact (mem_map_update (f := fun p : SessKey × List Nat => p.1) (u := fun p => (k, p.2.filter (· != id)))).2
        (Or.inl ⟨hm', hk⟩)

/-! #### idxDrop -/

theorem idxDrop_ok {ix : List (SessKey × List Nat)} (h : IdxOk ix) (k : SessKey) : IdxOk (idxDrop ix k) :=
  ⟨nodup_map_filter _ _ h.keys, fun p hp => h.ids p (List.mem_filter.1 hp).1⟩

theorem mem_idxIds_idxDrop {ix : List (SessKey × List Nat)} (h : IdxOk ix) {k k' : SessKey} {x : Nat} :
    x ∈ idxIds (idxDrop ix k) k' ↔ x ∈ idxIds ix k' ∧ k' ≠ k := by
  rw [mem_idxIds (idxDrop_ok h k).keys, mem_idxIds h.keys]
  unfold idxDrop
  constructor
  · rintro ⟨ids, hm, hx⟩
    have := List.mem_filter.1 hm
    exact ⟨⟨ids, this.1, hx⟩, by simpa using this.2⟩
  · rintro ⟨⟨ids, hm, hx⟩, hk⟩
    exact ⟨ids, List.mem_filter.2 ⟨hm, by simpa using hk⟩, hx⟩

end Nexus.L2
