/-
  DealerInv is preserved by every `sync*` function of the dealer model, for all
  arguments and environments; consequently no `sync*` function panics in a state
  satisfying the invariant.
-/
import Nexus.L2.Proofs.DealerSteps
import Nexus.L2.Proofs.DealerMatch

namespace Nexus.L2
open Gen.N

/-! ### forgetting a call -/

theorem forget_eq_self {d : Dealer} {c i : ReqId} (hc : c ∉ d.calls) (hb : ∀ p ∈ d.byCall, p.1 ≠ c)
    (hi : ∀ v ∈ d.invs, v.id ≠ i) : d.forget c i = d := by
  have h1 : d.calls.filter (· != c) = d.calls :=
    List.filter_eq_self.2 (fun a ha => by simpa using fun h : a = c => hc (h ▸ ha))
  have h2 : d.byCall.filter (fun p => p.1 != c) = d.byCall :=
    List.filter_eq_self.2 (fun a ha => by simpa using hb a ha)
  have h3 : d.invs.filter (fun x => x.id != i) = d.invs :=
    List.filter_eq_self.2 (fun a ha => by simpa using hi a ha)
  cases d
  simp only [Dealer.forget, Dealer.delCall, Dealer.delByCall, Dealer.delInv] at *
  rw [h1, h2, h3]

theorem AuxInv.mono {s s' : DState} (h : AuxInv s) (hi : ∀ v ∈ s'.d.invs, v ∈ s.d.invs)
    (hg : s'.invGen = s.invGen) (ht : s'.timers = s.timers) (hn : s'.nextTimer = s.nextTimer)
    (hkeep : ∀ v ∈ s.d.invs, v ∉ s'.d.invs → ∀ t ∈ s.timers, v.timer = some t.id → t.canceled = true) : AuxInv s' := by
  refine ⟨?_, ht ▸ h.timerIds, ?_, ?_, ?_, ?_⟩
  · intro v hv; rw [hg]; exact h.gen v (hi v hv)
  · intro t ht'; rw [hn]; exact h.timerRange t (ht ▸ ht')
  · intro v hv tid hvt; rw [hn, ht]; exact h.invTimer v (hi v hv) tid hvt
  · intro v hv w hw; exact h.invTimerInj v (hi v hv) w (hi w hw)
  · intro t ht' hc
    rw [ht] at ht'
    obtain ⟨v, hv, hvc, hvt⟩ := h.timerOwned t ht' hc
    refine ⟨v, ?_, hvc, hvt⟩
    apply Classical.byContradiction
    intro hn'
    have := hkeep v hv hn' t ht' hvt
    rw [hc] at this; cases this

theorem CallInv.forget {d : Dealer} (h : CallInv d) {c i : ReqId} (hb : (c, i) ∈ d.byCall) :
    CallInv (d.forget c i) := by
  refine ⟨nodup_filter _ h.calls, nodup_map_filter _ _ h.invIds, nodup_map_filter _ _ h.invCalls,
    nodup_map_filter _ _ h.byFst, nodup_map_filter _ _ h.bySnd, ?_, ?_, ?_⟩
  · intro c'
    simp only [forget_calls, forget_byCall, List.mem_filter, bne_iff_ne, ne_eq]
    constructor
    · rintro ⟨hc', hne⟩
      obtain ⟨i', hi'⟩ := (h.callBy c').1 hc'
      exact ⟨i', hi', hne⟩
    · rintro ⟨i', hi', hne⟩
      exact ⟨(h.callBy c').2 ⟨i', hi'⟩, hne⟩
  · intro c' i'
    simp only [forget_invs, forget_byCall, List.mem_filter, bne_iff_ne, ne_eq]
    constructor
    · rintro ⟨hm, hne⟩
      obtain ⟨v, hv, h1, h2⟩ := (h.byInv c' i').1 hm
      refine ⟨v, ⟨hv, ?_⟩, h1, h2⟩
      intro hvi
      have : (c', i') = (c, i) := nodup_map_inj h.bySnd hm hb (by simp [← h1, hvi])
      exact hne (by simpa using congrArg Prod.fst this)
    · rintro ⟨v, ⟨hv, hne⟩, h1, h2⟩
      have hm := (h.byInv c' i').2 ⟨v, hv, h1, h2⟩
      refine ⟨hm, ?_⟩
      intro hc'
      have : (c', i') = (c, i) := nodup_map_inj h.byFst hm hb (by simp [hc'])
      exact hne (h1.trans (by simpa using congrArg Prod.snd this))
  · intro v hv
    exact h.callee v (List.mem_filter.1 hv).1

/-- removing a pending call with its link and invocation (or "removing" one that is not there); the timer recorded in
    the removed invocation must have been stopped -/
theorem DealerInv.forget {s : DState} (h : DealerInv s) {c i : ReqId}
    (hb : (c, i) ∈ s.d.byCall ∨ (c ∉ s.d.calls ∧ ∀ v ∈ s.d.invs, v.id ≠ i))
    (hdead : ∀ v ∈ s.d.invs, v.id = i → ∀ t ∈ s.timers, v.timer = some t.id → t.canceled = true) :
    DealerInv { s with d := s.d.forget c i } := by
  rcases hb with hb | ⟨hc, hi⟩
  · refine ⟨h.reg.congr rfl rfl rfl, h.call.forget hb,
      h.aux.mono (fun v hv => (List.mem_filter.1 hv).1) rfl rfl rfl ?_⟩
    intro v hv hn
    apply hdead v hv
    apply Classical.byContradiction
    intro hne
    exact hn (List.mem_filter.2 ⟨hv, by simpa using hne⟩)
  · have : s.d.forget c i = s.d := forget_eq_self hc
      (fun p hp hpc => hc ((h.call.callBy c).2 ⟨p.2, by cases p; simp only at hpc; subst hpc; exact hp⟩)) hi
    rw [this]; exact h

/-- a call ends: the timer recorded in its invocation is stopped, the call is forgotten -/
theorem DealerInv.endCall {s : DState} (h : DealerInv s) {v : Invk} (hv : v ∈ s.d.invs) :
    DealerInv { s.cancelTimer v.timer with d := s.d.forget v.callId v.id } := by
  have hb := (h.call.byInv v.callId v.id).2 ⟨v, hv, rfl, rfl⟩
  have := (h.cancelTimer v.timer).forget (c := v.callId) (i := v.id) (Or.inl (by rw [cancelTimer_d]; exact hb)) (by
    intro w hw hwi t ht hwt
    rw [cancelTimer_d] at hw
    have : w = v := nodup_map_inj h.call.invIds hw hv hwi
    subst this
    exact cancelTimer_dead s w.timer t ht hwt)
  simpa using this

/-! ### the invocation-id generator -/

theorem invGenNext_fst (g : List (SessKey × Nat)) (k : SessKey) : (invGenNext g k).1 = genOf g k + 1 := by
  unfold invGenNext genOf
  cases g.find? (fun p => p.1 == k) <;> rfl

theorem genOf_invGenNext (g : List (SessKey × Nat)) (k k' : SessKey) :
    genOf (invGenNext g k).2 k' = if k' = k then genOf g k + 1 else genOf g k' := by
  unfold invGenNext genOf
  cases hf : g.find? (fun p => p.1 == k) with
  | none =>
    simp only [List.find?_append]
    by_cases hk : k' = k
    · subst hk; simp [hf]
    · have : ((k, 1) : SessKey × Nat).1 ≠ k' := fun h => hk h.symm
      cases g.find? (fun p => p.1 == k') <;> simp [hk, Ne.symm hk]
  | some p =>
    simp only [List.find?_map]
    have hcomp : ((fun p : SessKey × Nat => p.1 == k') ∘ fun q : SessKey × Nat => if (q.1 == k) = true then (k, p.2 + 1) else q)
        = fun q => q.1 == k' := by
      funext q
      simp only [Function.comp]
      by_cases hq : q.1 = k <;> simp [hq]
    rw [hcomp]
    by_cases hk : k' = k
    · subst hk
      have hp : p.1 = k' := by simpa using List.find?_some hf
      simp [hf, hp]
    · cases hf' : g.find? (fun p => p.1 == k') with
      | none => simp [hk]
      | some q =>
        have hq : q.1 = k' := by simpa using List.find?_some hf'
        have : ¬ q.1 = k := fun h => hk (hq.symm.trans h)
        simp [hk, this]

theorem genOf_le_invGenNext (g : List (SessKey × Nat)) (k k' : SessKey) :
    genOf g k' ≤ genOf (invGenNext g k).2 k' := by
  rw [genOf_invGenNext]
  split
  · rename_i h; subst h; omega
  · exact Nat.le_refl _

/-! ### recording a new call -/

theorem newInvk_id (s : DState) (reg : Reg) (caller : SessKey) (req : Nat) (callee : SessKey) (opts : Dict) :
    (newInvk s reg caller req callee opts).id = ⟨callee, genOf s.invGen callee + 1⟩ := by
  simp [newInvk, invGenNext_fst]

theorem DealerInv.recordCall {s : DState} (h : DealerInv s) {reg : Reg} {caller : SessKey} {req : Nat} {callee : SessKey}
    {opts : Dict} (hc : (⟨caller, req⟩ : ReqId) ∉ s.d.calls) :
    DealerInv (recordCall s (newInvk s reg caller req callee opts) callee) := by
  have hvid := newInvk_id s reg caller req callee opts
  generalize hv : newInvk s reg caller req callee opts = v at *
  have hvc : v.callId = ⟨caller, req⟩ := by subst hv; rfl
  have hve : v.callee = callee := by subst hv; rfl
  have hvt : v.timer = none := by subst hv; rfl
  have hfresh : ∀ x ∈ s.d.invs, x.id ≠ v.id := by
    intro x hx he
    have := (h.aux.gen x hx).2
    rw [he, hvid] at this
    simp only at this
    omega
  have hcall : ∀ x ∈ s.d.invs, x.callId ≠ v.callId := by
    intro x hx he
    exact hc (hvc ▸ he ▸ (h.call.inv_call hx).1)
  have hbf : ∀ p ∈ s.d.byCall, p.1 ≠ v.callId := by
    intro p hp he
    exact hc (hvc ▸ he ▸ (h.call.callBy p.1).2 ⟨p.2, hp⟩)
  have hbs : ∀ p ∈ s.d.byCall, p.2 ≠ v.id := by
    intro p hp he
    obtain ⟨x, hx, h1, _⟩ := (h.call.byInv p.1 p.2).1 hp
    exact hfresh x hx (h1.trans he)
  refine ⟨h.reg.congr rfl rfl rfl, ?_, ?_⟩
  · refine ⟨?_, nodup_map_append_singleton _ h.call.invIds hfresh,
      nodup_map_append_singleton _ h.call.invCalls hcall,
      nodup_map_append_singleton _ h.call.byFst hbf, nodup_map_append_singleton _ h.call.bySnd hbs, ?_, ?_, ?_⟩
    · show (s.d.calls ++ [v.callId]).Nodup
      rw [List.nodup_append]
      refine ⟨h.call.calls, by simp, ?_⟩
      intro a ha b hb
      simp only [List.mem_singleton] at hb; subst hb
      intro hab; exact hc (hvc ▸ hab ▸ ha)
    · intro c'
      show c' ∈ s.d.calls ++ [v.callId] ↔ ∃ i, (c', i) ∈ s.d.byCall ++ [(v.callId, v.id)]
      simp only [List.mem_append, List.mem_singleton, Prod.mk.injEq]
      constructor
      · rintro (hc' | rfl)
        · obtain ⟨i, hi⟩ := (h.call.callBy c').1 hc'; exact ⟨i, Or.inl hi⟩
        · exact ⟨v.id, Or.inr ⟨rfl, rfl⟩⟩
      · rintro ⟨i, (hi | ⟨rfl, _⟩)⟩
        · exact Or.inl ((h.call.callBy c').2 ⟨i, hi⟩)
        · exact Or.inr rfl
    · intro c' i'
      show (c', i') ∈ s.d.byCall ++ [(v.callId, v.id)] ↔ ∃ w ∈ s.d.invs ++ [v], w.id = i' ∧ w.callId = c'
      simp only [List.mem_append, List.mem_singleton, Prod.mk.injEq]
      constructor
      · rintro (hm | ⟨rfl, rfl⟩)
        · obtain ⟨w, hw, h1, h2⟩ := (h.call.byInv c' i').1 hm
          exact ⟨w, Or.inl hw, h1, h2⟩
        · exact ⟨v, Or.inr rfl, rfl, rfl⟩
      · rintro ⟨w, (hw | rfl), h1, h2⟩
        · exact Or.inl ((h.call.byInv c' i').2 ⟨w, hw, h1, h2⟩)
        · exact Or.inr ⟨h2.symm, h1.symm⟩
    · intro w hw
      rcases List.mem_append.1 hw with hw | hw
      · exact h.call.callee w hw
      · simp only [List.mem_singleton] at hw; subst hw
        rw [hve, hvid]
  · refine ⟨?_, h.aux.timerIds, h.aux.timerRange, ?_, ?_, ?_⟩
    rotate_right
    · intro t ht hc
      obtain ⟨w, hw, h1, h2⟩ := h.aux.timerOwned t ht hc
      exact ⟨w, List.mem_append_left _ hw, h1, h2⟩
    · intro w hw
      rcases List.mem_append.1 hw with hw | hw
      · have := h.aux.gen w hw
        exact ⟨this.1, Nat.le_trans this.2 (genOf_le_invGenNext _ _ _)⟩
      · simp only [List.mem_singleton] at hw; subst hw
        show 0 < w.id.req ∧ w.id.req ≤ genOf (invGenNext s.invGen callee).2 w.id.sess
        rw [hvid, genOf_invGenNext]
        simp
    · intro w hw tid hwt
      rcases List.mem_append.1 hw with hw | hw
      · exact h.aux.invTimer w hw tid hwt
      · simp only [List.mem_singleton] at hw; subst hw
        rw [hvt] at hwt; cases hwt
    · intro w hw x hx tid hwt hxt
      rcases List.mem_append.1 hw with hw | hw
      · rcases List.mem_append.1 hx with hx | hx
        · exact h.aux.invTimerInj w hw x hx tid hwt hxt
        · simp only [List.mem_singleton] at hx; subst hx
          rw [hvt] at hxt; cases hxt
      · simp only [List.mem_singleton] at hw; subst hw
        rw [hvt] at hwt; cases hwt

/-! ### arming a call timer -/

theorem DealerInv.armTimer {s : DState} (h : DealerInv s) {v : Invk} (hv : v ∈ s.d.invs) (env : DEnv)
    {caller : SessKey} {req : Nat} (timeout : Nat) (hc : v.callId = ⟨caller, req⟩)
    (hold : 0 < timeout → ∀ t ∈ s.timers, v.timer = some t.id → t.canceled = true) :
    DealerInv (armTimer env s caller req v timeout) := by
  unfold Nexus.L2.armTimer
  split
  case isFalse => exact h
  case isTrue =>
  simp only
  have hmem : ∀ w, w ∈ (s.d.setInv { v with timer := some (s.nextTimer + 1) }).invs ↔
      (w ∈ s.d.invs ∧ w.id ≠ v.id) ∨ w = { v with timer := some (s.nextTimer + 1) } := by
    intro w
    unfold Dealer.setInv
    simp only
    rw [mem_map_update (f := fun x : Invk => x.id) (u := fun _ => { v with timer := some (s.nextTimer + 1) })]
    constructor
    · rintro (hw | ⟨x, _, _, rfl⟩)
      · exact Or.inl hw
      · exact Or.inr rfl
    · rintro (hw | rfl)
      · exact Or.inl hw
      · exact Or.inr ⟨v, hv, rfl, rfl⟩
  rename_i hpos
  refine ⟨h.reg.congr rfl rfl rfl, h.call.congr rfl rfl (setInv_shapeC h.call.invIds hv rfl), ?_⟩
  refine ⟨?_, ?_, ?_, ?_, ?_, ?_⟩
  rotate_right
  · intro t ht htc
    show ∃ w ∈ (s.d.setInv { v with timer := some (s.nextTimer + 1) }).invs, _
    rcases List.mem_append.1 ht with hto | htn
    · obtain ⟨w, hw, h1, h2⟩ := h.aux.timerOwned t hto htc
      by_cases hwv : w.id = v.id
      · have hwe : w = v := nodup_map_inj h.call.invIds hw hv hwv
        have := hold hpos t hto (hwe ▸ h2)
        rw [htc] at this; cases this
      · exact ⟨w, (hmem w).2 (Or.inl ⟨hw, hwv⟩), h1, h2⟩
    · simp only [List.mem_singleton] at htn; subst htn
      exact ⟨_, (hmem _).2 (Or.inr rfl), hc, rfl⟩
  · intro w hw
    rcases (hmem w).1 hw with ⟨hw, _⟩ | rfl
    · exact h.aux.gen w hw
    · exact h.aux.gen v hv
  · show ((s.timers ++ [_]).map (fun t : Timer => t.id)).Nodup
    apply nodup_map_append_singleton _ h.aux.timerIds
    intro x hx
    have := (h.aux.timerRange x hx).2
    simp only; omega
  · intro t ht
    show 0 < t.id ∧ t.id ≤ s.nextTimer + 1
    rcases List.mem_append.1 ht with ht | ht
    · have := h.aux.timerRange t ht; omega
    · simp only [List.mem_singleton] at ht; subst ht; simp
  · intro w hw tid hwt
    show 0 < tid ∧ tid ≤ s.nextTimer + 1 ∧ ∀ t ∈ s.timers ++ [_], _
    rcases (hmem w).1 hw with ⟨hw, _⟩ | rfl
    · obtain ⟨h1, h2, h3⟩ := h.aux.invTimer w hw tid hwt
      refine ⟨h1, by omega, ?_⟩
      intro t ht htid
      rcases List.mem_append.1 ht with ht | ht
      · exact h3 t ht htid
      · simp only [List.mem_singleton] at ht; subst ht
        simp only at htid; omega
    · simp only [Option.some.injEq] at hwt; subst hwt
      refine ⟨by omega, Nat.le_refl _, ?_⟩
      intro t ht htid
      rcases List.mem_append.1 ht with ht | ht
      · have := (h.aux.timerRange t ht).2; omega
      · simp only [List.mem_singleton] at ht; subst ht
        simp [hc]
  · intro w hw x hx tid hwt hxt
    rcases (hmem w).1 hw with ⟨hw, _⟩ | rfl <;> rcases (hmem x).1 hx with ⟨hx, _⟩ | rfl
    · exact h.aux.invTimerInj w hw x hx tid hwt hxt
    · simp only [Option.some.injEq] at hxt; subst hxt
      have := (h.aux.invTimer w hw _ hwt).2.1; omega
    · simp only [Option.some.injEq] at hwt; subst hwt
      have := (h.aux.invTimer x hx _ hxt).2.1; omega
    · rfl

/-! ### INVOCATION ERROR, CANCEL, YIELD -/
theorem syncError_none {s : DState} {callee : SessKey} {req : Nat} (details : Dict) (err : String)
    (args : List WVal) (kw : Dict) (hf : s.d.findInv ⟨callee, req⟩ = none) :
    syncError s callee req details err args kw = { st := s } := by
  unfold syncError
  simp only [hf]

theorem syncError_some {s : DState} (h : CallInv s.d) {callee : SessKey} {req : Nat} {v : Invk}
    (details : Dict) (err : String) (args : List WVal) (kw : Dict) (hf : s.d.findInv ⟨callee, req⟩ = some v) :
    syncError s callee req details err args kw =
      { st := { (s.cancelTimer v.timer) with d := s.d.forget v.callId ⟨callee, req⟩ }
        sends := [⟨v.callId.sess, .error tCALL v.callId.req details err args kw⟩] } := by
  have hv := findInv_some_mem hf
  have hc : s.d.calls.contains v.callId = true := contains_calls.2 (h.inv_call hv.1).1
  unfold syncError
  simp only [hf, cancelTimer_d]
  rw [if_pos (by exact hc)]
  rfl

theorem syncError_inv {s : DState} (h : DealerInv s) (callee : SessKey) (req : Nat) (details : Dict) (err : String)
    (args : List WVal) (kw : Dict) : DealerInv (syncError s callee req details err args kw).st := by
  cases hf : s.d.findInv ⟨callee, req⟩ with
  | none => rw [syncError_none _ _ _ _ hf]; exact h
  | some v =>
    rw [syncError_some h.call _ _ _ _ hf]
    have hv := findInv_some_mem hf
    have := h.endCall hv.1
    rw [hv.2] at this
    exact this
/-- what `syncCancel` does to a pending call that has not been cancelled before -/
def cancelOut (env : DEnv) (s : DState) (caller : SessKey) (req : Nat) (mode reason : String)
    (errArgs : List WVal) (iid : ReqId) (invk : Invk) : DOut :=
  let callId : ReqId := ⟨caller, req⟩
  let s := { s with d := s.d.setInv { invk with canceled := true } }
  let s := s.cancelTimer invk.timer
  let canInterrupt := mode != CancelModeSkip && hasFeat env invk.callee RoleCallee FeatureCallCanceling
  let sent := canInterrupt && !env.full invk.callee
  let intr : List Send :=
    if sent then [⟨invk.callee, .interrupt iid.req [(OptReason, .str reason), (OptMode, .str mode)]⟩] else []
  if sent && mode == CancelModeKill then
    { st := s, sends := intr }
  else
    { st := { s with d := s.d.forget callId iid }
      sends := intr ++ [⟨caller, .error tCALL req [] reason errArgs []⟩] }

theorem syncCancel_not_pending {env : DEnv} {s : DState} {caller : SessKey} {req : Nat} (mode reason : String)
    (errArgs : List WVal) (hc : (⟨caller, req⟩ : ReqId) ∉ s.d.calls) :
    syncCancel env s caller req mode reason errArgs = { st := s } := by
  unfold syncCancel
  have : (!s.d.calls.contains (⟨caller, req⟩ : ReqId)) = true := by simpa using hc
  simp only []
  rw [if_pos this]

theorem syncCancel_pending {env : DEnv} {s : DState} {caller : SessKey} {req : Nat} (mode reason : String)
    (errArgs : List WVal) {i : ReqId} {v : Invk} (hc : (⟨caller, req⟩ : ReqId) ∈ s.d.calls)
    (hb : s.d.byCall? ⟨caller, req⟩ = some i) (hf : s.d.findInv i = some v) :
    syncCancel env s caller req mode reason errArgs =
      if v.canceled then { st := s } else cancelOut env s caller req mode reason errArgs i v := by
  unfold syncCancel
  have : ¬ (!s.d.calls.contains (⟨caller, req⟩ : ReqId)) = true := by simpa using hc
  simp only []
  rw [if_neg this]
  simp only [hb, hf]
  rfl

/-- marking a call as cancelled: `canceled` set, the recorded timer stopped -/
theorem DealerInv.cancelMark' {s : DState} (h : DealerInv s) {v : Invk} (hv : v ∈ s.d.invs) :
    DealerInv (({ s with d := s.d.setInv { v with canceled := true } } : DState).cancelTimer v.timer) ∧
    ({ v with canceled := true } : Invk) ∈ (s.d.setInv { v with canceled := true }).invs := by
  refine ⟨(h.setInv (v' := { v with canceled := true }) hv rfl rfl).cancelTimer _, ?_⟩
  unfold Dealer.setInv
  simp only
  exact (mem_map_update (f := fun x : Invk => x.id) (u := fun _ => { v with canceled := true })).2
    (Or.inr ⟨v, hv, rfl, rfl⟩)

theorem cancelOut_inv {env : DEnv} {s : DState} (h : DealerInv s) {caller : SessKey} {req : Nat} (mode reason : String)
    (errArgs : List WVal) {i : ReqId} {v : Invk} (hv : v ∈ s.d.invs) (hb : (⟨caller, req⟩, i) ∈ s.d.byCall)
    (hvi : v.id = i) :
    DealerInv (cancelOut env s caller req mode reason errArgs i v).st := by
  obtain ⟨h0, hm⟩ := h.cancelMark' hv
  have h1 : DealerInv (({ s with d := s.d.setInv { v with canceled := true } } : DState).cancelTimer v.timer) := h0
  unfold cancelOut
  simp only
  split
  · exact h1
  · refine h1.forget (Or.inl (by simpa using hb)) ?_
    intro w hw hwi t ht hwt
    rw [cancelTimer_d] at hw
    have hw' : w ∈ (s.d.setInv { v with canceled := true }).invs := hw
    have hmid : (({ s with d := s.d.setInv { v with canceled := true } } : DState)).d.invs =
        (s.d.setInv { v with canceled := true }).invs := rfl
    have hnd := (h.setInv (v' := { v with canceled := true }) hv rfl rfl).call.invIds
    have : w = { v with canceled := true } := nodup_map_inj hnd hw' hm (hwi.trans hvi.symm)
    subst this
    exact cancelTimer_dead _ v.timer t ht hwt

theorem syncCancel_inv {env : DEnv} {s : DState} (h : DealerInv s) (caller : SessKey) (req : Nat) (mode reason : String)
    (errArgs : List WVal) : DealerInv (syncCancel env s caller req mode reason errArgs).st := by
  by_cases hc : (⟨caller, req⟩ : ReqId) ∈ s.d.calls
  · obtain ⟨i, v, hb, hf, hv, hvi, _, _⟩ := h.call.lookup hc
    rw [syncCancel_pending mode reason errArgs hc hb hf]
    split
    · exact h
    · exact cancelOut_inv h mode reason errArgs hv ((byCall?_eq_some h.call.byFst).1 hb) hvi
  · rw [syncCancel_not_pending mode reason errArgs hc]; exact h


/-- what `syncYield` does with a YIELD for a stored invocation `invk` (owner and caller checks passed) -/
def yieldOut (env : DEnv) (s : DState) (callee : SessKey) (req : Nat) (opts : Dict)
    (args : List WVal) (kw : Dict) (progress canRetry : Bool) (invk : Invk) : DOut :=
  let iid : ReqId := ⟨callee, req⟩
  let callId := invk.callId
  let caller := callId.sess
  let s := if progress then s else s.cancelTimer invk.timer
  let finish (s : DState) : DState := if progress then s else { s with d := s.d.forget callId iid }
  let usesPPT := pptScheme opts != ""
  if usesPPT && !hasFeat env callee RoleCallee FeaturePayloadPassthruMode then
    let s := s.cancelTimer invk.timer
    { st := { s with d := s.d.forget callId iid }
      sends := [⟨caller, .error tCALL callId.req [("error", .str "<text>")] ErrFeatureNotSupported [] []⟩,
                ⟨callee, abortMsg "<text>"⟩]
      aborts := [callee] }
  else if usesPPT && !hasFeat env caller RoleCaller FeaturePayloadPassthruMode then
    { st := finish s
      sends := [⟨callee, .error tYIELD req [("error", .str "<text>")] ErrFeatureNotSupported [] []⟩] ++
               (if progress then [] else
                 [⟨caller, .error tCALL callId.req [("error", .str "<text>")] ErrFeatureNotSupported [] []⟩]) }
  else
  let details : Dict := if progress then [(OptProgress, .bool true)] else []
  let details := if usesPPT then pptInto opts details else details
  let res : Msg := .result callId.req details args kw
  if !env.full caller then
    { st := finish s, sends := [⟨caller, res⟩] }
  else if canRetry then
    { st := s, again := true }
  else
    let o := syncCancel env s caller callId.req CancelModeKillNoWait ErrCanceled []
    { o with st := if progress then o.st else { o.st with d := o.st.d.forget callId iid } }

theorem syncYield_none {env : DEnv} {s : DState} {callee : SessKey} {req : Nat} (opts : Dict)
    (args : List WVal) (kw : Dict) (progress canRetry : Bool) (hf : s.d.findInv ⟨callee, req⟩ = none) :
    syncYield env s callee req opts args kw progress canRetry =
      if progress && !env.full callee then
        { st := s, sends := [⟨callee, .interrupt req [(OptMode, .str CancelModeKillNoWait)]⟩] }
      else { st := s } := by
  unfold syncYield
  simp only [hf]

theorem syncYield_some {env : DEnv} {s : DState} {callee : SessKey} {req : Nat} (opts : Dict)
    (args : List WVal) (kw : Dict) (progress canRetry : Bool) {v : Invk} (hf : s.d.findInv ⟨callee, req⟩ = some v)
    (he : v.callee = callee) (hc : v.callId ∈ s.d.calls) :
    syncYield env s callee req opts args kw progress canRetry =
      yieldOut env s callee req opts args kw progress canRetry v := by
  unfold syncYield
  simp only [hf]
  have h1 : ¬ (v.callee != callee) = true := by simp [he]
  rw [if_neg h1]
  have h2 : ¬ (!s.d.calls.contains v.callId) = true := by simpa using hc
  rw [if_neg h2]
  rfl

/-- under the invariant the owner and caller checks of `syncYield` always pass -/
theorem syncYield_some' {env : DEnv} {s : DState} (h : CallInv s.d) {callee : SessKey} {req : Nat} (opts : Dict)
    (args : List WVal) (kw : Dict) (progress canRetry : Bool) {v : Invk} (hf : s.d.findInv ⟨callee, req⟩ = some v) :
    syncYield env s callee req opts args kw progress canRetry =
      yieldOut env s callee req opts args kw progress canRetry v := by
  have hv := findInv_some_mem hf
  exact syncYield_some opts args kw progress canRetry hf
    (by rw [h.callee v hv.1, hv.2]) (h.inv_call hv.1).1

/-- the timer recorded in the stored invocation `v` is stopped in `S` (same invocations as `s`): the hypothesis
    `DealerInv.forget` wants for forgetting `v` -/
theorem dead_of_cancelled {s S : DState} (h : DealerInv s) {v : Invk} (hv : v ∈ s.d.invs) (hd : S.d = s.d)
    (hdead : ∀ t ∈ S.timers, v.timer = some t.id → t.canceled = true) :
    ∀ w ∈ S.d.invs, w.id = v.id → ∀ t ∈ S.timers, w.timer = some t.id → t.canceled = true := by
  intro w hw hwi t ht hwt
  rw [hd] at hw
  have : w = v := nodup_map_inj h.call.invIds hw hv hwi
  subst this
  exact hdead t ht hwt

theorem yieldOut_inv {env : DEnv} {s : DState} (h : DealerInv s) {callee : SessKey} {req : Nat} (opts : Dict)
    (args : List WVal) (kw : Dict) (progress canRetry : Bool) {v : Invk} (hv : v ∈ s.d.invs) (hi : v.id = ⟨callee, req⟩) :
    DealerInv (yieldOut env s callee req opts args kw progress canRetry v).st := by
  have hb : (v.callId, (⟨callee, req⟩ : ReqId)) ∈ s.d.byCall := hi ▸ (h.call.byInv v.callId v.id).2 ⟨v, hv, rfl, rfl⟩
  have h1 : DealerInv (if progress then s else s.cancelTimer v.timer) := by
    split
    · exact h
    · exact h.cancelTimer _
  have hd1 : (if progress then s else s.cancelTimer v.timer).d = s.d := by split <;> simp
  -- after a non-progress YIELD's own bookkeeping the recorded timer is stopped
  have hdead1 : progress = false → ∀ t ∈ (if progress then s else s.cancelTimer v.timer).timers,
      v.timer = some t.id → t.canceled = true := by
    intro hp t ht hvt
    rw [hp] at ht
    exact cancelTimer_dead s v.timer t ht hvt
  have hfin : DealerInv (if progress then (if progress then s else s.cancelTimer v.timer)
      else { (if progress then s else s.cancelTimer v.timer) with
              d := (if progress then s else s.cancelTimer v.timer).d.forget v.callId ⟨callee, req⟩ }) := by
    by_cases hp : progress = true
    · rw [if_pos hp]; exact h1
    · rw [if_neg hp]
      exact h1.forget (Or.inl (by rw [hd1]; exact hb))
        (hi ▸ dead_of_cancelled h hv hd1 (hdead1 (by simpa using hp)))
  unfold yieldOut
  simp only
  split
  · exact (h1.cancelTimer _).forget (Or.inl (by rw [cancelTimer_d, hd1]; exact hb))
      (hi ▸ dead_of_cancelled h hv (by rw [cancelTimer_d, hd1]) (fun t ht hvt => cancelTimer_dead _ v.timer t ht hvt))
  · split
    · exact hfin
    · split
      · exact hfin
      · split
        · exact h1
        · -- the RESULT was dropped: cancel (killnowait); non-progress also forgets the call
          have hc : v.callId ∈ (if progress then s else s.cancelTimer v.timer).d.calls := by
            rw [hd1]; exact (h.call.inv_call hv).1
          have hby : (if progress then s else s.cancelTimer v.timer).d.byCall? v.callId = some ⟨callee, req⟩ := by
            rw [hd1]; exact (byCall?_eq_some h.call.byFst).2 hb
          have hfi : (if progress then s else s.cancelTimer v.timer).d.findInv ⟨callee, req⟩ = some v := by
            rw [hd1]; exact (findInv_eq_some h.call.invIds).2 ⟨hv, hi⟩
          have hcid : (⟨v.callId.sess, v.callId.req⟩ : ReqId) = v.callId := rfl
          have hsc := syncCancel_pending (env := env) (caller := v.callId.sess) (req := v.callId.req)
            CancelModeKillNoWait ErrCanceled [] (hcid ▸ hc) (hcid ▸ hby) hfi
          simp only
          rw [hsc]
          have h2 := syncCancel_inv (env := env) h1 v.callId.sess v.callId.req CancelModeKillNoWait ErrCanceled []
          rw [hsc] at h2
          by_cases hp : progress = true
          · rw [if_pos hp]; exact h2
          · rw [if_neg hp]
            by_cases hcan : v.canceled = true
            · rw [if_pos hcan] at h2 ⊢
              exact h2.forget (Or.inl (by simp only; rw [hd1]; exact hb))
                (hi ▸ dead_of_cancelled h hv hd1 (hdead1 (by simpa using hp)))
            · rw [if_neg hcan] at h2 ⊢
              have hgone : (⟨v.callId.sess, v.callId.req⟩ : ReqId) ∉
                    (cancelOut env (if progress then s else s.cancelTimer v.timer) v.callId.sess v.callId.req
                      CancelModeKillNoWait ErrCanceled [] ⟨callee, req⟩ v).st.d.calls ∧
                  ∀ w ∈ (cancelOut env (if progress then s else s.cancelTimer v.timer) v.callId.sess v.callId.req
                      CancelModeKillNoWait ErrCanceled [] ⟨callee, req⟩ v).st.d.invs, w.id ≠ ⟨callee, req⟩ := by
                unfold cancelOut
                simp only
                rw [if_neg (by simp [CancelModeKillNoWait, CancelModeKill])]
                simp only [forget_calls, forget_invs]
                refine ⟨fun hx => ?_, fun w hw => ?_⟩
                · have := (List.mem_filter.1 hx).2
                  simp at this
                · have := (List.mem_filter.1 hw).2
                  simpa using this
              exact h2.forget (Or.inr hgone) (fun w hw hwi => absurd hwi (hgone.2 w hw))

theorem syncYield_inv {env : DEnv} {s : DState} (h : DealerInv s) (callee : SessKey) (req : Nat) (opts : Dict)
    (args : List WVal) (kw : Dict) (progress canRetry : Bool) :
    DealerInv (syncYield env s callee req opts args kw progress canRetry).st := by
  cases hf : s.d.findInv ⟨callee, req⟩ with
  | none =>
    rw [syncYield_none opts args kw progress canRetry hf]
    split <;> exact h
  | some v =>
    rw [syncYield_some' h.call opts args kw progress canRetry hf]
    have hv := findInv_some_mem hf
    exact yieldOut_inv h opts args kw progress canRetry hv.1 hv.2


/-! ### CALL -/

theorem pickCallee_shape {reg reg' : Reg} {rnd : Nat} {c : SessKey} (h : pickCallee reg rnd = some (c, reg')) :
    reg'.shape = reg.shape ∧ c ∈ reg.callees ∧ reg'.id = reg.id ∧ reg'.disclose = reg.disclose ∧
      reg'.fwdTimeout = reg.fwdTimeout ∧ reg'.«match» = reg.«match» := by
  obtain ⟨hc, he⟩ := pickCallee_mem h
  rw [he]
  exact ⟨rfl, hc, rfl, rfl, rfl, rfl⟩

theorem dispatch_inv {env : DEnv} {s : DState} (h : DealerInv s) {v : Invk} (hv : v ∈ s.d.invs)
    {caller : SessKey} {req : Nat} (hc : v.callId = ⟨caller, req⟩) (hvt : v.timer = none)
    (callee : SessKey) (invReq timeout : Nat) (m : Msg) :
    DealerInv (dispatch env s caller req callee invReq v timeout m).st := by
  unfold dispatch
  split
  · exact syncError_inv h _ _ _ _ _ _
  · exact h.armTimer hv env timeout hc (fun _ t _ ht => by rw [hvt] at ht; cases ht)

theorem DealerInv.preCancel {s : DState} (h : DealerInv s) (v : Invk) (t : Nat) : DealerInv (preCancel s v t) := by
  unfold Nexus.L2.preCancel
  split
  · exact h.cancelTimer _
  · exact h

theorem dispatchL_inv {env : DEnv} {s : DState} (h : DealerInv s) {v : Invk} (hv : v ∈ s.d.invs)
    {caller : SessKey} {req : Nat} (hc : v.callId = ⟨caller, req⟩) (callee : SessKey) (invReq timeout : Nat) (m : Msg) :
    DealerInv (dispatchL env s caller req callee invReq v timeout m).st := by
  unfold dispatchL
  split
  · exact syncError_inv h _ _ _ _ _ _
  · refine (h.preCancel v timeout).armTimer (by rw [preCancel_d]; exact hv) env timeout hc ?_
    intro hpos t ht hvt
    rw [preCancel_pos _ _ hpos] at ht
    exact cancelTimer_dead s v.timer t ht hvt

theorem firstChunk_inv {env : DEnv} {s : DState} (h : DealerInv s) {reg : Reg} (hm : reg ∈ s.d.regs)
    {caller : SessKey} {req : Nat} (opts : Dict) (proc : String) (args : List WVal) (kw : Dict) {callee : SessKey}
    {reg' : Reg} (hs : reg'.shape = reg.shape) (hb : s.d.byCall? ⟨caller, req⟩ = none) :
    DealerInv (firstChunk env s reg caller req opts proc args kw callee reg').st := by
  have h1 : DealerInv { s with d := s.d.setReg reg' } := h.setReg hm hs
  have hc : (⟨caller, req⟩ : ReqId) ∉ s.d.calls := by
    intro hc
    obtain ⟨i, _, hb', _⟩ := h.call.lookup hc
    rw [hb] at hb'; cases hb'
  rw [firstChunk_eq]
  split
  · exact h1
  · exact h1
  · have h2 := h1.recordCall (reg := reg) (caller := caller) (req := req) (callee := callee) (opts := opts) hc
    refine dispatch_inv h2 ?_ rfl rfl _ _ _ _
    show _ ∈ _ ++ [_]
    exact List.mem_append_right _ (List.mem_singleton.2 rfl)

theorem laterChunk_inv {env : DEnv} {s : DState} (h : DealerInv s)
    {caller : SessKey} {req : Nat} (opts : Dict) (args : List WVal) (kw : Dict) {iid : ReqId} {v0 : Invk}
    (hb : s.d.byCall? ⟨caller, req⟩ = some iid) (hf : s.d.findInv iid = some v0) :
    DealerInv (laterChunk env s caller req opts args kw iid v0).st := by
  obtain ⟨_, v, hf', hv, hvi, hvc, _⟩ := h.call.byCall?_some hb
  rw [hf] at hf'; cases hf'
  unfold laterChunk
  have h1 : DealerInv { s with d := s.d.setInv { v0 with inProgress := opts.optFlag OptProgress } } :=
    h.setInv (v' := { v0 with inProgress := opts.optFlag OptProgress }) hv rfl rfl
  simp only
  refine dispatchL_inv (v := { v0 with inProgress := opts.optFlag OptProgress }) h1 ?_ hvc _ _ _ _
  unfold Dealer.setInv
  simp only
  exact (mem_map_update (f := fun x : Invk => x.id) (u := fun _ => { v0 with inProgress := opts.optFlag OptProgress })).2
    (Or.inr ⟨v0, hv, rfl, rfl⟩)

theorem syncCall_inv {env : DEnv} {s : DState} (h : DealerInv s) (caller : SessKey) (req : Nat) (opts : Dict)
    (proc : String) (args : List WVal) (kw : Dict) (rnd : Nat) :
    DealerInv (syncCall env s caller req opts proc args kw rnd).st := by
  rw [syncCall_eq]
  split
  · rename_i iid hb
    split
    · exact h
    · rename_i v0 hf
      split
      · exact h
      · exact laterChunk_inv h opts args kw hb hf
  · rename_i hb
    split
    · exact h
    · rename_i reg hm
      have hmem := matchProcedure_mem hm
      split
      · exact h
      · split
        · exact h
        · split
          · exact h
          · rename_i callee reg' hp
            exact firstChunk_inv h hmem opts proc args kw (pickCallee_shape hp).1 hb

/-! ### registrations -/

theorem mem_setReg {d : Dealer} {r y : Reg} :
    y ∈ (d.setReg r).regs ↔ (y ∈ d.regs ∧ y.id ≠ r.id) ∨ (y = r ∧ ∃ x ∈ d.regs, x.id = r.id) := by
  unfold Dealer.setReg
  simp only
  rw [mem_map_update (f := fun x : Reg => x.id) (u := fun _ => r)]
  constructor
  · rintro (h | ⟨x, hx, hk, rfl⟩)
    · exact Or.inl h
    · exact Or.inr ⟨rfl, x, hx, hk⟩
  · rintro (h | ⟨rfl, x, hx, hk⟩)
    · exact Or.inl h
    · exact Or.inr ⟨x, hx, hk, rfl⟩

/-- replacing the callee list of a stored registration -/
theorem RegsOk.setCallees {d : Dealer} {n : Nat} (h : RegsOk d.regs n) {reg : Reg} (hm : reg ∈ d.regs)
    {cs : List SessKey} (hne : cs ≠ []) (hnd : cs.Nodup)
    (hs : (reg.policy = "" ∨ reg.policy = InvokeSingle) → cs.length ≤ 1) :
    RegsOk (d.setReg { reg with callees := cs }).regs n := by
  have hx : ∀ x ∈ d.regs, x.id = reg.id → x = reg := fun x hx hk => nodup_map_inj h.ids hx hm hk
  refine ⟨?_, ?_, ?_, ?_, ?_, ?_⟩
  · unfold Dealer.setReg; simp only
    rw [map_update_map_eq (f := fun x : Reg => x.id) (u := fun _ => { reg with callees := cs })]
    · exact h.ids
    · intro x _ hk; exact hk.symm
  · unfold Dealer.setReg; simp only
    rw [map_update_map_eq (f := fun x : Reg => x.id) (u := fun _ => { reg with callees := cs })]
    · exact h.keys
    · intro x hx' hk; rw [hx x hx' hk]; rfl
  all_goals
    intro y hy
    rcases mem_setReg.1 hy with ⟨hy, _⟩ | ⟨rfl, _⟩
  · exact h.range y hy
  · exact h.range reg hm
  · exact h.callees y hy
  · exact ⟨hne, hnd⟩
  · exact h.single y hy
  · exact hs
  · exact h.known y hy
  · exact h.known reg hm

theorem calleeRel_setReg {d : Dealer} {reg : Reg} (hm : reg ∈ d.regs)
    (cs : List SessKey) (id : Nat) (c : SessKey) :
    calleeRel (d.setReg { reg with callees := cs }).regs id c ↔
      (id ≠ reg.id ∧ calleeRel d.regs id c) ∨ (id = reg.id ∧ c ∈ cs) := by
  unfold calleeRel
  constructor
  · rintro ⟨y, hy, h1, h2⟩
    rcases mem_setReg.1 hy with ⟨hy, hne⟩ | ⟨rfl, _⟩
    · exact Or.inl ⟨h1 ▸ hne, y, hy, h1, h2⟩
    · exact Or.inr ⟨h1.symm, h2⟩
  · rintro (⟨hne, y, hy, h1, h2⟩ | ⟨rfl, hc⟩)
    · exact ⟨y, mem_setReg.2 (Or.inl ⟨hy, h1 ▸ hne⟩), h1, h2⟩
    · exact ⟨_, mem_setReg.2 (Or.inr ⟨rfl, reg, hm, rfl⟩), rfl, hc⟩

theorem RegsOk.delReg {d : Dealer} {n : Nat} (h : RegsOk d.regs n) (id : Nat) : RegsOk (d.delReg id).regs n :=
  ⟨nodup_map_filter _ _ h.ids, nodup_map_filter _ _ h.keys,
   fun r hr => h.range r (List.mem_filter.1 hr).1, fun r hr => h.callees r (List.mem_filter.1 hr).1,
   fun r hr => h.single r (List.mem_filter.1 hr).1, fun r hr => h.known r (List.mem_filter.1 hr).1⟩

theorem calleeRel_delReg {d : Dealer} (rid id : Nat) (c : SessKey) :
    calleeRel (d.delReg rid).regs id c ↔ id ≠ rid ∧ calleeRel d.regs id c := by
  unfold calleeRel Dealer.delReg
  simp only [List.mem_filter, bne_iff_ne, ne_eq]
  constructor
  · rintro ⟨y, ⟨hy, hne⟩, h1, h2⟩; exact ⟨h1 ▸ hne, y, hy, h1, h2⟩
  · rintro ⟨hne, y, hy, h1, h2⟩; exact ⟨y, ⟨hy, h1 ▸ hne⟩, h1, h2⟩

theorem delCalleeReg_none {d : Dealer} {n : Nat} (h : RegsOk d.regs n) {k : SessKey} {id : Nat}
    (hr : ¬ calleeRel d.regs id k) : d.delCalleeReg k id = none := by
  unfold Dealer.delCalleeReg
  cases hf : d.findReg id with
  | none => rfl
  | some reg =>
    have := (findReg_eq_some h.ids).1 hf
    have hc : ¬ k ∈ reg.callees := fun hc => hr ⟨reg, this.1, this.2, hc⟩
    simp [hc]

/-- `syncDelCalleeReg` for a session that is a callee of the registration -/
theorem delCalleeReg_some {d : Dealer} {n : Nat} (h : RegsOk d.regs n) {k : SessKey} {id : Nat}
    (hr : calleeRel d.regs id k) :
    ∃ d' del, d.delCalleeReg k id = some (d', del) ∧ RegsOk d'.regs n ∧
      (∀ id' c, calleeRel d'.regs id' c ↔ calleeRel d.regs id' c ∧ ¬ (c = k ∧ id' = id)) ∧
      d' = { d with regs := d'.regs } := by
  obtain ⟨reg, hm, hid, hk⟩ := hr
  have hf := (findReg_eq_some h.ids).2 ⟨hm, hid⟩
  have hnd := (h.callees reg hm).2
  unfold Dealer.delCalleeReg
  simp only [hf, List.contains_eq_mem, hk, decide_true, Bool.not_true, Bool.false_eq_true, if_false]
  have hrel : ∀ id' c, calleeRel d.regs id' c → id' = id → c ∈ reg.callees := by
    rintro id' c ⟨y, hy, h1, h2⟩ he
    have : y = reg := nodup_map_inj h.ids hy hm (h1.trans (he.trans hid.symm))
    exact this ▸ h2
  by_cases he : (eraseFirst k reg.callees).isEmpty = true
  · rw [if_pos he]
    refine ⟨_, _, rfl, h.delReg id, ?_, rfl⟩
    intro id' c
    rw [calleeRel_delReg]
    have hnil : eraseFirst k reg.callees = [] := by simpa using he
    constructor
    · rintro ⟨hne, hc⟩; exact ⟨hc, fun hx => hne hx.2⟩
    · rintro ⟨hc, hne⟩
      refine ⟨fun hx => ?_, hc⟩
      have hcm := hrel id' c hc hx
      have : c ≠ k := fun hck => hne ⟨hck, hx⟩
      have : c ∈ eraseFirst k reg.callees := (mem_eraseFirst hnd).2 ⟨this, hcm⟩
      rw [hnil] at this; cases this
  · rw [if_neg he]
    have hne' : eraseFirst k reg.callees ≠ [] := by simpa using he
    refine ⟨_, _, rfl, h.setCallees hm hne' (nodup_eraseFirst hnd) ?_, ?_, rfl⟩
    · intro hp
      exact Nat.le_trans (length_eraseFirst_le _ _) (h.single reg hm hp)
    · intro id' c
      rw [calleeRel_setReg hm, mem_eraseFirst hnd]
      constructor
      · rintro (⟨hne, hc⟩ | ⟨rfl, hck, hc⟩)
        · exact ⟨hc, fun hx => hne (hx.2.trans hid.symm)⟩
        · exact ⟨⟨reg, hm, rfl, hc⟩, fun hx => hck hx.1⟩
      · rintro ⟨hc, hne⟩
        by_cases hx : id' = reg.id
        · refine Or.inr ⟨hx, fun hck => hne ⟨hck, hx.trans hid⟩, hrel id' c hc (hx.trans hid)⟩
        · exact Or.inl ⟨hx, hc⟩

/-! ### REGISTER -/

theorem syncRegister_inv {s : DState} (h : DealerInv s) (callee : SessKey) (req : Nat) (proc «match» invoke : String)
    (disclose fwd wampURI : Bool) (hk : invoke ∈ Realm.knownPolicies) :
    DealerInv (syncRegister s callee req proc «match» invoke disclose fwd wampURI).st := by
  unfold syncRegister
  simp only
  cases hf : s.d.findProc proc (matchKind «match») with
  | none =>
    simp only
    refine ⟨?_, h.call.congr rfl rfl rfl, h.aux.congr rfl rfl rfl rfl⟩
    have hn := findProc_eq_none.1 hf
    refine ⟨⟨?_, ?_, ?_, ?_, ?_, ?_⟩, idxAdd_ok h.reg.ix _ _, ?_⟩
    · apply nodup_map_append_singleton _ h.reg.regs.ids
      intro x hx; have := (h.reg.regs.range x hx).2; simp only; omega
    · apply nodup_map_append_singleton _ h.reg.regs.keys
      intro x hx he
      simp only [Prod.mk.injEq] at he
      exact hn x hx ⟨he.2, he.1⟩
    · intro r hr
      show 0 < r.id ∧ r.id ≤ s.d.nextReg + 1
      rcases List.mem_append.1 hr with hr | hr
      · have := h.reg.regs.range r hr; omega
      · simp only [List.mem_singleton] at hr; subst hr; simp
    · intro r hr
      rcases List.mem_append.1 hr with hr | hr
      · exact h.reg.regs.callees r hr
      · simp only [List.mem_singleton] at hr; subst hr; simp
    · intro r hr
      rcases List.mem_append.1 hr with hr | hr
      · exact h.reg.regs.single r hr
      · simp only [List.mem_singleton] at hr; subst hr; simp
    · intro r hr
      rcases List.mem_append.1 hr with hr | hr
      · exact h.reg.regs.known r hr
      · simp only [List.mem_singleton] at hr; subst hr; exact hk
    · intro k id
      show id ∈ idxIds (idxAdd s.d.index callee (s.d.nextReg + 1)) k ↔ calleeRel (s.d.regs ++ [_]) id k
      rw [mem_idxIds_idxAdd h.reg.ix, h.reg.ixIff]
      unfold calleeRel
      simp only [List.mem_append, List.mem_singleton]
      constructor
      · rintro (⟨r, hr, h1, h2⟩ | ⟨rfl, rfl⟩)
        · exact ⟨r, Or.inl hr, h1, h2⟩
        · exact ⟨_, Or.inr rfl, rfl, by simp⟩
      · rintro ⟨r, (hr | rfl), h1, h2⟩
        · exact Or.inl ⟨r, hr, h1, h2⟩
        · simp only [List.mem_singleton] at h2
          exact Or.inr ⟨h2, h1.symm⟩
  | some reg =>
    simp only
    have hm := ((findProc_eq_some h.reg.regs.keys).1 hf).1
    split
    · exact h
    · split
      · exact h
      · split
        · exact h
        · rename_i hp1 hp2 hc
          have hc' : callee ∉ reg.callees := by simpa using hc
          have hp1' : ¬ (reg.policy = "" ∨ reg.policy = InvokeSingle) := by simpa using hp1
          refine ⟨?_, h.call.congr rfl rfl rfl, h.aux.congr rfl rfl rfl rfl⟩
          refine ⟨?_, idxAdd_ok h.reg.ix _ _, ?_⟩
          · refine h.reg.regs.setCallees hm (by simp) ?_ (fun hp => absurd hp hp1')
            rw [List.nodup_append]
            refine ⟨(h.reg.regs.callees reg hm).2, by simp, ?_⟩
            intro a ha b hb
            simp only [List.mem_singleton] at hb; subst hb
            intro hab; exact hc' (hab ▸ ha)
          · intro k id
            show id ∈ idxIds (idxAdd s.d.index callee reg.id) k ↔
              calleeRel (s.d.setReg { reg with callees := reg.callees ++ [callee] }).regs id k
            rw [mem_idxIds_idxAdd h.reg.ix, h.reg.ixIff, calleeRel_setReg hm]
            constructor
            · rintro (hr | ⟨rfl, rfl⟩)
              · by_cases hx : id = reg.id
                · right
                  refine ⟨hx, List.mem_append_left _ ?_⟩
                  obtain ⟨y, hy, h1, h2⟩ := hr
                  have : y = reg := nodup_map_inj h.reg.regs.ids hy hm (h1.trans hx)
                  exact this ▸ h2
                · exact Or.inl ⟨hx, hr⟩
              · exact Or.inr ⟨rfl, by simp⟩
            · rintro (⟨_, hr⟩ | ⟨rfl, hc⟩)
              · exact Or.inl hr
              · rcases List.mem_append.1 hc with hc | hc
                · exact Or.inl ⟨reg, hm, rfl, hc⟩
                · simp only [List.mem_singleton] at hc
                  exact Or.inr ⟨hc, rfl⟩

/-! ### UNREGISTER -/

theorem syncUnregister_inv {s : DState} (h : DealerInv s) (callee : SessKey) (req regId : Nat) :
    DealerInv (syncUnregister s callee req regId).st := by
  unfold syncUnregister
  simp only
  by_cases hr : calleeRel s.d.regs regId callee
  · obtain ⟨d', del, he, hok, hrel, hd'⟩ :=
      delCalleeReg_some (d := { s.d with index := idxDel s.d.index callee regId }) h.reg.regs hr
    rw [he]
    simp only
    refine ⟨⟨?_, ?_, ?_⟩, h.call.congr (by rw [hd']) (by rw [hd']) (by rw [hd']),
      h.aux.congr (by rw [hd']) rfl rfl rfl⟩
    · show RegsOk d'.regs d'.nextReg
      rw [hd']; exact hok
    · show IdxOk d'.index
      rw [hd']; exact idxDel_ok h.reg.ix _ _
    · intro k id
      show id ∈ idxIds d'.index k ↔ calleeRel d'.regs id k
      rw [hrel, hd']
      show id ∈ idxIds (idxDel s.d.index callee regId) k ↔ _
      rw [mem_idxIds_idxDel h.reg.ix, h.reg.ixIff]
  · have he := delCalleeReg_none (d := { s.d with index := idxDel s.d.index callee regId }) h.reg.regs hr
    rw [he]
    simp only
    refine ⟨⟨h.reg.regs, idxDel_ok h.reg.ix _ _, ?_⟩, h.call.congr rfl rfl rfl, h.aux.congr rfl rfl rfl rfl⟩
    intro k id
    show id ∈ idxIds (idxDel s.d.index callee regId) k ↔ calleeRel s.d.regs id k
    rw [mem_idxIds_idxDel h.reg.ix, h.reg.ixIff]
    constructor
    · exact fun hx => hx.1
    · intro hx
      exact ⟨hx, fun hc => hr (hc.1 ▸ hc.2 ▸ hx)⟩


end Nexus.L2
