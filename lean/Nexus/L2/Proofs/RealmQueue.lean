/-
  The router→client queues of the realm model (`Realm.trySend`, `Realm.deliver`): what a send does
  to one session's queue, that a send hitting a full queue changes NOTHING, and the queue
  invariant `QueueInv` (C07: "at most its configured outbound queue buffered; the rest is lost"),
  preserved by every function of `Nexus.L2.Realm`.

  Vocabulary (definitions, first section): `queueOf`, `accept`, `msgsTo`, `JoinFresh`, `JoinClean`, `QueueInv`.
  Explicit assumption for `join`: a joining key that names no attached client names no leftover queue either
  (`JoinClean`; the former `JoinFresh` also asked that it names no attached client, but such a `join` is a
  no-op of the model now; session keys are model-internal names which the harness never reuses).
-/
import Nexus.L2.Proofs.RealmFrame

namespace Nexus.L2
namespace Realm
open Gen.N

/-! ### vocabulary -/

/-- the messages buffered for session `k`, oldest first -/
def queueOf (r : Realm) (k : SessKey) : List Msg :=
  match r.queues.find? (fun q => q.1 == k) with
  | some q => q.2
  | none => []

/-- A bounded queue of capacity `cap` holding `q` is offered the messages `ms` in order: each is
    appended if there is room at that moment, and lost otherwise. -/
def accept (cap : Nat) : List Msg → List Msg → List Msg
  | q, [] => q
  | q, m :: ms => accept cap (if q.length < cap then q ++ [m] else q) ms

/-- the messages of `l` addressed to session `k`, in order -/
def msgsTo (k : SessKey) (l : List Send) : List Msg := (l.filter (fun x => x.to == k)).map (·.msg)

/-- the attached client stored under key `k` -/
def client? (r : Realm) (k : SessKey) : Option Session := r.clients.find? (fun c => c.key == k)

/-- a key that may join: it names no attached client and no queue -/
def JoinFresh (r : Realm) (k : SessKey) : Prop :=
  (∀ c ∈ r.clients, c.key ≠ k) ∧ (∀ q ∈ r.queues, q.1 ≠ k)

/-- what is left of `JoinFresh` now that `join` under the key of an attached client is a no-op of the
    model: a joining key that names no attached client names no leftover queue either (the queue of
    a departed session whose closure its client has not observed yet: the model names queues by
    session key, the router would give the new session a queue of its own) -/
def JoinClean (r : Realm) (k : SessKey) : Prop :=
  (∀ c ∈ r.clients, c.key ≠ k) → ∀ q ∈ r.queues, q.1 ≠ k

theorem JoinFresh.clean {r : Realm} {k : SessKey} (h : JoinFresh r k) : JoinClean r k := fun _ => h.2

/-- The queue invariant:
    * every queue belongs to an attached client, or to a peer closed in this step / a departed
      session whose closure has not been observed yet (ghost) — both are in `closedPeers` until
      `flush` lets the client see the closure;
    * for every attached client the number of buffered messages is at most its capacity;
    * client keys are distinct; ghosts are closed peers. -/
def QueueInv (r : Realm) : Prop :=
  (∀ q ∈ r.queues, (∃ c ∈ r.clients, c.key = q.1) ∨ q.1 ∈ r.closedPeers) ∧
  (∀ c ∈ r.clients, r.queueLen c.key ≤ c.cap) ∧
  (r.clients.map (·.key)).Nodup ∧
  (∀ k ∈ r.ghosts, k ∈ r.closedPeers)

/-! ### the queue table -/

/-- the queue-table update of a successful `trySend` -/
def enq (qs : List (SessKey × List Msg)) (k : SessKey) (m : Msg) : List (SessKey × List Msg) :=
  if qs.any (fun q => q.1 == k) then qs.map (fun q => if q.1 == k then (q.1, q.2 ++ [m]) else q)
  else qs ++ [(k, [m])]

def qlook (qs : List (SessKey × List Msg)) (k : SessKey) : List Msg :=
  match qs.find? (fun q => q.1 == k) with
  | some q => q.2
  | none => []

theorem queueOf_eq (r : Realm) (k : SessKey) : r.queueOf k = qlook r.queues k := rfl

theorem queueLen_eq (r : Realm) (k : SessKey) : r.queueLen k = (r.queueOf k).length := by
  unfold queueLen queueOf
  cases r.queues.find? (fun q => q.1 == k) <;> rfl

theorem qlook_nil (k : SessKey) : qlook [] k = [] := rfl

theorem qlook_cons (q : SessKey × List Msg) (qs) (k : SessKey) :
    qlook (q :: qs) k = if q.1 = k then q.2 else qlook qs k := by
  unfold qlook
  by_cases h : q.1 = k <;> simp [h]

theorem qlook_of_not_mem {qs : List (SessKey × List Msg)} {k : SessKey} (h : ∀ q ∈ qs, q.1 ≠ k) :
    qlook qs k = [] := by
  induction qs with
  | nil => rfl
  | cons q qs ih =>
    rw [qlook_cons, if_neg (h q (List.mem_cons_self ..))]
    exact ih (fun q' hq' => h q' (List.mem_cons_of_mem _ hq'))

theorem qlook_map_append (qs : List (SessKey × List Msg)) (k k' : SessKey) (m : Msg) :
    qlook (qs.map (fun q => if q.1 == k then (q.1, q.2 ++ [m]) else q)) k' =
      if k' = k ∧ qs.any (fun q => q.1 == k) = true then qlook qs k' ++ [m] else qlook qs k' := by
  induction qs with
  | nil => simp [qlook_nil]
  | cons q qs ih =>
    simp only [List.map_cons, qlook_cons, List.any_cons]
    by_cases h1 : q.1 = k
    · by_cases h2 : q.1 = k'
      · have : k' = k := h2.symm.trans h1
        simp [h1, this]
      · have hne : ¬ k' = k := fun e => h2 (h1.trans e.symm)
        have hb : (q.1 == k) = true := by simpa using h1
        simp only [hb, if_true]
        rw [if_neg h2, if_neg h2, ih]
        simp [hne]
    · have hb : (q.1 == k) = false := by simpa using h1
      simp only [hb, Bool.false_eq_true, if_false, Bool.false_or]
      by_cases h2 : q.1 = k'
      · have : ¬ k' = k := fun e => h1 (h2.trans e)
        simp [h2, this]
      · rw [if_neg h2, if_neg h2, ih]

theorem qlook_append_new (qs : List (SessKey × List Msg)) (k k' : SessKey) (m : Msg)
    (h : qs.any (fun q => q.1 == k) = false) :
    qlook (qs ++ [(k, [m])]) k' = if k' = k then qlook qs k' ++ [m] else qlook qs k' := by
  induction qs with
  | nil =>
    simp only [List.nil_append, qlook_cons, qlook_nil]
    by_cases e : k = k'
    · simp [e]
    · have : ¬ k' = k := fun x => e x.symm
      simp [e, this]
  | cons q qs ih =>
    simp only [List.any_cons, Bool.or_eq_false_iff] at h
    have hq : q.1 ≠ k := by simpa using h.1
    simp only [List.cons_append, qlook_cons]
    by_cases h2 : q.1 = k'
    · have : ¬ k' = k := fun e => hq (h2.trans e)
      simp [h2, this]
    · rw [if_neg h2, if_neg h2, ih h.2]

/-- a successful enqueue extends the queue of `k` by `m` and no other queue -/
theorem qlook_enq (qs : List (SessKey × List Msg)) (k k' : SessKey) (m : Msg) :
    qlook (enq qs k m) k' = if k' = k then qlook qs k' ++ [m] else qlook qs k' := by
  unfold enq
  by_cases h : qs.any (fun q => q.1 == k) = true
  · rw [if_pos h, qlook_map_append]
    simp [h]
  · rw [if_neg h]
    exact qlook_append_new qs k k' m (Bool.eq_false_iff.mpr h)

theorem enq_keys (qs : List (SessKey × List Msg)) (k : SessKey) (m : Msg) :
    ∀ q ∈ enq qs k m, q.1 = k ∨ ∃ q0 ∈ qs, q0.1 = q.1 := by
  intro q hq
  unfold enq at hq
  split at hq
  · obtain ⟨q0, hq0, rfl⟩ := List.mem_map.mp hq
    right
    refine ⟨q0, hq0, ?_⟩
    split <;> rfl
  · rcases List.mem_append.mp hq with h | h
    · exact Or.inr ⟨q, h, rfl⟩
    · rw [List.mem_singleton.mp h]; exact Or.inl rfl

/-! ### what one send does -/

/-- everything a send (or a list of sends) leaves alone -/
structure SendFrame (r r' : Realm) : Prop where
  cfg : r'.cfg = r.cfg
  broker : r'.broker = r.broker
  ds : r'.ds = r.ds
  clients : r'.clients = r.clients
  ending : r'.ending = r.ending
  testaments : r'.testaments = r.testaments
  metaProcs : r'.metaProcs = r.metaProcs
  metaS : r'.metaS = r.metaS
  closedPeers : r'.closedPeers = r.closedPeers
  retries : r'.retries = r.retries
  deferred : r'.deferred = r.deferred
  inbox : r'.inbox = r.inbox
  ghosts : r'.ghosts = r.ghosts
  now : r'.now = r.now
  pubCount : r'.pubCount = r.pubCount
  rnd : r'.rnd = r.rnd

theorem SendFrame.refl (r : Realm) : SendFrame r r :=
  ⟨rfl, rfl, rfl, rfl, rfl, rfl, rfl, rfl, rfl, rfl, rfl, rfl, rfl, rfl, rfl, rfl⟩

theorem SendFrame.trans {a b c : Realm} (h1 : SendFrame a b) (h2 : SendFrame b c) : SendFrame a c :=
  ⟨h2.cfg.trans h1.cfg, h2.broker.trans h1.broker, h2.ds.trans h1.ds, h2.clients.trans h1.clients,
    h2.ending.trans h1.ending, h2.testaments.trans h1.testaments, h2.metaProcs.trans h1.metaProcs,
    h2.metaS.trans h1.metaS, h2.closedPeers.trans h1.closedPeers, h2.retries.trans h1.retries,
    h2.deferred.trans h1.deferred, h2.inbox.trans h1.inbox, h2.ghosts.trans h1.ghosts, h2.now.trans h1.now, h2.pubCount.trans h1.pubCount,
    h2.rnd.trans h1.rnd⟩

theorem setPanic_frame (r : Realm) (p : Option String) : SendFrame r (r.setPanic p) := by
  unfold setPanic; split <;> exact ⟨rfl, rfl, rfl, rfl, rfl, rfl, rfl, rfl, rfl, rfl, rfl, rfl, rfl, rfl, rfl, rfl⟩

/-- a message for the meta session is never queued -/
theorem trySend_meta (r : Realm) (s : Send) (h : s.to = metaKey) :
    (r.trySend s).queues = r.queues ∧ SendFrame r (r.trySend s) ∧ (r.trySend s).panic = r.panic := by
  unfold trySend
  rw [if_pos h]
  split <;> exact ⟨rfl, ⟨rfl, rfl, rfl, rfl, rfl, rfl, rfl, rfl, rfl, rfl, rfl, rfl, rfl, rfl, rfl, rfl⟩, rfl⟩

/-- a send to a key that is neither the meta session nor an attached client is the model's panic
    "send to a closed peer" (never reached from a state satisfying `RealmInv`) -/
theorem trySend_noclient (r : Realm) (s : Send) (hne : s.to ≠ metaKey) (hc : r.client? s.to = none) :
    r.trySend s = r.setPanic (some s!"send to session {s.to} whose peer is closed") := by
  unfold trySend client? at *
  rw [if_neg hne, hc]

/-- a send to an attached client: enqueued if there is room, otherwise the state is unchanged -/
theorem trySend_client (r : Realm) (s : Send) {c : Session} (hne : s.to ≠ metaKey) (hc : r.client? s.to = some c) :
    r.trySend s = if r.queueLen s.to ≥ c.cap then r else { r with queues := enq r.queues s.to s.msg } := by
  unfold trySend client? at *
  rw [if_neg hne, hc]
  simp only
  split
  · rfl
  · unfold enq
    split <;> rfl

/-- C07: a send that finds the recipient's queue full changes NOTHING -/
theorem trySend_full (r : Realm) (s : Send) {c : Session} (hne : s.to ≠ metaKey) (hc : r.client? s.to = some c)
    (hfull : c.cap ≤ r.queueLen s.to) : r.trySend s = r := by
  rw [trySend_client r s hne hc, if_pos hfull]

theorem trySend_room (r : Realm) (s : Send) {c : Session} (hne : s.to ≠ metaKey) (hc : r.client? s.to = some c)
    (hroom : r.queueLen s.to < c.cap) : r.trySend s = { r with queues := enq r.queues s.to s.msg } := by
  rw [trySend_client r s hne hc, if_neg (by omega)]

theorem trySend_frame (r : Realm) (s : Send) : SendFrame r (r.trySend s) := by
  by_cases hm : s.to = metaKey
  · exact (trySend_meta r s hm).2.1
  · cases hc : r.client? s.to with
    | none => rw [trySend_noclient r s hm hc]; exact setPanic_frame _ _
    | some c =>
      rw [trySend_client r s hm hc]
      split
      · exact SendFrame.refl r
      · exact ⟨rfl, rfl, rfl, rfl, rfl, rfl, rfl, rfl, rfl, rfl, rfl, rfl, rfl, rfl, rfl, rfl⟩

/-- the queue of session `k` after one send -/
theorem queueOf_trySend (r : Realm) (s : Send) (k : SessKey) :
    (r.trySend s).queueOf k =
      if s.to = k ∧ s.to ≠ metaKey ∧ (∃ c, r.client? s.to = some c ∧ (r.queueOf k).length < c.cap)
      then r.queueOf k ++ [s.msg] else r.queueOf k := by
  by_cases hm : s.to = metaKey
  · rw [if_neg (fun h => h.2.1 hm)]
    simp only [queueOf_eq, (trySend_meta r s hm).1]
  · cases hc : r.client? s.to with
    | none =>
      rw [trySend_noclient r s hm hc, if_neg (by simp)]
      simp only [queueOf_eq, setPanic_queues]
    | some c =>
      rw [trySend_client r s hm hc]
      by_cases hfull : r.queueLen s.to ≥ c.cap
      · rw [if_pos hfull, if_neg]
        rintro ⟨rfl, _, c', hc', hl⟩
        simp only [Option.some.injEq] at hc'
        subst hc'
        rw [queueLen_eq] at hfull
        omega
      · rw [if_neg hfull]
        show qlook (enq r.queues s.to s.msg) k = _
        rw [qlook_enq]
        by_cases hk : s.to = k
        · subst hk
          rw [if_pos rfl, if_pos]
          · rfl
          · refine ⟨rfl, hm, c, rfl, ?_⟩
            rw [queueLen_eq] at hfull; omega
        · rw [if_neg (fun e => hk e.symm), if_neg (fun h => hk h.1)]
          rfl

/-- the whole effect of one send to an attached client: nothing at all when its queue is full;
    otherwise exactly that message is appended to exactly that queue -/
theorem trySend_client_effect (r : Realm) (s : Send) {c : Session} (hne : s.to ≠ metaKey)
    (hc : r.client? s.to = some c) :
    (c.cap ≤ r.queueLen s.to → r.trySend s = r) ∧
    (r.queueLen s.to < c.cap →
      (r.trySend s).queueOf s.to = r.queueOf s.to ++ [s.msg] ∧
      (∀ k, k ≠ s.to → (r.trySend s).queueOf k = r.queueOf k) ∧
      SendFrame r (r.trySend s) ∧ (r.trySend s).tasks = r.tasks ∧ (r.trySend s).panic = r.panic) := by
  refine ⟨trySend_full r s hne hc, ?_⟩
  intro hroom
  refine ⟨?_, ?_, trySend_frame r s, ?_, ?_⟩
  · rw [queueOf_trySend, if_pos]
    exact ⟨rfl, hne, c, hc, by rw [← queueLen_eq]; exact hroom⟩
  · intro k hk
    rw [queueOf_trySend, if_neg (fun h => hk h.1.symm)]
  · rw [trySend_room r s hne hc hroom]
  · rw [trySend_room r s hne hc hroom]

/-! ### a list of sends -/

theorem deliver_nil (r : Realm) : r.deliver [] = r := rfl
theorem deliver_cons (r : Realm) (s : Send) (ss : List Send) : r.deliver (s :: ss) = (r.trySend s).deliver ss := rfl

theorem deliver_append (a b : List Send) : ∀ (r : Realm), r.deliver (a ++ b) = (r.deliver a).deliver b := by
  induction a with
  | nil => intro r; rfl
  | cons s a ih => intro r; simp only [List.cons_append, deliver_cons, ih]

theorem deliver_frame (ss : List Send) : ∀ (r : Realm), SendFrame r (r.deliver ss) := by
  induction ss with
  | nil => intro r; exact SendFrame.refl r
  | cons s ss ih => intro r; exact (trySend_frame r s).trans (ih _)

theorem client?_of_frame {r r' : Realm} (h : SendFrame r r') (k : SessKey) : r'.client? k = r.client? k := by
  unfold client?; rw [h.clients]

theorem accept_nil (cap : Nat) (q : List Msg) : accept cap q [] = q := rfl
theorem accept_cons (cap : Nat) (q : List Msg) (m : Msg) (ms : List Msg) :
    accept cap q (m :: ms) = accept cap (if q.length < cap then q ++ [m] else q) ms := rfl

theorem accept_append (cap : Nat) (a b : List Msg) : ∀ q, accept cap q (a ++ b) = accept cap (accept cap q a) b := by
  induction a with
  | nil => intro q; rfl
  | cons m a ih => intro q; simp only [List.cons_append, accept_cons, ih]

theorem msgsTo_nil (k : SessKey) : msgsTo k [] = [] := rfl
theorem msgsTo_cons (k : SessKey) (s : Send) (ss : List Send) :
    msgsTo k (s :: ss) = if s.to = k then s.msg :: msgsTo k ss else msgsTo k ss := by
  unfold msgsTo
  by_cases h : s.to = k <;> simp [h]

theorem msgsTo_append (k : SessKey) (a b : List Send) : msgsTo k (a ++ b) = msgsTo k a ++ msgsTo k b := by
  unfold msgsTo; simp [List.filter_append]

/-- The queue of an attached client after a list of sends: the messages addressed to it are offered
    to its bounded queue in order (each dropped iff the queue is full at that moment). -/
theorem queueOf_deliver_client (ss : List Send) : ∀ (r : Realm) (k : SessKey) (c : Session), k ≠ metaKey →
    r.client? k = some c → (r.deliver ss).queueOf k = accept c.cap (r.queueOf k) (msgsTo k ss) := by
  induction ss with
  | nil => intro r k c _ _; rfl
  | cons s ss ih =>
    intro r k c hk hc
    rw [deliver_cons, ih (r.trySend s) k c hk (by rw [client?_of_frame (trySend_frame r s)]; exact hc),
      queueOf_trySend, msgsTo_cons]
    by_cases hto : s.to = k
    · subst hto
      rw [if_pos rfl, accept_cons]
      congr 1
      by_cases hl : (r.queueOf s.to).length < c.cap
      · rw [if_pos hl, if_pos ⟨rfl, hk, c, hc, hl⟩]
      · rw [if_neg hl, if_neg]
        rintro ⟨_, _, c', hc', hl'⟩
        rw [hc] at hc'
        simp only [Option.some.injEq] at hc'
        subst hc'
        exact hl hl'
    · rw [if_neg hto, if_neg (fun h => hto h.1)]

/-- … and every other queue (of a departed session, or under the meta key) is untouched. -/
theorem queueOf_deliver_other (ss : List Send) : ∀ (r : Realm) (k : SessKey),
    (k = metaKey ∨ r.client? k = none) → (r.deliver ss).queueOf k = r.queueOf k := by
  induction ss with
  | nil => intro r k _; rfl
  | cons s ss ih =>
    intro r k hk
    rw [deliver_cons, ih (r.trySend s) k (by rw [client?_of_frame (trySend_frame r s)]; exact hk), queueOf_trySend,
      if_neg]
    rintro ⟨rfl, hne, c, hc, _⟩
    rcases hk with hk | hk
    · exact hne hk
    · rw [hk] at hc; cases hc

/-- C07 (frame): a send that is dropped because the recipient's queue is full at that moment has no
    effect whatsoever on the outcome of the whole list of sends: every other message ends up exactly
    where it would have without it, and all tables are the same. -/
theorem deliver_drop (r : Realm) (pre post : List Send) (s : Send) {c : Session} (hne : s.to ≠ metaKey)
    (hc : r.client? s.to = some c) (hfull : c.cap ≤ (r.deliver pre).queueLen s.to) :
    r.deliver (pre ++ s :: post) = r.deliver (pre ++ post) := by
  rw [deliver_append, deliver_cons, deliver_append,
    trySend_full (r.deliver pre) s hne (by rw [client?_of_frame (deliver_frame pre r)]; exact hc) hfull]

/-! ### the queue invariant: primitives -/

theorem client?_of_mem {r : Realm} (hn : (r.clients.map (·.key)).Nodup) {c : Session} (hc : c ∈ r.clients) :
    r.client? c.key = some c := by
  unfold client?
  generalize r.clients = l at hn hc
  induction l with
  | nil => cases hc
  | cons a l ih =>
    simp only [List.map_cons, List.nodup_cons, List.mem_map, not_exists, not_and] at hn
    rcases List.mem_cons.mp hc with rfl | h
    · simp
    · have : a.key ≠ c.key := fun e => hn.1 c h e.symm
      have hb : (a.key == c.key) = false := by simpa using this
      rw [List.find?_cons, hb]
      exact ih hn.2 h

theorem client?_mem {r : Realm} {k : SessKey} {c : Session} (h : r.client? k = some c) : c ∈ r.clients ∧ c.key = k :=
  find?_key h

theorem qinv_setPanic {r : Realm} (h : QueueInv r) (p : Option String) : QueueInv (r.setPanic p) := by
  unfold setPanic
  split <;> exact h

theorem qinv_addTasks {r : Realm} (h : QueueInv r) (ts : List Task) : QueueInv (r.addTasks ts) := h

/-- the invariant only looks at `clients`, `queues`, `closedPeers`, `ghosts` -/
theorem qinv_congr {r r' : Realm} (hc : r'.clients = r.clients) (hq : r'.queues = r.queues)
    (hp : r'.closedPeers = r.closedPeers) (hg : r'.ghosts = r.ghosts) (h : QueueInv r) : QueueInv r' := by
  unfold QueueInv queueLen at *
  rw [hc, hq, hp, hg]
  exact h

theorem qinv_trySend {r : Realm} (h : QueueInv r) (s : Send) : QueueInv (r.trySend s) := by
  by_cases hm : s.to = metaKey
  · obtain ⟨hq, hf, _⟩ := trySend_meta r s hm
    exact qinv_congr hf.clients hq hf.closedPeers hf.ghosts h
  · cases hc : r.client? s.to with
    | none => rw [trySend_noclient r s hm hc]; exact qinv_setPanic h _
    | some c =>
      rw [trySend_client r s hm hc]
      split
      · exact h
      · rename_i hroom
        obtain ⟨hcm, hck⟩ := client?_mem hc
        obtain ⟨h1, h2, h3, h4⟩ := h
        refine ⟨?_, ?_, h3, h4⟩
        · intro q hq
          rcases enq_keys r.queues s.to s.msg q hq with e | ⟨q0, hq0, e⟩
          · exact Or.inl ⟨c, hcm, hck.trans e.symm⟩
          · rw [← e]; exact h1 q0 hq0
        · intro c' hc'
          show (Realm.queueLen { r with queues := enq r.queues s.to s.msg } c'.key) ≤ c'.cap
          rw [queueLen_eq]
          show (qlook (enq r.queues s.to s.msg) c'.key).length ≤ c'.cap
          rw [qlook_enq]
          have hb := h2 c' hc'
          rw [queueLen_eq, queueOf_eq] at hb
          by_cases e : c'.key = s.to
          · rw [if_pos e]
            have hcc : r.client? s.to = some c' := e ▸ client?_of_mem h3 hc'
            rw [hc] at hcc
            simp only [Option.some.injEq] at hcc
            subst hcc
            rw [queueLen_eq, queueOf_eq, ← e] at hroom
            simp only [List.length_append, List.length_singleton]
            omega
          · rw [if_neg e]; exact hb

theorem qinv_deliver (ss : List Send) : ∀ {r : Realm}, QueueInv r → QueueInv (r.deliver ss) := by
  induction ss with
  | nil => intro r h; exact h
  | cons s ss ih => intro r h; exact ih (qinv_trySend h s)

theorem qinv_applyD {r : Realm} (h : QueueInv r) (o : DOut) : QueueInv (r.applyD o) := by
  unfold applyD
  apply qinv_setPanic
  have h1 : QueueInv ({ r with ds := o.st } : Realm) := h
  exact qinv_deliver o.sends h1

/-- clients replaced by copies with the same key and capacity (stall, resume, modify_details) -/
theorem qinv_map_clients {r r' : Realm} (f : Session → Session) (hk : ∀ c, (f c).key = c.key)
    (hcap : ∀ c, (f c).cap = c.cap) (hc : r'.clients = r.clients.map f) (hq : r'.queues = r.queues)
    (hp : r'.closedPeers = r.closedPeers) (hg : ∀ k ∈ r'.ghosts, k ∈ r.ghosts) (h : QueueInv r) : QueueInv r' := by
  obtain ⟨h1, h2, h3, h4⟩ := h
  unfold QueueInv queueLen
  rw [hc, hq, hp]
  refine ⟨?_, ?_, ?_, fun k hkk => h4 k (hg k hkk)⟩
  · intro q hq'
    rcases h1 q hq' with ⟨c, hcm, e⟩ | hcl
    · exact Or.inl ⟨f c, List.mem_map.mpr ⟨c, hcm, rfl⟩, (hk c).trans e⟩
    · exact Or.inr hcl
  · intro c' hc'
    obtain ⟨c, hcm, rfl⟩ := List.mem_map.mp hc'
    rw [hk, hcap]
    exact h2 c hcm
  · rw [List.map_map]
    have : (fun c => (f c).key) = (fun c : Session => c.key) := funext hk
    show (r.clients.map (fun c => (f c).key)).Nodup
    rw [this]; exact h3

/-! ### the queue invariant: handlers -/

macro "qinv_close" h:ident : tactic => `(tactic| (
  repeat (first
    | exact $h
    | apply qinv_trySend
    | apply qinv_deliver
    | apply qinv_applyD
    | apply qinv_setPanic
    | apply qinv_addTasks)))

theorem qinv_handlePublish {r : Realm} (h : QueueInv r) (s : Session) (req : Nat) (opts : Dict) (topic : String)
    (args : List WVal) (kw : Dict) : QueueInv (handlePublish r s req opts topic args kw) := by
  unfold handlePublish
  simp only [freshPub]
  repeat' split
  all_goals qinv_close h

theorem qinv_handleSubscribe {r : Realm} (h : QueueInv r) (s : Session) (req : Nat) (opts : Dict) (topic : String) :
    QueueInv (handleSubscribe r s req opts topic) := by
  unfold handleSubscribe
  dsimp only
  repeat' split
  all_goals qinv_close h

theorem qinv_handleUnsubscribe {r : Realm} (h : QueueInv r) (s : Session) (req sub : Nat) :
    QueueInv (handleUnsubscribe r s req sub) := by
  unfold handleUnsubscribe
  dsimp only
  repeat' split
  all_goals qinv_close h

theorem qinv_handleRegister {r : Realm} (h : QueueInv r) (s : Session) (req : Nat) (opts : Dict) (proc : String) :
    QueueInv (handleRegister r s req opts proc) := by
  unfold handleRegister
  dsimp only
  repeat' split
  all_goals qinv_close h

theorem qinv_handleCancel {r : Realm} (h : QueueInv r) (s : Session) (req : Nat) (opts : Dict) :
    QueueInv (handleCancel r s req opts) := by
  unfold handleCancel
  dsimp only
  repeat' split
  all_goals qinv_close h

theorem qinv_handleYield {r : Realm} (h : QueueInv r) (s : Session) (req : Nat) (opts : Dict) (args : List WVal)
    (kw : Dict) : QueueInv (handleYield r s req opts args kw) := by
  unfold handleYield
  dsimp only
  split
  · exact qinv_applyD h _
  · exact qinv_applyD h _

theorem qinv_authzGate {r : Realm} (h : QueueInv r) (s : Session) (m : Msg) : QueueInv (authzGate r s m).2 := by
  unfold authzGate
  dsimp only
  repeat' split
  all_goals qinv_close h


theorem qinv_handleMsg {r : Realm} (h : QueueInv r) (s : Session) (m : Msg) : QueueInv (handleMsg r s m) := by
  unfold handleMsg
  have hg := qinv_authzGate h s m
  revert hg
  generalize authzGate r s m = g
  obtain ⟨ok, r'⟩ := g
  intro hg
  simp only [] at hg ⊢
  split
  · exact hg
  · split
    · exact qinv_handlePublish hg ..
    · exact qinv_handleYield hg ..
    · exact qinv_applyD hg _
    · exact qinv_handleCancel hg ..
    · exact qinv_handleSubscribe hg ..
    · exact qinv_handleRegister hg ..
    · exact qinv_handleUnsubscribe hg ..
    · exact qinv_applyD hg _
    · split
      · exact hg
      · exact qinv_applyD hg _
    · show QueueInv (r'.trySend _)
      exact qinv_trySend hg _
    · exact hg

/-! ### session end -/

theorem qinv_takeTestaments {r : Realm} (h : QueueInv r) (k : SessKey) : QueueInv (r.takeTestaments k).2 := by
  unfold takeTestaments
  split <;> exact h

theorem qinv_leaveSend {r : Realm} (h : QueueInv r) (k : SessKey) (mode : LeaveMode) :
    QueueInv (leaveSend r k mode) := by
  cases mode <;> first | exact qinv_trySend h _ | exact h

theorem qinv_leaveRemove {r : Realm} (h : QueueInv r) (k : SessKey) (quiet : Bool) :
    QueueInv (leaveRemove r k quiet) := by
  unfold leaveRemove
  split
  · extract_lets o
    split
    apply qinv_setPanic
    exact h
  · extract_lets o ra
    split
    apply qinv_deliver
    exact qinv_applyD h o

theorem qinv_leaveAnnounce {r : Realm} (h : QueueInv r) (s : Session) (tst : Option TBucket) (silent : Bool) :
    QueueInv (leaveAnnounce r s tst silent) := by
  unfold leaveAnnounce
  split <;> exact h

/-- closing the session: its queue stays (the client may still read it) and is now justified by
    `closedPeers`; the other clients keep their bounds -/
theorem qinv_leaveClose {r : Realm} (h : QueueInv r) (s : Session) : QueueInv (leaveClose r s) := by
  obtain ⟨h1, h2, h3, h4⟩ := h
  unfold leaveClose
  refine ⟨?_, ?_, ?_, ?_⟩
  · intro q hq
    rcases h1 q hq with ⟨c, hc, e⟩ | hcl
    · by_cases hk : c.key = s.key
      · exact Or.inr (List.mem_append_right _ (List.mem_singleton.mpr (e.symm.trans hk)))
      · exact Or.inl ⟨c, List.mem_filter.mpr ⟨hc, by simpa using hk⟩, e⟩
    · exact Or.inr (List.mem_append_left _ hcl)
  · intro c hc
    exact h2 c (List.mem_filter.mp hc).1
  · exact (List.filter_sublist.map _).nodup h3
  · intro k hk
    dsimp only at hk
    split at hk
    · rcases List.mem_append.mp hk with hk | hk
      · exact List.mem_append_left _ (h4 k hk)
      · exact List.mem_append_right _ hk
    · exact List.mem_append_left _ (h4 k hk)

theorem qinv_leave {r : Realm} (h : QueueInv r) (k : SessKey) (mode : LeaveMode) : QueueInv (r.leave k mode) := by
  cases hf : r.clients.find? (fun c => c.key == k) with
  | none => rw [leave_none mode hf]; exact h
  | some s =>
    rw [leave_some mode hf]
    exact qinv_leaveClose (qinv_leaveAnnounce (qinv_leaveRemove (qinv_takeTestaments (qinv_leaveSend h k mode) k) k _) s _ _) s

/-! ### internal tasks -/

theorem qinv_metaEffect {r r' : Realm} (h : QueueInv r) (e : MetaEffect r r') : QueueInv r' := by
  cases e with
  | same => exact h
  | kill sel g ka => exact h
  | testaments t _ => exact h
  | modify k d =>
    exact qinv_map_clients (fun c => if c.key == k then { c with details := d } else c)
      (fun c => by split <;> rfl) (fun c => by split <;> rfl) rfl rfl rfl (fun _ hk => hk) h

theorem qinv_recvMsg {r : Realm} (h : QueueInv r) (k : SessKey) (m : Msg) : QueueInv (r.recvMsg k m) := by
  rw [recvMsg_eq]
  split
  · exact h
  · split
    · exact h
    · split
      · split <;> exact h
      · exact qinv_handleMsg h _ _

theorem qinv_runTask {r : Realm} (h : QueueInv r) (t : Task) : QueueInv (r.runTask t) := by
  cases t with
  | inMsg k m => exact qinv_recvMsg h k m
  | metaPub p => exact qinv_handlePublish h ..
  | metaInvoke req reg details args kw =>
    rw [runTask_metaInvoke]
    split
    · exact h
    · exact qinv_addTasks (qinv_metaEffect h (metaProc_effect r _ req details args kw)) _
  | metaMsg m => exact qinv_handleMsg h _ _
  | leave k mode =>
    rw [runTask_leave]
    split
    · exact h
    · exact qinv_leave h k mode

theorem qinv_drain : ∀ (fuel : Nat) {r : Realm}, QueueInv r → QueueInv (drain fuel r)
  | 0, r, h => by
    rw [drain_zero]
    split
    · exact h
    · exact qinv_setPanic h _
  | fuel + 1, r, h => by
    cases ht : r.tasks with
    | nil => rw [drain_succ_nil _ _ ht]; exact h
    | cons t ts =>
      rw [drain_succ_cons _ _ t ts ht]
      exact qinv_drain fuel (qinv_runTask (r := { r with tasks := ts }) h t)

/-- an external input; a joining key that names no attached client must name no leftover queue
    either (`join` under the key of an attached client, or under the meta session's, is a no-op) -/
theorem qinv_stepOp' {r : Realm} (h : QueueInv r) (op : Op)
    (hj : ∀ k l d ro c, op = .join k l d ro c → JoinClean r k) : QueueInv (r.stepOp op) := by
  cases op with
  | join k isLocal details roles cap =>
    rw [stepOp_join]
    split
    · exact h
    rename_i hg
    have hfc := (join_guard_false hg).2
    have hfq := hj k isLocal details roles cap rfl hfc
    apply qinv_addTasks
    obtain ⟨h1, h2, h3, h4⟩ := h
    refine ⟨?_, ?_, ?_, h4⟩
    · intro q hq
      rcases List.mem_append.mp hq with hq | hq
      · rcases h1 q hq with ⟨c, hc, e⟩ | hcl
        · exact Or.inl ⟨c, List.mem_append_left _ hc, e⟩
        · exact Or.inr hcl
      · rw [List.mem_singleton.mp hq]
        exact Or.inl ⟨_, List.mem_append_right _ (List.mem_singleton.mpr rfl), rfl⟩
    · intro c hc
      rw [queueLen_eq]
      show (qlook (r.queues ++ [(k, [])]) c.key).length ≤ c.cap
      have hql : ∀ k', qlook (r.queues ++ [(k, ([] : List Msg))]) k' = qlook r.queues k' := by
        intro k'
        induction r.queues with
        | nil =>
          simp only [List.nil_append, qlook_cons, qlook_nil]
          split <;> rfl
        | cons q qs ih => simp only [List.cons_append, qlook_cons, ih]
      rw [hql]
      rcases List.mem_append.mp hc with hc | hc
      · have := h2 c hc
        rw [queueLen_eq, queueOf_eq] at this
        exact this
      · rw [List.mem_singleton.mp hc]
        rw [qlook_of_not_mem hfq]
        exact Nat.zero_le _
    · rw [List.map_append, List.nodup_append]
      refine ⟨h3, by simp, ?_⟩
      intro a ha b hb
      simp at hb; subst hb
      obtain ⟨c, hc, rfl⟩ := List.mem_map.mp ha
      exact hfc c hc
  | msg k m => exact qinv_recvMsg h k m
  | buffer k =>
    rw [stepOp_buffer]
    exact qinv_map_clients (fun c => if c.key == k then { c with buffered := true } else c)
      (fun c => by split <;> rfl) (fun c => by split <;> rfl) rfl rfl rfl (fun _ hk => hk) h
  | drop k =>
    rw [stepOp_drop]
    split
    · exact h
    split <;> exact h
  | stall k =>
    rw [stepOp_stall]
    exact qinv_map_clients (fun c => if c.key == k then { c with stalled := true } else c)
      (fun c => by split <;> rfl) (fun c => by split <;> rfl) rfl rfl rfl (fun _ hk => hk) h
  | resume k =>
    rw [stepOp_resume]
    exact qinv_map_clients (fun c => if c.key == k then { c with stalled := false } else c)
      (fun c => by split <;> rfl) (fun c => by split <;> rfl) rfl rfl rfl
      (fun _ hk => (List.mem_filter.mp hk).1) h
  | tick ms => exact h
  | rnd n => exact h

/-- an external input; a joining key must be fresh -/
theorem qinv_stepOp {r : Realm} (h : QueueInv r) (op : Op)
    (hj : ∀ k l d ro c, op = .join k l d ro c → JoinFresh r k) : QueueInv (r.stepOp op) :=
  qinv_stepOp' h op (fun k l d ro c e => (hj k l d ro c e).clean)

/-! ### timed events -/

theorem qinv_retryDue {r : Realm} (h : QueueInv r) (x : Retry) : QueueInv (r.retryDue x) := by
  unfold Realm.retryDue
  extract_lets r1 canRetry o r2
  have h1 : QueueInv r1 := h
  have h2 : QueueInv r2 := qinv_applyD h1 o
  split <;> exact h2

theorem qinv_timerDue {r : Realm} (h : QueueInv r) (t : Timer) : QueueInv (r.timerDue t) := by
  unfold Realm.timerDue
  extract_lets ds1 r1
  have h1 : QueueInv r1 := h
  exact qinv_applyD h1 _

theorem qinv_advance : ∀ (fuel : Nat) {r : Realm} (target : Nat), QueueInv r → QueueInv (advance fuel r target)
  | 0, r, target, h => by
    unfold Realm.advance
    exact qinv_setPanic (r := { r with now := target }) h _
  | fuel + 1, r, target, h => by
    unfold Realm.advance
    split
    · exact h
    · rename_i d _
      extract_lets r1 r2
      refine qinv_advance fuel target (qinv_drain _ ?_)
      have h1 : QueueInv r1 := h
      cases d with
      | timer t => exact qinv_timerDue h1 t
      | retry x => exact qinv_retryDue h1 x


/-! ### what the clients read -/

theorem qlook_append (a b : List (SessKey × List Msg)) (k : SessKey) :
    qlook (a ++ b) k = if a.any (fun q => q.1 == k) then qlook a k else qlook b k := by
  induction a with
  | nil => simp
  | cons q a ih =>
    simp only [List.cons_append, qlook_cons, List.any_cons]
    by_cases h : q.1 = k
    · simp [h]
    · have hb : (q.1 == k) = false := by simpa using h
      rw [if_neg h, if_neg h, hb, Bool.false_or, ih]

theorem qlook_filter_key (P : SessKey → Bool) (qs : List (SessKey × List Msg)) (k : SessKey) :
    qlook (qs.filter (fun q => P q.1)) k = if P k then qlook qs k else [] := by
  induction qs with
  | nil => simp [qlook_nil]
  | cons q qs ih =>
    rw [List.filter_cons]
    by_cases hq : q.1 = k
    · subst hq
      by_cases hp : P q.1 = true
      · rw [if_pos hp, if_pos hp, qlook_cons, qlook_cons, if_pos rfl, if_pos rfl]
      · rw [if_neg hp, if_neg hp, ih, if_neg hp]
    · by_cases hp : P q.1 = true
      · rw [if_pos hp, qlook_cons, qlook_cons, if_neg hq, if_neg hq, ih]
      · rw [if_neg hp, qlook_cons, if_neg hq, ih]

theorem qlook_all_empty {qs : List (SessKey × List Msg)} (h : ∀ q ∈ qs, q.2 = []) (k : SessKey) : qlook qs k = [] := by
  induction qs with
  | nil => rfl
  | cons q qs ih =>
    rw [qlook_cons]
    split
    · exact h q (List.mem_cons_self ..)
    · exact ih (fun q' hq' => h q' (List.mem_cons_of_mem _ hq'))

theorem qinv_flush {r : Realm} (h : QueueInv r) : QueueInv r.flush.2 := by
  obtain ⟨h1, h2, h3, h4⟩ := h
  unfold Realm.flush
  extract_lets reading out seenClosed keep keepEmpty
  have hghost : ∀ k ∈ r.ghosts, reading k = false := by
    intro k hk
    have : r.ghosts.contains k = true := by simpa using hk
    simp only [reading, this, if_true]
  refine ⟨?_, ?_, h3, ?_⟩
  · intro q hq
    rcases List.mem_append.mp hq with hq | hq
    · obtain ⟨hq0, hnr⟩ := List.mem_filter.mp hq
      rcases h1 q hq0 with hc | hcl
      · exact Or.inl hc
      · exact Or.inr (List.mem_filter.mpr ⟨hcl, hnr⟩)
    · obtain ⟨q0, hq0, rfl⟩ := List.mem_map.mp hq
      obtain ⟨hq0m, hcond⟩ := List.mem_filter.mp hq0
      simp only [Bool.and_eq_true, Bool.not_eq_true'] at hcond
      rcases h1 q0 hq0m with hc | hcl
      · exact Or.inl hc
      · have : r.closedPeers.contains q0.1 = true := by simpa using hcl
        rw [this] at hcond
        exact absurd hcond.2 (by simp)
  · intro c hc
    have hb := h2 c hc
    rw [queueLen_eq, queueOf_eq] at hb
    rw [queueLen_eq]
    show (qlook (keep ++ keepEmpty) c.key).length ≤ c.cap
    have hkeep : qlook keep c.key = if !reading c.key then qlook r.queues c.key else [] :=
      qlook_filter_key (fun k => !reading k) r.queues c.key
    have hke : qlook keepEmpty c.key = [] :=
      qlook_all_empty (by
        intro q hq
        obtain ⟨q0, _, rfl⟩ := List.mem_map.mp hq
        rfl) c.key
    rw [qlook_append, hkeep, hke]
    split
    · split
      · exact hb
      · exact Nat.zero_le _
    · exact Nat.zero_le _
  · intro k hk
    exact List.mem_filter.mpr ⟨h4 k hk, by simp [hghost k hk]⟩

/-- One external input, run to quiescence and flushed (a joining key must be fresh). -/
theorem qinv_step {r : Realm} (h : QueueInv r) (op : Op)
    (hj : ∀ k l d ro c, op = .join k l d ro c → JoinFresh r k) : QueueInv (r.step op).2 := by
  by_cases ht : ∃ ms, op = .tick ms
  · obtain ⟨ms, rfl⟩ := ht
    rw [step_tick]
    exact qinv_flush (qinv_advance _ _ h)
  · rw [step_of_not_tick r op (fun ms e => ht ⟨ms, e⟩)]
    exact qinv_flush (qinv_drain _ (qinv_stepOp h op hj))

theorem qinv_step' {r : Realm} (h : QueueInv r) (op : Op)
    (hj : ∀ k l d ro c, op = .join k l d ro c → JoinClean r k) : QueueInv (r.step op).2 := by
  by_cases ht : ∃ ms, op = .tick ms
  · obtain ⟨ms, rfl⟩ := ht
    rw [step_tick]
    exact qinv_flush (qinv_advance _ _ h)
  · rw [step_of_not_tick r op (fun ms e => ht ⟨ms, e⟩)]
    exact qinv_flush (qinv_drain _ (qinv_stepOp' h op hj))

/-- with the queue invariant, a key that is not the key of a closed peer (a departed session whose
    closure has not been observed) is clean -/
theorem QueueInv.joinClean {r : Realm} (h : QueueInv r) {k : SessKey} (hk : k ∉ r.closedPeers) : JoinClean r k := by
  intro hc q hq e
  rcases h.1 q hq with ⟨c, hcm, ec⟩ | hcl
  · exact hc c hcm (ec.trans e)
  · exact hk (e ▸ hcl)

theorem bregisterMeta_fields : ∀ (ps : List String) (r : Realm),
    (registerMeta r ps).clients = r.clients ∧ (registerMeta r ps).queues = r.queues ∧
    (registerMeta r ps).closedPeers = r.closedPeers ∧ (registerMeta r ps).ghosts = r.ghosts
  | [], _ => ⟨rfl, rfl, rfl, rfl⟩
  | p :: ps, r => by
    unfold registerMeta
    extract_lets o id
    exact bregisterMeta_fields ps _

theorem qinv_create {cfg : Config} {r : Realm} (h : Realm.create cfg = some r) : QueueInv r := by
  unfold Realm.create at h
  split at h
  · cases h
  · split at h
    · cases h
    · extract_lets b d at h
      cases h
      obtain ⟨f2, f7, f10, f11⟩ :=
        bregisterMeta_fields (metaProcNames cfg) { cfg := cfg, broker := b, ds := { d := d } }
      unfold QueueInv queueLen
      rw [f2, f7, f10, f11]
      refine ⟨?_, ?_, ?_, ?_⟩
      · intro q hq; cases hq
      · intro c hc; cases hc
      · exact List.nodup_nil
      · intro k hk; cases hk

/-! ### reachable states -/

/-- realm states reachable from `Realm.create cfg` by external inputs, each run to quiescence, where
    every joining key is fresh (names no attached client and no leftover queue) -/
inductive QReachable (cfg : Config) : Realm → Prop
  | init {r : Realm} : Realm.create cfg = some r → QReachable cfg r
  | step {r : Realm} (op : Op) : QReachable cfg r →
      (∀ k l d ro c, op = .join k l d ro c → JoinFresh r k) → QReachable cfg (r.step op).2

theorem QReachable.qinv {cfg : Config} {r : Realm} (h : QReachable cfg r) : QueueInv r := by
  induction h with
  | init h => exact qinv_create h
  | step op _ hj ih => exact qinv_step ih op hj

/-- realm states reachable by inputs in which no session joins under the key of a leftover queue
    (`JoinClean`): weaker than `QReachable` — nothing is asked of a `join` under the key of an attached
    client, which is a no-op of the model -/
inductive CReachable (cfg : Config) : Realm → Prop
  | init {r : Realm} : Realm.create cfg = some r → CReachable cfg r
  | step {r : Realm} (op : Op) : CReachable cfg r →
      (∀ k l d ro c, op = .join k l d ro c → JoinClean r k) → CReachable cfg (r.step op).2

theorem CReachable.qinv {cfg : Config} {r : Realm} (h : CReachable cfg r) : QueueInv r := by
  induction h with
  | init h => exact qinv_create h
  | step op _ hj ih => exact qinv_step' ih op hj

theorem QReachable.creachable {cfg : Config} {r : Realm} (h : QReachable cfg r) : CReachable cfg r := by
  induction h with
  | init h => exact .init h
  | step op _ hj ih => exact .step op ih (fun k l d ro c e => (hj k l d ro c e).clean)

/-- it is enough that no session joins under the key of a closed peer whose closure is still unobserved -/
theorem CReachable.step_not_closed {cfg : Config} {r : Realm} (h : CReachable cfg r) (op : Op)
    (hj : ∀ k l d ro c, op = .join k l d ro c → k ∉ r.closedPeers) : CReachable cfg (r.step op).2 :=
  .step op h (fun k l d ro c e => h.qinv.joinClean (hj k l d ro c e))

end Realm
end Nexus.L2
