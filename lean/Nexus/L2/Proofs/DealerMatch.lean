/-
  The dealer's procedure lookup (`Dealer.matchProcedure`, Go `syncMatchProcedure`)
  and callee choice (`pickCallee`), specified and proved.

  Part A: `matchProcedure` satisfies the order-independent specification
  `BestMatch` (exact beats prefix beats wildcard; longest pattern wins inside a
  class), and under key uniqueness the exact / prefix winner does not depend on
  the table order.

  Part B: `pickCallee` per invocation policy, the round-robin rotation, and the
  exact condition under which the Go code panics.
-/
import Nexus.L2.Dealer

namespace Nexus.L2
open Gen.N

/-! ## bytes of a `String` -/

private theorem toList_loop_eq (bs : ByteArray) (i : Nat) (r : List UInt8) :
    ByteArray.toList.loop bs i r = r.reverse ++ bs.data.toList.drop i := by
  fun_induction ByteArray.toList.loop bs i r with
  | case1 i r h ih =>
    rw [ih]
    have h' : i < bs.data.toList.length := h
    rw [List.drop_eq_getElem_cons h']
    have hg : bs.get! i = bs.data.toList[i] := by
      cases bs with
      | mk d =>
        show d[i]! = _
        have : i < d.size := h
        simp [this]
    rw [hg, List.reverse_cons, List.append_assoc]
    rfl
  | case2 i r h =>
    have h' : bs.data.toList.length ≤ i := Nat.le_of_not_lt h
    rw [List.drop_eq_nil_of_le h', List.append_nil]

/-- `ByteArray.toList` is the list of the underlying array. -/
theorem byteArray_toList_eq (bs : ByteArray) : bs.toList = bs.data.toList := by
  unfold ByteArray.toList
  rw [toList_loop_eq]; rfl

/-- A `String` is determined by its UTF-8 bytes. -/
theorem string_eq_of_utf8_eq {s t : String} (h : s.toUTF8.toList = t.toUTF8.toList) : s = t := by
  rw [byteArray_toList_eq, byteArray_toList_eq] at h
  exact String.toByteArray_inj.mp (ByteArray.ext (Array.toList_inj.mp h))

theorem utf8ByteSize_eq_length (s : String) : s.utf8ByteSize = s.toUTF8.toList.length := by
  rw [byteArray_toList_eq]; rfl

/-- two prefixes of the same list that have the same length are equal -/
theorem isPrefixOf_eq_of_length : ∀ {a b c : List UInt8},
    isPrefixOf a c = true → isPrefixOf b c = true → a.length = b.length → a = b
  | [], [], _, _, _, _ => rfl
  | [], _ :: _, _, _, _, h => by simp at h
  | _ :: _, [], _, _, _, h => by simp at h
  | _ :: _, _ :: _, [], h, _, _ => by simp [isPrefixOf] at h
  | x :: a, y :: b, z :: c, ha, hb, hl => by
    simp only [isPrefixOf, Bool.and_eq_true, decide_eq_true_eq] at ha hb
    have := isPrefixOf_eq_of_length ha.2 hb.2 (by simpa using hl)
    rw [ha.1, hb.1, this]

/-- two patterns of the same byte length that are both prefixes of `proc` are the same string -/
theorem prefixMatch_eq_of_size {proc p q : String}
    (hp : prefixMatch proc p = true) (hq : prefixMatch proc q = true)
    (hs : p.utf8ByteSize = q.utf8ByteSize) : p = q := by
  rw [utf8ByteSize_eq_length, utf8ByteSize_eq_length] at hs
  exact string_eq_of_utf8_eq (isPrefixOf_eq_of_length hp hq hs)

/-! ## PART A — best match -/

def Reg.plen (r : Reg) : Nat := r.proc.utf8ByteSize
def Reg.isExactFor (r : Reg) (proc : String) : Prop := r.kind = .exact ∧ r.proc = proc
def Reg.isPfxFor (r : Reg) (proc : String) : Prop := r.kind = .pfx ∧ prefixMatch proc r.proc = true
def Reg.isWildFor (r : Reg) (proc : String) : Prop := r.kind = .wild ∧ wildcardMatch proc r.proc = true

/-- the specification `bestMatch` as a relation between a table (as a membership predicate, so
independent of table order) and the result -/
def BestMatch (regs : List Reg) (proc : String) (res : Option Reg) : Prop :=
  (∀ r, res = some r → r ∈ regs) ∧
  ((∃ e ∈ regs, e.isExactFor proc) → ∃ r, res = some r ∧ r.isExactFor proc) ∧
  ((¬ ∃ e ∈ regs, e.isExactFor proc) → (∃ p ∈ regs, p.isPfxFor proc) →
      ∃ r, res = some r ∧ r.isPfxFor proc ∧ ∀ p ∈ regs, p.isPfxFor proc → p.plen ≤ r.plen) ∧
  ((¬ ∃ e ∈ regs, e.isExactFor proc) → (¬ ∃ p ∈ regs, p.isPfxFor proc) → (∃ w ∈ regs, w.isWildFor proc) →
      ∃ r, res = some r ∧ r.isWildFor proc ∧ ∀ w ∈ regs, w.isWildFor proc → w.plen ≤ r.plen) ∧
  ((¬ ∃ e ∈ regs, e.isExactFor proc) → (¬ ∃ p ∈ regs, p.isPfxFor proc) → (¬ ∃ w ∈ regs, w.isWildFor proc) → res = none)

/-! ### `bestBy` -/

theorem bestBy_eq_none (len : Reg → Nat) : ∀ {l : List Reg}, bestBy len l = none ↔ l = []
  | [] => by simp [bestBy]
  | r :: rs => by
    simp only [bestBy, reduceCtorEq, iff_false]
    cases bestBy len rs with
    | none => simp
    | some b => dsimp only; split <;> simp

/-- the result of `bestBy` is an element of the list of greatest `len` -/
theorem bestBy_spec {len : Reg → Nat} : ∀ {l : List Reg} {r : Reg},
    bestBy len l = some r → r ∈ l ∧ ∀ x ∈ l, len x ≤ len r
  | [], r, h => by simp [bestBy] at h
  | a :: rs, r, h => by
    simp only [bestBy] at h
    cases hb : bestBy len rs with
    | none =>
      rw [hb] at h
      have hnil : rs = [] := (bestBy_eq_none len).1 hb
      subst hnil
      cases h
      exact ⟨List.mem_singleton.2 rfl, fun x hx => by rw [List.mem_singleton.1 hx]; exact Nat.le_refl _⟩
    | some b =>
      rw [hb] at h
      obtain ⟨hbm, hbmax⟩ := bestBy_spec hb
      dsimp only at h
      by_cases hgt : len b > len a
      · rw [if_pos hgt] at h
        cases h
        refine ⟨List.mem_cons_of_mem _ hbm, fun x hx => ?_⟩
        rcases List.mem_cons.1 hx with rfl | hx
        · exact Nat.le_of_lt hgt
        · exact hbmax x hx
      · rw [if_neg hgt] at h
        cases h
        refine ⟨List.mem_cons_self, fun x hx => ?_⟩
        rcases List.mem_cons.1 hx with rfl | hx
        · exact Nat.le_refl _
        · exact Nat.le_trans (hbmax x hx) (Nat.le_of_not_lt hgt)

/-! ### the three candidate classes -/

theorem Reg.isExactFor_iff (r : Reg) (proc : String) :
    r.isExactFor proc ↔ (r.kind == MatchKind.exact && r.proc == proc) = true := by
  simp [Reg.isExactFor]

theorem Reg.isPfxFor_iff (r : Reg) (proc : String) :
    r.isPfxFor proc ↔ (r.kind == MatchKind.pfx && prefixMatch proc r.proc) = true := by
  simp [Reg.isPfxFor]

theorem Reg.isWildFor_iff (r : Reg) (proc : String) :
    r.isWildFor proc ↔ (r.kind == MatchKind.wild && wildcardMatch proc r.proc) = true := by
  simp [Reg.isWildFor]

/-- the prefix registrations whose pattern is a prefix of `proc`, in table order -/
def Dealer.pfxCands (d : Dealer) (proc : String) : List Reg :=
  d.regs.filter (fun r => r.kind == .pfx && prefixMatch proc r.proc)

/-- the wildcard registrations whose pattern matches `proc`, in table order -/
def Dealer.wildCands (d : Dealer) (proc : String) : List Reg :=
  d.regs.filter (fun r => r.kind == .wild && wildcardMatch proc r.proc)

theorem Dealer.mem_pfxCands {d : Dealer} {proc : String} {r : Reg} :
    r ∈ d.pfxCands proc ↔ r ∈ d.regs ∧ r.isPfxFor proc := by
  rw [Dealer.pfxCands, List.mem_filter, Reg.isPfxFor_iff]

theorem Dealer.mem_wildCands {d : Dealer} {proc : String} {r : Reg} :
    r ∈ d.wildCands proc ↔ r ∈ d.regs ∧ r.isWildFor proc := by
  rw [Dealer.wildCands, List.mem_filter, Reg.isWildFor_iff]

theorem Dealer.matchProcedure_eq (d : Dealer) (proc : String) :
    d.matchProcedure proc =
      match d.findProc proc .exact with
      | some r => some r
      | none =>
        match bestBy Reg.plen (d.pfxCands proc) with
        | some r => some r
        | none => bestBy Reg.plen (d.wildCands proc) := rfl

theorem Dealer.findProc_some {d : Dealer} {proc : String} {r : Reg}
    (h : d.findProc proc .exact = some r) : r ∈ d.regs ∧ r.isExactFor proc := by
  unfold Dealer.findProc at h
  have hp := List.find?_some h
  exact ⟨List.mem_of_find?_eq_some h, (r.isExactFor_iff proc).2 hp⟩

theorem Dealer.findProc_none {d : Dealer} {proc : String}
    (h : d.findProc proc .exact = none) : ¬ ∃ e ∈ d.regs, e.isExactFor proc := by
  rintro ⟨e, he, hx⟩
  exact List.find?_eq_none.1 h e he ((e.isExactFor_iff proc).1 hx)

/-! ### the four ways to satisfy the specification -/

theorem BestMatch.of_exact {regs : List Reg} {proc : String} {r : Reg}
    (hmem : r ∈ regs) (hx : r.isExactFor proc) : BestMatch regs proc (some r) := by
  refine ⟨?_, ?_, ?_, ?_, ?_⟩
  · intro x hxr; cases hxr; exact hmem
  · intro _; exact ⟨r, rfl, hx⟩
  · intro hne; exact absurd ⟨r, hmem, hx⟩ hne
  · intro hne; exact absurd ⟨r, hmem, hx⟩ hne
  · intro hne; exact absurd ⟨r, hmem, hx⟩ hne

theorem BestMatch.of_pfx {regs : List Reg} {proc : String} {r : Reg}
    (hnoE : ¬ ∃ e ∈ regs, e.isExactFor proc) (hmem : r ∈ regs) (hx : r.isPfxFor proc)
    (hmax : ∀ p ∈ regs, p.isPfxFor proc → p.plen ≤ r.plen) : BestMatch regs proc (some r) := by
  refine ⟨?_, ?_, ?_, ?_, ?_⟩
  · intro x hxr; cases hxr; exact hmem
  · intro he; exact absurd he hnoE
  · intro _ _; exact ⟨r, rfl, hx, hmax⟩
  · intro _ hne; exact absurd ⟨r, hmem, hx⟩ hne
  · intro _ hne; exact absurd ⟨r, hmem, hx⟩ hne

theorem BestMatch.of_wild {regs : List Reg} {proc : String} {r : Reg}
    (hnoE : ¬ ∃ e ∈ regs, e.isExactFor proc) (hnoP : ¬ ∃ p ∈ regs, p.isPfxFor proc)
    (hmem : r ∈ regs) (hx : r.isWildFor proc)
    (hmax : ∀ w ∈ regs, w.isWildFor proc → w.plen ≤ r.plen) : BestMatch regs proc (some r) := by
  refine ⟨?_, ?_, ?_, ?_, ?_⟩
  · intro x hxr; cases hxr; exact hmem
  · intro he; exact absurd he hnoE
  · intro _ hp; exact absurd hp hnoP
  · intro _ _ _; exact ⟨r, rfl, hx, hmax⟩
  · intro _ _ hne; exact absurd ⟨r, hmem, hx⟩ hne

theorem BestMatch.of_none {regs : List Reg} {proc : String}
    (hnoE : ¬ ∃ e ∈ regs, e.isExactFor proc) (hnoP : ¬ ∃ p ∈ regs, p.isPfxFor proc)
    (hnoW : ¬ ∃ w ∈ regs, w.isWildFor proc) : BestMatch regs proc none := by
  refine ⟨?_, ?_, ?_, ?_, ?_⟩
  · intro x hxr; cases hxr
  · intro he; exact absurd he hnoE
  · intro _ hp; exact absurd hp hnoP
  · intro _ _ hw; exact absurd hw hnoW
  · intro _ _ _; rfl

/-- `syncMatchProcedure` implements the specification, for every dealer state. -/
theorem matchProcedure_bestMatch (d : Dealer) (proc : String) :
    BestMatch d.regs proc (d.matchProcedure proc) := by
  rw [Dealer.matchProcedure_eq]
  cases hE : d.findProc proc .exact with
  | some r =>
    obtain ⟨hmem, hx⟩ := Dealer.findProc_some hE
    exact BestMatch.of_exact hmem hx
  | none =>
    have hnoE := Dealer.findProc_none hE
    dsimp only
    cases hP : bestBy Reg.plen (d.pfxCands proc) with
    | some r =>
      obtain ⟨hm, hmax⟩ := bestBy_spec hP
      obtain ⟨hmem, hx⟩ := Dealer.mem_pfxCands.1 hm
      exact BestMatch.of_pfx hnoE hmem hx
        (fun p hp hpx => hmax p (Dealer.mem_pfxCands.2 ⟨hp, hpx⟩))
    | none =>
      have hnil := (bestBy_eq_none Reg.plen).1 hP
      have hnoP : ¬ ∃ p ∈ d.regs, p.isPfxFor proc := by
        rintro ⟨p, hp, hpx⟩
        have : p ∈ d.pfxCands proc := Dealer.mem_pfxCands.2 ⟨hp, hpx⟩
        rw [hnil] at this
        cases this
      dsimp only
      cases hW : bestBy Reg.plen (d.wildCands proc) with
      | some r =>
        obtain ⟨hm, hmax⟩ := bestBy_spec hW
        obtain ⟨hmem, hx⟩ := Dealer.mem_wildCands.1 hm
        exact BestMatch.of_wild hnoE hnoP hmem hx
          (fun w hw hwx => hmax w (Dealer.mem_wildCands.2 ⟨hw, hwx⟩))
      | none =>
        have hnilW := (bestBy_eq_none Reg.plen).1 hW
        have hnoW : ¬ ∃ w ∈ d.regs, w.isWildFor proc := by
          rintro ⟨w, hw, hwx⟩
          have : w ∈ d.wildCands proc := Dealer.mem_wildCands.2 ⟨hw, hwx⟩
          rw [hnilW] at this
          cases this
        exact BestMatch.of_none hnoE hnoP hnoW

/-- the specification only looks at the table through membership -/
theorem BestMatch.of_mem_iff {l l' : List Reg} (h : ∀ r, r ∈ l ↔ r ∈ l') {proc : String}
    {res : Option Reg} : BestMatch l proc res → BestMatch l' proc res := by
  unfold BestMatch
  simp only [h]
  exact id

/-- order independence of the specification -/
theorem BestMatch.of_perm {l l' : List Reg} (h : l.Perm l') {proc : String} {res : Option Reg} :
    BestMatch l proc res → BestMatch l' proc res :=
  BestMatch.of_mem_iff (fun _ => h.mem_iff)

/-- at most one registration per (procedure, kind) -/
def KeyUnique (regs : List Reg) : Prop :=
  regs.Pairwise (fun a b => ¬ (a.kind = b.kind ∧ a.proc = b.proc))

theorem KeyUnique.eq_of : ∀ {regs : List Reg}, KeyUnique regs → ∀ {a b : Reg},
    a ∈ regs → b ∈ regs → a.kind = b.kind → a.proc = b.proc → a = b
  | [], _, _, _, ha, _, _, _ => by cases ha
  | x :: rs, hu, a, b, ha, hb, hk, hp => by
    obtain ⟨hx, hrs⟩ := List.pairwise_cons.1 hu
    rcases List.mem_cons.1 ha with rfl | ha'
    · rcases List.mem_cons.1 hb with rfl | hb'
      · rfl
      · exact absurd ⟨hk, hp⟩ (hx b hb')
    · rcases List.mem_cons.1 hb with rfl | hb'
      · exact absurd ⟨hk.symm, hp.symm⟩ (hx a ha')
      · exact KeyUnique.eq_of (regs := rs) hrs ha' hb' hk hp

theorem KeyUnique.perm {l l' : List Reg} (h : l.Perm l') : KeyUnique l → KeyUnique l' := by
  unfold KeyUnique
  exact (h.pairwise_iff (R := fun (a b : Reg) => ¬ (a.kind = b.kind ∧ a.proc = b.proc))
    (fun hxy hyx => hxy ⟨hyx.1.symm, hyx.2.symm⟩)).1

/-- Under key uniqueness the exact and the prefix winner are unique: two results satisfying the
spec are equal whenever an exact or a prefix registration matches. -/
theorem BestMatch.unique_exact_or_pfx {regs : List Reg} {proc : String} {r1 r2 : Reg}
    (hu : KeyUnique regs)
    (h1 : BestMatch regs proc (some r1)) (h2 : BestMatch regs proc (some r2))
    (hm : (∃ e ∈ regs, e.isExactFor proc) ∨ (∃ p ∈ regs, p.isPfxFor proc)) : r1 = r2 := by
  have hm1 : r1 ∈ regs := h1.1 r1 rfl
  have hm2 : r2 ∈ regs := h2.1 r2 rfl
  by_cases hE : ∃ e ∈ regs, e.isExactFor proc
  · obtain ⟨x1, hx1, he1⟩ := h1.2.1 hE
    obtain ⟨x2, hx2, he2⟩ := h2.2.1 hE
    cases hx1; cases hx2
    exact hu.eq_of hm1 hm2 (he1.1.trans he2.1.symm) (he1.2.trans he2.2.symm)
  · have hP : ∃ p ∈ regs, p.isPfxFor proc := hm.resolve_left hE
    obtain ⟨x1, hx1, hp1, hmax1⟩ := h1.2.2.1 hE hP
    obtain ⟨x2, hx2, hp2, hmax2⟩ := h2.2.2.1 hE hP
    cases hx1; cases hx2
    have hlen : r1.proc.utf8ByteSize = r2.proc.utf8ByteSize :=
      Nat.le_antisymm (hmax2 r1 hm1 hp1) (hmax1 r2 hm2 hp2)
    exact hu.eq_of hm1 hm2 (hp1.1.trans hp2.1.symm) (prefixMatch_eq_of_size hp1.2 hp2.2 hlen)

/-- so under key uniqueness the lookup does not depend on the table order, except among equally
long wildcard patterns -/
theorem matchProcedure_perm (d d' : Dealer) (proc : String) (hp : d.regs.Perm d'.regs)
    (hu : KeyUnique d.regs)
    (hm : (∃ e ∈ d.regs, e.isExactFor proc) ∨ (∃ p ∈ d.regs, p.isPfxFor proc)) :
    d'.matchProcedure proc = d.matchProcedure proc := by
  have h1 : BestMatch d.regs proc (d.matchProcedure proc) := matchProcedure_bestMatch d proc
  have h2 : BestMatch d.regs proc (d'.matchProcedure proc) :=
    BestMatch.of_perm hp.symm (matchProcedure_bestMatch d' proc)
  have hsome : ∀ {res : Option Reg}, BestMatch d.regs proc res → ∃ r, res = some r := by
    intro res h
    by_cases hE : ∃ e ∈ d.regs, e.isExactFor proc
    · obtain ⟨r, hr, _⟩ := h.2.1 hE
      exact ⟨r, hr⟩
    · obtain ⟨r, hr, _⟩ := h.2.2.1 hE (hm.resolve_left hE)
      exact ⟨r, hr⟩
  obtain ⟨r1, hr1⟩ := hsome h1
  obtain ⟨r2, hr2⟩ := hsome h2
  rw [hr1] at h1
  rw [hr2] at h2
  rw [hr1, hr2, BestMatch.unique_exact_or_pfx hu h2 h1 hm]

/-- membership facts used elsewhere -/
theorem matchProcedure_mem {d : Dealer} {proc : String} {r : Reg}
    (h : d.matchProcedure proc = some r) : r ∈ d.regs :=
  (matchProcedure_bestMatch d proc).1 r h

theorem matchProcedure_none_iff (d : Dealer) (proc : String) :
    d.matchProcedure proc = none ↔
      ¬ ∃ r ∈ d.regs, r.isExactFor proc ∨ r.isPfxFor proc ∨ r.isWildFor proc := by
  have hb := matchProcedure_bestMatch d proc
  constructor
  · intro hnone
    rw [hnone] at hb
    rintro ⟨r, hr, hx⟩
    by_cases hE : ∃ e ∈ d.regs, e.isExactFor proc
    · obtain ⟨x, hx', _⟩ := hb.2.1 hE
      cases hx'
    · by_cases hP : ∃ p ∈ d.regs, p.isPfxFor proc
      · obtain ⟨x, hx', _⟩ := hb.2.2.1 hE hP
        cases hx'
      · have hW : ∃ w ∈ d.regs, w.isWildFor proc := by
          rcases hx with hx | hx | hx
          · exact absurd ⟨r, hr, hx⟩ hE
          · exact absurd ⟨r, hr, hx⟩ hP
          · exact ⟨r, hr, hx⟩
        obtain ⟨x, hx', _⟩ := hb.2.2.2.1 hE hP hW
        cases hx'
  · intro hno
    refine hb.2.2.2.2 ?_ ?_ ?_
    · rintro ⟨r, hr, hx⟩; exact hno ⟨r, hr, Or.inl hx⟩
    · rintro ⟨r, hr, hx⟩; exact hno ⟨r, hr, Or.inr (Or.inl hx)⟩
    · rintro ⟨r, hr, hx⟩; exact hno ⟨r, hr, Or.inr (Or.inr hx)⟩

/-! ## PART B — callee choice -/

/-- one round-robin step -/
def rrStart (reg : Reg) : Nat := if reg.next ≥ reg.callees.length then 0 else reg.next

theorem eq_singleton_of {α : Type} {l : List α} (hne : l ≠ []) (h2 : ¬ 2 ≤ l.length) :
    ∃ c, l = [c] := by
  match l, hne, h2 with
  | [], hne, _ => exact absurd rfl hne
  | [c], _, _ => exact ⟨c, rfl⟩
  | _ :: _ :: _, _, h2 => simp at h2

theorem rrStart_lt {reg : Reg} (hne : reg.callees ≠ []) : rrStart reg < reg.callees.length := by
  have hpos : 0 < reg.callees.length := List.length_pos_iff.2 hne
  unfold rrStart
  split <;> omega

theorem pickCallee_single {reg : Reg} {c : SessKey} (h : reg.callees = [c]) (rnd : Nat) :
    pickCallee reg rnd = some (c, reg) := by
  simp [pickCallee, h]

/-- `pickCallee` with at least two callees, written without the pattern match -/
theorem pickCallee_multi {reg : Reg} (h2 : 2 ≤ reg.callees.length) (rnd : Nat) :
    pickCallee reg rnd =
      if reg.policy == InvokeFirst then reg.callees.head?.map (fun x => (x, reg))
      else if reg.policy == InvokeRoundRobin then
        (reg.callees[rrStart reg]?).map (fun x => (x, { reg with next := rrStart reg + 1 }))
      else if reg.policy == InvokeRandom then
        (reg.callees[rnd % reg.callees.length]?).map (fun x => (x, reg))
      else if reg.policy == InvokeLast then reg.callees.getLast?.map (fun x => (x, reg))
      else none := by
  unfold pickCallee rrStart
  match h : reg.callees with
  | [] => simp [h] at h2
  | [c] => simp [h] at h2
  | c :: c' :: cs => simp

theorem policy_ne :
    InvokeRoundRobin ≠ InvokeFirst ∧ InvokeRandom ≠ InvokeFirst ∧ InvokeLast ≠ InvokeFirst ∧
    InvokeRandom ≠ InvokeRoundRobin ∧ InvokeLast ≠ InvokeRoundRobin ∧ InvokeLast ≠ InvokeRandom := by
  decide

theorem pickCallee_first {reg : Reg} {c : SessKey} {cs : List SessKey} (h : reg.callees = c :: cs)
    (hp : reg.policy = InvokeFirst) (rnd : Nat) : pickCallee reg rnd = some (c, reg) := by
  cases cs with
  | nil => exact pickCallee_single h rnd
  | cons c' cs =>
    rw [pickCallee_multi (by simp [h])]
    simp [hp, h]

theorem pickCallee_last {reg : Reg} (hne : reg.callees ≠ []) (hp : reg.policy = InvokeLast) (rnd : Nat) :
    pickCallee reg rnd = some (reg.callees.getLast hne, reg) := by
  have hlast := List.getLast?_eq_some_getLast hne
  by_cases h2 : 2 ≤ reg.callees.length
  · rw [pickCallee_multi h2]
    simp [hp, policy_ne, hlast]
  · obtain ⟨c, hc⟩ : ∃ c, reg.callees = [c] := eq_singleton_of hne h2
    rw [pickCallee_single hc]
    have hl : reg.callees.getLast? = some c := by rw [hc]; rfl
    rw [hlast] at hl
    injection hl with hl
    rw [hl]

theorem pickCallee_random {reg : Reg} (hne : reg.callees ≠ []) (hp : reg.policy = InvokeRandom) (rnd : Nat) :
    ∃ c, pickCallee reg rnd = some (c, reg) ∧ c ∈ reg.callees ∧
      reg.callees[rnd % reg.callees.length]? = some c := by
  have hpos : 0 < reg.callees.length := List.length_pos_iff.2 hne
  have hlt : rnd % reg.callees.length < reg.callees.length := Nat.mod_lt _ hpos
  have hc := List.getElem?_eq_getElem hlt
  refine ⟨reg.callees[rnd % reg.callees.length], ?_, List.getElem_mem hlt, hc⟩
  by_cases h2 : 2 ≤ reg.callees.length
  · rw [pickCallee_multi h2]
    simp [hp, policy_ne, hc]
  · obtain ⟨c, hc1⟩ : ∃ c, reg.callees = [c] := eq_singleton_of hne h2
    rw [pickCallee_single hc1]
    simp [hc1]

theorem pickCallee_rr {reg : Reg} (hne : reg.callees ≠ []) (hp : reg.policy = InvokeRoundRobin) (rnd : Nat) :
    ∃ c, reg.callees[rrStart reg % reg.callees.length]? = some c ∧
      pickCallee reg rnd =
        some (c, if reg.callees.length = 1 then reg else { reg with next := rrStart reg + 1 }) := by
  have hlt := rrStart_lt hne
  have hc := List.getElem?_eq_getElem hlt
  rw [Nat.mod_eq_of_lt hlt]
  refine ⟨reg.callees[rrStart reg], hc, ?_⟩
  by_cases h2 : 2 ≤ reg.callees.length
  · rw [pickCallee_multi h2, if_neg (show ¬ reg.callees.length = 1 by omega)]
    simp [hp, policy_ne, hc]
  · obtain ⟨c, hc1⟩ : ∃ c, reg.callees = [c] := eq_singleton_of hne h2
    have h0 : rrStart reg = 0 := by
      have : rrStart reg < 1 := by simpa [hc1] using hlt
      omega
    rw [pickCallee_single hc1, if_pos (by simp [hc1])]
    simp [hc1, h0]

/-- the round-robin step with at least two callees -/
theorem pickCallee_rr_step {reg : Reg} (hp : reg.policy = InvokeRoundRobin) (hn : 2 ≤ reg.callees.length)
    (rnd : Nat) :
    ∃ c, reg.callees[rrStart reg]? = some c ∧
      pickCallee reg rnd = some (c, { reg with next := rrStart reg + 1 }) := by
  have hne : reg.callees ≠ [] := by
    intro h; rw [h] at hn; simp at hn
  obtain ⟨c, hc, hpick⟩ := pickCallee_rr hne hp rnd
  rw [Nat.mod_eq_of_lt (rrStart_lt hne)] at hc
  rw [if_neg (show ¬ reg.callees.length = 1 by omega)] at hpick
  exact ⟨c, hc, hpick⟩

/-- the cursor after a round-robin step -/
theorem rrStart_step {reg : Reg} (hne : reg.callees ≠ []) :
    rrStart { reg with next := rrStart reg + 1 } = (rrStart reg + 1) % reg.callees.length := by
  have hlt := rrStart_lt hne
  show (if rrStart reg + 1 ≥ reg.callees.length then 0 else rrStart reg + 1) = _
  split
  · next h =>
    have : rrStart reg + 1 = reg.callees.length := by omega
    rw [this, Nat.mod_self]
  · next h => rw [Nat.mod_eq_of_lt (by omega)]

/-- k consecutive picks on a registration whose callee list does not change: fold `pickCallee`,
collecting the chosen callees and threading the updated registration; stops at `none` -/
def pickIter (reg : Reg) : List Nat → List SessKey × Reg
  | [] => ([], reg)
  | rnd :: rest =>
    match pickCallee reg rnd with
    | none => ([], reg)
    | some (c, reg') =>
      let (cs, r) := pickIter reg' rest
      (c :: cs, r)

/-- the i-th (from 0) of k consecutive round-robin picks hits callee (start + i) mod n -/
theorem pickCallee_rr_rotation {reg : Reg} (hp : reg.policy = InvokeRoundRobin)
    (hn : 2 ≤ reg.callees.length) (rnds : List Nat) :
    (pickIter reg rnds).1.length = rnds.length ∧
    ∀ i (_ : i < rnds.length),
      ((pickIter reg rnds).1)[i]? = reg.callees[(rrStart reg + i) % reg.callees.length]? := by
  induction rnds generalizing reg with
  | nil => exact ⟨rfl, fun i hi => absurd hi (Nat.not_lt_zero i)⟩
  | cons rnd rest ih =>
    have hne : reg.callees ≠ [] := by
      intro h; rw [h] at hn; simp at hn
    obtain ⟨c, hc, hpick⟩ := pickCallee_rr_step hp hn rnd
    have ih' := ih (reg := { reg with next := rrStart reg + 1 }) hp hn
    have hI : (pickIter reg (rnd :: rest)).1 =
        c :: (pickIter { reg with next := rrStart reg + 1 } rest).1 := by
      simp [pickIter, hpick]
    rw [hI]
    refine ⟨by simp [ih'.1], fun i hi => ?_⟩
    cases i with
    | zero =>
      have h0 : (rrStart reg + 0) % reg.callees.length = rrStart reg :=
        Nat.mod_eq_of_lt (rrStart_lt hne)
      rw [h0, hc]
      rfl
    | succ j =>
      rw [List.getElem?_cons_succ, ih'.2 j (by simpa using hi), rrStart_step hne]
      show reg.callees[((rrStart reg + 1) % reg.callees.length + j) % reg.callees.length]? = _
      rw [Nat.mod_add_mod, Nat.add_assoc, Nat.add_comm 1 j]

/-- in every case the chosen session is a callee and the updated registration differs at most in
the cursor -/
theorem pickCallee_mem {reg : Reg} {rnd : Nat} {c : SessKey} {reg' : Reg}
    (h : pickCallee reg rnd = some (c, reg')) :
    c ∈ reg.callees ∧ reg' = { reg with next := reg'.next } := by
  by_cases h2 : 2 ≤ reg.callees.length
  · rw [pickCallee_multi h2] at h
    split at h
    · obtain ⟨x, hx, he⟩ := Option.map_eq_some_iff.1 h
      cases he
      exact ⟨List.mem_of_mem_head? hx, rfl⟩
    · split at h
      · obtain ⟨x, hx, he⟩ := Option.map_eq_some_iff.1 h
        cases he
        exact ⟨List.mem_of_getElem? hx, rfl⟩
      · split at h
        · obtain ⟨x, hx, he⟩ := Option.map_eq_some_iff.1 h
          cases he
          exact ⟨List.mem_of_getElem? hx, rfl⟩
        · split at h
          · obtain ⟨x, hx, he⟩ := Option.map_eq_some_iff.1 h
            cases he
            exact ⟨List.mem_of_getLast? hx, rfl⟩
          · cases h
  · by_cases hne : reg.callees = []
    · simp [pickCallee, hne] at h
    · obtain ⟨c0, hcs⟩ := eq_singleton_of hne h2
      rw [pickCallee_single hcs] at h
      cases h
      exact ⟨by rw [hcs]; exact List.mem_singleton.2 rfl, rfl⟩

/-- the only way to get `none` (the Go code panics there): empty list, or ≥ 2 callees under a
policy that is none of first/roundrobin/random/last -/
theorem pickCallee_none_iff (reg : Reg) (rnd : Nat) :
    pickCallee reg rnd = none ↔
      reg.callees = [] ∨
      (2 ≤ reg.callees.length ∧ reg.policy ≠ InvokeFirst ∧ reg.policy ≠ InvokeRoundRobin ∧
        reg.policy ≠ InvokeRandom ∧ reg.policy ≠ InvokeLast) := by
  by_cases hne : reg.callees = []
  · simp [pickCallee, hne]
  · constructor
    · intro hnone
      right
      obtain ⟨c, cs, hcs⟩ := List.exists_cons_of_ne_nil hne
      have h2 : 2 ≤ reg.callees.length := by
        cases cs with
        | nil => rw [pickCallee_single hcs] at hnone; cases hnone
        | cons _ _ => simp [hcs]
      refine ⟨h2, ?_, ?_, ?_, ?_⟩ <;> intro hpol
      · rw [pickCallee_first hcs hpol] at hnone; cases hnone
      · obtain ⟨x, _, hx⟩ := pickCallee_rr hne hpol rnd
        rw [hx] at hnone; cases hnone
      · obtain ⟨x, hx, _⟩ := pickCallee_random hne hpol rnd
        rw [hx] at hnone; cases hnone
      · rw [pickCallee_last hne hpol] at hnone; cases hnone
    · rintro (h | ⟨h2, h1, hrr, hrnd, hl⟩)
      · exact absurd h hne
      · rw [pickCallee_multi h2]
        simp [h1, hrr, hrnd, hl]

/-! ## concrete examples -/

namespace DealerMatchEx

def reg (id : Nat) (proc m : String) (policy : String := InvokeSingle) (callees : List SessKey := [7])
    (next : Nat := 0) : Reg :=
  { id := id, proc := proc, «match» := m, policy := policy, disclose := false, fwdTimeout := false,
    next := next, callees := callees }

/-- one exact, two prefix and two wildcard registrations, all of which match `a.b.c` -/
def dealer : Dealer :=
  { regs := [ reg 4 "..c" MatchWildcard, reg 2 "a." MatchPrefix, reg 1 "a.b.c" MatchExact,
              reg 5 ".b.c" MatchWildcard, reg 3 "a.b" MatchPrefix ] }

/-- exact beats the two prefixes and the two wildcards (which all match) -/
example : (dealer.matchProcedure "a.b.c").map (·.id) = some 1 := by decide +kernel
/-- no exact: the longer prefix `a.b` (3 bytes) beats `a.` (2 bytes) -/
example : (dealer.matchProcedure "a.b.d").map (·.id) = some 3 := by decide +kernel
/-- only the shorter prefix matches (and the wildcard `..c`, which loses to any prefix) -/
example : (dealer.matchProcedure "a.x.c").map (·.id) = some 2 := by decide +kernel
/-- no exact, no prefix: the longer wildcard `.b.c` (4 bytes) beats `..c` (3 bytes) -/
example : (dealer.matchProcedure "x.b.c").map (·.id) = some 5 := by decide +kernel
/-- only `..c` matches -/
example : (dealer.matchProcedure "x.y.c").map (·.id) = some 4 := by decide +kernel
/-- nothing matches -/
example : (dealer.matchProcedure "x.y.z").map (·.id) = none := by decide +kernel

/-- round robin over three callees starting at cursor 2: 12, 10, 11, 12; the stored cursor is 3 (wrapped on the next pick) -/
example :
    let r := pickIter (reg 9 "p" MatchExact InvokeRoundRobin [10, 11, 12] 2) [0, 0, 0, 0]
    (r.1, r.2.next) = ([12, 10, 11, 12], 3) := by decide +kernel
/-- a cursor beyond the list (the list shrank) restarts at 0 -/
example :
    (pickIter (reg 9 "p" MatchExact InvokeRoundRobin [10, 11] 5) [0, 0, 0]).1 = [10, 11, 10] := by
  decide +kernel
/-- two callees under policy `single`: the Go code panics -/
example : (pickCallee (reg 9 "p" MatchExact InvokeSingle [10, 11]) 0).isNone = true := by
  decide +kernel

end DealerMatchEx

end Nexus.L2

/-
  Axiom checks (run with `lake env lean` on a scratch file importing this module;
  toolchain leanprover/lean4:4.33.0):

  #print axioms Nexus.L2.matchProcedure_bestMatch          -- [propext, Quot.sound]
  #print axioms Nexus.L2.BestMatch.of_perm                 -- [propext, Quot.sound]
  #print axioms Nexus.L2.KeyUnique.perm                    -- [propext, Quot.sound]
  #print axioms Nexus.L2.BestMatch.unique_exact_or_pfx     -- [propext, Classical.choice, Quot.sound]
  #print axioms Nexus.L2.matchProcedure_perm               -- [propext, Classical.choice, Quot.sound]
  #print axioms Nexus.L2.matchProcedure_mem                -- [propext, Quot.sound]
  #print axioms Nexus.L2.matchProcedure_none_iff           -- [propext, Classical.choice, Quot.sound]
  #print axioms Nexus.L2.byteArray_toList_eq               -- [propext, Quot.sound]
  #print axioms Nexus.L2.prefixMatch_eq_of_size            -- [propext, Classical.choice, Quot.sound]
  #print axioms Nexus.L2.pickCallee_single                 -- [propext]
  #print axioms Nexus.L2.pickCallee_first                  -- [propext, Classical.choice, Quot.sound]
  #print axioms Nexus.L2.pickCallee_last                   -- [propext, Classical.choice, Quot.sound]
  #print axioms Nexus.L2.pickCallee_random                 -- [propext, Classical.choice, Quot.sound]
  #print axioms Nexus.L2.pickCallee_rr                     -- [propext, Classical.choice, Quot.sound]
  #print axioms Nexus.L2.pickCallee_rr_rotation            -- [propext, Classical.choice, Quot.sound]
  #print axioms Nexus.L2.pickCallee_mem                    -- [propext, Quot.sound]
  #print axioms Nexus.L2.pickCallee_none_iff               -- [propext, Classical.choice, Quot.sound]
  (the `example`s use `decide +kernel`: kernel evaluation only, axioms [propext])
-/
