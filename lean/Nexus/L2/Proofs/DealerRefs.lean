/-
  Which sessions the dealer refers to and sends to (for the realm-level invariants, C05/C04):
  a step makes the dealer refer to no new session but the acting one, sends only to sessions it referred to
  (or the acting one), and aborts only the acting session; session removal drops every reference to the
  departed session.
-/
import Nexus.L2.Proofs.DealerFrame

namespace Nexus.L2
open Gen.N

/-- session `k` occurs in the dealer's tables: as a callee of a registration, as the caller of a pending call, as
    the callee of a stored invocation, or as a key of the callee index -/
def DState.refs (s : DState) (k : SessKey) : Prop :=
  (∃ id, calleeRel s.d.regs id k) ∨ (∃ c ∈ s.d.calls, c.sess = k) ∨ (∃ v ∈ s.d.invs, v.callee = k) ∨
    (∃ e ∈ s.d.index, e.1 = k)

/-! ### index keys -/

theorem mem_idxAdd_key {ix : List (SessKey × List Nat)} {k : SessKey} {id : Nat} {e : SessKey × List Nat}
    (he : e ∈ idxAdd ix k id) : (∃ e' ∈ ix, e'.1 = e.1) ∨ e.1 = k := by
  unfold idxAdd at he
  split at he
  · split at he
    · exact Or.inl ⟨e, he, rfl⟩
    · rcases List.mem_map.1 he with ⟨p, hp, rfl⟩
      by_cases hk : p.1 = k
      · right; simp [hk]
      · left; exact ⟨p, hp, by simp [hk]⟩
  · rcases List.mem_append.1 he with he | he
    · exact Or.inl ⟨e, he, rfl⟩
    · simp only [List.mem_singleton] at he; subst he; exact Or.inr rfl

theorem mem_idxDel_key {ix : List (SessKey × List Nat)} {k : SessKey} {id : Nat} {e : SessKey × List Nat}
    (he : e ∈ idxDel ix k id) : ∃ e' ∈ ix, e'.1 = e.1 := by
  unfold idxDel at he
  have he := (List.mem_filter.1 he).1
  rcases List.mem_map.1 he with ⟨p, hp, rfl⟩
  by_cases hk : p.1 = k
  · exact ⟨p, hp, by simp [hk]⟩
  · exact ⟨p, hp, by simp [hk]⟩

theorem mem_idxDrop_key {ix : List (SessKey × List Nat)} {k : SessKey} {e : SessKey × List Nat}
    (he : e ∈ idxDrop ix k) : e ∈ ix ∧ e.1 ≠ k := by
  unfold idxDrop at he
  have := List.mem_filter.1 he
  exact ⟨this.1, by simpa using this.2⟩

/-! ### states related by `StateSub` with the same index and fewer calls -/

theorem refs_of_sub {s s' : DState} (hs : StateSub s s') (hx : s'.d.index = s.d.index)
    (hc : ∀ c ∈ s'.d.calls, c ∈ s.d.calls) (k : SessKey) (h : s'.refs k) : s.refs k := by
  rcases h with ⟨id, h⟩ | ⟨c, hc', he⟩ | ⟨v, hv, he⟩ | ⟨e, he, hk⟩
  · exact Or.inl ⟨id, hs.regs ▸ h⟩
  · exact Or.inr (Or.inl ⟨c, hc c hc', he⟩)
  · obtain ⟨w, hw, hws⟩ := hs.invs v hv
    simp only [Invk.shapeC, Prod.mk.injEq] at hws
    exact Or.inr (Or.inr (Or.inl ⟨w, hw, hws.2.2.1.trans he⟩))
  · exact Or.inr (Or.inr (Or.inr ⟨e, hx ▸ he, hk⟩))

/-! ### the index is touched only by REGISTER / UNREGISTER / session removal -/

theorem syncError_index (s : DState) (callee : SessKey) (req : Nat) (details : Dict) (err : String)
    (args : List WVal) (kw : Dict) : (syncError s callee req details err args kw).st.d.index = s.d.index := by
  unfold syncError
  simp only
  split
  · rfl
  · split <;> simp [Dealer.delCall, Dealer.delByCall, Dealer.delInv]

theorem cancelMark_index (s : DState) (v : Invk) : (cancelMark s v).d.index = s.d.index := by simp [cancelMark]

theorem cancelOut_index (env : DEnv) (s : DState) (caller : SessKey) (req : Nat) (mode reason : String)
    (errArgs : List WVal) (i : ReqId) (v : Invk) :
    (cancelOut env s caller req mode reason errArgs i v).st.d.index = s.d.index := by
  rw [cancelOut_eq]
  split
  · split <;> simp [cancelMark_index]
  · simp [cancelMark_index]

theorem syncCancel_index (env : DEnv) (s : DState) (caller : SessKey) (req : Nat) (mode reason : String)
    (errArgs : List WVal) : (syncCancel env s caller req mode reason errArgs).st.d.index = s.d.index := by
  unfold syncCancel
  simp only
  split
  · rfl
  · split
    · rfl
    · split
      · rfl
      · rename_i i _ _ v _
        split
        · rfl
        · exact cancelOut_index env s caller req mode reason errArgs i v

theorem yieldOut_index (env : DEnv) (s : DState) (callee : SessKey) (req : Nat) (opts : Dict)
    (args : List WVal) (kw : Dict) (progress canRetry : Bool) (v : Invk) :
    (yieldOut env s callee req opts args kw progress canRetry v).st.d.index = s.d.index := by
  have hfin : (yieldFinish s progress v ⟨callee, req⟩).d.index = s.d.index := by
    unfold yieldFinish
    split <;> simp
  cases h1 : yieldPptCalleeBad env callee opts
  case true => rw [yieldOut_calleeBad args kw progress canRetry v h1]; simp
  case false =>
  cases h2 : yieldPptCallerBad env v.callId.sess opts
  case true => rw [yieldOut_callerBad args kw progress canRetry v h1 h2]; exact hfin
  case false =>
  cases h3 : env.full v.callId.sess
  case false => rw [yieldOut_deliver args kw progress canRetry v h1 h2 h3]; exact hfin
  case true =>
  cases canRetry
  case true => rw [yieldOut_retry args kw progress v h1 h2 h3]; simp
  case false =>
    rw [yieldOut_giveup args kw progress v h1 h2 h3]
    have := syncCancel_index env (yieldTimer s progress v) v.callId.sess v.callId.req CancelModeKillNoWait ErrCanceled []
    simp only
    split
    · rw [this]; simp
    · simp only [forget_index]; rw [this]; simp

theorem syncYield_index (env : DEnv) (s : DState) (callee : SessKey) (req : Nat) (opts : Dict)
    (args : List WVal) (kw : Dict) (progress canRetry : Bool) :
    (syncYield env s callee req opts args kw progress canRetry).st.d.index = s.d.index := by
  unfold syncYield
  simp only
  split
  · split <;> rfl
  · rename_i v _
    split
    · rfl
    · split
      · split
        · rfl
        · simp
      · exact yieldOut_index env s callee req opts args kw progress canRetry v

theorem armTimer_index (env : DEnv) (s : DState) (caller : SessKey) (req : Nat) (v : Invk) (t : Nat) :
    (armTimer env s caller req v t).d.index = s.d.index := by
  unfold armTimer; split <;> rfl

theorem dispatch_index (env : DEnv) (s : DState) (caller : SessKey) (req : Nat) (callee : SessKey) (invReq : Nat)
    (v : Invk) (timeout : Nat) (m : Msg) : (dispatch env s caller req callee invReq v timeout m).st.d.index = s.d.index := by
  unfold dispatch
  split
  · exact syncError_index ..
  · exact armTimer_index ..

theorem dispatchL_index (env : DEnv) (s : DState) (caller : SessKey) (req : Nat) (callee : SessKey) (invReq : Nat)
    (v : Invk) (timeout : Nat) (m : Msg) : (dispatchL env s caller req callee invReq v timeout m).st.d.index = s.d.index := by
  unfold dispatchL
  split
  · exact syncError_index ..
  · show (armTimer env (preCancel s v timeout) caller req v timeout).d.index = s.d.index
    rw [armTimer_index, preCancel_d]

theorem syncCall_index (env : DEnv) (s : DState) (caller : SessKey) (req : Nat) (opts : Dict) (proc : String)
    (args : List WVal) (kw : Dict) (rnd : Nat) :
    (syncCall env s caller req opts proc args kw rnd).st.d.index = s.d.index := by
  rw [syncCall_eq]
  split
  · split
    · rfl
    · split
      · rfl
      · unfold laterChunk
        exact dispatchL_index env { s with d := s.d.setInv _ } ..
  · split
    · rfl
    · split
      · rfl
      · split
        · rfl
        · split
          · rfl
          · rw [firstChunk_eq]
            split
            · rfl
            · rfl
            · exact dispatch_index env (recordCall _ _ _) ..

/-! ### (1) references -/

theorem syncError_refs_sub {s : DState} (h : DealerInv s) (callee : SessKey) (req : Nat) (details : Dict) (err : String)
    (args : List WVal) (kw : Dict) (k : SessKey) (hr : (syncError s callee req details err args kw).st.refs k) : s.refs k :=
  refs_of_sub (syncError_sub ..) (syncError_index ..) (syncError_calls_sub h _ _ _ _ _ _) k hr

theorem syncCancel_refs_sub {env : DEnv} {s : DState} (h : DealerInv s) (caller : SessKey) (req : Nat)
    (mode reason : String) (errArgs : List WVal) (k : SessKey)
    (hr : (syncCancel env s caller req mode reason errArgs).st.refs k) : s.refs k :=
  refs_of_sub (syncCancel_sub ..) (syncCancel_index ..) (syncCancel_calls_sub h _ _ _ _ _) k hr

theorem syncYield_refs_sub {env : DEnv} {s : DState} (h : DealerInv s) (callee : SessKey) (req : Nat) (opts : Dict)
    (args : List WVal) (kw : Dict) (progress canRetry : Bool) (k : SessKey)
    (hr : (syncYield env s callee req opts args kw progress canRetry).st.refs k) : s.refs k :=
  refs_of_sub (syncYield_sub ..) (syncYield_index ..) (syncYield_calls_sub h _ _ _ _ _ _ _) k hr

theorem syncCall_refs_sub {env : DEnv} {s : DState} (h : DealerInv s) (caller : SessKey) (req : Nat) (opts : Dict)
    (proc : String) (args : List WVal) (kw : Dict) (rnd : Nat) (k : SessKey)
    (hr : (syncCall env s caller req opts proc args kw rnd).st.refs k) : s.refs k ∨ k = caller := by
  obtain ⟨_, hregs, hinvs⟩ := syncCall_frame (env := env) h caller req opts proc args kw rnd
  rcases hr with ⟨id, hc⟩ | ⟨c, hc, he⟩ | ⟨v, hv, he⟩ | ⟨e, he, hk⟩
  · exact Or.inl (Or.inl ⟨id, (calleeRel_congr hregs id k).1 hc⟩)
  · rcases syncCall_calls_sub h caller req opts proc args kw rnd c hc with hc | rfl
    · exact Or.inl (Or.inr (Or.inl ⟨c, hc, he⟩))
    · exact Or.inr he.symm
  · rcases hinvs v hv with ⟨w, hw, hws⟩ | ⟨_, _, _, hc⟩
    · simp only [Invk.shapeC, Prod.mk.injEq] at hws
      exact Or.inl (Or.inr (Or.inr (Or.inl ⟨w, hw, hws.2.2.1.trans he⟩)))
    · exact Or.inl (Or.inl ⟨v.regId, he ▸ hc⟩)
  · rw [syncCall_index] at he
    exact Or.inl (Or.inr (Or.inr (Or.inr ⟨e, he, hk⟩)))

theorem syncRegister_index_keys (s : DState) (callee : SessKey) (req : Nat) (proc m invoke : String)
    (disclose fwd wampURI : Bool) :
    ∀ e ∈ (syncRegister s callee req proc m invoke disclose fwd wampURI).st.d.index,
      (∃ e' ∈ s.d.index, e'.1 = e.1) ∨ e.1 = callee := by
  unfold syncRegister
  simp only
  split
  · intro e he; exact mem_idxAdd_key he
  · split
    · intro e he; exact Or.inl ⟨e, he, rfl⟩
    · split
      · intro e he; exact Or.inl ⟨e, he, rfl⟩
      · split
        · intro e he; exact Or.inl ⟨e, he, rfl⟩
        · intro e he; exact mem_idxAdd_key he

theorem syncRegister_refs_sub {s : DState} (h : DealerInv s) (callee : SessKey) (req : Nat) (proc m invoke : String)
    (disclose fwd wampURI : Bool) (k : SessKey)
    (hr : (syncRegister s callee req proc m invoke disclose fwd wampURI).st.refs k) : s.refs k ∨ k = callee := by
  obtain ⟨_, hinvs, hrel⟩ := syncRegister_frame h callee req proc m invoke disclose fwd wampURI
  rcases hr with ⟨id, hc⟩ | ⟨c, hc, he⟩ | ⟨v, hv, he⟩ | ⟨e, he, hk⟩
  · rcases hrel id k hc with hc | rfl
    · exact Or.inl (Or.inl ⟨id, hc⟩)
    · exact Or.inr rfl
  · rw [syncRegister_calls] at hc
    exact Or.inl (Or.inr (Or.inl ⟨c, hc, he⟩))
  · rw [hinvs] at hv
    exact Or.inl (Or.inr (Or.inr (Or.inl ⟨v, hv, he⟩)))
  · rcases syncRegister_index_keys s callee req proc m invoke disclose fwd wampURI e he with ⟨e', he', hk'⟩ | hk'
    · exact Or.inl (Or.inr (Or.inr (Or.inr ⟨e', he', hk'.trans hk⟩)))
    · exact Or.inr (hk.symm.trans hk')

theorem syncUnregister_index_keys {s : DState} (h : DealerInv s) (callee : SessKey) (req regId : Nat) :
    ∀ e ∈ (syncUnregister s callee req regId).st.d.index, ∃ e' ∈ s.d.index, e'.1 = e.1 := by
  unfold syncUnregister
  simp only
  by_cases hr : calleeRel s.d.regs regId callee
  · obtain ⟨d', del, he, _, _, hd'⟩ :=
      delCalleeReg_some (d := { s.d with index := idxDel s.d.index callee regId }) h.reg.regs hr
    rw [he]
    simp only
    rw [hd']
    intro e he'
    exact mem_idxDel_key he'
  · rw [delCalleeReg_none (d := { s.d with index := idxDel s.d.index callee regId }) h.reg.regs hr]
    intro e he'
    exact mem_idxDel_key he'

theorem syncUnregister_refs_sub {s : DState} (h : DealerInv s) (callee : SessKey) (req regId : Nat) (k : SessKey)
    (hr : (syncUnregister s callee req regId).st.refs k) : s.refs k := by
  obtain ⟨_, hinvs, hrel⟩ := syncUnregister_frame h callee req regId
  rcases hr with ⟨id, hc⟩ | ⟨c, hc, he⟩ | ⟨v, hv, he⟩ | ⟨e, he, hk⟩
  · exact Or.inl ⟨id, ((hrel id k).1 hc).1⟩
  · rw [syncUnregister_calls h] at hc
    exact Or.inr (Or.inl ⟨c, hc, he⟩)
  · rw [hinvs] at hv
    exact Or.inr (Or.inr (Or.inl ⟨v, hv, he⟩))
  · obtain ⟨e', he', hk'⟩ := syncUnregister_index_keys h callee req regId e he
    exact Or.inr (Or.inr (Or.inr ⟨e', he', hk'.trans hk⟩))

/-! ### (2) recipients -/

theorem syncError_sends_to {s : DState} (h : DealerInv s) (callee : SessKey) (req : Nat) (details : Dict) (err : String)
    (args : List WVal) (kw : Dict) : ∀ x ∈ (syncError s callee req details err args kw).sends, s.refs x.to := by
  intro x hx
  cases hf : s.d.findInv ⟨callee, req⟩ with
  | none => rw [syncError_none _ _ _ _ hf] at hx; cases hx
  | some v =>
    rw [syncError_some' h.call _ _ _ _ hf] at hx
    simp only [List.mem_singleton] at hx; subst hx
    exact Or.inr (Or.inl ⟨v.callId, (h.call.inv_call (findInv_some_mem hf).1).1, rfl⟩)

theorem syncCancel_sends_to {env : DEnv} {s : DState} (h : DealerInv s) (caller : SessKey) (req : Nat)
    (mode reason : String) (errArgs : List WVal) :
    ∀ x ∈ (syncCancel env s caller req mode reason errArgs).sends, s.refs x.to := by
  intro x hx
  by_cases hc : (⟨caller, req⟩ : ReqId) ∈ s.d.calls
  · obtain ⟨i, v, hb, hf, hv, _⟩ := h.call.lookup hc
    rw [syncCancel_pending mode reason errArgs hc hb hf] at hx
    split at hx
    · cases hx
    · rw [cancelOut_eq] at hx
      have hcallee : s.refs v.callee := Or.inr (Or.inr (Or.inl ⟨v, hv, rfl⟩))
      have hcaller : s.refs caller := Or.inr (Or.inl ⟨⟨caller, req⟩, hc, rfl⟩)
      split at hx
      · split at hx
        · simp only [List.mem_singleton] at hx; subst hx; exact hcallee
        · simp only [List.mem_cons, List.not_mem_nil, or_false] at hx
          rcases hx with rfl | rfl
          · exact hcallee
          · exact hcaller
      · simp only [List.mem_singleton] at hx; subst hx; exact hcaller
  · rw [syncCancel_not_pending mode reason errArgs hc] at hx; cases hx

theorem syncYield_sends_to {env : DEnv} {s : DState} (h : DealerInv s) (callee : SessKey) (req : Nat) (opts : Dict)
    (args : List WVal) (kw : Dict) (progress canRetry : Bool) :
    ∀ x ∈ (syncYield env s callee req opts args kw progress canRetry).sends, s.refs x.to ∨ x.to = callee := by
  intro x hx
  cases hf : s.d.findInv ⟨callee, req⟩ with
  | none =>
    rw [syncYield_none opts args kw progress canRetry hf] at hx
    split at hx
    · simp only [List.mem_singleton] at hx; subst hx; exact Or.inr rfl
    · cases hx
  | some v =>
    have hv := findInv_some_mem hf
    have hid : (⟨v.id.sess, v.id.req⟩ : ReqId) = ⟨callee, req⟩ := hv.2
    have hs : v.id.sess = callee := congrArg ReqId.sess hid
    have hr : v.id.req = req := congrArg ReqId.req hid
    rw [← hs, ← hr] at hx
    rcases yield_recipients h hv.1 opts args kw progress canRetry x hx with hto | hto
    · exact Or.inl (Or.inr (Or.inl ⟨v.callId, (h.call.inv_call hv.1).1, hto.symm⟩))
    · exact Or.inr (hto.trans hs)

theorem syncCall_sends_to {env : DEnv} {s : DState} (h : DealerInv s) (caller : SessKey) (req : Nat) (opts : Dict)
    (proc : String) (args : List WVal) (kw : Dict) (rnd : Nat) :
    ∀ x ∈ (syncCall env s caller req opts proc args kw rnd).sends, s.refs x.to ∨ x.to = caller := by
  intro x
  refine syncCall_cases (env := env) (P := fun o => x ∈ o.sends → s.refs x.to ∨ x.to = caller) h caller req opts proc
    args kw rnd ?_ ?_ ?_ ?_ ?_ ?_ ?_ ?_
  · intro _ hx
    simp only [progressAbort, List.mem_singleton] at hx; subst hx; exact Or.inr rfl
  · intro iid v0 _ _ hv0 _ _ _ _ hx
    simp only [List.mem_singleton] at hx; subst hx
    exact Or.inl (Or.inr (Or.inr (Or.inl ⟨v0, hv0, rfl⟩)))
  · intro iid v0 _ _ _ _ _ _ _ hx
    simp only [fullOut, List.mem_singleton] at hx; subst hx; exact Or.inr rfl
  · intro _ _ _ hx
    simp only [List.mem_singleton] at hx; subst hx; exact Or.inr rfl
  · intro reg reg' callee e _ _ _ _ _ _ _ hx
    simp only [List.mem_singleton] at hx; subst hx; exact Or.inr rfl
  · intro reg reg' callee _ _ _ _ _ _ _ hx
    simp only [List.mem_singleton] at hx; subst hx; exact Or.inr rfl
  · intro reg reg' callee _ _ _ hmem hp _ _ _ hx
    simp only [List.mem_singleton] at hx; subst hx
    exact Or.inl (Or.inl ⟨reg.id, reg, hmem, rfl, (pickCallee_mem hp).1⟩)
  · intro reg reg' callee _ _ _ _ _ _ _ _ hx
    simp only [fullOut, List.mem_singleton] at hx; subst hx; exact Or.inr rfl

theorem syncRegister_sends_to (s : DState) (callee : SessKey) (req : Nat) (proc m invoke : String)
    (disclose fwd wampURI : Bool) :
    ∀ x ∈ (syncRegister s callee req proc m invoke disclose fwd wampURI).sends, x.to = callee := by
  unfold syncRegister
  simp only
  split
  · simp
  · split
    · simp
    · split
      · simp
      · split <;> simp

theorem syncUnregister_sends_to (s : DState) (callee : SessKey) (req regId : Nat) :
    ∀ x ∈ (syncUnregister s callee req regId).sends, x.to = callee := by
  unfold syncUnregister
  simp only
  split <;> simp

/-! ### (3) aborts -/

theorem syncError_aborts (s : DState) (callee : SessKey) (req : Nat) (details : Dict) (err : String)
    (args : List WVal) (kw : Dict) : (syncError s callee req details err args kw).aborts = [] := by
  unfold syncError
  simp only
  split
  · rfl
  · split <;> rfl

theorem syncCancel_aborts (env : DEnv) (s : DState) (caller : SessKey) (req : Nat) (mode reason : String)
    (errArgs : List WVal) : (syncCancel env s caller req mode reason errArgs).aborts = [] := by
  unfold syncCancel
  simp only
  split
  · rfl
  · split
    · rfl
    · split
      · rfl
      · split
        · rfl
        · split <;> rfl

theorem syncYield_aborts (env : DEnv) (s : DState) (callee : SessKey) (req : Nat) (opts : Dict)
    (args : List WVal) (kw : Dict) (progress canRetry : Bool) :
    ∀ k ∈ (syncYield env s callee req opts args kw progress canRetry).aborts, k = callee := by
  unfold syncYield
  simp only
  split
  · split <;> simp
  · split
    · simp
    · split
      · simp
      · split
        · simp
        · split
          · simp
          · split
            · simp
            · split
              · simp
              · simp only
                rw [syncCancel_aborts]; simp

theorem dispatch_aborts (env : DEnv) (s : DState) (caller : SessKey) (req : Nat) (callee : SessKey) (invReq : Nat)
    (v : Invk) (timeout : Nat) (m : Msg) : (dispatch env s caller req callee invReq v timeout m).aborts = [] := by
  unfold dispatch
  split
  · exact syncError_aborts ..
  · rfl

theorem dispatchL_aborts (env : DEnv) (s : DState) (caller : SessKey) (req : Nat) (callee : SessKey) (invReq : Nat)
    (v : Invk) (timeout : Nat) (m : Msg) : (dispatchL env s caller req callee invReq v timeout m).aborts = [] := by
  unfold dispatchL
  split
  · exact syncError_aborts ..
  · rfl

theorem syncCall_aborts (env : DEnv) (s : DState) (caller : SessKey) (req : Nat) (opts : Dict) (proc : String)
    (args : List WVal) (kw : Dict) (rnd : Nat) :
    ∀ k ∈ (syncCall env s caller req opts proc args kw rnd).aborts, k = caller := by
  rw [syncCall_eq]
  split
  · split
    · simp
    · split
      · simp [progressAbort]
      · unfold laterChunk
        simp only
        rw [dispatchL_aborts]; simp
  · split
    · simp
    · split
      · simp
      · split
        · simp [progressAbort]
        · split
          · simp
          · rw [firstChunk_eq]
            split
            · simp
            · simp
            · rw [dispatch_aborts]; simp

theorem syncRegister_aborts (s : DState) (callee : SessKey) (req : Nat) (proc m invoke : String)
    (disclose fwd wampURI : Bool) : (syncRegister s callee req proc m invoke disclose fwd wampURI).aborts = [] := by
  unfold syncRegister
  simp only
  split
  · rfl
  · split
    · rfl
    · split
      · rfl
      · split <;> rfl

theorem syncUnregister_aborts (s : DState) (callee : SessKey) (req regId : Nat) :
    (syncUnregister s callee req regId).aborts = [] := by
  unfold syncUnregister
  simp only
  split <;> rfl

/-! ### (4)-(6) session removal -/

theorem cancelServed_index (env : DEnv) (k : SessKey) : ∀ (l : List Invk) (s : DState),
    (cancelServed env s k l).1.d.index = s.d.index
  | [], _ => rfl
  | invk :: rest, s => by
    unfold cancelServed
    split
    · exact cancelServed_index env k rest s
    · simp only
      rw [cancelServed_index env k rest, syncCancel_index]
      split <;> simp

theorem dropOne_index (s : DState) (c : ReqId) : (dropOne s c).d.index = s.d.index := by
  unfold dropOne
  simp only
  split
  · split <;> simp [Dealer.delCall, Dealer.delByCall, Dealer.delInv]
  · rfl

theorem dropCalls_index (k : SessKey) : ∀ (l : List ReqId) (s : DState), (dropCalls s k l).d.index = s.d.index
  | [], _ => rfl
  | c :: rest, s => by
    by_cases hck : (c.sess != k) = true
    · rw [dropCalls_cons_skip rest hck]; exact dropCalls_index k rest s
    · rw [dropCalls_cons_hit rest hck, dropCalls_index k rest, dropOne_index]

theorem syncRemoveSession_refs_sub {env : DEnv} {s : DState} (h : DealerInv s) (k k' : SessKey)
    (hr : (syncRemoveSession env s k).st.refs k') : s.refs k' ∧ k' ≠ k := by
  obtain ⟨_, hinvs, hrel⟩ := syncRemoveSession_frame (env := env) h k
  rcases hr with ⟨id, hc⟩ | ⟨c, hc, he⟩ | ⟨v, hv, he⟩ | ⟨e, he, hk⟩
  · have := (hrel id k').1 hc
    exact ⟨Or.inl ⟨id, this.1⟩, this.2⟩
  · obtain ⟨h1, h2, _⟩ := syncRemoveSession_calls h k c hc
    exact ⟨Or.inr (Or.inl ⟨c, h1, he⟩), he ▸ h2⟩
  · obtain ⟨w, hw, hws⟩ := hinvs v hv
    simp only [Invk.shapeC, Prod.mk.injEq] at hws
    exact ⟨Or.inr (Or.inr (Or.inl ⟨w, hw, hws.2.2.1.trans he⟩)), he ▸ syncRemoveSession_no_inv h k v hv⟩
  · obtain ⟨d', pubs, hrr, _, _, hd'⟩ := removeRegs_all h k
    have hix : (syncRemoveSession env s k).st.d.index = idxDrop s.d.index k := by
      unfold syncRemoveSession
      simp only [hrr]
      rw [dropCalls_index, cancelServed_index]
      show idxDrop d'.index k = _
      rw [hd']
    rw [hix] at he
    have := mem_idxDrop_key he
    exact ⟨Or.inr (Or.inr (Or.inr ⟨e, this.1, hk⟩)), hk ▸ this.2⟩

theorem syncRemoveSession_sends_to {env : DEnv} {s : DState} (h : DealerInv s) (k : SessKey) :
    ∀ x ∈ (syncRemoveSession env s k).sends, s.refs x.to := by
  intro x hx
  rw [syncRemoveSession_sends h] at hx
  rcases List.mem_map.1 hx with ⟨v, hv, rfl⟩
  exact Or.inr (Or.inl ⟨v.callId, (h.call.inv_call (List.mem_filter.1 hv).1).1, rfl⟩)

theorem syncRemoveSession_aborts (env : DEnv) (s : DState) (k : SessKey) : (syncRemoveSession env s k).aborts = [] := by
  unfold syncRemoveSession
  rfl

end Nexus.L2
