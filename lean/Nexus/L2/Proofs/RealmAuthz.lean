/-
  The authorization gate (`authzMessage`) — helper lemmas for C10.

  * `dispatch`: the message switch of `handleInboundMessages` behind the gate; `handleMsg_eq`
    splits `handleMsg` into gate + dispatch.
  * `gateG`: the gate for an ARBITRARY decision function `dec : SessKey → Msg → String`; the
    model's gate is the instance `dec := authzDecision rules` (`authzGate_eq_gateG`).
  * `withCfg c r`: r with another configuration.  No handler behind the gate reads the
    configuration (`dispatch_withCfg`), so "as without an Authorizer" can be stated as an equation
    between `handleMsg` of the realm and of the same realm with `cfg.authz := none`.
-/
import Nexus.L2.Proofs.RealmBase

namespace Nexus.L2.Realm
open Nexus.L2 Nexus.Gen.N

/-! ### the realm with another configuration -/

def withCfg (c : Config) (r : Realm) : Realm := { r with cfg := c }

section proj
variable (c : Config) (r : Realm)
theorem withCfg_broker : (withCfg c r).broker = r.broker := rfl
theorem withCfg_ds : (withCfg c r).ds = r.ds := rfl
theorem withCfg_clients : (withCfg c r).clients = r.clients := rfl
theorem withCfg_ending : (withCfg c r).ending = r.ending := rfl
theorem withCfg_testaments : (withCfg c r).testaments = r.testaments := rfl
theorem withCfg_metaProcs : (withCfg c r).metaProcs = r.metaProcs := rfl
theorem withCfg_metaS : (withCfg c r).metaS = r.metaS := rfl
theorem withCfg_queues : (withCfg c r).queues = r.queues := rfl
theorem withCfg_closedPeers : (withCfg c r).closedPeers = r.closedPeers := rfl
theorem withCfg_tasks : (withCfg c r).tasks = r.tasks := rfl
theorem withCfg_retries : (withCfg c r).retries = r.retries := rfl
theorem withCfg_deferred : (withCfg c r).deferred = r.deferred := rfl
theorem withCfg_inbox : (withCfg c r).inbox = r.inbox := rfl
theorem withCfg_ghosts : (withCfg c r).ghosts = r.ghosts := rfl
theorem withCfg_now : (withCfg c r).now = r.now := rfl
theorem withCfg_pubCount : (withCfg c r).pubCount = r.pubCount := rfl
theorem withCfg_rnd : (withCfg c r).rnd = r.rnd := rfl
theorem withCfg_panic : (withCfg c r).panic = r.panic := rfl
theorem withCfg_session? : (withCfg c r).session? = r.session? := rfl
theorem withCfg_queueLen : (withCfg c r).queueLen = r.queueLen := rfl
theorem withCfg_isFull : (withCfg c r).isFull = r.isFull := rfl
theorem withCfg_denv : (withCfg c r).denv = r.denv := rfl
theorem withCfg_busy : (withCfg c r).busy = r.busy := rfl
theorem mk_withCfg (b d cl en ts mp ms q cp tk rt df ib gh nw pc rd pn) :
    Realm.mk (withCfg c r).cfg b d cl en ts mp ms q cp tk rt df ib gh nw pc rd pn =
      withCfg c (Realm.mk r.cfg b d cl en ts mp ms q cp tk rt df ib gh nw pc rd pn) := rfl
end proj

theorem withCfg_setPanic (c : Config) (r : Realm) (p) : (withCfg c r).setPanic p = withCfg c (r.setPanic p) := by
  unfold setPanic withCfg
  dsimp only
  repeat' split
  all_goals rfl

theorem withCfg_trySend (c : Config) (r : Realm) (s : Send) : (withCfg c r).trySend s = withCfg c (r.trySend s) := by
  unfold trySend
  simp only [withCfg_setPanic]
  unfold withCfg queueLen
  dsimp only
  repeat' split
  all_goals rfl

theorem withCfg_deliver (c : Config) : ∀ (ss : List Send) (r : Realm), (withCfg c r).deliver ss = withCfg c (r.deliver ss)
  | [], _ => rfl
  | s :: ss, r => by
    show ((withCfg c r).trySend s).deliver ss = _
    rw [withCfg_trySend, withCfg_deliver c ss]; rfl

macro "cfg_simp" : tactic => `(tactic| simp only [withCfg_broker, withCfg_ds, withCfg_clients, withCfg_ending,
  withCfg_testaments, withCfg_metaProcs, withCfg_metaS, withCfg_queues, withCfg_closedPeers, withCfg_tasks,
  withCfg_retries, withCfg_deferred, withCfg_inbox, withCfg_ghosts, withCfg_now, withCfg_pubCount, withCfg_rnd, withCfg_panic,
  withCfg_session?, withCfg_queueLen, withCfg_isFull, withCfg_denv, withCfg_busy, mk_withCfg,
  withCfg_setPanic, withCfg_trySend, withCfg_deliver])


theorem withCfg_addTasks (c : Config) (r : Realm) (ts : List Task) :
    (withCfg c r).addTasks ts = withCfg c (r.addTasks ts) := rfl

theorem withCfg_applyD (c : Config) (r : Realm) (o : DOut) : (withCfg c r).applyD o = withCfg c (r.applyD o) := by
  unfold applyD
  cfg_simp
  simp only [addTasks]
  cfg_simp

macro "cfg_tac" : tactic => `(tactic| (
  cfg_simp
  repeat' split
  all_goals (try cfg_simp)
  all_goals (try simp only [withCfg_applyD])
  all_goals (try rfl)))

theorem withCfg_handlePublish (c : Config) (r : Realm) (s req opts topic args kw) :
    handlePublish (withCfg c r) s req opts topic args kw = withCfg c (handlePublish r s req opts topic args kw) := by
  unfold handlePublish
  simp only [freshPub]
  cfg_tac

theorem withCfg_handleSubscribe (c : Config) (r : Realm) (s req opts topic) :
    handleSubscribe (withCfg c r) s req opts topic = withCfg c (handleSubscribe r s req opts topic) := by
  unfold handleSubscribe
  cfg_tac

theorem withCfg_handleUnsubscribe (c : Config) (r : Realm) (s req sub) :
    handleUnsubscribe (withCfg c r) s req sub = withCfg c (handleUnsubscribe r s req sub) := by
  unfold handleUnsubscribe
  cfg_tac

theorem withCfg_handleRegister (c : Config) (r : Realm) (s req opts proc) :
    handleRegister (withCfg c r) s req opts proc = withCfg c (handleRegister r s req opts proc) := by
  unfold handleRegister
  cfg_tac

theorem withCfg_handleUnregister (c : Config) (r : Realm) (s req reg) :
    handleUnregister (withCfg c r) s req reg = withCfg c (handleUnregister r s req reg) :=
  withCfg_applyD ..

theorem withCfg_handleCall (c : Config) (r : Realm) (s req opts proc args kw) :
    handleCall (withCfg c r) s req opts proc args kw = withCfg c (handleCall r s req opts proc args kw) :=
  withCfg_applyD ..

theorem withCfg_handleCancel (c : Config) (r : Realm) (s req opts) :
    handleCancel (withCfg c r) s req opts = withCfg c (handleCancel r s req opts) := by
  unfold handleCancel
  cfg_tac

theorem withCfg_handleYield (c : Config) (r : Realm) (s req opts args kw) :
    handleYield (withCfg c r) s req opts args kw = withCfg c (handleYield r s req opts args kw) := by
  unfold handleYield
  cfg_simp
  simp only [withCfg_applyD]
  cfg_tac

theorem withCfg_handleError (c : Config) (r : Realm) (s req details err args kw) :
    handleError (withCfg c r) s req details err args kw = withCfg c (handleError r s req details err args kw) :=
  withCfg_applyD ..

/-! ### gate and dispatch -/

/-- the message switch of `handleInboundMessages`, behind the authorization gate -/
def dispatch (r : Realm) (s : Session) (m : Msg) : Realm :=
  match m with
  | .publish req opts topic args kw => handlePublish r s req opts topic args kw
  | .yield req opts args kw => handleYield r s req opts args kw
  | .call req opts proc args kw => handleCall r s req opts proc args kw
  | .cancel req opts => handleCancel r s req opts
  | .subscribe req opts topic => handleSubscribe r s req opts topic
  | .register req opts proc => handleRegister r s req opts proc
  | .unsubscribe req sub => handleUnsubscribe r s req sub
  | .unregister req reg => handleUnregister r s req reg
  | .error typ req details err args kw =>
    if typ != tINVOCATION then
      { r with tasks := r.tasks ++ [.leave s.key (.violation "invalid ERROR")], ending := r.ending ++ [s.key] }
    else handleError r s req details err args kw
  | .goodbye _ _ =>
    let r := r.trySend ⟨s.key, .goodbye [] CloseGoodbyeAndOut⟩
    { r with tasks := r.tasks ++ [.leave s.key .lost], ending := r.ending ++ [s.key] }
  | _ =>
    { r with tasks := r.tasks ++ [.leave s.key (.violation "unexpected message")], ending := r.ending ++ [s.key] }

theorem handleMsg_eq (r : Realm) (s : Session) (m : Msg) :
    handleMsg r s m = if (authzGate r s m).1 then dispatch (authzGate r s m).2 s m else (authzGate r s m).2 := by
  unfold handleMsg dispatch
  generalize authzGate r s m = g
  obtain ⟨ok, r'⟩ := g
  cases ok
  · rfl
  · cases m <;> rfl

theorem dispatch_withCfg (c : Config) (r : Realm) (s : Session) (m : Msg) :
    dispatch (withCfg c r) s m = withCfg c (dispatch r s m) := by
  cases m
  case publish => exact withCfg_handlePublish ..
  case yield => exact withCfg_handleYield ..
  case call => exact withCfg_handleCall ..
  case cancel => exact withCfg_handleCancel ..
  case subscribe => exact withCfg_handleSubscribe ..
  case register => exact withCfg_handleRegister ..
  case unsubscribe => exact withCfg_handleUnsubscribe ..
  case unregister => exact withCfg_handleUnregister ..
  case error typ req details err args kw =>
    show (if typ != tINVOCATION then _ else handleError (withCfg c r) s req details err args kw) = _
    rw [withCfg_handleError]
    show _ = withCfg c (if typ != tINVOCATION then _ else _)
    split <;> rfl
  case goodbye =>
    show (let r' := (withCfg c r).trySend _; ({ r' with tasks := _, ending := _ } : Realm)) = _
    simp only [withCfg_trySend]
    rfl
  all_goals rfl

theorem withCfg_self (r : Realm) : withCfg r.cfg r = r := rfl
theorem withCfg_withCfg (c c' : Config) (r : Realm) : withCfg c (withCfg c' r) = withCfg c r := rfl

theorem dispatch_cfg (r : Realm) (s : Session) (m : Msg) : dispatch r s m = withCfg r.cfg (dispatch r s m) := by
  have := dispatch_withCfg r.cfg r s m
  rw [withCfg_self] at this
  exact this

/-! ### the gate for an arbitrary decision function -/

/-- the reply to a refused message; none for a PUBLISH without `acknowledge = true` -/
def denialReply (dec : String) (m : Msg) : Option Msg :=
  let skip := match m with
    | .publish _ opts .. => !opts.optFlag OptAcknowledge
    | _ => false
  if skip then none
  else some (if dec == "fail"
    then .error m.typeCode (msgReq m) [] ErrAuthorizationFailed [.str "<text>"] []
    else .error m.typeCode (msgReq m) [] ErrNotAuthorized [] [])

/-- not subject to authorization: the meta session, and local sessions unless `localAuthz` -/
def exempt (localAuthz : Bool) (s : Session) : Bool := s.key == metaKey || (s.isLocal && !localAuthz)

/-- the Authorizer let the message pass: it answered true — without an error ("allow") or together
    with one ("allowerr": `realm.go` looks at the boolean only, the error is ignored) -/
def allows (dec : String) : Bool := dec == "allow" || dec == "allowerr"

theorem allows_iff (dec : String) : allows dec = true ↔ dec = "allow" ∨ dec = "allowerr" := by
  simp [allows]

theorem allows_false_iff (dec : String) : allows dec = false ↔ ¬ (dec = "allow" ∨ dec = "allowerr") := by
  rw [← allows_iff]; simp

/-- `authzMessage` with an arbitrary Authorizer `dec` (none: no Authorizer configured) -/
def gateG (dec : Option (SessKey → Msg → String)) (localAuthz : Bool) (r : Realm) (s : Session) (m : Msg) :
    Bool × Realm :=
  match dec with
  | none => (true, r)
  | some f =>
    if exempt localAuthz s then (true, r)
    else if allows (f s.key m) then (true, r)
    else (false, match denialReply (f s.key m) m with
                 | none => r
                 | some e => r.trySend ⟨s.key, e⟩)

/-- the model's gate is the instance for the rule-table Authorizer -/
theorem authzGate_eq_gateG (r : Realm) (s : Session) (m : Msg) :
    authzGate r s m = gateG (r.cfg.authz.map authzDecision) r.cfg.localAuthz r s m := by
  unfold authzGate gateG exempt denialReply allows
  cases r.cfg.authz with
  | none => rfl
  | some rules =>
    simp only [Option.map_some]
    by_cases h1 : (s.key == metaKey) = true
    · simp [h1]
    · by_cases h2 : (s.isLocal && !r.cfg.localAuthz) = true
      · simp [h1, h2]
      · simp only [h1, h2, Bool.false_or, Bool.false_eq_true, if_false]
        by_cases h3 : (authzDecision rules s.key m == "allow" || authzDecision rules s.key m == "allowerr") = true
        · simp only [h3, if_true]
        · simp only [h3, Bool.false_eq_true, if_false]
          congr 1
          cases m with
          | publish req opts topic args kw =>
            by_cases ha : opts.optFlag OptAcknowledge = true <;> simp [ha]
          | _ => simp

/-- handling of a message behind an arbitrary Authorizer -/
def handleMsgG (dec : Option (SessKey → Msg → String)) (localAuthz : Bool) (r : Realm) (s : Session) (m : Msg) : Realm :=
  if (gateG dec localAuthz r s m).1 then dispatch (gateG dec localAuthz r s m).2 s m else (gateG dec localAuthz r s m).2

theorem handleMsg_eq_handleMsgG (r : Realm) (s : Session) (m : Msg) :
    handleMsg r s m = handleMsgG (r.cfg.authz.map authzDecision) r.cfg.localAuthz r s m := by
  rw [handleMsg_eq, authzGate_eq_gateG]; rfl

theorem handleMsgG_none (la : Bool) (r : Realm) (s : Session) (m : Msg) : handleMsgG none la r s m = dispatch r s m := rfl

theorem handleMsgG_exempt (f : SessKey → Msg → String) (la : Bool) (r : Realm) (s : Session) (m : Msg)
    (h : exempt la s = true) : handleMsgG (some f) la r s m = dispatch r s m := by
  simp [handleMsgG, gateG, h]

/-- the gate lets an allowed message through and queues nothing -/
theorem gateG_allow (f : SessKey → Msg → String) (la : Bool) (r : Realm) (s : Session) (m : Msg)
    (h : f s.key m = "allow" ∨ f s.key m = "allowerr") : gateG (some f) la r s m = (true, r) := by
  have ha : allows (f s.key m) = true := (allows_iff _).mpr h
  unfold gateG
  by_cases he : exempt la s = true
  · simp only [he, if_true]
  · simp only [he, ha, if_true, Bool.false_eq_true, if_false]

theorem handleMsgG_allow (f : SessKey → Msg → String) (la : Bool) (r : Realm) (s : Session) (m : Msg)
    (h : f s.key m = "allow" ∨ f s.key m = "allowerr") : handleMsgG (some f) la r s m = dispatch r s m := by
  unfold handleMsgG
  rw [gateG_allow f la r s m h]
  rfl

theorem handleMsgG_refused (f : SessKey → Msg → String) (la : Bool) (r : Realm) (s : Session) (m : Msg)
    (he : exempt la s = false) (h : ¬ (f s.key m = "allow" ∨ f s.key m = "allowerr")) :
    handleMsgG (some f) la r s m =
      match denialReply (f s.key m) m with
      | none => r
      | some e => r.trySend ⟨s.key, e⟩ := by
  have ha : allows (f s.key m) = false := (allows_false_iff _).mpr h
  unfold handleMsgG gateG
  simp only [he, ha, Bool.false_eq_true, if_false]

/-! ### `trySend` to an attached session -/

/-- append `m` to the queue of `k` (create the queue if there is none) -/
def enqueue (qs : List (SessKey × List Msg)) (k : SessKey) (m : Msg) : List (SessKey × List Msg) :=
  if qs.any (fun q => q.1 == k) then qs.map (fun q => if q.1 == k then (q.1, q.2 ++ [m]) else q)
  else qs ++ [(k, [m])]

/-- the messages waiting for session `k` -/
def queueOfList (qs : List (SessKey × List Msg)) (k : SessKey) : List Msg :=
  match qs.find? (fun q => q.1 == k) with
  | some q => q.2
  | none => []

theorem trySend_client_enqueue {r : Realm} {k : SessKey} {c : Session} (hk : k ≠ metaKey)
    (hc : r.clients.find? (fun c => c.key == k) = some c) (m : Msg) :
    r.trySend ⟨k, m⟩ = if r.queueLen k ≥ c.cap then r else { r with queues := enqueue r.queues k m } := by
  unfold trySend enqueue
  simp only [hk, if_false, hc]
  split
  · rfl
  · split <;> rfl

theorem find?_map_key (f : SessKey × List Msg → SessKey × List Msg) (hf : ∀ q, (f q).1 = q.1)
    (qs : List (SessKey × List Msg)) (k' : SessKey) :
    (qs.map f).find? (fun q => q.1 == k') = (qs.find? (fun q => q.1 == k')).map f := by
  rw [List.find?_map]
  have : ((fun q : SessKey × List Msg => q.1 == k') ∘ f) = (fun q => q.1 == k') := by
    funext q; simp [Function.comp, hf]
  rw [this]

theorem queueOfList_enqueue (qs : List (SessKey × List Msg)) (k : SessKey) (m : Msg) (k' : SessKey) :
    queueOfList (enqueue qs k m) k' = if k' = k then queueOfList qs k ++ [m] else queueOfList qs k' := by
  unfold enqueue
  split
  · rename_i hany
    unfold queueOfList
    rw [find?_map_key _ (by intro q; split <;> rfl)]
    cases hf : qs.find? (fun q => q.1 == k') with
    | none =>
      have hne : k' ≠ k := by
        intro e
        subst e
        obtain ⟨x, hx, hxk⟩ := List.any_eq_true.mp hany
        exact absurd hxk (List.find?_eq_none.mp hf x hx)
      simp [hne]
    | some q =>
      have hq : q.1 = k' := by simpa using List.find?_some hf
      by_cases e : k' = k
      · subst e
        simp [hf, hq]
      · have : ¬ q.1 = k := fun h => e (hq ▸ h)
        simp [e, this]
  · rename_i hany
    have hnone : qs.find? (fun q => q.1 == k) = none := by
      apply List.find?_eq_none.mpr
      intro x hx hxk
      exact hany (List.any_eq_true.mpr ⟨x, hx, hxk⟩)
    unfold queueOfList
    rw [List.find?_append]
    by_cases hk' : k' = k
    · subst hk'
      simp [hnone]
    · have : ¬ k = k' := fun e => hk' e.symm
      cases hf : qs.find? (fun q => q.1 == k') with
      | none => simp [hk', this]
      | some q => simp [hk']

end Nexus.L2.Realm
