/-
  Event history (C20, and the history clause of C12): what publishing does to a store, that a
  store and its subscription survive every step, the retention invariant over arbitrary step
  sequences, the stores `preInit` creates.
-/
import Nexus.L2.Proofs.BrokerDeliver

namespace Nexus.L2
open Gen.N

/-! ### ring buffer arithmetic -/

theorem lastN_length {α : Type} (n : Nat) (l : List α) : (lastN n l).length = min n l.length := by
  unfold lastN; simp; omega

theorem lastN_of_le {α : Type} (n : Nat) (l : List α) (h : l.length ≤ n) : lastN n l = l := by
  unfold lastN; rw [Nat.sub_eq_zero_of_le h]; rfl

/-- appending to a bounded store = taking the last `n` of the longer history -/
theorem save_lastN (h : Hist) (L : List HistEntry) (e : HistEntry) (hl : 0 < h.limit)
    (he : h.entries = lastN h.limit L) : (h.save e).entries = lastN h.limit (L ++ [e]) := by
  rw [Hist.save_entries, he, lastN_length]
  unfold lastN
  by_cases hc : L.length ≥ h.limit
  · rw [if_pos (by omega)]
    rw [List.drop_drop, List.length_append, List.length_singleton, List.drop_append_of_le_length (by omega)]
    congr 2
    omega
  · rw [if_neg (by omega)]
    have h1 : L.length - h.limit = 0 := by omega
    have h2 : (L ++ [e]).length - h.limit = 0 := by simp; omega
    rw [h1, h2]; rfl

/-! ### one publication and one store -/

theorem histEntryOf_eq_retainedEntry (p : Publication) (s : Sub) (now : Nat) :
    histEntryOf p s s.isPattern now = retainedEntry s now p := by
  unfold histEntryOf retainedEntry eventDetails
  cases s.isPattern <;> rfl

theorem matching_eq (b : Broker) (topic : String) :
    b.matching topic =
      (b.subs.filter (fun s => s.kind == .exact && s.topic == topic) ++
       b.subs.filter (fun s => s.kind == .pfx && prefixMatch topic s.topic) ++
       b.subs.filter (fun s => s.kind == .wild && wildcardMatch topic s.topic)).map (fun s => (s, s.isPattern)) := by
  unfold Broker.matching
  simp only [List.map_append]
  congr 1
  congr 1
  all_goals
    apply List.map_congr_left
    intro s hs
    have := (List.mem_filter.mp hs).2
    simp only [Bool.and_eq_true, beq_iff_eq] at this
    have e : s.isPattern = (s.kind != .exact) := rfl
    rw [e, this.1]
    rfl

theorem histUpd1_other (now : Nat) (p : Publication) (h : Hist) (x : Sub × Bool) (hne : x.1.id ≠ h.sub) :
    histUpd1 now p h x = h := by
  unfold histUpd1
  have : (h.sub == x.1.id) = false := by simp [Ne.symm hne]
  simp [this]

theorem histUpd1_sub (now : Nat) (p : Publication) (h : Hist) (x : Sub × Bool) : (histUpd1 now p h x).sub = h.sub := by
  unfold histUpd1; split <;> rfl

theorem foldl_filter_unique (now : Nat) (p : Publication) (q : Sub → Bool) (s : Sub) :
    ∀ (l : List Sub) (h : Hist), (l.map (·.id)).Nodup → s ∈ l → h.sub = s.id →
      ((l.filter q).map (fun t => (t, t.isPattern))).foldl (histUpd1 now p) h =
        if q s then histUpd1 now p h (s, s.isPattern) else h
  | [], _, _, hs, _ => by simp at hs
  | a :: l, h, hn, hs, hh => by
    simp only [List.map_cons, List.nodup_cons, List.mem_map, not_exists, not_and] at hn
    have hnone : ∀ (l' : List Sub) (h' : Hist), (∀ t ∈ l', t.id ≠ h'.sub) →
        (l'.map (fun t => (t, t.isPattern))).foldl (histUpd1 now p) h' = h' := by
      intro l'
      induction l' with
      | nil => intros; rfl
      | cons t l' ih =>
        intro h' hall
        simp only [List.map_cons, List.foldl_cons]
        rw [histUpd1_other now p h' _ (hall t (List.mem_cons_self ..))]
        exact ih h' (fun t' ht' => hall t' (List.mem_cons_of_mem _ ht'))
    rcases List.mem_cons.mp hs with rfl | hs'
    · rw [List.filter_cons]
      by_cases hq : q s = true
      · rw [if_pos hq, if_pos hq]
        simp only [List.map_cons, List.foldl_cons]
        apply hnone
        intro t ht
        rw [histUpd1_sub, hh]
        exact fun he => hn.1 t (List.mem_filter.mp ht).1 he
      · rw [if_neg hq, if_neg hq]
        apply hnone
        intro t ht
        rw [hh]
        exact fun he => hn.1 t (List.mem_filter.mp ht).1 he
    · have ha : a.id ≠ h.sub := by rw [hh]; exact fun he => hn.1 s hs' he.symm
      rw [List.filter_cons]
      split
      · simp only [List.map_cons, List.foldl_cons]
        rw [histUpd1_other now p h _ ha]
        exact foldl_filter_unique now p q s l h hn.2 hs' hh
      · exact foldl_filter_unique now p q s l h hn.2 hs' hh

/-- What one publication does to the store of subscription `s`. -/
theorem matching_foldl_store {b : Broker} (hb : BrokerInv b) (now : Nat) (p : Publication) {s : Sub}
    (hs : s ∈ b.subs) (h : Hist) (hh : h.sub = s.id) :
    (b.matching p.topic).foldl (histUpd1 now p) h =
      if s.matchesTopic p.topic = true ∧ p.unrestricted = true
      then h.save (retainedEntry s now p) else h := by
  rw [matching_eq]
  simp only [List.map_append, List.foldl_append]
  rw [foldl_filter_unique now p _ s b.subs h hb.ids_nodup hs hh]
  have key : ∀ h' : Hist, h'.sub = s.id → histUpd1 now p h' (s, s.isPattern) =
      if p.unrestricted = true then h'.save (retainedEntry s now p) else h' := by
    intro h' hh'
    unfold histUpd1
    simp only [hh', beq_self_eq_true, Bool.and_true, histEntryOf_eq_retainedEntry]
  unfold Sub.matchesTopic
  cases hk : s.kind
  · -- exact
    simp only [beq_self_eq_true, Bool.true_and]
    by_cases hq : (s.topic == p.topic) = true
    · rw [if_pos hq]
      have hsub : (histUpd1 now p h (s, s.isPattern)).sub = s.id := by rw [histUpd1_sub]; exact hh
      rw [foldl_filter_unique now p _ s b.subs _ hb.ids_nodup hs hsub, hk]
      rw [if_neg (by simp)]
      rw [foldl_filter_unique now p _ s b.subs _ hb.ids_nodup hs hsub, hk]
      rw [if_neg (by simp), key h hh]
      by_cases hu : p.unrestricted = true <;> simp [hu, hq]
    · rw [if_neg hq]
      rw [foldl_filter_unique now p _ s b.subs _ hb.ids_nodup hs hh, hk]
      rw [if_neg (by simp)]
      rw [foldl_filter_unique now p _ s b.subs _ hb.ids_nodup hs hh, hk]
      rw [if_neg (by simp)]
      simp [hq]
  · -- prefix
    rw [if_neg (by simp)]
    rw [foldl_filter_unique now p _ s b.subs _ hb.ids_nodup hs hh, hk]
    simp only [beq_self_eq_true, Bool.true_and]
    by_cases hq : prefixMatch p.topic s.topic = true
    · rw [if_pos hq]
      have hsub : (histUpd1 now p h (s, s.isPattern)).sub = s.id := by rw [histUpd1_sub]; exact hh
      rw [foldl_filter_unique now p _ s b.subs _ hb.ids_nodup hs hsub, hk]
      rw [if_neg (by simp), key h hh]
      by_cases hu : p.unrestricted = true <;> simp [hu, hq]
    · rw [if_neg hq]
      rw [foldl_filter_unique now p _ s b.subs _ hb.ids_nodup hs hh, hk]
      rw [if_neg (by simp)]
      simp [hq]
  · -- wildcard
    rw [if_neg (by simp)]
    rw [foldl_filter_unique now p _ s b.subs _ hb.ids_nodup hs hh, hk]
    rw [if_neg (by simp)]
    rw [foldl_filter_unique now p _ s b.subs _ hb.ids_nodup hs hh, hk]
    simp only [beq_self_eq_true, Bool.true_and]
    by_cases hq : wildcardMatch p.topic s.topic = true
    · rw [if_pos hq, key h hh]
      by_cases hu : p.unrestricted = true <;> simp [hu, hq]
    · rw [if_neg hq]; simp [hq]


/-! ### every step: stores are only appended to, their subscriptions stay -/

theorem syncSubscribe_hist (b : Broker) (k : SessKey) (req : Nat) (topic m : String) (pub0 : Nat) :
    (b.syncSubscribe k req topic m pub0).1.hist = b.hist := by
  unfold Broker.syncSubscribe
  cases b.findTopic topic (matchKind m) with
  | none => rfl
  | some sub =>
    simp only
    split <;> rfl

theorem syncUnsubscribe_hist {b : Broker} (hb : BrokerInv b) (k : SessKey) (req subId pub0 : Nat) :
    (b.syncUnsubscribe k req subId pub0).1.hist = b.hist := by
  by_cases h : ∃ sub, b.findId subId = some sub ∧ k ∈ sub.members
  · obtain ⟨sub, hf, hk⟩ := h
    exact (syncUnsubscribe_state hb.ids_nodup k req subId pub0 hf hk).2.1
  · rw [syncUnsubscribe_err_state]
    intro sub hf hk; exact h ⟨sub, hf, hk⟩

theorem step_hist_nonpublish {b : Broker} (hb : BrokerInv b) (e : BStep)
    (hne : ∀ sess now p, e ≠ .publish sess now p) : (b.step e).hist = b.hist := by
  cases e with
  | publish sess now p => exact absurd rfl (hne sess now p)
  | subscribe k req topic m pub0 => exact syncSubscribe_hist b k req topic m pub0
  | unsubscribe k req subId pub0 => exact syncUnsubscribe_hist hb k req subId pub0
  | removeSession k pub0 =>
    obtain ⟨_, _, _, h, _⟩ := syncRemoveSession_state hb k pub0
    exact h

theorem step_subs_origin {b : Broker} (hb : BrokerInv b) (e : BStep) :
    ∀ s' ∈ (b.step e).subs,
      (∃ s ∈ b.subs, s'.id = s.id ∧ s'.topic = s.topic ∧ s'.«match» = s.«match») ∨ b.nextSub < s'.id := by
  intro s' hs'
  cases e with
  | publish sess now p =>
    have : (b.step (.publish sess now p)).subs = b.subs := (syncPublish_subs b sess now p).1
    rw [this] at hs'
    exact Or.inl ⟨s', hs', rfl, rfl, rfl⟩
  | subscribe k req topic m pub0 =>
    simp only [Broker.step] at hs'
    unfold Broker.syncSubscribe at hs'
    cases hf : b.findTopic topic (matchKind m) with
    | none =>
      rw [hf] at hs'
      simp only [List.mem_append, List.mem_singleton] at hs'
      rcases hs' with h | rfl
      · exact Or.inl ⟨s', h, rfl, rfl, rfl⟩
      · right; simp
    | some sub =>
      rw [hf] at hs'
      simp only at hs'
      obtain ⟨hsub, _, _⟩ := findTopic_some hf
      split at hs'
      · exact Or.inl ⟨s', hs', rfl, rfl, rfl⟩
      · simp only [Broker.setSub, List.mem_map] at hs'
        obtain ⟨x, hx, rfl⟩ := hs'
        by_cases h : x.id = sub.id
        · left; exact ⟨sub, hsub, by simp [h], by simp [h], by simp [h]⟩
        · left; exact ⟨x, hx, by simp [h], by simp [h], by simp [h]⟩
  | unsubscribe k req subId pub0 =>
    simp only [Broker.step] at hs'
    by_cases h : ∃ sub, b.findId subId = some sub ∧ k ∈ sub.members
    · obtain ⟨sub, hf, hk⟩ := h
      exact Or.inl (subs_stripped (syncUnsubscribe_state hb.ids_nodup k req subId pub0 hf hk).1 s' hs')
    · rw [syncUnsubscribe_err_state] at hs'
      · exact Or.inl ⟨s', hs', rfl, rfl, rfl⟩
      · intro sub hf hk; exact h ⟨sub, hf, hk⟩
  | removeSession k pub0 =>
    simp only [Broker.step] at hs'
    obtain ⟨_, _, h1, _, _⟩ := syncRemoveSession_state hb k pub0
    exact Or.inl (subs_stripped h1 s' hs')

/-- The subscription of a store survives every step with its id, topic and policy. -/
theorem step_store_sub {b : Broker} (hb : BrokerInv b) (e : BStep) {h : Hist}
    {s : Sub} (hs : s ∈ b.subs) (hid : s.id = h.sub) {h' : Hist} (hh' : h' ∈ (b.step e).hist) (hsub : h'.sub = h.sub) :
    ∃ s' ∈ (b.step e).subs, s'.id = s.id ∧ s'.topic = s.topic ∧ s'.«match» = s.«match» := by
  obtain ⟨s', hs', hid'⟩ := (hb.step e).hist_sub h' hh'
  refine ⟨s', hs', by rw [hid', hsub, hid], ?_⟩
  rcases step_subs_origin hb e s' hs' with ⟨s'', hs'', h1, h2, h3⟩ | hfresh
  · have : s'' = s := eq_of_id_eq hb.ids_nodup hs'' hs (by rw [← h1, hid', hsub, hid])
    subst this
    exact ⟨h2, h3⟩
  · have := (hb.ids_pos s hs).2
    rw [hid', hsub, ← hid] at hfresh
    omega

theorem retained_cons (s : Sub) (e : BStep) (rest : List BStep) :
    retained s (e :: rest) = retained s [e] ++ retained s rest := by
  cases e with
  | publish sess now p =>
    simp only [retained]
    split <;> simp
  | _ => simp [retained]

theorem retained_congr {s s' : Sub} (h1 : s'.id = s.id) (h2 : s'.topic = s.topic) (h3 : s'.«match» = s.«match») :
    retained s' = retained s := by
  have : s' = { s with members := s'.members } := by
    cases s'; cases s; simp_all
  funext steps
  rw [this]
  induction steps with
  | nil => rfl
  | cons e rest ih =>
    cases e with
    | publish sess now p =>
      simp only [retained]
      rw [ih]
      rfl
    | _ => simp only [retained]; exact ih

/-- One step and one store. -/
theorem step_store {b : Broker} (hb : BrokerInv b) (e : BStep) {h : Hist} (hh : h ∈ b.hist)
    {s : Sub} (hs : s ∈ b.subs) (hid : s.id = h.sub) (hl : 0 < h.limit) (L : List HistEntry)
    (he : h.entries = lastN h.limit L) :
    ∃ h' ∈ (b.step e).hist, h'.sub = h.sub ∧ h'.limit = h.limit ∧
      h'.entries = lastN h.limit (L ++ retained s [e]) ∧
      ∃ s' ∈ (b.step e).subs, s'.id = s.id ∧ s'.topic = s.topic ∧ s'.«match» = s.«match» := by
  cases e with
  | publish sess now p =>
    have hhist : (b.step (.publish sess now p)).hist =
        b.hist.map (fun h => (b.matching p.topic).foldl (histUpd1 now p) h) := syncPublish_hist b sess now p
    have hh' : (b.matching p.topic).foldl (histUpd1 now p) h ∈ (b.step (.publish sess now p)).hist := by
      rw [hhist]; exact List.mem_map.mpr ⟨h, hh, rfl⟩
    refine ⟨_, hh', ?_, ?_, ?_, ?_⟩
    · exact (histUpd_foldl_inv now p _ h).1
    · exact (histUpd_foldl_inv now p _ h).2.1
    · rw [matching_foldl_store hb now p hs h hid.symm]
      simp only [retained]
      have hu : p.unrestricted = (!p.opts.contains "exclude" && !p.opts.contains "eligible") := rfl
      by_cases hc : s.matchesTopic p.topic = true ∧ p.unrestricted = true
      · rw [if_pos hc]
        have : (s.matchesTopic p.topic && !p.opts.contains "exclude" && !p.opts.contains "eligible") = true := by
          rw [Bool.and_assoc, ← hu, hc.1, hc.2]; rfl
        rw [if_pos this]
        exact save_lastN h L _ hl he
      · rw [if_neg hc]
        have : ¬ (s.matchesTopic p.topic && !p.opts.contains "exclude" && !p.opts.contains "eligible") = true := by
          rw [Bool.and_assoc, ← hu]
          simpa using hc
        rw [if_neg this, List.append_nil]
        exact he
    · exact step_store_sub hb _ hs hid hh' (histUpd_foldl_inv now p _ h).1
  | subscribe k req topic m pub0 =>
    have hhist := step_hist_nonpublish hb (.subscribe k req topic m pub0) (by intros; simp)
    have hh' : h ∈ (b.step (.subscribe k req topic m pub0)).hist := by rw [hhist]; exact hh
    exact ⟨h, hh', rfl, rfl, by simpa [retained] using he, step_store_sub hb _ hs hid hh' rfl⟩
  | unsubscribe k req subId pub0 =>
    have hhist := step_hist_nonpublish hb (.unsubscribe k req subId pub0) (by intros; simp)
    have hh' : h ∈ (b.step (.unsubscribe k req subId pub0)).hist := by rw [hhist]; exact hh
    exact ⟨h, hh', rfl, rfl, by simpa [retained] using he, step_store_sub hb _ hs hid hh' rfl⟩
  | removeSession k pub0 =>
    have hhist := step_hist_nonpublish hb (.removeSession k pub0) (by intros; simp)
    have hh' : h ∈ (b.step (.removeSession k pub0)).hist := by rw [hhist]; exact hh
    exact ⟨h, hh', rfl, rfl, by simpa [retained] using he, step_store_sub hb _ hs hid hh' rfl⟩

/-- Retention over any sequence of steps, from any state satisfying the invariant. -/
theorem run_store (steps : List BStep) : ∀ {b : Broker}, BrokerInv b → ∀ {h : Hist}, h ∈ b.hist →
    ∀ {s : Sub}, s ∈ b.subs → s.id = h.sub → 0 < h.limit → ∀ (L : List HistEntry),
    h.entries = lastN h.limit L →
    ∃ h' ∈ (b.run steps).hist, h'.sub = h.sub ∧ h'.limit = h.limit ∧
      h'.entries = lastN h.limit (L ++ retained s steps) ∧
      ∃ s' ∈ (b.run steps).subs, s'.id = s.id ∧ s'.topic = s.topic ∧ s'.«match» = s.«match» := by
  induction steps with
  | nil =>
    intro b _ h hh s hs _ _ L he
    exact ⟨h, hh, rfl, rfl, by simpa [retained] using he, s, hs, rfl, rfl, rfl⟩
  | cons e rest ih =>
    intro b hb h hh s hs hid hl L he
    obtain ⟨h1, hh1, e1, e2, e3, s1, hs1, i1, i2, i3⟩ := step_store hb e hh hs hid hl L he
    have := ih (hb.step e) hh1 hs1 (by rw [i1, hid, e1]) (by rw [e2]; exact hl) (L ++ retained s [e])
      (by rw [e2]; exact e3)
    obtain ⟨h2, hh2, f1, f2, f3, s2, hs2, j1, j2, j3⟩ := this
    refine ⟨h2, hh2, f1.trans e1, f2.trans e2, ?_, s2, hs2, j1.trans i1, j2.trans i2, j3.trans i3⟩
    rw [f3, e2, retained_congr i1 i2 i3, retained_cons s e rest, List.append_assoc]


/-! ### the pre-initialised stores -/

theorem preInit_entries : ∀ (cfg : List (String × String × Nat)) (b : Broker),
    (∀ h ∈ b.hist, h.entries = []) → ∀ h ∈ (b.preInit cfg).hist, h.entries = []
  | [], b, hb => by simpa [Broker.preInit] using hb
  | (topic, m, limit) :: rest, b, hb => by
    unfold Broker.preInit
    cases hf : b.findTopic topic (matchKind m) with
    | none =>
      apply preInit_entries rest
      intro h hh
      rcases List.mem_append.mp hh with h1 | h1
      · exact hb h h1
      · simp at h1; subst h1; rfl
    | some sub =>
      apply preInit_entries rest
      intro h hh
      rcases List.mem_append.mp hh with h1 | h1
      · exact hb h (List.mem_filter.mp h1).1
      · simp at h1; subst h1; rfl

/-- A configured (topic, policy, limit) has its store and subscription after `preInit`, provided no
    LATER configuration entry names the same (topic, policy) (a later one replaces the store). -/
theorem preInit_configured : ∀ (cfg : List (String × String × Nat)) {b : Broker}, BrokerInv b →
    ∀ {h : Hist}, h ∈ b.hist → ∀ {s : Sub}, s ∈ b.subs → s.id = h.sub →
    (∀ c ∈ cfg, ¬(c.1 = s.topic ∧ matchKind c.2.1 = s.kind)) →
    h ∈ (b.preInit cfg).hist ∧ s ∈ (b.preInit cfg).subs
  | [], _, _, _, hh, _, hs, _, _ => by simpa [Broker.preInit] using ⟨hh, hs⟩
  | (topic, m, limit) :: rest, b, hb, h, hh, s, hs, hid, hno => by
    unfold Broker.preInit
    have hno' : ∀ c ∈ rest, ¬(c.1 = s.topic ∧ matchKind c.2.1 = s.kind) :=
      fun c hc => hno c (List.mem_cons_of_mem _ hc)
    have hthis := hno (topic, m, limit) (List.mem_cons_self ..)
    cases hf : b.findTopic topic (matchKind m) with
    | none =>
      exact preInit_configured rest (hb.preInit_step_new topic m limit hf)
        (List.mem_append_left _ hh) (List.mem_append_left _ hs) hid hno'
    | some sub =>
      obtain ⟨hsub, hk, ht⟩ := findTopic_some hf
      have hne : h.sub ≠ sub.id := by
        intro he
        have : s = sub := eq_of_id_eq hb.ids_nodup hs hsub (hid.trans he)
        subst this
        exact hthis ⟨ht.symm, hk.symm⟩
      refine preInit_configured rest (hb.preInit_step_old limit hsub)
        (List.mem_append_left _ (List.mem_filter.mpr ⟨hh, by simpa using hne⟩)) hs hid hno'

theorem preInit_has_store (strict allowDisclose : Bool) (pre post : List (String × String × Nat))
    (topic m : String) (limit : Nat)
    (hlast : ∀ c ∈ post, ¬(c.1 = topic ∧ matchKind c.2.1 = matchKind m)) :
    ∃ h ∈ (({ strict := strict, allowDisclose := allowDisclose } : Broker).preInit
              (pre ++ (topic, m, limit) :: post)).hist,
    ∃ s ∈ (({ strict := strict, allowDisclose := allowDisclose } : Broker).preInit
              (pre ++ (topic, m, limit) :: post)).subs,
      s.id = h.sub ∧ h.limit = limit ∧ h.entries = [] ∧ s.topic = topic ∧ s.kind = matchKind m := by
  have happ : ∀ (l1 l2 : List (String × String × Nat)) (b : Broker),
      b.preInit (l1 ++ l2) = (b.preInit l1).preInit l2 := by
    intro l1
    induction l1 with
    | nil => intros; rfl
    | cons c l1 ih =>
      intro l2 b
      obtain ⟨t, m', n⟩ := c
      simp only [List.cons_append, Broker.preInit]
      cases b.findTopic t (matchKind m') <;> exact ih _ _
  rw [happ]
  generalize hb1 : ({ strict := strict, allowDisclose := allowDisclose } : Broker).preInit pre = b1
  have hinv : BrokerInv b1 := hb1 ▸ BrokerInv.preInit strict allowDisclose pre
  unfold Broker.preInit
  cases hf : b1.findTopic topic (matchKind m) with
  | none =>
    have hinv2 := hinv.preInit_step_new topic m limit hf
    obtain ⟨a, c⟩ := preInit_configured post hinv2
      (h := { sub := b1.nextSub + 1, limit := limit, entries := [] })
      (List.mem_append_right _ (List.mem_singleton.mpr rfl))
      (s := { id := b1.nextSub + 1, topic := topic, «match» := m, members := [] })
      (List.mem_append_right _ (List.mem_singleton.mpr rfl)) rfl hlast
    exact ⟨_, a, _, c, rfl, rfl, rfl, rfl, rfl⟩
  | some sub =>
    obtain ⟨hsub, hk, ht⟩ := findTopic_some hf
    have hinv2 := hinv.preInit_step_old limit hsub
    obtain ⟨a, c⟩ := preInit_configured post hinv2
      (h := { sub := sub.id, limit := limit, entries := [] })
      (List.mem_append_right _ (List.mem_singleton.mpr rfl))
      (s := sub) hsub rfl (by rw [ht, hk]; exact hlast)
    exact ⟨_, a, _, c, rfl, rfl, rfl, ht, hk⟩

/-! ### C12: stored entries never reveal the publisher -/

/-- no stored entry carries a publisher key -/
def HistClean (b : Broker) : Prop :=
  ∀ h ∈ b.hist, ∀ e ∈ h.entries, ∀ key, isPublisherKey key → e.details.get? key = none

theorem foldl_histUpd1_entries (now : Nat) (p : Publication) (l : List (Sub × Bool)) (h : Hist) :
    ∀ e ∈ (l.foldl (histUpd1 now p) h).entries, e ∈ h.entries ∨ ∃ x ∈ l, e = histEntryOf p x.1 x.2 now := by
  induction l generalizing h with
  | nil => intro e he; exact Or.inl he
  | cons x l ih =>
    intro e he
    simp only [List.foldl_cons] at he
    rcases ih _ e he with h1 | ⟨y, hy, rfl⟩
    · unfold histUpd1 at h1
      split at h1
      · rw [Hist.save_entries] at h1
        rcases List.mem_append.mp h1 with h2 | h2
        · left; split at h2
          · exact List.mem_of_mem_drop h2
          · exact h2
        · right; exact ⟨x, List.mem_cons_self .., by simpa using h2⟩
      · exact Or.inl h1
    · right; exact ⟨y, List.mem_cons_of_mem _ hy, rfl⟩

theorem HistClean.step {b : Broker} (hb : BrokerInv b) (hc : HistClean b) (e : BStep)
    (hbase : ∀ sess now p, e = .publish sess now p → ∀ key, isPublisherKey key → p.baseDetails.get? key = none) :
    HistClean (b.step e) := by
  cases e with
  | publish sess now p =>
    intro h hh en hen key hkey
    have hhist : (b.step (.publish sess now p)).hist =
        b.hist.map (fun h => (b.matching p.topic).foldl (histUpd1 now p) h) := syncPublish_hist b sess now p
    rw [hhist] at hh
    obtain ⟨h0, hh0, rfl⟩ := List.mem_map.mp hh
    rcases foldl_histUpd1_entries now p _ h0 en hen with h1 | ⟨x, _, rfl⟩
    · exact hc h0 hh0 en h1 key hkey
    · exact eventDetails_get?_pubkey_none p x.2 none key hkey (hbase sess now p rfl key hkey) rfl
  | subscribe k req topic m pub0 =>
    unfold HistClean; rw [step_hist_nonpublish hb _ (by intros; simp)]; exact hc
  | unsubscribe k req subId pub0 =>
    unfold HistClean; rw [step_hist_nonpublish hb _ (by intros; simp)]; exact hc
  | removeSession k pub0 =>
    unfold HistClean; rw [step_hist_nonpublish hb _ (by intros; simp)]; exact hc

theorem HistClean.run (steps : List BStep) : ∀ {b : Broker}, BrokerInv b → HistClean b →
    (∀ sess now p, BStep.publish sess now p ∈ steps →
      ∀ key, isPublisherKey key → p.baseDetails.get? key = none) → HistClean (b.run steps) := by
  induction steps with
  | nil => intro b _ hc _; exact hc
  | cons e rest ih =>
    intro b hb hc hbase
    exact ih (hb.step e) (hc.step hb e (fun sess now p he => hbase sess now p (he ▸ List.mem_cons_self ..)))
      (fun sess now p hm => hbase sess now p (List.mem_cons_of_mem _ hm))

/-! ### misc -/

theorem hist_eq_of_sub_eq {l : List Hist} (hn : (l.map (·.sub)).Nodup) {a c : Hist}
    (ha : a ∈ l) (hc : c ∈ l) (h : a.sub = c.sub) : a = c := by
  induction l with
  | nil => simp at ha
  | cons x l ih =>
    simp only [List.map_cons, List.nodup_cons, List.mem_map, not_exists, not_and] at hn
    rcases List.mem_cons.mp ha with rfl | ha' <;> rcases List.mem_cons.mp hc with rfl | hc'
    · rfl
    · exact absurd h.symm (hn.1 c hc')
    · exact absurd h (hn.1 a ha')
    · exact ih hn.2 ha' hc'

/-- only the publish steps matter for what must be retained -/
theorem retained_filter_publish (s : Sub) (steps : List BStep) :
    retained s steps = retained s (steps.filter BStep.isPublish) := by
  induction steps with
  | nil => rfl
  | cons e rest ih =>
    cases e with
    | publish sess now p =>
      simp only [List.filter_cons, BStep.isPublish, if_true, retained]
      rw [ih]
    | _ => simp only [List.filter_cons, BStep.isPublish, retained]; exact ih

theorem retainedEntry_topic (s : Sub) (now : Nat) (p : Publication) :
    (retainedEntry s now p).details.get? "topic" =
      if s.isPattern then some (.str p.topic) else p.baseDetails.get? "topic" := by
  unfold retainedEntry
  cases s.isPattern <;> simp [Dict.get?_set]

end Nexus.L2
