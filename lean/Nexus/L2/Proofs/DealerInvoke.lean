/-
  The INVOCATION messages `syncCall` sends: which, to whom, with which fields (C03, C12, C13_forward).
-/
import Nexus.L2.Proofs.DealerReply

namespace Nexus.L2
open Gen.N

/-! ### details dictionaries -/

theorem Dict.dget?_set (d : Dict) (k k' : String) (v : WVal) :
    Dict.get? (Dict.set d k v) k' = if k = k' then some v else Dict.get? d k' := by
  by_cases h : k = k'
  · subst h; simp [Dict.get?_set_eq]
  · simp [h, Dict.get?_set_ne d v h]

theorem ddiscloseInto_get?_other (role : String) (sid : Nat) (pd d : Dict) {k : String} (h1 : k ≠ role)
    (h2 : k ≠ role ++ "_authid") (h3 : k ≠ role ++ "_authrole") :
    Dict.get? (discloseInto role sid pd d) k = Dict.get? d k := by
  unfold discloseInto
  simp only
  cases pd.get? "authrole" <;> cases pd.get? "authid" <;>
    simp only [Dict.get?_set_ne _ _ (Ne.symm h1), Dict.get?_set_ne _ _ (Ne.symm h2), Dict.get?_set_ne _ _ (Ne.symm h3)]

/-- the three details keys that carry the caller's identity -/
def identityKeys : List String := [RoleCaller, RoleCaller ++ "_authid", RoleCaller ++ "_authrole"]

theorem identityKeys_eq : identityKeys = ["caller", "caller_authid", "caller_authrole"] := by decide

/-- was the caller disclosed in the INVOCATION details built by `syncCall` -/
def disclosed (env : DEnv) (reg : Reg) (callee : SessKey) (opts : Dict) : Bool :=
  reg.disclose || (opts.optFlag OptDiscloseMe && hasFeat env callee RoleCallee FeatureCallerIdent)

/-- the details before the caller's identity is (or is not) added -/
def baseDetails (opts : Dict) : Dict :=
  if pptScheme opts != "" then pptInto opts [(OptProgress, .bool (opts.optFlag OptProgress))]
  else [(OptProgress, .bool (opts.optFlag OptProgress))]

theorem baseDetails_get? (opts : Dict) {k : String} (h0 : k ≠ OptProgress) (h1 : k ≠ OptPPTScheme)
    (h2 : k ≠ OptPPTSerializer) (h3 : k ≠ OptPPTCipher) (h4 : k ≠ OptPPTKeyId) : Dict.get? (baseDetails opts) k = none := by
  unfold baseDetails
  split
  · rw [pptInto_get?_of_ne _ _ h1 h2 h3 h4]; simp [Dict.get?, Ne.symm h0]
  · simp [Dict.get?, Ne.symm h0]

/-- `invDetails` step by step -/
theorem invDetails_eq (env : DEnv) (reg : Reg) (caller callee : SessKey) (opts : Dict) (proc : String) :
    invDetails env reg caller callee opts proc =
      let d1 := if disclosed env reg callee opts then discloseCaller env caller (baseDetails opts) else baseDetails opts
      let d2 := if opts.optFlag OptReceiveProgress && hasFeat env callee RoleCallee FeatureProgCallResults &&
                   hasFeat env callee RoleCallee FeatureCallCanceling
                then Dict.set d1 OptReceiveProgress (.bool true) else d1
      let d3 := if reg.«match» != MatchExact then Dict.set d2 OptProcedure (.str proc) else d2
      if optTimeout opts > 0 && forwardsTimeout env reg callee then Dict.set d3 OptTimeout (.int (optTimeout opts)) else d3 := by
  unfold invDetails disclosed baseDetails
  simp only
  cases reg.disclose <;> cases (opts.optFlag OptDiscloseMe && hasFeat env callee RoleCallee FeatureCallerIdent) <;> rfl

/-- reading a key of the INVOCATION details that is none of the optional ones -/
theorem invDetails_get?_identity (env : DEnv) (reg : Reg) (caller callee : SessKey) (opts : Dict) (proc : String)
    {k : String} (hk : k ∈ identityKeys) :
    Dict.get? (invDetails env reg caller callee opts proc) k =
      if disclosed env reg callee opts then Dict.get? (discloseCaller env caller (baseDetails opts)) k else none := by
  rw [invDetails_eq]
  simp only
  have hne : k ≠ OptTimeout ∧ k ≠ OptProcedure ∧ k ≠ OptReceiveProgress ∧ k ≠ OptProgress ∧ k ≠ OptPPTScheme ∧
      k ≠ OptPPTSerializer ∧ k ≠ OptPPTCipher ∧ k ≠ OptPPTKeyId := by
    rw [identityKeys_eq] at hk
    simp only [List.mem_cons, List.not_mem_nil, or_false] at hk
    rcases hk with rfl | rfl | rfl <;> decide
  obtain ⟨n1, n2, n3, n4, n5, n6, n7, n8⟩ := hne
  have s1 : ∀ (c : Bool) (d : Dict) (v : WVal), Dict.get? (if c then Dict.set d OptTimeout v else d) k = Dict.get? d k := by
    intro c d v; cases c
    · rfl
    · exact Dict.get?_set_ne _ _ (Ne.symm n1)
  have s2 : ∀ (c : Bool) (d : Dict) (v : WVal), Dict.get? (if c then Dict.set d OptProcedure v else d) k = Dict.get? d k := by
    intro c d v; cases c
    · rfl
    · exact Dict.get?_set_ne _ _ (Ne.symm n2)
  have s3 : ∀ (c : Bool) (d : Dict) (v : WVal), Dict.get? (if c then Dict.set d OptReceiveProgress v else d) k = Dict.get? d k := by
    intro c d v; cases c
    · rfl
    · exact Dict.get?_set_ne _ _ (Ne.symm n3)
  rw [s1, s2, s3]
  split
  · rfl
  · exact baseDetails_get? opts n4 n5 n6 n7 n8

theorem discloseCaller_get?_opt (env : DEnv) (caller : SessKey) (d : Dict) {k : String}
    (h1 : k ≠ RoleCaller) (h2 : k ≠ RoleCaller ++ "_authid") (h3 : k ≠ RoleCaller ++ "_authrole") :
    Dict.get? (discloseCaller env caller d) k = Dict.get? d k :=
  ddiscloseInto_get?_other _ _ _ _ h1 h2 h3

/-- `timeout` in the INVOCATION details: present iff the CALL has a positive timeout that is forwarded -/
theorem invDetails_get?_timeout (env : DEnv) (reg : Reg) (caller callee : SessKey) (opts : Dict) (proc : String) :
    Dict.get? (invDetails env reg caller callee opts proc) OptTimeout =
      if optTimeout opts > 0 && forwardsTimeout env reg callee then some (.int (optTimeout opts)) else none := by
  rw [invDetails_eq]
  simp only
  split
  · exact Dict.get?_set_eq _ _ _
  · have s2 : ∀ (c : Bool) (d : Dict) (v : WVal), Dict.get? (if c then Dict.set d OptProcedure v else d) OptTimeout = Dict.get? d OptTimeout := by
      intro c d v; cases c
      · rfl
      · exact Dict.get?_set_ne _ _ (by decide)
    have s3 : ∀ (c : Bool) (d : Dict) (v : WVal), Dict.get? (if c then Dict.set d OptReceiveProgress v else d) OptTimeout = Dict.get? d OptTimeout := by
      intro c d v; cases c
      · rfl
      · exact Dict.get?_set_ne _ _ (by decide)
    rw [s2, s3]
    have hb := baseDetails_get? opts (k := OptTimeout) (by decide) (by decide) (by decide) (by decide) (by decide)
    split
    · rw [discloseCaller_get?_opt env caller _ (by decide) (by decide) (by decide)]; exact hb
    · exact hb

/-- `procedure` in the INVOCATION details: present (the called URI) iff the registration's match is not "exact" -/
theorem invDetails_get?_procedure (env : DEnv) (reg : Reg) (caller callee : SessKey) (opts : Dict) (proc : String) :
    Dict.get? (invDetails env reg caller callee opts proc) OptProcedure =
      if reg.«match» != MatchExact then some (.str proc) else none := by
  rw [invDetails_eq]
  simp only
  have s1 : ∀ (c : Bool) (d : Dict) (v : WVal), Dict.get? (if c then Dict.set d OptTimeout v else d) OptProcedure = Dict.get? d OptProcedure := by
    intro c d v; cases c
    · rfl
    · exact Dict.get?_set_ne _ _ (by decide)
  rw [s1]
  split
  · exact Dict.get?_set_eq _ _ _
  · have s3 : ∀ (c : Bool) (d : Dict) (v : WVal), Dict.get? (if c then Dict.set d OptReceiveProgress v else d) OptProcedure = Dict.get? d OptProcedure := by
      intro c d v; cases c
      · rfl
      · exact Dict.get?_set_ne _ _ (by decide)
    rw [s3]
    have hb := baseDetails_get? opts (k := OptProcedure) (by decide) (by decide) (by decide) (by decide) (by decide)
    split
    · rw [discloseCaller_get?_opt env caller _ (by decide) (by decide) (by decide)]; exact hb
    · exact hb

/-- `receive_progress` in the INVOCATION details: `true` iff the caller asked and the callee announced
    progressive call results and call canceling -/
theorem invDetails_get?_receive_progress (env : DEnv) (reg : Reg) (caller callee : SessKey) (opts : Dict) (proc : String) :
    Dict.get? (invDetails env reg caller callee opts proc) OptReceiveProgress =
      if opts.optFlag OptReceiveProgress && hasFeat env callee RoleCallee FeatureProgCallResults &&
         hasFeat env callee RoleCallee FeatureCallCanceling then some (.bool true) else none := by
  rw [invDetails_eq]
  simp only
  have s1 : ∀ (c : Bool) (d : Dict) (v : WVal), Dict.get? (if c then Dict.set d OptTimeout v else d) OptReceiveProgress = Dict.get? d OptReceiveProgress := by
    intro c d v; cases c
    · rfl
    · exact Dict.get?_set_ne _ _ (by decide)
  have s2 : ∀ (c : Bool) (d : Dict) (v : WVal), Dict.get? (if c then Dict.set d OptProcedure v else d) OptReceiveProgress = Dict.get? d OptReceiveProgress := by
    intro c d v; cases c
    · rfl
    · exact Dict.get?_set_ne _ _ (by decide)
  rw [s1, s2]
  split
  · exact Dict.get?_set_eq _ _ _
  · have hb := baseDetails_get? opts (k := OptReceiveProgress) (by decide) (by decide) (by decide) (by decide) (by decide)
    split
    · rw [discloseCaller_get?_opt env caller _ (by decide) (by decide) (by decide)]; exact hb
    · exact hb

/-! ### the INVOCATION of a CALL -/

def Msg.isInvocation : Msg → Bool
  | .invocation .. => true
  | _ => false

@[simp] theorem callErr_not_inv (c : ReqId) (d : Dict) (e : String) (a : List WVal) (k : Dict) :
    (callErr c d e a k).msg.isInvocation = false := rfl
@[simp] theorem interruptOf_not_inv (v : Invk) (i : ReqId) (m r : String) : (interruptOf v i m r).msg.isInvocation = false := rfl

/-- What an INVOCATION sent by `syncCall` for the CALL (caller, req, opts, proc, args, kw) looks like. -/
inductive InvocationOf (env : DEnv) (s : DState) (caller : SessKey) (req : Nat) (opts : Dict) (proc : String)
    (args : List WVal) (kw : Dict) (rnd : Nat) : Send → Prop
  /-- first (or only) chunk: a callee of the best-matching registration chosen by its policy, a fresh
      invocation id, the registration's id, details built for this callee, payload unchanged -/
  | first (reg reg' : Reg) (callee : SessKey) (hm : s.d.matchProcedure proc = some reg)
      (hb : s.d.byCall? ⟨caller, req⟩ = none) (hp : pickCallee reg rnd = some (callee, reg'))
      (hr : callRefusal env s.d.allowDisclose reg caller callee opts = none) (hf : env.full callee = false) :
      InvocationOf env s caller req opts proc args kw rnd
        ⟨callee, .invocation (genOf s.invGen callee + 1) reg.id (invDetails env reg caller callee opts proc) args kw⟩
  /-- later chunk of a pending progressive call: the stored callee, invocation id and registration id (the chunk's
      URI plays no role) -/
  | later (iid : ReqId) (v0 : Invk) (hb : s.d.byCall? ⟨caller, req⟩ = some iid) (hfi : s.d.findInv iid = some v0)
      (hf : env.full v0.callee = false) :
      InvocationOf env s caller req opts proc args kw rnd
        ⟨v0.callee, .invocation iid.req v0.regId [(OptProgress, .bool (opts.optFlag OptProgress))] args kw⟩

theorem syncCancel_no_invocation (env : DEnv) (s : DState) (caller : SessKey) (req : Nat) (mode reason : String)
    (errArgs : List WVal) : ∀ x ∈ (syncCancel env s caller req mode reason errArgs).sends, x.msg.isInvocation = false := by
  unfold syncCancel
  simp only
  split
  · simp
  · split
    · simp
    · split
      · simp
      · split
        · simp
        · rename_i i _ _ v _ _
          show ∀ x ∈ (cancelOut env s caller req mode reason errArgs i v).sends, _
          rw [cancelOut_eq]
          split
          · split <;> simp
          · simp

/-- A CALL yields at most one INVOCATION, and if it sends one, that is the only message of the step and it
    has one of the two forms of `InvocationOf`. -/
theorem syncCall_invocations {env : DEnv} {s : DState} (h : DealerInv s) (caller : SessKey) (req : Nat) (opts : Dict)
    (proc : String) (args : List WVal) (kw : Dict) (rnd : Nat) (x : Send)
    (hx : x ∈ (syncCall env s caller req opts proc args kw rnd).sends) (hi : x.msg.isInvocation = true) :
    (syncCall env s caller req opts proc args kw rnd).sends = [x] ∧
      InvocationOf env s caller req opts proc args kw rnd x := by
  revert hx
  refine syncCall_cases (env := env)
    (P := fun o => x ∈ o.sends → o.sends = [x] ∧ InvocationOf env s caller req opts proc args kw rnd x)
    h caller req opts proc args kw rnd ?_ ?_ ?_ ?_ ?_ ?_ ?_ ?_
  · intro _ hx
    simp only [progressAbort, List.mem_singleton] at hx; subst hx; cases hi
  · intro iid v0 hb hfi _ _ _ _ hf hx
    simp only [List.mem_singleton] at hx; subst hx
    exact ⟨rfl, .later iid v0 hb hfi hf⟩
  · intro iid v0 _ _ _ _ _ _ _ hx
    simp only [fullOut, List.mem_singleton] at hx; subst hx; cases hi
  · intro _ _ _ hx
    simp only [List.mem_singleton] at hx; subst hx; cases hi
  · intro reg reg' callee e _ _ _ _ _ _ _ hx
    simp only [List.mem_singleton] at hx; subst hx; cases hi
  · intro reg reg' callee _ _ _ _ _ _ _ hx
    simp only [List.mem_singleton] at hx; subst hx; cases hi
  · intro reg reg' callee hb _ hm _ hp _ hr hf hx
    simp only [List.mem_singleton] at hx; subst hx
    exact ⟨rfl, .first reg reg' callee hm hb hp hr hf⟩
  · intro reg reg' callee _ _ _ _ _ _ _ _ hx
    simp only [fullOut, List.mem_singleton] at hx; subst hx; cases hi

end Nexus.L2
