/-
  The INVOCATION messages `syncCall` sends: which, to whom, with which fields (C03, C12, C13_forward).
-/
import Nexus.L2.Proofs.DealerReply

namespace Nexus.L2
open Gen.N

/-! ### details dictionaries -/

theorem Dealer.dictGet?_set (d : Dict) (k k' : String) (v : WVal) :
    Dict.get? (Dict.set d k v) k' = if k = k' then some v else Dict.get? d k' := by
  by_cases h : k = k'
  · subst h; simp [Dict.get?_set_eq]
  · simp [h, Dict.get?_set_ne d v h]

theorem Dealer.discloseInto_get?_other (role : String) (sid : Nat) (pd d : Dict) {k : String} (h1 : k ≠ role)
    (h2 : k ≠ role ++ "_authid") (h3 : k ≠ role ++ "_authrole") :
    Dict.get? (discloseInto role sid pd d) k = Dict.get? d k := by
  unfold discloseInto
  simp only
  cases pd.get? "authrole" <;> cases pd.get? "authid" <;>
    simp only [Dict.get?_set_ne _ _ (Ne.symm h1), Dict.get?_set_ne _ _ (Ne.symm h2), Dict.get?_set_ne _ _ (Ne.symm h3)]

/-- the three details keys that carry the caller's identity -/
def identityKeys : List String := [RoleCaller, RoleCaller ++ "_authid", RoleCaller ++ "_authrole"]

theorem identityKeys_eq : identityKeys = ["caller", "caller_authid", "caller_authrole"] := by decide

/-- was the caller disclosed in the INVOCATION details built by `syncCall` -/
def disclosed (env : DEnv) (reg : Reg) (callee : SessKey) (opts : Dict) : Bool :=
  reg.disclose || (opts.optFlag OptDiscloseMe && hasFeat env callee RoleCallee FeatureCallerIdent)

/-- the details before the caller's identity is (or is not) added -/
def baseDetails (opts : Dict) : Dict :=
  if pptScheme opts != "" then pptInto opts [(OptProgress, .bool (opts.optFlag OptProgress))]
  else [(OptProgress, .bool (opts.optFlag OptProgress))]

theorem baseDetails_get? (opts : Dict) {k : String} (h0 : k ≠ OptProgress) (h1 : k ≠ OptPPTScheme)
    (h2 : k ≠ OptPPTSerializer) (h3 : k ≠ OptPPTCipher) (h4 : k ≠ OptPPTKeyId) : Dict.get? (baseDetails opts) k = none := by
  unfold baseDetails
  split
  · rw [pptInto_get?_of_ne _ _ h1 h2 h3 h4]; simp [Dict.get?, Ne.symm h0]
  · simp [Dict.get?, Ne.symm h0]

/-- `invDetails` step by step -/
theorem invDetails_eq (env : DEnv) (reg : Reg) (caller callee : SessKey) (opts : Dict) (proc : String) :
    invDetails env reg caller callee opts proc =
      let d1 := if disclosed env reg callee opts then discloseCaller env caller (baseDetails opts) else baseDetails opts
      let d2 := if opts.optFlag OptReceiveProgress && hasFeat env callee RoleCallee FeatureProgCallResults &&
                   hasFeat env callee RoleCallee FeatureCallCanceling
                then Dict.set d1 OptReceiveProgress (.bool true) else d1
      let d3 := if reg.«match» != MatchExact then Dict.set d2 OptProcedure (.str proc) else d2
      if optTimeout opts > 0 && forwardsTimeout env reg callee then Dict.set d3 OptTimeout (.int (optTimeout opts)) else d3 := by
  unfold invDetails disclosed baseDetails
  simp only
  cases reg.disclose <;> cases (opts.optFlag OptDiscloseMe && hasFeat env callee RoleCallee FeatureCallerIdent) <;> rfl

/-- reading a key of the INVOCATION details that is none of the optional ones -/
theorem invDetails_get?_identity (env : DEnv) (reg : Reg) (caller callee : SessKey) (opts : Dict) (proc : String)
    {k : String} (hk : k ∈ identityKeys) :
    Dict.get? (invDetails env reg caller callee opts proc) k =
      if disclosed env reg callee opts then Dict.get? (discloseCaller env caller (baseDetails opts)) k else none := by
  rw [invDetails_eq]
  simp only
  have hne : k ≠ OptTimeout ∧ k ≠ OptProcedure ∧ k ≠ OptReceiveProgress ∧ k ≠ OptProgress ∧ k ≠ OptPPTScheme ∧
      k ≠ OptPPTSerializer ∧ k ≠ OptPPTCipher ∧ k ≠ OptPPTKeyId := by
    rw [identityKeys_eq] at hk
    simp only [List.mem_cons, List.not_mem_nil, or_false] at hk
    rcases hk with rfl | rfl | rfl <;> decide
  obtain ⟨n1, n2, n3, n4, n5, n6, n7, n8⟩ := hne
  have s1 : ∀ (c : Bool) (d : Dict) (v : WVal), Dict.get? (if c then Dict.set d OptTimeout v else d) k = Dict.get? d k := by
    intro c d v; cases c
    · rfl
    · exact Dict.get?_set_ne _ _ (Ne.symm n1)
  have s2 : ∀ (c : Bool) (d : Dict) (v : WVal), Dict.get? (if c then Dict.set d OptProcedure v else d) k = Dict.get? d k := by
    intro c d v; cases c
    · rfl
    · exact Dict.get?_set_ne _ _ (Ne.symm n2)
  have s3 : ∀ (c : Bool) (d : Dict) (v : WVal), Dict.get? (if c then Dict.set d OptReceiveProgress v else d) k = Dict.get? d k := by
    intro c d v; cases c
    · rfl
    · exact Dict.get?_set_ne _ _ (Ne.symm n3)
  rw [s1, s2, s3]
  split
  · rfl
  · exact baseDetails_get? opts n4 n5 n6 n7 n8

theorem discloseCaller_get?_opt (env : DEnv) (caller : SessKey) (d : Dict) {k : String}
    (h1 : k ≠ RoleCaller) (h2 : k ≠ RoleCaller ++ "_authid") (h3 : k ≠ RoleCaller ++ "_authrole") :
    Dict.get? (discloseCaller env caller d) k = Dict.get? d k :=
  Dealer.discloseInto_get?_other _ _ _ _ h1 h2 h3

/-- `timeout` in the INVOCATION details: present iff the CALL has a positive timeout that is forwarded -/
theorem invDetails_get?_timeout (env : DEnv) (reg : Reg) (caller callee : SessKey) (opts : Dict) (proc : String) :
    Dict.get? (invDetails env reg caller callee opts proc) OptTimeout =
      if optTimeout opts > 0 && forwardsTimeout env reg callee then some (.int (optTimeout opts)) else none := by
  rw [invDetails_eq]
  simp only
  split
  · exact Dict.get?_set_eq _ _ _
  · have s2 : ∀ (c : Bool) (d : Dict) (v : WVal), Dict.get? (if c then Dict.set d OptProcedure v else d) OptTimeout = Dict.get? d OptTimeout := by
      intro c d v; cases c
      · rfl
      · exact Dict.get?_set_ne _ _ (by decide)
    have s3 : ∀ (c : Bool) (d : Dict) (v : WVal), Dict.get? (if c then Dict.set d OptReceiveProgress v else d) OptTimeout = Dict.get? d OptTimeout := by
      intro c d v; cases c
      · rfl
      · exact Dict.get?_set_ne _ _ (by decide)
    rw [s2, s3]
    have hb := baseDetails_get? opts (k := OptTimeout) (by decide) (by decide) (by decide) (by decide) (by decide)
    split
    · rw [discloseCaller_get?_opt env caller _ (by decide) (by decide) (by decide)]; exact hb
    · exact hb

/-- `procedure` in the INVOCATION details: present (the called URI) iff the registration's match is not "exact" -/
theorem invDetails_get?_procedure (env : DEnv) (reg : Reg) (caller callee : SessKey) (opts : Dict) (proc : String) :
    Dict.get? (invDetails env reg caller callee opts proc) OptProcedure =
      if reg.«match» != MatchExact then some (.str proc) else none := by
  rw [invDetails_eq]
  simp only
  have s1 : ∀ (c : Bool) (d : Dict) (v : WVal), Dict.get? (if c then Dict.set d OptTimeout v else d) OptProcedure = Dict.get? d OptProcedure := by
    intro c d v; cases c
    · rfl
    · exact Dict.get?_set_ne _ _ (by decide)
  rw [s1]
  split
  · exact Dict.get?_set_eq _ _ _
  · have s3 : ∀ (c : Bool) (d : Dict) (v : WVal), Dict.get? (if c then Dict.set d OptReceiveProgress v else d) OptProcedure = Dict.get? d OptProcedure := by
      intro c d v; cases c
      · rfl
      · exact Dict.get?_set_ne _ _ (by decide)
    rw [s3]
    have hb := baseDetails_get? opts (k := OptProcedure) (by decide) (by decide) (by decide) (by decide) (by decide)
    split
    · rw [discloseCaller_get?_opt env caller _ (by decide) (by decide) (by decide)]; exact hb
    · exact hb

/-- `receive_progress` in the INVOCATION details: `true` iff the caller asked and the callee announced
    progressive call results and call canceling -/
theorem invDetails_get?_receive_progress (env : DEnv) (reg : Reg) (caller callee : SessKey) (opts : Dict) (proc : String) :
    Dict.get? (invDetails env reg caller callee opts proc) OptReceiveProgress =
      if opts.optFlag OptReceiveProgress && hasFeat env callee RoleCallee FeatureProgCallResults &&
         hasFeat env callee RoleCallee FeatureCallCanceling then some (.bool true) else none := by
  rw [invDetails_eq]
  simp only
  have s1 : ∀ (c : Bool) (d : Dict) (v : WVal), Dict.get? (if c then Dict.set d OptTimeout v else d) OptReceiveProgress = Dict.get? d OptReceiveProgress := by
    intro c d v; cases c
    · rfl
    · exact Dict.get?_set_ne _ _ (by decide)
  have s2 : ∀ (c : Bool) (d : Dict) (v : WVal), Dict.get? (if c then Dict.set d OptProcedure v else d) OptReceiveProgress = Dict.get? d OptReceiveProgress := by
    intro c d v; cases c
    · rfl
    · exact Dict.get?_set_ne _ _ (by decide)
  rw [s1, s2]
  split
  · exact Dict.get?_set_eq _ _ _
  · have hb := baseDetails_get? opts (k := OptReceiveProgress) (by decide) (by decide) (by decide) (by decide) (by decide)
    split
    · rw [discloseCaller_get?_opt env caller _ (by decide) (by decide) (by decide)]; exact hb
    · exact hb

/-! ### the INVOCATION of a CALL -/

def Msg.isInvocation : Msg → Bool
  | .invocation .. => true
  | _ => false

@[simp] theorem callErr_not_inv (c : ReqId) (d : Dict) (e : String) (a : List WVal) (k : Dict) :
    (callErr c d e a k).msg.isInvocation = false := rfl
@[simp] theorem interruptOf_not_inv (v : Invk) (i : ReqId) (m r : String) : (interruptOf v i m r).msg.isInvocation = false := rfl

/-- What an INVOCATION sent by `syncCall` for the CALL (caller, req, opts, proc, args, kw) looks like. -/
inductive InvocationOf (env : DEnv) (s : DState) (caller : SessKey) (req : Nat) (opts : Dict) (proc : String)
    (args : List WVal) (kw : Dict) (rnd : Nat) : Send → Prop
  /-- first (or only) chunk: a callee of the best-matching registration chosen by its policy, a fresh
      invocation id, the registration's id, details built for this callee, payload unchanged -/
  | first (reg reg' : Reg) (callee : SessKey) (hm : s.d.matchProcedure proc = some reg)
      (hb : s.d.byCall? ⟨caller, req⟩ = none) (hp : pickCallee reg rnd = some (callee, reg'))
      (hr : callRefusal env s.d.allowDisclose reg caller callee opts = none) (hf : env.full callee = false) :
      InvocationOf env s caller req opts proc args kw rnd
        ⟨callee, .invocation (genOf s.invGen callee + 1) reg.id (invDetails env reg caller callee opts proc) args kw⟩
  /-- later chunk of a pending progressive call: the stored callee and invocation id -/
  | later (reg : Reg) (iid : ReqId) (v0 : Invk) (hm : s.d.matchProcedure proc = some reg)
      (hb : s.d.byCall? ⟨caller, req⟩ = some iid) (hfi : s.d.findInv iid = some v0) (hf : env.full v0.callee = false) :
      InvocationOf env s caller req opts proc args kw rnd
        ⟨v0.callee, .invocation iid.req reg.id [(OptProgress, .bool (opts.optFlag OptProgress))] args kw⟩

theorem syncCancel_no_invocation (env : DEnv) (s : DState) (caller : SessKey) (req : Nat) (mode reason : String)
    (errArgs : List WVal) : ∀ x ∈ (syncCancel env s caller req mode reason errArgs).sends, x.msg.isInvocation = false := by
  unfold syncCancel
  simp only
  split
  · simp
  · split
    · simp
    · split
      · simp
      · split
        · simp
        · rename_i i _ _ v _ _
          show ∀ x ∈ (cancelOut env s caller req mode reason errArgs i v).sends, _
          rw [cancelOut_eq]
          split
          · split <;> simp
          · simp

/-- A CALL yields at most one INVOCATION, and if it sends one, that is the only message of the step and it
    has one of the two forms of `InvocationOf`. -/
theorem syncCall_invocations {env : DEnv} {s : DState} (h : DealerInv s) (caller : SessKey) (req : Nat) (opts : Dict)
    (proc : String) (args : List WVal) (kw : Dict) (rnd : Nat) (x : Send)
    (hx : x ∈ (syncCall env s caller req opts proc args kw rnd).sends) (hi : x.msg.isInvocation = true) :
    (syncCall env s caller req opts proc args kw rnd).sends = [x] ∧
      InvocationOf env s caller req opts proc args kw rnd x := by
  have hnp : ∀ x ∈ (noProc env s caller req).sends, x.msg.isInvocation = false := by
    unfold noProc
    split
    · exact syncCancel_no_invocation _ _ _ _ _ _ _
    · simp [errMsg, Msg.isInvocation]
  rw [syncCall_eq] at hx ⊢
  split at hx
  · rw [hnp x hx] at hi; cases hi
  · rename_i reg hm
    have hmem := matchProcedure_mem hm
    split at hx
    · rw [hnp x hx] at hi; cases hi
    · rename_i hne
      split at hx
      · simp only [List.mem_singleton] at hx; subst hx; cases hi
      · rename_i hprog
        rw [if_neg hne, if_neg hprog]
        split at hx
        · rename_i hb
          have hc0 : (⟨caller, req⟩ : ReqId) ∉ s.d.calls := by
            intro hc'
            obtain ⟨i, _, hb', _⟩ := h.call.lookup hc'
            rw [hb] at hb'; cases hb'
          split at hx
          · cases hx
          · rename_i callee reg' hp
            have hs := (pickCallee_shape hp).1
            cases hr : callRefusal env s.d.allowDisclose reg caller callee opts with
            | some r =>
              rw [firstChunk_eq, hr] at hx
              cases r <;> (simp only [List.mem_singleton] at hx; subst hx; cases hi)
            | none =>
              cases hf : env.full callee with
              | false =>
                rw [firstChunk_ok args kw reg' hr hf] at hx ⊢
                simp only [List.mem_singleton] at hx
                subst hx
                exact ⟨rfl, .first reg reg' callee hm hb hp hr hf⟩
              | true =>
                rw [(firstChunk_full h hmem args kw (proc := proc) hs hc0 hr hf).1] at hx
                simp only [List.mem_singleton] at hx; subst hx; cases hi
        · rename_i iid hb
          split at hx
          · cases hx
          · rename_i v0 hfi
            cases hf : env.full v0.callee with
            | false =>
              rw [laterChunk_ok reg caller req opts args kw iid hf] at hx ⊢
              simp only [List.mem_singleton] at hx
              subst hx
              exact ⟨rfl, .later reg iid v0 hm hb hfi hf⟩
            | true =>
              rw [(laterChunk_full h reg opts args kw hb hfi hf).1] at hx
              simp only [List.mem_singleton] at hx; subst hx; cases hi


end Nexus.L2
