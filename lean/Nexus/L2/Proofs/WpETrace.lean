/-
  WP-E: the GHOST TRACE of a realm history.

  `Realm.step r op` runs one external input and then every internal task it caused, every timed
  event of a `tick` at its own instant, and finally lets the clients read (`flush`).  Here the
  sequence of ATOMIC ACTIONS it performs is made explicit, as a function of the state and the input:

      traceStep r op : List Rec          Rec = (state the action starts in, the action)
      traceHist r ops                    the same along a list of inputs

  An action is an external input reaching its handler (`.op`), an internal task (`.task`), a call
  timer firing (`.timer`), a turn of the yield retry loop (`.retry`), the clients reading (`.flush`),
  the clock being set at the end of a tick (`.clock`) or the model's fuel running out (`.fuel`).
  `Rec.post` is the state the action ends in; consecutive records chain (`Chain`), and the chain of
  `traceStep r op` leads from `r` to `(r.step op).2` (`chain_step`, `chain_hist`).

  Each record has a SCRIPT (`Rec.script`, Nexus/L2/Proofs/WpEShape.lean): the broker steps, the dealer
  steps and the offers to `trySend` of the action, given explicitly; `Rec.spec` says that the action
  changes broker, dealer and queue table exactly by its script (`Spec`).  Consequences along a
  history (`hist_broker`, `hist_dealer`): the broker at the end is the broker at the start after the
  broker steps of the trace, the dealer state after its dealer steps.
-/
import Nexus.L2.Proofs.WpEShape

namespace Nexus.L2.WpE
open Nexus.L2 Nexus.L2.Realm Gen.N
open Nexus.L2.WpA (Trace PubOk run_append)

/-! ### scripts of the remaining actions -/

/-- like `Shaped`, without the session table (a departure removes the session at its very end) -/
structure Spec (r : Realm) (sc : Script) (r' : Realm) : Prop where
  broker : r'.broker = r.broker.run sc.bsteps
  pubs : Trace r.pubCount sc.bsteps r'.pubCount
  dealer : Run r.ds sc.dsteps r'.ds
  queues : r'.queues = (r.deliver sc.offers).queues

theorem Shaped.spec {r r' : Realm} {sc : Script} (h : Shaped r sc r') : Spec r sc r' :=
  ⟨h.broker, h.pubs, h.dealer, h.queues⟩

/-- as `Still`, the session table aside -/
structure Calm (r r' : Realm) : Prop where
  broker : r'.broker = r.broker
  pubCount : r'.pubCount = r.pubCount
  ds : r'.ds = r.ds
  queues : r'.queues = r.queues

theorem Calm.spec {r r' : Realm} (h : Calm r r') : Spec r {} r' :=
  ⟨h.broker, by rw [h.pubCount]; exact Nat.le_refl _, by rw [h.ds]; exact .nil _, h.queues⟩

theorem Spec.refl (r : Realm) : Spec r {} r := (Shaped.refl r).spec

theorem Spec.calm_right {a b c : Realm} {s : Script} (h1 : Spec a s b) (h2 : Calm b c) : Spec a s c :=
  ⟨h2.broker.trans h1.broker, by rw [h2.pubCount]; exact h1.pubs, by rw [h2.ds]; exact h1.dealer,
   h2.queues.trans h1.queues⟩

theorem Spec.still_left {a b c : Realm} {s : Script} (h1 : Still a b) (h2 : Spec b s c) : Spec a s c :=
  ⟨by rw [h2.broker, h1.broker], by rw [← h1.pubCount]; exact h2.pubs, by rw [← h1.ds]; exact h2.dealer,
   by rw [h2.queues]; exact deliver_qcongr _ h1.clients h1.queues⟩

theorem leaveSend_frame (r : Realm) (k : SessKey) (mode : LeaveMode) : SendFrame r (leaveSend r k mode) := by
  cases mode <;> first | exact trySend_frame _ _ | exact SendFrame.refl _

theorem spec_leave (r : Realm) (k : SessKey) (mode : LeaveMode) : Spec r (leaveScript r k mode) (r.leave k mode) := by
  unfold leaveScript
  cases hf : r.clients.find? (fun c => c.key == k) with
  | none => rw [leave_none mode hf]; exact Spec.refl r
  | some s =>
    rw [leave_some mode hf]
    dsimp only
    have f1 := leaveSend_frame r k mode
    have h1 := shaped_leaveSend r k mode
    have h2 := still_takeTestaments (leaveSend r k mode) k
    have h3 := shaped_leaveRemove ((leaveSend r k mode).takeTestaments k).2 k mode.isShutdown
    rw [h2.broker, h2.pubCount, h2.ds, dtakeTestaments_denv, f1.broker, f1.pubCount, f1.ds] at h3
    have h4 := still_leaveAnnounce (leaveRemove ((leaveSend r k mode).takeTestaments k).2 k mode.isShutdown) s
      ((leaveSend r k mode).takeTestaments k).1 mode.isShutdown
    have h := (h1.trans (Shaped.still_left h2 h3)).still_right h4
    exact h.spec.calm_right ⟨rfl, rfl, rfl, rfl⟩

/-- a call timer fires: it leaves the timer table, and `syncCancel(killnowait, wamp.error.timeout)` runs -/
def timerScript (r : Realm) (t : Timer) : Script :=
  { dsteps := [(r.ds, { st := { r.ds with timers := r.ds.timers.filter (fun y => y.id != t.id) } }),
               ({ r.ds with timers := r.ds.timers.filter (fun y => y.id != t.id) },
                syncCancel r.denv { r.ds with timers := r.ds.timers.filter (fun y => y.id != t.id) } t.caller t.req
                  CancelModeKillNoWait ErrTimeout [.str "<text>"])],
    offers := (syncCancel r.denv { r.ds with timers := r.ds.timers.filter (fun y => y.id != t.id) } t.caller t.req
                  CancelModeKillNoWait ErrTimeout [.str "<text>"]).sends }

theorem shaped_timerDue (r : Realm) (t : Timer) : Shaped r (timerScript r t) (r.timerDue t) := by
  let ds1 : DState := { r.ds with timers := r.ds.timers.filter (fun y => y.id != t.id) }
  let r1 : Realm := { r with ds := ds1 }
  have e : r.timerDue t =
      r1.applyD (syncCancel r1.denv r1.ds t.caller t.req CancelModeKillNoWait ErrTimeout [.str "<text>"]) := rfl
  rw [e]
  have hrun : Run r.ds [(r.ds, ({ st := ds1 } : DOut))] ds1 :=
    .cons (.dropTimers (fun y => y.id != t.id)) (.nil ds1)
  have h1 : Shaped r { dsteps := [(r.ds, { st := ds1 })] } r1 := ⟨rfl, Nat.le_refl _, hrun, rfl, rfl⟩
  have h2 := shaped_applyD r1 (syncCancel r1.denv r1.ds t.caller t.req CancelModeKillNoWait ErrTimeout [.str "<text>"])
    (.cancel ..)
  exact h1.trans h2

/-- one turn of the yield retry loop: `syncYield` again -/
def retryScript (r : Realm) (x : Retry) : Script := dealerScript r (retryOut r x)

theorem shaped_retryDue (r : Realm) (x : Retry) : Shaped r (retryScript r x) (r.retryDue x) := by
  rw [retryDue_eq]
  let r0 : Realm := { r with retries := r.retries.filter (fun y => y.callee != x.callee) }
  have h0 : Still r r0 := ⟨rfl, rfl, rfl, rfl, rfl⟩
  have h1 : Shaped r0 (dealerScript r (retryOut r x)) (r0.applyD (retryOut r x)) :=
    shaped_applyD r0 (retryOut r x) (.yield ..)
  have h := Shaped.still_left h0 h1
  split
  · exact h.still_right ⟨rfl, rfl, rfl, rfl, rfl⟩
  · exact h.still_right ⟨rfl, rfl, rfl, rfl, rfl⟩

/-- an internal task (the state is the one with the task already taken off the list) -/
def taskScript (r : Realm) : Task → Script
  | .metaPub p => publishScript r r.metaS 0 p.opts p.topic p.args p.kw
  | .metaInvoke .. => {}
  | .metaMsg m => msgScript r r.metaS m
  | .leave k mode => if r.busy k then {} else leaveScript r k mode
  | .inMsg k m => recvScript r k m

theorem calm_metaEffect {r r' : Realm} (e : MetaEffect r r') : Calm r r' := by
  cases e with
  | same => exact ⟨rfl, rfl, rfl, rfl⟩
  | kill sel g ka => exact ⟨rfl, rfl, rfl, rfl⟩
  | testaments t _ => exact ⟨rfl, rfl, rfl, rfl⟩
  | modify k d => exact ⟨rfl, rfl, rfl, rfl⟩

theorem spec_runTask (r : Realm) (t : Task) : Spec r (taskScript r t) (r.runTask t) := by
  cases t with
  | metaPub p => exact (shaped_handlePublish ..).spec
  | metaInvoke req reg details args kw =>
    rw [runTask_metaInvoke]
    split
    · exact Calm.spec ⟨rfl, rfl, rfl, rfl⟩
    · rename_i proc _
      exact (Spec.refl r).calm_right
        (let c := calm_metaEffect (metaProc_effect r proc req details args kw)
         ⟨c.broker, c.pubCount, c.ds, c.queues⟩)
  | metaMsg m => exact (shaped_handleMsg ..).spec
  | leave k mode =>
    rw [runTask_leave]
    show Spec r (if r.busy k then {} else leaveScript r k mode) _
    split
    · exact Calm.spec ⟨rfl, rfl, rfl, rfl⟩
    · exact spec_leave r k mode
  | inMsg k m => exact (shaped_recvMsg ..).spec

/-- an external input reaching the realm -/
def opScript (r : Realm) : Op → Script
  | .msg k m => recvScript r k m
  | _ => {}

/-- the queue a fresh `join` creates -/
def opQueue (r : Realm) : Op → List (SessKey × List Msg)
  | .join k _ _ _ _ => if k == metaKey || r.clients.any (fun c => c.key == k) then [] else [(k, [])]
  | _ => []

/-- an external input: the script, and the empty queue a `join` adds -/
theorem stepOp_spec (r : Realm) (op : Op) :
    (r.stepOp op).broker = r.broker.run (opScript r op).bsteps ∧
    Trace r.pubCount (opScript r op).bsteps (r.stepOp op).pubCount ∧
    Run r.ds (opScript r op).dsteps (r.stepOp op).ds ∧
    (r.stepOp op).queues = (r.deliver (opScript r op).offers).queues ++ opQueue r op := by
  have calm : ∀ r' : Realm, Calm r r' → r'.broker = r.broker.run [] ∧ Trace r.pubCount [] r'.pubCount ∧
      Run r.ds [] r'.ds ∧ r'.queues = (r.deliver []).queues ++ [] := by
    intro r' h
    exact ⟨h.broker, by rw [h.pubCount]; exact Nat.le_refl _, by rw [h.ds]; exact .nil _, by rw [h.queues]; simp [deliver_nil]⟩
  cases op with
  | join k isLocal details roles cap =>
    rw [stepOp_join]
    show _ ∧ _ ∧ _ ∧ _ = (r.deliver []).queues ++ (if _ then [] else [(k, [])])
    split
    · exact calm r ⟨rfl, rfl, rfl, rfl⟩
    · exact ⟨rfl, Nat.le_refl _, .nil _, rfl⟩
  | msg k m =>
    have h := shaped_recvMsg r k m
    refine ⟨h.broker, h.pubs, h.dealer, ?_⟩
    show (r.recvMsg k m).queues = (r.deliver (recvScript r k m).offers).queues ++ []
    rw [h.queues]; simp
  | buffer k => rw [stepOp_buffer]; exact calm _ ⟨rfl, rfl, rfl, rfl⟩
  | drop k =>
    rw [stepOp_drop]
    split
    · exact calm _ ⟨rfl, rfl, rfl, rfl⟩
    split
    · exact calm _ ⟨rfl, rfl, rfl, rfl⟩
    · exact calm _ ⟨rfl, rfl, rfl, rfl⟩
  | stall k => rw [stepOp_stall]; exact calm _ ⟨rfl, rfl, rfl, rfl⟩
  | resume k => rw [stepOp_resume]; exact calm _ ⟨rfl, rfl, rfl, rfl⟩
  | tick ms => exact calm _ ⟨rfl, rfl, rfl, rfl⟩
  | rnd n => exact calm _ ⟨rfl, rfl, rfl, rfl⟩

/-! ### atomic actions and records -/

inductive Act where
  /-- an external input reaches the realm (its handler, if it is a message) -/
  | op (op : Op)
  /-- the oldest internal task runs -/
  | task (t : Task)
  /-- a call timer fires, at its deadline -/
  | timer (t : Timer)
  /-- one turn of the yield retry loop, at its time -/
  | retry (x : Retry)
  /-- the clients read -/
  | flush
  /-- the end of a tick: the clock is set -/
  | clock (t : Nat)
  /-- the model's fuel ran out -/
  | fuel (text : String)

/-- the state an action ends in -/
def Act.apply (r : Realm) : Act → Realm
  | .op o => r.stepOp o
  | .task t => runTask { r with tasks := r.tasks.tail } t
  | .timer t => ({ r with now := max r.now t.deadline } : Realm).timerDue t
  | .retry x => ({ r with now := max r.now x.next } : Realm).retryDue x
  | .flush => r.flush.2
  | .clock t => { r with now := t }
  | .fuel text => r.setPanic (some text)

structure Rec where
  pre : Realm
  act : Act

def Rec.post (x : Rec) : Realm := x.act.apply x.pre

/-- the script of an action -/
def Rec.script (x : Rec) : Script :=
  match x.act with
  | .op o => opScript x.pre o
  | .task t => taskScript { x.pre with tasks := x.pre.tasks.tail } t
  | .timer t => timerScript { x.pre with now := max x.pre.now t.deadline } t
  | .retry y => retryScript { x.pre with now := max x.pre.now y.next } y
  | _ => {}

/-- the queue an action creates (a fresh `join`) -/
def Rec.newQueue (x : Rec) : List (SessKey × List Msg) :=
  match x.act with
  | .op o => opQueue x.pre o
  | _ => []

def Act.isFlush : Act → Bool
  | .flush => true
  | _ => false

/-- EVERY ATOMIC ACTION but `flush` changes the broker by the broker steps of its script, the dealer state by its
    dealer steps, and the queue table by handing its offers to `trySend`, in order (a fresh `join` adds an
    empty queue). -/
theorem Rec.spec (x : Rec) :
    x.post.broker = x.pre.broker.run x.script.bsteps ∧
    Trace x.pre.pubCount x.script.bsteps x.post.pubCount ∧
    Run x.pre.ds x.script.dsteps x.post.ds ∧
    (x.act.isFlush = false → x.post.queues = (x.pre.deliver x.script.offers).queues ++ x.newQueue) := by
  obtain ⟨r, a⟩ := x
  have ofSpec : ∀ {sc : Script} {r' : Realm}, Spec r sc r' →
      r'.broker = r.broker.run sc.bsteps ∧ Trace r.pubCount sc.bsteps r'.pubCount ∧ Run r.ds sc.dsteps r'.ds ∧
      (a.isFlush = false → r'.queues = (r.deliver sc.offers).queues ++ []) :=
    fun h => ⟨h.broker, h.pubs, h.dealer, fun _ => by rw [h.queues]; simp⟩
  cases a with
  | op o =>
    obtain ⟨h1, h2, h3, h4⟩ := stepOp_spec r o
    exact ⟨h1, h2, h3, fun _ => h4⟩
  | task t =>
    exact ofSpec (Spec.still_left (a := r) (b := { r with tasks := r.tasks.tail }) ⟨rfl, rfl, rfl, rfl, rfl⟩
      (spec_runTask _ t))
  | timer t =>
    exact ofSpec (Spec.still_left (a := r) (b := { r with now := max r.now t.deadline }) ⟨rfl, rfl, rfl, rfl, rfl⟩
      (shaped_timerDue _ t).spec)
  | retry y =>
    exact ofSpec (Spec.still_left (a := r) (b := { r with now := max r.now y.next }) ⟨rfl, rfl, rfl, rfl, rfl⟩
      (shaped_retryDue _ y).spec)
  | flush =>
    refine ⟨?_, ?_, ?_, fun h => by cases h⟩
    · show r.flush.2.broker = r.broker
      unfold Realm.flush; rfl
    · show r.pubCount ≤ r.flush.2.pubCount
      unfold Realm.flush; exact Nat.le_refl _
    · show Run r.ds [] r.flush.2.ds
      rw [WpB.flush_ds]; exact .nil _
  | clock t => exact ofSpec (Calm.spec ⟨rfl, rfl, rfl, rfl⟩)
  | fuel text =>
    exact ofSpec (Calm.spec (let s := still_setPanic r (some text); ⟨s.broker, s.pubCount, s.ds, s.queues⟩))

/-! ### the trace of a step -/

/-- consecutive records: each starts where the previous one ended -/
inductive Chain : Realm → List Rec → Realm → Prop
  | nil (r : Realm) : Chain r [] r
  | cons {x : Rec} {tr : List Rec} {r' : Realm} : Chain x.post tr r' → Chain x.pre (x :: tr) r'

theorem Chain.append {a b c : Realm} {t1 t2 : List Rec} (h1 : Chain a t1 b) (h2 : Chain b t2 c) :
    Chain a (t1 ++ t2) c := by
  induction h1 with
  | nil => exact h2
  | cons _ ih => exact .cons (ih h2)

theorem Chain.single (x : Rec) : Chain x.pre [x] x.post := .cons (.nil _)

def traceDrain : Nat → Realm → List Rec
  | 0, r => if r.tasks.isEmpty then [] else [⟨r, .fuel "model: task fuel exhausted"⟩]
  | fuel + 1, r =>
    match r.tasks with
    | [] => []
    | t :: ts => ⟨r, .task t⟩ :: traceDrain fuel (runTask { r with tasks := ts } t)

theorem chain_drain : ∀ (fuel : Nat) (r : Realm), Chain r (traceDrain fuel r) (drain fuel r)
  | 0, r => by
    rw [drain_zero]
    unfold traceDrain
    split
    · exact .nil r
    · exact Chain.single ⟨r, .fuel "model: task fuel exhausted"⟩
  | fuel + 1, r => by
    cases ht : r.tasks with
    | nil =>
      rw [drain_succ_nil _ _ ht]
      unfold traceDrain; rw [ht]
      exact .nil r
    | cons t ts =>
      rw [drain_succ_cons _ _ t ts ht]
      unfold traceDrain; rw [ht]
      refine Chain.cons (x := ⟨r, .task t⟩) ?_
      have : (⟨r, .task t⟩ : Rec).post = runTask { r with tasks := ts } t := by
        show runTask { r with tasks := r.tasks.tail } t = _
        rw [ht]; rfl
      rw [this]
      exact chain_drain fuel _

def dueAct : Due → Act
  | .timer t => .timer t
  | .retry x => .retry x

theorem dueAct_apply (r : Realm) (d : Due) :
    (dueAct d).apply r =
      (match d with
        | .timer t => ({ r with now := max r.now d.time } : Realm).timerDue t
        | .retry x => ({ r with now := max r.now d.time } : Realm).retryDue x) := by
  cases d <;> rfl

def traceAdvance : Nat → Realm → Nat → List Rec
  | 0, r, target => [⟨r, .clock target⟩, ⟨{ r with now := target }, .fuel "model: timed-event fuel exhausted"⟩]
  | fuel + 1, r, target =>
    match nextDue r target with
    | none => [⟨r, .clock target⟩]
    | some d =>
      ⟨r, dueAct d⟩ :: (traceDrain taskFuel ((dueAct d).apply r) ++
        traceAdvance fuel (drain taskFuel ((dueAct d).apply r)) target)

theorem chain_advance : ∀ (fuel : Nat) (r : Realm) (target : Nat),
    Chain r (traceAdvance fuel r target) (advance fuel r target)
  | 0, r, target => by
    unfold Realm.advance traceAdvance
    exact .cons (x := ⟨r, .clock target⟩) (Chain.single ⟨{ r with now := target }, .fuel _⟩)
  | fuel + 1, r, target => by
    unfold Realm.advance traceAdvance
    cases hd : nextDue r target with
    | none => exact Chain.single ⟨r, .clock target⟩
    | some d =>
      dsimp only
      refine Chain.cons (x := ⟨r, dueAct d⟩) ?_
      show Chain ((dueAct d).apply r) _ _
      rw [dueAct_apply]
      exact (chain_drain taskFuel _).append (chain_advance fuel _ target)

/-- THE GHOST TRACE OF ONE STEP: the atomic actions `Realm.step r op` performs, in order -/
def traceStep (r : Realm) (op : Op) : List Rec :=
  match op with
  | .tick ms => traceAdvance 10000 r (r.now + ms) ++ [⟨advance 10000 r (r.now + ms), .flush⟩]
  | _ => ⟨r, .op op⟩ :: (traceDrain taskFuel (r.stepOp op) ++ [⟨drain taskFuel (r.stepOp op), .flush⟩])

theorem chain_step (r : Realm) (op : Op) : Chain r (traceStep r op) (r.step op).2 := by
  by_cases ht : ∃ ms, op = .tick ms
  · obtain ⟨ms, rfl⟩ := ht
    rw [step_tick]
    exact (chain_advance _ _ _).append (Chain.single ⟨advance 10000 r (r.now + ms), .flush⟩)
  · rw [step_of_not_tick r op (fun ms e => ht ⟨ms, e⟩)]
    have e : traceStep r op =
        ⟨r, .op op⟩ :: (traceDrain taskFuel (r.stepOp op) ++ [⟨drain taskFuel (r.stepOp op), .flush⟩]) := by
      cases op <;> first | rfl | exact absurd ⟨_, rfl⟩ ht
    rw [e]
    exact Chain.cons (x := ⟨r, .op op⟩)
      ((chain_drain _ _).append (Chain.single ⟨drain taskFuel (r.stepOp op), .flush⟩))

/-- the realm after a list of inputs -/
def runOps (r : Realm) : List Op → Realm
  | [] => r
  | op :: ops => runOps (r.step op).2 ops

/-- THE GHOST TRACE OF A HISTORY -/
def traceHist (r : Realm) : List Op → List Rec
  | [] => []
  | op :: ops => traceStep r op ++ traceHist (r.step op).2 ops

theorem chain_hist : ∀ (ops : List Op) (r : Realm), Chain r (traceHist r ops) (runOps r ops)
  | [], r => .nil r
  | op :: ops, r => (chain_step r op).append (chain_hist ops _)

theorem runOps_reachable {cfg : Config} : ∀ (ops : List Op) {r : Realm}, Realm.Reachable cfg r →
    Realm.Reachable cfg (runOps r ops)
  | [], _, h => h
  | op :: ops, _, h => runOps_reachable ops (.step op h)

theorem traceHist_append (r : Realm) (ops1 ops2 : List Op) :
    traceHist r (ops1 ++ ops2) = traceHist r ops1 ++ traceHist (runOps r ops1) ops2 := by
  induction ops1 generalizing r with
  | nil => rfl
  | cons op ops ih => simp only [List.cons_append, traceHist, runOps, ih, List.append_assoc]

theorem runOps_append (r : Realm) (ops1 ops2 : List Op) : runOps r (ops1 ++ ops2) = runOps (runOps r ops1) ops2 := by
  induction ops1 generalizing r with
  | nil => rfl
  | cons op ops ih => simp only [List.cons_append, runOps, ih]

/-! ### the broker and the dealer along a chain -/

/-- the broker steps / dealer steps / offers of a trace, in order -/
def bstepsOf (tr : List Rec) : List BStep := tr.flatMap (fun x => x.script.bsteps)
def dstepsOf (tr : List Rec) : List (DState × DOut) := tr.flatMap (fun x => x.script.dsteps)

theorem chain_broker {r r' : Realm} {tr : List Rec} (h : Chain r tr r') :
    r'.broker = r.broker.run (bstepsOf tr) ∧ Trace r.pubCount (bstepsOf tr) r'.pubCount ∧
    Run r.ds (dstepsOf tr) r'.ds := by
  induction h with
  | nil r => exact ⟨rfl, Nat.le_refl _, .nil _⟩
  | @cons x tr r' _ ih =>
    obtain ⟨h1, h2, h3, _⟩ := x.spec
    obtain ⟨i1, i2, i3⟩ := ih
    refine ⟨?_, ?_, ?_⟩
    · show r'.broker = x.pre.broker.run (x.script.bsteps ++ bstepsOf tr)
      rw [run_append, ← h1]; exact i1
    · show Trace x.pre.pubCount (x.script.bsteps ++ bstepsOf tr) r'.pubCount
      exact h2.append i2
    · show Run x.pre.ds (x.script.dsteps ++ dstepsOf tr) r'.ds
      exact WpB.Run.append h3 i3

/-- ALONG A HISTORY: the broker is the broker at the start after the broker steps of the ghost trace (whose
    publish steps carry increasing fresh ids), the dealer state arises by the dealer steps of the ghost trace. -/
theorem hist_tables (r : Realm) (ops : List Op) :
    (runOps r ops).broker = r.broker.run (bstepsOf (traceHist r ops)) ∧
    Trace r.pubCount (bstepsOf (traceHist r ops)) (runOps r ops).pubCount ∧
    Run r.ds (dstepsOf (traceHist r ops)) (runOps r ops).ds :=
  chain_broker (chain_hist ops r)

/-- a record of a chain starts in a state reached from the chain's start by the records before it -/
theorem chain_split {r r' : Realm} {tr : List Rec} (h : Chain r tr r') {x : Rec} {pre post : List Rec}
    (e : tr = pre ++ x :: post) : Chain r pre x.pre ∧ Chain x.post post r' := by
  induction h generalizing pre with
  | nil r => cases pre <;> cases e
  | @cons y tr r' hc ih =>
    cases pre with
    | nil =>
      simp only [List.nil_append, List.cons.injEq] at e
      obtain ⟨rfl, rfl⟩ := e
      exact ⟨.nil _, hc⟩
    | cons z pre =>
      simp only [List.cons_append, List.cons.injEq] at e
      obtain ⟨rfl, e⟩ := e
      obtain ⟨h1, h2⟩ := ih e
      exact ⟨.cons h1, h2⟩

end Nexus.L2.WpE
