/-
  WP-E (C02): WHERE REPLIES TO A CALL COME FROM.

  A reply to the call `c = (caller session, request id)` is a RESULT or an ERROR of type CALL addressed to
  `c.sess` bearing `c.req` (`Send.replyTo`, `repliesFor`).

  * `Rec.call? x`: the call id, if the action `x` is the handler of a session reading a CALL message
    that the authorization gate lets through — read off the ACTION, not off the dealer's output
    (`IsCallStep` of Nexus/L2/Proofs/DealerReply.lean is an equation between outputs);
  * `Rec.actOk`: towards every call `c`, the dealer steps of the action's script send at most one reply,
    only for a pending call (or the CALL being handled: `x.call? = some c`), a final one only together with
    the removal of the call, and `c` becomes pending only by its CALL;
  * `Rec.offer_replies`: WITHOUT an Authorizer, the replies among the offers of the action are exactly the
    replies its dealer steps send — or none at all (the departure of a session at router shutdown discards
    them).  With an Authorizer the gate's own ERROR for a refused CALL is one more (finding F47).
-/
import Nexus.L2.Proofs.WpEKinds
import Nexus.L2.Proofs.DealerOrder

namespace Nexus.L2.WpE
open Nexus.L2 Nexus.L2.Realm Gen.N

/-! ### messages that are no replies -/

/-- no message of the list is a RESULT or an ERROR of type CALL -/
def NoRep (l : List Send) : Prop := l.all (fun x => x.msg.replyReq.isNone) = true

theorem NoRep.mem {l : List Send} (h : NoRep l) {x : Send} (hx : x ∈ l) : x.msg.replyReq = none := by
  have := List.all_eq_true.mp h x hx
  simpa using this

theorem noRep_of_forall {l : List Send} (h : ∀ x ∈ l, x.msg.replyReq = none) : NoRep l := by
  unfold NoRep
  rw [List.all_eq_true]
  intro x hx
  rw [h x hx]; rfl

theorem noRep_append {a b : List Send} (ha : NoRep a) (hb : NoRep b) : NoRep (a ++ b) := by
  unfold NoRep at *; rw [List.all_append, ha, hb]; rfl

theorem NoRep.replies {l : List Send} (h : NoRep l) (c : ReqId) : repliesFor c l = [] := by
  apply repliesFor_of_none
  intro x hx
  unfold Send.replyTo
  rw [h.mem hx]; rfl

theorem event_noRep {m : Msg} {i : Nat} (h : m.eventSub? = some i) : m.replyReq = none := by
  cases m <;> first | rfl | cases h

theorem goodbye_noRep {g : Msg} (h : isGoodbyeMsg g = true) : g.replyReq = none := by
  cases g <;> first | rfl | cases h

theorem ackList_noRep (opts : Dict) (x : Send) (h : x.msg.replyReq = none) : NoRep (ackList opts x) := by
  unfold ackList
  split
  · exact noRep_of_forall (fun y hy => by rw [List.mem_singleton.mp hy]; exact h)
  · rfl

theorem syncPublish_noRep (b : Broker) (sess : SessKey → Option Session) (now : Nat) (p : Publication) :
    NoRep (b.syncPublish sess now p).2 :=
  noRep_of_forall (fun x hx => by
    obtain ⟨i, hi, _⟩ := bsyncPublish_member hx
    exact event_noRep hi)

theorem metaEvent_noRep (b : Broker) (t : String) (pid : Nat) (cause : SessKey) (args : List WVal) :
    NoRep (b.metaEvent t pid cause args) := noRep_of_forall (dmetaEvent_noreply b t pid cause args)

theorem syncSubscribe_noRep (b : Broker) (k : SessKey) (req : Nat) (topic m : String) (pub0 : Nat) :
    NoRep (b.syncSubscribe k req topic m pub0).2.1 := by
  unfold Broker.syncSubscribe
  split
  · split
    · rfl
    · exact noRep_append (by rfl) (metaEvent_noRep ..)
  · exact noRep_append (noRep_append (by rfl) (metaEvent_noRep ..)) (metaEvent_noRep ..)

theorem syncUnsubscribe_noRep (b : Broker) (k : SessKey) (req subId pub0 : Nat) :
    NoRep (b.syncUnsubscribe k req subId pub0).2.1 := by
  unfold Broker.syncUnsubscribe
  split
  · rfl
  · split
    · rfl
    · dsimp only
      split
      · exact noRep_append (noRep_append (by rfl) (metaEvent_noRep ..)) (metaEvent_noRep ..)
      · exact noRep_append (by rfl) (metaEvent_noRep ..)

theorem leaveOffer_noRep (k : SessKey) (mode : LeaveMode) (hm : ∀ g ka, mode = .killed g ka → isGoodbyeMsg g = true) :
    NoRep (leaveOffer k mode) := by
  cases mode with
  | killed g ka =>
    exact noRep_of_forall (fun y hy => by rw [List.mem_singleton.mp hy]; exact goodbye_noRep (hm g ka rfl))
  | _ => rfl

/-! ### which CALL an action handles -/

/-- the call id, if the handler of `s` reads a CALL that passes the gate -/
def msgCall (r : Realm) (s : Session) (m : Msg) : Option ReqId :=
  if (authzGate r s m).1 then
    (match m with
     | .call req _ _ _ _ => some ⟨s.key, req⟩
     | _ => none)
  else none

def recvCall (r : Realm) (k : SessKey) (m : Msg) : Option ReqId :=
  match r.clients.find? (fun c => c.key == k) with
  | none => none
  | some s => if r.ending.contains k then none else if r.busy k then none else msgCall r s m

/-- the call id, if the action is the handler of a session reading a CALL message that passes the gate -/
def Rec.call? (x : Rec) : Option ReqId :=
  match x.act with
  | .op (.msg k m) => recvCall x.pre k m
  | .task (.inMsg k m) => recvCall { x.pre with tasks := x.pre.tasks.tail } k m
  | .task (.metaMsg m) => msgCall { x.pre with tasks := x.pre.tasks.tail } x.pre.metaS m
  | _ => none

/-! ### the reply discipline of an action -/

/-- towards the call `c`, for dealer steps `dtr` leading from `s` to `s'`; `fresh`: the action is the CALL `c` -/
structure ActOk (s : DState) (dtr : List (DState × DOut)) (s' : DState) (c : ReqId) (fresh : Prop) : Prop where
  one : (replyStream c dtr).length ≤ 1
  known : replyStream c dtr ≠ [] → c ∈ s.d.calls ∨ fresh
  final : (∃ y ∈ replyStream c dtr, y.msg.isFinalReply = true) → c ∉ s'.d.calls
  sub : c ∈ s'.d.calls → c ∈ s.d.calls ∨ fresh

theorem actOk_nil (s : DState) (c : ReqId) (fresh : Prop) : ActOk s [] s c fresh :=
  ⟨Nat.zero_le _, fun h => absurd rfl h, fun ⟨_, hy, _⟩ => (nomatch hy), Or.inl⟩

theorem actOk_one {s : DState} {o : DOut} {c : ReqId} {fresh : Prop} (rok : ReplyOK s o c fresh)
    (sub : c ∈ o.st.d.calls → c ∈ s.d.calls ∨ fresh) : ActOk s [(s, o)] o.st c fresh := by
  have e : replyStream c [(s, o)] = repliesFor c o.sends := by rw [replyStream_cons]; simp [replyStream]
  refine ⟨by rw [e]; exact rok.one, by rw [e]; exact rok.known, ?_, sub⟩
  rw [e]
  rintro ⟨y, hy, hf⟩
  apply rok.final
  unfold finalsFor
  intro hnil
  have : y ∈ (repliesFor c o.sends).filter (fun x => x.msg.isFinalReply) := List.mem_filter.mpr ⟨hy, hf⟩
  rw [hnil] at this
  cases this

theorem run_nil_inv {s s' : DState} (h : Run s [] s') : s' = s := by cases h; rfl

theorem run_one_inv {s s1 s' : DState} {o : DOut} (h : Run s [(s1, o)] s') : s' = o.st := by
  cases h with
  | cons _ rest => cases rest; rfl

/-- the script towards call `c`, from dealer state `s` -/
def ScriptOk (sc : Script) (s : DState) (c : ReqId) (fresh : Prop) : Prop :=
  ∀ s', Run s sc.dsteps s' → ActOk s sc.dsteps s' c fresh

theorem scriptOk_quiet {sc : Script} (h : sc.dsteps = []) (s : DState) (c : ReqId) (fresh : Prop) :
    ScriptOk sc s c fresh := by
  intro s' hr
  rw [h] at hr ⊢
  rw [run_nil_inv hr]
  exact actOk_nil s c fresh

theorem scriptOk_dealer (r : Realm) {o : DOut} {c : ReqId} {fresh : Prop} (rok : ReplyOK r.ds o c fresh)
    (sub : c ∈ o.st.d.calls → c ∈ r.ds.d.calls ∨ fresh) : ScriptOk (dealerScript r o) r.ds c fresh := by
  intro s' hr
  have : s' = o.st := run_one_inv hr
  rw [this]
  exact actOk_one rok sub

theorem scriptOk_dispatchScript (r : Realm) (hi : DealerInv r.ds) (s : Session) (m : Msg) (c : ReqId) :
    ScriptOk (dispatchScript r s m) r.ds c
      ((match m with | .call req _ _ _ _ => some (⟨s.key, req⟩ : ReqId) | _ => none) = some c) := by
  cases m
  case publish req opts topic args kw =>
    apply scriptOk_quiet
    show (publishScript r s req opts topic args kw).dsteps = []
    unfold publishScript
    repeat' split
    all_goals rfl
  case yield req opts args kw =>
    exact scriptOk_dealer r (syncYield_replyOK hi ..) (fun h => Or.inl (syncYield_calls_sub hi _ _ _ _ _ _ _ c h))
  case call req opts proc args kw =>
    refine scriptOk_dealer r ((syncCall_replyOK hi s.key req opts proc args kw r.rnd c).mono_fresh ?_) ?_
    · intro e; rw [e]
    · intro h
      rcases syncCall_calls_sub hi s.key req opts proc args kw r.rnd c h with h | h
      · exact Or.inl h
      · exact Or.inr (by rw [h])
  case cancel req opts =>
    show ScriptOk (cancelScript r s req opts) r.ds c _
    unfold cancelScript
    split
    · exact scriptOk_dealer r (syncCancel_replyOK hi ..) (fun h => Or.inl (syncCancel_calls_sub hi _ _ _ _ _ c h))
    · exact scriptOk_quiet rfl _ _ _
  case subscribe req opts topic =>
    apply scriptOk_quiet
    show (subscribeScript r s req opts topic).dsteps = []
    unfold subscribeScript
    split <;> rfl
  case register req opts proc =>
    show ScriptOk (registerScript r s req opts proc) r.ds c _
    unfold registerScript
    split
    · exact scriptOk_quiet rfl _ _ _
    · exact scriptOk_dealer r (ReplyOK.of_nil (syncRegister_no_reply ..)) (fun h => by
        unfold registerOut at h
        rw [syncRegister_calls] at h
        exact Or.inl h)
  case unsubscribe req sub => exact scriptOk_quiet rfl _ _ _
  case unregister req reg =>
    exact scriptOk_dealer r (ReplyOK.of_nil (syncUnregister_no_reply ..)) (fun h => by
      rw [syncUnregister_calls hi] at h
      exact Or.inl h)
  case error typ req details err args kw =>
    show ScriptOk (if typ != tINVOCATION then {} else dealerScript r (syncError r.ds s.key req details err args kw)) r.ds c _
    split
    · exact scriptOk_quiet rfl _ _ _
    · exact scriptOk_dealer r (syncError_replyOK hi ..) (fun h => Or.inl (syncError_calls_sub hi _ _ _ _ _ _ c h))
  all_goals exact scriptOk_quiet rfl _ _ _

theorem scriptOk_msgScript (r : Realm) (hi : DealerInv r.ds) (s : Session) (m : Msg) (c : ReqId) :
    ScriptOk (msgScript r s m) r.ds c (msgCall r s m = some c) := by
  unfold msgScript msgCall
  split
  · exact scriptOk_dispatchScript r hi s m c
  · exact scriptOk_quiet rfl _ _ _

theorem scriptOk_recvScript (r : Realm) (hi : DealerInv r.ds) (k : SessKey) (m : Msg) (c : ReqId) :
    ScriptOk (recvScript r k m) r.ds c (recvCall r k m = some c) := by
  unfold recvScript recvCall
  cases r.clients.find? (fun c => c.key == k) with
  | none => exact scriptOk_quiet rfl _ _ _
  | some s =>
    dsimp only
    split
    · exact scriptOk_quiet rfl _ _ _
    · split
      · exact scriptOk_quiet rfl _ _ _
      · exact scriptOk_msgScript r hi s m c

theorem scriptOk_leaveScript (r : Realm) (hi : DealerInv r.ds) (k : SessKey) (mode : LeaveMode) (c : ReqId)
    (fresh : Prop) : ScriptOk (leaveScript r k mode) r.ds c fresh := by
  unfold leaveScript
  split
  · exact scriptOk_quiet rfl _ _ _
  · intro s' hr
    have : s' = (syncRemoveSession (leaveSend r k mode).denv r.ds k).st := run_one_inv hr
    rw [this]
    exact actOk_one (syncRemoveSession_replyOK hi ..) (fun h => Or.inl (syncRemoveSession_calls hi _ c h).1)

theorem scriptOk_timerScript (r : Realm) (hi : DealerInv r.ds) (t : Timer) (c : ReqId) (fresh : Prop) :
    ScriptOk (timerScript r t) r.ds c fresh := by
  intro s' hr
  let s1 : DState := { r.ds with timers := r.ds.timers.filter (fun y => y.id != t.id) }
  let o := syncCancel r.denv s1 t.caller t.req CancelModeKillNoWait ErrTimeout [.str "<text>"]
  have hi1 : DealerInv s1 := hi.filterTimers _
  have hs' : s' = o.st := by
    cases hr with
    | cons _ rest => exact run_one_inv rest
  have e : replyStream c (timerScript r t).dsteps = repliesFor c o.sends := by
    show replyStream c [(r.ds, ({ st := s1 } : DOut)), (s1, o)] = _
    rw [replyStream_cons, replyStream_cons]
    simp [replyStream]
  have rok : ReplyOK s1 o c fresh := syncCancel_replyOK hi1 ..
  have a := actOk_one rok (fun h => Or.inl (syncCancel_calls_sub hi1 _ _ _ _ _ c h))
  have e1 : replyStream c [(s1, o)] = repliesFor c o.sends := by rw [replyStream_cons]; simp [replyStream]
  rw [hs']
  exact ⟨by rw [e, ← e1]; exact a.one, by rw [e, ← e1]; exact a.known, by rw [e, ← e1]; exact a.final, a.sub⟩

/-- EVERY ATOMIC ACTION obeys the reply discipline towards every call `c`: its dealer steps send at most one reply
    for `c`; only if `c` is pending when the action starts, or the action is the handler reading the CALL `c`;
    a final reply only if `c` is not pending when the action ends; and `c` is pending at the end only if it was at
    the start or the action is that CALL. -/
theorem Rec.actOk (x : Rec) (hi : DealerInv x.pre.ds) (c : ReqId) :
    ActOk x.pre.ds x.script.dsteps x.post.ds c (x.call? = some c) := by
  have hrun := x.spec.2.2.1
  revert hrun
  generalize x.post.ds = s'
  intro hrun
  obtain ⟨r, a⟩ := x
  have quiet : ∀ {sc : Script} {fresh : Prop}, sc.dsteps = [] → Run r.ds sc.dsteps s' → ActOk r.ds sc.dsteps s' c fresh :=
    fun h hr => scriptOk_quiet h r.ds c _ s' hr
  cases a with
  | op o =>
    cases o with
    | msg k m => exact scriptOk_recvScript r hi k m c s' hrun
    | _ => exact quiet rfl hrun
  | task t =>
    cases t with
    | metaPub p =>
      refine quiet ?_ hrun
      show (publishScript _ _ _ _ _ _ _).dsteps = []
      unfold publishScript
      repeat' split
      all_goals rfl
    | metaInvoke req reg details args kw => exact quiet rfl hrun
    | metaMsg m => exact scriptOk_msgScript { r with tasks := r.tasks.tail } hi _ m c s' hrun
    | leave k mode =>
      have hrun' : Run r.ds (if ({ r with tasks := r.tasks.tail } : Realm).busy k then ({} : Script) else
          leaveScript { r with tasks := r.tasks.tail } k mode).dsteps s' := hrun
      show ActOk r.ds (if ({ r with tasks := r.tasks.tail } : Realm).busy k then ({} : Script) else
          leaveScript { r with tasks := r.tasks.tail } k mode).dsteps s' c _
      by_cases hb : ({ r with tasks := r.tasks.tail } : Realm).busy k = true
      · rw [if_pos hb] at hrun' ⊢
        exact quiet rfl hrun'
      · rw [if_neg hb] at hrun' ⊢
        exact scriptOk_leaveScript { r with tasks := r.tasks.tail } hi k mode c _ s' hrun'
    | inMsg k m => exact scriptOk_recvScript { r with tasks := r.tasks.tail } hi k m c s' hrun
  | timer t => exact scriptOk_timerScript { r with now := max r.now t.deadline } hi t c _ s' hrun
  | retry y =>
    exact scriptOk_dealer { r with now := max r.now y.next } (syncYield_replyOK hi ..)
      (fun h => Or.inl (syncYield_calls_sub hi _ _ _ _ _ _ _ c h)) s' hrun
  | flush => exact quiet rfl hrun
  | clock t => exact quiet rfl hrun
  | fuel text => exact quiet rfl hrun

/-! ### the replies among the offers -/

/-- the replies for `c` among the offers are those of the dealer steps, or there is none -/
def RepOk (sc : Script) (c : ReqId) : Prop :=
  repliesFor c sc.offers = replyStream c sc.dsteps ∨ repliesFor c sc.offers = []

theorem repOk_noRep {sc : Script} (h : NoRep sc.offers) (c : ReqId) : RepOk sc c := Or.inr (h.replies c)

theorem repOk_dealerScript (r : Realm) (o : DOut) (c : ReqId) : RepOk (dealerScript r o) c := by
  left
  show repliesFor c o.sends = replyStream c [(r.ds, o)]
  rw [replyStream_cons]; simp [replyStream]

theorem registerRefusal_noRep (r : Realm) (s : Session) (req : Nat) (opts : Dict) (proc : String) (e : Msg)
    (h : registerRefusal r s req opts proc = some e) : e.replyReq = none := by
  unfold registerRefusal at h
  repeat' split at h
  all_goals first
    | (simp only [Option.some.injEq] at h; subst h; rfl)
    | cases h

theorem publishScript_noRep (r : Realm) (s : Session) (req : Nat) (opts : Dict) (topic : String) (args : List WVal)
    (kw : Dict) : NoRep (publishScript r s req opts topic args kw).offers := by
  unfold publishScript
  split
  · exact noRep_append (syncPublish_noRep ..) (ackList_noRep _ _ rfl)
  · split
    · exact ackList_noRep _ _ rfl
    · split
      · rfl
      · exact ackList_noRep _ _ rfl

theorem repOk_dispatchScript (r : Realm) (s : Session) (m : Msg) (c : ReqId) : RepOk (dispatchScript r s m) c := by
  cases m
  case publish => exact repOk_noRep (publishScript_noRep ..) c
  case yield => exact repOk_dealerScript ..
  case call => exact repOk_dealerScript ..
  case cancel req opts =>
    show RepOk (cancelScript r s req opts) c
    unfold cancelScript
    split
    · exact repOk_dealerScript ..
    · exact repOk_noRep (by rfl) c
  case subscribe req opts topic =>
    show RepOk (subscribeScript r s req opts topic) c
    unfold subscribeScript
    split
    · exact repOk_noRep (syncSubscribe_noRep ..) c
    · exact repOk_noRep (by rfl) c
  case register req opts proc =>
    show RepOk (registerScript r s req opts proc) c
    unfold registerScript
    cases hr : registerRefusal r s req opts proc with
    | some e =>
      exact repOk_noRep (noRep_of_forall (fun y hy => by
        rw [List.mem_singleton.mp hy]; exact registerRefusal_noRep r s req opts proc e hr)) c
    | none => exact repOk_dealerScript ..
  case unsubscribe req sub => exact repOk_noRep (syncUnsubscribe_noRep ..) c
  case unregister => exact repOk_dealerScript ..
  case error typ req details err args kw =>
    show RepOk (if typ != tINVOCATION then {} else dealerScript r (syncError r.ds s.key req details err args kw)) c
    split
    · exact repOk_noRep (by rfl) c
    · exact repOk_dealerScript ..
  case goodbye => exact repOk_noRep (by rfl) c
  all_goals exact repOk_noRep (by rfl) c

theorem repOk_msgScript (r : Realm) (hz : r.cfg.authz = none) (s : Session) (m : Msg) (c : ReqId) :
    RepOk (msgScript r s m) c := by
  unfold msgScript
  rw [authzGate_none hz]
  exact repOk_dispatchScript r s m c

theorem repOk_recvScript (r : Realm) (hz : r.cfg.authz = none) (k : SessKey) (m : Msg) (c : ReqId) :
    RepOk (recvScript r k m) c := by
  unfold recvScript
  split
  · exact repOk_noRep (by rfl) c
  · split
    · exact repOk_noRep (by rfl) c
    · split
      · exact repOk_noRep (by rfl) c
      · exact repOk_msgScript r hz _ m c

theorem repOk_leaveScript (r : Realm) (k : SessKey) (mode : LeaveMode)
    (hm : ∀ g ka, mode = .killed g ka → isGoodbyeMsg g = true) (c : ReqId) : RepOk (leaveScript r k mode) c := by
  unfold leaveScript
  split
  · exact repOk_noRep (by rfl) c
  · have h0 := (leaveOffer_noRep k mode hm).replies c
    by_cases hs : mode.isShutdown = true
    · right
      dsimp only
      rw [repliesFor_append, h0, if_pos hs]
      rfl
    · left
      dsimp only
      rw [repliesFor_append, h0, if_neg hs, repliesFor_append,
        (noRep_of_forall (dbrokerRemove_noreply r.broker k r.pubCount)).replies c, replyStream_cons]
      simp [replyStream]

/-- WITHOUT AN AUTHORIZER the replies for `c` among the offers of an atomic action are exactly the replies its dealer
    steps send — or there is none (a departure at router shutdown discards the dealer's replies) -/
theorem Rec.offer_replies (x : Rec) (hz : x.pre.cfg.authz = none) (hk : ∀ t, x.act = .task t → TaskEvOk t)
    (c : ReqId) : RepOk x.script c := by
  obtain ⟨r, a⟩ := x
  cases a with
  | op o =>
    cases o with
    | msg k m => exact repOk_recvScript r hz k m c
    | _ => exact repOk_noRep (by rfl) c
  | task t =>
    cases t with
    | metaPub p => exact repOk_noRep (publishScript_noRep ..) c
    | metaInvoke req reg details args kw => exact repOk_noRep (by rfl) c
    | metaMsg m => exact repOk_msgScript { r with tasks := r.tasks.tail } hz _ m c
    | leave k mode =>
      show RepOk (if ({ r with tasks := r.tasks.tail } : Realm).busy k then {} else
        leaveScript { r with tasks := r.tasks.tail } k mode) c
      split
      · exact repOk_noRep (by rfl) c
      · refine repOk_leaveScript _ k mode ?_ c
        intro g ka e
        have := hk _ rfl
        rw [e] at this
        exact this
    | inMsg k m => exact repOk_recvScript { r with tasks := r.tasks.tail } hz k m c
  | timer t =>
    left
    show repliesFor c (timerScript { r with now := max r.now t.deadline } t).offers =
      replyStream c (timerScript { r with now := max r.now t.deadline } t).dsteps
    unfold timerScript
    rw [replyStream_cons, replyStream_cons]
    simp [replyStream]
  | retry y => exact repOk_dealerScript ..
  | flush => exact repOk_noRep (by rfl) c
  | clock t => exact repOk_noRep (by rfl) c
  | fuel text => exact repOk_noRep (by rfl) c

/-- the configuration never changes -/
theorem act_cfg (r : Realm) (a : Act) : (a.apply r).cfg = r.cfg := by
  cases a with
  | op o => exact (WpA.evo_stepOp r o).cfg
  | task t => exact (WpA.evo_runTask { r with tasks := r.tasks.tail } t).cfg
  | timer t => exact (WpA.quiet_timerDue { r with now := max r.now t.deadline } t).cfg
  | retry y => exact (WpA.quiet_retryDue { r with now := max r.now y.next } y).cfg
  | flush => exact (WpA.quiet_flush r).cfg
  | clock t => rfl
  | fuel text => exact (WpA.quiet_setPanic r _).cfg

theorem chain_cfg {r r' : Realm} {tr : List Rec} (h : Chain r tr r') : (∀ x ∈ tr, x.pre.cfg = r.cfg) ∧ r'.cfg = r.cfg := by
  induction h with
  | nil r => exact ⟨fun _ hx => (nomatch hx), rfl⟩
  | @cons x tr r' _ ih =>
    have e : x.post.cfg = x.pre.cfg := act_cfg x.pre x.act
    refine ⟨?_, ih.2.trans e⟩
    intro y hy
    rcases List.mem_cons.mp hy with rfl | hy
    · rfl
    · exact (ih.1 y hy).trans e

/-! ### along a chain -/

/-- the replies the dealer steps of a trace send for `c`, in order -/
def dealerReplies (c : ReqId) (tr : List Rec) : List Send := tr.flatMap (fun x => replyStream c x.script.dsteps)

theorem dealerReplies_cons (c : ReqId) (x : Rec) (tr : List Rec) :
    dealerReplies c (x :: tr) = replyStream c x.script.dsteps ++ dealerReplies c tr := rfl

/-- … they are the reply stream (`replyStream`, Nexus/L2/Proofs/DealerOrder.lean) of the dealer run of the trace -/
theorem dealerReplies_eq (c : ReqId) (tr : List Rec) : dealerReplies c tr = replyStream c (dstepsOf tr) := by
  induction tr with
  | nil => rfl
  | cons x tr ih =>
    rw [dealerReplies_cons, ih]
    show _ = replyStream c (x.script.dsteps ++ dstepsOf tr)
    unfold replyStream
    rw [List.flatMap_append]

theorem Rec.dinv_post (x : Rec) (hi : DealerInv x.pre.ds) : DealerInv x.post.ds := (x.spec.2.2.1).inv hi

/-- NOTHING FOR A CALL THAT IS NOT PENDING.  Along a chain of atomic actions that starts with `c` not pending and in
    which no action is a NEW call `c` (a handler reading the CALL `c` while `c` is not pending): no dealer step sends
    a reply for `c`, and `c` is not pending at the end. -/
theorem chain_no_reply {r r' : Realm} {tr : List Rec} (h : Chain r tr r') (c : ReqId) :
    DealerInv r.ds → c ∉ r.ds.d.calls → (∀ x ∈ tr, x.call? = some c → c ∈ x.pre.ds.d.calls) →
    (∀ x ∈ tr, replyStream c x.script.dsteps = []) ∧ c ∉ r'.ds.d.calls ∧ DealerInv r'.ds := by
  induction h with
  | nil r => intro hi hc _; exact ⟨fun _ hx => (nomatch hx), hc, hi⟩
  | @cons x tr r' _ ih =>
    intro hi hc hno
    have a := x.actOk hi c
    have hno0 : ¬ x.call? = some c := fun e => hc (hno x (List.mem_cons_self ..) e)
    have hc' : c ∉ x.post.ds.d.calls := fun hx => (a.sub hx).elim hc hno0
    obtain ⟨h1, h2, h3⟩ := ih (x.dinv_post hi) hc' (fun y hy => hno y (List.mem_cons_of_mem _ hy))
    refine ⟨?_, h2, h3⟩
    intro y hy
    rcases List.mem_cons.mp hy with rfl | hy
    · cases hr : replyStream c y.script.dsteps with
      | nil => rfl
      | cons z zs => exact absurd (a.known (by rw [hr]; simp)) (fun hx => hx.elim hc hno0)
    · exact h1 y hy

/-- THE EPISODE OF ONE CALL along a chain of atomic actions in which no action is a NEW call `c`: the replies the dealer
    sends for `c` are progressive RESULTs followed by at most one final reply, with which `c` is no longer pending at
    the end. -/
theorem chain_episode {r r' : Realm} {tr : List Rec} (h : Chain r tr r') (c : ReqId) :
    DealerInv r.ds → (∀ x ∈ tr, x.call? = some c → c ∈ x.pre.ds.d.calls) →
    ∃ ps f, dealerReplies c tr = ps ++ f ∧ (∀ y ∈ ps, y.msg.isFinalReply = false) ∧
      (f = [] ∨ ∃ y, f = [y] ∧ y.msg.isFinalReply = true ∧ c ∉ r'.ds.d.calls) := by
  induction h with
  | nil r => intro _ _; exact ⟨[], [], rfl, by simp, Or.inl rfl⟩
  | @cons x tr r' rest ih =>
    intro hi hno
    have hno' : ∀ y ∈ tr, y.call? = some c → c ∈ y.pre.ds.d.calls := fun y hy => hno y (List.mem_cons_of_mem _ hy)
    have a := x.actOk hi c
    rw [dealerReplies_cons]
    match hrep : replyStream c x.script.dsteps with
    | [] =>
      obtain ⟨ps, f, h1, h2, h3⟩ := ih (x.dinv_post hi) hno'
      exact ⟨ps, f, by simpa using h1, h2, h3⟩
    | [y] =>
      cases hf : y.msg.isFinalReply with
      | true =>
        have hgone : c ∉ x.post.ds.d.calls := a.final ⟨y, by rw [hrep]; simp, hf⟩
        obtain ⟨hnone, hc', _⟩ := chain_no_reply rest c (x.dinv_post hi) hgone hno'
        have hempty : dealerReplies c tr = [] := by
          unfold dealerReplies
          rw [List.flatMap_eq_nil_iff]
          exact hnone
        exact ⟨[], [y], by simp [hempty], by simp, Or.inr ⟨y, rfl, hf, hc'⟩⟩
      | false =>
        obtain ⟨ps, f, h1, h2, h3⟩ := ih (x.dinv_post hi) hno'
        refine ⟨y :: ps, f, by simp [h1], ?_, h3⟩
        intro z hz
        rcases List.mem_cons.mp hz with rfl | hz
        · exact hf
        · exact h2 z hz
    | _ :: _ :: _ =>
      have := a.one
      rw [hrep] at this
      simp at this

/-- … the same when the FIRST action of the chain is free (in particular the handler reading the CALL that opens `c`) -/
theorem chain_episode_from {x0 : Rec} {r' : Realm} {tr : List Rec} (rest : Chain x0.post tr r') (c : ReqId)
    (hi : DealerInv x0.pre.ds) (hno : ∀ x ∈ tr, x.call? = some c → c ∈ x.pre.ds.d.calls) :
    ∃ ps f, dealerReplies c (x0 :: tr) = ps ++ f ∧ (∀ y ∈ ps, y.msg.isFinalReply = false) ∧
      (f = [] ∨ ∃ y, f = [y] ∧ y.msg.isFinalReply = true ∧ c ∉ r'.ds.d.calls) := by
  have a := x0.actOk hi c
  rw [dealerReplies_cons]
  match hrep : replyStream c x0.script.dsteps with
  | [] =>
    obtain ⟨ps, f, h1, h2, h3⟩ := chain_episode rest c (x0.dinv_post hi) hno
    exact ⟨ps, f, by simpa using h1, h2, h3⟩
  | [y] =>
    cases hf : y.msg.isFinalReply with
    | true =>
      have hgone : c ∉ x0.post.ds.d.calls := a.final ⟨y, by rw [hrep]; simp, hf⟩
      obtain ⟨hnone, hc', _⟩ := chain_no_reply rest c (x0.dinv_post hi) hgone hno
      have hempty : dealerReplies c tr = [] := by
        unfold dealerReplies
        rw [List.flatMap_eq_nil_iff]
        exact hnone
      exact ⟨[], [y], by simp [hempty], by simp, Or.inr ⟨y, rfl, hf, hc'⟩⟩
    | false =>
      obtain ⟨ps, f, h1, h2, h3⟩ := chain_episode rest c (x0.dinv_post hi) hno
      refine ⟨y :: ps, f, by simp [h1], ?_, h3⟩
      intro z hz
      rcases List.mem_cons.mp hz with rfl | hz
      · exact hf
      · exact h2 z hz
  | _ :: _ :: _ =>
    have := a.one
    rw [hrep] at this
    simp at this

/-! ### offered and enqueued replies are among the dealer's -/

/-- all offers / all enqueued offers of a trace, in order -/
def offersOf (tr : List Rec) : List Send := tr.flatMap (fun x => x.script.offers)
def enqueuedOf (tr : List Rec) : List Send := tr.flatMap Rec.enqueued

theorem repliesFor_flatMap (c : ReqId) (tr : List Rec) (f : Rec → List Send) :
    repliesFor c (tr.flatMap f) = tr.flatMap (fun x => repliesFor c (f x)) := by
  induction tr with
  | nil => rfl
  | cons x tr ih => simp only [List.flatMap_cons, repliesFor_append, ih]

theorem flatMap_sublist {α β : Type} (l : List α) (f g : α → List β) (h : ∀ x ∈ l, (f x).Sublist (g x)) :
    (l.flatMap f).Sublist (l.flatMap g) := by
  induction l with
  | nil => exact List.Sublist.refl _
  | cons x l ih =>
    simp only [List.flatMap_cons]
    exact List.Sublist.append (h x (List.mem_cons_self ..)) (ih (fun y hy => h y (List.mem_cons_of_mem _ hy)))

theorem repliesFor_sublist (c : ReqId) {l l' : List Send} (h : l'.Sublist l) :
    (repliesFor c l').Sublist (repliesFor c l) := by
  unfold repliesFor
  exact h.filter _

/-- progress* final? is inherited by sub-lists -/
theorem shape_sublist {Q : Prop} {l l' ps f : List Send} (hs : l'.Sublist l) (hl : l = ps ++ f)
    (hp : ∀ y ∈ ps, y.msg.isFinalReply = false)
    (hf : f = [] ∨ ∃ y, f = [y] ∧ y.msg.isFinalReply = true ∧ Q) :
    ∃ ps' f', l' = ps' ++ f' ∧ (∀ y ∈ ps', y.msg.isFinalReply = false) ∧
      (f' = [] ∨ ∃ y, f' = [y] ∧ y.msg.isFinalReply = true ∧ Q) := by
  rw [hl] at hs
  obtain ⟨l1, l2, e, h1, h2⟩ := List.sublist_append_iff.mp hs
  refine ⟨l1, l2, e, fun y hy => hp y (h1.subset hy), ?_⟩
  rcases hf with rfl | ⟨y, rfl, hy, hq⟩
  · exact Or.inl (List.sublist_nil.mp h2)
  · cases l2 with
    | nil => exact Or.inl rfl
    | cons z zs =>
      right
      have hlen := h2.length_le
      simp only [List.length_cons, List.length_nil] at hlen
      have hz : zs = [] := by
        cases zs with
        | nil => rfl
        | cons _ _ => simp at hlen
      subst hz
      have : z = y := by
        have := h2.subset (List.mem_cons_self ..)
        simpa using this
      subst this
      exact ⟨z, rfl, hy, hq⟩

/-- WITHOUT AN AUTHORIZER: along a chain from a state satisfying `KillOk`, the replies for `c` that are OFFERED are a
    sub-list of the replies the dealer sends for `c`, and those ENQUEUED a sub-list of those offered -/
theorem chain_replies_sublist {r r' : Realm} {tr : List Rec} (h : Chain r tr r') (hw : ∀ x ∈ tr, x.wf)
    (hz : r.cfg.authz = none) (hk : KillOk r) (c : ReqId) :
    (repliesFor c (offersOf tr)).Sublist (dealerReplies c tr) ∧
    (repliesFor c (enqueuedOf tr)).Sublist (repliesFor c (offersOf tr)) := by
  have hcfg := (chain_cfg h).1
  have hko := (chain_tasksOk (P := fun _ _ => True) h hw (fun _ _ _ _ _ => trivial) hk).1
  constructor
  · unfold offersOf dealerReplies
    rw [repliesFor_flatMap]
    apply flatMap_sublist
    intro x hx
    have hr := x.offer_replies (by rw [hcfg x hx]; exact hz) (fun t e => by
      have hh := hw x hx t e
      have hmem : t ∈ x.pre.tasks := by
        cases hl : x.pre.tasks with
        | nil => rw [hl] at hh; cases hh
        | cons a l =>
          rw [hl] at hh
          simp only [List.head?_cons, Option.some.injEq] at hh
          subst hh; exact List.mem_cons_self ..
      exact ((hko x hx).tasks t hmem).evOk) c
    rcases hr with e | e
    · rw [e]; exact List.Sublist.refl _
    · rw [e]; exact List.nil_sublist _
  · unfold offersOf enqueuedOf
    rw [repliesFor_flatMap, repliesFor_flatMap]
    apply flatMap_sublist
    intro x _
    exact repliesFor_sublist c (taken_sublist _ _)

/-! ### external inputs in a trace -/

theorem traceDrain_noop : ∀ (fuel : Nat) (r : Realm), ∀ x ∈ traceDrain fuel r, ∀ o, x.act ≠ .op o
  | 0, r, x, hx, o => by
    unfold traceDrain at hx
    split at hx
    · cases hx
    · rw [List.mem_singleton.mp hx]; intro e; cases e
  | fuel + 1, r, x, hx, o => by
    unfold traceDrain at hx
    split at hx
    · cases hx
    · rcases List.mem_cons.mp hx with rfl | hx
      · intro e; cases e
      · exact traceDrain_noop fuel _ x hx o

theorem traceAdvance_noop : ∀ (fuel : Nat) (r : Realm) (target : Nat), ∀ x ∈ traceAdvance fuel r target, ∀ o, x.act ≠ .op o
  | 0, r, target, x, hx, o => by
    unfold traceAdvance at hx
    simp only [List.mem_cons, List.not_mem_nil, or_false] at hx
    rcases hx with rfl | rfl <;> (intro e; cases e)
  | fuel + 1, r, target, x, hx, o => by
    unfold traceAdvance at hx
    split at hx
    · rw [List.mem_singleton.mp hx]; intro e; cases e
    · rename_i d _
      rcases List.mem_cons.mp hx with rfl | hx
      · intro e
        cases d <;> cases e
      · rcases List.mem_append.mp hx with hx | hx
        · exact traceDrain_noop _ _ x hx o
        · exact traceAdvance_noop fuel _ target x hx o

/-- the external inputs among the actions of a history are inputs of the history -/
theorem traceHist_ops : ∀ (ops : List Op) (r : Realm), ∀ x ∈ traceHist r ops, ∀ o, x.act = .op o → o ∈ ops
  | [], _, _, hx, _, _ => nomatch hx
  | op :: ops, r, x, hx, o, e => by
    rcases List.mem_append.mp hx with hx | hx
    · by_cases ht : ∃ ms, op = .tick ms
      · obtain ⟨ms, rfl⟩ := ht
        rcases List.mem_append.mp hx with hx | hx
        · exact absurd e (traceAdvance_noop _ _ _ x hx o)
        · rw [List.mem_singleton.mp hx] at e; cases e
      · have e' : traceStep r op =
            ⟨r, .op op⟩ :: (traceDrain taskFuel (r.stepOp op) ++ [⟨drain taskFuel (r.stepOp op), .flush⟩]) := by
          cases op <;> first | rfl | exact absurd ⟨_, rfl⟩ ht
        rw [e'] at hx
        rcases List.mem_cons.mp hx with rfl | hx
        · cases e; exact List.mem_cons_self ..
        · rcases List.mem_append.mp hx with hx | hx
          · exact absurd e (traceDrain_noop _ _ x hx o)
          · rw [List.mem_singleton.mp hx] at e; cases e
    · exact List.mem_cons_of_mem _ (traceHist_ops ops _ x hx o e)

/-- if an action is the CALL `c` then its session's handler reads a CALL message with that request id -/
theorem msgCall_some {r : Realm} {s : Session} {m : Msg} {c : ReqId} (h : msgCall r s m = some c) :
    c.sess = s.key ∧ ∃ opts proc args kw, m = .call c.req opts proc args kw := by
  unfold msgCall at h
  split at h
  · split at h
    · simp only [Option.some.injEq] at h
      subst h
      exact ⟨rfl, _, _, _, _, rfl⟩
    · cases h
  · cases h

theorem recvCall_some {r : Realm} {k : SessKey} {m : Msg} {c : ReqId} (h : recvCall r k m = some c) :
    c.sess = k ∧ ∃ opts proc args kw, m = .call c.req opts proc args kw := by
  unfold recvCall at h
  split at h
  · cases h
  · rename_i s hf
    split at h
    · cases h
    · split at h
      · cases h
      · obtain ⟨h1, h2⟩ := msgCall_some h
        exact ⟨h1.trans (find?_key hf).2, h2⟩

/-- an action of a well-formed trace that is the CALL `c`: the CALL was brought by an external input, or it waited in
    the transport (`TasksOk P`) -/
theorem Rec.call_src {P : SessKey → Msg → Prop} (x : Rec) (hw : x.wf) (ht : TasksOk P x.pre)
    (hop : ∀ k m, x.act = .op (.msg k m) → P k m) {c : ReqId} (h : x.call? = some c) :
    ∃ opts proc args kw, P c.sess (.call c.req opts proc args kw) := by
  obtain ⟨r, a⟩ := x
  unfold Rec.call? at h
  dsimp only at h
  split at h
  · rename_i k m
    obtain ⟨h1, o, p, ar, kw, rfl⟩ := recvCall_some h
    exact ⟨o, p, ar, kw, h1 ▸ hop k _ rfl⟩
  · rename_i k m
    obtain ⟨h1, o, p, ar, kw, rfl⟩ := recvCall_some h
    have hh := hw _ rfl
    have hmem : Task.inMsg k (.call c.req o p ar kw) ∈ r.tasks := by
      cases hl : r.tasks with
      | nil => rw [hl] at hh; cases hh
      | cons a l =>
        rw [hl] at hh
        simp only [List.head?_cons, Option.some.injEq] at hh
        subst hh; exact List.mem_cons_self ..
    exact ⟨o, p, ar, kw, h1 ▸ ht.tasks _ hmem⟩
  · rename_i m
    obtain ⟨_, o, p, ar, kw, rfl⟩ := msgCall_some h
    have hh := hw _ rfl
    have hmem : Task.metaMsg (.call c.req o p ar kw) ∈ r.tasks := by
      cases hl : r.tasks with
      | nil => rw [hl] at hh; cases hh
      | cons a l =>
        rw [hl] at hh
        simp only [List.head?_cons, Option.some.injEq] at hh
        subst hh; exact List.mem_cons_self ..
    have := ht.tasks _ hmem
    cases this
  · cases h

end Nexus.L2.WpE
