/-
  C07 "stall isolation", part 2: the broker half.  The broker handlers take no "is the queue full"
  argument, so `EqOff x` is preserved by PUBLISH / SUBSCRIBE / UNSUBSCRIBE of EVERY sender (also `x`
  itself), by the authorization gate and by the publications of the meta session.
-/
import Nexus.L2.Proofs.WpCStallBase
import Nexus.L2.Proofs.RealmPublish

set_option linter.unusedSimpArgs false

namespace Nexus.L2.WpC
open Nexus.L2 Nexus.L2.Realm Gen.N

variable {x : SessKey}

/-! ### the broker reads sessions only up to `stalled` -/

theorem pubEvent_congr {sess sess' : SessKey → Option Session} (hs : ∀ k, OSEq x (sess k) (sess' k))
    (b : Broker) (now : Nat) (p : Publication) (f : Filter) (sub : Sub) (st : Bool) :
    b.pubEvent sess' now p f sub st = b.pubEvent sess now p f sub st := by
  unfold Broker.pubEvent
  dsimp only
  congr 1
  refine congrArg (fun g => List.filterMap g sub.members) (funext fun k => ?_)
  rcases (hs k).cases with ⟨e1, e2⟩ | ⟨c, c', e1, e2, hc⟩
  · rw [e1, e2]
  · rw [e1, e2]
    have h1 : receives p f c' = receives p f c := by
      unfold receives; rw [hc.key, hc.details]
    have h2 : mkEvent p sub st (some c') = mkEvent p sub st (some c) := by
      unfold mkEvent eventDetails
      simp only [hc.hasFeature]
    simp only [h1, h2]

theorem pubEvents_congr {sess sess' : SessKey → Option Session} (hs : ∀ k, OSEq x (sess k) (sess' k))
    (now : Nat) (p : Publication) (f : Filter) : ∀ (l : List (Sub × Bool)) (b : Broker),
    b.pubEvents sess' now p f l = b.pubEvents sess now p f l
  | [], _ => rfl
  | (sub, st) :: rest, b => by
    unfold Broker.pubEvents
    rw [pubEvent_congr hs]
    simp only [pubEvents_congr hs now p f rest]

theorem syncPublish_congr {sess sess' : SessKey → Option Session} (hs : ∀ k, OSEq x (sess k) (sess' k))
    (b : Broker) (now : Nat) (p : Publication) :
    b.syncPublish sess' now p = b.syncPublish sess now p := by
  unfold Broker.syncPublish
  exact pubEvents_congr hs now p _ _ b

/-! ### the handlers -/

theorem eqoff_handlePublish {r r' : Realm} (h : EqOff x r r') {s s' : Session} (hs : SEq x s s')
    (req : Nat) (opts : Dict) (topic : String) (args : List WVal) (kw : Dict) :
    EqOff x (handlePublish r s req opts topic args kw) (handlePublish r' s' req opts topic args kw) := by
  have hb := h.broker
  have hpp : pptRefused s' opts = pptRefused s opts := by unfold pptRefused; rw [hs.hasFeature]
  have hdd : discloseRefused r' opts = discloseRefused r opts := by unfold discloseRefused; rw [hb]
  cases hv : validUri r.broker.strict "" topic
  · rw [handlePublish_invalid r s _ _ _ _ _ hv, handlePublish_invalid r' s' _ _ _ _ _ (by rw [hb]; exact hv), hs.key]
    exact eqoff_deliver _ h
  · cases hp : pptRefused s opts
    · cases hd : discloseRefused r opts
      · rw [handlePublish_ok r s _ _ _ _ _ hv hp hd,
          handlePublish_ok r' s' _ _ _ _ _ (by rw [hb]; exact hv) (by rw [hpp]; exact hp) (by rw [hdd]; exact hd)]
        have e1 : pubOf r' s' opts topic args kw = pubOf r s opts topic args kw := by
          unfold pubOf; rw [hs.key, hs.details, h.pubCount]
        rw [e1, hb, h.now, h.pubCount, hs.key, syncPublish_congr (x := x) (fun k => h.session k)]
        apply eqoff_deliver
        eqoff_upd h
      · rw [handlePublish_refused r s _ _ _ _ _ hv hp hd,
          handlePublish_refused r' s' _ _ _ _ _ (by rw [hb]; exact hv) (by rw [hpp]; exact hp) (by rw [hdd]; exact hd),
          hs.key]
        exact eqoff_deliver _ h
    · rw [handlePublish_ppt r s _ _ _ _ _ hv hp,
        handlePublish_ppt r' s' _ _ _ _ _ (by rw [hb]; exact hv) (by rw [hpp]; exact hp), hs.key]
      have h1 := eqoff_trySend h ⟨s.key, abortMsg "<text>"⟩
      eqoff_upd h1

theorem eqoff_handleSubscribe {r r' : Realm} (h : EqOff x r r') {s s' : Session} (hs : SEq x s s')
    (req : Nat) (opts : Dict) (topic : String) :
    EqOff x (handleSubscribe r s req opts topic) (handleSubscribe r' s' req opts topic) := by
  have hb := h.broker
  cases hv : validUri r.broker.strict (opts.optString OptMatch) topic
  · rw [handleSubscribe_invalid r s _ _ _ hv, handleSubscribe_invalid r' s' _ _ _ (by rw [hb]; exact hv), hs.key]
    exact eqoff_deliver _ h
  · rw [handleSubscribe_ok r s _ _ _ hv, handleSubscribe_ok r' s' _ _ _ (by rw [hb]; exact hv), hs.key, hb,
      h.pubCount]
    apply eqoff_deliver
    eqoff_upd h

theorem eqoff_handleUnsubscribe {r r' : Realm} (h : EqOff x r r') {s s' : Session} (hs : SEq x s s')
    (req sub : Nat) :
    EqOff x (handleUnsubscribe r s req sub) (handleUnsubscribe r' s' req sub) := by
  rw [handleUnsubscribe_eq, handleUnsubscribe_eq, hs.key, h.broker, h.pubCount]
  apply eqoff_deliver
  eqoff_upd h

/-- the authorization gate: same verdict, and the refusal (if any) is one send to the sender -/
theorem eqoff_authzGate {r r' : Realm} (h : EqOff x r r') {s s' : Session} (hs : SEq x s s') (m : Msg) :
    (authzGate r' s' m).1 = (authzGate r s m).1 ∧ EqOff x (authzGate r s m).2 (authzGate r' s' m).2 := by
  unfold authzGate
  simp only [h.cfg, hs.key, hs.isLocal]
  split
  · exact ⟨rfl, h⟩
  · split
    · exact ⟨rfl, h⟩
    · split
      · exact ⟨rfl, h⟩
      · split
        · exact ⟨rfl, h⟩
        · refine ⟨rfl, ?_⟩
          dsimp only
          repeat' split
          all_goals first | exact h | exact eqoff_trySend h _

theorem eqoff_metaPublish {r r' : Realm} (h : EqOff x r r') (p : MetaPub) :
    EqOff x (r.metaPublish p) (r'.metaPublish p) := by
  unfold Realm.metaPublish
  exact eqoff_handlePublish h (by rw [h.metaS]; exact SEq.refl _) _ _ _ _ _

end Nexus.L2.WpC
