/-
  Work package C: WHOEVER IS MARKED AS ENDING HAS ITS DEPARTURE PENDING (or deferred).

  `Paired r r'`: every key an action appends to `ending` comes with a `leave` task appended to `tasks`
  (all handlers, the dealer's aborts, the `kill*` meta procedures, `drop`).  Hence the invariant
  `EndPending`: for every key in `ending` a `leave` task is pending or a departure is deferred (handler in
  the retry loop).  At quiescence (no pending task) only sessions with a deferred departure are still
  marked — whatever ended a session (lost transport, GOODBYE, violation, abort by broker or dealer, kill
  through the meta API), by the end of that step it has left unless its handler is in the retry loop.
-/
import Nexus.L2.Proofs.WpCGone

namespace Nexus.L2.WpC
open Nexus.L2 Nexus.L2.Realm Nexus.Gen.N

def Paired (r r' : Realm) : Prop :=
  ∃ e ts, r'.ending = r.ending ++ e ∧ r'.tasks = r.tasks ++ ts ∧ r'.deferred = r.deferred ∧
    ∀ j ∈ e, ∃ mode, Task.leave j mode ∈ ts

theorem Paired.refl (r : Realm) : Paired r r := ⟨[], [], by simp, by simp, rfl, fun _ h => nomatch h⟩

theorem Paired.trans {a b c : Realm} (h1 : Paired a b) (h2 : Paired b c) : Paired a c := by
  obtain ⟨e1, t1, a1, b1, d1, p1⟩ := h1
  obtain ⟨e2, t2, a2, b2, d2, p2⟩ := h2
  refine ⟨e1 ++ e2, t1 ++ t2, by rw [a2, a1, List.append_assoc], by rw [b2, b1, List.append_assoc], d2.trans d1, ?_⟩
  intro j hj
  rcases List.mem_append.mp hj with h | h
  · obtain ⟨m, hm⟩ := p1 j h; exact ⟨m, List.mem_append_left _ hm⟩
  · obtain ⟨m, hm⟩ := p2 j h; exact ⟨m, List.mem_append_right _ hm⟩

/-- an action that leaves `ending` and `deferred` alone and only appends tasks -/
theorem Paired.of_same {r r' : Realm} (he : r'.ending = r.ending) (hd : r'.deferred = r.deferred)
    (ht : ∃ ts, r'.tasks = r.tasks ++ ts) : Paired r r' := by
  obtain ⟨ts, hts⟩ := ht
  exact ⟨[], ts, by rw [he]; simp, hts, hd, fun _ h => nomatch h⟩

theorem Paired.of_eff_never {r r' : Realm} {Q : Retry → Prop} (h : Eff (fun _ => False) Q r r') : Paired r r' := by
  obtain ⟨e, he, pe⟩ := h.ending
  obtain ⟨ts, hts, _⟩ := h.tasks
  have e0 : e = [] := by cases e with | nil => rfl | cons a _ => exact absurd (pe a (List.mem_cons_self ..)) id
  exact Paired.of_same (by rw [he, e0]; simp) h.deferred ⟨ts, hts⟩

theorem paired_trySend (r : Realm) (s : Send) : Paired r (r.trySend s) :=
  Paired.of_eff_never (eff_trySend (Q := fun _ => False) r s)

theorem paired_deliver (ss : List Send) (r : Realm) : Paired r (r.deliver ss) :=
  Paired.of_eff_never (eff_deliver (Q := fun _ => False) ss r)

theorem paired_applyD (r : Realm) (o : DOut) : Paired r (r.applyD o) := by
  refine ⟨o.aborts, o.sends.filterMap dmetaTask ++ (o.metaPubs.map Task.metaPub ++ o.aborts.map (fun k => Task.leave k .aborted)),
    dapplyD_ending r o, ?_, dapplyD_deferred r o, ?_⟩
  · rw [dapplyD_tasks, List.append_assoc, List.append_assoc]
  · intro j hj
    exact ⟨.aborted, List.mem_append_right _ (List.mem_append_right _ (List.mem_map.mpr ⟨j, hj, rfl⟩))⟩

theorem paired_end (r : Realm) (k : SessKey) (mode : LeaveMode) :
    Paired r { r with tasks := r.tasks ++ [.leave k mode], ending := r.ending ++ [k] } :=
  ⟨[k], [.leave k mode], rfl, rfl, rfl, fun j hj => ⟨mode, by rw [List.mem_singleton.mp hj]; exact List.mem_singleton.mpr rfl⟩⟩

theorem paired_tables (r : Realm) (b : Broker) (d : DState) (n : Nat) (tst : List (SessKey × TBucket)) :
    Paired r { r with broker := b, ds := d, pubCount := n, testaments := tst } :=
  Paired.of_same rfl rfl ⟨[], by simp⟩

theorem paired_handlePublish (r : Realm) (s : Session) (req : Nat) (opts : Dict) (topic : String) (args : List WVal)
    (kw : Dict) : Paired r (handlePublish r s req opts topic args kw) := by
  unfold handlePublish
  simp only [freshPub]
  split
  · split
    · exact paired_trySend _ _
    · exact Paired.refl _
  · split
    · exact (paired_trySend r _).trans (paired_end _ s.key .aborted)
    · split
      · split
        · exact paired_trySend _ _
        · exact Paired.refl _
      · split
        · exact ((paired_tables r _ r.ds (r.pubCount + 1) r.testaments).trans (paired_deliver _ _)).trans (paired_trySend _ _)
        · exact (paired_tables r _ r.ds (r.pubCount + 1) r.testaments).trans (paired_deliver _ _)

theorem paired_brokerStep (r : Realm) (b : Broker) (n : Nat) (sends : List Send) :
    Paired r (({ r with broker := b, pubCount := n } : Realm).deliver sends) :=
  (paired_tables r b r.ds n r.testaments).trans (paired_deliver _ _)

theorem paired_dispatch (r : Realm) (s : Session) (m : Msg) : Paired r (Realm.dispatch r s m) := by
  cases m
  case publish => exact paired_handlePublish ..
  case yield req opts args kw =>
    show Paired r (handleYield r s req opts args kw)
    unfold handleYield
    extract_lets progress o r1
    have h1 : Paired r r1 := paired_applyD _ _
    split
    · exact h1.trans (Paired.of_same rfl rfl ⟨[], by simp⟩)
    · exact h1
  case call => exact paired_applyD _ _
  case cancel req opts =>
    show Paired r (handleCancel r s req opts)
    unfold handleCancel
    extract_lets mode0 mode
    split
    · exact paired_applyD _ _
    · exact paired_trySend _ _
  case subscribe req opts topic =>
    show Paired r (handleSubscribe r s req opts topic)
    unfold handleSubscribe
    extract_lets m
    split
    · exact paired_trySend _ _
    · split
      exact paired_brokerStep _ _ _ _
  case register req opts proc =>
    show Paired r (handleRegister r s req opts proc)
    unfold handleRegister
    extract_lets m wampURI disclose invoke fwd
    split
    · exact paired_trySend _ _
    · split
      · exact paired_trySend _ _
      · split
        · exact paired_trySend _ _
        · split
          · exact paired_trySend _ _
          · exact paired_applyD _ _
  case unsubscribe req sub =>
    show Paired r (handleUnsubscribe r s req sub)
    unfold handleUnsubscribe
    split
    exact paired_brokerStep _ _ _ _
  case unregister => exact paired_applyD _ _
  case error typ req details err args kw =>
    show Paired r (if typ != tINVOCATION then _ else handleError r s req details err args kw)
    split
    · exact paired_end _ _ _
    · exact paired_applyD _ _
  case goodbye =>
    exact (paired_trySend r ⟨s.key, .goodbye [] CloseGoodbyeAndOut⟩).trans (paired_end _ _ _)
  all_goals exact paired_end _ _ _

theorem paired_handleMsg (r : Realm) (s : Session) (m : Msg) : Paired r (handleMsg r s m) := by
  rw [handleMsg_eq]
  have hg : Paired r (authzGate r s m).2 := Paired.of_eff_never (eff_authzGate (Q := fun _ => False) r s m)
  split
  · exact hg.trans (paired_dispatch _ s m)
  · exact hg

theorem paired_recvMsg (r : Realm) (k : SessKey) (m : Msg) : Paired r (r.recvMsg k m) := by
  rw [recvMsg_eq]
  split
  · exact Paired.refl _
  · split
    · exact Paired.refl _
    · split
      · split
        · exact Paired.of_same rfl rfl ⟨[], by simp⟩
        · exact Paired.refl _
      · exact paired_handleMsg _ _ _

theorem paired_metaInvoke (r : Realm) (req reg : Nat) (details : Dict) (args : List WVal) (kw : Dict) :
    Paired r (r.runTask (.metaInvoke req reg details args kw)) := by
  rw [runTask_metaInvoke]
  split
  · exact Paired.of_same rfl rfl ⟨_, rfl⟩
  · rename_i proc _
    have he := metaProc_effect r proc req details args kw
    revert he
    generalize metaProc r proc req details args kw = res
    obtain ⟨rsp, r2⟩ := res
    intro he
    dsimp only at he ⊢
    cases he with
    | same => exact Paired.of_same rfl rfl ⟨_, rfl⟩
    | kill sel g ka =>
      refine ⟨_, (r.clients.filter (fun c => sel c && !r.ending.contains c.key)).map
          (fun c => Task.leave c.key (.killed g ka)) ++ [Task.metaMsg rsp], rfl, ?_, rfl, ?_⟩
      · show (r.tasks ++ _) ++ [Task.metaMsg rsp] = _
        rw [List.append_assoc]
      · intro j hj
        obtain ⟨c, hcm, rfl⟩ := List.mem_map.mp hj
        exact ⟨.killed g ka, List.mem_append_left _ (List.mem_map.mpr ⟨c, hcm, rfl⟩)⟩
    | modify k d => exact Paired.of_same rfl rfl ⟨_, rfl⟩
    | testaments t _ => exact Paired.of_same rfl rfl ⟨_, rfl⟩

/-! ### the invariant -/

/-- every session marked as ending has its departure pending or deferred -/
def EndPending (r : Realm) : Prop :=
  ∀ k ∈ r.ending, (∃ mode, Task.leave k mode ∈ r.tasks) ∨ ∃ d ∈ r.deferred, d.1 = k

theorem EndPending.paired {r r' : Realm} (h : EndPending r) (hp : Paired r r') : EndPending r' := by
  obtain ⟨e, ts, he, hts, hd, pe⟩ := hp
  intro k hk
  rw [he] at hk
  rcases List.mem_append.mp hk with hk | hk
  · rcases h k hk with ⟨m, hm⟩ | ⟨d, hdm, hdk⟩
    · exact Or.inl ⟨m, by rw [hts]; exact List.mem_append_left _ hm⟩
    · exact Or.inr ⟨d, by rw [hd]; exact hdm, hdk⟩
  · obtain ⟨m, hm⟩ := pe k hk
    exact Or.inl ⟨m, by rw [hts]; exact List.mem_append_right _ hm⟩

/-- one task of `drain`: the head is taken off the list and run -/
theorem EndPending.runHead {r : Realm} (hc : CtlInv r) (h : EndPending r) {t : Task} {ts : List Task}
    (ht : r.tasks = t :: ts) : EndPending (runTask { r with tasks := ts } t) := by
  -- witnesses among the remaining tasks: every key whose pending departure is not the head
  have hrest : ∀ k ∈ r.ending, (∀ mode, t ≠ Task.leave k mode) →
      (∃ mode, Task.leave k mode ∈ ts) ∨ ∃ d ∈ r.deferred, d.1 = k := by
    intro k hk hne
    rcases h k hk with ⟨m, hm⟩ | hd
    · rw [ht] at hm
      rcases List.mem_cons.mp hm with hm | hm
      · exact absurd hm.symm (hne m)
      · exact Or.inl ⟨m, hm⟩
    · exact Or.inr hd
  have hsame : (∀ k mode, t ≠ Task.leave k mode) → EndPending ({ r with tasks := ts } : Realm) :=
    fun hne k hk => hrest k hk (hne k)
  cases t with
  | metaPub p => exact (hsame (fun _ _ e => by cases e)).paired (paired_handlePublish ..)
  | metaMsg m => exact (hsame (fun _ _ e => by cases e)).paired (paired_handleMsg ..)
  | inMsg k m => exact (hsame (fun _ _ e => by cases e)).paired (paired_recvMsg ..)
  | metaInvoke a b c d e => exact (hsame (fun _ _ e => by cases e)).paired (paired_metaInvoke ..)
  | leave k mode =>
    rw [runTask_leave]
    split
    · -- deferred
      intro j hj
      by_cases hjk : j = k
      · exact Or.inr ⟨(k, mode), List.mem_append_right _ (List.mem_singleton.mpr rfl), hjk.symm⟩
      · rcases hrest j hj (fun m e => by cases e; exact hjk rfl) with h1 | ⟨d, hd, hdk⟩
        · exact Or.inl h1
        · exact Or.inr ⟨d, List.mem_append_left _ hd, hdk⟩
    · rename_i hb
      cases hf : ({ r with tasks := ts } : Realm).clients.find? (fun c => c.key == k) with
      | none =>
        rw [leave_none mode hf]
        intro j hj
        have hjk : j ≠ k := by
          intro e
          obtain ⟨c, hcm, hck⟩ := hc.ending j hj
          have := List.find?_eq_none.mp hf c hcm
          simp [hck, e] at this
        exact hrest j hj (fun m e => by cases e; exact hjk rfl)
      | some s =>
        obtain ⟨_, _, _, _, c5, _, _, _, c9, ts', hts', _⟩ := leave_ctl (r := ({ r with tasks := ts } : Realm)) mode hf
        intro j hj
        rw [c9] at hj
        obtain ⟨hj0, hne⟩ := List.mem_filter.mp hj
        have hjk : j ≠ k := by simpa using hne
        rcases hrest j hj0 (fun m e => by cases e; exact hjk rfl) with ⟨m, hm⟩ | ⟨d, hd, hdk⟩
        · exact Or.inl ⟨m, by rw [hts']; exact List.mem_append_left _ hm⟩
        · exact Or.inr ⟨d, by rw [c5]; exact hd, hdk⟩

theorem EndPending.stepOp {r : Realm} (h : EndPending r) (op : Op) : EndPending (r.stepOp op) := by
  cases op with
  | join k isLocal details roles cap =>
    rw [stepOp_join]
    split
    · exact h
    exact h.paired (Paired.of_same rfl rfl ⟨_, rfl⟩)
  | msg k m => rw [stepOp_msg]; exact h.paired (paired_recvMsg ..)
  | buffer k => rw [stepOp_buffer]; exact h
  | drop k =>
    rw [stepOp_drop]
    split
    · exact h
    split
    · exact h
    · exact h.paired (paired_end _ _ _)
  | stall k => rw [stepOp_stall]; exact h
  | resume k => rw [stepOp_resume]; exact h
  | tick ms => exact h
  | rnd n => exact h

theorem EndPending.timerDue {r : Realm} (h : EndPending r) (t : Timer) : EndPending (r.timerDue t) :=
  h.paired (Paired.of_eff_never (eff_timerDue (Q := fun _ => False) r t))

theorem EndPending.retryDue {r : Realm} (h : EndPending r) (x : Retry) : EndPending (r.retryDue x) := by
  have h1 : EndPending ({ r with retries := r.retries.filter (fun y => y.callee != x.callee) } : Realm) := h
  have h2 := h1.paired (paired_applyD _ (retryOut r x))
  rw [retryDue_eq]
  split
  · exact h2
  · intro k hk
    rcases h2 k hk with ⟨m, hm⟩ | ⟨d, hd, hdk⟩
    · exact Or.inl ⟨m, List.mem_append_left _ (List.mem_append_left _ hm)⟩
    · by_cases hc : d.1 = x.callee
      · refine Or.inl ⟨d.2, List.mem_append_right _ (List.mem_map.mpr ⟨d, List.mem_filter.mpr ⟨hd, by simpa using hc⟩, ?_⟩)⟩
        rw [hdk]
      · exact Or.inr ⟨d, List.mem_filter.mpr ⟨hd, by simpa using hc⟩, hdk⟩

theorem EndPending.congr {r r' : Realm} (h : EndPending r) (he : r'.ending = r.ending) (ht : r'.tasks = r.tasks)
    (hd : r'.deferred = r.deferred) : EndPending r' := by
  intro k hk
  rw [he] at hk
  rw [ht, hd]; exact h k hk

theorem EndPending.drain : ∀ (fuel : Nat) {r : Realm}, CtlInv r → EndPending r → EndPending (drain fuel r)
  | 0, r, _, h => by
    rw [drain_zero]
    split
    · exact h
    · exact h.paired (Paired.of_eff_never (eff_setPanic (Q := fun _ => False) r _))
  | fuel + 1, r, hc, h => by
    cases ht : r.tasks with
    | nil => rw [drain_succ_nil _ _ ht]; exact h
    | cons t ts =>
      rw [drain_succ_cons _ _ t ts ht]
      exact EndPending.drain fuel ((hc.tail ht).1.runTask t (hc.tail ht).2) (h.runHead hc ht)

theorem EndPending.advance : ∀ (fuel : Nat) {r : Realm} (target : Nat), RealmInv r → FuelOnly r.panic → CtlInv r →
    EndPending r → EndPending (advance fuel r target)
  | 0, r, target, _, _, _, h => by
    unfold Realm.advance
    exact (h.congr (r' := { r with now := target }) rfl rfl rfl).paired
      (Paired.of_eff_never (eff_setPanic (Q := fun _ => False) _ _))
  | fuel + 1, r, target, hi, hp, hc, h => by
    cases hd : nextDue r target with
    | none => rw [advance_succ_none hd]; exact h.congr rfl rfl rfl
    | some d =>
      rw [advance_succ_some hd]
      obtain ⟨h1, h1p⟩ := fire_rinv hi hd
      have hc0 : CtlInv ({ r with now := max r.now d.time } : Realm) :=
        hc.congr ⟨hc.safe.noClient, hc.safe.ending, hc.safe.tasks, hc.safe.deferred, hc.safe.retries, hc.safe.mkey,
          hc.safe.metaPPT⟩ rfl rfl rfl rfl
      have hi0 : RealmInv ({ r with now := max r.now d.time } : Realm) :=
        hi.of_parts rfl hi.binv hi.dinv hi.bmem hi.dref hi.callers hi.retr hi.tasks hi.inb rfl
      have h0 : EndPending ({ r with now := max r.now d.time } : Realm) := h.congr rfl rfl rfl
      have hc1 : CtlInv (fire r d) ∧ EndPending (fire r d) := by
        cases d with
        | timer t => exact ⟨hc0.timerDue t, h0.timerDue t⟩
        | retry x => exact ⟨CtlInv.retryDue hi0 hc0 (nextDue_retry hd), h0.retryDue x⟩
      obtain ⟨h3, h4⟩ := drain_inv taskFuel h1 (by rw [h1p]; exact hp)
      exact EndPending.advance fuel target h3 h4 (CtlInv.drain taskFuel hc1.1) (EndPending.drain taskFuel hc1.1 hc1.2)

theorem EndPending.step' {r : Realm} (hi : RealmInv r) (hp : FuelOnly r.panic) (hc : CtlInv r) (h : EndPending r)
    (op : Op) : EndPending (r.step op).2 := by
  by_cases ht : ∃ ms, op = .tick ms
  · obtain ⟨ms, rfl⟩ := ht
    rw [step_tick]
    obtain ⟨f1, f2, _, _, f5, _⟩ := flush_ctl (Realm.advance 10000 r (r.now + ms))
    exact (EndPending.advance _ _ hi hp hc h).congr f1 f2 f5
  · rw [step_of_not_tick r op (fun ms e => ht ⟨ms, e⟩)]
    obtain ⟨f1, f2, _, _, f5, _⟩ := flush_ctl (Realm.drain taskFuel (r.stepOp op))
    exact (EndPending.drain _ (hc.stepOp' op) (h.stepOp op)).congr f1 f2 f5

theorem EndPending.step {r : Realm} (hi : RealmInv r) (hp : FuelOnly r.panic) (hc : CtlInv r) (h : EndPending r)
    (op : Op) (_hop : OpC r op) : EndPending (r.step op).2 := EndPending.step' hi hp hc h op

/-- in every reachable realm each session marked as ending has its departure pending (as a task) or
    deferred (its handler is in the yield retry loop) — no hypothesis on the inputs -/
theorem _root_.Nexus.L2.Realm.Reachable.endPending {cfg : Config} {r : Realm} (h : Realm.Reachable cfg r) :
    EndPending r := by
  induction h with
  | init h =>
    obtain ⟨_, _, he⟩ := create_metaSafe h
    intro k hk; rw [he] at hk; cases hk
  | step op hr ih => exact ih.step' hr.inv.1 hr.inv.2 hr.ctl op

theorem ReachableC.endPending {cfg : Config} {r : Realm} (h : ReachableC cfg r) : EndPending r :=
  h.reachable.endPending

/-- AT QUIESCENCE only sessions whose handler is in the yield retry loop are still marked as ending -/
theorem ending_only_busy {r : Realm} (hc : CtlInv r) (h : EndPending r) (ht : r.tasks = []) :
    ∀ k ∈ r.ending, r.isClient k ∧ r.busy k = true ∧ ∃ mode, (k, mode) ∈ r.deferred := by
  intro k hk
  rcases h k hk with ⟨m, hm⟩ | ⟨d, hd, hdk⟩
  · rw [ht] at hm; cases hm
  · refine ⟨hc.ending k hk, hdk ▸ hc.defBusy d hd, d.2, ?_⟩
    rw [← hdk]; exact hd

/-- a session marked as ending whose handler is free has its `leave` pending: its departure is under way -/
theorem leaving_of_ending {r : Realm} (hc : CtlInv r) (h : EndPending r) {k : SessKey} (hk : k ∈ r.ending)
    (hb : r.busy k = false) : Leaving k r := by
  refine ⟨hb, fun _ => ⟨hk, ?_⟩⟩
  rcases h k hk with hm | ⟨d, hd, hdk⟩
  · exact hm
  · have := hc.defBusy d hd
    rw [hdk, hb] at this; cases this

end Nexus.L2.WpC
