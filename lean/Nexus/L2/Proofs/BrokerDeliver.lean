/-
  Delivery lemmas for C01 / C08 / C12: the projection of the EVENTs of a publication onto one
  (session, subscription) pair, the exact-delivery lemma, the contents of EVENT details, and
  what SUBSCRIBE / UNSUBSCRIBE / session removal do to the subscription table.
-/
import Nexus.L2.Proofs.BrokerInv
import Nexus.L2.Proofs.BrokerFilter

namespace Nexus.L2
open Gen.N

/-! ### Dict lemmas -/

theorem Dict.get?_set (d : Dict) (k k' : String) (v : WVal) :
    (Dict.set d k v).get? k' = if k = k' then some v else d.get? k' := by
  induction d with
  | nil => simp [Dict.set, Dict.get?]
  | cons e d ih =>
    obtain ⟨a, w⟩ := e
    by_cases h1 : a = k
    · subst h1; by_cases h2 : a = k' <;> simp [Dict.set, Dict.get?, h2]
    · by_cases h2 : a = k'
      · subst h2
        have : ¬ k = a := fun h => h1 h.symm
        simp [Dict.set, Dict.get?, h1, this]
      · simp [Dict.set, Dict.get?, h1, h2, ih]

/-! ### the event of one member -/

/-- what `syncPubEvent` sends to member `k` of `sub` -/
def evOpt (sess : SessKey → Option Session) (p : Publication) (f : Filter) (sub : Sub) (st : Bool)
    (k : SessKey) : Option Send :=
  match sess k with
  | some s => if receives p f s then some ⟨k, mkEvent p sub st (some s)⟩ else none
  | none => none

theorem eventsFor_eq sess p f sub st : eventsFor sess p f sub st = sub.members.filterMap (evOpt sess p f sub st) := rfl

theorem evOpt_some {sess p f sub st k x} (h : evOpt sess p f sub st k = some x) :
    x.to = k ∧ x.msg.eventSub? = some sub.id := by
  unfold evOpt at h
  split at h
  · split at h
    · simp at h; subst h; exact ⟨rfl, rfl⟩
    · simp at h
  · simp at h

theorem through_filterMap (g : SessKey → Option Send) (id : Nat)
    (hg : ∀ k x, g k = some x → x.to = k) (k : SessKey) :
    ∀ (l : List SessKey), l.Nodup →
      through (l.filterMap g) k id = if k ∈ l then through (g k).toList k id else []
  | [], _ => by simp [through]
  | a :: l, hn => by
    have ih := through_filterMap g id hg k l (List.nodup_cons.mp hn).2
    have hal := (List.nodup_cons.mp hn).1
    simp only [List.filterMap_cons]
    by_cases hak : a = k
    · subst hak
      have hnil : through (l.filterMap g) a id = [] := by rw [ih, if_neg hal]
      cases hga : g a with
      | none =>
        simp only
        rw [hnil]; simp [through]
      | some x =>
        simp only [List.mem_cons, true_or, if_true, Option.toList_some]
        unfold through at hnil ⊢
        simp only [List.filter_cons, hnil, List.filter_nil]
    · have hka : k ≠ a := fun h => hak h.symm
      have hmem : (k ∈ a :: l) ↔ k ∈ l := by simp [hka]
      cases hga : g a with
      | none => simp only [hmem]; exact ih
      | some x =>
        have : x.to ≠ k := by rw [hg a x hga]; exact hak
        simp only [hmem]
        rw [← ih]
        unfold through
        rw [List.filter_cons]
        simp [this]

theorem through_eventsFor (sess : SessKey → Option Session) (p : Publication) (f : Filter) (sub : Sub)
    (st : Bool) (hn : sub.members.Nodup) (k : SessKey) (id : Nat) :
    through (eventsFor sess p f sub st) k id =
      if sub.id = id ∧ k ∈ sub.members then (evOpt sess p f sub st k).toList else [] := by
  rw [eventsFor_eq, through_filterMap _ id (fun k x h => (evOpt_some h).1) k _ hn]
  by_cases hm : k ∈ sub.members
  · simp only [hm, if_true, and_true]
    cases he : evOpt sess p f sub st k with
    | none => simp [through]
    | some x =>
      obtain ⟨h1, h2⟩ := evOpt_some he
      by_cases hid : sub.id = id
      · simp [through, h1, h2, hid]
      · simp [through, h2, hid]
  · simp [hm]

/-! ### all matching subscriptions -/

theorem flatMap_congr' {α β : Type} {f g : α → List β} {l : List α} (h : ∀ x ∈ l, f x = g x) :
    l.flatMap f = l.flatMap g := by
  induction l with
  | nil => rfl
  | cons a l ih =>
    simp only [List.flatMap_cons]
    rw [h a (List.mem_cons_self ..), ih (fun x hx => h x (List.mem_cons_of_mem _ hx))]

theorem flatMap_filter_unique {β : Type} (H : Sub → List β) (q : Sub → Bool) (s : Sub) :
    ∀ (l : List Sub), (l.map (·.id)).Nodup → s ∈ l → (∀ t ∈ l, t.id ≠ s.id → H t = []) →
      (l.filter q).flatMap H = if q s then H s else []
  | [], _, hs, _ => by simp at hs
  | a :: l, hn, hs, hH => by
    simp only [List.map_cons, List.nodup_cons, List.mem_map, not_exists, not_and] at hn
    have hrest : ∀ t ∈ l, t.id ≠ s.id → H t = [] := fun t ht => hH t (List.mem_cons_of_mem _ ht)
    rcases List.mem_cons.mp hs with rfl | hs'
    · have hall : ∀ t ∈ l, H t = [] := fun t ht => hrest t ht (fun h => hn.1 t ht h)
      have : (l.filter q).flatMap H = [] := by
        rw [List.flatMap_eq_nil_iff]; intro t ht; exact hall t (List.mem_filter.mp ht).1
      rw [List.filter_cons]
      split <;> simp [this]
    · have ha : H a = [] := hH a (List.mem_cons_self ..) (fun h => hn.1 s hs' h.symm)
      rw [List.filter_cons]
      have ih := flatMap_filter_unique H q s l hn.2 hs' hrest
      split <;> simp [ha, ih]

theorem flatMap_all_nil {α β : Type} (H : α → List β) (l : List α) (h : ∀ t ∈ l, H t = []) : l.flatMap H = [] := by
  rw [List.flatMap_eq_nil_iff]; exact h

theorem through_flatMap {α : Type} (l : List α) (F : α → List Send) (k : SessKey) (id : Nat) :
    through (l.flatMap F) k id = l.flatMap (fun x => through (F x) k id) := by
  unfold through; rw [List.filter_flatMap]

theorem through_append (a c : List Send) (k : SessKey) (id : Nat) :
    through (a ++ c) k id = through a k id ++ through c k id := by
  unfold through; rw [List.filter_append]

/-- `syncPublish` visits the matching subscriptions kind by kind; `sendTopic` is `isPattern`. -/
theorem syncPublish_sends' (b : Broker) (sess : SessKey → Option Session) (now : Nat) (p : Publication) :
    (b.syncPublish sess now p).2 =
      (b.subs.filter (fun s => s.kind == .exact && s.topic == p.topic) ++
       b.subs.filter (fun s => s.kind == .pfx && prefixMatch p.topic s.topic) ++
       b.subs.filter (fun s => s.kind == .wild && wildcardMatch p.topic s.topic)).flatMap
        (fun s => eventsFor sess p (mkFilter p.opts) s s.isPattern) := by
  rw [syncPublish_sends]
  unfold Broker.matching
  simp only [List.flatMap_append, List.flatMap_map]
  congr 1
  congr 1
  all_goals
    apply flatMap_congr'
    intro s hs
    have := (List.mem_filter.mp hs).2
    simp only [Bool.and_eq_true, beq_iff_eq] at this
    have e : s.isPattern = (s.kind != .exact) := rfl
    rw [e, this.1]
    rfl

theorem through_syncPublish {b : Broker} (hb : BrokerInv b) (sess : SessKey → Option Session) (now : Nat)
    (p : Publication) {s : Sub} (hs : s ∈ b.subs) (k : SessKey) :
    through (b.syncPublish sess now p).2 k s.id =
      if s.matchesTopic p.topic = true ∧ k ∈ s.members
      then (evOpt sess p (mkFilter p.opts) s s.isPattern k).toList else [] := by
  rw [syncPublish_sends', through_flatMap]
  simp only [List.flatMap_append]
  have hH : ∀ t ∈ b.subs, t.id ≠ s.id →
      through (eventsFor sess p (mkFilter p.opts) t t.isPattern) k s.id = [] := by
    intro t ht hne
    rw [through_eventsFor _ _ _ _ _ (hb.members_nodup t ht)]
    simp [hne]
  rw [flatMap_filter_unique _ _ s b.subs hb.ids_nodup hs hH,
      flatMap_filter_unique _ _ s b.subs hb.ids_nodup hs hH,
      flatMap_filter_unique _ _ s b.subs hb.ids_nodup hs hH,
      through_eventsFor _ _ _ _ _ (hb.members_nodup s hs)]
  unfold Sub.matchesTopic
  cases hk : s.kind <;> by_cases hm : k ∈ s.members <;> simp [hm]
  all_goals
    split <;> simp_all

theorem through_syncPublish_none (b : Broker) (sess : SessKey → Option Session) (now : Nat)
    (p : Publication) (k : SessKey) (id : Nat) (hno : ∀ s ∈ b.subs, s.id ≠ id) :
    through (b.syncPublish sess now p).2 k id = [] := by
  rw [syncPublish_sends, through_flatMap]
  apply flatMap_all_nil
  intro x hx
  have hs := ((mem_matching b p.topic x.1 x.2).mp hx).1
  unfold through
  rw [List.filter_eq_nil_iff]
  intro y hy
  rw [eventsFor_eq] at hy
  obtain ⟨k', _, he⟩ := List.mem_filterMap.mp hy
  have := (evOpt_some he).2
  simp [this, hno x.1 hs]


/-! ### C01: exact delivery -/

theorem receives_iff (p : Publication) (c : Session) :
    receives p (mkFilter p.opts) c = true ↔
      ¬(c.key = p.publisher ∧ p.excludePub = true) ∧ ¬ ruledOut p.opts (sidOf c.key) c.details := by
  unfold receives
  rw [Bool.and_eq_true, mkFilter_allowed_iff]
  refine and_congr ?_ Iff.rfl
  by_cases h1 : c.key = p.publisher <;> cases h2 : p.excludePub <;> simp [h1]

theorem evOpt_eq_some_iff (sess : SessKey → Option Session) (p : Publication) (s : Sub) (st : Bool)
    (k : SessKey) (x : Send) :
    evOpt sess p (mkFilter p.opts) s st k = some x ↔
      ∃ c, sess k = some c ∧ ¬(c.key = p.publisher ∧ p.excludePub = true) ∧
        ¬ ruledOut p.opts (sidOf c.key) c.details ∧ x = ⟨k, mkEvent p s st (some c)⟩ := by
  unfold evOpt
  cases hs : sess k with
  | none => simp
  | some c =>
    simp only [Option.some.injEq, exists_eq_left']
    by_cases hr : receives p (mkFilter p.opts) c = true
    · have := (receives_iff p c).mp hr
      rw [if_pos hr]
      simp only [Option.some.injEq]
      constructor
      · intro h; exact ⟨this.1, this.2, h.symm⟩
      · intro h; exact h.2.2.symm
    · rw [if_neg hr]
      have := mt (receives_iff p c).mpr hr
      constructor
      · intro h; simp at h
      · intro h; exact absurd ⟨h.1, h.2.1⟩ this

theorem mem_syncPublish_sends (b : Broker) (sess : SessKey → Option Session) (now : Nat) (p : Publication)
    (x : Send) :
    x ∈ (b.syncPublish sess now p).2 ↔ ∃ s k c, Expected b sess p s k c ∧ x = ⟨k, expectedEvent p s c⟩ := by
  rw [syncPublish_sends]
  simp only [List.mem_flatMap]
  constructor
  · rintro ⟨⟨s, st⟩, hm, hx⟩
    obtain ⟨hs, hmt, rfl⟩ := (mem_matching b p.topic s st).mp hm
    rw [eventsFor_eq] at hx
    obtain ⟨k, hk, he⟩ := List.mem_filterMap.mp hx
    obtain ⟨c, h1, h2, h3, h4⟩ := (evOpt_eq_some_iff sess p s _ k x).mp he
    exact ⟨s, k, c, ⟨hs, hmt, hk, h1, h2, h3⟩, h4⟩
  · rintro ⟨s, k, c, ⟨hs, hmt, hk, h1, h2, h3⟩, rfl⟩
    refine ⟨(s, s.isPattern), (mem_matching b p.topic s _).mpr ⟨hs, hmt, rfl⟩, ?_⟩
    rw [eventsFor_eq]
    exact List.mem_filterMap.mpr ⟨k, hk, (evOpt_eq_some_iff sess p s _ k _).mpr ⟨c, h1, h2, h3, rfl⟩⟩

/-- C01, delivery: the EVENTs of a publication are exactly one per expected (subscription,
    member) pair, with the expected content, and nothing else. -/
theorem delivery_exact {b : Broker} (hb : BrokerInv b) (sess : SessKey → Option Session) (now : Nat)
    (p : Publication) :
    (∀ x ∈ (b.syncPublish sess now p).2, ∃ s k c, Expected b sess p s k c ∧ x = ⟨k, expectedEvent p s c⟩) ∧
    (∀ s k c, Expected b sess p s k c →
        through (b.syncPublish sess now p).2 k s.id = [⟨k, expectedEvent p s c⟩]) ∧
    (∀ k id, (¬ ∃ s c, s.id = id ∧ Expected b sess p s k c) →
        through (b.syncPublish sess now p).2 k id = []) ∧
    (∀ k, (¬ ∃ s c, Expected b sess p s k c) → ∀ x ∈ (b.syncPublish sess now p).2, x.to ≠ k) := by
  refine ⟨fun x hx => (mem_syncPublish_sends b sess now p x).mp hx, ?_, ?_, ?_⟩
  · rintro s k c ⟨hs, hmt, hk, h1, h2, h3⟩
    rw [through_syncPublish hb sess now p hs k, if_pos ⟨hmt, hk⟩,
      (evOpt_eq_some_iff sess p s _ k _).mpr ⟨c, h1, h2, h3, rfl⟩]
    rfl
  · intro k id hno
    unfold through
    rw [List.filter_eq_nil_iff]
    intro x hx hc
    obtain ⟨s, k', c, he, rfl⟩ := (mem_syncPublish_sends b sess now p x).mp hx
    simp only [expectedEvent, Msg.eventSub?, Bool.and_eq_true, beq_iff_eq, Option.some.injEq] at hc
    obtain ⟨rfl, rfl⟩ := hc
    exact hno ⟨s, c, rfl, he⟩
  · intro k hno x hx hk
    obtain ⟨s, k', c, he, rfl⟩ := (mem_syncPublish_sends b sess now p x).mp hx
    simp only at hk; subst hk
    exact hno ⟨s, c, he⟩


/-! ### the details of an EVENT -/

theorem discloseInto_pub_eq (sid : Nat) (pd d : Dict) :
    discloseInto RolePublisher sid pd d =
      (let d1 := Dict.set d "publisher" (.int sid)
       let d2 := match pd.get? "authid" with
         | some v => Dict.set d1 "publisher_authid" v
         | none => d1
       match pd.get? "authrole" with
         | some v => Dict.set d2 "publisher_authrole" v
         | none => d2) := by
  have e1 : RolePublisher = "publisher" := rfl
  have e2 : RolePublisher ++ "_authid" = "publisher_authid" := by decide
  have e3 : RolePublisher ++ "_authrole" = "publisher_authrole" := by decide
  unfold discloseInto
  rw [e2, e3, e1]
  rfl

theorem discloseInto_get?_other (sid : Nat) (pd d : Dict) (key : String) (h : ¬ isPublisherKey key) :
    (discloseInto RolePublisher sid pd d).get? key = d.get? key := by
  unfold isPublisherKey at h
  simp only [not_or] at h
  obtain ⟨h1, h2, h3⟩ := h
  rw [discloseInto_pub_eq]
  simp only
  cases pd.get? "authid" <;> cases pd.get? "authrole" <;>
    simp [Dict.get?_set, Ne.symm h1, Ne.symm h2, Ne.symm h3]

theorem discloseInto_get?_publisher (sid : Nat) (pd d : Dict) :
    (discloseInto RolePublisher sid pd d).get? "publisher" = some (.int sid) := by
  rw [discloseInto_pub_eq]
  simp only
  cases pd.get? "authid" <;> cases pd.get? "authrole" <;> simp [Dict.get?_set]

theorem discloseInto_get?_authid (sid : Nat) (pd d : Dict) (hd : d.get? "publisher_authid" = none) :
    (discloseInto RolePublisher sid pd d).get? "publisher_authid" = pd.get? "authid" := by
  rw [discloseInto_pub_eq]
  simp only
  cases h1 : pd.get? "authid" <;> cases h2 : pd.get? "authrole" <;> simp [Dict.get?_set, hd]

theorem discloseInto_get?_authrole (sid : Nat) (pd d : Dict) (hd : d.get? "publisher_authrole" = none) :
    (discloseInto RolePublisher sid pd d).get? "publisher_authrole" = pd.get? "authrole" := by
  rw [discloseInto_pub_eq]
  simp only
  cases h1 : pd.get? "authid" <;> cases h2 : pd.get? "authrole" <;> simp [Dict.get?_set, hd]

theorem eventDetails_eq (p : Publication) (st : Bool) (r : Option Session) :
    eventDetails p st r =
      if disclosedTo p r then
        discloseInto RolePublisher (sidOf p.publisher) p.pubDetails
          (if st then Dict.set p.baseDetails "topic" (.str p.topic) else p.baseDetails)
      else (if st then Dict.set p.baseDetails "topic" (.str p.topic) else p.baseDetails) := by
  unfold eventDetails disclosedTo
  cases r <;> simp

theorem eventDetails_get?_topic (p : Publication) (st : Bool) (r : Option Session) :
    (eventDetails p st r).get? "topic" = if st then some (.str p.topic) else p.baseDetails.get? "topic" := by
  rw [eventDetails_eq]
  have hk : ¬ isPublisherKey "topic" := by unfold isPublisherKey; decide
  cases st <;> cases disclosedTo p r <;> simp [discloseInto_get?_other _ _ _ _ hk, Dict.get?_set]

theorem eventDetails_get?_pubkey_none (p : Publication) (st : Bool) (r : Option Session) (key : String)
    (hk : isPublisherKey key) (hb : p.baseDetails.get? key = none) (hd : disclosedTo p r = false) :
    (eventDetails p st r).get? key = none := by
  rw [eventDetails_eq, hd]
  have : "topic" ≠ key := by
    unfold isPublisherKey at hk; rcases hk with rfl | rfl | rfl <;> decide
  cases st <;> simp [Dict.get?_set, hb, this]

theorem eventDetails_get?_pubkeys (p : Publication) (st : Bool) (r : Option Session)
    (hb : ∀ key, isPublisherKey key → p.baseDetails.get? key = none) (hd : disclosedTo p r = true) :
    (eventDetails p st r).get? "publisher" = some (.int (sidOf p.publisher)) ∧
    (eventDetails p st r).get? "publisher_authid" = p.pubDetails.get? "authid" ∧
    (eventDetails p st r).get? "publisher_authrole" = p.pubDetails.get? "authrole" := by
  rw [eventDetails_eq, hd]
  simp only [if_true]
  refine ⟨discloseInto_get?_publisher _ _ _, discloseInto_get?_authid _ _ _ ?_, discloseInto_get?_authrole _ _ _ ?_⟩
  · have := hb "publisher_authid" (Or.inr (Or.inl rfl))
    cases st <;> simp [Dict.get?_set, this]
  · have := hb "publisher_authrole" (Or.inr (Or.inr rfl))
    cases st <;> simp [Dict.get?_set, this]


/-! ### C01: SUBSCRIBE / UNSUBSCRIBE -/

theorem sidOf_inj {a c : Nat} (h : sidOf a = sidOf c) : a = c := by
  unfold sidOf metaKey sidBase at h
  by_cases h1 : a = 0 <;> by_cases h2 : c = 0 <;> simp only [h1, h2, if_true, if_false] at h <;> omega

theorem metaEvent_spec (b : Broker) (t : String) (pid : Nat) (cause : SessKey) (args : List WVal) :
    ∀ x ∈ b.metaEvent t pid cause args, x.msg.eventSub? ≠ none ∧ x.to ≠ cause := by
  intro x hx
  unfold Broker.metaEvent at hx
  simp only [List.mem_flatMap, List.mem_map, List.mem_filter] at hx
  obtain ⟨⟨msub, st⟩, _, k, ⟨_, hk⟩, rfl⟩ := hx
  refine ⟨by simp [Msg.eventSub?], ?_⟩
  simp only [bne_iff_ne, ne_eq] at hk
  intro h; simp only at h; subst h; exact hk rfl

theorem findTopic_of_mem {b : Broker} (hb : BrokerInv b) {s : Sub} (hs : s ∈ b.subs) :
    b.findTopic s.topic s.kind = some s := by
  cases h : b.findTopic s.topic s.kind with
  | none => exact absurd ⟨rfl, rfl⟩ (findTopic_none h s hs)
  | some t =>
    obtain ⟨h1, h2, h3⟩ := findTopic_some h
    rw [hb.topic_unique t h1 s hs h3 h2]

/-- A second SUBSCRIBE by a member: same id, nothing changes. -/
theorem syncSubscribe_member {b : Broker} (hb : BrokerInv b) {s : Sub} (hs : s ∈ b.subs)
    (k : SessKey) (req : Nat) (m : String) (pub0 : Nat) (hk : s.kind = matchKind m) (hm : k ∈ s.members) :
    b.syncSubscribe k req s.topic m pub0 = (b, [⟨k, .subscribed req s.id⟩], 0) := by
  unfold Broker.syncSubscribe
  rw [← hk, findTopic_of_mem hb hs]
  simp [hm]

/-- SUBSCRIBE by a non-member to an existing (topic, kind): that subscription's id, nothing created. -/
theorem syncSubscribe_join {b : Broker} (hb : BrokerInv b) {s : Sub} (hs : s ∈ b.subs)
    (k : SessKey) (req : Nat) (m : String) (pub0 : Nat) (hk : s.kind = matchKind m) (hm : k ∉ s.members) :
    (∃ rest, (b.syncSubscribe k req s.topic m pub0).2.1 = ⟨k, .subscribed req s.id⟩ :: rest ∧
        ∀ x ∈ rest, x.msg.eventSub? ≠ none ∧ x.to ≠ k) ∧
    (b.syncSubscribe k req s.topic m pub0).1.subs.map (fun x => (x.id, x.topic, x.«match»)) =
        b.subs.map (fun x => (x.id, x.topic, x.«match»)) ∧
    (b.syncSubscribe k req s.topic m pub0).1.nextSub = b.nextSub ∧
    (∀ k' id, (b.syncSubscribe k req s.topic m pub0).1.isMember k' id ↔
        b.isMember k' id ∨ (k' = k ∧ id = s.id)) := by
  have hinv := hb.subscribe k req s.topic m pub0
  have hidx : (b.syncSubscribe k req s.topic m pub0).1.index = idxAdd b.index k s.id := by
    unfold Broker.syncSubscribe
    rw [← hk, findTopic_of_mem hb hs]
    simp [hm, Broker.setSub]
  refine ⟨?_, ?_, ?_, ?_⟩
  · unfold Broker.syncSubscribe
    rw [← hk, findTopic_of_mem hb hs]
    simp only [List.contains_iff_mem, hm, if_false]
    exact ⟨_, rfl, metaEvent_spec _ _ _ _ _⟩
  · unfold Broker.syncSubscribe
    rw [← hk, findTopic_of_mem hb hs]
    simp only [List.contains_iff_mem, hm, if_false, Broker.setSub, List.map_map]
    apply List.map_congr_left
    intro x hx
    by_cases h : x.id = s.id
    · have := eq_of_id_eq hb.ids_nodup hx hs h; subst this; simp
    · simp [h]
  · unfold Broker.syncSubscribe
    rw [← hk, findTopic_of_mem hb hs]
    simp [hm, Broker.setSub]
  · intro k' id
    rw [← hinv.index_iff, hidx, idxRel_add hb.index_wf, hb.index_iff]

/-- SUBSCRIBE to a (topic, kind) without subscription: a fresh id `nextSub + 1`. -/
theorem syncSubscribe_new {b : Broker} (hb : BrokerInv b) (k : SessKey) (req : Nat) (topic m : String)
    (pub0 : Nat) (hno : ∀ s ∈ b.subs, ¬(s.topic = topic ∧ s.kind = matchKind m)) :
    (∃ rest, (b.syncSubscribe k req topic m pub0).2.1 = ⟨k, .subscribed req (b.nextSub + 1)⟩ :: rest ∧
        ∀ x ∈ rest, x.msg.eventSub? ≠ none ∧ x.to ≠ k) ∧
    (∀ s ∈ b.subs, s.id ≠ b.nextSub + 1) ∧
    (b.syncSubscribe k req topic m pub0).1.subs =
        b.subs ++ [{ id := b.nextSub + 1, topic := topic, «match» := m, members := [k] }] ∧
    (b.syncSubscribe k req topic m pub0).1.nextSub = b.nextSub + 1 := by
  have hf : b.findTopic topic (matchKind m) = none := by
    cases h : b.findTopic topic (matchKind m) with
    | none => rfl
    | some t => obtain ⟨h1, h2, h3⟩ := findTopic_some h; exact absurd ⟨h3, h2⟩ (hno t h1)
  refine ⟨?_, fun s hs => by have := (hb.ids_pos s hs).2; omega, ?_, ?_⟩
  · unfold Broker.syncSubscribe
    rw [hf]
    simp only [List.cons_append]
    refine ⟨_, rfl, ?_⟩
    intro x hx
    rcases List.mem_append.mp hx with h | h
    · exact metaEvent_spec _ _ _ _ _ x h
    · exact metaEvent_spec _ _ _ _ _ x h
  · unfold Broker.syncSubscribe; rw [hf]
  · unfold Broker.syncSubscribe; rw [hf]

/-! UNSUBSCRIBE / session removal: what is left -/

theorem isMember_stripped {b b' : Broker} {k : SessKey} {P : Nat → Bool}
    (hsubs : b'.subs = b.subs.filterMap (b.stripIf k P)) (k' : SessKey) (id : Nat) :
    b'.isMember k' id ↔ b.isMember k' id ∧ ¬(k' = k ∧ P id = true) := by
  have hmem : ∀ s', s' ∈ b'.subs ↔ ∃ s ∈ b.subs, b.stripIf k P s = some s' := by
    intro s'; rw [hsubs]; simp [List.mem_filterMap]
  unfold Broker.isMember
  constructor
  · rintro ⟨s', hs', h1, h2⟩
    obtain ⟨s, hs, he⟩ := (hmem s').mp hs'
    have := ((stripIf_some he).2.2.2.1 k').mp h2
    rw [(stripIf_some he).1] at h1
    subst h1
    exact ⟨⟨s, hs, rfl, this.1⟩, this.2⟩
  · rintro ⟨⟨s, hs, h1, h2⟩, hne⟩
    subst h1
    obtain ⟨s', he⟩ := stripIf_isSome_of_member (b := b) h2 hne
    exact ⟨s', (hmem s').mpr ⟨s, hs, he⟩, (stripIf_some he).1, ((stripIf_some he).2.2.2.1 k').mpr ⟨h2, hne⟩⟩

theorem subs_stripped {b b' : Broker} {k : SessKey} {P : Nat → Bool}
    (hsubs : b'.subs = b.subs.filterMap (b.stripIf k P)) :
    ∀ s' ∈ b'.subs, ∃ s ∈ b.subs, s'.id = s.id ∧ s'.topic = s.topic ∧ s'.«match» = s.«match» := by
  intro s' hs'
  rw [hsubs] at hs'
  obtain ⟨s, hs, he⟩ := List.mem_filterMap.mp hs'
  exact ⟨s, hs, (stripIf_some he).1, (stripIf_some he).2.1, (stripIf_some he).2.2.1⟩

theorem syncRemoveSession_state {b : Broker} (hb : BrokerInv b) (k : SessKey) (pub0 : Nat) :
    ∃ P : Nat → Bool, (∀ id, P id = true ↔ b.isMember k id) ∧
      (b.syncRemoveSession k pub0).1.subs = b.subs.filterMap (b.stripIf k P) ∧
      (b.syncRemoveSession k pub0).1.hist = b.hist ∧
      (b.syncRemoveSession k pub0).1.nextSub = b.nextSub := by
  unfold Broker.syncRemoveSession
  cases hg : idxGet b.index k with
  | none =>
    refine ⟨fun _ => false, ?_, ?_, rfl, rfl⟩
    · intro id
      rw [← hb.index_iff]; unfold idxRel; rw [hg]; simp
    · simp only
      conv => lhs; rw [← List.filterMap_some (l := b.subs)]
      apply filterMap_congr'
      intro x _; simp [Broker.stripIf]
  | some ids =>
    simp only
    have hids : ids.Nodup := hb.index_wf.ids _ (idxGet_some_mem hg)
    obtain ⟨h1, h2, h3, _⟩ := removeMembers_state k ids { b with index := idxDrop b.index k } pub0 hb.ids_nodup hids
    have hst : ({ b with index := idxDrop b.index k } : Broker).stripIf k (fun id => ids.contains id) =
        b.stripIf k (fun id => ids.contains id) := stripIf_congr_hist rfl _ _
    rw [hst] at h1
    refine ⟨fun id => ids.contains id, ?_, h1, h2, h3⟩
    intro id
    rw [← hb.index_iff]; unfold idxRel; rw [hg]; simp

/-! ### every reachable broker satisfies the invariant -/

theorem BrokerInv.step {b : Broker} (hb : BrokerInv b) (e : BStep) : BrokerInv (b.step e) := by
  cases e with
  | publish sess now p => exact hb.publish sess now p
  | subscribe k req topic m pub0 => exact hb.subscribe k req topic m pub0
  | unsubscribe k req subId pub0 => exact hb.unsubscribe k req subId pub0
  | removeSession k pub0 => exact hb.removeSession k pub0

theorem BrokerInv.run {b : Broker} (hb : BrokerInv b) (steps : List BStep) : BrokerInv (b.run steps) := by
  unfold Broker.run
  induction steps generalizing b with
  | nil => exact hb
  | cons e rest ih => exact ih (hb.step e)

/-! ### C12 / C08: the projection as a function of (p, s, session of k) -/

theorem evOpt_toList_eq_deliveryOf (sess : SessKey → Option Session) (p : Publication) (s : Sub) (k : SessKey) :
    (if s.matchesTopic p.topic = true ∧ k ∈ s.members
      then (evOpt sess p (mkFilter p.opts) s s.isPattern k).toList else []) = deliveryOf sess p s k := by
  unfold deliveryOf evOpt
  cases hs : sess k with
  | none => simp
  | some c =>
    simp only
    by_cases hm : s.matchesTopic p.topic = true ∧ k ∈ s.members
    · by_cases hr : receives p (mkFilter p.opts) c = true
      · have h := (receives_iff p c).mp hr
        have hc : s.matchesTopic p.topic = true ∧ k ∈ s.members ∧
            ¬(c.key = p.publisher ∧ p.excludePub = true) ∧ ¬ ruledOut p.opts (sidOf c.key) c.details :=
          ⟨hm.1, hm.2, h.1, h.2⟩
        rw [if_pos hm, if_pos hr, if_pos hc]; rfl
      · have h := mt (receives_iff p c).mpr hr
        have hc : ¬(s.matchesTopic p.topic = true ∧ k ∈ s.members ∧
            ¬(c.key = p.publisher ∧ p.excludePub = true) ∧ ¬ ruledOut p.opts (sidOf c.key) c.details) :=
          fun hh => h ⟨hh.2.2.1, hh.2.2.2⟩
        rw [if_pos hm, if_neg hr, if_neg hc]; rfl
    · have hc : ¬(s.matchesTopic p.topic = true ∧ k ∈ s.members ∧
          ¬(c.key = p.publisher ∧ p.excludePub = true) ∧ ¬ ruledOut p.opts (sidOf c.key) c.details) :=
        fun hh => hm ⟨hh.1, hh.2.1⟩
      rw [if_neg hm, if_neg hc]

/-- The messages session `k` gets through subscription `s` from one publication. -/
theorem through_syncPublish_eq_deliveryOf {b : Broker} (hb : BrokerInv b) (sess : SessKey → Option Session)
    (now : Nat) (p : Publication) {s : Sub} (hs : s ∈ b.subs) (k : SessKey) :
    through (b.syncPublish sess now p).2 k s.id = deliveryOf sess p s k := by
  rw [through_syncPublish hb sess now p hs k, evOpt_toList_eq_deliveryOf]

theorem deliveryOf_congr (sess1 sess2 : SessKey → Option Session) (p : Publication) (s1 s2 : Sub) (k : SessKey)
    (hid : s1.id = s2.id) (htopic : s1.topic = s2.topic) (hkind : s1.kind = s2.kind)
    (hmem : k ∈ s1.members ↔ k ∈ s2.members) (hsess : sess1 k = sess2 k) :
    deliveryOf sess1 p s1 k = deliveryOf sess2 p s2 k := by
  have hm : s1.matchesTopic p.topic = s2.matchesTopic p.topic := by
    unfold Sub.matchesTopic; rw [hkind, htopic]
  have hp : s1.isPattern = s2.isPattern := by unfold Sub.isPattern; rw [hkind]
  unfold deliveryOf expectedEvent
  rw [hsess, hm, hid, hp]
  cases sess2 k with
  | none => rfl
  | some c =>
    simp only
    split
    · rename_i hc; rw [if_pos ⟨hc.1, hmem.mp hc.2.1, hc.2.2⟩]
    · rename_i hc; rw [if_neg (fun hh => hc ⟨hh.1, hmem.mpr hh.2.1, hh.2.2⟩)]

theorem publishAll_subs : ∀ (ps : List ((SessKey → Option Session) × Nat × Publication)) (b : Broker),
    (b.publishAll ps).1.subs = b.subs
  | [], _ => rfl
  | (sess, now, p) :: rest, b => by
    simp only [Broker.publishAll]
    rw [publishAll_subs rest, (syncPublish_subs b sess now p).1]

theorem through_publishAll {s : Sub} (k : SessKey) :
    ∀ (ps : List ((SessKey → Option Session) × Nat × Publication)) {b : Broker}, BrokerInv b → s ∈ b.subs →
      through (b.publishAll ps).2 k s.id = ps.flatMap (fun x => deliveryOf x.1 x.2.2 s k)
  | [], _, _, _ => rfl
  | (sess, now, p) :: rest, b, hb, hs => by
    simp only [Broker.publishAll, List.flatMap_cons]
    rw [through_append, through_syncPublish_eq_deliveryOf hb sess now p hs k,
      through_publishAll k rest (hb.publish sess now p) (by rw [(syncPublish_subs b sess now p).1]; exact hs)]

theorem deliveryOf_pubs (sess : SessKey → Option Session) (p : Publication) (s : Sub) (k : SessKey) :
    (deliveryOf sess p s k).map (fun x => x.msg.eventPub?) = [] ∨
    (deliveryOf sess p s k).map (fun x => x.msg.eventPub?) = [some p.pubId] := by
  unfold deliveryOf
  cases sess k with
  | none => left; rfl
  | some c =>
    simp only
    split
    · right; rfl
    · left; rfl

theorem flatMap_sublist_map {α β : Type} (f : α → List β) (g : α → β)
    (h : ∀ a, f a = [] ∨ f a = [g a]) : ∀ l : List α, (l.flatMap f).Sublist (l.map g)
  | [] => by simp
  | a :: l => by
    simp only [List.flatMap_cons, List.map_cons]
    rcases h a with h1 | h1 <;> rw [h1]
    · exact (flatMap_sublist_map f g h l).cons _
    · exact (flatMap_sublist_map f g h l).cons_cons _

/-! ### no pair is served twice -/

theorem nodup_map_of_filter_le_one {α β : Type} [DecidableEq β] (f : α → β) :
    ∀ (l : List α), (∀ a, (l.filter (fun x => decide (f x = a))).length ≤ 1) → (l.map f).Nodup
  | [], _ => by simp
  | x :: xs, h => by
    simp only [List.map_cons, List.nodup_cons, List.mem_map, not_exists, not_and]
    constructor
    · intro y hy hfy
      have := h (f x)
      rw [List.filter_cons, if_pos (by simp)] at this
      have hy' : y ∈ xs.filter (fun z => decide (f z = f x)) := List.mem_filter.mpr ⟨hy, by simp [hfy]⟩
      have : 0 < (xs.filter (fun z => decide (f z = f x))).length := List.length_pos_of_mem hy'
      simp only [List.length_cons] at *
      omega
    · apply nodup_map_of_filter_le_one f xs
      intro a
      have := h a
      rw [List.filter_cons] at this
      split at this
      · simp only [List.length_cons] at this; omega
      · exact this

/-- Under the invariant no (recipient, subscription id) pair occurs twice among the EVENTs of a
    publication. -/
theorem syncPublish_pairs_nodup {b : Broker} (hb : BrokerInv b) (sess : SessKey → Option Session) (now : Nat)
    (p : Publication) :
    ((b.syncPublish sess now p).2.map (fun x => (x.to, x.msg.eventSub?))).Nodup := by
  apply nodup_map_of_filter_le_one
  rintro ⟨k, o⟩
  cases o with
  | none =>
    have : (b.syncPublish sess now p).2.filter (fun x => decide ((x.to, x.msg.eventSub?) = (k, none))) = [] := by
      rw [List.filter_eq_nil_iff]
      intro x hx
      obtain ⟨s, k', c, _, rfl⟩ := (mem_syncPublish_sends b sess now p x).mp hx
      simp [expectedEvent, Msg.eventSub?]
    rw [this]; simp
  | some id =>
    have heq : (b.syncPublish sess now p).2.filter (fun x => decide ((x.to, x.msg.eventSub?) = (k, some id))) =
        through (b.syncPublish sess now p).2 k id := by
      unfold through
      apply List.filter_congr
      intro x _
      rw [Bool.eq_iff_iff]
      simp
    rw [heq]
    obtain ⟨_, h2, h3, _⟩ := delivery_exact hb sess now p
    by_cases he : ∃ s c, s.id = id ∧ Expected b sess p s k c
    · obtain ⟨s, c, rfl, hexp⟩ := he
      rw [h2 s k c hexp]; simp
    · rw [h3 k id he]; simp

end Nexus.L2
