/-
  The clock is shared: time is global (Go: one `time` for the process).

  `Router.now` is advanced by `Router.step (.tick ms)` and by nothing else (`Router.step_now`,
  RouterFrame.lean).  A realm's clock `Realm.now` is advanced by `Realm.step (.tick ms)` — by exactly
  `ms`, whatever timed events fire in between (`Realm.step_now`) — and by no other input of the realm.
  The router ticks every realm of the table together with its own clock, a realm built by
  `Router.create` starts at 0 like the router, and a realm created later (from the template on a join,
  or by `AddRealm`) starts at the router's current time.  Hence, in every router reachable by
  operations in which time passes through `ROp.tick` only,

      every realm's clock equals the router's          (`ClockShared`, `ReachableT.clockShared`).

  `ClockShared` is preserved by every such operation from every router state (`ClockShared.step`: no
  `ROp.wf`, no invariant on realm names is needed).  It is NOT an invariant of `Router.Reachable` as
  it stands: the model type allows `ROp.sess k (.tick ms)` — a tick wrapped into a session operation,
  which `ROp.wf` does not exclude (it excludes only wrapped joins) and which the router API and the
  driver never produce —, and that advances one realm alone (`sess_tick_parts_clocks`).
-/
import Nexus.L2.Proofs.RouterFrame
import Nexus.L2.Proofs.WpCRetryInv

namespace Nexus.L2

namespace Realm
open Nexus.L2.WpC

/-- running the pending tasks does not move the clock -/
theorem drain_now : ∀ (fuel : Nat) (r : Realm), (drain fuel r).now = r.now
  | 0, r => by
    rw [drain_zero]
    split
    · rfl
    · exact (rn_setPanic _ _).2
  | fuel + 1, r => by
    cases ht : r.tasks with
    | nil => rw [drain_succ_nil _ _ ht]
    | cons t ts =>
      rw [drain_succ_cons _ _ t ts ht, drain_now fuel]
      exact (runTask_enter ({ r with tasks := ts } : Realm) t).1.1

/-- the time an input of the realm lets pass: `ms` for `.tick ms`, none for every other input -/
def Op.elapsed : Op → Nat
  | .tick ms => ms
  | _ => 0

/-- THE REALM'S CLOCK.  `Realm.step (.tick ms)` sets the clock to exactly `now + ms` (`advance` ends
    with `now := target`, whatever call timeouts and yield retries fired on the way, also when its
    fuel runs out); every other input leaves the clock where it is. -/
theorem step_now (r : Realm) (op : Op) : (r.step op).2.now = r.now + op.elapsed := by
  have hflush : ∀ x : Realm, x.flush.2.now = x.now := fun x => (rn_flush x).2
  have hother : (flush (drain taskFuel (r.stepOp op))).2.now = r.now := by
    rw [hflush, drain_now]
    obtain ⟨k, h, _⟩ := stepOp_enter r op
    exact h.1
  cases op with
  | tick ms =>
    show (flush (advance 10000 r (r.now + ms))).2.now = r.now + ms
    rw [hflush, advance_now]
  | join k l d ro c => exact hother
  | msg k m => exact hother
  | drop k => exact hother
  | stall k => exact hother
  | resume k => exact hother
  | buffer k => exact hother
  | rnd n => exact hother

end Realm

namespace Router
open Realm

/-- every realm of the table shows the router's time -/
def ClockShared (rt : Router) : Prop := ∀ p ∈ rt.realms, p.2.now = rt.now

theorem ClockShared.setRealm {rt : Router} (h : ClockShared rt) {A : String} {r : Realm} (hr : r.now = rt.now)
    (sr : List (SessKey × String)) : ClockShared { rt.setRealm A r with sessRealm := sr } := by
  intro p hp
  rcases mem_setRealm (rt := rt) hp with ⟨rfl, _⟩ | ⟨hp, _⟩
  · exact hr
  · exact h p hp

theorem ClockShared.ensureRealm {rt : Router} (h : ClockShared rt) (name : String) : ClockShared (rt.ensureRealm name) := by
  rcases ensureRealm_cases rt name with e | ⟨_, t, r, _, _, e⟩
  · rw [e]; exact h
  · rw [e]
    intro p hp
    rcases List.mem_append.mp hp with hp | hp
    · exact h p hp
    · rw [List.mem_singleton.mp hp]

/-- the fold of the clock: if the accumulator already shows the new time in every realm that is not
    still to be advanced, and every realm still to be advanced shows the old time, then afterwards
    every realm shows the new time -/
theorem tickFold_clock (ms t : Nat) : ∀ (l : List (String × Realm)) (acc : RObserved × Router),
    (∀ p ∈ l, p.2.now = t) → (∀ p ∈ acc.2.realms, p.2.now = t + ms ∨ (p.2.now = t ∧ ∃ q ∈ l, q.1 = p.1)) →
    ∀ p ∈ (tickFold ms l acc).2.realms, p.2.now = t + ms
  | [], _, _, h => by
    intro p hp
    rcases h p hp with e | ⟨_, q, hq, _⟩
    · exact e
    · cases hq
  | x :: l, acc, hl, h => by
    rw [tickFold_cons]
    apply tickFold_clock ms t l
    · exact fun p hp => hl p (List.mem_cons_of_mem _ hp)
    · intro p hp
      rcases mem_setRealm (rt := acc.2) hp with ⟨rfl, _⟩ | ⟨hp, hne⟩
      · left
        show (x.2.step (.tick ms)).2.now = t + ms
        rw [Realm.step_now, hl x (List.mem_cons_self ..)]; rfl
      · rcases h p hp with e | ⟨e, q, hq, hqp⟩
        · exact Or.inl e
        · rcases List.mem_cons.mp hq with rfl | hq
          · exact (hne hqp.symm).elim
          · exact Or.inr ⟨e, q, hq, hqp⟩

/-- A session operation is not the clock: time passes through `ROp.tick` only.  The model TYPE allows
    `ROp.sess k (.tick ms)` (any `Realm.Op` can be wrapped), and `ROp.wf` — which excludes only
    `ROp.sess k (.join …)` — does not rule it out; the router API and the driver produce only
    msg / drop / stall / resume / buffer of `k` as session operations. -/
def _root_.Nexus.L2.ROp.untimedSess : ROp → Prop
  | .sess _ op => op.elapsed = 0
  | _ => True

/-- every operation of the router in which time passes through `ROp.tick` only keeps the clocks
    together, from every router state (no invariant on realm names, no `ROp.wf` needed) -/
theorem ClockShared.step {rt : Router} (h : ClockShared rt) (rop : ROp) (hu : rop.untimedSess) :
    ClockShared (rt.step rop).2 := by
  cases rop with
  | join name k l d ro c =>
    cases hc : (rt.closed || name == "") with
    | true => rw [step_join_refused hc]; exact h
    | false =>
      have he := h.ensureRealm name
      cases hr : (rt.ensureRealm name).realm? name with
      | none => rw [step_join_none hc hr]; exact he
      | some r =>
        rw [step_join_some hc hr]
        refine he.setRealm ?_ _
        rw [Realm.step_now, he _ (realm?_mem hr)]; rfl
  | sess k op =>
    cases hk : rt.realmOf k with
    | none => rw [step_sess_unknown hk]; exact h
    | some A =>
      cases hr : rt.realm? A with
      | none => rw [step_sess_gone hk hr]; exact h
      | some r =>
        rw [step_sess_some hk hr]
        refine ClockShared.setRealm (rt := rt) h ?_ rt.sessRealm
        have hu' : op.elapsed = 0 := hu
        rw [Realm.step_now, h _ (realm?_mem hr), hu']; rfl
  | tick ms =>
    rw [step_tick_eq]
    intro p hp
    have := tickFold_clock ms rt.now rt.realms ({}, { rt with now := rt.now + ms }) h
      (fun p hp => Or.inr ⟨h p hp, p, hp, rfl⟩) p hp
    rw [this, tickFold_now]
  | rnd n =>
    rw [step_rnd]
    intro p hp
    obtain ⟨q, hq, rfl⟩ := List.mem_map.mp hp
    exact h q hq
  | close => rw [step_close]; intro p hp; cases hp
  | removeRealm A =>
    cases hr : rt.realm? A with
    | none => rw [step_remove_none hr]; exact h
    | some r =>
      rw [step_remove_some hr]
      intro p hp
      exact h p (List.mem_filter.mp hp).1
  | addRealm cfg =>
    rw [step_add]
    split
    · exact h
    · split
      · intro p hp
        rcases List.mem_append.mp hp with hp | hp
        · exact h p hp
        · rw [List.mem_singleton.mp hp]
      · exact h

/-- … and the hypothesis is needed: a `tick` wrapped into a session operation (`ROp.wf` allows it)
    advances the one realm the session is dispatched to and not the router — the clocks part. -/
theorem sess_tick_parts_clocks {rt : Router} (h : ClockShared rt) {k : SessKey} {A : String} {r : Realm}
    (hk : rt.realmOf k = some A) (hr : rt.realm? A = some r) (ms : Nat) :
    (ROp.sess k (.tick (ms + 1))).wf ∧
    (rt.step (.sess k (.tick (ms + 1)))).2.now = rt.now ∧
    ∃ r', (rt.step (.sess k (.tick (ms + 1)))).2.realm? A = some r' ∧ r'.now = rt.now + (ms + 1) := by
  refine ⟨rfl, by rw [step_now]; rfl, ?_⟩
  rw [step_sess_some hk hr]
  refine ⟨_, realm?_setRealm_self _ hr, ?_⟩
  rw [Realm.step_now, h _ (realm?_mem hr)]; rfl

/-! ### the initial router -/

theorem createStep_clock {acc : Option Router} (h : ∀ rt, acc = some rt → ClockShared rt ∧ rt.now = 0) (cfg : Config) :
    ∀ rt, createStep acc cfg = some rt → ClockShared rt ∧ rt.now = 0 := by
  intro rt' e
  unfold createStep at e
  split at e
  · cases e
  · rename_i rt
    obtain ⟨h0, hn⟩ := h rt rfl
    split at e
    · cases e
    · split at e
      · rename_i r hcr
        cases e
        refine ⟨?_, hn⟩
        intro p hp
        rcases List.mem_append.mp hp with hp | hp
        · exact h0 p hp
        · rw [List.mem_singleton.mp hp]
          show r.now = rt.now
          rw [create_now hcr, hn]
      · cases e

theorem foldl_createStep_clock : ∀ (cfgs : List Config) (acc : Option Router),
    (∀ rt, acc = some rt → ClockShared rt ∧ rt.now = 0) →
    ∀ rt, cfgs.foldl createStep acc = some rt → ClockShared rt ∧ rt.now = 0
  | [], _, h => h
  | cfg :: cfgs, _, h => foldl_createStep_clock cfgs _ (createStep_clock h cfg)

/-- the router `Router.create` builds is at time 0, and so is every one of its realms -/
theorem create_clock {cfgs : List Config} {rt : Router} (h : Router.create cfgs = some rt) :
    ClockShared rt ∧ rt.now = 0 := by
  rw [create_eq] at h
  refine foldl_createStep_clock cfgs (some {}) ?_ rt h
  intro rt0 e
  cases e
  exact ⟨fun p hp => (nomatch hp), rfl⟩

/-! ### reachable routers -/

/-- routers reachable from the initial router by well-formed operations in which time passes through
    `ROp.tick` only (`ROp.untimedSess`): `Router.Reachable` without the wrapped ticks -/
inductive ReachableT : Router → Prop
  | init {cfgs : List Config} {rt : Router} (t : Option Config) :
      Router.create cfgs = some rt → ReachableT { rt with template := t }
  | step {rt : Router} (rop : ROp) : ReachableT rt → rop.wf → rop.untimedSess → ReachableT (rt.step rop).2

theorem ReachableT.reachable {rt : Router} (h : ReachableT rt) : Reachable rt := by
  induction h with
  | init t h => exact .init t h
  | step rop _ hw _ ih => exact .step rop ih hw

/-- THE CLOCK IS SHARED: in every router reachable by operations in which time passes through
    `ROp.tick` only, every realm's clock equals the router's. -/
theorem ReachableT.clockShared {rt : Router} (h : ReachableT rt) : ClockShared rt := by
  induction h with
  | init t h => exact (create_clock h).1
  | step rop _ _ hu ih => exact ih.step rop hu

end Router
end Nexus.L2
