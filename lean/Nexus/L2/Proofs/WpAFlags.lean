/-
  WP-A helper: the configuration flags (`strict`, `allowDisclose`) of the broker and of the
  dealer are never changed by any action of the broker / dealer goroutine.
-/
import Nexus.L2.Proofs.BrokerSpec
import Nexus.L2.Proofs.DealerSteps

namespace Nexus.L2.WpA
open Nexus.L2 Gen.N

/-! ### broker -/

/-- the two configuration flags of two broker states agree -/
def BFlags (b b' : Broker) : Prop := b'.strict = b.strict ∧ b'.allowDisclose = b.allowDisclose

theorem BFlags.refl (b : Broker) : BFlags b b := ⟨rfl, rfl⟩
theorem BFlags.trans {a b c : Broker} (h1 : BFlags a b) (h2 : BFlags b c) : BFlags a c :=
  ⟨h2.1.trans h1.1, h2.2.trans h1.2⟩

theorem pubEvent_flags (b : Broker) sess now p f sub st : BFlags b (b.pubEvent sess now p f sub st).1 := by
  unfold Broker.pubEvent
  dsimp only
  split <;> exact ⟨rfl, rfl⟩

theorem pubEvents_flags (sess : SessKey → Option Session) (now : Nat) (p : Publication) (f : Filter) :
    ∀ (l : List (Sub × Bool)) (b : Broker), BFlags b (b.pubEvents sess now p f l).1
  | [], b => ⟨rfl, rfl⟩
  | (sub, st) :: rest, b => by
    simp only [Broker.pubEvents]
    exact (pubEvent_flags b sess now p f sub st).trans (pubEvents_flags sess now p f rest _)

theorem syncPublish_flags (b : Broker) sess now p : BFlags b (b.syncPublish sess now p).1 :=
  pubEvents_flags sess now p _ _ b

theorem syncSubscribe_flags (b : Broker) (k : SessKey) (req : Nat) (topic m : String) (pub0 : Nat) :
    BFlags b (b.syncSubscribe k req topic m pub0).1 := by
  unfold Broker.syncSubscribe
  split
  · split <;> exact ⟨rfl, rfl⟩
  · exact ⟨rfl, rfl⟩

theorem syncUnsubscribe_flags (b : Broker) (k : SessKey) (req subId pub0 : Nat) :
    BFlags b (b.syncUnsubscribe k req subId pub0).1 := by
  unfold Broker.syncUnsubscribe
  split
  · exact ⟨rfl, rfl⟩
  · split
    · exact ⟨rfl, rfl⟩
    · dsimp only
      split <;> first | exact ⟨rfl, rfl⟩ | (split <;> exact ⟨rfl, rfl⟩)

theorem removeMember_flags (b : Broker) (k : SessKey) (id pub0 : Nat) :
    BFlags b (b.removeMember k id pub0).1 := by
  unfold Broker.removeMember
  split
  · exact ⟨rfl, rfl⟩
  · dsimp only
    split <;> exact ⟨rfl, rfl⟩

theorem removeMembers_flags (k : SessKey) : ∀ (ids : List Nat) (b : Broker) (pub0 : Nat),
    BFlags b (b.removeMembers k pub0 ids).1
  | [], b, _ => ⟨rfl, rfl⟩
  | id :: ids, b, pub0 => by
    simp only [Broker.removeMembers]
    exact (removeMember_flags b k id pub0).trans (removeMembers_flags k ids _ _)

theorem syncRemoveSession_flags (b : Broker) (k : SessKey) (pub0 : Nat) :
    BFlags b (b.syncRemoveSession k pub0).1 := by
  unfold Broker.syncRemoveSession
  split
  · exact ⟨rfl, rfl⟩
  · exact BFlags.trans (b := { b with index := idxDrop b.index k }) ⟨rfl, rfl⟩ (removeMembers_flags k _ _ _)

theorem step_flags (b : Broker) (e : BStep) : BFlags b (b.step e) := by
  cases e with
  | publish sess now p => exact syncPublish_flags b sess now p
  | subscribe k req topic m pub0 => exact syncSubscribe_flags b k req topic m pub0
  | unsubscribe k req subId pub0 => exact syncUnsubscribe_flags b k req subId pub0
  | removeSession k pub0 => exact syncRemoveSession_flags b k pub0

theorem run_flags (steps : List BStep) : ∀ (b : Broker), BFlags b (b.run steps) := by
  induction steps with
  | nil => intro b; exact ⟨rfl, rfl⟩
  | cons e rest ih => intro b; exact (step_flags b e).trans (ih (b.step e))

/-! ### dealer -/

/-- the two configuration flags of two dealer states agree -/
def DFlags (s s' : DState) : Prop := s'.d.strict = s.d.strict ∧ s'.d.allowDisclose = s.d.allowDisclose

theorem DFlags.refl (s : DState) : DFlags s s := ⟨rfl, rfl⟩
theorem DFlags.trans {a b c : DState} (h1 : DFlags a b) (h2 : DFlags b c) : DFlags a c :=
  ⟨h2.1.trans h1.1, h2.2.trans h1.2⟩

theorem cancelTimer_flags (s : DState) (t : Option Nat) : DFlags s (s.cancelTimer t) := by
  unfold DState.cancelTimer; split <;> exact ⟨rfl, rfl⟩

theorem syncRegister_flags (s : DState) (callee : SessKey) (req : Nat) (proc m invoke : String)
    (disclose fwd wampURI : Bool) : DFlags s (syncRegister s callee req proc m invoke disclose fwd wampURI).st := by
  unfold syncRegister
  dsimp only
  repeat' split
  all_goals exact ⟨rfl, rfl⟩

theorem delCalleeReg_flags {d d' : Dealer} {k : SessKey} {id : Nat} {del : Bool}
    (h : d.delCalleeReg k id = some (d', del)) : d'.strict = d.strict ∧ d'.allowDisclose = d.allowDisclose := by
  unfold Dealer.delCalleeReg at h
  split at h
  · cases h
  · split at h
    · cases h
    · dsimp only at h
      split at h <;> (cases h; exact ⟨rfl, rfl⟩)

theorem syncUnregister_flags (s : DState) (callee : SessKey) (req regId : Nat) :
    DFlags s (syncUnregister s callee req regId).st := by
  unfold syncUnregister
  dsimp only
  split
  · exact ⟨rfl, rfl⟩
  · rename_i d del h
    have := delCalleeReg_flags h
    exact ⟨this.1, this.2⟩

theorem syncError_flags (s : DState) (callee : SessKey) (req : Nat) (details : Dict) (err : String)
    (args : List WVal) (kw : Dict) : DFlags s (syncError s callee req details err args kw).st := by
  unfold syncError
  dsimp only
  split
  · exact ⟨rfl, rfl⟩
  · have := cancelTimer_flags s
    split <;> exact ⟨(this _).1, (this _).2⟩

theorem syncCancel_flags (env : DEnv) (s : DState) (caller : SessKey) (req : Nat) (mode reason : String)
    (errArgs : List WVal) : DFlags s (syncCancel env s caller req mode reason errArgs).st := by
  unfold syncCancel
  dsimp only
  split
  · exact ⟨rfl, rfl⟩
  · split
    · exact ⟨rfl, rfl⟩
    · split
      · exact ⟨rfl, rfl⟩
      · split
        · exact ⟨rfl, rfl⟩
        · rename_i invk _ _
          have h1 := cancelTimer_flags ({ s with d := s.d.setInv { invk with canceled := true } }) invk.timer
          split <;> exact ⟨h1.1, h1.2⟩

theorem armTimer_flags (env : DEnv) (s : DState) (caller : SessKey) (req : Nat) (v : Invk) (timeout : Nat) :
    DFlags s (armTimer env s caller req v timeout) := by
  unfold armTimer; split <;> exact ⟨rfl, rfl⟩

theorem dispatch_flags (env : DEnv) (s : DState) (caller : SessKey) (req : Nat) (callee : SessKey) (invReq : Nat)
    (v : Invk) (timeout : Nat) (m : Msg) : DFlags s (dispatch env s caller req callee invReq v timeout m).st := by
  unfold dispatch
  split
  · exact syncError_flags ..
  · exact armTimer_flags ..

theorem dispatchL_flags (env : DEnv) (s : DState) (caller : SessKey) (req : Nat) (callee : SessKey) (invReq : Nat)
    (v : Invk) (timeout : Nat) (m : Msg) : DFlags s (dispatchL env s caller req callee invReq v timeout m).st := by
  unfold dispatchL
  split
  · exact syncError_flags ..
  · refine DFlags.trans (b := preCancel s v timeout) ?_ (armTimer_flags ..)
    unfold preCancel
    split
    · exact cancelTimer_flags _ _
    · exact ⟨rfl, rfl⟩

theorem firstChunk_flags (env : DEnv) (s : DState) (reg : Reg) (caller : SessKey) (req : Nat) (opts : Dict) (proc : String)
    (args : List WVal) (kw : Dict) (callee : SessKey) (reg' : Reg) :
    DFlags s (firstChunk env s reg caller req opts proc args kw callee reg').st := by
  rw [firstChunk_eq]
  split
  · exact ⟨rfl, rfl⟩
  · exact ⟨rfl, rfl⟩
  · exact DFlags.trans (b := recordCall { s with d := s.d.setReg reg' } (newInvk s reg caller req callee opts) callee)
      ⟨rfl, rfl⟩ (dispatch_flags ..)

theorem laterChunk_flags (env : DEnv) (s : DState) (caller : SessKey) (req : Nat) (opts : Dict)
    (args : List WVal) (kw : Dict) (iid : ReqId) (v0 : Invk) :
    DFlags s (laterChunk env s caller req opts args kw iid v0).st := by
  unfold laterChunk
  exact DFlags.trans (b := { s with d := s.d.setInv { v0 with inProgress := opts.optFlag OptProgress } })
      ⟨rfl, rfl⟩ (dispatchL_flags ..)

theorem syncCall_flags (env : DEnv) (s : DState) (caller : SessKey) (req : Nat) (opts : Dict) (proc : String)
    (args : List WVal) (kw : Dict) (rnd : Nat) : DFlags s (syncCall env s caller req opts proc args kw rnd).st := by
  rw [syncCall_eq]
  split
  · split
    · exact ⟨rfl, rfl⟩
    · split
      · exact ⟨rfl, rfl⟩
      · exact laterChunk_flags ..
  · split
    · exact ⟨rfl, rfl⟩
    · split
      · exact ⟨rfl, rfl⟩
      · split
        · exact ⟨rfl, rfl⟩
        · split
          · exact ⟨rfl, rfl⟩
          · exact firstChunk_flags ..

theorem forget_flags (s : DState) (c i : ReqId) : DFlags s { s with d := s.d.forget c i } := ⟨rfl, rfl⟩

theorem syncYield_flags (env : DEnv) (s : DState) (callee : SessKey) (req : Nat) (opts : Dict)
    (args : List WVal) (kw : Dict) (progress canRetry : Bool) :
    DFlags s (syncYield env s callee req opts args kw progress canRetry).st := by
  unfold syncYield
  dsimp only
  split
  · split <;> exact ⟨rfl, rfl⟩
  · rename_i invk _
    split
    · exact ⟨rfl, rfl⟩
    · have h0 : DFlags s (if progress = true then s else s.cancelTimer invk.timer) := by
        split
        · exact ⟨rfl, rfl⟩
        · exact cancelTimer_flags _ _
      generalize (if progress = true then s else s.cancelTimer invk.timer) = s1 at h0
      have hfin : ∀ x : DState, DFlags x (if progress = true then x else { x with d := x.d.forget invk.callId ⟨callee, req⟩ }) := by
        intro x; split <;> exact ⟨rfl, rfl⟩
      split
      · exact h0.trans (hfin s1)
      · split
        · exact h0.trans ((cancelTimer_flags s1 invk.timer).trans ⟨rfl, rfl⟩)
        · split
          · exact h0.trans (hfin s1)
          · split
            · exact h0.trans (hfin s1)
            · split
              · exact h0
              · refine h0.trans ?_
                have hc := syncCancel_flags env s1 invk.callId.sess invk.callId.req CancelModeKillNoWait ErrCanceled []
                split
                · exact hc
                · exact hc.trans ⟨rfl, rfl⟩

theorem removeRegs_flags (k : SessKey) : ∀ (ids : List Nat) (d : Dealer),
    (removeRegs d k ids).1.strict = d.strict ∧ (removeRegs d k ids).1.allowDisclose = d.allowDisclose
  | [], d => ⟨rfl, rfl⟩
  | id :: ids, d => by
    unfold removeRegs
    split
    · exact ⟨rfl, rfl⟩
    · rename_i d1 del h
      have h1 := delCalleeReg_flags h
      have h2 := removeRegs_flags k ids d1
      exact ⟨h2.1.trans h1.1, h2.2.trans h1.2⟩

theorem cancelServed_flags (env : DEnv) (k : SessKey) : ∀ (l : List Invk) (s : DState),
    DFlags s (cancelServed env s k l).1
  | [], s => ⟨rfl, rfl⟩
  | invk :: rest, s => by
    unfold cancelServed
    split
    · exact cancelServed_flags env k rest s
    · dsimp only
      have h1 := cancelTimer_flags s invk.timer
      have h2 : DFlags (s.cancelTimer invk.timer)
          (match (s.cancelTimer invk.timer).d.findInv invk.id with
            | some cur => { s.cancelTimer invk.timer with d := (s.cancelTimer invk.timer).d.setInv { cur with canceled := false } }
            | none => s.cancelTimer invk.timer) := by
        split <;> exact ⟨rfl, rfl⟩
      exact (h1.trans h2).trans ((syncCancel_flags ..).trans (cancelServed_flags env k rest _))

theorem dropCalls_flags (k : SessKey) : ∀ (l : List ReqId) (s : DState), DFlags s (dropCalls s k l)
  | [], s => ⟨rfl, rfl⟩
  | c :: rest, s => by
    unfold dropCalls
    split
    · exact dropCalls_flags k rest s
    · dsimp only
      refine DFlags.trans ?_ (dropCalls_flags k rest _)
      split
      · split
        · exact ⟨rfl, rfl⟩
        · exact ⟨rfl, rfl⟩
      · exact ⟨rfl, rfl⟩

theorem syncRemoveSession_flags' (env : DEnv) (s : DState) (k : SessKey) :
    DFlags s (syncRemoveSession env s k).st := by
  unfold syncRemoveSession
  dsimp only
  have h1 := removeRegs_flags k ((idxGet s.d.index k).getD []) s.d
  refine DFlags.trans (b := { s with d := { (removeRegs s.d k ((idxGet s.d.index k).getD [])).1 with
      index := idxDrop (removeRegs s.d k ((idxGet s.d.index k).getD [])).1.index k } }) ⟨h1.1, h1.2⟩ ?_
  exact (cancelServed_flags env k _ _).trans (dropCalls_flags k _ _)

end Nexus.L2.WpA
