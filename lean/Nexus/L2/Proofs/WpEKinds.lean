/-
  WP-E: WHICH BROKER STEP an atomic action performs.

  `BKind b pc sc`: the script `sc` of an action starting with broker `b` and publication counter `pc`
  hands the broker goroutine nothing, or is the script of an ACCEPTED publication, of a SUBSCRIBE with a
  valid topic, of an UNSUBSCRIBE, or of the departure of an attached session — each with its single
  broker step.  `Rec.bkind`: every atomic action is of one of these kinds.
-/
import Nexus.L2.Proofs.WpEHist

namespace Nexus.L2.WpE
open Nexus.L2 Nexus.L2.Realm Gen.N

inductive BKind (b : Broker) (pc : Nat) : Script → Prop
  | quiet {sc : Script} (h : sc.bsteps = []) : BKind b pc sc
  | publish (r : Realm) (s : Session) (req : Nat) (opts : Dict) (topic : String) (args : List WVal) (kw : Dict)
      (hb : r.broker = b) (hp : r.pubCount = pc) (hacc : pubAccepted r s opts topic = true) :
      BKind b pc (publishScript r s req opts topic args kw)
  | subscribe (r : Realm) (s : Session) (req : Nat) (opts : Dict) (topic : String)
      (hb : r.broker = b) (hp : r.pubCount = pc)
      (hv : validUri r.broker.strict (opts.optString OptMatch) topic = true) :
      BKind b pc (subscribeScript r s req opts topic)
  | unsubscribe (r : Realm) (s : Session) (req sub : Nat) (hb : r.broker = b) (hp : r.pubCount = pc) :
      BKind b pc (unsubscribeScript r s req sub)

theorem bkind_publishScript (r : Realm) (s : Session) (req : Nat) (opts : Dict) (topic : String) (args : List WVal)
    (kw : Dict) : BKind r.broker r.pubCount (publishScript r s req opts topic args kw) := by
  by_cases h : pubAccepted r s opts topic = true
  · exact .publish r s req opts topic args kw rfl rfl h
  · apply BKind.quiet
    unfold publishScript
    rw [if_neg h]
    split
    · rfl
    · split <;> rfl

theorem bkind_dealerScript (b : Broker) (pc : Nat) (r : Realm) (o : DOut) : BKind b pc (dealerScript r o) := .quiet rfl

theorem bkind_dispatchScript (r : Realm) (s : Session) (m : Msg) :
    BKind r.broker r.pubCount (dispatchScript r s m) := by
  cases m
  case publish => exact bkind_publishScript ..
  case subscribe req opts topic =>
    show BKind _ _ (subscribeScript r s req opts topic)
    by_cases hv : validUri r.broker.strict (opts.optString OptMatch) topic = true
    · exact .subscribe r s req opts topic rfl rfl hv
    · apply BKind.quiet
      unfold subscribeScript
      rw [if_neg hv]
  case unsubscribe req sub => exact .unsubscribe r s req sub rfl rfl
  case register req opts proc =>
    apply BKind.quiet
    show (registerScript r s req opts proc).bsteps = []
    unfold registerScript
    split <;> rfl
  case cancel req opts =>
    apply BKind.quiet
    show (cancelScript r s req opts).bsteps = []
    unfold cancelScript
    split <;> rfl
  case error typ req details err args kw =>
    apply BKind.quiet
    show (if typ != tINVOCATION then ({} : Script) else dealerScript r (syncError r.ds s.key req details err args kw)).bsteps = []
    split <;> rfl
  all_goals exact .quiet rfl

theorem bkind_msgScript (r : Realm) (s : Session) (m : Msg) : BKind r.broker r.pubCount (msgScript r s m) := by
  unfold msgScript
  split
  · exact bkind_dispatchScript r s m
  · exact .quiet rfl

theorem bkind_recvScript (r : Realm) (k : SessKey) (m : Msg) : BKind r.broker r.pubCount (recvScript r k m) := by
  unfold recvScript
  split
  · exact .quiet rfl
  · split
    · exact .quiet rfl
    · split
      · exact .quiet rfl
      · exact bkind_msgScript r _ m

/-- the action is the departure of the attached session `k`: its `leave` task runs, its handler not being in the
    yield retry loop -/
def Rec.IsLeave (x : Rec) (k : SessKey) (mode : LeaveMode) (s : Session) : Prop :=
  x.act = .task (.leave k mode) ∧ x.pre.busy k = false ∧ x.pre.clients.find? (fun c => c.key == k) = some s

theorem Rec.IsLeave.script {x : Rec} {k : SessKey} {mode : LeaveMode} {s : Session} (h : x.IsLeave k mode s) :
    x.script = leaveScript { x.pre with tasks := x.pre.tasks.tail } k mode ∧
    x.post = ({ x.pre with tasks := x.pre.tasks.tail } : Realm).leave k mode ∧
    x.script.bsteps = [.removeSession k x.pre.pubCount] := by
  obtain ⟨r, a⟩ := x
  obtain ⟨ha, hb, hf⟩ := h
  dsimp only at ha hb hf
  subst ha
  have hb' : ({ r with tasks := r.tasks.tail } : Realm).busy k = false := hb
  have e1 : (⟨r, .task (.leave k mode)⟩ : Rec).script = leaveScript { r with tasks := r.tasks.tail } k mode := by
    show (if ({ r with tasks := r.tasks.tail } : Realm).busy k then {} else
      leaveScript { r with tasks := r.tasks.tail } k mode) = _
    rw [hb']; rfl
  refine ⟨e1, ?_, ?_⟩
  · show runTask { r with tasks := r.tasks.tail } (.leave k mode) = _
    rw [runTask_leave, hb']; rfl
  · rw [e1]
    unfold leaveScript
    have hf' : ({ r with tasks := r.tasks.tail } : Realm).clients.find? (fun c => c.key == k) = some s := hf
    rw [hf']

/-- EVERY ATOMIC ACTION hands the broker goroutine at most one step: nothing, an accepted publication, a valid
    SUBSCRIBE, an UNSUBSCRIBE (`BKind`) — or it is the departure of an attached session -/
theorem Rec.bkind (x : Rec) :
    BKind x.pre.broker x.pre.pubCount x.script ∨ ∃ k mode s, x.IsLeave k mode s := by
  obtain ⟨r, a⟩ := x
  cases a with
  | op o =>
    cases o with
    | msg k m => exact Or.inl (bkind_recvScript r k m)
    | _ => exact Or.inl (.quiet rfl)
  | task t =>
    cases t with
    | metaPub p => exact Or.inl (bkind_publishScript { r with tasks := r.tasks.tail } _ _ _ _ _ _)
    | metaInvoke req reg details args kw => exact Or.inl (.quiet rfl)
    | metaMsg m => exact Or.inl (bkind_msgScript { r with tasks := r.tasks.tail } _ m)
    | leave k mode =>
      by_cases hb : r.busy k = true
      · left
        show BKind r.broker r.pubCount (if ({ r with tasks := r.tasks.tail } : Realm).busy k then {} else
          leaveScript { r with tasks := r.tasks.tail } k mode)
        have hb' : ({ r with tasks := r.tasks.tail } : Realm).busy k = true := hb
        rw [hb']
        exact .quiet rfl
      · cases hf : r.clients.find? (fun c => c.key == k) with
        | none =>
          left
          show BKind r.broker r.pubCount (if ({ r with tasks := r.tasks.tail } : Realm).busy k then {} else
            leaveScript { r with tasks := r.tasks.tail } k mode)
          apply BKind.quiet
          split
          · rfl
          · unfold leaveScript
            have hf' : ({ r with tasks := r.tasks.tail } : Realm).clients.find? (fun c => c.key == k) = none := hf
            rw [hf']
        | some s => exact Or.inr ⟨k, mode, s, rfl, by simpa using hb, hf⟩
    | inMsg k m => exact Or.inl (bkind_recvScript { r with tasks := r.tasks.tail } k m)
  | timer t => exact Or.inl (.quiet rfl)
  | retry y => exact Or.inl (.quiet rfl)
  | flush => exact Or.inl (.quiet rfl)
  | clock t => exact Or.inl (.quiet rfl)
  | fuel text => exact Or.inl (.quiet rfl)

/-! ### reading a kind off a broker step -/

theorem BKind.subscribe_inv {b : Broker} {pc : Nat} {sc : Script} (hk : BKind b pc sc) {k : SessKey} {req : Nat}
    {topic m : String} {p : Nat} (hmem : BStep.subscribe k req topic m p ∈ sc.bsteps) :
    sc.bsteps = [.subscribe k req topic m pc] ∧ p = pc ∧ sc.offers = (b.syncSubscribe k req topic m pc).2.1 := by
  cases hk with
  | quiet hq => rw [hq] at hmem; cases hmem
  | publish r s q opts t args kw hbr hp hacc =>
    unfold publishScript at hmem
    rw [if_pos hacc] at hmem
    simp at hmem
  | subscribe r s q opts t hbr hp hv =>
    unfold subscribeScript at hmem ⊢
    rw [if_pos hv] at hmem ⊢
    simp only [List.mem_singleton, BStep.subscribe.injEq] at hmem
    obtain ⟨rfl, rfl, rfl, rfl, rfl⟩ := hmem
    subst hbr hp
    exact ⟨rfl, rfl, rfl⟩
  | unsubscribe r s q sub hbr hp => simp [unsubscribeScript] at hmem

theorem BKind.unsubscribe_inv {b : Broker} {pc : Nat} {sc : Script} (hk : BKind b pc sc) {k : SessKey} {req sub p : Nat}
    (hmem : BStep.unsubscribe k req sub p ∈ sc.bsteps) :
    sc.bsteps = [.unsubscribe k req sub pc] ∧ p = pc ∧ sc.offers = (b.syncUnsubscribe k req sub pc).2.1 := by
  cases hk with
  | quiet hq => rw [hq] at hmem; cases hmem
  | publish r s q opts t args kw hbr hp hacc =>
    unfold publishScript at hmem
    rw [if_pos hacc] at hmem
    simp at hmem
  | subscribe r s q opts t hbr hp hv =>
    unfold subscribeScript at hmem
    rw [if_pos hv] at hmem
    simp at hmem
  | unsubscribe r s q sub' hbr hp =>
    unfold unsubscribeScript at hmem ⊢
    simp only [List.mem_singleton, BStep.unsubscribe.injEq] at hmem
    obtain ⟨rfl, rfl, rfl, rfl⟩ := hmem
    subst hbr hp
    exact ⟨rfl, rfl, rfl⟩

theorem BKind.no_remove {b : Broker} {pc : Nat} {sc : Script} (hk : BKind b pc sc) (k : SessKey) (p : Nat) :
    BStep.removeSession k p ∉ sc.bsteps := by
  intro hmem
  cases hk with
  | quiet hq => rw [hq] at hmem; cases hmem
  | publish r s q opts t args kw hbr hp hacc =>
    unfold publishScript at hmem
    rw [if_pos hacc] at hmem
    simp at hmem
  | subscribe r s q opts t hbr hp hv =>
    unfold subscribeScript at hmem
    rw [if_pos hv] at hmem
    simp at hmem
  | unsubscribe r s q sub' hbr hp => simp [unsubscribeScript] at hmem

/-- a SUBSCRIBE step in the script of an action: the step, and the offers -/
theorem Rec.subscribe_inv (x : Rec) {k : SessKey} {req : Nat} {topic m : String} {p : Nat}
    (hmem : BStep.subscribe k req topic m p ∈ x.script.bsteps) :
    x.script.bsteps = [.subscribe k req topic m x.pre.pubCount] ∧ p = x.pre.pubCount ∧
    x.script.offers = (x.pre.broker.syncSubscribe k req topic m x.pre.pubCount).2.1 := by
  rcases x.bkind with hk | ⟨k', mode, s, hl⟩
  · exact hk.subscribe_inv hmem
  · rw [hl.script.2.2] at hmem
    simp at hmem

theorem Rec.unsubscribe_inv (x : Rec) {k : SessKey} {req sub p : Nat}
    (hmem : BStep.unsubscribe k req sub p ∈ x.script.bsteps) :
    x.script.bsteps = [.unsubscribe k req sub x.pre.pubCount] ∧ p = x.pre.pubCount ∧
    x.script.offers = (x.pre.broker.syncUnsubscribe k req sub x.pre.pubCount).2.1 := by
  rcases x.bkind with hk | ⟨k', mode, s, hl⟩
  · exact hk.unsubscribe_inv hmem
  · rw [hl.script.2.2] at hmem
    simp at hmem

/-- a departure step in the script of an action: the action is the departure of that session -/
theorem Rec.leave_inv (x : Rec) {k : SessKey} {p : Nat} (hmem : BStep.removeSession k p ∈ x.script.bsteps) :
    ∃ mode s, x.IsLeave k mode s := by
  rcases x.bkind with hk | ⟨k', mode, s, hl⟩
  · exact absurd hmem (hk.no_remove k p)
  · rw [hl.script.2.2] at hmem
    simp only [List.mem_singleton, BStep.removeSession.injEq] at hmem
    obtain ⟨rfl, _⟩ := hmem
    exact ⟨mode, s, hl⟩

/-! ### SUBSCRIBE, in full -/

/-- SUBSCRIBE of `k`: SUBSCRIBED(req, id) to `k` first, then meta EVENTs to OTHER sessions; afterwards the
    memberships are those before plus (k, id) -/
theorem bsyncSubscribe_full {b : Broker} (hb : BrokerInv b) (k : SessKey) (req : Nat) (topic m : String) (pub0 : Nat) :
    ∃ id rest, (b.syncSubscribe k req topic m pub0).2.1 = ⟨k, .subscribed req id⟩ :: rest ∧
      (∀ x ∈ rest, x.to ≠ k) ∧
      (∀ k' i, (b.syncSubscribe k req topic m pub0).1.isMember k' i ↔ b.isMember k' i ∨ (k' = k ∧ i = id)) := by
  by_cases hex : ∃ s ∈ b.subs, s.topic = topic ∧ s.kind = matchKind m
  · obtain ⟨s, hs, rfl, hkind⟩ := hex
    by_cases hm : k ∈ s.members
    · rw [syncSubscribe_member hb hs k req m pub0 hkind hm]
      refine ⟨s.id, [], rfl, fun _ h => (nomatch h), ?_⟩
      intro k' i
      exact ⟨Or.inl, fun h => h.elim id (fun e => by rw [e.1, e.2]; exact ⟨s, hs, rfl, hm⟩)⟩
    · obtain ⟨⟨rest, hsends, hrest⟩, _, _, hiff⟩ := syncSubscribe_join hb hs k req m pub0 hkind hm
      exact ⟨s.id, rest, hsends, fun x hx => (hrest x hx).2, hiff⟩
  · have hno : ∀ s ∈ b.subs, ¬(s.topic = topic ∧ s.kind = matchKind m) := fun s hs h => hex ⟨s, hs, h⟩
    obtain ⟨⟨rest, hsends, hrest⟩, _, hsubs, _⟩ := syncSubscribe_new hb k req topic m pub0 hno
    refine ⟨b.nextSub + 1, rest, hsends, fun x hx => (hrest x hx).2, ?_⟩
    intro k' i
    unfold Broker.isMember
    rw [hsubs]
    simp only [List.mem_append, List.mem_singleton]
    constructor
    · rintro ⟨s, hs | rfl, h1, h2⟩
      · exact Or.inl ⟨s, hs, h1, h2⟩
      · simp at h1 h2; exact Or.inr ⟨h2, h1.symm⟩
    · rintro (⟨s, hs, h1, h2⟩ | ⟨rfl, rfl⟩)
      · exact ⟨s, Or.inl hs, h1, h2⟩
      · exact ⟨_, Or.inr rfl, rfl, by simp⟩

/-! ### who is attached after a departure -/

theorem leave_clients {r : Realm} {k : SessKey} {s : Session} (mode : LeaveMode)
    (hf : r.clients.find? (fun c => c.key == k) = some s) :
    (r.leave k mode).clients = r.clients.filter (fun c => c.key != k) := by
  rw [leave_some mode hf]
  have f1 := leaveSend_frame r k mode
  have h2 := still_takeTestaments (leaveSend r k mode) k
  have h3 := shaped_leaveRemove ((leaveSend r k mode).takeTestaments k).2 k mode.isShutdown
  have h4 := still_leaveAnnounce (leaveRemove ((leaveSend r k mode).takeTestaments k).2 k mode.isShutdown) s
    ((leaveSend r k mode).takeTestaments k).1 mode.isShutdown
  have hk : s.key = k := (find?_key hf).2
  show (leaveAnnounce _ s _ _).clients.filter (fun c => c.key != s.key) = _
  rw [h4.clients, h3.clients, h2.clients, f1.clients, hk]

end Nexus.L2.WpE
