/-
  What the realm does to the dealer: every external input, internal task and timed event of `Realm.step` changes the
  dealer state `r.ds` by a (possibly empty) sequence of dealer actions `RStep` — the `sync*` functions, called with
  the side conditions the handlers guarantee (`dealer.register` lets only the known invocation policies through, and
  a `wamp.`-procedure only for the meta session; a timer leaves the table only when it fires, together with the
  `syncCancel` it posts).  Hence

    Realm.Reachable cfg r  →  Nexus.L2.Reachable r.ds        (`reachable_ds`)

  and every property of dealer states that is preserved by the `RStep`s holds in every reachable realm state
  (`Reachable.dinvariant`).  Used for the `wamp.`-registration invariant of C03.
-/
import Nexus.L2.Proofs.RealmIsolation
import Nexus.L2.Proofs.WpBTimerRealm

namespace Nexus.L2.WpB
open Nexus.L2 Nexus.L2.Realm Nexus.Gen.N

/-- one dealer action as the realm performs it -/
inductive RStep (s : DState) : DOut → Prop
  | register (callee : SessKey) (req : Nat) (proc «match» invoke : String) (disclose fwd wampURI : Bool)
      (hk : invoke ∈ Realm.knownPolicies) (hw : proc.startsWith "wamp." = true → callee = metaKey) :
      RStep s (syncRegister s callee req proc «match» invoke disclose fwd wampURI)
  | unregister (callee : SessKey) (req regId : Nat) : RStep s (syncUnregister s callee req regId)
  | call (env : DEnv) (caller : SessKey) (req : Nat) (opts : Dict) (proc : String) (args : List WVal) (kw : Dict)
      (rnd : Nat) : RStep s (syncCall env s caller req opts proc args kw rnd)
  | cancel (env : DEnv) (caller : SessKey) (req : Nat) (mode reason : String) (errArgs : List WVal) :
      RStep s (syncCancel env s caller req mode reason errArgs)
  | yield (env : DEnv) (callee : SessKey) (req : Nat) (opts : Dict) (args : List WVal) (kw : Dict)
      (progress canRetry : Bool) : RStep s (syncYield env s callee req opts args kw progress canRetry)
  | error (callee : SessKey) (req : Nat) (details : Dict) (err : String) (args : List WVal) (kw : Dict) :
      RStep s (syncError s callee req details err args kw)
  | removeSession (env : DEnv) (k : SessKey) : RStep s (syncRemoveSession env s k)
  /-- a live timer fires: it leaves the table and posts `syncCancel(killnowait, wamp.error.timeout)` for its call -/
  | fire (env : DEnv) (t : Timer) (ht : t ∈ s.timers) (hc : t.canceled = false) :
      RStep s (syncCancel env { s with timers := s.timers.filter (fun y => y.id != t.id) } t.caller t.req
        CancelModeKillNoWait ErrTimeout [.str "<text>"])

/-- a sequence of realm-performed dealer actions -/
inductive DReach : DState → DState → Prop
  | refl (s : DState) : DReach s s
  | step {s : DState} {o : DOut} {s' : DState} : RStep s o → DReach o.st s' → DReach s s'

theorem DReach.of_eq {r s' : DState} (h : s' = r) : DReach r s' := h ▸ DReach.refl r

theorem DReach.single {s : DState} {o : DOut} (st : RStep s o) : DReach s o.st := .step st (.refl _)

theorem DReach.trans {a b c : DState} (h1 : DReach a b) (h2 : DReach b c) : DReach a c := by
  induction h1 with
  | refl => exact h2
  | step st _ ih => exact .step st (ih h2)

/-- every realm-performed action is one `DStep` (two for a firing timer) -/
theorem RStep.run {s : DState} {o : DOut} (st : RStep s o) : ∃ tr, Run s tr o.st := by
  cases st with
  | register callee req proc m invoke disclose fwd wampURI hk _ =>
    exact ⟨_, .cons (.register callee req proc m invoke disclose fwd wampURI hk) (.nil _)⟩
  | unregister callee req regId => exact ⟨_, .cons (.unregister callee req regId) (.nil _)⟩
  | call env caller req opts proc args kw rnd => exact ⟨_, .cons (.call env caller req opts proc args kw rnd) (.nil _)⟩
  | cancel env caller req mode reason errArgs => exact ⟨_, .cons (.cancel env caller req mode reason errArgs) (.nil _)⟩
  | yield env callee req opts args kw progress canRetry =>
    exact ⟨_, .cons (.yield env callee req opts args kw progress canRetry) (.nil _)⟩
  | error callee req details err args kw => exact ⟨_, .cons (.error callee req details err args kw) (.nil _)⟩
  | removeSession env k => exact ⟨_, .cons (.removeSession env k) (.nil _)⟩
  | fire env t _ _ =>
    exact ⟨_, .cons (.dropTimers (fun y => y.id != t.id))
      (.cons (.cancel env t.caller t.req CancelModeKillNoWait ErrTimeout [.str "<text>"]) (.nil _))⟩

theorem Run.append {a b c : DState} {t1 t2 : List (DState × DOut)} (h1 : Run a t1 b) (h2 : Run b t2 c) :
    Run a (t1 ++ t2) c := by
  induction h1 with
  | nil => exact h2
  | cons st _ ih => exact .cons st (ih h2)

theorem DReach.run {s s' : DState} (h : DReach s s') : ∃ tr, Run s tr s' := by
  induction h with
  | refl s => exact ⟨[], .nil s⟩
  | step st _ ih =>
    obtain ⟨t1, r1⟩ := st.run
    obtain ⟨t2, r2⟩ := ih
    exact ⟨t1 ++ t2, Run.append r1 r2⟩

theorem Run.reachable {s s' : DState} {tr : List (DState × DOut)} (run : Run s tr s') (h : Nexus.L2.Reachable s) :
    Nexus.L2.Reachable s' := by
  induction run with
  | nil => exact h
  | cons st _ ih => exact ih (.step h st)

theorem DReach.reachable {s s' : DState} (h : DReach s s') (hr : Nexus.L2.Reachable s) : Nexus.L2.Reachable s' := by
  obtain ⟨tr, run⟩ := h.run
  exact Run.reachable run hr

/-- a property of dealer states kept by every realm-performed action is kept along `DReach` -/
theorem DReach.induct {I : DState → Prop} (hstep : ∀ s o, DealerInv s → I s → RStep s o → I o.st)
    {s s' : DState} (h : DReach s s') (hd : DealerInv s) (hi : I s) : I s' := by
  induction h with
  | refl => exact hi
  | step st _ ih =>
    obtain ⟨tr, run⟩ := st.run
    exact ih (run.inv hd) (hstep _ _ hd hi st)

/-! ### the handlers -/

theorem dreach_applyD (r : Realm) {o : DOut} (st : RStep r.ds o) : DReach r.ds (r.applyD o).ds := by
  rw [applyD_ds]; exact DReach.single st

theorem dreach_handleRegister (r : Realm) (s : Session) (req : Nat) (opts : Dict) (proc : String) :
    DReach r.ds (handleRegister r s req opts proc).ds := by
  unfold handleRegister
  simp only
  split
  · exact DReach.of_eq (trySend_ds _ _)
  · split
    · exact DReach.of_eq (trySend_ds _ _)
    · rename_i hw
      split
      · exact DReach.of_eq (trySend_ds _ _)
      · split
        · exact DReach.of_eq (trySend_ds _ _)
        · rename_i hk
          refine dreach_applyD r (.register _ _ _ _ _ _ _ _ (knownPolicies_contains hk) ?_)
          intro hwamp
          apply Classical.byContradiction
          intro hne
          apply hw
          simp [hwamp, hne]

theorem dreach_handleCancel (r : Realm) (s : Session) (req : Nat) (opts : Dict) :
    DReach r.ds (handleCancel r s req opts).ds := by
  unfold handleCancel
  extract_lets mode0 mode
  split
  · exact dreach_applyD r (.cancel ..)
  · exact DReach.of_eq (trySend_ds _ _)

theorem dreach_handleYield (r : Realm) (s : Session) (req : Nat) (opts : Dict) (args : List WVal) (kw : Dict) :
    DReach r.ds (handleYield r s req opts args kw).ds := by
  unfold handleYield
  extract_lets progress o r1
  have h1 : DReach r.ds r1.ds := dreach_applyD r (.yield ..)
  split
  · exact h1
  · exact h1

theorem authzGate_ds (r : Realm) (s : Session) (m : Msg) : (authzGate r s m).2.ds = r.ds := by
  rw [authzGate_eq_gateG]
  unfold gateG
  split
  · rfl
  · split
    · rfl
    · split
      · rfl
      · dsimp only
        split
        · rfl
        · exact trySend_ds _ _

theorem dreach_dispatch (r : Realm) (s : Session) (m : Msg) : DReach r.ds (Realm.dispatch r s m).ds := by
  cases m
  case publish => exact DReach.of_eq (handlePublish_ds ..)
  case yield => exact dreach_handleYield ..
  case call => exact dreach_applyD r (.call ..)
  case cancel => exact dreach_handleCancel ..
  case subscribe => exact DReach.of_eq (handleSubscribe_ds ..)
  case register => exact dreach_handleRegister ..
  case unsubscribe => exact DReach.of_eq (handleUnsubscribe_ds ..)
  case unregister => exact dreach_applyD r (.unregister ..)
  case error typ req details err args kw =>
    show DReach r.ds (if typ != tINVOCATION then _ else handleError r s req details err args kw).ds
    split
    · exact DReach.refl _
    · exact dreach_applyD r (.error ..)
  case goodbye => exact DReach.of_eq (trySend_ds _ _)
  all_goals exact DReach.refl _

theorem dreach_handleMsg (r : Realm) (s : Session) (m : Msg) : DReach r.ds (handleMsg r s m).ds := by
  rw [handleMsg_eq]
  split
  · have := dreach_dispatch (authzGate r s m).2 s m
    rw [authzGate_ds] at this
    exact this
  · exact DReach.of_eq (authzGate_ds r s m)

theorem dreach_recvMsg (r : Realm) (k : SessKey) (m : Msg) : DReach r.ds (r.recvMsg k m).ds := by
  rw [recvMsg_eq]
  split
  · exact DReach.refl _
  · split
    · exact DReach.refl _
    · split
      · split <;> exact DReach.refl _
      · exact dreach_handleMsg ..

theorem dreach_leave (r : Realm) (k : SessKey) (mode : LeaveMode) : DReach r.ds (r.leave k mode).ds := by
  cases hf : r.clients.find? (fun c => c.key == k) with
  | none => rw [leave_none mode hf]; exact DReach.refl _
  | some s =>
    obtain ⟨_, env, he⟩ := leave_tables mode hf
    rw [he]
    exact DReach.single (.removeSession env k)

theorem metaEffect_ds {r r' : Realm} (e : MetaEffect r r') : r'.ds = r.ds := by
  cases e with
  | same => rfl
  | kill sel g ka => unfold killWhere; rfl
  | testaments t _ => rfl
  | modify k d => rfl

theorem dreach_runTask (r : Realm) (t : Task) : DReach r.ds (r.runTask t).ds := by
  cases t with
  | metaPub p => exact DReach.of_eq (handlePublish_ds ..)
  | metaInvoke req reg details args kw =>
    rw [runTask_metaInvoke]
    split
    · exact DReach.refl _
    · rename_i proc _
      have e : (metaProc r proc req details args kw).2.ds = r.ds :=
        metaEffect_ds (metaProc_effect r proc req details args kw)
      exact DReach.of_eq (r := r.ds) ((addTasks_ds _ _).trans e)
  | metaMsg m => exact dreach_handleMsg ..
  | leave k mode =>
    rw [runTask_leave]
    split
    · exact DReach.refl _
    · exact dreach_leave ..
  | inMsg k m => exact dreach_recvMsg ..

theorem dreach_stepOp (r : Realm) (op : Op) : DReach r.ds (r.stepOp op).ds := by
  cases op with
  | join k isLocal details roles cap => rw [stepOp_join]; split <;> exact DReach.refl _
  | msg k m => exact dreach_recvMsg ..
  | buffer k => rw [stepOp_buffer]; exact DReach.refl _
  | drop k =>
    rw [stepOp_drop]
    split <;> (try split) <;> exact DReach.refl _
  | stall k => rw [stepOp_stall]; exact DReach.refl _
  | resume k => rw [stepOp_resume]; exact DReach.refl _
  | tick ms => exact DReach.refl _
  | rnd n => exact DReach.refl _

theorem dreach_drain : ∀ (fuel : Nat) (r : Realm), DReach r.ds (drain fuel r).ds
  | 0, r => by
    rw [drain_zero]
    split
    · exact DReach.refl _
    · exact DReach.of_eq (setPanic_ds _ _)
  | fuel + 1, r => by
    cases ht : r.tasks with
    | nil => rw [drain_succ_nil _ _ ht]; exact DReach.refl _
    | cons t ts =>
      rw [drain_succ_cons _ _ t ts ht]
      exact (dreach_runTask ({ r with tasks := ts } : Realm) t).trans (dreach_drain fuel _)

theorem dreach_retryDue (r : Realm) (x : Retry) : DReach r.ds (r.retryDue x).ds := by
  rw [retryDue_ds]
  exact DReach.single (.yield ..)

theorem dreach_timerDue (r : Realm) {t : Timer} (ht : t ∈ r.ds.timers) (hc : t.canceled = false) :
    DReach r.ds (r.timerDue t).ds := by
  rw [timerDue_ds]
  exact DReach.single (.fire r.denv t ht hc)

theorem dreach_advance : ∀ (fuel : Nat) (r : Realm) (target : Nat), DReach r.ds (advance fuel r target).ds
  | 0, r, target => by
    unfold advance
    exact DReach.of_eq (setPanic_ds _ _)
  | fuel + 1, r, target => by
    unfold advance
    split
    · exact DReach.refl _
    · rename_i d hd
      extract_lets r1 r2
      have h2 : DReach r.ds r2.ds := by
        cases d with
        | timer t =>
          obtain ⟨g1, g2, _⟩ := nextDue_timer hd
          exact dreach_timerDue r1 g1 g2
        | retry x => exact dreach_retryDue r1 x
      exact (h2.trans (dreach_drain taskFuel r2)).trans (dreach_advance fuel _ target)

theorem flush_ds (r : Realm) : r.flush.2.ds = r.ds := by
  unfold flush
  rfl

/-- ONE STEP OF THE REALM is a sequence of realm-performed dealer actions on the dealer state. -/
theorem dreach_step (r : Realm) (op : Op) : DReach r.ds (r.step op).2.ds := by
  by_cases ht : ∃ ms, op = .tick ms
  · obtain ⟨ms, rfl⟩ := ht
    rw [step_tick, flush_ds]
    exact dreach_advance ..
  · rw [step_of_not_tick r op (fun ms e => ht ⟨ms, e⟩), flush_ds]
    exact (dreach_stepOp r op).trans (dreach_drain ..)

/-! ### the initial state -/

theorem dreach_registerMeta : ∀ (ps : List String) (r : Realm), DReach r.ds (registerMeta r ps).ds
  | [], _ => DReach.refl _
  | p :: ps, r => by
    unfold registerMeta
    have h1 : DReach r.ds (syncRegister r.ds metaKey 0 p "" "" true false true).st :=
      DReach.single (.register metaKey 0 p "" "" true false true (by decide) (fun _ => rfl))
    exact h1.trans (dreach_registerMeta ps
      { r with ds := (syncRegister r.ds metaKey 0 p "" "" true false true).st,
               metaProcs := r.metaProcs ++ [((syncRegister r.ds metaKey 0 p "" "" true false true).st.d.nextReg, p)] })

theorem dreach_create {cfg : Config} {r : Realm} (h : Realm.create cfg = some r) :
    DReach { d := { strict := cfg.strict, allowDisclose := cfg.allowDisclose } } r.ds := by
  unfold Realm.create at h
  split at h
  · cases h
  · split at h
    · cases h
    · simp only [Option.some.injEq] at h
      subst h
      exact dreach_registerMeta (metaProcNames cfg)
        { cfg := cfg, broker := ({ strict := cfg.strict, allowDisclose := cfg.allowDisclose } : Broker).preInit cfg.history,
          ds := { d := { strict := cfg.strict, allowDisclose := cfg.allowDisclose } } }

/-- THE DEALER STATE OF A REACHABLE REALM IS A REACHABLE DEALER STATE: it arises from the empty dealer by `DStep`s. -/
theorem reachable_ds {cfg : Config} {r : Realm} (h : Realm.Reachable cfg r) : Nexus.L2.Reachable r.ds := by
  induction h with
  | init h => exact (dreach_create h).reachable (.init _ _)
  | step op _ ih => exact (dreach_step _ op).reachable ih

/-- … and it arises by realm-performed actions: every property `I` of dealer states that holds for the empty dealer
    and is kept by each `RStep` (from states satisfying `DealerInv`) holds in every reachable realm state. -/
theorem Reachable.dinvariant {I : DState → Prop}
    (hinit : ∀ strict allow, I { d := { strict := strict, allowDisclose := allow } })
    (hstep : ∀ s o, DealerInv s → I s → RStep s o → I o.st)
    {cfg : Config} {r : Realm} (h : Realm.Reachable cfg r) : I r.ds := by
  induction h with
  | init h => exact (dreach_create h).induct hstep (DealerInv.init _ _) (hinit _ _)
  | @step r op hr ih => exact (dreach_step r op).induct hstep hr.inv.1.dinv ih

end Nexus.L2.WpB
