/-
  Work package C: ISOLATION OVER A WHOLE STEP (C04).  The input that ends session `x` queues its departure;
  the departure queues meta events and testament publications for the meta session; those are published.
  Nothing in this cascade touches another session's attachment, subscriptions, registrations, testaments
  or — unless `x` was its callee — pending calls.  (`C04_isolation` says this for the single atomic `leave`.)
-/
import Nexus.L2.Proofs.WpCGone

namespace Nexus.L2.WpC
open Nexus.L2 Nexus.L2.Realm Nexus.Gen.N

/-! ### sends that queue no task -/

theorem dmetaTask_of_ne {x : Send} (h : x.to ≠ metaKey) : dmetaTask x = none := by
  unfold dmetaTask; rw [if_neg h]

theorem dmetaTask_of_msg {x : Send} (h : ∀ a b c d e, x.msg ≠ .invocation a b c d e) : dmetaTask x = none := by
  unfold dmetaTask
  by_cases hk : x.to = metaKey
  · rw [if_pos hk]
    split
    · rename_i a b c d e he; exact absurd he (h a b c d e)
    · rfl
  · rw [if_neg hk]

theorem trySend_tasks_of {r : Realm} {x : Send} (h : dmetaTask x = none) : (r.trySend x).tasks = r.tasks := by
  rw [dtrySend_tasks, h]; simp

theorem deliver_tasks_of {r : Realm} {ss : List Send} (h : ∀ x ∈ ss, dmetaTask x = none) : (r.deliver ss).tasks = r.tasks := by
  rw [ddeliver_tasks]
  have : ss.filterMap dmetaTask = [] := by
    rw [List.filterMap_eq_nil_iff]; exact h
  rw [this]; simp

/-! ### a publication: no task, no table but the broker's history -/

theorem handlePublish_frame (r : Realm) (s : Session) (req : Nat) (opts : Dict) (topic : String) (args : List WVal)
    (kw : Dict) (hm : ∀ k, r.broker.mem k → k ≠ metaKey) (hs : s.key = metaKey)
    (hf : s.hasFeature RolePublisher FeaturePayloadPassthruMode = true) :
    (handlePublish r s req opts topic args kw).tasks = r.tasks ∧ (handlePublish r s req opts topic args kw).ds = r.ds ∧
    (handlePublish r s req opts topic args kw).broker.subs = r.broker.subs := by
  have hack : ∀ (q : Realm) (m : Msg), (∀ a b c d e, m ≠ .invocation a b c d e) →
      (q.trySend ⟨s.key, m⟩).tasks = q.tasks ∧ (q.trySend ⟨s.key, m⟩).ds = q.ds ∧ (q.trySend ⟨s.key, m⟩).broker = q.broker := by
    intro q m hne
    exact ⟨trySend_tasks_of (dmetaTask_of_msg hne), trySend_ds _ _, trySend_broker _ _⟩
  unfold handlePublish
  simp only [freshPub]
  split
  · split
    · obtain ⟨a, b, c⟩ := hack r (invalidUriErr tPUBLISH req) (by intro a b c d e h; cases h)
      exact ⟨a, b, by rw [c]⟩
    · exact ⟨rfl, rfl, rfl⟩
  · split
    · rename_i hp
      rw [hf] at hp; simp at hp
    · split
      · split
        · obtain ⟨a, b, c⟩ := hack r (errMsg tPUBLISH req ErrOptionDisallowedDiscloseMe) (by intro a b c d e h; cases h)
          exact ⟨a, b, by rw [c]⟩
        · exact ⟨rfl, rfl, rfl⟩
      · have hsends : ∀ (sess : SessKey → Option Session) (p : Publication), ∀ x ∈ (r.broker.syncPublish sess r.now p).2,
            dmetaTask x = none := fun sess p x hx => dmetaTask_of_ne (hm _ (syncPublish_to hx))
        split
        · refine ⟨?_, ?_, ?_⟩
          · rw [(hack _ _ (by intro a b c d e h; cases h)).1, deliver_tasks_of (hsends _ _)]
          · rw [trySend_ds, deliver_ds]
          · rw [trySend_broker, deliver_broker]; exact (syncPublish_subs _ _ _ _).1
        · refine ⟨?_, ?_, ?_⟩
          · rw [deliver_tasks_of (hsends _ _)]
          · rw [deliver_ds]
          · rw [deliver_broker]; exact (syncPublish_subs _ _ _ _).1

theorem metaPublish_frame {r : Realm} (hi : RealmInv r) (hm : MetaSafe r) (p : MetaPub) :
    (r.metaPublish p).tasks = r.tasks ∧ (r.metaPublish p).ds = r.ds ∧ (r.metaPublish p).broker.subs = r.broker.subs ∧
    (r.metaPublish p).clients = r.clients ∧ (r.metaPublish p).testaments = r.testaments :=
  have h := handlePublish_frame r r.metaS 0 p.opts p.topic p.args p.kw (fun k hk => hm.client_ne (hi.bmem k hk)) hm.mkey hm.metaPPT
  ⟨h.1, h.2.1, h.2.2, (eff_metaPub hm p (P := fun _ => False) (Q := fun _ => False)).clients, handlePublish_testaments ..⟩

/-! ### a departure queues only meta events -/

theorem leaveRemove_tasks {r : Realm} (hi : RealmInv r) (hm : MetaSafe r) (k : SessKey) (quiet : Bool) :
    ∀ t ∈ (leaveRemove r k quiet).tasks, t ∈ r.tasks ∨ ∃ p, t = Task.metaPub p := by
  unfold leaveRemove
  split
  · extract_lets o
    split
    rw [setPanic_tasks]
    exact fun t ht => Or.inl ht
  · extract_lets o ra
    have hs : o.sends = (r.ds.d.invs.filter (fun v => v.callee == k)).map (fun v => goneErr v.callId) :=
      syncRemoveSession_sends (env := r.denv) hi.dinv k
    have ha : o.aborts = [] := syncRemoveSession_aborts ..
    have hta : ra.tasks = r.tasks ++ o.metaPubs.map Task.metaPub := by
      show (r.applyD o).tasks = _
      rw [dapplyD_tasks, ha]
      have : o.sends.filterMap dmetaTask = [] := by
        rw [List.filterMap_eq_nil_iff, hs]
        intro x hx
        obtain ⟨v, _, rfl⟩ := List.mem_map.mp hx
        exact dmetaTask_of_msg (by intro a b c d e h; cases h)
      rw [this]; simp
    have hbr : ra.broker = r.broker := applyD_broker r o
    split
    rename_i b sends n heq
    have es : sends = (ra.broker.syncRemoveSession k ra.pubCount).2.1 := by rw [heq]
    have : (({ ra with broker := b, pubCount := ra.pubCount + n } : Realm).deliver sends).tasks = ra.tasks := by
      rw [deliver_tasks_of]
      intro x hx
      rw [es, hbr] at hx
      exact dmetaTask_of_ne (hm.client_ne (hi.bmem _ (syncRemoveSession_to hx).1))
    rw [this, hta]
    intro t ht
    rcases List.mem_append.mp ht with ht | ht
    · exact Or.inl ht
    · obtain ⟨p, _, rfl⟩ := List.mem_map.mp ht
      exact Or.inr ⟨p, rfl⟩

theorem leave_tasks_pub {r : Realm} (hi : RealmInv r) (hm : MetaSafe r) (k : SessKey) (mode : LeaveMode) :
    ∀ t ∈ (r.leave k mode).tasks, t ∈ r.tasks ∨ ∃ p, t = Task.metaPub p := by
  cases hf : r.clients.find? (fun c => c.key == k) with
  | none => rw [leave_none mode hf]; exact fun t ht => Or.inl ht
  | some s =>
    have hkc : r.isClient k := isClient_of_find hf
    have hkm : k ≠ metaKey := hm.client_ne hkc
    rw [leave_tasks mode hf]
    -- the state before the removal stage: same tables, same tasks
    obtain ⟨g1, _⟩ := good_leaveSend hi hkc mode
    obtain ⟨g2, _⟩ := good_takeTestaments g1.1 k
    have e1 : (leaveSend r k mode).tasks = r.tasks := by
      cases mode <;> first | exact trySend_tasks_of (dmetaTask_of_ne hkm) | rfl
    have e2 : ((leaveSend r k mode).takeTestaments k).2.tasks = r.tasks := by
      unfold takeTestaments; split <;> exact e1
    have hm2 : MetaSafe ((leaveSend r k mode).takeTestaments k).2 :=
      hm.eff ((eff_leaveSend (P := fun _ => False) (Q := fun _ => False) r k mode).trans (eff_takeTestaments _ k))
        (fun _ h => absurd h id) (fun _ h => absurd h id)
    intro t ht
    rcases List.mem_append.mp ht with ht | ht
    · rcases leaveRemove_tasks g2.1 hm2 k mode.isShutdown t ht with h | h
      · exact Or.inl (e2 ▸ h)
      · exact Or.inr h
    · split at ht
      · cases ht
      · rcases List.mem_append.mp ht with ht | ht
        · unfold testamentTasks at ht
          split at ht
          · obtain ⟨x, _, rfl⟩ := List.mem_map.mp ht; exact Or.inr ⟨_, rfl⟩
          · cases ht
        · rw [List.mem_singleton.mp ht]; exact Or.inr ⟨_, rfl⟩

/-! ### calls that do not involve the departing session survive -/

theorem dropCalls_keep (k : SessKey) : ∀ (l : List ReqId) (s : DState) (c : ReqId), c ∈ s.d.calls → c.sess ≠ k →
    c ∈ (dropCalls s k l).d.calls
  | [], _, _, h, _ => h
  | x :: rest, s, c, h, hs => by
    by_cases hx : (x.sess != k) = true
    · rw [dropCalls_cons_skip rest hx]; exact dropCalls_keep k rest s c h hs
    · rw [dropCalls_cons_hit rest hx]
      refine dropCalls_keep k rest _ c ?_ hs
      have hxk : x.sess = k := by simpa using hx
      have hne : c ≠ x := fun e => hs (e ▸ hxk)
      have hc' : c ∈ (s.d.delCall x).calls := List.mem_filter.mpr ⟨h, by simpa using hne⟩
      unfold dropOne
      simp only
      split
      · simpa [Dealer.delByCall, Dealer.delInv] using hc'
      · exact hc'

theorem syncRemoveSession_calls_keep {env : DEnv} {s : DState} (h : DealerInv s) (k : SessKey) (c : ReqId)
    (hc : c ∈ s.d.calls) (hs : c.sess ≠ k) (hv : ∀ v ∈ s.d.invs, v.callee = k → v.callId ≠ c) :
    c ∈ (syncRemoveSession env s k).st.d.calls := by
  obtain ⟨s1, h1, hcs, hi, _, _, _, he⟩ := removeSession_mid (env := env) h k
  rw [he]
  simp only
  have hspec := cancelServed_spec env k s1.d.invs s1 h1 h1.call.invCalls (fun v hv _ => ⟨v, hv, rfl, rfl⟩)
  exact dropCalls_keep k _ _ c ((hspec.2 c).2 ⟨hcs ▸ hc, fun v hv' => hv v (hi ▸ hv')⟩) hs

/-! ### the two phases of the step that ends `x` -/

/-- before / after the departure of `x` has run, relative to the state `r` in which the input arrived -/
inductive Phase (x : SessKey) (r q : Realm) : Prop
  | before : q.isClient x → q.clients = r.clients → q.ds = r.ds → q.broker.subs = r.broker.subs →
      q.testaments = r.testaments → Phase x r q
  | after : ¬ q.isClient x → (∀ k, k ≠ x → (q.isClient k ↔ r.isClient k)) →
      (∃ env, q.ds = (syncRemoveSession env r.ds x).st) →
      (∀ k id, q.broker.isMember k id ↔ r.broker.isMember k id ∧ k ≠ x) →
      q.testaments = r.testaments.filter (fun t => t.1 != x) → Phase x r q

/-- only the departure of `x` and meta events are pending -/
def OnlyLeaveX (x : SessKey) (q : Realm) : Prop :=
  ∀ t ∈ q.tasks, (∃ mode, t = Task.leave x mode) ∨ ∃ p, t = Task.metaPub p

theorem isMember_subs {b b' : Broker} (h : b'.subs = b.subs) (k : SessKey) (id : Nat) : b'.isMember k id ↔ b.isMember k id := by
  unfold Broker.isMember; rw [h]

theorem phase_step {x : SessKey} {r : Realm} (q : Realm) (t : Task) (ts : List Task) (hi : RealmInv q)
    (ht : q.tasks = t :: ts) (hc : CtlInv q) (ho : OnlyLeaveX x q) (hph : Phase x r q) :
    OnlyLeaveX x (runTask { q with tasks := ts } t) ∧ Phase x r (runTask { q with tasks := ts } t) := by
  obtain ⟨hi0, _⟩ := rinv_tail hi ht
  obtain ⟨hc0, _⟩ := hc.tail ht
  have ho0 : OnlyLeaveX x ({ q with tasks := ts } : Realm) := fun t' ht' => ho t' (by rw [ht]; exact List.mem_cons_of_mem _ ht')
  have hph0 : Phase x r ({ q with tasks := ts } : Realm) := by
    cases hph with
    | before a b c d e => exact .before a b c d e
    | after a b c d e => exact .after a b c d e
  generalize ({ q with tasks := ts } : Realm) = q0 at hi0 hc0 ho0 hph0 ⊢
  rcases ho t (by rw [ht]; exact List.mem_cons_self ..) with ⟨mode, rfl⟩ | ⟨p, rfl⟩
  · -- the departure of x
    rw [runTask_leave]
    split
    · refine ⟨ho0, ?_⟩
      cases hph0 with
      | before a b c d e => exact .before a b c d e
      | after a b c d e => exact .after a b c d e
    · rename_i hb
      refine ⟨?_, ?_⟩
      · intro t' ht'
        rcases leave_tasks_pub hi0 hc0.safe x mode t' ht' with h | h
        · exact ho0 t' h
        · exact Or.inr h
      · cases hph0 with
        | after a b c d e =>
          have : q0.leave x mode = q0 := by
            apply leave_none
            apply List.find?_eq_none.mpr
            intro c' hc' hck
            exact a ⟨c', hc', by simpa using hck⟩
          rw [this]; exact .after a b c d e
        | before a b c d e =>
          have hnb := not_busy hb
          obtain ⟨c0, hc0m, hc0k⟩ := a
          cases hf : q0.clients.find? (fun c => c.key == x) with
          | none =>
            have := List.find?_eq_none.mp hf c0 hc0m
            simp [hc0k] at this
          | some s =>
            obtain ⟨⟨pp, hbq⟩, ⟨env, hdq⟩⟩ := leave_tables mode hf
            have hcl := leave_isClient hi0 x mode ⟨c0, hc0m, hc0k⟩ hnb
            refine .after (fun h => ((hcl x).mp h).2 rfl) ?_ ⟨env, by rw [hdq, c]⟩ ?_ ?_
            · intro k hk
              rw [hcl k]
              unfold Realm.isClient
              rw [b]
              exact ⟨fun h => h.1, fun h => ⟨h, hk⟩⟩
            · intro k id
              rw [hbq, syncRemoveSession_isMember hi0.binv, isMember_subs d]
            · rw [leave_testaments q0 x mode ⟨c0, hc0m, hc0k⟩, e]
  · -- a meta event / testament is published
    rw [runTask_metaPub]
    obtain ⟨f1, f2, f3, f4, f5⟩ := metaPublish_frame hi0 hc0.safe p
    refine ⟨fun t' ht' => ho0 t' (f1 ▸ ht'), ?_⟩
    cases hph0 with
    | before a b c d e =>
      exact .before (by unfold Realm.isClient; rw [f4]; exact a) (by rw [f4, b]) (by rw [f2, c]) (by rw [f3, d]) (by rw [f5, e])
    | after a b c d e =>
      refine .after (by unfold Realm.isClient; rw [f4]; exact a) ?_ (by rw [f2]; exact c) ?_ (by rw [f5, e])
      · intro k hk
        unfold Realm.isClient; rw [f4]; exact b k hk
      · intro k id
        rw [isMember_subs f3]; exact d k id

/-- the state right after an input that ends `x` -/
theorem endsInput_init {r : Realm} {x : SessKey} {op : Op} (h : EndsInput r x op) (hx : r.isClient x) (hxm : x ≠ metaKey)
    (hb : r.busy x = false) (he : x ∉ r.ending) (ht : r.tasks = []) :
    OnlyLeaveX x (r.stepOp op) ∧ Phase x r (r.stepOp op) := by
  have hec : r.ending.contains x = false := by
    cases h' : r.ending.contains x
    · rfl
    · exact absurd (List.contains_iff_mem.mp h') he
  rcases h with rfl | ⟨m, s, rfl, hf, hm, hg⟩
  · rw [stepOp_drop_attached hx, hec]
    simp only [Bool.false_eq_true, if_false]
    refine ⟨?_, .before hx rfl rfl rfl rfl⟩
    intro t ht'
    rw [ht] at ht'
    exact Or.inl ⟨_, List.mem_singleton.mp ht'⟩
  · rcases endsSession_cases hm with ⟨d, reason, rfl⟩ | hv
    · rw [stepOp_goodbye d reason hf hec hb hg]
      refine ⟨?_, .before ?_ (dtrySend_clients _ _) (trySend_ds _ _) (by rw [trySend_broker]) (trySend_testaments _ _)⟩
      · intro t ht'
        have : (r.trySend ⟨x, .goodbye [] CloseGoodbyeAndOut⟩).tasks = [] := by
          rw [trySend_tasks_of (dmetaTask_of_ne hxm)]; exact ht
        rw [show ({ r.trySend ⟨x, .goodbye [] CloseGoodbyeAndOut⟩ with
          tasks := (r.trySend ⟨x, .goodbye [] CloseGoodbyeAndOut⟩).tasks ++ [.leave x .lost],
          ending := (r.trySend ⟨x, .goodbye [] CloseGoodbyeAndOut⟩).ending ++ [x] } : Realm).tasks =
            (r.trySend ⟨x, .goodbye [] CloseGoodbyeAndOut⟩).tasks ++ [.leave x .lost] from rfl, this] at ht'
        exact Or.inl ⟨_, List.mem_singleton.mp ht'⟩
      · show (r.trySend _).isClient x
        unfold Realm.isClient; rw [dtrySend_clients]; exact hx
    · obtain ⟨text, e⟩ := stepOp_violation _ hf hv hec hb hg
      rw [e]
      refine ⟨?_, .before hx rfl rfl rfl rfl⟩
      intro t ht'
      rw [ht] at ht'
      exact Or.inl ⟨_, List.mem_singleton.mp ht'⟩

/-- ISOLATION OVER THE WHOLE STEP of an input that ends `x`. -/
theorem step_isolated {r : Realm} (hi : RealmInv r) (hc : CtlInv r) (ht : r.tasks = []) {x : SessKey} (hx : r.isClient x)
    (hb : r.busy x = false) (he : x ∉ r.ending) {op : Op} (hop : EndsInput r x op)
    (hp : (r.step op).2.panic = none) :
    ¬ (r.step op).2.isClient x ∧
    (∀ k, k ≠ x → ((r.step op).2.isClient k ↔ r.isClient k)) ∧
    (∀ k id, (r.step op).2.broker.isMember k id ↔ r.broker.isMember k id ∧ k ≠ x) ∧
    (∀ id k, calleeRel (r.step op).2.ds.d.regs id k ↔ calleeRel r.ds.d.regs id k ∧ k ≠ x) ∧
    (∀ c ∈ (r.step op).2.ds.d.calls, c ∈ r.ds.d.calls ∧ c.sess ≠ x ∧ ∀ v ∈ r.ds.d.invs, v.callee = x → v.callId ≠ c) ∧
    (∀ c ∈ r.ds.d.calls, c.sess ≠ x → (∀ v ∈ r.ds.d.invs, v.callee = x → v.callId ≠ c) → c ∈ (r.step op).2.ds.d.calls) ∧
    (r.step op).2.testaments = r.testaments.filter (fun t => t.1 != x) := by
  have hxm : x ≠ metaKey := hc.safe.client_ne hx
  obtain ⟨hl, hnt⟩ := endsInput_leaving hop hx hb he
  obtain ⟨ho1, hph1⟩ := endsInput_init hop hx hxm hb he ht
  have hopc : OpC r op := by
    rcases hop with rfl | ⟨m, s, rfl, _⟩
    · exact hx
    · trivial
  obtain ⟨s1, _⟩ := stepOp_inv hi op
  have hc1 := hc.stepOp op hopc
  rw [step_of_not_tick r op hnt] at hp ⊢
  rw [(flush_inv (drain_rinv taskFuel s1)).2.1] at hp
  obtain ⟨⟨_, g1, _, gph⟩, g2, _, _⟩ := drain_quiescent (fun q => CtlInv q ∧ Leaving x q ∧ OnlyLeaveX x q ∧ Phase x r q)
    (fun q t ts hq hqt h => ⟨(h.1.tail hqt).1.runTask t (h.1.tail hqt).2, leaving_step hxm q t ts hqt h.1 h.2.1,
      phase_step q t ts hq hqt h.1 h.2.2.1 h.2.2.2⟩)
    taskFuel _ s1 ⟨hc1, hl, ho1, hph1⟩ hp
  have hgone : ¬ (drain taskFuel (r.stepOp op)).isClient x := by
    intro hk
    obtain ⟨_, mode, hmem⟩ := g1.2 hk
    rw [g2] at hmem; cases hmem
  obtain ⟨_, _, f3, _, _, _, f7, f8, f9, _⟩ := flush_ctl (drain taskFuel (r.stepOp op))
  have hcl : ∀ k, (drain taskFuel (r.stepOp op)).flush.2.isClient k ↔ (drain taskFuel (r.stepOp op)).isClient k := by
    intro k; unfold Realm.isClient; rw [f3]
  rw [f7, f8, f9]
  cases gph with
  | before a _ _ _ _ => exact absurd a hgone
  | after a b c d e =>
    obtain ⟨env, hds⟩ := c
    refine ⟨fun h => a ((hcl x).mp h), fun k hk => (hcl k).trans (b k hk), d, ?_, ?_, ?_, e⟩
    · intro id k
      rw [hds]; exact (syncRemoveSession_frame (env := env) hi.dinv x).2.2 id k
    · intro c' hc'
      rw [hds] at hc'
      exact syncRemoveSession_calls hi.dinv x c' hc'
    · intro c' hc' hs hv
      rw [hds]
      exact syncRemoveSession_calls_keep hi.dinv x c' hc' hs hv

end Nexus.L2.WpC
