/-
  WP-A: how a realm evolves its broker.

  `Evo r r'`: the configuration, the meta session and the dealer's configuration flags are
  unchanged, and the broker of `r'` is the broker of `r` after a list of `BStep`s whose `.publish`
  steps carry the publication ids `pubBase + m` for strictly increasing `m` taken from
  `[r.pubCount, r'.pubCount)` and payload-passthru details without `topic` / publisher keys
  (`Trace`).

  Every function of `Nexus.L2.Realm` — every handler, every internal task, every timed event,
  `drain`, `advance`, `flush`, `step` — relates its argument to its result by `Evo`
  (no invariant needed); hence every `Reachable cfg r` is `Evo`-related to `Realm.create cfg`.
-/
import Nexus.L2.Proofs.WpAFlags
import Nexus.L2.Proofs.RealmInv
import Nexus.L2.Proofs.RealmPublish
import Nexus.L2.Proofs.BrokerHist
import Nexus.L2.Proofs.BrokerBase

namespace Nexus.L2.WpA
open Nexus.L2 Nexus.L2.Realm Gen.N

/-! ### traces -/

/-- the payload-passthru details handed to the broker carry neither `topic` nor a publisher key -/
def PubOk (p : Publication) : Prop :=
  ∀ key, (key = "topic" ∨ isPublisherKey key) → p.baseDetails.get? key = none

/-- `Trace n steps n'`: the `.publish` steps of `steps` carry, in order, the ids `pubBase + m` for
    strictly increasing `m` with `n ≤ m < n'`, and satisfy `PubOk`; moreover `n ≤ n'`. -/
def Trace : Nat → List BStep → Nat → Prop
  | n, [], n' => n ≤ n'
  | n, e :: rest, n' =>
    match e with
    | .publish _ _ p => ∃ m, n ≤ m ∧ p.pubId = pubBase + m ∧ PubOk p ∧ Trace (m + 1) rest n'
    | _ => Trace n rest n'

theorem Trace.le : ∀ {steps : List BStep} {n n' : Nat}, Trace n steps n' → n ≤ n'
  | [], _, _, h => h
  | e :: rest, n, n', h => by
    cases e with
    | publish sess now p =>
      obtain ⟨m, h1, _, _, h2⟩ := h
      have := Trace.le h2
      omega
    | subscribe k req topic m pub0 => exact Trace.le (steps := rest) h
    | unsubscribe k req subId pub0 => exact Trace.le (steps := rest) h
    | removeSession k pub0 => exact Trace.le (steps := rest) h

theorem Trace.mono_left : ∀ {steps : List BStep} {n n' m : Nat}, Trace n steps n' → m ≤ n → Trace m steps n'
  | [], n, n', m, h, hm => Nat.le_trans hm h
  | e :: rest, n, n', m, h, hm => by
    cases e with
    | publish sess now p =>
      obtain ⟨m', h1, h2, h3, h4⟩ := h
      exact ⟨m', Nat.le_trans hm h1, h2, h3, h4⟩
    | subscribe k req topic m pub0 => exact Trace.mono_left (steps := rest) h hm
    | unsubscribe k req subId pub0 => exact Trace.mono_left (steps := rest) h hm
    | removeSession k pub0 => exact Trace.mono_left (steps := rest) h hm

theorem Trace.mono_right : ∀ {steps : List BStep} {n n' m : Nat}, Trace n steps n' → n' ≤ m → Trace n steps m
  | [], n, n', m, h, hm => Nat.le_trans h hm
  | e :: rest, n, n', m, h, hm => by
    cases e with
    | publish sess now p =>
      obtain ⟨m', h1, h2, h3, h4⟩ := h
      exact ⟨m', h1, h2, h3, Trace.mono_right h4 hm⟩
    | subscribe k req topic m pub0 => exact Trace.mono_right (steps := rest) h hm
    | unsubscribe k req subId pub0 => exact Trace.mono_right (steps := rest) h hm
    | removeSession k pub0 => exact Trace.mono_right (steps := rest) h hm

theorem Trace.append : ∀ {s1 s2 : List BStep} {a b c : Nat}, Trace a s1 b → Trace b s2 c → Trace a (s1 ++ s2) c
  | [], s2, a, b, c, h1, h2 => Trace.mono_left h2 h1
  | e :: rest, s2, a, b, c, h1, h2 => by
    cases e with
    | publish sess now p =>
      obtain ⟨m', g1, g2, g3, g4⟩ := h1
      exact ⟨m', g1, g2, g3, Trace.append g4 h2⟩
    | subscribe k req topic m pub0 => exact Trace.append (s1 := rest) h1 h2
    | unsubscribe k req subId pub0 => exact Trace.append (s1 := rest) h1 h2
    | removeSession k pub0 => exact Trace.append (s1 := rest) h1 h2

theorem run_append (b : Broker) (s1 s2 : List BStep) : b.run (s1 ++ s2) = (b.run s1).run s2 := by
  unfold Broker.run; rw [List.foldl_append]

/-! ### the relations -/

/-- nothing of interest changes: configuration, broker, publication counter, meta session and the
    dealer's flags are the same -/
structure Quiet (r r' : Realm) : Prop where
  cfg : r'.cfg = r.cfg
  broker : r'.broker = r.broker
  pubCount : r'.pubCount = r.pubCount
  metaS : r'.metaS = r.metaS
  dfl : DFlags r.ds r'.ds

theorem Quiet.refl (r : Realm) : Quiet r r := ⟨rfl, rfl, rfl, rfl, ⟨rfl, rfl⟩⟩

theorem Quiet.trans {a b c : Realm} (h1 : Quiet a b) (h2 : Quiet b c) : Quiet a c :=
  ⟨h2.cfg.trans h1.cfg, h2.broker.trans h1.broker, h2.pubCount.trans h1.pubCount, h2.metaS.trans h1.metaS,
   h1.dfl.trans h2.dfl⟩

structure Evo (r r' : Realm) : Prop where
  cfg : r'.cfg = r.cfg
  metaS : r'.metaS = r.metaS
  dfl : DFlags r.ds r'.ds
  run : ∃ steps, r'.broker = r.broker.run steps ∧ Trace r.pubCount steps r'.pubCount

theorem Quiet.evo {r r' : Realm} (h : Quiet r r') : Evo r r' :=
  ⟨h.cfg, h.metaS, h.dfl, [], h.broker, by rw [h.pubCount]; exact Nat.le_refl _⟩

theorem Evo.refl (r : Realm) : Evo r r := (Quiet.refl r).evo

theorem Evo.trans {a b c : Realm} (h1 : Evo a b) (h2 : Evo b c) : Evo a c := by
  obtain ⟨s1, e1, t1⟩ := h1.run
  obtain ⟨s2, e2, t2⟩ := h2.run
  exact ⟨h2.cfg.trans h1.cfg, h2.metaS.trans h1.metaS, h1.dfl.trans h2.dfl, s1 ++ s2,
    by rw [e2, e1, run_append], t1.append t2⟩

theorem Evo.pubCount_le {r r' : Realm} (h : Evo r r') : r.pubCount ≤ r'.pubCount := by
  obtain ⟨_, _, t⟩ := h.run; exact t.le

/-- one broker step that draws `n` publication ids but is not a publication -/
theorem evo_brokerStep (r : Realm) (e : BStep) (n : Nat) (hne : ∀ sess now p, e ≠ .publish sess now p) :
    Evo r ({ r with broker := r.broker.step e, pubCount := r.pubCount + n } : Realm) := by
  refine ⟨rfl, rfl, DFlags.refl _, [e], rfl, ?_⟩
  cases e with
  | publish sess now p => exact absurd rfl (hne sess now p)
  | subscribe k req topic m pub0 => exact Nat.le_add_right _ _
  | unsubscribe k req subId pub0 => exact Nat.le_add_right _ _
  | removeSession k pub0 => exact Nat.le_add_right _ _

/-! ### primitives -/

theorem quiet_frame {r r' : Realm} (h : SendFrame r r') : Quiet r r' :=
  ⟨h.cfg, h.broker, h.pubCount, h.metaS, by rw [h.ds]; exact ⟨rfl, rfl⟩⟩

theorem quiet_setPanic (r : Realm) (p : Option String) : Quiet r (r.setPanic p) := quiet_frame (setPanic_frame r p)
theorem quiet_trySend (r : Realm) (s : Send) : Quiet r (r.trySend s) := quiet_frame (trySend_frame r s)
theorem quiet_deliver (r : Realm) (ss : List Send) : Quiet r (r.deliver ss) := quiet_frame (deliver_frame ss r)

theorem quiet_applyD (r : Realm) (o : DOut) (h : DFlags r.ds o.st) : Quiet r (r.applyD o) := by
  rw [applyD_eq]
  refine Quiet.trans ?_ (quiet_setPanic _ _)
  have h1 : Quiet r ({ r with ds := o.st } : Realm) := ⟨rfl, rfl, rfl, rfl, h⟩
  have h2 := quiet_deliver ({ r with ds := o.st } : Realm) o.sends
  exact h1.trans (h2.trans ⟨rfl, rfl, rfl, rfl, ⟨rfl, rfl⟩⟩)

/-! ### handlers -/

theorem evo_handlePublish (r : Realm) (s : Session) (req : Nat) (opts : Dict) (topic : String)
    (args : List WVal) (kw : Dict) : Evo r (handlePublish r s req opts topic args kw) := by
  by_cases hv : validUri r.broker.strict "" topic = true
  · by_cases hp : pptRefused s opts = true
    · rw [handlePublish_ppt r s req opts topic args kw hv hp]
      exact Quiet.evo (Quiet.trans (quiet_trySend r _) ⟨rfl, rfl, rfl, rfl, ⟨rfl, rfl⟩⟩)
    · have hp' : pptRefused s opts = false := by simpa using hp
      by_cases hd : discloseRefused r opts = true
      · rw [handlePublish_refused r s req opts topic args kw hv hp' hd]
        exact (quiet_deliver r _).evo
      · have hd' : discloseRefused r opts = false := by simpa using hd
        rw [handlePublish_ok r s req opts topic args kw hv hp' hd']
        have h1 : Evo r ({ r with pubCount := r.pubCount + 1,
                                  broker := (r.broker.syncPublish r.session? r.now (pubOf r s opts topic args kw)).1 } : Realm) := by
          refine ⟨rfl, rfl, DFlags.refl _, [.publish r.session? r.now (pubOf r s opts topic args kw)], rfl, ?_⟩
          refine ⟨r.pubCount, Nat.le_refl _, rfl, ?_, Nat.le_refl _⟩
          intro key hk
          exact realm_base_ok opts (pptScheme opts != "") key hk
        exact h1.trans (quiet_deliver _ _).evo
  · have hv' : validUri r.broker.strict "" topic = false := by simpa using hv
    rw [handlePublish_invalid r s req opts topic args kw hv']
    exact (quiet_deliver r _).evo

theorem evo_handleSubscribe (r : Realm) (s : Session) (req : Nat) (opts : Dict) (topic : String) :
    Evo r (handleSubscribe r s req opts topic) := by
  by_cases hv : validUri r.broker.strict (opts.optString OptMatch) topic = true
  · rw [handleSubscribe_ok r s req opts topic hv]
    have h1 := evo_brokerStep r (.subscribe s.key req topic (opts.optString OptMatch) r.pubCount)
      (r.broker.syncSubscribe s.key req topic (opts.optString OptMatch) r.pubCount).2.2 (by intros; simp)
    exact h1.trans (quiet_deliver _ _).evo
  · have hv' : validUri r.broker.strict (opts.optString OptMatch) topic = false := by simpa using hv
    rw [handleSubscribe_invalid r s req opts topic hv']
    exact (quiet_deliver r _).evo

theorem evo_handleUnsubscribe (r : Realm) (s : Session) (req sub : Nat) :
    Evo r (handleUnsubscribe r s req sub) := by
  rw [handleUnsubscribe_eq]
  have h1 := evo_brokerStep r (.unsubscribe s.key req sub r.pubCount)
    (r.broker.syncUnsubscribe s.key req sub r.pubCount).2.2 (by intros; simp)
  exact h1.trans (quiet_deliver _ _).evo

theorem quiet_handleRegister (r : Realm) (s : Session) (req : Nat) (opts : Dict) (proc : String) :
    Quiet r (handleRegister r s req opts proc) := by
  unfold handleRegister
  dsimp only
  repeat' split
  all_goals first
    | exact quiet_trySend _ _
    | exact quiet_applyD _ _ (syncRegister_flags ..)

theorem quiet_handleUnregister (r : Realm) (s : Session) (req reg : Nat) :
    Quiet r (handleUnregister r s req reg) := quiet_applyD _ _ (syncUnregister_flags ..)

theorem quiet_handleCall (r : Realm) (s : Session) (req : Nat) (opts : Dict) (proc : String)
    (args : List WVal) (kw : Dict) : Quiet r (handleCall r s req opts proc args kw) :=
  quiet_applyD _ _ (syncCall_flags ..)

theorem quiet_handleCancel (r : Realm) (s : Session) (req : Nat) (opts : Dict) :
    Quiet r (handleCancel r s req opts) := by
  unfold handleCancel
  dsimp only
  repeat' split
  all_goals first
    | exact quiet_applyD _ _ (syncCancel_flags ..)
    | exact quiet_trySend _ _

theorem quiet_handleYield (r : Realm) (s : Session) (req : Nat) (opts : Dict) (args : List WVal) (kw : Dict) :
    Quiet r (handleYield r s req opts args kw) := by
  unfold handleYield
  dsimp only
  have h := quiet_applyD r _ (syncYield_flags r.denv r.ds s.key req opts args kw (opts.optFlag OptProgress) true)
  split
  · exact h.trans ⟨rfl, rfl, rfl, rfl, ⟨rfl, rfl⟩⟩
  · exact h

theorem quiet_handleError (r : Realm) (s : Session) (req : Nat) (details : Dict) (err : String)
    (args : List WVal) (kw : Dict) : Quiet r (handleError r s req details err args kw) :=
  quiet_applyD _ _ (syncError_flags ..)

theorem quiet_authzGate (r : Realm) (s : Session) (m : Msg) : Quiet r (authzGate r s m).2 := by
  unfold authzGate
  dsimp only
  repeat' split
  all_goals first
    | exact Quiet.refl _
    | exact quiet_trySend _ _

theorem evo_dispatch (r : Realm) (s : Session) (m : Msg) : Evo r (Realm.dispatch r s m) := by
  cases m
  case publish => exact evo_handlePublish ..
  case yield => exact (quiet_handleYield ..).evo
  case call => exact (quiet_handleCall ..).evo
  case cancel => exact (quiet_handleCancel ..).evo
  case subscribe => exact evo_handleSubscribe ..
  case register => exact (quiet_handleRegister ..).evo
  case unsubscribe => exact evo_handleUnsubscribe ..
  case unregister => exact (quiet_handleUnregister ..).evo
  case error typ req details err args kw =>
    show Evo r (if typ != tINVOCATION then _ else handleError r s req details err args kw)
    split
    · exact Quiet.evo ⟨rfl, rfl, rfl, rfl, ⟨rfl, rfl⟩⟩
    · exact (quiet_handleError ..).evo
  case goodbye =>
    exact Quiet.evo (Quiet.trans (quiet_trySend r ⟨s.key, .goodbye [] CloseGoodbyeAndOut⟩) ⟨rfl, rfl, rfl, rfl, ⟨rfl, rfl⟩⟩)
  all_goals exact Quiet.evo ⟨rfl, rfl, rfl, rfl, ⟨rfl, rfl⟩⟩

theorem evo_handleMsg (r : Realm) (s : Session) (m : Msg) : Evo r (handleMsg r s m) := by
  rw [handleMsg_eq]
  have hg := (quiet_authzGate r s m).evo
  split
  · exact hg.trans (evo_dispatch _ s m)
  · exact hg

/-! ### session end -/

theorem quiet_takeTestaments (r : Realm) (k : SessKey) : Quiet r (r.takeTestaments k).2 := by
  unfold takeTestaments
  split <;> exact ⟨rfl, rfl, rfl, rfl, ⟨rfl, rfl⟩⟩

theorem quiet_leaveSend (r : Realm) (k : SessKey) (mode : LeaveMode) : Quiet r (leaveSend r k mode) := by
  cases mode <;> first | exact quiet_trySend _ _ | exact Quiet.refl _

theorem evo_leaveRemove (r : Realm) (k : SessKey) (quiet : Bool) : Evo r (leaveRemove r k quiet) := by
  unfold leaveRemove
  split
  · extract_lets o
    split
    rename_i b x1 x2 heq
    have eb : b = (r.broker.syncRemoveSession k r.pubCount).1 := by rw [heq]
    subst eb
    have h1 : Evo r ({ r with ds := o.st, broker := (r.broker.syncRemoveSession k r.pubCount).1 } : Realm) :=
      ⟨rfl, rfl, syncRemoveSession_flags' r.denv r.ds k, [.removeSession k r.pubCount], rfl, Nat.le_refl _⟩
    exact h1.trans (quiet_setPanic _ _).evo
  · extract_lets o ra
    have ha : Quiet r ra := quiet_applyD r o (syncRemoveSession_flags' r.denv r.ds k)
    split
    rename_i b sends n heq
    have eb : b = (ra.broker.syncRemoveSession k ra.pubCount).1 := by rw [heq]
    have en : n = (ra.broker.syncRemoveSession k ra.pubCount).2.2 := by rw [heq]
    subst eb en
    have h1 := evo_brokerStep ra (.removeSession k ra.pubCount) (ra.broker.syncRemoveSession k ra.pubCount).2.2
      (by intros; simp)
    exact ha.evo.trans (h1.trans (quiet_deliver _ _).evo)

theorem quiet_leaveAnnounce (r : Realm) (s : Session) (tst : Option TBucket) (silent : Bool) :
    Quiet r (leaveAnnounce r s tst silent) := by
  unfold leaveAnnounce
  split
  · exact Quiet.refl _
  · exact ⟨rfl, rfl, rfl, rfl, ⟨rfl, rfl⟩⟩

theorem evo_leave (r : Realm) (k : SessKey) (mode : LeaveMode) : Evo r (r.leave k mode) := by
  cases hf : r.clients.find? (fun c => c.key == k) with
  | none => rw [leave_none mode hf]; exact Evo.refl r
  | some s =>
    rw [leave_some mode hf]
    have h1 := (quiet_leaveSend r k mode).evo
    have h2 := (quiet_takeTestaments (leaveSend r k mode) k).evo
    have h3 := evo_leaveRemove ((leaveSend r k mode).takeTestaments k).2 k mode.isShutdown
    have h4 := (quiet_leaveAnnounce (leaveRemove ((leaveSend r k mode).takeTestaments k).2 k mode.isShutdown) s
      ((leaveSend r k mode).takeTestaments k).1 mode.isShutdown).evo
    refine (h1.trans (h2.trans (h3.trans h4))).trans ?_
    exact Quiet.evo ⟨rfl, rfl, rfl, rfl, ⟨rfl, rfl⟩⟩

/-! ### internal tasks, inputs, timed events -/

theorem quiet_metaEffect {r r' : Realm} (e : MetaEffect r r') : Quiet r r' := by
  cases e with
  | same => exact Quiet.refl r
  | kill sel g ka => exact ⟨rfl, rfl, rfl, rfl, ⟨rfl, rfl⟩⟩
  | testaments t _ => exact ⟨rfl, rfl, rfl, rfl, ⟨rfl, rfl⟩⟩
  | modify k d => exact ⟨rfl, rfl, rfl, rfl, ⟨rfl, rfl⟩⟩

theorem evo_recvMsg (r : Realm) (k : SessKey) (m : Msg) : Evo r (r.recvMsg k m) := by
  rw [recvMsg_eq]
  split
  · exact Evo.refl r
  · split
    · exact Evo.refl r
    · split
      · split
        · exact Quiet.evo ⟨rfl, rfl, rfl, rfl, ⟨rfl, rfl⟩⟩
        · exact Evo.refl r
      · exact evo_handleMsg _ _ _

theorem evo_runTask (r : Realm) (t : Task) : Evo r (r.runTask t) := by
  cases t with
  | inMsg k m => exact evo_recvMsg r k m
  | metaPub p => exact evo_handlePublish ..
  | metaInvoke req reg details args kw =>
    rw [runTask_metaInvoke]
    split
    · exact Quiet.evo ⟨rfl, rfl, rfl, rfl, ⟨rfl, rfl⟩⟩
    · rename_i proc _
      exact Quiet.evo (Quiet.trans (quiet_metaEffect (metaProc_effect r proc req details args kw))
        ⟨rfl, rfl, rfl, rfl, ⟨rfl, rfl⟩⟩)
  | metaMsg m => exact evo_handleMsg ..
  | leave k mode =>
    rw [runTask_leave]
    split
    · exact Quiet.evo ⟨rfl, rfl, rfl, rfl, ⟨rfl, rfl⟩⟩
    · exact evo_leave r k mode

theorem evo_drain : ∀ (fuel : Nat) (r : Realm), Evo r (drain fuel r)
  | 0, r => by
    rw [drain_zero]
    split
    · exact Evo.refl r
    · exact (quiet_setPanic _ _).evo
  | fuel + 1, r => by
    cases ht : r.tasks with
    | nil => rw [drain_succ_nil _ _ ht]; exact Evo.refl r
    | cons t ts =>
      rw [drain_succ_cons _ _ t ts ht]
      have h0 : Evo r ({ r with tasks := ts } : Realm) := Quiet.evo ⟨rfl, rfl, rfl, rfl, ⟨rfl, rfl⟩⟩
      exact h0.trans ((evo_runTask _ t).trans (evo_drain fuel _))

theorem evo_stepOp (r : Realm) (op : Op) : Evo r (r.stepOp op) := by
  cases op with
  | join k isLocal details roles cap =>
    rw [stepOp_join]
    split
    · exact Evo.refl r
    · exact Quiet.evo ⟨rfl, rfl, rfl, rfl, ⟨rfl, rfl⟩⟩
  | msg k m => exact evo_recvMsg r k m
  | buffer k => rw [stepOp_buffer]; exact Quiet.evo ⟨rfl, rfl, rfl, rfl, ⟨rfl, rfl⟩⟩
  | drop k =>
    rw [stepOp_drop]
    split
    · exact Evo.refl r
    split
    · exact Evo.refl r
    · exact Quiet.evo ⟨rfl, rfl, rfl, rfl, ⟨rfl, rfl⟩⟩
  | stall k => rw [stepOp_stall]; exact Quiet.evo ⟨rfl, rfl, rfl, rfl, ⟨rfl, rfl⟩⟩
  | resume k => rw [stepOp_resume]; exact Quiet.evo ⟨rfl, rfl, rfl, rfl, ⟨rfl, rfl⟩⟩
  | tick ms => exact Evo.refl r
  | rnd n => exact Quiet.evo ⟨rfl, rfl, rfl, rfl, ⟨rfl, rfl⟩⟩

theorem quiet_retryDue (r : Realm) (x : Retry) : Quiet r (r.retryDue x) := by
  unfold Realm.retryDue
  extract_lets r1 canRetry o r2
  have h1 : Quiet r r1 := ⟨rfl, rfl, rfl, rfl, ⟨rfl, rfl⟩⟩
  have h2 : Quiet r1 r2 := quiet_applyD r1 o (syncYield_flags ..)
  split
  · exact h1.trans (h2.trans ⟨rfl, rfl, rfl, rfl, ⟨rfl, rfl⟩⟩)
  · exact h1.trans (h2.trans ⟨rfl, rfl, rfl, rfl, ⟨rfl, rfl⟩⟩)

theorem quiet_timerDue (r : Realm) (t : Timer) : Quiet r (r.timerDue t) := by
  unfold Realm.timerDue
  extract_lets ds1 r1
  have h1 : Quiet r r1 := ⟨rfl, rfl, rfl, rfl, ⟨rfl, rfl⟩⟩
  exact h1.trans (quiet_applyD r1 _ (syncCancel_flags ..))

theorem evo_advance : ∀ (fuel : Nat) (r : Realm) (target : Nat), Evo r (advance fuel r target)
  | 0, r, target => by
    unfold Realm.advance
    exact Quiet.evo (Quiet.trans (b := ({ r with now := target } : Realm)) ⟨rfl, rfl, rfl, rfl, ⟨rfl, rfl⟩⟩
      (quiet_setPanic _ _))
  | fuel + 1, r, target => by
    unfold Realm.advance
    split
    · exact Quiet.evo ⟨rfl, rfl, rfl, rfl, ⟨rfl, rfl⟩⟩
    · rename_i d _
      extract_lets r1 r2
      have h1 : Quiet r r1 := ⟨rfl, rfl, rfl, rfl, ⟨rfl, rfl⟩⟩
      have h2 : Quiet r1 r2 := by
        cases d with
        | timer t => exact quiet_timerDue r1 t
        | retry x => exact quiet_retryDue r1 x
      exact (h1.trans h2).evo.trans ((evo_drain _ _).trans (evo_advance fuel _ target))

theorem quiet_flush (r : Realm) : Quiet r r.flush.2 := by
  unfold Realm.flush
  extract_lets reading out seenClosed keep keepEmpty
  exact ⟨rfl, rfl, rfl, rfl, ⟨rfl, rfl⟩⟩

/-- one external input, run to quiescence -/
theorem evo_step (r : Realm) (op : Op) : Evo r (r.step op).2 := by
  by_cases ht : ∃ ms, op = .tick ms
  · obtain ⟨ms, rfl⟩ := ht
    rw [step_tick]
    exact (evo_advance _ _ _).trans (quiet_flush _).evo
  · rw [step_of_not_tick r op (fun ms e => ht ⟨ms, e⟩)]
    exact (evo_stepOp r op).trans ((evo_drain _ _).trans (quiet_flush _).evo)

/-! ### the initial realm and reachable realms -/

theorem registerMeta_dflags : ∀ (ps : List String) (r : Realm), DFlags r.ds (registerMeta r ps).ds
  | [], r => DFlags.refl _
  | p :: ps, r => by
    unfold registerMeta
    extract_lets o id
    exact DFlags.trans (syncRegister_flags ..) (registerMeta_dflags ps _)

/-- the state `Realm.create` builds -/
theorem create_fields {cfg : Config} {r : Realm} (h : Realm.create cfg = some r) :
    r.cfg = cfg ∧
    r.broker = ({ strict := cfg.strict, allowDisclose := cfg.allowDisclose } : Broker).preInit cfg.history ∧
    r.ds.d.strict = cfg.strict ∧ r.ds.d.allowDisclose = cfg.allowDisclose ∧
    r.pubCount = 0 ∧ r.metaS = ({} : Realm).metaS := by
  unfold Realm.create at h
  split at h
  · cases h
  · split at h
    · cases h
    · extract_lets b d at h
      cases h
      obtain ⟨f1, _, _, _, f5, _, _, _, _, _, _, f12⟩ :=
        registerMeta_fields (metaProcNames cfg) { cfg := cfg, broker := b, ds := { d := d } }
      have hd := registerMeta_dflags (metaProcNames cfg) { cfg := cfg, broker := b, ds := { d := d } }
      have hpc : ∀ (ps : List String) (r : Realm), (registerMeta r ps).pubCount = r.pubCount := by
        intro ps
        induction ps with
        | nil => intro r; rfl
        | cons p ps ih => intro r; unfold registerMeta; extract_lets o id; exact ih _
      exact ⟨f12, f1, hd.1, hd.2, hpc _ _, f5⟩

/-- Every reachable realm is `Evo`-related to the realm `Realm.create cfg` built. -/
theorem reachable_evo {cfg : Config} {r : Realm} (h : Realm.Reachable cfg r) :
    ∃ r0, Realm.create cfg = some r0 ∧ Evo r0 r := by
  induction h with
  | init h => exact ⟨_, h, Evo.refl _⟩
  | step op _ ih =>
    obtain ⟨r0, h0, e0⟩ := ih
    exact ⟨r0, h0, e0.trans (evo_step _ op)⟩

end Nexus.L2.WpA
