/-
  C07 "stall isolation", part 7: departures, internal tasks, external inputs, timed events, `drain`,
  `advance`, `flush` and `step`.
-/
import Nexus.L2.Proofs.WpCStallIdle
import Nexus.L2.Proofs.WpCStallMeta

set_option linter.unusedSimpArgs false

namespace Nexus.L2.WpC
open Nexus.L2 Nexus.L2.Realm Gen.N

variable {x : SessKey}

/-! ### departures (of anybody, also of `x`) -/

theorem eqoff_leaveSend {r r' : Realm} (h : EqOff x r r') (k : SessKey) (mode : LeaveMode) :
    EqOff x (leaveSend r k mode) (leaveSend r' k mode) := by
  cases mode <;> first | exact eqoff_trySend h _ | exact h

theorem eqoff_takeTestaments {r r' : Realm} (h : EqOff x r r') (k : SessKey) :
    (r'.takeTestaments k).1 = (r.takeTestaments k).1 ∧ EqOff x (r.takeTestaments k).2 (r'.takeTestaments k).2 := by
  unfold Realm.takeTestaments
  rw [h.testaments]
  split
  · exact ⟨rfl, by eqoff_upd h⟩
  · exact ⟨rfl, h⟩

theorem eqoff_leaveRemove {r r' : Realm} (h : EqOff x r r') (k : SessKey) (quiet : Bool) :
    EqOff x (leaveRemove r k quiet) (leaveRemove r' k quiet) := by
  unfold leaveRemove
  rw [h.ds, syncRemoveSession_congr h.denv, h.broker, h.pubCount]
  split
  · dsimp only
    apply eqoff_setPanic
    eqoff_upd h
  · dsimp only
    have h1 := eqoff_applyD h (syncRemoveSession r.denv r.ds k)
    rw [h1.broker, h1.pubCount]
    apply eqoff_deliver
    eqoff_upd h1

theorem eqoff_leaveAnnounce {r r' : Realm} (h : EqOff x r r') {s s' : Session} (hs : SEq x s s')
    (tst : Option TBucket) (silent : Bool) :
    EqOff x (leaveAnnounce r s tst silent) (leaveAnnounce r' s' tst silent) := by
  unfold leaveAnnounce onLeavePub
  rw [hs.key, hs.details]
  split
  · exact h
  · exact eqoff_addTasks h _

theorem filter_off_snoc (l : List SessKey) (k : SessKey) :
    (l ++ [k]).filter (· != x) = if k = x then l.filter (· != x) else l.filter (· != x) ++ [k] := by
  rw [List.filter_append]
  by_cases hk : k = x
  · simp [hk]
  · have : (k != x) = true := by simpa using hk
    simp [List.filter_cons, this, hk]

theorem eqoff_leaveClose {r r' : Realm} (h : EqOff x r r') {s s' : Session} (hs : SEq x s s') :
    EqOff x (leaveClose r s) (leaveClose r' s') := by
  unfold leaveClose
  rw [hs.key]
  refine EqOff.mk h.cfg h.broker h.ds ?_ ?_ h.testaments h.metaProcs h.metaS h.queues ?_ h.tasks h.retries
    h.deferred h.inbox ?_ h.now h.pubCount h.rnd h.panic
  · exact filter_of_map_eq h.clients _ (fun c => by simp)
  · dsimp only; rw [h.ending]
  · dsimp only
    rw [filter_off_snoc, filter_off_snoc, h.closedPeers]
  · dsimp only
    by_cases hk : s.key = x
    · -- `x` itself departs: whether it becomes a ghost depends on `stalled`, but only at `x`
      have e : ∀ (b : Bool) (g : List SessKey), (if b then g ++ [s.key] else g).filter (· != x) = g.filter (· != x) := by
        intro b g
        cases b
        · rfl
        · simp only [if_true]; rw [filter_off_snoc, if_pos hk]
      rw [e, e, h.ghosts]
    · rw [hs.eq_of_ne hk]
      split
      · rw [filter_off_snoc, filter_off_snoc, h.ghosts]
      · exact h.ghosts

/-- a session's handler exits (any session, also `x`; any reason) -/
theorem eqoff_leave {r r' : Realm} (h : EqOff x r r') (k : SessKey) (mode : LeaveMode) :
    EqOff x (r.leave k mode) (r'.leave k mode) := by
  rcases (h.find k).cases with ⟨e1, e2⟩ | ⟨c, c', e1, e2, hc⟩
  · rw [leave_none mode e1, leave_none mode e2]; exact h
  · rw [leave_some mode e1, leave_some mode e2]
    have h1 := eqoff_leaveSend h k mode
    obtain ⟨t2, h2⟩ := eqoff_takeTestaments h1 k
    rw [t2]
    exact eqoff_leaveClose (eqoff_leaveAnnounce (eqoff_leaveRemove h2 k _) hc _ _) hc

theorem idle_leaveSend {r : Realm} (h : Idle x r) (k : SessKey) (mode : LeaveMode) : Idle x (leaveSend r k mode) := by
  cases mode <;> first | exact idle_trySend h _ | exact h

theorem idle_takeTestaments {r : Realm} (h : Idle x r) (k : SessKey) : Idle x (r.takeTestaments k).2 := by
  unfold Realm.takeTestaments
  split
  · exact h.mono id (fun y hy => Or.inl hy) rfl
  · exact h

theorem idle_leaveRemove {r : Realm} (hd : DealerInv r.ds) (h : Idle x r) (k : SessKey) (quiet : Bool) :
    Idle x (leaveRemove r k quiet) := by
  have hr : (syncRemoveSession r.denv r.ds k).st.refs x → r.ds.refs x :=
    fun hr => (syncRemoveSession_refs_sub hd k x hr).1
  unfold leaveRemove
  split
  · dsimp only
    apply idle_setPanic
    exact h.mono hr (fun y hy => Or.inl hy) rfl
  · dsimp only
    apply idle_deliver
    have h1 := idle_applyD h _ hr
    exact h1.mono id (fun y hy => Or.inl hy) rfl

theorem idle_leaveAnnounce {r : Realm} (h : Idle x r) (s : Session) (tst : Option TBucket) (silent : Bool) :
    Idle x (leaveAnnounce r s tst silent) := by
  unfold leaveAnnounce
  split
  · exact h
  · refine h.mono id (fun y hy => Or.inl hy) ?_
    unfold Realm.addTasks testamentTasks
    dsimp only
    split <;> simp

theorem idle_leave {r : Realm} (hd : DealerInv r.ds) (h : Idle x r) (k : SessKey) (mode : LeaveMode) :
    Idle x (r.leave k mode) := by
  cases e1 : r.clients.find? (fun c => c.key == k) with
  | none => rw [leave_none mode e1]; exact h
  | some c =>
    rw [leave_some mode e1]
    have h2 := idle_takeTestaments (idle_leaveSend h k mode) k
    have hd2 : DealerInv ((leaveSend r k mode).takeTestaments k).2.ds := by
      rw [dtakeTestaments_ds, dleaveSend_ds]; exact hd
    have h3 := idle_leaveAnnounce (idle_leaveRemove hd2 h2 k mode.isShutdown) c
      ((leaveSend r k mode).takeTestaments k).1 mode.isShutdown
    exact h3.mono id (fun y hy => Or.inl hy) rfl

/-! ### the handler reads a message -/

theorem eqoff_recvMsg {r r' : Realm} (h : EqOff x r r') (k : SessKey) (m : Msg)
    (hm : isRpc m = false ∨ (k ≠ x ∧ DIdle x r.ds)) :
    EqOff x (r.recvMsg k m) (r'.recvMsg k m) := by
  rw [recvMsg_eq, recvMsg_eq]
  have hb : r'.busy k = r.busy k := by unfold Realm.busy; rw [h.retries]
  rcases (h.find k).cases with ⟨e1, e2⟩ | ⟨c, c', e1, e2, hc⟩
  · rw [e1, e2]; exact h
  · rw [e1, e2]
    dsimp only
    rw [h.ending, hb, hc.buffered]
    split
    · exact h
    · split
      · split
        · eqoff_upd h
        · exact h
      · refine eqoff_handleMsg h hc m ?_
        rw [(find?_key e1).2]
        exact hm

theorem idle_recvMsg {r : Realm} (hd : DealerInv r.ds) (h : Idle x r) (k : SessKey) (m : Msg)
    (hm : isRpc m = false ∨ k ≠ x) : Idle x (r.recvMsg k m) := by
  rw [recvMsg_eq]
  split
  · exact h
  · rename_i s hs
    split
    · exact h
    · split
      · split
        · exact h.mono id (fun y hy => Or.inl hy) rfl
        · exact h
      · exact idle_handleMsg hd h s m (by rw [(find?_key hs).2]; exact hm)

/-! ### internal tasks -/

/-- a task that is not an RPC message of `x` waiting for its handler -/
def TaskFree (x : SessKey) : Task → Prop
  | .inMsg k m => k = x → isRpc m = false
  | _ => True

theorem eqoff_runTask {r r' : Realm} (h : EqOff x r r') (hx : x ≠ metaKey) (hmk : r.metaS.key = metaKey)
    (hd : DIdle x r.ds) (t : Task) (ht : TaskFree x t) : EqOff x (r.runTask t) (r'.runTask t) := by
  cases t with
  | metaPub p => exact eqoff_metaPublish h p
  | metaInvoke req reg details args kw =>
    rw [runTask_metaInvoke, runTask_metaInvoke, h.metaProcs]
    split
    · exact eqoff_addTasks h _
    · rename_i proc _
      obtain ⟨e1, e2⟩ := eqoff_metaProc h proc req details args kw
      rw [e1]
      exact eqoff_addTasks e2 _
  | metaMsg m =>
    rw [runTask_metaMsg, runTask_metaMsg]
    refine eqoff_handleMsg h (by rw [h.metaS]; exact SEq.refl _) m (Or.inr ⟨?_, hd⟩)
    rw [hmk]; exact fun e => hx e.symm
  | leave k mode =>
    rw [runTask_leave, runTask_leave]
    have hb : r'.busy k = r.busy k := by unfold Realm.busy; rw [h.retries]
    rw [hb]
    split
    · eqoff_upd h
    · exact eqoff_leave h k mode
  | inMsg k m =>
    rw [runTask_inMsg, runTask_inMsg]
    refine eqoff_recvMsg h k m ?_
    by_cases hk : k = x
    · exact Or.inl (ht hk)
    · exact Or.inr ⟨hk, hd⟩

theorem metaEffect_fields {r r2 : Realm} (e : MetaEffect r r2) :
    r2.ds = r.ds ∧ r2.retries = r.retries ∧ inX x r2.tasks = inX x r.tasks := by
  cases e with
  | same => exact ⟨rfl, rfl, rfl⟩
  | kill sel g ka =>
    refine ⟨rfl, rfl, ?_⟩
    unfold Realm.killWhere
    dsimp only
    simp
  | modify k d => exact ⟨rfl, rfl, rfl⟩
  | testaments t ht => exact ⟨rfl, rfl, rfl⟩

theorem idle_runTask {r : Realm} (hd : DealerInv r.ds) (hx : x ≠ metaKey) (hmk : r.metaS.key = metaKey)
    (h : Idle x r) (t : Task) (ht : TaskFree x t) : Idle x (r.runTask t) := by
  cases t with
  | metaPub p => exact idle_handlePublish h _ ..
  | metaInvoke req reg details args kw =>
    rw [runTask_metaInvoke]
    split
    · refine h.mono id (fun y hy => Or.inl hy) ?_
      unfold Realm.addTasks; simp
    · rename_i proc _
      obtain ⟨f1, f2, f3⟩ := metaEffect_fields (x := x) (metaProc_effect r proc req details args kw)
      refine h.mono (by rw [addTasks_ds, f1]; exact id) (fun y hy => Or.inl (f2 ▸ hy)) ?_
      unfold Realm.addTasks
      simp [f3]
  | metaMsg m =>
    rw [runTask_metaMsg]
    exact idle_handleMsg hd h _ m (Or.inr (by rw [hmk]; exact fun e => hx e.symm))
  | leave k mode =>
    rw [runTask_leave]
    split
    · exact h.mono id (fun y hy => Or.inl hy) rfl
    · exact idle_leave hd h k mode
  | inMsg k m =>
    rw [runTask_inMsg]
    refine idle_recvMsg hd h k m ?_
    by_cases hk : k = x
    · exact Or.inl (ht hk)
    · exact Or.inr hk

/-! ### `drain` -/

theorem taskFree_of_idle {r : Realm} (h : Idle x r) {t : Task} (ht : t ∈ r.tasks) : TaskFree x t := by
  cases t with
  | inMsg k m =>
    intro hk
    subst hk
    exact h.tasks m (mem_inX.mpr ht)
  | _ => trivial

/-- all pending internal tasks run to quiescence: same on both sides off `x` -/
theorem eqoff_drain (hx : x ≠ metaKey) : ∀ (fuel : Nat) {r r' : Realm}, EqOff x r r' → RealmInv r → Idle x r →
    EqOff x (drain fuel r) (drain fuel r') ∧ RealmInv (drain fuel r) ∧ Idle x (drain fuel r)
  | 0, r, r', h, hi, hid => by
    rw [drain_zero, drain_zero, h.tasks]
    split
    · exact ⟨h, hi, hid⟩
    · exact ⟨eqoff_setPanic h _, hi.setPanic _, idle_setPanic hid _⟩
  | fuel + 1, r, r', h, hi, hid => by
    cases ht : r.tasks with
    | nil =>
      rw [drain_succ_nil _ _ ht, drain_succ_nil _ _ (h.tasks.trans ht)]
      exact ⟨h, hi, hid⟩
    | cons t ts =>
      rw [drain_succ_cons _ _ t ts ht, drain_succ_cons _ _ t ts (h.tasks.trans ht)]
      have h0 : EqOff x ({ r with tasks := ts } : Realm) ({ r' with tasks := ts } : Realm) := by eqoff_upd h
      have hi0 : RealmInv ({ r with tasks := ts } : Realm) :=
        hi.of_parts rfl hi.binv hi.dinv hi.bmem hi.dref hi.callers hi.retr
          (fun t' ht' => hi.tasks t' (by rw [ht]; exact List.mem_cons_of_mem _ ht')) hi.inb rfl
      have hid0 : Idle x ({ r with tasks := ts } : Realm) :=
        ⟨hid.refs, hid.retries, fun m hm => hid.tasks m (by
          rw [ht]; show m ∈ inX x ([t] ++ ts); rw [inX_append]; exact List.mem_append_right _ hm)⟩
      have hto : TaskOk t := hi.tasks t (by rw [ht]; exact List.mem_cons_self ..)
      have htf : TaskFree x t := taskFree_of_idle hid (by rw [ht]; exact List.mem_cons_self ..)
      exact eqoff_drain hx fuel (eqoff_runTask h0 hx hi0.metaKey hid0.didle t htf) (runTask_inv hi0 t hto).1
        (idle_runTask hi0.dinv hx hi0.metaKey hid0 t htf)

end Nexus.L2.WpC
