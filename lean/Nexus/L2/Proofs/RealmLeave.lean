/-
  What `Realm.leave` does, field by field (helper lemmas for C05), and consequences of
  `RealmInv` for the table sizes.
-/
import Nexus.L2.Proofs.RealmInv

namespace Nexus.L2
namespace Realm
open Gen.N

/-! ### fields that sending never touches -/

theorem setPanic_testaments (r : Realm) (p : Option String) : (r.setPanic p).testaments = r.testaments := by
  unfold setPanic; split <;> rfl
theorem setPanic_ending (r : Realm) (p : Option String) : (r.setPanic p).ending = r.ending := by
  unfold setPanic; split <;> rfl

theorem trySend_testaments (r : Realm) (s : Send) : (r.trySend s).testaments = r.testaments := by
  unfold trySend
  split
  · split <;> rfl
  · split
    · exact setPanic_testaments _ _
    · split
      · rfl
      · split <;> rfl

theorem trySend_ending (r : Realm) (s : Send) : (r.trySend s).ending = r.ending := by
  unfold trySend
  split
  · split <;> rfl
  · split
    · exact setPanic_ending _ _
    · split
      · rfl
      · split <;> rfl

theorem deliver_testaments : ∀ (ss : List Send) (r : Realm), (r.deliver ss).testaments = r.testaments
  | [], _ => rfl
  | s :: ss, r => by rw [deliver, deliver_testaments ss, trySend_testaments]

theorem deliver_ending : ∀ (ss : List Send) (r : Realm), (r.deliver ss).ending = r.ending
  | [], _ => rfl
  | s :: ss, r => by rw [deliver, deliver_ending ss, trySend_ending]

theorem applyD_testaments (r : Realm) (o : DOut) : (r.applyD o).testaments = r.testaments := by
  rw [applyD_eq, setPanic_testaments]
  exact deliver_testaments _ _

theorem leaveSend_testaments (r : Realm) (k : SessKey) (mode : LeaveMode) :
    (leaveSend r k mode).testaments = r.testaments := by
  cases mode <;> first | exact trySend_testaments _ _ | rfl

theorem leaveRemove_testaments (r : Realm) (k : SessKey) (quiet : Bool) :
    (leaveRemove r k quiet).testaments = r.testaments := by
  unfold leaveRemove
  split
  · extract_lets o
    split
    exact setPanic_testaments _ _
  · extract_lets o ra
    split
    rw [deliver_testaments]
    exact applyD_testaments r o

theorem takeTestaments_table (r : Realm) (k : SessKey) :
    (r.takeTestaments k).2.testaments = r.testaments.filter (fun t => t.1 != k) ∧
    (r.takeTestaments k).1 = (r.testaments.find? (fun t => t.1 == k)).map (·.2) := by
  unfold takeTestaments
  split
  · rename_i t ht
    exact ⟨rfl, by rw [ht]; rfl⟩
  · rename_i hn
    refine ⟨?_, by rw [hn]; rfl⟩
    symm
    apply List.filter_eq_self.mpr
    intro t ht
    have := List.find?_eq_none.mp hn t ht
    simpa using this

/-- the testament table after a session handler has exited: `k`'s bucket is taken out, nothing
    else changes (every mode) -/
theorem leave_testaments (r : Realm) (k : SessKey) (mode : LeaveMode) (hk : r.isClient k) :
    (r.leave k mode).testaments = r.testaments.filter (fun t => t.1 != k) := by
  obtain ⟨c, hc, hck⟩ := hk
  cases hf : r.clients.find? (fun c => c.key == k) with
  | none =>
    have := List.find?_eq_none.mp hf c hc
    simp [hck] at this
  | some s =>
    rw [leave_some mode hf]
    show (leaveAnnounce _ _ _ _).testaments = _
    have : ∀ (x : Realm) (s : Session) (t : Option TBucket) (b : Bool), (leaveAnnounce x s t b).testaments = x.testaments := by
      intro x s t b; unfold leaveAnnounce; split <;> rfl
    rw [this, leaveRemove_testaments, (takeTestaments_table _ k).1, leaveSend_testaments]

theorem leave_ending (r : Realm) (k : SessKey) (mode : LeaveMode) (hk : r.isClient k) :
    k ∉ (r.leave k mode).ending := by
  obtain ⟨c, hc, hck⟩ := hk
  cases hf : r.clients.find? (fun c => c.key == k) with
  | none =>
    have := List.find?_eq_none.mp hf c hc
    simp [hck] at this
  | some s =>
    rw [leave_some mode hf]
    have hsk := (find?_key hf).2
    intro h
    have := (List.mem_filter.mp h).2
    simp [hsk] at this

/-- who is attached after the departure of `k` -/
theorem leave_isClient {r : Realm} (hi : RealmInv r) (k : SessKey) (mode : LeaveMode) (hk : r.isClient k)
    (hnb : ∀ x ∈ r.retries, x.callee ≠ k) (k' : SessKey) :
    (r.leave k mode).isClient k' ↔ r.isClient k' ∧ k' ≠ k := by
  obtain ⟨_, _, h3, h4⟩ := leave_inv hi k mode hnb
  obtain ⟨_, g4⟩ := h3 hk
  obtain ⟨c, hc, hck⟩ := hk
  cases hf : r.clients.find? (fun c => c.key == k) with
  | none =>
    have := List.find?_eq_none.mp hf c hc
    simp [hck] at this
  | some s =>
    have hsk := (find?_key hf).2
    constructor
    · intro h
      refine ⟨h4 k' h, fun e => g4 ?_⟩
      rw [e] at h
      exact h
    · rintro ⟨⟨c', hc', rfl⟩, hne⟩
      rw [leave_some mode hf]
      refine (isClient_leaveClose _ s c'.key).mpr ⟨?_, hsk ▸ hne⟩
      obtain ⟨q1, _⟩ := good_leaveSend hi ⟨c, hc, hck⟩ mode
      obtain ⟨q2, _⟩ := good_takeTestaments q1.1 k
      obtain ⟨q3, _, _⟩ := good_leaveRemove q2.1 k mode.isShutdown
      have q13 := q1.trans (q2.trans q3)
      have hcl : (leaveRemove ((leaveSend r k mode).takeTestaments k).2 k mode.isShutdown).isClient c'.key :=
        (q13.isClient c'.key).mpr ⟨c', hc', rfl⟩
      unfold leaveAnnounce
      split <;> exact hcl

/-! ### the tasks a departure creates -/

/-- tasks appended by the last stage before `sess.Close()`: the testaments (detached, then
    destroyed) and `on_leave` — nothing for shutdown and kill_all -/
theorem leaveAnnounce_tasks (r : Realm) (s : Session) (tst : Option TBucket) (silent : Bool) :
    (leaveAnnounce r s tst silent).tasks =
      r.tasks ++ (if silent then [] else testamentTasks tst ++ [.metaPub (onLeavePub s)]) := by
  unfold leaveAnnounce
  split <;> simp [addTasks]

theorem leave_tasks {r : Realm} {k : SessKey} {s : Session} (mode : LeaveMode)
    (hf : r.clients.find? (fun c => c.key == k) = some s) :
    (r.leave k mode).tasks =
      (leaveRemove ((leaveSend r k mode).takeTestaments k).2 k mode.isShutdown).tasks ++
        (if mode.isShutdown then []
         else testamentTasks ((r.testaments.find? (fun t => t.1 == k)).map (·.2)) ++ [.metaPub (onLeavePub s)]) := by
  rw [leave_some mode hf]
  show (leaveAnnounce _ _ _ _).tasks = _
  rw [leaveAnnounce_tasks, (takeTestaments_table _ k).2, leaveSend_testaments]

/-- the pending tasks after the table-removal stage of a departure (before the testaments and
    `on_leave` are appended) -/
def leaveBaseTasks (r : Realm) (k : SessKey) (mode : LeaveMode) : List Task :=
  (leaveRemove ((leaveSend r k mode).takeTestaments k).2 k mode.isShutdown).tasks

/-- the testament bucket of session `k` -/
def bucketOf (r : Realm) (k : SessKey) : Option TBucket := (r.testaments.find? (fun t => t.1 == k)).map (·.2)

theorem leave_tasks' {r : Realm} {k : SessKey} {s : Session} (mode : LeaveMode)
    (hf : r.clients.find? (fun c => c.key == k) = some s) :
    (r.leave k mode).tasks =
      leaveBaseTasks r k mode ++
        (if mode.isShutdown then []
         else testamentTasks (bucketOf r k) ++ [.metaPub (onLeavePub s)]) := leave_tasks mode hf

/-- a realm with empty tables satisfies the invariant -/
theorem RealmInv.empty (mp : List (Nat × String)) : RealmInv ({ metaProcs := mp } : Realm) := by
  refine ⟨BrokerInv.empty false false, DealerInv.init false false, ?_, ?_, ?_, ?_, ?_, ?_, rfl⟩
  · rintro k ⟨s, hs, _⟩; cases hs
  · rintro k (⟨id, g, hg, _⟩ | ⟨c, hc, _⟩ | ⟨v, hv, _⟩ | ⟨e, he, _⟩)
    · cases hg
    · cases hc
    · cases hv
    · cases he
  · intro c hc; cases hc
  · intro x hx; cases hx
  · intro t ht; cases ht
  · intro e he; cases he

/-! ### testaments belong to attached sessions -/

macro "tst_tac" : tactic => `(tactic| (
  try dsimp only
  repeat' split
  all_goals (try simp only [trySend_testaments, deliver_testaments, applyD_testaments, setPanic_testaments])))

theorem handlePublish_testaments (r : Realm) (s : Session) (req : Nat) (opts : Dict) (topic : String)
    (args : List WVal) (kw : Dict) : (handlePublish r s req opts topic args kw).testaments = r.testaments := by
  unfold handlePublish
  simp only [freshPub]
  tst_tac

theorem handleSubscribe_testaments (r : Realm) (s : Session) (req : Nat) (opts : Dict) (topic : String) :
    (handleSubscribe r s req opts topic).testaments = r.testaments := by
  unfold handleSubscribe
  tst_tac

theorem handleUnsubscribe_testaments (r : Realm) (s : Session) (req sub : Nat) :
    (handleUnsubscribe r s req sub).testaments = r.testaments := by
  unfold handleUnsubscribe
  tst_tac

theorem handleRegister_testaments (r : Realm) (s : Session) (req : Nat) (opts : Dict) (proc : String) :
    (handleRegister r s req opts proc).testaments = r.testaments := by
  unfold handleRegister
  tst_tac

theorem handleCancel_testaments (r : Realm) (s : Session) (req : Nat) (opts : Dict) :
    (handleCancel r s req opts).testaments = r.testaments := by
  unfold handleCancel
  tst_tac

theorem handleYield_testaments (r : Realm) (s : Session) (req : Nat) (opts : Dict) (args : List WVal) (kw : Dict) :
    (handleYield r s req opts args kw).testaments = r.testaments := by
  unfold handleYield
  tst_tac

theorem authzGate_testaments (r : Realm) (s : Session) (m : Msg) : (authzGate r s m).2.testaments = r.testaments := by
  unfold authzGate
  tst_tac

theorem dispatch_testaments (r : Realm) (s : Session) (m : Msg) : (dispatch r s m).testaments = r.testaments := by
  cases m
  case publish => exact handlePublish_testaments ..
  case yield => exact handleYield_testaments ..
  case call => exact applyD_testaments ..
  case cancel => exact handleCancel_testaments ..
  case subscribe => exact handleSubscribe_testaments ..
  case register => exact handleRegister_testaments ..
  case unsubscribe => exact handleUnsubscribe_testaments ..
  case unregister => exact applyD_testaments ..
  case error typ req details err args kw =>
    show (if typ != tINVOCATION then _ else handleError r s req details err args kw).testaments = _
    split
    · rfl
    · exact applyD_testaments ..
  case goodbye => exact trySend_testaments ..
  all_goals rfl

/-- no message handler touches the testament table (only `add_testament` / `flush_testaments` and the
    departure of the owner do) -/
theorem handleMsg_testaments (r : Realm) (s : Session) (m : Msg) : (handleMsg r s m).testaments = r.testaments := by
  rw [handleMsg_eq]
  split
  · rw [dispatch_testaments, authzGate_testaments]
  · exact authzGate_testaments r s m

theorem recvMsg_testaments (r : Realm) (k : SessKey) (m : Msg) : (r.recvMsg k m).testaments = r.testaments := by
  rw [recvMsg_eq]
  split
  · rfl
  · split
    · rfl
    · split
      · split <;> rfl
      · exact handleMsg_testaments ..

/-- every testament bucket is stored under the key of an attached session -/
def TestamentsAttached (r : Realm) : Prop := ∀ x ∈ r.testaments, r.isClient x.1

theorem TestamentsAttached.of_same {r r' : Realm} (h : TestamentsAttached r) (ht : r'.testaments = r.testaments)
    (hc : r'.clients.map (·.key) = r.clients.map (·.key)) : TestamentsAttached r' := by
  intro x hx
  rw [ht] at hx
  exact (isClient_congr hc x.1).mpr (h x hx)

theorem TestamentsAttached.metaEffect {r r' : Realm} (hi : RealmInv r) (h : TestamentsAttached r) (e : MetaEffect r r') :
    TestamentsAttached r' := by
  obtain ⟨_, _, hc, _⟩ := hi.metaEffect e
  cases e with
  | same => exact h
  | kill sel g ka => exact h.of_same rfl hc
  | modify k d => exact h.of_same rfl hc
  | testaments t ht =>
    intro x hx
    rcases ht x hx with ⟨y, hy, hyx⟩ | hcl
    · exact hyx ▸ h y hy
    · exact hcl

/-- THE TESTAMENT TABLE NAMES ATTACHED SESSIONS ONLY — preserved by every internal task, whichever
    pending task is scheduled next (so for every interleaving of the handler goroutines):
    `add_testament` stores nothing for a caller that has left, the departure of a session takes its
    bucket out, nothing else writes the table. -/
theorem runTask_testaments {r : Realm} (hi : RealmInv r) (h : TestamentsAttached r) (t : Task) (ht : TaskOk t) :
    TestamentsAttached (r.runTask t) := by
  cases t with
  | metaPub p =>
    exact h.of_same (handlePublish_testaments ..)
      (good_handlePublish hi r.metaS (Or.inl hi.metaKey) 0 p.opts p.topic p.args p.kw).2.2
  | metaInvoke req reg details args kw =>
    rw [runTask_metaInvoke]
    split
    · exact h
    · rename_i proc _
      exact (TestamentsAttached.metaEffect hi h (metaProc_effect r proc req details args kw)).of_same rfl rfl
  | metaMsg m =>
    exact h.of_same (handleMsg_testaments ..) (good_handleMsg hi r.metaS m (Or.inr ⟨hi.metaKey, ht⟩)).2.2
  | leave k mode =>
    rw [runTask_leave]
    split
    · exact h
    · rename_i hb
      by_cases hk : r.isClient k
      · intro x hx
        rw [leave_testaments r k mode hk] at hx
        obtain ⟨hx0, hne⟩ := List.mem_filter.mp hx
        exact (leave_isClient hi k mode hk (not_busy hb) x.1).mpr ⟨h x hx0, by simpa using hne⟩
      · have : r.leave k mode = r := by
          apply leave_none
          apply List.find?_eq_none.mpr
          intro c hc hck
          exact hk ⟨c, hc, by simpa using hck⟩
        rw [this]; exact h
  | inMsg k m =>
    exact h.of_same (recvMsg_testaments ..) (good_recvMsg hi k m).2.2

theorem stepOp_testaments {r : Realm} (hi : RealmInv r) (h : TestamentsAttached r) (op : Op) :
    TestamentsAttached (r.stepOp op) := by
  cases op with
  | join k isLocal details roles cap =>
    rw [stepOp_join]
    split
    · exact h
    intro x hx
    obtain ⟨c, hc, hk⟩ := h x hx
    exact ⟨c, List.mem_append_left _ hc, hk⟩
  | msg k m => exact h.of_same (recvMsg_testaments ..) (good_recvMsg hi k m).2.2
  | buffer k =>
    rw [stepOp_buffer]
    exact h.of_same rfl (isClient_map (r := r) (fun c => if c.key == k then { c with buffered := true } else c)
      (fun c => by split <;> rfl))
  | drop k =>
    rw [stepOp_drop]
    split
    · exact h
    split
    · exact h
    · exact h.of_same rfl rfl
  | stall k =>
    rw [stepOp_stall]
    exact h.of_same rfl (isClient_map (r := r) (fun c => if c.key == k then { c with stalled := true } else c)
      (fun c => by split <;> rfl))
  | resume k =>
    rw [stepOp_resume]
    exact h.of_same rfl (isClient_map (r := r) (fun c => if c.key == k then { c with stalled := false } else c)
      (fun c => by split <;> rfl))
  | tick ms => exact h
  | rnd n => exact h.of_same rfl rfl

theorem retryDue_testaments {r : Realm} (h : TestamentsAttached r) (x : Retry) : TestamentsAttached (r.retryDue x) := by
  unfold retryDue
  extract_lets r1 canRetry o r2
  have h2 : TestamentsAttached r2 :=
    TestamentsAttached.of_same (r := r) h (applyD_testaments r1 o) (by rw [(applyD_cri r1 o).1])
  split
  · exact h2.of_same rfl rfl
  · exact h2.of_same rfl rfl

theorem timerDue_testaments {r : Realm} (h : TestamentsAttached r) (t : Timer) : TestamentsAttached (r.timerDue t) := by
  unfold timerDue
  extract_lets ds1 r1
  exact TestamentsAttached.of_same (r := r) h (applyD_testaments r1 _) (by rw [(applyD_cri r1 _).1])

theorem drain_testaments : ∀ (fuel : Nat) {r : Realm}, RealmInv r → TestamentsAttached r →
    TestamentsAttached (drain fuel r)
  | 0, r, _, h => by
    rw [drain_zero]
    split
    · exact h
    · exact h.of_same (setPanic_testaments _ _) (by rw [(setPanic_cri _ _).1])
  | fuel + 1, r, hi, h => by
    cases ht : r.tasks with
    | nil => rw [drain_succ_nil _ _ ht]; exact h
    | cons t ts =>
      rw [drain_succ_cons _ _ t ts ht]
      have hi0 : RealmInv ({ r with tasks := ts } : Realm) :=
        hi.of_parts rfl hi.binv hi.dinv hi.bmem hi.dref hi.callers hi.retr
          (fun t' ht' => hi.tasks t' (by rw [ht]; exact List.mem_cons_of_mem _ ht')) hi.inb rfl
      have hto : TaskOk t := hi.tasks t (by rw [ht]; exact List.mem_cons_self ..)
      have h0 : TestamentsAttached ({ r with tasks := ts } : Realm) := h
      exact drain_testaments fuel (runTask_inv hi0 t hto).1 (runTask_testaments hi0 h0 t hto)

theorem advance_testaments : ∀ (fuel : Nat) {r : Realm} (target : Nat), RealmInv r → FuelOnly r.panic →
    TestamentsAttached r → TestamentsAttached (advance fuel r target)
  | 0, r, target, _, _, h => by
    unfold advance
    exact TestamentsAttached.of_same (r := r) h (setPanic_testaments _ _) (by rw [(setPanic_cri _ _).1])
  | fuel + 1, r, target, hi, hp, h => by
    unfold advance
    split
    · exact h.of_same rfl rfl
    · rename_i d hd
      extract_lets r1 r2
      have hi1 : RealmInv r1 :=
        hi.of_parts rfl hi.binv hi.dinv hi.bmem hi.dref hi.callers hi.retr hi.tasks hi.inb rfl
      have h1 : TestamentsAttached r1 := h
      have h2 : (RealmInv r2 ∧ r2.panic = r.panic) ∧ TestamentsAttached r2 := by
        cases d with
        | timer t => exact ⟨timerDue_rinv hi1 t, timerDue_testaments h1 t⟩
        | retry x => exact ⟨retryDue_rinv hi1 x (hi.retr x (nextDue_retry hd)), retryDue_testaments h1 x⟩
      obtain ⟨h3, h4⟩ := drain_inv taskFuel h2.1.1 (by rw [h2.1.2]; exact hp)
      exact advance_testaments fuel target h3 h4 (drain_testaments taskFuel h2.1.1 h2.2)

theorem flush_testaments {r : Realm} (h : TestamentsAttached r) : TestamentsAttached r.flush.2 := by
  unfold flush
  extract_lets reading out seenClosed keep keepEmpty
  exact h.of_same rfl rfl

/-- one external input, run to quiescence -/
theorem step_testaments {r : Realm} (hi : RealmInv r) (hp : FuelOnly r.panic) (h : TestamentsAttached r) (op : Op) :
    TestamentsAttached (r.step op).2 := by
  by_cases ht : ∃ ms, op = .tick ms
  · obtain ⟨ms, rfl⟩ := ht
    rw [step_tick]
    exact flush_testaments (advance_testaments 10000 (r.now + ms) hi hp h)
  · rw [step_of_not_tick r op (fun ms e => ht ⟨ms, e⟩)]
    exact flush_testaments (drain_testaments taskFuel (stepOp_inv hi op).1 (stepOp_testaments hi h op))

theorem Reachable.testaments {cfg : Config} {r : Realm} (h : Reachable cfg r) : TestamentsAttached r := by
  induction h with
  | init h =>
    intro x hx
    rw [(create_rinv h).2.2.2.2.1] at hx
    cases hx
  | step op hr ih => exact step_testaments hr.inv.1 hr.inv.2 ih op

/-! ### sizes -/

theorem length_eq_of_nodup_of_mem_iff {α : Type} {l₁ l₂ : List α} (d₁ : l₁.Nodup) (d₂ : l₂.Nodup)
    (h : ∀ a, a ∈ l₁ ↔ a ∈ l₂) : l₁.length = l₂.length :=
  ((List.perm_ext_iff_of_nodup d₁ d₂).mpr h).length_eq

/-- `calls`, `invocations` and `invocationByCall` always have the same number of entries -/
theorem CallInv.sizes {d : Dealer} (h : CallInv d) : d.calls.length = d.byCall.length ∧ d.byCall.length = d.invs.length := by
  constructor
  · have : d.byCall.length = (d.byCall.map (·.1)).length := by simp
    rw [this]
    apply length_eq_of_nodup_of_mem_iff h.calls h.byFst
    intro c
    rw [h.callBy c]
    simp only [List.mem_map]
    constructor
    · rintro ⟨i, hi⟩; exact ⟨(c, i), hi, rfl⟩
    · rintro ⟨p, hp, rfl⟩; exact ⟨p.2, hp⟩
  · have e1 : d.byCall.length = (d.byCall.map (·.2)).length := by simp
    have e2 : d.invs.length = (d.invs.map (·.id)).length := by simp
    rw [e1, e2]
    apply length_eq_of_nodup_of_mem_iff h.bySnd h.invIds
    intro i
    simp only [List.mem_map]
    constructor
    · rintro ⟨p, hp, rfl⟩
      obtain ⟨v, hv, hvi, _⟩ := (h.byInv p.1 p.2).mp hp
      exact ⟨v, hv, hvi⟩
    · rintro ⟨v, hv, rfl⟩
      exact ⟨(v.callId, v.id), (h.byInv v.callId v.id).mpr ⟨v, hv, rfl, rfl⟩, rfl⟩

end Realm
end Nexus.L2
