/-
  What `Realm.leave` does, field by field (helper lemmas for C05), and consequences of
  `RealmInv` for the table sizes.
-/
import Nexus.L2.Proofs.RealmInv

namespace Nexus.L2
namespace Realm
open Gen.N

/-! ### fields that sending never touches -/

theorem setPanic_testaments (r : Realm) (p : Option String) : (r.setPanic p).testaments = r.testaments := by
  unfold setPanic; split <;> rfl
theorem setPanic_tasks (r : Realm) (p : Option String) : (r.setPanic p).tasks = r.tasks := by
  unfold setPanic; split <;> rfl
theorem setPanic_ending (r : Realm) (p : Option String) : (r.setPanic p).ending = r.ending := by
  unfold setPanic; split <;> rfl

theorem trySend_testaments (r : Realm) (s : Send) : (r.trySend s).testaments = r.testaments := by
  unfold trySend
  split
  · split <;> rfl
  · split
    · exact setPanic_testaments _ _
    · split
      · rfl
      · split <;> rfl

theorem trySend_ending (r : Realm) (s : Send) : (r.trySend s).ending = r.ending := by
  unfold trySend
  split
  · split <;> rfl
  · split
    · exact setPanic_ending _ _
    · split
      · rfl
      · split <;> rfl

theorem deliver_testaments : ∀ (ss : List Send) (r : Realm), (r.deliver ss).testaments = r.testaments
  | [], _ => rfl
  | s :: ss, r => by rw [deliver, deliver_testaments ss, trySend_testaments]

theorem deliver_ending : ∀ (ss : List Send) (r : Realm), (r.deliver ss).ending = r.ending
  | [], _ => rfl
  | s :: ss, r => by rw [deliver, deliver_ending ss, trySend_ending]

theorem applyD_testaments (r : Realm) (o : DOut) : (r.applyD o).testaments = r.testaments := by
  rw [applyD_eq, setPanic_testaments]
  exact deliver_testaments _ _

theorem leaveSend_testaments (r : Realm) (k : SessKey) (mode : LeaveMode) :
    (leaveSend r k mode).testaments = r.testaments := by
  cases mode <;> first | exact trySend_testaments _ _ | rfl

theorem leaveRemove_testaments (r : Realm) (k : SessKey) (quiet : Bool) :
    (leaveRemove r k quiet).testaments = r.testaments := by
  unfold leaveRemove
  split
  · extract_lets o
    split
    exact setPanic_testaments _ _
  · extract_lets o ra
    split
    rw [deliver_testaments]
    exact applyD_testaments r o

theorem takeTestaments_table (r : Realm) (k : SessKey) :
    (r.takeTestaments k).2.testaments = r.testaments.filter (fun t => t.1 != k) ∧
    (r.takeTestaments k).1 = (r.testaments.find? (fun t => t.1 == k)).map (·.2) := by
  unfold takeTestaments
  split
  · rename_i t ht
    exact ⟨rfl, by rw [ht]; rfl⟩
  · rename_i hn
    refine ⟨?_, by rw [hn]; rfl⟩
    symm
    apply List.filter_eq_self.mpr
    intro t ht
    have := List.find?_eq_none.mp hn t ht
    simpa using this

/-- the testament table after a session handler has exited: `k`'s bucket is taken out, nothing
    else changes (every mode) -/
theorem leave_testaments (r : Realm) (k : SessKey) (mode : LeaveMode) (hk : r.isClient k) :
    (r.leave k mode).testaments = r.testaments.filter (fun t => t.1 != k) := by
  obtain ⟨c, hc, hck⟩ := hk
  cases hf : r.clients.find? (fun c => c.key == k) with
  | none =>
    have := List.find?_eq_none.mp hf c hc
    simp [hck] at this
  | some s =>
    rw [leave_some mode hf]
    show (leaveAnnounce _ _ _ _).testaments = _
    have : ∀ (x : Realm) (s : Session) (t : Option TBucket) (b : Bool), (leaveAnnounce x s t b).testaments = x.testaments := by
      intro x s t b; unfold leaveAnnounce; split <;> rfl
    rw [this, leaveRemove_testaments, (takeTestaments_table _ k).1, leaveSend_testaments]

theorem leave_ending (r : Realm) (k : SessKey) (mode : LeaveMode) (hk : r.isClient k) :
    k ∉ (r.leave k mode).ending := by
  obtain ⟨c, hc, hck⟩ := hk
  cases hf : r.clients.find? (fun c => c.key == k) with
  | none =>
    have := List.find?_eq_none.mp hf c hc
    simp [hck] at this
  | some s =>
    rw [leave_some mode hf]
    have hsk := (find?_key hf).2
    intro h
    have := (List.mem_filter.mp h).2
    simp [hsk] at this

/-- who is attached after the departure of `k` -/
theorem leave_isClient {r : Realm} (hi : RealmInv r) (k : SessKey) (mode : LeaveMode) (hk : r.isClient k)
    (hnb : ∀ x ∈ r.retries, x.callee ≠ k) (k' : SessKey) :
    (r.leave k mode).isClient k' ↔ r.isClient k' ∧ k' ≠ k := by
  obtain ⟨_, _, h3, h4⟩ := leave_inv hi k mode hnb
  obtain ⟨_, g4⟩ := h3 hk
  obtain ⟨c, hc, hck⟩ := hk
  cases hf : r.clients.find? (fun c => c.key == k) with
  | none =>
    have := List.find?_eq_none.mp hf c hc
    simp [hck] at this
  | some s =>
    have hsk := (find?_key hf).2
    constructor
    · intro h
      refine ⟨h4 k' h, fun e => g4 ?_⟩
      rw [e] at h
      exact h
    · rintro ⟨⟨c', hc', rfl⟩, hne⟩
      rw [leave_some mode hf]
      refine (isClient_leaveClose _ s c'.key).mpr ⟨?_, hsk ▸ hne⟩
      obtain ⟨q1, _⟩ := good_leaveSend hi ⟨c, hc, hck⟩ mode
      obtain ⟨q2, _⟩ := good_takeTestaments q1.1 k
      obtain ⟨q3, _, _⟩ := good_leaveRemove q2.1 k mode.isShutdown
      have q13 := q1.trans (q2.trans q3)
      have hcl : (leaveRemove ((leaveSend r k mode).takeTestaments k).2 k mode.isShutdown).isClient c'.key :=
        (q13.isClient c'.key).mpr ⟨c', hc', rfl⟩
      unfold leaveAnnounce
      split <;> exact hcl

/-! ### the tasks a departure creates -/

/-- tasks appended by the last stage before `sess.Close()`: the testaments (detached, then
    destroyed) and `on_leave` — nothing for shutdown and kill_all -/
theorem leaveAnnounce_tasks (r : Realm) (s : Session) (tst : Option TBucket) (silent : Bool) :
    (leaveAnnounce r s tst silent).tasks =
      r.tasks ++ (if silent then [] else testamentTasks tst ++ [.metaPub (onLeavePub s)]) := by
  unfold leaveAnnounce
  split <;> simp [addTasks]

theorem leave_tasks {r : Realm} {k : SessKey} {s : Session} (mode : LeaveMode)
    (hf : r.clients.find? (fun c => c.key == k) = some s) :
    (r.leave k mode).tasks =
      (leaveRemove ((leaveSend r k mode).takeTestaments k).2 k mode.isShutdown).tasks ++
        (if mode.isShutdown then []
         else testamentTasks ((r.testaments.find? (fun t => t.1 == k)).map (·.2)) ++ [.metaPub (onLeavePub s)]) := by
  rw [leave_some mode hf]
  show (leaveAnnounce _ _ _ _).tasks = _
  rw [leaveAnnounce_tasks, (takeTestaments_table _ k).2, leaveSend_testaments]

/-- the pending tasks after the table-removal stage of a departure (before the testaments and
    `on_leave` are appended) -/
def leaveBaseTasks (r : Realm) (k : SessKey) (mode : LeaveMode) : List Task :=
  (leaveRemove ((leaveSend r k mode).takeTestaments k).2 k mode.isShutdown).tasks

/-- the testament bucket of session `k` -/
def bucketOf (r : Realm) (k : SessKey) : Option TBucket := (r.testaments.find? (fun t => t.1 == k)).map (·.2)

theorem leave_tasks' {r : Realm} {k : SessKey} {s : Session} (mode : LeaveMode)
    (hf : r.clients.find? (fun c => c.key == k) = some s) :
    (r.leave k mode).tasks =
      leaveBaseTasks r k mode ++
        (if mode.isShutdown then []
         else testamentTasks (bucketOf r k) ++ [.metaPub (onLeavePub s)]) := leave_tasks mode hf

/-- a realm with empty tables satisfies the invariant -/
theorem RealmInv.empty (mp : List (Nat × String)) : RealmInv ({ metaProcs := mp } : Realm) := by
  refine ⟨BrokerInv.empty false false, DealerInv.init false false, ?_, ?_, ?_, ?_, ?_, rfl⟩
  · rintro k ⟨s, hs, _⟩; cases hs
  · rintro k (⟨id, g, hg, _⟩ | ⟨c, hc, _⟩ | ⟨v, hv, _⟩ | ⟨e, he, _⟩)
    · cases hg
    · cases hc
    · cases hv
    · cases he
  · intro c hc; cases hc
  · intro x hx; cases hx
  · intro t ht; cases ht

/-! ### sizes -/

theorem length_eq_of_nodup_of_mem_iff {α : Type} {l₁ l₂ : List α} (d₁ : l₁.Nodup) (d₂ : l₂.Nodup)
    (h : ∀ a, a ∈ l₁ ↔ a ∈ l₂) : l₁.length = l₂.length :=
  ((List.perm_ext_iff_of_nodup d₁ d₂).mpr h).length_eq

/-- `calls`, `invocations` and `invocationByCall` always have the same number of entries -/
theorem CallInv.sizes {d : Dealer} (h : CallInv d) : d.calls.length = d.byCall.length ∧ d.byCall.length = d.invs.length := by
  constructor
  · have : d.byCall.length = (d.byCall.map (·.1)).length := by simp
    rw [this]
    apply length_eq_of_nodup_of_mem_iff h.calls h.byFst
    intro c
    rw [h.callBy c]
    simp only [List.mem_map]
    constructor
    · rintro ⟨i, hi⟩; exact ⟨(c, i), hi, rfl⟩
    · rintro ⟨p, hp, rfl⟩; exact ⟨p.2, hp⟩
  · have e1 : d.byCall.length = (d.byCall.map (·.2)).length := by simp
    have e2 : d.invs.length = (d.invs.map (·.id)).length := by simp
    rw [e1, e2]
    apply length_eq_of_nodup_of_mem_iff h.bySnd h.invIds
    intro i
    simp only [List.mem_map]
    constructor
    · rintro ⟨p, hp, rfl⟩
      obtain ⟨v, hv, hvi, _⟩ := (h.byInv p.1 p.2).mp hp
      exact ⟨v, hv, hvi⟩
    · rintro ⟨v, hv, rfl⟩
      exact ⟨(v.callId, v.id), (h.byInv v.callId v.id).mpr ⟨v, hv, rfl, rfl⟩, rfl⟩

end Realm
end Nexus.L2
