/-
  L2: the realm as a sequential state machine — data types.

  One structure per Go structure, holding exactly the tables the Go code holds
  (router/broker.go, router/dealer.go, router/realm.go).  Sessions are named by
  a model-internal key (`SessKey`); the WAMP session id of key `k` is `sidOf k`.
  The implementation draws session and publication ids at random: the
  correspondence harness renames them (`$s<k>`, `$p<n>`), see harness/l2.
-/
import Nexus.Base.WVal
import Nexus.L2.Uri

namespace Nexus.L2

abbrev SessKey := Nat

/-- The meta session (router/realm.go `metaID = 1`) has key 0. -/
def metaKey : SessKey := 0

def sidBase : Nat := 1099511627776      -- 2^40
def pubBase : Nat := 2199023255552      -- 2^41

/-- WAMP session id of a model session. The meta session has id 1. -/
def sidOf (k : SessKey) : Nat := if k = metaKey then 1 else sidBase + k

def sidVal (k : SessKey) : WVal := .int (sidOf k)

/-- The messages the router receives from or sends to clients. -/
inductive Msg where
  | hello (realm : String) (details : Dict)
  | welcome (sess : Nat) (details : Dict)
  | abort (details : Dict) (reason : String)
  | goodbye (details : Dict) (reason : String)
  | error (typ : Nat) (req : Nat) (details : Dict) (err : String) (args : List WVal) (kw : Dict)
  | publish (req : Nat) (opts : Dict) (topic : String) (args : List WVal) (kw : Dict)
  | published (req : Nat) (pub : Nat)
  | subscribe (req : Nat) (opts : Dict) (topic : String)
  | subscribed (req : Nat) (sub : Nat)
  | unsubscribe (req : Nat) (sub : Nat)
  | unsubscribed (req : Nat)
  | event (sub : Nat) (pub : Nat) (details : Dict) (args : List WVal) (kw : Dict)
  | call (req : Nat) (opts : Dict) (proc : String) (args : List WVal) (kw : Dict)
  | cancel (req : Nat) (opts : Dict)
  | result (req : Nat) (details : Dict) (args : List WVal) (kw : Dict)
  | register (req : Nat) (opts : Dict) (proc : String)
  | registered (req : Nat) (reg : Nat)
  | unregister (req : Nat) (reg : Nat)
  | unregistered (req : Nat)
  | invocation (req : Nat) (reg : Nat) (details : Dict) (args : List WVal) (kw : Dict)
  | interrupt (req : Nat) (opts : Dict)
  | yield (req : Nat) (opts : Dict) (args : List WVal) (kw : Dict)
  | other (typ : Nat)          -- any message type the router does not expect from a client
  deriving Inhabited

def Msg.typeCode : Msg → Nat
  | .hello .. => 1 | .welcome .. => 2 | .abort .. => 3 | .goodbye .. => 6
  | .error .. => 8 | .publish .. => 16 | .published .. => 17 | .subscribe .. => 32
  | .subscribed .. => 33 | .unsubscribe .. => 34 | .unsubscribed .. => 35 | .event .. => 36
  | .call .. => 48 | .cancel .. => 49 | .result .. => 50 | .register .. => 64
  | .registered .. => 65 | .unregister .. => 66 | .unregistered .. => 67
  | .invocation .. => 68 | .interrupt .. => 69 | .yield .. => 70 | .other t => t

def tPUBLISH : Nat := 16
def tSUBSCRIBE : Nat := 32
def tUNSUBSCRIBE : Nat := 34
def tCALL : Nat := 48
def tCANCEL : Nat := 49
def tREGISTER : Nat := 64
def tUNREGISTER : Nat := 66
def tINVOCATION : Nat := 68
def tYIELD : Nat := 70

/-- A message placed on (or dropped at) a session's outbound queue. -/
structure Send where
  to : SessKey
  msg : Msg
  deriving Inhabited

/-- role → announced features (`wamp.Session.roles`, built by `setRoles`). -/
abbrev Roles := List (String × List String)

structure Session where
  key : SessKey
  details : Dict
  roles : Roles
  isLocal : Bool
  cap : Nat := 64                    -- capacity of the router→client queue
  stalled : Bool := false            -- the client has stopped reading
  buffered : Bool := false           -- attached through a socket transport: what the client sends while the
                                     -- handler is busy waits in the transport (a linked peer's channel is unbuffered)
  deriving Inhabited

def Session.hasRole (s : Session) (role : String) : Bool :=
  s.roles.any (fun r => r.1 == role)

def Session.hasFeature (s : Session) (role feature : String) : Bool :=
  s.roles.any (fun r => r.1 == role && r.2.contains feature)

/-! ### Broker -/

structure Sub where
  id : Nat
  topic : String
  «match» : String                   -- raw match option of the creator
  members : List SessKey
  deriving Inhabited

def Sub.kind (s : Sub) : MatchKind := matchKind s.«match»

structure HistEntry where
  pub : Nat
  sub : Nat
  details : Dict
  args : List WVal
  kw : Dict
  time : Nat                          -- virtual ms since router start
  deriving Inhabited

structure Hist where
  sub : Nat
  limit : Nat
  entries : List HistEntry            -- oldest first
  deriving Inhabited

structure Broker where
  subs : List Sub := []               -- `subscriptions` (+ the three topic tables, by kind)
  nextSub : Nat := 0                  -- `idGen`
  index : List (SessKey × List Nat) := []   -- `sessionSubIDSet`
  hist : List Hist := []              -- `eventHistoryStore`
  strict : Bool := false
  allowDisclose : Bool := false
  deriving Inhabited

/-! ### Dealer -/

structure Reg where
  id : Nat
  proc : String
  «match» : String
  policy : String
  disclose : Bool
  fwdTimeout : Bool
  next : Nat := 0                     -- round-robin cursor
  callees : List SessKey
  deriving Inhabited

def Reg.kind (r : Reg) : MatchKind := matchKind r.«match»

/-- `requestID{session, request}` -/
structure ReqId where
  sess : SessKey
  req : Nat
  deriving DecidableEq, Inhabited, Repr

structure Invk where
  id : ReqId                          -- key in `invocations`: (callee, invocation request id)
  callId : ReqId
  callee : SessKey
  canceled : Bool := false
  inProgress : Bool := false
  timer : Option Nat := none          -- armed router-side timeout: deadline (ms)
  options : Dict := []
  regId : Nat := 0                    -- `reg`: the registration the first chunk was routed to
  fwdTimeout : Bool := false          -- … and its forward_timeout setting
  deriving Inhabited

structure Dealer where
  regs : List Reg := []
  nextReg : Nat := 0
  index : List (SessKey × List Nat) := []    -- `calleeRegIDSet`
  calls : List ReqId := []                   -- keys of `calls` (the value is the caller itself)
  invs : List Invk := []                     -- `invocations`
  byCall : List (ReqId × ReqId) := []        -- `invocationByCall`
  strict : Bool := false
  allowDisclose : Bool := false
  deriving Inhabited

/-! ### Realm -/

structure Testament where
  topic : String
  args : List WVal
  kw : Dict
  opts : Dict
  deriving Inhabited

structure TBucket where
  detached : List Testament := []
  destroyed : List Testament := []
  deriving Inhabited

/-- An authorizer rule of the harness' table-driven Authorizer (first match wins). -/
structure AuthzRule where
  typ : Nat                -- message type code, 0 = any
  uri : String             -- "" = any; compared with topic/procedure
  sess : Option SessKey    -- none = any
  decision : String        -- "allow" | "deny" | "fail"
  deriving Inhabited

structure Config where
  uri : String := "r"
  strict : Bool := false
  allowDisclose : Bool := false
  metaKill : Bool := false
  metaModify : Bool := false
  metaStrict : Bool := false
  metaInc : List String := []
  localAuthz : Bool := false
  authz : Option (List AuthzRule) := none
  history : List (String × String × Nat) := []     -- (topic, match, limit)
  deriving Inhabited

end Nexus.L2
