/-
  URI validation and matching as used by the L2 router model.

  `validUri` is the component rule of property C19 written directly.  The C19
  work package proves that the regular expressions regenerated from
  wamp/identifier.go accept exactly this rule (`Nexus.Props.C19`), and the
  `uriid` correspondence family runs the real `ValidURI`, `PrefixMatch` and
  `WildcardMatch` against it on arbitrary byte strings.
-/
import Nexus.Gen.Names

namespace Nexus.L2

/-- `strings.Split(s, ".")` on bytes: never empty; "" gives [[]]. -/
def splitDots : List UInt8 → List (List UInt8)
  | [] => [[]]
  | c :: cs =>
    if c = 46 then [] :: splitDots cs
    else match splitDots cs with
      | [] => [[c]]           -- unreachable: splitDots is never empty
      | p :: ps => (c :: p) :: ps

def looseByte (c : UInt8) : Bool :=
  !(c = 9 || c = 10 || c = 12 || c = 13 || c = 32 || c = 46 || c = 35)

def strictByte (c : UInt8) : Bool :=
  (48 ≤ c && c ≤ 57) || (97 ≤ c && c ≤ 122) || c = 95

inductive MatchKind where
  | exact | pfx | wild
  deriving DecidableEq, Repr, Inhabited

/-- Which table a raw `match` option selects: anything but "prefix"/"wildcard" is exact. -/
def matchKind (m : String) : MatchKind :=
  if m = Gen.N.MatchPrefix then .pfx
  else if m = Gen.N.MatchWildcard then .wild
  else .exact

def compOk (strict : Bool) (p : List UInt8) : Bool :=
  p.all (if strict then strictByte else looseByte)

/-- all components non-empty -/
def allNonEmpty : List (List UInt8) → Bool
  | [] => true
  | p :: ps => !p.isEmpty && allNonEmpty ps

/-- all but the last component non-empty -/
def initNonEmpty : List (List UInt8) → Bool
  | [] => true
  | [_] => true
  | p :: ps => !p.isEmpty && initNonEmpty ps

def validUriBytes (strict : Bool) (k : MatchKind) (u : List UInt8) : Bool :=
  let parts := splitDots u
  parts.all (compOk strict) &&
  match k with
  | .exact => allNonEmpty parts
  | .pfx => initNonEmpty parts
  | .wild => true

def validUri (strict : Bool) (m : String) (u : String) : Bool :=
  validUriBytes strict (matchKind m) u.toUTF8.toList

def isPrefixOf : List UInt8 → List UInt8 → Bool
  | [], _ => true
  | _ :: _, [] => false
  | a :: as, b :: bs => a = b && isPrefixOf as bs

/-- `topic.PrefixMatch(pattern)` -/
def prefixMatch (topic pattern : String) : Bool :=
  isPrefixOf pattern.toUTF8.toList topic.toUTF8.toList

def wildParts : List (List UInt8) → List (List UInt8) → Bool
  | [], [] => true
  | w :: ws, p :: ps => (w.isEmpty || w = p) && wildParts ws ps
  | _, _ => false

/-- `topic.WildcardMatch(pattern)` -/
def wildcardMatch (topic pattern : String) : Bool :=
  wildParts (splitDots pattern.toUTF8.toList) (splitDots topic.toUTF8.toList)

end Nexus.L2
