/-
  L2 model of router/dealer.go — the `sync*` functions that run inside the
  dealer goroutine, mirrored decision by decision (as of the tree after the
  `fix:` commits listed in /verif/known_findings.json).

  `env.sess` looks up attached sessions (for feature tests and details);
  `env.full k` says whether session k's outbound queue is full when the action
  starts.  Only the first send of an action to a session is decision-relevant
  in the Go code (INVOCATION in syncCall, INTERRUPT in syncCancel, RESULT in
  syncYield), so the queue state at the start of the action decides exactly as
  the non-blocking `select` does.
-/
import Nexus.L2.Types
import Nexus.L2.Broker

namespace Nexus.L2
open Gen.N

/-- A meta event the dealer asks the meta session to publish. -/
structure MetaPub where
  topic : String
  args : List WVal
  kw : Dict := []
  opts : Dict := []
  deriving Inhabited

structure DEnv where
  sess : SessKey → Option Session
  full : SessKey → Bool
  now : Nat

/-- An armed call-timeout goroutine (`context.WithTimeout` + goroutine in `syncCall`). -/
structure Timer where
  id : Nat
  deadline : Nat
  caller : SessKey
  req : Nat
  canceled : Bool := false
  deriving Inhabited

structure DState where
  d : Dealer
  timers : List Timer := []
  nextTimer : Nat := 0
  /-- `Session.IDGen` of callees that were sent invocations: key ↦ last id drawn -/
  invGen : List (SessKey × Nat) := []
  deriving Inhabited

structure DOut where
  st : DState
  sends : List Send := []
  metaPubs : List MetaPub := []
  aborts : List SessKey := []          -- `abortSession(sess)`
  again : Bool := false                -- syncYield: blocked, retry later
  panic : Option String := none
  deriving Inhabited

def hasFeat (env : DEnv) (k : SessKey) (role feat : String) : Bool :=
  match env.sess k with
  | some s => s.hasFeature role feat
  | none => false

def detailsOf (env : DEnv) (k : SessKey) : Dict :=
  match env.sess k with
  | some s => s.details
  | none => []

/-! ### tables -/

def Dealer.findProc (d : Dealer) (proc : String) (k : MatchKind) : Option Reg :=
  d.regs.find? (fun r => r.kind == k && r.proc == proc)

def Dealer.findReg (d : Dealer) (id : Nat) : Option Reg :=
  d.regs.find? (fun r => r.id == id)

def Dealer.setReg (d : Dealer) (r : Reg) : Dealer :=
  { d with regs := d.regs.map (fun x => if x.id == r.id then r else x) }

def Dealer.delReg (d : Dealer) (id : Nat) : Dealer :=
  { d with regs := d.regs.filter (fun x => x.id != id) }

def Dealer.findInv (d : Dealer) (id : ReqId) : Option Invk :=
  d.invs.find? (fun i => i.id == id)

def Dealer.setInv (d : Dealer) (i : Invk) : Dealer :=
  { d with invs := d.invs.map (fun x => if x.id == i.id then i else x) }

def Dealer.delInv (d : Dealer) (id : ReqId) : Dealer :=
  { d with invs := d.invs.filter (fun x => x.id != id) }

def Dealer.byCall? (d : Dealer) (c : ReqId) : Option ReqId :=
  (d.byCall.find? (fun p => p.1 == c)).map (·.2)

def Dealer.delByCall (d : Dealer) (c : ReqId) : Dealer :=
  { d with byCall := d.byCall.filter (fun p => p.1 != c) }

def Dealer.delCall (d : Dealer) (c : ReqId) : Dealer :=
  { d with calls := d.calls.filter (· != c) }

/-- delete the three entries of a call -/
def Dealer.forget (d : Dealer) (c i : ReqId) : Dealer :=
  ((d.delCall c).delByCall c).delInv i

def DState.cancelTimer (s : DState) (t : Option Nat) : DState :=
  match t with
  | some id => { s with timers := s.timers.map (fun x => if x.id == id then { x with canceled := true } else x) }
  | none => s

/-- remove the first occurrence -/
def eraseFirst (k : SessKey) : List SessKey → List SessKey
  | [] => []
  | x :: xs => if x == k then xs else x :: eraseFirst k xs

/-! ### REGISTER / UNREGISTER -/

def regDetailsDict (id : Nat) (proc «match» invoke : String) : WVal :=
  .dict [("id", .int id), ("created", .str "T"), ("uri", .str proc),
         (OptMatch, .str «match»), (OptInvoke, .str invoke)]

/-- `syncRegister` -/
def syncRegister (s : DState) (callee : SessKey) (req : Nat) (proc «match» invoke : String)
    (disclose fwd wampURI : Bool) : DOut :=
  let d := s.d
  match d.findProc proc (matchKind «match») with
  | none =>
    let id := d.nextReg + 1
    let reg : Reg := { id := id, proc := proc, «match» := «match», policy := invoke,
                       disclose := disclose, fwdTimeout := fwd, callees := [callee] }
    let d := { d with regs := d.regs ++ [reg], nextReg := id, index := idxAdd d.index callee id }
    { st := { s with d := d }
      sends := [⟨callee, .registered req id⟩]
      metaPubs := if wampURI then [] else
        [ { topic := MetaEventRegOnCreate, args := [sidVal callee, regDetailsDict id proc «match» invoke] },
          { topic := MetaEventRegOnRegister, args := [sidVal callee, .int id] } ] }
  | some reg =>
    if reg.policy == "" || reg.policy == InvokeSingle then
      { st := s, sends := [⟨callee, errMsg tREGISTER req ErrProcedureAlreadyExists⟩] }
    else if reg.policy != invoke then
      { st := s, sends := [⟨callee, errMsg tREGISTER req ErrProcedureAlreadyExists⟩] }
    else if reg.callees.contains callee then
      { st := s, sends := [⟨callee, errMsg tREGISTER req ErrProcedureAlreadyExists⟩] }
    else
      let d := d.setReg { reg with callees := reg.callees ++ [callee] }
      let d := { d with index := idxAdd d.index callee reg.id }
      { st := { s with d := d }
        sends := [⟨callee, .registered req reg.id⟩]
        metaPubs := if wampURI then [] else
          [ { topic := MetaEventRegOnRegister, args := [sidVal callee, .int reg.id] } ] }

/-- `syncDelCalleeReg`: none = error, some (d, deleted) -/
def Dealer.delCalleeReg (d : Dealer) (callee : SessKey) (regId : Nat) : Option (Dealer × Bool) :=
  match d.findReg regId with
  | none => none
  | some reg =>
    if !reg.callees.contains callee then none
    else
      let cs := eraseFirst callee reg.callees
      if cs.isEmpty then some (d.delReg regId, true)
      else some (d.setReg { reg with callees := cs }, false)

/-- `syncUnregister` -/
def syncUnregister (s : DState) (callee : SessKey) (req regId : Nat) : DOut :=
  let d := { s.d with index := idxDel s.d.index callee regId }
  match d.delCalleeReg callee regId with
  | none => { st := { s with d := d }, sends := [⟨callee, errMsg tUNREGISTER req ErrNoSuchRegistration⟩] }
  | some (d, deleted) =>
    { st := { s with d := d }
      sends := [⟨callee, .unregistered req⟩]
      metaPubs :=
        [ { topic := MetaEventRegOnUnregister, args := [sidVal callee, .int regId] } ] ++
        (if deleted then [ { topic := MetaEventRegOnDelete, args := [sidVal callee, .int regId] } ] else []) }

/-! ### matching -/

/-- the first element with the greatest `len` (strictly-greater replaces, as in the Go loops) -/
def bestBy (len : Reg → Nat) : List Reg → Option Reg
  | [] => none
  | r :: rs =>
    match bestBy len rs with
    | none => some r
    | some b => if len b > len r then some b else some r

/-- `syncMatchProcedure` -/
def Dealer.matchProcedure (d : Dealer) (proc : String) : Option Reg :=
  match d.findProc proc .exact with
  | some r => some r
  | none =>
    match bestBy (fun r => r.proc.utf8ByteSize) (d.regs.filter (fun r => r.kind == .pfx && prefixMatch proc r.proc)) with
    | some r => some r
    | none => bestBy (fun r => r.proc.utf8ByteSize) (d.regs.filter (fun r => r.kind == .wild && wildcardMatch proc r.proc))

/-! ### CALL -/

/-- `discloseCaller` -/
def discloseCaller (env : DEnv) (caller : SessKey) (details : Dict) : Dict :=
  discloseInto RoleCaller (sidOf caller) (detailsOf env caller) details

def pptInto (opts : Dict) (details : Dict) : Dict :=
  [OptPPTScheme, OptPPTSerializer, OptPPTCipher, OptPPTKeyId].foldl
    (fun d k => match opts.get? k with
      | some (.str v) => d.set k (.str v)
      | _ => d) details

def pptScheme (opts : Dict) : String := opts.optString OptPPTScheme

def abortMsg (text : String) : Msg :=
  .abort [(OptMessage, .str text)] ErrProtocolViolation

/-- choice of callee among several; `rnd` resolves the random policy -/
def pickCallee (reg : Reg) (rnd : Nat) : Option (SessKey × Reg) :=
  match reg.callees with
  | [] => none
  | [c] => some (c, reg)
  | c :: _ =>
    if reg.policy == InvokeFirst then some (c, reg)
    else if reg.policy == InvokeRoundRobin then
      let n := if reg.next ≥ reg.callees.length then 0 else reg.next
      (reg.callees[n]?).map (fun x => (x, { reg with next := n + 1 }))
    else if reg.policy == InvokeRandom then
      (reg.callees[rnd % reg.callees.length]?).map (fun x => (x, reg))
    else if reg.policy == InvokeLast then
      reg.callees.getLast?.map (fun x => (x, reg))
    else none      -- the Go code panics here ("multiple callees ... single policy")

def maxTimeoutMs : Nat := 9223372036854

/-- `syncError` -/
def syncError (s : DState) (callee : SessKey) (req : Nat) (details : Dict) (err : String)
    (args : List WVal) (kw : Dict) : DOut :=
  let iid : ReqId := ⟨callee, req⟩
  match s.d.findInv iid with
  | none => { st := s }
  | some invk =>
    let s := s.cancelTimer invk.timer
    let d := (s.d.delInv iid).delByCall invk.callId
    if d.calls.contains invk.callId then
      { st := { s with d := d.delCall invk.callId }
        sends := [⟨invk.callId.sess, .error tCALL invk.callId.req details err args kw⟩] }
    else { st := { s with d := d } }

def invGenNext (g : List (SessKey × Nat)) (k : SessKey) : Nat × List (SessKey × Nat) :=
  match g.find? (fun p => p.1 == k) with
  | some p => (p.2 + 1, g.map (fun q => if q.1 == k then (k, p.2 + 1) else q))
  | none => (1, g ++ [(k, 1)])

/-! ### CANCEL -/

/-- `syncCancel` -/
def syncCancel (env : DEnv) (s : DState) (caller : SessKey) (req : Nat) (mode reason : String)
    (errArgs : List WVal) : DOut :=
  let callId : ReqId := ⟨caller, req⟩
  if !s.d.calls.contains callId then { st := s } else
  match s.d.byCall? callId with
  | none => { st := s }
  | some iid =>
  match s.d.findInv iid with
  | none => { st := s }
  | some invk =>
  if invk.canceled then { st := s } else
  let s := { s with d := s.d.setInv { invk with canceled := true } }
  let s := s.cancelTimer invk.timer
  let canInterrupt := mode != CancelModeSkip && hasFeat env invk.callee RoleCallee FeatureCallCanceling
  let sent := canInterrupt && !env.full invk.callee
  let intr : List Send :=
    if sent then [⟨invk.callee, .interrupt iid.req [(OptReason, .str reason), (OptMode, .str mode)]⟩] else []
  if sent && mode == CancelModeKill then
    { st := s, sends := intr }
  else
    { st := { s with d := s.d.forget callId iid }
      sends := intr ++ [⟨caller, .error tCALL req [] reason errArgs []⟩] }

/-- `syncCall` -/
def syncCall (env : DEnv) (s : DState) (caller : SessKey) (req : Nat) (opts : Dict) (proc : String)
    (args : List WVal) (kw : Dict) (rnd : Nat) : DOut :=
  let callId : ReqId := ⟨caller, req⟩
  let inProgress := opts.optFlag OptProgress
  let details0 : Dict := [(OptProgress, .bool inProgress)]
  let progressAbort : DOut :=
    { st := s
      sends := [⟨caller, abortMsg "<text>"⟩]
      aborts := [caller] }
  match s.d.byCall? callId with
  | some iid =>
    -- a later chunk of a pending progressive call: same callee, same invocation id, the
    -- registration of the first chunk (the chunk's own URI is not matched again)
    match s.d.findInv iid with
    | none => { st := s, panic := some "syncCall: invocationByCall entry without invocation (nil dereference)" }
    | some invk0 =>
    if inProgress && !hasFeat env caller RoleCaller FeatureProgCallInvocations then progressAbort else
    let invk := { invk0 with inProgress := inProgress }
    let s := { s with d := s.d.setInv invk }
    let callee := invk.callee
    let callerTimeout : Int := match invk.options.get? OptTimeout with | some (.int i) => i | _ => 0
    let forwards := hasFeat env callee RoleCallee FeatureCallTimeout && invk.fwdTimeout
    let timeout : Nat := if callerTimeout > 0 && !forwards then callerTimeout.toNat else 0
    if env.full callee then
      syncError s callee iid.req [] ErrNetworkFailure [.str "<text>"] []
    else
    let s :=
      if timeout > 0 then
        -- the call's timeout restarts: the timer armed by an earlier chunk is cancelled first
        let s := s.cancelTimer invk.timer
        let tid := s.nextTimer + 1
        let t : Timer := { id := tid, deadline := env.now + min timeout maxTimeoutMs, caller := caller, req := req }
        { s with timers := s.timers ++ [t], nextTimer := tid,
                 d := s.d.setInv { invk with timer := some tid } }
      else s
    { st := s, sends := [⟨callee, .invocation iid.req invk.regId details0 args kw⟩] }
  | none =>
  match s.d.matchProcedure proc with
  | none => { st := s, sends := [⟨caller, errMsg tCALL req ErrNoSuchProcedure⟩] }
  | some reg =>
  if reg.callees.isEmpty then { st := s, sends := [⟨caller, errMsg tCALL req ErrNoSuchProcedure⟩] } else
  if inProgress && !hasFeat env caller RoleCaller FeatureProgCallInvocations then progressAbort else
    match pickCallee reg rnd with
    | none => { st := s, panic := some "syncCall: multiple callees registered with single policy" }
    | some (callee, reg') =>
    let s := { s with d := s.d.setReg reg' }
    if inProgress && (!hasFeat env callee RoleCallee FeatureProgCallInvocations ||
                      !hasFeat env callee RoleCallee FeatureCallCanceling) then
      { st := s, sends := [⟨caller, errMsg tCALL req ErrFeatureNotSupported⟩] }
    else
    let usesPPT := pptScheme opts != ""
    if usesPPT && !hasFeat env caller RoleCaller FeaturePayloadPassthruMode then
      { st := s
        sends := [⟨caller, abortMsg "<text>"⟩]
        aborts := [caller] }
    else if usesPPT && !hasFeat env callee RoleCallee FeaturePayloadPassthruMode then
      { st := s, sends := [⟨caller, errMsg tCALL req ErrFeatureNotSupported⟩] }
    else
    let details := if usesPPT then pptInto opts details0 else details0
    let discloseMe := opts.optFlag OptDiscloseMe
    if !reg.disclose && discloseMe && !s.d.allowDisclose then
      { st := s, sends := [⟨caller, errMsg tCALL req ErrOptionDisallowedDiscloseMe⟩] }
    else
    let details :=
      if reg.disclose then discloseCaller env caller details
      else if discloseMe && hasFeat env callee RoleCallee FeatureCallerIdent then
        discloseCaller env caller details
      else details
    let details :=
      if opts.optFlag OptReceiveProgress && hasFeat env callee RoleCallee FeatureProgCallResults &&
         hasFeat env callee RoleCallee FeatureCallCanceling
      then details.set OptReceiveProgress (.bool true) else details
    let details := if reg.«match» != MatchExact then details.set OptProcedure (.str proc) else details
    let (invId, gen) := invGenNext s.invGen callee
    let iid : ReqId := ⟨callee, invId⟩
    let invk : Invk := { id := iid, callId := callId, callee := callee, inProgress := inProgress, options := opts,
                         regId := reg.id, fwdTimeout := reg.fwdTimeout }
    let d := s.d
    let d := { d with calls := d.calls ++ [callId], invs := d.invs ++ [invk], byCall := d.byCall ++ [(callId, iid)] }
    let s := { s with d := d, invGen := gen }
    -- timeout
    let callerTimeout : Int := match opts.get? OptTimeout with | some (.int i) => i | _ => 0
    let forwards := hasFeat env callee RoleCallee FeatureCallTimeout && reg.fwdTimeout
    let details := if callerTimeout > 0 && forwards then details.set OptTimeout (.int callerTimeout) else details
    let timeout : Nat := if callerTimeout > 0 && !forwards then callerTimeout.toNat else 0
    if env.full callee then
      let o := syncError s callee invId [] ErrNetworkFailure [.str "<text>"] []
      o
    else
    let s :=
      if timeout > 0 then
        let tid := s.nextTimer + 1
        let t : Timer := { id := tid, deadline := env.now + min timeout maxTimeoutMs, caller := caller, req := req }
        { s with timers := s.timers ++ [t], nextTimer := tid,
                 d := s.d.setInv { invk with timer := some tid } }
      else s
    { st := s, sends := [⟨callee, .invocation invId reg.id details args kw⟩] }

/-! ### YIELD -/

/-- `syncYield` -/
def syncYield (env : DEnv) (s : DState) (callee : SessKey) (req : Nat) (opts : Dict)
    (args : List WVal) (kw : Dict) (progress canRetry : Bool) : DOut :=
  let iid : ReqId := ⟨callee, req⟩
  match s.d.findInv iid with
  | none =>
    if progress && !env.full callee then
      { st := s, sends := [⟨callee, .interrupt req [(OptMode, .str CancelModeKillNoWait)]⟩] }
    else { st := s }
  | some invk =>
  if invk.callee != callee then { st := s } else
  let callId := invk.callId
  let hasCaller := s.d.calls.contains callId
  let caller := callId.sess
  -- non-progress: stop the timer now; forget the call on exit unless a retry is pending
  let s := if progress then s else s.cancelTimer invk.timer
  let finish (s : DState) : DState := if progress then s else { s with d := s.d.forget callId iid }
  if !hasCaller then { st := finish s } else
  let usesPPT := pptScheme opts != ""
  if usesPPT && !hasFeat env callee RoleCallee FeaturePayloadPassthruMode then
    let s := s.cancelTimer invk.timer
    { st := { s with d := s.d.forget callId iid }
      sends := [⟨caller, .error tCALL callId.req [("error", .str "<text>")] ErrFeatureNotSupported [] []⟩,
                ⟨callee, abortMsg "<text>"⟩]
      aborts := [callee] }
  else if usesPPT && !hasFeat env caller RoleCaller FeaturePayloadPassthruMode then
    { st := finish s
      sends := [⟨callee, .error tYIELD req [("error", .str "<text>")] ErrFeatureNotSupported [] []⟩] ++
               (if progress then [] else
                 [⟨caller, .error tCALL callId.req [("error", .str "<text>")] ErrFeatureNotSupported [] []⟩]) }
  else
  let details : Dict := if progress then [(OptProgress, .bool true)] else []
  let details := if usesPPT then pptInto opts details else details
  let res : Msg := .result callId.req details args kw
  if !env.full caller then
    { st := finish s, sends := [⟨caller, res⟩] }
  else if canRetry then
    { st := s, again := true }
  else
    -- dropped; cancel the call
    let o := syncCancel env s caller callId.req CancelModeKillNoWait ErrCanceled []
    { o with st := if progress then o.st else { o.st with d := o.st.d.forget callId iid } }

/-! ### session removal -/

/-- the `calleeRegIDSet` loop of `syncRemoveSession` -/
def removeRegs (d : Dealer) (k : SessKey) : List Nat → Dealer × List MetaPub × Option String
  | [] => (d, [], none)
  | id :: ids =>
    match d.delCalleeReg k id with
    | none => (d, [], some "syncRemoveSession: callee had ID of nonexistent registration")
    | some (d1, deleted) =>
      let (d2, ps, p) := removeRegs d1 k ids
      (d2,
       [ { topic := MetaEventRegOnUnregister, args := [sidVal k, .int id] } ] ++
       (if deleted then [ { topic := MetaEventRegOnDelete, args := [sidVal k, .int id] } ] else []) ++ ps,
       p)

/-- cancel the pending invocations served by a departing callee -/
def cancelServed (env : DEnv) (s : DState) (k : SessKey) : List Invk → DState × List Send
  | [] => (s, [])
  | invk :: rest =>
    if invk.callee != k || !s.d.calls.contains invk.callId then cancelServed env s k rest
    else
      let s := s.cancelTimer invk.timer
      -- `invk.canceled = false` then syncCancel(skip)
      let s := match s.d.findInv invk.id with
        | some cur => { s with d := s.d.setInv { cur with canceled := false } }
        | none => s
      let o := syncCancel env s invk.callId.sess invk.callId.req CancelModeSkip ErrCanceled [.str "<text>"]
      let (s2, sends) := cancelServed env o.st k rest
      (s2, o.sends ++ sends)

/-- remove the calls owned by a departing caller -/
def dropCalls (s : DState) (k : SessKey) : List ReqId → DState
  | [] => s
  | c :: rest =>
    if c.sess != k then dropCalls s k rest
    else
      let d := s.d.delCall c
      let s :=
        match d.byCall? c with
        | some iid =>
          let s := match d.findInv iid with
            | some invk => s.cancelTimer invk.timer
            | none => s
          { s with d := (d.delByCall c).delInv iid }
        | none => { s with d := d }
      dropCalls s k rest

/-- `syncRemoveSession` -/
def syncRemoveSession (env : DEnv) (s : DState) (k : SessKey) : DOut :=
  let ids := (idxGet s.d.index k).getD []
  let (d, pubs, p) := removeRegs s.d k ids
  let d := { d with index := idxDrop d.index k }
  let s := { s with d := d }
  let (s, sends) := cancelServed env s k s.d.invs
  let s := dropCalls s k s.d.calls
  { st := s, sends := sends, metaPubs := pubs, panic := p }

end Nexus.L2
