/-
  L2: the realm (router/realm.go + the handler-goroutine halves of broker.go and
  dealer.go) as a sequential state machine.

  `step r op` processes one external input and then runs every internal task it
  caused (meta-event publications through the meta session, meta-procedure
  invocations, session departures) to quiescence — which is what the
  correspondence harness observes with `synctest.Wait()`.  Every internal task is
  one atomic action of the goroutine that owns the data (§2.1 of DESIGN.md), so
  the invariants proved for `stepOp` and `runTask` separately hold for every
  interleaving of tasks with client inputs.
-/
import Nexus.L2.Types
import Nexus.L2.Broker
import Nexus.L2.Dealer

namespace Nexus.L2
open Gen.N

/-- why a session's handler goroutine exits -/
inductive LeaveMode where
  | lost                         -- receive channel closed / GOODBYE from the client
  | killed (goodbye : Msg) (killAll : Bool)
  | aborted                      -- abortSession: ABORT already sent
  | violation (text : String)    -- handler returns an error: ABORT, then leave
  | shutdown
  deriving Inhabited

inductive Task where
  | metaPub (p : MetaPub)                       -- meta session publishes
  | metaInvoke (req reg : Nat) (details : Dict) (args : List WVal) (kw : Dict)
  | metaMsg (m : Msg)                           -- meta-procedure handler answers through the meta session
  | leave (k : SessKey) (mode : LeaveMode)
  | inMsg (k : SessKey) (m : Msg)               -- the handler reads a message that waited in the transport
  deriving Inhabited

/-- A session handler sleeping in the retry loop of `dealer.yield`: the caller's queue was
    full, the YIELD is re-posted after `delay`, doubling, until delivered or 60 s have passed. -/
structure Retry where
  callee : SessKey
  req : Nat
  opts : Dict
  args : List WVal
  kw : Dict
  progress : Bool
  start : Nat
  next : Nat
  delay : Nat
  deriving Inhabited

structure Realm where
  cfg : Config := {}
  broker : Broker := {}
  ds : DState := { d := {} }
  clients : List Session := []                 -- `clients`: attached non-meta sessions
  ending : List SessKey := []                  -- handler is exiting (EndRecv'd), still in `clients`
  testaments : List (SessKey × TBucket) := []
  metaProcs : List (Nat × String) := []        -- `metaProcMap`
  metaS : Session := { key := metaKey, details := [("authrole", .str "trusted")],
                       roles := [(RolePublisher, [FeaturePayloadPassthruMode])], isLocal := true }
  queues : List (SessKey × List Msg) := []     -- router→client queues of attached sessions
  closedPeers : List SessKey := []             -- peers closed during this step
  tasks : List Task := []
  retries : List Retry := []                   -- handlers busy in the yield retry loop
  deferred : List (SessKey × LeaveMode) := []  -- departures noticed only when the handler is free again
  inbox : List (SessKey × Msg) := []           -- sent by buffered sessions while their handler was busy
  ghosts : List SessKey := []                  -- departed while not reading: closure unobserved until `resume`
  now : Nat := 0
  pubCount : Nat := 0
  rnd : Nat := 0                               -- oracle for the `random` invocation policy
  panic : Option String := none
  deriving Inhabited

namespace Realm

def session? (r : Realm) (k : SessKey) : Option Session :=
  if k = metaKey then some r.metaS else r.clients.find? (fun s => s.key == k)

def queueLen (r : Realm) (k : SessKey) : Nat :=
  match r.queues.find? (fun q => q.1 == k) with
  | some q => q.2.length
  | none => 0

def isFull (r : Realm) (k : SessKey) : Bool :=
  if k = metaKey then false else
  match r.session? k with
  | some s => r.queueLen k ≥ s.cap
  | none => true

def denv (r : Realm) : DEnv := { sess := r.session?, full := r.isFull, now := r.now }

def setPanic (r : Realm) (p : Option String) : Realm :=
  match r.panic, p with
  | none, some x => { r with panic := some x }
  | _, _ => r

def freshPub (r : Realm) : Nat × Realm := (pubBase + r.pubCount, { r with pubCount := r.pubCount + 1 })

/-- `trySend`: enqueue unless the queue is full.  A message for the meta session is an
    invocation for the meta-procedure handler (or the answer to a meta registration). -/
def trySend (r : Realm) (s : Send) : Realm :=
  if s.to = metaKey then
    match s.msg with
    | .invocation req reg details args kw => { r with tasks := r.tasks ++ [.metaInvoke req reg details args kw] }
    | _ => r
  else
    match r.clients.find? (fun c => c.key == s.to) with
    | none => r.setPanic (some s!"send to session {s.to} whose peer is closed")
    | some c =>
      if r.queueLen s.to ≥ c.cap then r       -- dropped
      else if r.queues.any (fun q => q.1 == s.to) then
        { r with queues := r.queues.map (fun q => if q.1 == s.to then (q.1, q.2 ++ [s.msg]) else q) }
      else { r with queues := r.queues ++ [(s.to, [s.msg])] }

def deliver (r : Realm) : List Send → Realm
  | [] => r
  | s :: ss => deliver (r.trySend s) ss

def addTasks (r : Realm) (ts : List Task) : Realm := { r with tasks := r.tasks ++ ts }

/-- apply the result of a dealer action -/
def applyD (r : Realm) (o : DOut) : Realm :=
  let r := { r with ds := o.st }
  let r := r.deliver o.sends
  let r := r.addTasks (o.metaPubs.map Task.metaPub)
  let r := r.addTasks (o.aborts.map (fun k => Task.leave k .aborted))
  let r := { r with ending := r.ending ++ o.aborts }
  r.setPanic o.panic

/-! ### the broker, seen from a session handler -/

def invalidUriErr (typ req : Nat) : Msg := .error typ req [] ErrInvalidURI [.str "<text>"] []

/-- `broker.publish` -/
def handlePublish (r : Realm) (s : Session) (req : Nat) (opts : Dict) (topic : String)
    (args : List WVal) (kw : Dict) : Realm :=
  let ack := opts.optFlag OptAcknowledge
  if !validUri r.broker.strict "" topic then
    if ack then r.trySend ⟨s.key, invalidUriErr tPUBLISH req⟩ else r
  else
  let usesPPT := pptScheme opts != ""
  if usesPPT && !s.hasFeature RolePublisher FeaturePayloadPassthruMode then
    let r := r.trySend ⟨s.key, abortMsg "<text>"⟩
    { r with tasks := r.tasks ++ [.leave s.key .aborted], ending := r.ending ++ [s.key] }
  else
  let base : Dict := if usesPPT then pptInto opts [] else []
  let excludePub := match opts.get? OptExcludeMe with
    | some (.bool b) => b
    | _ => true
  let wantsDisclose := opts.optFlag OptDiscloseMe
  if wantsDisclose && !r.broker.allowDisclose then
    if ack then r.trySend ⟨s.key, errMsg tPUBLISH req ErrOptionDisallowedDiscloseMe⟩ else r
  else
  let (pubId, r) := r.freshPub
  let p : Publication := { publisher := s.key, pubDetails := s.details, topic := topic, pubId := pubId,
                           args := args, kw := kw, opts := opts, excludePub := excludePub,
                           disclose := wantsDisclose, baseDetails := base }
  let (b, sends) := r.broker.syncPublish r.session? r.now p
  let r := { r with broker := b }
  let r := r.deliver sends
  if ack then r.trySend ⟨s.key, .published req pubId⟩ else r

/-- `broker.subscribe` -/
def handleSubscribe (r : Realm) (s : Session) (req : Nat) (opts : Dict) (topic : String) : Realm :=
  let m := opts.optString OptMatch
  if !validUri r.broker.strict m topic then
    r.trySend ⟨s.key, invalidUriErr tSUBSCRIBE req⟩
  else
    let (b, sends, n) := r.broker.syncSubscribe s.key req topic m r.pubCount
    { r with broker := b, pubCount := r.pubCount + n }.deliver sends

def handleUnsubscribe (r : Realm) (s : Session) (req sub : Nat) : Realm :=
  let (b, sends, n) := r.broker.syncUnsubscribe s.key req sub r.pubCount
  { r with broker := b, pubCount := r.pubCount + n }.deliver sends

/-! ### the dealer, seen from a session handler -/

/-- the invocation policies `dealer.register` accepts -/
def knownPolicies : List String :=
  ["", InvokeSingle, InvokeFirst, InvokeLast, InvokeRoundRobin, InvokeRandom]

/-- `dealer.register` -/
def handleRegister (r : Realm) (s : Session) (req : Nat) (opts : Dict) (proc : String) : Realm :=
  let m := opts.optString OptMatch
  if !validUri r.ds.d.strict m proc then
    r.trySend ⟨s.key, invalidUriErr tREGISTER req⟩
  else
  let wampURI := proc.startsWith "wamp."
  if wampURI && s.key != metaKey then
    r.trySend ⟨s.key, invalidUriErr tREGISTER req⟩
  else
  let disclose := opts.optFlag OptDiscloseCaller
  if !r.ds.d.allowDisclose && disclose && sessAttr s.details "authrole" != "trusted" then
    r.trySend ⟨s.key, errMsg tREGISTER req ErrOptionDisallowedDiscloseMe⟩
  else
  let invoke := opts.optString OptInvoke
  if !(knownPolicies.contains invoke) then
    r.trySend ⟨s.key, .error tREGISTER req [] ErrInvalidArgument [.str "<text>"] []⟩
  else
  let fwd := opts.optFlag OptForwardTimeout
  r.applyD (syncRegister r.ds s.key req proc m invoke disclose fwd wampURI)

def handleUnregister (r : Realm) (s : Session) (req reg : Nat) : Realm :=
  r.applyD (syncUnregister r.ds s.key req reg)

def handleCall (r : Realm) (s : Session) (req : Nat) (opts : Dict) (proc : String)
    (args : List WVal) (kw : Dict) : Realm :=
  r.applyD (syncCall r.denv r.ds s.key req opts proc args kw r.rnd)

/-- `dealer.cancel` -/
def handleCancel (r : Realm) (s : Session) (req : Nat) (opts : Dict) : Realm :=
  let mode := opts.optString OptMode
  let mode := if mode == "" then CancelModeKillNoWait else mode
  if mode == CancelModeKillNoWait || mode == CancelModeKill || mode == CancelModeSkip then
    r.applyD (syncCancel r.denv r.ds s.key req mode ErrCanceled [])
  else
    r.trySend ⟨s.key, .error tCANCEL req [] ErrInvalidArgument [.str "<text>"] []⟩

def sendResultDeadlineMs : Nat := 60000
def yieldRetryDelayMs : Nat := 1

def busy (r : Realm) (k : SessKey) : Bool := r.retries.any (fun x => x.callee == k)

/-- `dealer.yield`: when the caller's queue is full the handler goroutine enters the retry loop
    (it handles nothing else meanwhile); `retryDue` below is one turn of that loop. -/
def handleYield (r : Realm) (s : Session) (req : Nat) (opts : Dict) (args : List WVal) (kw : Dict) : Realm :=
  let progress := opts.optFlag OptProgress
  let o := syncYield r.denv r.ds s.key req opts args kw progress true
  let r := r.applyD o
  if o.again then
    { r with retries := r.retries ++ [{ callee := s.key, req := req, opts := opts, args := args, kw := kw,
                                        progress := progress, start := r.now,
                                        next := r.now + yieldRetryDelayMs, delay := yieldRetryDelayMs }] }
  else r

def handleError (r : Realm) (s : Session) (req : Nat) (details : Dict) (err : String)
    (args : List WVal) (kw : Dict) : Realm :=
  r.applyD (syncError r.ds s.key req details err args kw)

/-! ### authorization gate (`authzMessage`) -/

def msgUri : Msg → String
  | .publish _ _ t _ _ => t
  | .subscribe _ _ t => t
  | .call _ _ p _ _ => p
  | .register _ _ p => p
  | _ => ""

def msgReq : Msg → Nat
  | .publish r .. => r | .subscribe r .. => r | .unsubscribe r .. => r | .register r .. => r
  | .unregister r .. => r | .call r .. => r | .cancel r .. => r | .yield r .. => r
  | _ => 0

def authzDecision (rules : List AuthzRule) (k : SessKey) (m : Msg) : String :=
  match rules.find? (fun a => (a.typ == 0 || a.typ == m.typeCode) && (a.uri == "" || a.uri == msgUri m) &&
                               (a.sess == none || a.sess == some k)) with
  | some a => a.decision
  | none => "allow"

/-- true = the message may be processed; otherwise the error reply has been queued -/
def authzGate (r : Realm) (s : Session) (m : Msg) : Bool × Realm :=
  match r.cfg.authz with
  | none => (true, r)
  | some rules =>
    if s.key == metaKey then (true, r)
    else if s.isLocal && !r.cfg.localAuthz then (true, r)
    else
      let dec := authzDecision rules s.key m
      -- "allowerr": the Authorizer returns (true, err); the error is ignored (realm.go: `if !isAuthz`)
      if dec == "allow" || dec == "allowerr" then (true, r)
      else
        let skip := match m with
          | .publish _ opts .. => !opts.optFlag OptAcknowledge
          | _ => false
        let e : Msg := if dec == "fail"
          then .error m.typeCode (msgReq m) [] ErrAuthorizationFailed [.str "<text>"] []
          else .error m.typeCode (msgReq m) [] ErrNotAuthorized [] []
        (false, if skip then r else r.trySend ⟨s.key, e⟩)

/-! ### the message switch of `handleInboundMessages` -/

def handleMsg (r : Realm) (s : Session) (m : Msg) : Realm :=
  let (ok, r) := authzGate r s m
  if !ok then r else
  match m with
  | .publish req opts topic args kw => handlePublish r s req opts topic args kw
  | .yield req opts args kw => handleYield r s req opts args kw
  | .call req opts proc args kw => handleCall r s req opts proc args kw
  | .cancel req opts => handleCancel r s req opts
  | .subscribe req opts topic => handleSubscribe r s req opts topic
  | .register req opts proc => handleRegister r s req opts proc
  | .unsubscribe req sub => handleUnsubscribe r s req sub
  | .unregister req reg => handleUnregister r s req reg
  | .error typ req details err args kw =>
    if typ != tINVOCATION then
      { r with tasks := r.tasks ++ [.leave s.key (.violation "invalid ERROR")], ending := r.ending ++ [s.key] }
    else handleError r s req details err args kw
  | .goodbye _ _ =>
    let r := r.trySend ⟨s.key, .goodbye [] CloseGoodbyeAndOut⟩
    { r with tasks := r.tasks ++ [.leave s.key .lost], ending := r.ending ++ [s.key] }
  | _ =>
    { r with tasks := r.tasks ++ [.leave s.key (.violation "unexpected message")], ending := r.ending ++ [s.key] }

/-! ### session end (`handleSession` tail, `onLeave`) -/

def takeTestaments (r : Realm) (k : SessKey) : Option TBucket × Realm :=
  match r.testaments.find? (fun t => t.1 == k) with
  | some t => (some t.2, { r with testaments := r.testaments.filter (fun t => t.1 != k) })
  | none => (none, r)

def testamentPub (t : Testament) : MetaPub := { topic := t.topic, args := t.args, kw := t.kw, opts := t.opts }

def detailOr (d : Dict) (k : String) : WVal := (d.get? k).getD .null

/-- the handler goroutine of session k exits -/
def leave (r : Realm) (k : SessKey) (mode : LeaveMode) : Realm :=
  match r.clients.find? (fun c => c.key == k) with
  | none => r
  | some s =>
  -- what the handler sends last
  let r := match mode with
    | .killed g _ => r.trySend ⟨k, g⟩
    | .violation _ => r.trySend ⟨k, abortMsg "<text>"⟩
    | .shutdown => r.trySend ⟨k, .goodbye [] CloseSystemShutdown⟩
    | _ => r
  let isShutdown := match mode with | .shutdown => true | _ => false
  let killAll := match mode with | .killed _ ka => ka | _ => false
  -- onLeave: realm action.  (`delete(r.clients, sess.ID)` comes first in the Go code; the
  -- peer stays open until `sess.Close()` below, so the session is dropped from `clients`
  -- only at the end of this atomic step: `trySend` to it must still succeed.)
  let (tst, r) := r.takeTestaments k
  let r :=
    if isShutdown then
      -- removeSessionQuiet: the same table updates, no meta events, no replies
      let o := syncRemoveSession r.denv r.ds k
      let (b, _, _) := r.broker.syncRemoveSession k r.pubCount
      { r with ds := o.st, broker := b }.setPanic o.panic
    else
      let o := syncRemoveSession r.denv r.ds k
      let r := r.applyD o
      let (b, sends, n) := r.broker.syncRemoveSession k r.pubCount
      { r with broker := b, pubCount := r.pubCount + n }.deliver sends
  let r :=
    if isShutdown then r else
      let ts := match tst with
        | some b => (b.detached ++ b.destroyed).map (fun t => Task.metaPub (testamentPub t))
        | none => []
      r.addTasks (ts ++ [.metaPub { topic := MetaEventSessionOnLeave,
                                    args := [sidVal k, detailOr s.details "authid", detailOr s.details "authrole"] }])
  -- sess.Close()
  { r with clients := r.clients.filter (fun c => c.key != k), ending := r.ending.filter (· != k),
           closedPeers := r.closedPeers ++ [k],
           ghosts := if s.stalled then r.ghosts ++ [k] else r.ghosts }

/-! ### meta procedures (`metaProcedureHandler` and the handlers it dispatches to) -/

def mErr (req : Nat) (uri : String) : Msg := .error tINVOCATION req [] uri [] []
def mYield (req : Nat) (args : List WVal) (kw : Dict := []) : Msg := .yield req [] args kw

/-- `cleanSessionDetails`: in strict mode only the standard keys and the configured extras;
    `transport.auth` (when `transport` and `auth` are dicts) is never shown. -/
def cleanDetails (r : Realm) (details : Dict) : Dict :=
  let clean : Dict :=
    if r.cfg.metaStrict then
      let std := ["session", "authid", "authrole", "authmethod", "authprovider", "transport"]
      (std ++ r.cfg.metaInc).foldl (fun acc k => match details.get? k with
        | some v => acc.set k v
        | none => acc) []
    else details
  match details.get? "transport" with
  | some (.dict t) =>
    match Dict.get? t "auth" with
    | some (WVal.dict _) => clean.set "transport" (.dict (Dict.erase t "auth"))
    | _ => clean
  | _ => clean

def strList? (v : WVal) : Option (List String) :=
  match v.asList with
  | none => none
  | some l => l.foldr (fun x acc => match x.asString, acc with
      | some s, some rest => some (s :: rest)
      | _, _ => none) (some [])

def authroleOf (s : Session) : String := sessAttr s.details "authrole"

/-- `makeGoodbye` -/
def makeGoodbye (reason message : String) (all : Bool) : Msg :=
  let reason := if reason == "" then CloseNormal else reason
  let d : Dict := if message != "" then [("message", .str message)] else []
  let d := if all then d.set "all" .null else d
  .goodbye d reason

def kwStr (kw : Dict) (k : String) : String :=
  match kw.get? k with
  | some v => (v.asString).getD ""
  | none => ""

/-- end the sessions selected by `sel` (never the caller, never one already ending) -/
def killWhere (r : Realm) (sel : Session → Bool) (g : Msg) (killAll : Bool) : Nat × Realm :=
  let victims := r.clients.filter (fun c => sel c && !r.ending.contains c.key)
  (victims.length,
   { r with tasks := r.tasks ++ victims.map (fun c => Task.leave c.key (.killed g killAll)),
            ending := r.ending ++ victims.map (·.key) })

def callerOf (details : Dict) : Option Nat :=
  match details.get? "caller" with
  | some v => v.asID
  | none => none

def keyOfSid (r : Realm) (sid : Nat) : Option Session :=
  r.clients.find? (fun c => sidOf c.key == sid)

def idLists (subs : List (MatchKind × Nat)) : WVal :=
  let pick (k : MatchKind) : WVal := .list ((subs.filter (fun p => p.1 == k)).map (fun p => .int p.2))
  .dict [(MatchExact, pick .exact), (MatchPrefix, pick .pfx), (MatchWildcard, pick .wild)]

def lookupMatchOpt (args : List WVal) : String :=
  match args with
  | _ :: o :: _ => match o.asDict with
    | some d => d.optString OptMatch
    | none => ""
  | _ => ""

structure HistQuery where
  limit : Nat := 0
  reverse : Bool := false
  fromT : Option Nat := none
  afterT : Option Nat := none
  beforeT : Option Nat := none
  untilT : Option Nat := none
  topic : String := ""
  subTopic : String := ""              -- the topic of the subscription queried (set by the handler, not by the caller)
  fromPub : Nat := 0
  afterPub : Nat := 0
  beforePub : Nat := 0
  untilPub : Nat := 0

/-- the scan loop of `subEventHistory` -/
def histScan (q : HistQuery) : List HistEntry → (fromPub afterPub : Nat) → (untilReached : Bool) → List HistEntry
  | [], _, _, _ => []
  | e :: rest, fromPub, afterPub, untilReached =>
    if (match q.fromT with | some t => decide (e.time < t) | none => false) then histScan q rest fromPub afterPub untilReached
    else if (match q.afterT with | some t => !decide (e.time > t) | none => false) then histScan q rest fromPub afterPub untilReached
    else if (match q.beforeT with | some t => !decide (e.time < t) | none => false) then histScan q rest fromPub afterPub untilReached
    else if (match q.untilT with | some t => decide (e.time > t) | none => false) then histScan q rest fromPub afterPub untilReached
    else if fromPub != 0 && e.pub != fromPub then histScan q rest fromPub afterPub untilReached
    else
      let fromPub := 0
      if afterPub != 0 then
        histScan q rest fromPub (if e.pub == afterPub then 0 else afterPub) untilReached
      else if q.beforePub > 0 && e.pub == q.beforePub then []
      else if q.untilPub > 0 && untilReached then []
      else
        let untilReached := untilReached || (q.untilPub > 0 && e.pub == q.untilPub)
        -- the events of an exact-match subscription carry no topic detail: their topic is the subscription's
        let topicOk := q.topic == "" || (match e.details.get? "topic" with
          | some (.str t) => t == q.topic
          | none => q.subTopic == q.topic
          | _ => false)
        if topicOk then e :: histScan q rest fromPub afterPub untilReached
        else histScan q rest fromPub afterPub untilReached

def histEntryVal (e : HistEntry) : WVal :=
  .dict [("Subscription", .int e.sub), ("Publication", .int e.pub), ("Details", .dict e.details),
         ("Arguments", .list e.args), ("ArgumentsKw", .dict e.kw)]

/-- parse of the keyword arguments of get_events; none = invalid_argument.
    Time bounds arrive as `{"$ms": n}` placeholders which the harness renders as RFC 3339. -/
def histQuery? (kw : Dict) : Option HistQuery :=
  let num (k : String) : Option (Option Int) :=
    match kw.get? k with
    | none => some none
    | some (.int i) => some (some i)
    | some _ => none
  let time (k : String) : Option (Option Nat) :=
    match kw.get? k with
    | some (.dict [("$ms", .int i)]) => some (some i.toNat)
    | some (.str _) => none                       -- unparsable time string: invalid_argument
    | _ => some none
  let pubB (k : String) : Option Nat :=
    match kw.get? k with
    | none => some 0
    | some v => v.asID
  match num "limit", (match kw.get? "reverse" with | none => some false | some (.bool b) => some b | some _ => none),
        time "from_time", time "after_time", time "before_time", time "until_time",
        pubB "from_publication", pubB "after_publication", pubB "before_publication", pubB "until_publication" with
  | some lim, some rev, some ft, some at_, some bt, some ut, some fp, some ap, some bp, some up =>
    match lim with
    | some l => if l < 1 then none else
      some { limit := l.toNat, reverse := rev, fromT := ft, afterT := at_, beforeT := bt, untilT := ut,
             topic := kwStr kw "topic", fromPub := fp, afterPub := ap, beforePub := bp, untilPub := up }
    | none =>
      some { limit := 0, reverse := rev, fromT := ft, afterT := at_, beforeT := bt, untilT := ut,
             topic := kwStr kw "topic", fromPub := fp, afterPub := ap, beforePub := bp, untilPub := up }
  | _, _, _, _, _, _, _, _, _, _ => none

def takeLast (n : Nat) (l : List α) : List α := l.drop (l.length - n)

/-- run one meta procedure: the answer and the new state -/
def metaProc (r : Realm) (proc : String) (req : Nat) (details : Dict) (args : List WVal) (kw : Dict) :
    Msg × Realm :=
  let caller := callerOf details
  let reason := kwStr kw "reason"
  let message := kwStr kw "message"
  let badReason := reason != "" && !validUri false "" reason
  if proc == MetaProcSessionCount || proc == MetaProcSessionList then
    let filt : Option (List String) := match args with
      | [] => some []
      | a :: _ => strList? a
    match filt with
    | none => (mErr req ErrInvalidArgument, r)
    | some f =>
      let sel := r.clients.filter (fun c => f.isEmpty || f.contains (authroleOf c))
      if proc == MetaProcSessionCount then (mYield req [.int sel.length], r)
      else (mYield req [.list (sel.map (fun c => sidVal c.key))], r)
  else if proc == MetaProcSessionGet then
    match args with
    | [] => (mErr req ErrNoSuchSession, r)
    | a :: _ => match a.asID with
      | none => (mErr req ErrNoSuchSession, r)
      | some sid => match r.keyOfSid sid with
        | none => (mErr req ErrNoSuchSession, r)
        | some s => (mYield req [.dict (r.cleanDetails s.details)], r)
  else if proc == MetaProcSessionKill then
    match args with
    | [] => (mErr req ErrNoSuchSession, r)
    | a :: _ => match a.asID with
      | none => (mErr req ErrNoSuchSession, r)
      | some sid =>
        if caller == some sid then (mErr req ErrNoSuchSession, r)
        else if badReason then (mErr req ErrInvalidURI, r)
        else match r.keyOfSid sid with
          | none => (mErr req ErrNoSuchSession, r)
          | some s =>
            -- EndRecv returns false for a session that is already ending, but the call still succeeds
            let (_, r) := r.killWhere (fun c => c.key == s.key) (makeGoodbye reason message false) false
            (mYield req [], r)
  else if proc == MetaProcSessionKillByAuthid || proc == MetaProcSessionKillByAuthrole then
    match args with
    | [] => (mErr req ErrNoSuchSession, r)
    | a :: _ => match a.asString with
      | none => (mErr req ErrNoSuchSession, r)
      | some v =>
        if badReason then (mErr req ErrInvalidURI, r)
        else
          let key := if proc == MetaProcSessionKillByAuthid then "authid" else "authrole"
          let (n, r) := r.killWhere (fun c => some (sidOf c.key) != caller &&
              (match c.details.get? key with | some (.str x) => x == v | _ => false))
            (makeGoodbye reason message false) false
          (mYield req [.int n], r)
  else if proc == MetaProcSessionKillAll then
    if badReason then (mErr req ErrInvalidURI, r)
    else
      let (n, r) := r.killWhere (fun c => some (sidOf c.key) != caller) (makeGoodbye reason message true) true
      (mYield req [.int n], r)
  else if proc == MetaProcSessionModifyDetails then
    match args with
    | a :: b :: _ => match a.asID with
      | none => (mErr req ErrInvalidArgument, r)
      | some sid =>
        if sid == 1 then (mErr req ErrNoSuchSession, r)
        else match b.asDict with
          | none => (mErr req ErrInvalidArgument, r)
          | some delta =>
            if delta.contains "session" then (mErr req ErrInvalidArgument, r)
            else match r.keyOfSid sid with
              | none => (mErr req ErrNoSuchSession, r)
              | some s =>
                let d := delta.foldl (fun acc (k, v) => match v with
                  | .null => acc.erase k
                  | _ => acc.set k v) s.details
                (mYield req [], { r with clients := r.clients.map (fun c => if c.key == s.key then { c with details := d } else c) })
    | _ => (mErr req ErrInvalidArgument, r)
  else if proc == MetaProcRegList then
    (mYield req [idLists (r.ds.d.regs.map (fun x => (x.kind, x.id)))], r)
  else if proc == MetaProcRegLookup then
    match args with
    | a :: _ => match a.asString with
      | some p =>
        let id := match r.ds.d.findProc p (matchKind (lookupMatchOpt args)) with | some x => x.id | none => 0
        (mYield req [.int id], r)
      | none => (mYield req [.int 0], r)
    | [] => (mYield req [.int 0], r)
  else if proc == MetaProcRegMatch then
    match args with
    | a :: _ => match a.asString with
      | some p => (mYield req [.int (match r.ds.d.matchProcedure p with | some x => x.id | none => 0)], r)
      | none => (mYield req [.int 0], r)
    | [] => (mYield req [.int 0], r)
  else if proc == MetaProcRegGet || proc == MetaProcRegListCallees || proc == MetaProcRegCountCallees then
    let reg := match args with
      | a :: _ => match a.asID with | some id => r.ds.d.findReg id | none => none
      | [] => none
    match reg with
    | none => (mErr req ErrNoSuchRegistration, r)
    | some x =>
      if proc == MetaProcRegGet then (mYield req [regDetailsDict x.id x.proc x.«match» x.policy], r)
      else if proc == MetaProcRegListCallees then (mYield req [.list (x.callees.map sidVal)], r)
      else (mYield req [.int x.callees.length], r)
  else if proc == MetaProcSubList then
    (mYield req [idLists (r.broker.subs.map (fun x => (x.kind, x.id)))], r)
  else if proc == MetaProcSubLookup then
    match args with
    | a :: _ => match a.asString with
      | some t =>
        let id := match r.broker.findTopic t (matchKind (lookupMatchOpt args)) with | some x => x.id | none => 0
        (mYield req [.int id], r)
      | none => (mYield req [.int 0], r)
    | [] => (mYield req [.int 0], r)
  else if proc == MetaProcSubMatch then
    match args with
    | a :: _ => match a.asString with
      | some t => (mYield req [.list ((r.broker.matching t).map (fun p => .int p.1.id))], r)
      | none => (mYield req [.list []], r)
    | [] => (mYield req [.list []], r)
  else if proc == MetaProcSubGet || proc == MetaProcSubListSubscribers || proc == MetaProcSubCountSubscribers then
    let sub := match args with
      | a :: _ => match a.asID with | some id => r.broker.findId id | none => none
      | [] => none
    match sub with
    | none => (mErr req ErrNoSuchSubscription, r)
    | some x =>
      if proc == MetaProcSubGet then (mYield req [subDetailsDict x], r)
      else if proc == MetaProcSubListSubscribers then
        (mYield req [.list (x.members.map sidVal)], r)
      else (mYield req [.int x.members.length], r)
  else if proc == MetaProcEventHistory then
    match args with
    | [] => (mErr req ErrInvalidArgument, r)
    | a :: _ => match a.asID with
      | none => (mErr req ErrInvalidArgument, r)
      | some id => match histQuery? kw with
        | none => (mErr req ErrInvalidArgument, r)
        | some q =>
          let store := if (r.broker.findId id).isSome then r.broker.hist.find? (fun h => h.sub == id) else none
          match store with
          | none => (mYield req [] [("is_limit_reached", .bool false)], r)
          | some h =>
            let q := { q with subTopic := ((r.broker.findId id).map (·.topic)).getD "" }
            let es := histScan q h.entries q.fromPub q.afterPub false
            let es := if q.limit > 0 then takeLast q.limit es else es
            let es := if q.reverse then es.reverse else es
            (mYield req (es.map histEntryVal) [("is_limit_reached", .bool (h.entries.length ≥ h.limit))], r)
  else if proc == MetaProcSessionAddTestament then
    match caller, args with
    | some c, t :: a :: k :: _ =>
      match t.asString, a.asList, k.asDict with
      | some topic, some targs, some tkw =>
        let opts := match kw.get? "publish_options" with
          | some v => (v.asDict).getD []
          | none => []
        let scope := let s := kwStr kw "scope"; if s == "" then "destroyed" else s
        if scope != "destroyed" && scope != "detached" then (mErr req ErrInvalidArgument, r)
        else
          let key := c - sidBase
          -- `if _, ok := r.clients[caller]; !ok { return }`: nothing is stored for a session that has left
          if !(decide (sidBase ≤ c) && r.clients.any (fun s => s.key == key)) then (mYield req [], r) else
          let t : Testament := { topic := topic, args := targs, kw := tkw, opts := opts }
          let cur := ((r.testaments.find? (fun x => x.1 == key)).map (·.2)).getD {}
          let cur := if scope == "destroyed" then { cur with destroyed := cur.destroyed ++ [t] }
                     else { cur with detached := cur.detached ++ [t] }
          (mYield req [], { r with testaments := (r.testaments.filter (fun x => x.1 != key)) ++ [(key, cur)] })
      | _, _, _ => (mErr req ErrInvalidArgument, r)
    | _, _ => (mErr req ErrInvalidArgument, r)
  else if proc == MetaProcSessionFlushTestaments then
    match caller with
    | none => (mErr req ErrInvalidArgument, r)
    | some c =>
      let scope := let s := kwStr kw "scope"; if s == "" then "destroyed" else s
      if scope != "destroyed" && scope != "detached" then (mErr req ErrInvalidArgument, r)
      else
        let key := c - sidBase
        match r.testaments.find? (fun x => x.1 == key) with
        | none => (mYield req [], r)
        | some (_, cur) =>
          let cur := if scope == "destroyed" then { cur with destroyed := [] } else { cur with detached := [] }
          let rest := r.testaments.filter (fun x => x.1 != key)
          if cur.destroyed.isEmpty && cur.detached.isEmpty then (mYield req [], { r with testaments := rest })
          else (mYield req [], { r with testaments := rest ++ [(key, cur)] })
  else (mErr req ErrNoSuchProcedure, r)

/-! ### internal tasks -/

/-- the meta session publishes (`broker.publish(metaSess, …)`): no acknowledgement, no features -/
def metaPublish (r : Realm) (p : MetaPub) : Realm :=
  handlePublish r r.metaS 0 p.opts p.topic p.args p.kw

/-- the session handler receives a message from its client.  A handler whose session is
    ending reads nothing more; one sleeping in the yield retry loop reads nothing meanwhile:
    a linked peer's client then cannot hand the message over at all (unbuffered channel, the
    harness reports it as undelivered), a socket transport keeps it until the handler reads again. -/
def recvMsg (r : Realm) (k : SessKey) (m : Msg) : Realm :=
  match r.clients.find? (fun c => c.key == k) with
  | none => r
  | some s =>
    if r.ending.contains k then r
    else if r.busy k then (if s.buffered then { r with inbox := r.inbox ++ [(k, m)] } else r)
    else handleMsg r s m

def runTask (r : Realm) : Task → Realm
  | .metaPub p => r.metaPublish p
  | .metaInvoke req reg details args kw =>
    match r.metaProcs.find? (fun p => p.1 == reg) with
    | none => r.addTasks [.metaMsg (mErr req ErrNoSuchProcedure)]
    | some (_, proc) =>
      let (rsp, r) := metaProc r proc req details args kw
      r.addTasks [.metaMsg rsp]
  | .metaMsg m => handleMsg r r.metaS m
  | .leave k mode =>
    -- a handler in the yield retry loop notices nothing until the loop ends
    if r.busy k then { r with deferred := r.deferred ++ [(k, mode)] } else r.leave k mode
  | .inMsg k m => r.recvMsg k m

/-- run pending tasks, oldest first, until none is left (or the fuel runs out) -/
def drain : Nat → Realm → Realm
  | 0, r => if r.tasks.isEmpty then r else r.setPanic (some "model: task fuel exhausted")
  | fuel + 1, r =>
    match r.tasks with
    | [] => r
    | t :: ts => drain fuel (runTask { r with tasks := ts } t)

/-! ### construction (`addRealm`, `newBroker`, `newRealm`, `setupMetaProcedures`) -/

def metaProcNames (cfg : Config) : List String :=
  [MetaProcSessionCount, MetaProcSessionList, MetaProcSessionGet] ++
  (if cfg.metaKill then [MetaProcSessionKill, MetaProcSessionKillByAuthid, MetaProcSessionKillByAuthrole,
                         MetaProcSessionKillAll] else []) ++
  (if cfg.metaModify then [MetaProcSessionModifyDetails] else []) ++
  [MetaProcRegList, MetaProcRegLookup, MetaProcRegMatch, MetaProcRegGet, MetaProcRegListCallees,
   MetaProcRegCountCallees, MetaProcSubList, MetaProcSubLookup, MetaProcSubMatch, MetaProcSubGet,
   MetaProcSubListSubscribers, MetaProcSubCountSubscribers, MetaProcEventHistory,
   MetaProcSessionAddTestament, MetaProcSessionFlushTestaments]

def registerMeta (r : Realm) : List String → Realm
  | [] => r
  | p :: ps =>
    let o := syncRegister r.ds metaKey 0 p "" "" true false true
    let id := o.st.d.nextReg
    registerMeta { r with ds := o.st, metaProcs := r.metaProcs ++ [(id, p)] } ps

def historyOk (cfg : Config) : Bool :=
  cfg.history.all (fun (t, m, l) => validUri cfg.strict m t && l > 0)

/-- none = constructor error -/
def create (cfg : Config) : Option Realm :=
  if !historyOk cfg then none
  else if !validUri cfg.strict "" cfg.uri then none
  else
    let b : Broker := ({ strict := cfg.strict, allowDisclose := cfg.allowDisclose } : Broker).preInit cfg.history
    let d : Dealer := { strict := cfg.strict, allowDisclose := cfg.allowDisclose }
    some (registerMeta { cfg := cfg, broker := b, ds := { d := d } } (metaProcNames cfg))

/-! ### external inputs -/

inductive Op where
  | join (k : SessKey) (isLocal : Bool) (details : Dict) (roles : Roles) (cap : Nat)
  | msg (k : SessKey) (m : Msg)
  | drop (k : SessKey)                 -- transport lost
  | stall (k : SessKey)
  | resume (k : SessKey)
  | buffer (k : SessKey)               -- the session is attached through a socket transport
  | tick (ms : Nat)
  | rnd (n : Nat)                      -- sets the oracle for the random invocation policy
  deriving Inhabited

/-- one turn of the retry loop of `dealer.yield`, at the time its `time.After` fires -/
def retryDue (r : Realm) (x : Retry) : Realm :=
  let r := { r with retries := r.retries.filter (fun y => y.callee != x.callee) }
  let canRetry := decide (r.now - x.start < sendResultDeadlineMs)
  let o := syncYield r.denv r.ds x.callee x.req x.opts x.args x.kw x.progress canRetry
  let r := r.applyD o
  if o.again then
    { r with retries := r.retries ++ [{ x with next := r.now + x.delay * 2, delay := x.delay * 2 }] }
  else
    -- the handler is free again: it reads what waited in the transport, then notices the
    -- departures it had missed
    let waiting := r.inbox.filter (fun d => d.1 == x.callee)
    let mine := r.deferred.filter (fun d => d.1 == x.callee)
    { r with deferred := r.deferred.filter (fun d => d.1 != x.callee),
             inbox := r.inbox.filter (fun d => d.1 != x.callee),
             tasks := r.tasks ++ waiting.map (fun d => Task.inMsg d.1 d.2) ++ mine.map (fun d => Task.leave d.1 d.2) }

/-- a call-timeout goroutine fires: `syncCancel(killnowait, wamp.error.timeout)` -/
def timerDue (r : Realm) (t : Timer) : Realm :=
  let r := { r with ds := { r.ds with timers := r.ds.timers.filter (fun y => y.id != t.id) } }
  r.applyD (syncCancel r.denv r.ds t.caller t.req CancelModeKillNoWait ErrTimeout [.str "<text>"])

inductive Due where
  | timer (t : Timer)
  | retry (x : Retry)

def Due.time : Due → Nat
  | .timer t => t.deadline
  | .retry x => x.next

/-- the earliest timed event not after `limit` (call timers before retries at equal times) -/
def nextDue (r : Realm) (limit : Nat) : Option Due :=
  let ts := (r.ds.timers.filter (fun t => !t.canceled && t.deadline ≤ limit)).map Due.timer
  let rs := (r.retries.filter (fun x => x.next ≤ limit)).map Due.retry
  (ts ++ rs).foldl (fun best d => match best with
    | none => some d
    | some b => if d.time < b.time then some d else some b) none

def taskFuel : Nat := 100000

def stepOp (r : Realm) : Op → Realm
  | .join k isLocal details roles cap =>
    -- session ids are drawn by the router: never the meta session's, never one in use
    if k == metaKey || r.clients.any (fun c => c.key == k) then r else
    let s : Session := { key := k, details := details, roles := roles, isLocal := isLocal, cap := cap }
    let r := { r with clients := r.clients ++ [s], queues := r.queues ++ [(k, [])] }
    r.addTasks [.metaPub { topic := MetaEventSessionOnJoin, args := [.dict (r.cleanDetails details)] }]
  | .msg k m => r.recvMsg k m
  | .buffer k => { r with clients := r.clients.map (fun c => if c.key == k then { c with buffered := true } else c) }
  | .drop k =>
    if !r.clients.any (fun c => c.key == k) then r      -- only an attached client has a transport to lose
    else if r.ending.contains k then r
    else { r with tasks := r.tasks ++ [.leave k .lost], ending := r.ending ++ [k] }
  | .stall k => { r with clients := r.clients.map (fun c => if c.key == k then { c with stalled := true } else c) }
  | .resume k => { r with clients := r.clients.map (fun c => if c.key == k then { c with stalled := false } else c),
                          ghosts := r.ghosts.filter (· != k) }
  | .tick _ => r   -- handled by `advance` in `step`
  | .rnd n => { r with rnd := n }

/-- what the clients can read after the step: the queues of the sessions that are draining -/
structure Observed where
  out : List (SessKey × List Msg)
  closed : List SessKey
  panic : Option String

def flush (r : Realm) : Observed × Realm :=
  let reading (k : SessKey) : Bool :=
    if r.ghosts.contains k then false else
    match r.clients.find? (fun c => c.key == k) with
    | some c => !c.stalled
    | none => true          -- departed: the client reads what is left until the channel closes
  let out := r.queues.filter (fun q => reading q.1 && !q.2.isEmpty)
  let seenClosed := r.closedPeers.filter reading
  let keep := r.queues.filter (fun q => !reading q.1)
  let keepEmpty := (r.queues.filter (fun q => reading q.1 && !r.closedPeers.contains q.1)).map (fun q => (q.1, ([] : List Msg)))
  ({ out := out, closed := seenClosed, panic := r.panic },
   { r with queues := keep ++ keepEmpty, closedPeers := r.closedPeers.filter (fun k => !reading k) })

/-- let virtual time pass until `target`, running every timed event (call timeouts, yield
    retries) at its own instant, each followed by the internal tasks it causes -/
def advance : Nat → Realm → Nat → Realm
  | 0, r, target => ({ r with now := target }).setPanic (some "model: timed-event fuel exhausted")
  | fuel + 1, r, target =>
    match nextDue r target with
    | none => { r with now := target }
    | some d =>
      let r := { r with now := max r.now d.time }
      let r := match d with
        | .timer t => r.timerDue t
        | .retry x => r.retryDue x
      advance fuel (drain taskFuel r) target

def step (r : Realm) (op : Op) : Observed × Realm :=
  match op with
  | .tick ms => flush (advance 10000 r (r.now + ms))
  | _ => flush (drain taskFuel (stepOp r op))

end Realm
end Nexus.L2
