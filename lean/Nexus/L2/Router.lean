/-
  L2: the router as a table of realms (router/router.go).  Every realm is an
  independent `Realm`; an operation of a session touches the realm the session
  joined and no other (that is property C11, true by construction of this model
  and tied to the code by the multi-realm correspondence family and the
  inventory of package-level variables).
-/
import Nexus.L2.Realm

namespace Nexus.L2

structure Router where
  realms : List (String × Realm) := []
  sessRealm : List (SessKey × String) := []
  closed : Bool := false
  created : Nat := 0                            -- realms created so far (separates publication placeholders)
  template : Option Config := none              -- `Config.RealmTemplate`: realms are created on demand from it
  now : Nat := 0                                -- the clock, shared by all realms: a realm created later starts at the current time
  deriving Inhabited

inductive ROp where
  | join (realm : String) (k : SessKey) (isLocal : Bool) (details : Dict) (roles : Roles) (cap : Nat)
  | sess (k : SessKey) (op : Realm.Op)         -- msg / drop / stall / resume of session k
  | tick (ms : Nat)
  | rnd (n : Nat)
  | close                                      -- Router.Close
  | removeRealm (name : String)
  | addRealm (cfg : Config)
  deriving Inhabited

structure RObserved where
  out : List (SessKey × List Msg) := []
  closed : List SessKey := []
  panic : Option String := none
  refused : Bool := false                      -- join refused / realm configuration rejected

/-- the sizes of the tables of one realm, named as the `verif` hook of /repo names them -/
def Realm.sizes (r : Realm) : List (String × Nat) :=
  let b := r.broker
  let d := r.ds.d
  let cnt (k : MatchKind) (l : List MatchKind) : Nat := (l.filter (· == k)).length
  [ ("clients", r.clients.length), ("testaments", r.testaments.length),
    ("subs", b.subs.length),
    ("subs_exact", cnt .exact (b.subs.map Sub.kind)), ("subs_prefix", cnt .pfx (b.subs.map Sub.kind)),
    ("subs_wildcard", cnt .wild (b.subs.map Sub.kind)),
    ("sub_index", b.index.length), ("history_stores", b.hist.length),
    ("sub_members", (b.subs.map (·.members.length)).foldl (· + ·) 0),
    ("regs", d.regs.length),
    ("regs_exact", cnt .exact (d.regs.map Reg.kind)), ("regs_prefix", cnt .pfx (d.regs.map Reg.kind)),
    ("regs_wildcard", cnt .wild (d.regs.map Reg.kind)),
    ("reg_index", d.index.length), ("calls", d.calls.length), ("invocations", d.invs.length),
    ("invocation_by_call", d.byCall.length),
    ("reg_callees", (d.regs.map (·.callees.length)).foldl (· + ·) 0) ]

namespace Router

def sizes (rt : Router) : List (String × List (String × Nat)) :=
  rt.realms.map (fun p => (p.1, p.2.sizes))

def realm? (rt : Router) (name : String) : Option Realm :=
  (rt.realms.find? (fun p => p.1 == name)).map (·.2)

def setRealm (rt : Router) (name : String) (r : Realm) : Router :=
  { rt with realms := rt.realms.map (fun p => if p.1 == name then (name, r) else p) }

def merge (a : RObserved) (o : Realm.Observed) : RObserved :=
  { a with out := a.out ++ o.out, closed := a.closed ++ o.closed,
           panic := match a.panic with | some p => some p | none => o.panic }

/-- `realm.close`: every session gets the shutdown GOODBYE and its peer is closed; nothing is
    removed from broker or dealer and no meta event is published. -/
def shutdownRealm (r : Realm) : Realm.Observed × Realm :=
  let r := r.clients.foldl (fun r c => r.leave c.key .shutdown) { r with retries := [], deferred := [], inbox := [], tasks := [] }
  Realm.flush r

def create (cfgs : List Config) : Option Router :=
  cfgs.foldl (fun acc cfg => match acc with
    | none => none
    | some rt =>
      if rt.realms.any (fun p => p.1 == cfg.uri) then none
      else match Realm.create cfg with
        | some r => some { rt with realms := rt.realms ++ [(cfg.uri, { r with pubCount := rt.created * 1000000 })],
                                   created := rt.created + 1 }
        | none => none) (some {})

def step (rt : Router) : ROp → RObserved × Router
  | .join name k isLocal details roles cap =>
    if rt.closed || name == "" then ({ refused := true }, rt) else
    -- a realm that does not exist is created from the template, if there is one
    let rt : Router :=
      match rt.realm? name, rt.template with
      | none, some t =>
        match Realm.create { t with uri := name } with
        | some r => { rt with realms := rt.realms ++ [(name, { r with pubCount := rt.created * 1000000, now := rt.now })],
                              created := rt.created + 1 }
        | none => rt
      | _, _ => rt
    match rt.realm? name with
    | none => ({ refused := true }, rt)
    | some r =>
      let (o, r) := r.step (.join k isLocal details roles cap)
      (merge {} o, { rt.setRealm name r with sessRealm := rt.sessRealm ++ [(k, name)] })
  | .sess k op =>
    match (rt.sessRealm.find? (fun p => p.1 == k)).map (·.2) with
    | none => ({}, rt)
    | some name =>
      match rt.realm? name with
      | none => ({}, rt)
      | some r =>
        let (o, r) := r.step op
        (merge {} o, rt.setRealm name r)
  | .tick ms =>
    rt.realms.foldl (fun (acc : RObserved × Router) p =>
      let (o, r) := p.2.step (.tick ms)
      (merge acc.1 o, acc.2.setRealm p.1 r)) ({}, { rt with now := rt.now + ms })
  | .rnd n =>
    ({}, { rt with realms := rt.realms.map (fun p => (p.1, { p.2 with rnd := n })) })
  | .close =>
    let acc := rt.realms.foldl (fun (acc : RObserved) p => merge acc (shutdownRealm p.2).1) {}
    (acc, { rt with realms := [], closed := true })
  | .removeRealm name =>
    match rt.realm? name with
    | none => ({}, rt)
    | some r =>
      (merge {} (shutdownRealm r).1, { rt with realms := rt.realms.filter (fun p => p.1 != name) })
  | .addRealm cfg =>
    if rt.closed || rt.realms.any (fun p => p.1 == cfg.uri) then ({ refused := true }, rt)
    else match Realm.create cfg with
      | some r => ({}, { rt with realms := rt.realms ++ [(cfg.uri, { r with pubCount := rt.created * 1000000, now := rt.now })],
                                 created := rt.created + 1 })
      | none => ({ refused := true }, rt)

end Router
end Nexus.L2
