/-
  L2 model of router/broker.go and router/publishfilter.go — the parts that run
  inside the broker goroutine (`sync*` functions), mirrored decision by decision.
  Every function takes the broker state and returns the new state together with
  the messages handed to `trySend`, in order.
-/
import Nexus.L2.Types

namespace Nexus.L2
open Gen.N

/-! ### publishfilter.go -/

structure Filter where
  blIDs : List Nat
  wlIDs : List Nat
  blMap : List (String × List String)
  wlMap : List (String × List String)
  deriving Inhabited

def idList (v : Option WVal) : List Nat :=
  match v with
  | some x => match x.asList with
    | some l => l.filterMap WVal.asID
    | none => []
  | none => []

/-- `getAttrMap(prefix)`: option keys `<prefix><attr>` whose value is a list with at least
    one non-empty string. -/
def attrMap (pfx : String) (opts : Dict) : List (String × List String) :=
  opts.filterMap fun (k, v) =>
    if k.startsWith pfx then
      match v.asList with
      | some vals =>
        let strs := vals.filterMap fun x => match x.asString with
          | some s => if s != "" then some s else none
          | none => none
        if strs.isEmpty then none else some ((k.drop pfx.length).toString, strs)
      | none => none
    else none

/-- `NewSimplePublishFilter` (a nil filter behaves as the filter with all four parts empty). -/
def mkFilter (opts : Dict) : Filter :=
  { blIDs := idList (opts.get? BlacklistKey)
    wlIDs := idList (opts.get? WhitelistKey)
    blMap := attrMap "exclude_" opts
    wlMap := attrMap "eligible_" opts }

def sessAttr (details : Dict) (attr : String) : String :=
  match details.get? attr with
  | some v => (v.asString).getD ""
  | none => ""

/-- `simplePublishFilter.Allowed` -/
def Filter.allowed (f : Filter) (sid : Nat) (details : Dict) : Bool :=
  !f.blIDs.contains sid &&
  (f.wlIDs.isEmpty || f.wlIDs.contains sid) &&
  f.blMap.all (fun (attr, vals) =>
    let a := sessAttr details attr
    a == "" || !vals.contains a) &&
  f.wlMap.all (fun (attr, vals) =>
    let a := sessAttr details attr
    a != "" && vals.contains a)

/-! ### lookups -/

def Broker.findTopic (b : Broker) (topic : String) (k : MatchKind) : Option Sub :=
  b.subs.find? (fun s => s.kind == k && s.topic == topic)

def Broker.findId (b : Broker) (id : Nat) : Option Sub :=
  b.subs.find? (fun s => s.id == id)

def Broker.setSub (b : Broker) (s : Sub) : Broker :=
  { b with subs := b.subs.map (fun x => if x.id == s.id then s else x) }

def Broker.delSub (b : Broker) (id : Nat) : Broker :=
  { b with subs := b.subs.filter (fun x => x.id != id) }

def Broker.hasHist (b : Broker) (sub : Nat) : Bool :=
  b.hist.any (fun h => h.sub == sub)

def idxGet (ix : List (SessKey × List Nat)) (k : SessKey) : Option (List Nat) :=
  (ix.find? (fun p => p.1 == k)).map (·.2)

def idxAdd (ix : List (SessKey × List Nat)) (k : SessKey) (id : Nat) : List (SessKey × List Nat) :=
  match idxGet ix k with
  | some ids => if ids.contains id then ix else ix.map (fun p => if p.1 == k then (k, ids ++ [id]) else p)
  | none => ix ++ [(k, [id])]

/-- remove `id` from the set of `k`; drop the set when it becomes empty -/
def idxDel (ix : List (SessKey × List Nat)) (k : SessKey) (id : Nat) : List (SessKey × List Nat) :=
  (ix.map (fun p => if p.1 == k then (k, p.2.filter (· != id)) else p)).filter
    (fun p => !(p.1 == k && p.2.isEmpty))

def idxDrop (ix : List (SessKey × List Nat)) (k : SessKey) : List (SessKey × List Nat) :=
  ix.filter (fun p => p.1 != k)

/-- Subscriptions matching a topic, in the order `syncPublish` visits them, with `sendTopic`. -/
def Broker.matching (b : Broker) (topic : String) : List (Sub × Bool) :=
  (b.subs.filter (fun s => s.kind == .exact && s.topic == topic)).map (·, false) ++
  (b.subs.filter (fun s => s.kind == .pfx && prefixMatch topic s.topic)).map (·, true) ++
  (b.subs.filter (fun s => s.kind == .wild && wildcardMatch topic s.topic)).map (·, true)

/-! ### events -/

/-- What `broker.publish` has computed in the session's goroutine before posting the action. -/
structure Publication where
  publisher : SessKey
  pubDetails : Dict            -- publisher's session details (for disclosure)
  topic : String
  pubId : Nat
  args : List WVal
  kw : Dict
  opts : Dict
  excludePub : Bool
  disclose : Bool
  baseDetails : Dict           -- payload passthru fields
  deriving Inhabited

/-- `disclosePublisher` -/
def discloseInto (role : String) (sid : Nat) (pubDetails : Dict) (d : Dict) : Dict :=
  let d := d.set role (.int sid)
  let d := match pubDetails.get? "authid" with
    | some v => d.set (role ++ "_authid") v
    | none => d
  match pubDetails.get? "authrole" with
    | some v => d.set (role ++ "_authrole") v
    | none => d

/-- `prepareEvent` (the copies made for in-process subscribers do not change the value). -/
def eventDetails (p : Publication) (sendTopic : Bool) (recipient : Option Session) : Dict :=
  let d := p.baseDetails
  let d := if sendTopic then d.set "topic" (.str p.topic) else d
  match recipient with
  | some s =>
    if p.disclose && s.hasFeature RoleSubscriber FeaturePubIdent
    then discloseInto RolePublisher (sidOf p.publisher) p.pubDetails d else d
  | none => d

def mkEvent (p : Publication) (sub : Sub) (sendTopic : Bool) (recipient : Option Session) : Msg :=
  .event sub.id p.pubId (eventDetails p sendTopic recipient) p.args p.kw

/-- Is `s` a receiver of publication `p` through a subscription it is a member of? -/
def receives (p : Publication) (f : Filter) (s : Session) : Bool :=
  !(s.key == p.publisher && p.excludePub) && f.allowed (sidOf s.key) s.details

/-- `syncSaveEvent` -/
def Hist.save (h : Hist) (e : HistEntry) : Hist :=
  let es := if h.entries.length ≥ h.limit then h.entries.drop 1 else h.entries
  { h with entries := es ++ [e] }

/-- `syncPubEvent` for one subscription: the events sent and the updated history. -/
def Broker.pubEvent (b : Broker) (sess : SessKey → Option Session) (now : Nat)
    (p : Publication) (f : Filter) (sub : Sub) (sendTopic : Bool) : Broker × List Send :=
  let sends := sub.members.filterMap fun k =>
    match sess k with
    | some s => if receives p f s then some ⟨k, mkEvent p sub sendTopic (some s)⟩ else none
    | none => none
  let b :=
    if b.hasHist sub.id && !(p.opts.contains BlacklistKey) && !(p.opts.contains WhitelistKey) then
      let e : HistEntry := { pub := p.pubId, sub := sub.id, details := eventDetails p sendTopic none,
                             args := p.args, kw := p.kw, time := now }
      { b with hist := b.hist.map (fun h => if h.sub == sub.id then h.save e else h) }
    else b
  (b, sends)

def Broker.pubEvents (b : Broker) (sess : SessKey → Option Session) (now : Nat)
    (p : Publication) (f : Filter) : List (Sub × Bool) → Broker × List Send
  | [] => (b, [])
  | (sub, st) :: rest =>
    let (b1, s1) := b.pubEvent sess now p f sub st
    let (b2, s2) := Broker.pubEvents b1 sess now p f rest
    (b2, s1 ++ s2)

/-- `syncPublish` -/
def Broker.syncPublish (b : Broker) (sess : SessKey → Option Session) (now : Nat)
    (p : Publication) : Broker × List Send :=
  b.pubEvents sess now p (mkFilter p.opts) (b.matching p.topic)

/-! ### subscription meta events (sent by the broker goroutine itself) -/

/-- `syncPubSubMeta` / `syncPubSubCreateMeta`: one event per member of every subscription
    matching the meta topic, except the session that caused it. -/
def Broker.metaEvent (b : Broker) (metaTopic : String) (pubId : Nat) (cause : SessKey)
    (args : List WVal) : List Send :=
  (b.matching metaTopic).flatMap fun (msub, sendTopic) =>
    (msub.members.filter (fun k => sidOf k != sidOf cause)).map fun k =>
      ⟨k, .event msub.id pubId (if sendTopic then [("topic", .str metaTopic)] else []) args []⟩

def subDetailsDict (sub : Sub) : WVal :=
  .dict [("id", .int sub.id), ("created", .str "T"), ("uri", .str sub.topic), (OptMatch, .str sub.«match»)]

/-! ### SUBSCRIBE / UNSUBSCRIBE / session removal -/

/-- `syncSubscribe`; `pub0` is the number of publication ids drawn so far, the result
    carries how many were drawn. -/
def Broker.syncSubscribe (b : Broker) (k : SessKey) (req : Nat) (topic «match» : String)
    (pub0 : Nat) : Broker × List Send × Nat :=
  match b.findTopic topic (matchKind «match») with
  | some sub =>
    if sub.members.contains k then
      (b, [⟨k, .subscribed req sub.id⟩], 0)
    else
      let sub' := { sub with members := sub.members ++ [k] }
      let b := b.setSub sub'
      let b := { b with index := idxAdd b.index k sub.id }
      (b, [⟨k, .subscribed req sub.id⟩] ++
          b.metaEvent MetaEventSubOnSubscribe (pubBase + pub0) k [sidVal k, .int sub.id], 1)
  | none =>
    let id := b.nextSub + 1
    let sub : Sub := { id := id, topic := topic, «match» := «match», members := [k] }
    let b := { b with subs := b.subs ++ [sub], nextSub := id, index := idxAdd b.index k id }
    (b, [⟨k, .subscribed req id⟩] ++
        b.metaEvent MetaEventSubOnCreate (pubBase + pub0) k [sidVal k, subDetailsDict sub] ++
        b.metaEvent MetaEventSubOnSubscribe (pubBase + pub0 + 1) k [sidVal k, .int id], 2)

def errMsg (typ req : Nat) (err : String) : Msg := .error typ req [] err [] []

/-- `syncUnsubscribe` -/
def Broker.syncUnsubscribe (b : Broker) (k : SessKey) (req subId : Nat) (pub0 : Nat) :
    Broker × List Send × Nat :=
  match b.findId subId with
  | none => (b, [⟨k, errMsg tUNSUBSCRIBE req ErrNoSuchSubscription⟩], 0)
  | some sub =>
    if !sub.members.contains k then
      (b, [⟨k, errMsg tUNSUBSCRIBE req ErrNoSuchSubscription⟩], 0)
    else
      let members := sub.members.filter (· != k)
      let del := members.isEmpty && !b.hasHist sub.id
      let b := if del then b.delSub sub.id else b.setSub { sub with members := members }
      let b := { b with index := idxDel b.index k subId }
      let s1 := [⟨k, Msg.unsubscribed req⟩] ++
        b.metaEvent MetaEventSubOnUnsubscribe (pubBase + pub0) k [sidVal k, .int subId]
      if del then
        (b, s1 ++ b.metaEvent MetaEventSubOnDelete (pubBase + pub0 + 1) k [sidVal k, .int subId], 2)
      else (b, s1, 1)

/-- one iteration of the loop in `syncRemoveSession` -/
def Broker.removeMember (b : Broker) (k : SessKey) (subId : Nat) (pub0 : Nat) :
    Broker × List Send × Nat :=
  match b.findId subId with
  | none => (b, [], 0)
  | some sub =>
    let members := sub.members.filter (· != k)
    -- the departure of a member is announced like an UNSUBSCRIBE (on_unsubscribe, then
    -- on_delete when the subscription goes with it)
    if members.isEmpty && !b.hasHist sub.id then
      let b := b.delSub sub.id
      (b, b.metaEvent MetaEventSubOnUnsubscribe (pubBase + pub0) k [sidVal k, .int subId] ++
          b.metaEvent MetaEventSubOnDelete (pubBase + pub0 + 1) k [sidVal k, .int subId], 2)
    else
      let b := b.setSub { sub with members := members }
      (b, b.metaEvent MetaEventSubOnUnsubscribe (pubBase + pub0) k [sidVal k, .int subId], 1)

def Broker.removeMembers (b : Broker) (k : SessKey) (pub0 : Nat) :
    List Nat → Broker × List Send × Nat
  | [] => (b, [], 0)
  | id :: ids =>
    let (b1, s1, n1) := b.removeMember k id pub0
    let (b2, s2, n2) := Broker.removeMembers b1 k (pub0 + n1) ids
    (b2, s1 ++ s2, n1 + n2)

/-- `syncRemoveSession` -/
def Broker.syncRemoveSession (b : Broker) (k : SessKey) (pub0 : Nat) : Broker × List Send × Nat :=
  match idxGet b.index k with
  | none => (b, [], 0)
  | some ids => Broker.removeMembers { b with index := idxDrop b.index k } k pub0 ids

/-- `PreInitEventHistoryTopics` (validity of the configuration is checked by the caller). -/
def Broker.preInit (b : Broker) : List (String × String × Nat) → Broker
  | [] => b
  | (topic, m, limit) :: rest =>
    match b.findTopic topic (matchKind m) with
    | some sub =>
      let b := { b with hist := (b.hist.filter (fun h => h.sub != sub.id)) ++ [{ sub := sub.id, limit := limit, entries := [] }] }
      Broker.preInit b rest
    | none =>
      let id := b.nextSub + 1
      let sub : Sub := { id := id, topic := topic, «match» := m, members := [] }
      let b := { b with subs := b.subs ++ [sub], nextSub := id,
                        hist := b.hist ++ [{ sub := id, limit := limit, entries := [] }] }
      Broker.preInit b rest

end Nexus.L2
