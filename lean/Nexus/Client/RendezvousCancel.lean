/-
  The CANCEL count invariant of the rendezvous model.  Proof file.
-/
import Nexus.Client.RendezvousLog

namespace Nexus.Client.R
open Nexus.Gen Nexus.Client

/-- Exactly one CANCEL per call that took the ctx.Done branch, none for any other. -/
def InvCancelCount (st : State) : Prop :=
  st.drawn < 2 ^ 53 → ∀ g, (st.ws g).req ≠ 0 →
    List.countP (isCancelFor (st.ws g).req) st.out = if (st.ws g).cancelled then 1 else 0

theorem invCancelCount_init : InvCancelCount {} := by
  intro _ g hg; simp at hg

set_option maxHeartbeats 1600000 in
theorem invCancelCount_step (cfg : Cfg) (st : State) (ev : Ev) (st' : State)
    (hw : ∀ g, (st.ws g).wf) (hids : InvIds st) (hmode : InvCancelMode cfg st) (hinv : InvCancelCount st)
    (h : step cfg st ev = some st') : InvCancelCount st' := by
  intro hb
  have hmono := drawn_mono cfg st ev st' h
  have hi := hinv (by omega)
  have hm := hmode (by omega)
  obtain ⟨hidg0, hle, hz, hu⟩ := hids (by omega)
  have hnext := idGenNext_small st.idgen (by omega)
  have hfresh := count_cancel_fresh st.out st.drawn (st.drawn + 1) (fun p hp => (hm p hp).2) (by omega)
  clear hmono hinv hids hmode
  analyse_step
  all_goals (intro b hb0; have hib := hi b; have hwb := hw b)
  all_goals cancel_close

end Nexus.Client.R
