/-
  All invariants of the rendezvous model together, for every reachable state.  Proof file.
-/
import Nexus.Client.RendezvousCancel
import Nexus.Client.RendezvousEvents
import Nexus.Client.RendezvousLive

namespace Nexus.Client.R
open Nexus.Gen Nexus.Client

/-- Every message ever handed to waiter `g` was looked up under `g`'s request id. -/
def InvHandedCorr (st : State) : Prop :=
  ∀ o ∈ st.out, ∀ g m, o = .handed g m → sigId m = some (st.ws g).req ∧ (st.ws g).phase.started = true

theorem invHandedCorr_init : InvHandedCorr {} := by intro o h; simp at h

theorem invHandedCorr_step (cfg : Cfg) (st : State) (ev : Ev) (st' : State)
    (hcorr : InvCorr st) (hinv : InvHandedCorr st) (h : step cfg st ev = some st') : InvHandedCorr st' := by
  obtain ⟨_, hr⟩ := hcorr
  unfold InvHandedCorr at hinv ⊢
  analyse_step
  all_goals (intro o ho b m hom)
  split_mod
  all_goals (try (simp [returnNow, startRequest, fireAndForget, State.nextId, Phase.started] at *))
  all_goals (try (simp only [hws, haw, hrun, hout] at *))
  all_goals (try (grind [Phase.started]))
  all_goals (try (simp_all [Phase.started]))
  all_goals (try grind [Phase.started])

structure AllInv (cfg : Cfg) (st : State) : Prop where
  handedCorr : InvHandedCorr st
  corr : InvCorr st
  state : InvState st
  ids : InvIds st
  ret : InvRet st
  hand0 : InvHand0 st
  hand : InvHand st
  prog : InvProg st
  cancelMode : InvCancelMode cfg st
  cancelCount : InvCancelCount st
  events : InvEvents st
  fifo : InvFifo st
  doneOnce : InvDoneOnce st

theorem allInv_init (cfg : Cfg) : AllInv cfg {} :=
  ⟨invHandedCorr_init, invCorr_init, invState_init, invIds_init, invRet_init, invHand0_init, invHand_init, invProg_init,
   invCancelMode_init cfg, invCancelCount_init, invEvents_init, invFifo_init, invDoneOnce_init⟩

theorem allInv_step (cfg : Cfg) (st : State) (ev : Ev) (st' : State) (hi : AllInv cfg st)
    (h : step cfg st ev = some st') : AllInv cfg st' :=
  ⟨invHandedCorr_step cfg st ev st' hi.corr hi.handedCorr h, invCorr_step cfg st ev st' hi.corr h, invState_step cfg st ev st' hi.state h,
   invIds_step cfg st ev st' hi.ids h, invRet_step cfg st ev st' hi.ret h,
   invHand0_step cfg st ev st' hi.hand0 h, invHand_step cfg st ev st' hi.state.2.2.2 hi.hand0 hi.hand h,
   invProg_step cfg st ev st' hi.prog h, invCancelMode_step cfg st ev st' hi.ids hi.cancelMode h,
   invCancelCount_step cfg st ev st' hi.state.2.2.2 hi.ids hi.cancelMode hi.cancelCount h,
   invEvents_step cfg st ev st' hi.events h, invFifo_step cfg st ev st' hi.fifo h,
   invDoneOnce_step cfg st ev st' hi.state.1 hi.doneOnce h⟩

theorem allInv_reachable (cfg : Cfg) (st : State) (h : Reachable cfg st) : AllInv cfg st :=
  reachable_invariant cfg (AllInv cfg) (allInv_init cfg) (allInv_step cfg) st h

end Nexus.Client.R
