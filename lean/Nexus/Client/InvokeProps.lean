/-
  Further facts about the invocation-worker model used by the C16/C17 theorems.  Proof file.
-/
import Nexus.Client.InvokeLemmas
import Nexus.Client.Witness

namespace Nexus.Client.I
open Nexus.Gen Nexus.Client

/-! ### answers bear the worker's request id -/

theorem invAnswerShape_step (cfg : Cfg) (st : State) (ev : Ev) (st' : State)
    (hf : InvFresh st) (hinv : InvAnswerShape st) (h : step cfg st ev = some st') : InvAnswerShape st' := by
  obtain ⟨hfr, hp, hk⟩ := hf
  unfold InvAnswerShape at hinv ⊢
  analyse_istep
  all_goals (try (have hfs := findLive_some hfl))
  all_goals (intro o ho b m hom)
  all_goals (try (simp [cleanup, afterResult, outerFinish, enqueue, create, answerFor] at *))
  all_goals (try (by_cases hq : (st.ws w).queue.length < cfg.queueCap <;> simp [hq] at *))
  all_goals (try (grind [answerFor]))
  all_goals (try (simp_all [cleanup, afterResult, outerFinish, enqueue, create, answerFor]))
  all_goals (try grind [answerFor])

/-! ### workers are created for new ids only; other ids are ignored -/

/-- A worker is started only by an INVOCATION that has a handler, passed the PPT handling, has no
    live worker for its (registration, request) and — the gate being in place — bears an id that
    `IsNewRecvID` accepts. -/
theorem worker_created_only_when_new (cfg : Cfg) (st : State) (ev : Ev) (st' : State)
    (h : step cfg st ev = some st') (hn : st'.n ≠ st.n) :
    ∃ i hasH, ev = .recvInvocation i hasH ∧ hasH = true ∧ st'.n = st.n + 1 ∧
      findLive st i.reg i.req st.n = none ∧
      (cfg.invGate = true → isNewRecvID st.lastRecv (UInt64.ofNat i.req) = true) := by
  analyse_istep
  all_goals (try (rw [hacc] at hn))
  all_goals (try (simp [cleanup, afterResult, outerFinish, enqueue, create] at hn))
  all_goals (try (by_cases hq : (st.ws w).queue.length < cfg.queueCap <;> simp [hq] at hn))
  all_goals (try (exact ⟨i, hasH, rfl, hh, by simp [create], hfl, hnew⟩))

/-- An INVOCATION whose id is not new and that has no live worker changes nothing (it is only
    noted as ignored): the duplicate / old id is discarded. -/
theorem stale_invocation_ignored (cfg : Cfg) (st : State) (i : Inv)
    (hg : cfg.invGate = true) (hold : isNewRecvID st.lastRecv (UInt64.ofNat i.req) = false)
    (hnl : findLive st i.reg i.req st.n = none) :
    accept cfg st i = st.emit (.ignored i.req) := by
  rcases accept_cases cfg st i with ⟨w, hw, _⟩ | ⟨w, hw, _⟩ | ⟨_, _, _, h⟩ | ⟨_, hnew, _⟩
  · rw [hnl] at hw; cases hw
  · rw [hnl] at hw; cases hw
  · exact h
  · rw [hnew hg] at hold; cases hold

/-- A further INVOCATION for a live worker whose final (non-progressive) message was already
    received is dropped: nothing changes (it is only noted). -/
theorem repeated_final_dropped (cfg : Cfg) (st : State) (i : Inv) (w : Nat)
    (hg : cfg.finalGate = true) (hl : findLive st i.reg i.req st.n = some w) (hf : (st.ws w).final = true) :
    accept cfg st i = st.emit (.repeated i.req) := by
  rcases accept_cases cfg st i with ⟨_, _, _, _, h⟩ | ⟨w', hw, hfin, _⟩ | ⟨hn, _⟩ | ⟨hn, _⟩
  · exact h
  · rw [hl] at hw; cases hw; rw [hfin hg] at hf; cases hf
  · rw [hl] at hn; cases hn
  · rw [hl] at hn; cases hn

/-- The loop can only come to wait for room in a worker's queue while that worker's invocation is
    still open (its final message not yet received): back-pressure of a progressive invocation. -/
theorem blocks_only_on_open_invocation (cfg : Cfg) (st : State) (i : Inv) (w : Nat) (j : Inv)
    (hg : cfg.finalGate = true) (hp : st.pendingSend = none)
    (h : (accept cfg st i).pendingSend = some (w, j)) : (st.ws w).final = false ∧ (st.ws w).live = true := by
  rcases accept_cases cfg st i with ⟨_, _, _, _, ha⟩ | ⟨w', hw, hfin, ha⟩ | ⟨_, _, _, ha⟩ | ⟨_, _, ha⟩
  · rw [ha] at h; simp [hp] at h
  · rw [ha] at h
    have hfs := findLive_some hw
    unfold enqueue at h
    simp only at h
    split at h
    · simp [hp] at h
    · simp at h
      obtain ⟨h1, _⟩ := h
      subst h1
      exact ⟨hfin hg, hfs.2.1⟩
  · rw [ha] at h; simp [hp] at h
  · rw [ha] at h; simp [create, hp] at h

/-! ### the queue wedge -/

/-- While the loop waits for room in the queue of worker `w` (handler running, queue full), only
    the return of that handler or the other cases of the select (`queueSendAbandon`: the worker's
    context ended, the session stopped receiving) end the wait. -/
theorem queue_blocked_until_handler_returns (cfg : Cfg) (st : State) (ev : Ev) (st' : State)
    (w : Nat) (i : Inv) (j : Inv)
    (hp : st.pendingSend = some (w, i)) (hfull : ¬ (st.ws w).queue.length < cfg.queueCap)
    (hrun : (st.ws w).inner = .running j)
    (hev : ∀ r d, ev ≠ .handlerReturn w r d) (hev2 : ev ≠ .queueSendAbandon)
    (h : step cfg st ev = some st') :
    st'.pendingSend = some (w, i) ∧ ¬ (st'.ws w).queue.length < cfg.queueCap ∧ (st'.ws w).inner = .running j := by
  unfold step at h
  split at h
  · simp at h
  cases ev <;> simp only at h
  case recvInvocation i' hh => simp [recvInvocation, hp] at h
  case recvInterrupt r => simp [hp] at h
  case queueSendAbandon => exact absurd rfl hev2
  case handlerReturn w' r d =>
    by_cases hww : w' = w
    · subst hww; exact absurd rfl (hev r d)
    · have hww' : ¬ w = w' := fun e => hww e.symm
      repeat' (split at h)
      all_goals (try (simp at h))
      all_goals (try subst h)
      all_goals (simp [hww, hww', cleanup, afterResult] at *)
      all_goals (try (simp [hww, hww', hp, hrun]))
      all_goals (try omega)
      all_goals (try grind)
  all_goals (
    repeat' (split at h)
    all_goals (try (simp at h))
    all_goals (try subst h)
    all_goals (try (simp [cleanup, afterResult, outerFinish] at *))
    all_goals (try (grind [cleanup, afterResult]))
    all_goals (try (split <;> simp_all [cleanup, afterResult]))
    all_goals (try (grind [cleanup, afterResult])))

/-- The other cases of the select: once the worker's context has ended (INTERRUPT processed earlier,
    the `timeout` detail) or the session has stopped receiving (Close forcing the loop out,
    `abortSession`), the loop leaves the wait. -/
theorem enqueue_escapes (cfg : Cfg) (st : State) (w : Nat) (i : Inv)
    (he : cfg.enqueueEscapes = true) (hc : st.crashed = none) (hp : st.pendingSend = some (w, i))
    (hx : (st.ws w).ctx.isSome = true ∨ st.recvDone = true) :
    ∃ st', step cfg st .queueSendAbandon = some st' ∧ st'.pendingSend = none := by
  refine ⟨{ st with pendingSend := none }.emit (.abandoned w i), ?_, rfl⟩
  rcases hx with hx | hx <;> simp [step, hc, hp, he, hx]

theorem today_final_gate : ({} : Cfg).finalGate = true := by decide
theorem today_enqueue_escapes : ({} : Cfg).enqueueEscapes = true := by decide

/-- The F42 witness (three INVOCATIONs with one request id while the handler runs the first) on
    today's code: the repeats are dropped, the loop is not blocked … -/
theorem dupInv_fixed :
    ((steps {} {} Witness.dupInv).map fun st => st.pendingSend.isNone && st.n == 1) = some true := by decide

/-- … whereas without the `invHandlersFinal` gate the third one blocked it. -/
theorem dupInv_old_blocks :
    ((steps { finalGate := false } {} Witness.dupInv).map fun st => st.pendingSend.isSome) = some true := by decide

/-- By design: progressive chunks arriving faster than the handler takes them make the loop wait. -/
theorem progChunks_block :
    ((steps {} {} Witness.progChunks).map fun st => st.pendingSend.isSome &&
      (match (st.ws 0).inner with | .running _ => true | _ => false)) = some true := by decide

/-! ### the invocations of one id go to one worker, in order -/

def Inv.matches (i : Inv) (x : Worker) : Prop := i.req = x.req ∧ i.reg = x.reg

/-- Everything queued for, pending for, or already handled by worker `w` carries `w`'s
    (registration, request). -/
def InvMatch (st : State) : Prop :=
  (∀ w, ∀ i ∈ (st.ws w).queue, i.matches (st.ws w)) ∧
  (∀ w, ∀ i ∈ (st.ws w).handled, i.matches (st.ws w)) ∧
  (∀ w i, st.pendingSend = some (w, i) → i.matches (st.ws w))

theorem invMatch_init : InvMatch {} := by
  refine ⟨?_, ?_, ?_⟩ <;> intros <;> simp_all

theorem invMatch_step (cfg : Cfg) (st : State) (ev : Ev) (st' : State)
    (hinv : InvMatch st) (h : step cfg st ev = some st') : InvMatch st' := by
  obtain ⟨hq, hh, hp⟩ := hinv
  analyse_istep
  all_goals (try (have hfs := findLive_some hfl))
  all_goals (refine ⟨?_, ?_, ?_⟩)
  all_goals intros
  all_goals (try (simp [cleanup, afterResult, outerFinish, enqueue, create, Inv.matches] at *))
  all_goals (try (by_cases hq' : (st.ws w).queue.length < cfg.queueCap <;> simp [hq'] at *))
  all_goals (try (grind [cleanup, afterResult, Inv.matches]))
  all_goals (try (split <;> simp_all [cleanup, afterResult, Inv.matches]))
  all_goals (try (simp_all [cleanup, afterResult, outerFinish, enqueue, create, Inv.matches]))
  all_goals (try grind [cleanup, afterResult, Inv.matches])

/-- The queue is FIFO: the handler is given the oldest queued invocation … -/
theorem innerTake_takes_head (cfg : Cfg) (st st' : State) (w : Nat)
    (h : step cfg st (.innerTake w) = some st') :
    ∃ i rest, (st.ws w).queue = i :: rest ∧ (st'.ws w).queue = rest ∧ (st'.ws w).handled = i :: (st.ws w).handled := by
  unfold step at h
  split at h
  · simp at h
  simp only at h
  repeat' (split at h)
  all_goals (try (simp at h))
  all_goals (try subst h)
  rename_i i rest _ hq _
  exact ⟨i, rest, hq, by simp, by simp⟩

/-- … and a further INVOCATION for a live worker goes to the tail of that worker's queue. -/
theorem enqueue_appends (cfg : Cfg) (st : State) (w : Nat) (i : Inv)
    (hroom : (st.ws w).queue.length < cfg.queueCap) :
    ((enqueue cfg st w i).ws w).queue = (st.ws w).queue ++ [i] ∧
    ∀ w', w' ≠ w → (enqueue cfg st w i).ws w' = st.ws w' := by
  simp [enqueue, hroom]
  intro w' hw; simp [hw]

/-! ### what the handler is given is a prefix of what was accepted -/

/-- History-level: for every worker (= one invocation id), the sequence of INVOCATION messages given
    to the handler so far is a prefix of the sequence accepted from the router for it (both ghost
    logs are newest first); while the worker is live the difference is exactly its queue, in
    order; a worker that has stopped reading never takes another message. -/
def InvPrefix (st : State) : Prop :=
  (∀ w, (st.ws w).live = true → (st.ws w).accepted = (st.ws w).queue.reverse ++ (st.ws w).handled) ∧
  (∀ w, ∃ rest, (st.ws w).accepted = rest ++ (st.ws w).handled) ∧
  (∀ w, w < st.n → (st.ws w).live = false → (match (st.ws w).inner with | .exited => True | _ => False))

theorem invPrefix_init : InvPrefix {} := by
  refine ⟨?_, ?_, ?_⟩ <;> intros <;> simp_all

theorem invPrefix_step (cfg : Cfg) (st : State) (ev : Ev) (st' : State) (hl : InvLive st)
    (hinv : InvPrefix st) (h : step cfg st ev = some st') : InvPrefix st' := by
  obtain ⟨ha, hb, hx⟩ := hinv
  obtain ⟨hl1, hl2⟩ := hl
  analyse_istep
  all_goals (try (have hfs := findLive_some hfl))
  all_goals (refine ⟨?_, ?_, ?_⟩)
  all_goals intro w0
  all_goals (have ha0 := ha w0; have hb0 := hb w0; have hx0 := hx w0)
  all_goals (try (simp [cleanup, afterResult, outerFinish, enqueue, create, State.setW, State.emit] at *))
  all_goals (try (by_cases hq' : (st.ws w).queue.length < cfg.queueCap <;> simp [hq'] at *))
  all_goals (try (by_cases hw : w0 = w <;> simp [hw] at *))
  all_goals (try (grind [cleanup, afterResult]))
  all_goals (try (by_cases hn : w0 = st.n <;> simp [hn] at *))
  all_goals (try (exact hb0))
  all_goals (try (grind [cleanup, afterResult]))

/-! ### SendProgress -/

/-- `SendProgress` gets past its lookups only for an invocation whose caller asked for progressive
    results (the request id is in the handler's context and in `progGate`). -/
def InvSp (st : State) : Prop := ∀ w, (st.ws w).spArmed = true → (st.ws w).progOK = true ∧ w < st.n

theorem invSp_init : InvSp {} := by intro w h; simp at h

theorem invSp_step (cfg : Cfg) (st : State) (ev : Ev) (st' : State) (hf : InvFresh st)
    (hinv : InvSp st) (h : step cfg st ev = some st') : InvSp st' := by
  have hfn := hf.1 st.n (Nat.le_refl _)
  analyse_istep
  all_goals (try (have hfs := findLive_some hfl))
  all_goals (intro w0 hw0; have h0 := hinv w0)
  all_goals (try (simp [cleanup, afterResult, outerFinish, enqueue, create, State.setW, State.emit] at *))
  all_goals (try (by_cases hq' : (st.ws w).queue.length < cfg.queueCap <;> simp [hq'] at *))
  all_goals (try (by_cases hw : w0 = w <;> simp [hw] at *))
  all_goals (try (grind [cleanup, afterResult]))
  all_goals (try (by_cases hn : w0 = st.n <;> simp [hn] at *))
  all_goals (try (grind [cleanup, afterResult]))
  all_goals (
    by_cases hlt : w0 < st.n
    · split <;> simp_all
    · have hz := hf.1 w0 (by omega)
      split <;> simp_all)

/-- The YIELD of `SendProgress` carries the invocation's request id and `progress: true`. -/
theorem spSend_sends (cfg : Cfg) (st st' : State) (w : Nat) (h : step cfg st (.spSend w) = some st') :
    st'.out = .progressSent w :: .send (.yield (st.ws w).req true) :: st.out := by
  unfold step at h
  split at h
  · simp at h
  simp only at h
  split at h <;> simp at h
  subst h
  simp [State.emit, State.setW]

/-- A handler calling `SendProgress` for a caller that did not ask for progressive results, or after
    the gate was removed (the invocation was answered), is refused and nothing is sent. -/
theorem spCheck_refuses (cfg : Cfg) (st st' : State) (w : Nat)
    (hg : ((st.ws w).progOK && st.progGate (st.ws w).req) = false)
    (h : step cfg st (.spCheck w) = some st') : st' = st.emit (.progressRefused w) := by
  unfold step at h
  split at h
  · simp at h
  simp only at h
  split at h
  · split at h
    · simp at h
    · simp only [hg] at h
      simpa using h.symm
  · simp at h

/-- Race (observation): a handler that ignores its cancelled context and is inside `SendProgress`, past
    the gate lookup, when the worker answers the INTERRUPT with ERROR: its progressive YIELD follows
    the invocation's ERROR. -/
def progressAfterAnswer : List Ev :=
  [.recvInvocation { req := 7, reg := 3, details := [(N.OptReceiveProgress, .bool true)] } true, .innerTake 0,
   .spCheck 0, .recvInterrupt 7, .outerCtx 0, .outerAnswer 0 false, .spSend 0]

theorem progress_after_answer_possible :
    (steps {} {} progressAfterAnswer).map (fun st => st.out.filterMap fun o => match o with | .send m => some m | _ => none) =
      some [.yield 7 true, .error tINVOCATION 7 N.ErrCanceled] := by decide

/-! ### all invariants, for every reachable state -/

structure AllInv (st : State) : Prop where
  live : InvLive st
  fresh : InvFresh st
  answer : InvAnswer st
  shape : InvAnswerShape st
  matching : InvMatch st
  prefix_ : InvPrefix st
  sp : InvSp st

theorem allInv_init : AllInv {} :=
  ⟨invLive_init, invFresh_init, invAnswer_init, invAnswerShape_init, invMatch_init, invPrefix_init, invSp_init⟩

theorem allInv_step (cfg : Cfg) (st : State) (ev : Ev) (st' : State) (hi : AllInv st)
    (h : step cfg st ev = some st') : AllInv st' :=
  ⟨invLive_step cfg st ev st' hi.live h, invFresh_step cfg st ev st' hi.fresh h,
   invAnswer_step cfg st ev st' hi.live hi.fresh hi.answer h,
   invAnswerShape_step cfg st ev st' hi.fresh hi.shape h, invMatch_step cfg st ev st' hi.matching h,
   invPrefix_step cfg st ev st' hi.live hi.prefix_ h, invSp_step cfg st ev st' hi.fresh hi.sp h⟩

theorem allInv_reachable (cfg : Cfg) (st : State) (h : Reachable cfg st) : AllInv st :=
  reachable_invariant cfg AllInv allInv_init (allInv_step cfg) st h

end Nexus.Client.I
