/-
  Invariants of the rendezvous model that speak about the output log (what was handed to which
  waiter, what each call returned, which progress results the handler saw, which CANCELs went
  out), for every reachable state.  Proof file.
-/
import Nexus.Client.RendezvousWf
import Nexus.Client.RendezvousIds

namespace Nexus.Client.R
open Nexus.Gen Nexus.Client

def isRet (g : Nat) : Out → Bool
  | .ret g' _ => g' == g
  | _ => false

def isHanded (g : Nat) : Out → Bool
  | .handed g' _ => g' == g
  | _ => false

def isProgress (g : Nat) : Out → Bool
  | .progress g' _ => g' == g
  | _ => false

def isCancelFor (r : Nat) : Out → Bool
  | .send (.cancel r' _) => r' == r
  | _ => false

def Phase.early : Phase → Bool
  | .idle | .pending | .waiting => true
  | _ => false

def Phase.isReturned : Phase → Bool
  | .returned _ => true
  | _ => false

@[simp] theorem isRet_send (g : Nat) (m : CMsg) : isRet g (.send m) = false := rfl
@[simp] theorem isRet_ret (g : Nat) (g' : Nat) (r : Ret) : isRet g (.ret g' r) = (g' == g) := rfl
@[simp] theorem isRet_handed (g : Nat) (g' : Nat) (m : RMsg) : isRet g (.handed g' m) = false := rfl
@[simp] theorem isRet_progress (g : Nat) (g' : Nat) (m : RMsg) : isRet g (.progress g' m) = false := rfl
@[simp] theorem isRet_recv (g : Nat) (m : RMsg) : isRet g (.recv m) = false := rfl
@[simp] theorem isRet_unclaimed (g : Nat) (m : RMsg) : isRet g (.unclaimed m) = false := rfl
@[simp] theorem isRet_eventStart (g : Nat) (s p : Nat) (a : List Val) (k : Dict) : isRet g (.eventStart s p a k) = false := rfl
@[simp] theorem isRet_eventEnd (g : Nat)  : isRet g Out.eventEnd = false := rfl
@[simp] theorem isRet_eventDropped (g : Nat) (s : Nat) : isRet g (.eventDropped s) = false := rfl
@[simp] theorem isRet_unhandled (g : Nat) (t : Nat) : isRet g (.unhandled t) = false := rfl
@[simp] theorem isRet_toWorker (g : Nat) (m : RMsg) : isRet g (.toWorker m) = false := rfl
@[simp] theorem isRet_done (g : Nat)  : isRet g Out.done = false := rfl
@[simp] theorem isRet_closeReturned (g : Nat)  : isRet g Out.closeReturned = false := rfl
@[simp] theorem isHanded_send (g : Nat) (m : CMsg) : isHanded g (.send m) = false := rfl
@[simp] theorem isHanded_ret (g : Nat) (g' : Nat) (r : Ret) : isHanded g (.ret g' r) = false := rfl
@[simp] theorem isHanded_handed (g : Nat) (g' : Nat) (m : RMsg) : isHanded g (.handed g' m) = (g' == g) := rfl
@[simp] theorem isHanded_progress (g : Nat) (g' : Nat) (m : RMsg) : isHanded g (.progress g' m) = false := rfl
@[simp] theorem isHanded_recv (g : Nat) (m : RMsg) : isHanded g (.recv m) = false := rfl
@[simp] theorem isHanded_unclaimed (g : Nat) (m : RMsg) : isHanded g (.unclaimed m) = false := rfl
@[simp] theorem isHanded_eventStart (g : Nat) (s p : Nat) (a : List Val) (k : Dict) : isHanded g (.eventStart s p a k) = false := rfl
@[simp] theorem isHanded_eventEnd (g : Nat)  : isHanded g Out.eventEnd = false := rfl
@[simp] theorem isHanded_eventDropped (g : Nat) (s : Nat) : isHanded g (.eventDropped s) = false := rfl
@[simp] theorem isHanded_unhandled (g : Nat) (t : Nat) : isHanded g (.unhandled t) = false := rfl
@[simp] theorem isHanded_toWorker (g : Nat) (m : RMsg) : isHanded g (.toWorker m) = false := rfl
@[simp] theorem isHanded_done (g : Nat)  : isHanded g Out.done = false := rfl
@[simp] theorem isHanded_closeReturned (g : Nat)  : isHanded g Out.closeReturned = false := rfl
@[simp] theorem isProgress_send (g : Nat) (m : CMsg) : isProgress g (.send m) = false := rfl
@[simp] theorem isProgress_ret (g : Nat) (g' : Nat) (r : Ret) : isProgress g (.ret g' r) = false := rfl
@[simp] theorem isProgress_handed (g : Nat) (g' : Nat) (m : RMsg) : isProgress g (.handed g' m) = false := rfl
@[simp] theorem isProgress_progress (g : Nat) (g' : Nat) (m : RMsg) : isProgress g (.progress g' m) = (g' == g) := rfl
@[simp] theorem isProgress_recv (g : Nat) (m : RMsg) : isProgress g (.recv m) = false := rfl
@[simp] theorem isProgress_unclaimed (g : Nat) (m : RMsg) : isProgress g (.unclaimed m) = false := rfl
@[simp] theorem isProgress_eventStart (g : Nat) (s p : Nat) (a : List Val) (k : Dict) : isProgress g (.eventStart s p a k) = false := rfl
@[simp] theorem isProgress_eventEnd (g : Nat)  : isProgress g Out.eventEnd = false := rfl
@[simp] theorem isProgress_eventDropped (g : Nat) (s : Nat) : isProgress g (.eventDropped s) = false := rfl
@[simp] theorem isProgress_unhandled (g : Nat) (t : Nat) : isProgress g (.unhandled t) = false := rfl
@[simp] theorem isProgress_toWorker (g : Nat) (m : RMsg) : isProgress g (.toWorker m) = false := rfl
@[simp] theorem isProgress_done (g : Nat)  : isProgress g Out.done = false := rfl
@[simp] theorem isProgress_closeReturned (g : Nat)  : isProgress g Out.closeReturned = false := rfl
@[simp] theorem isCancelFor_send_cancel (r r' : Nat) (mode : String) : isCancelFor r (.send (.cancel r' mode)) = (r' == r) := rfl
@[simp] theorem isCancelFor_ret (q : Nat) (g' : Nat) (r : Ret) : isCancelFor q (.ret g' r) = false := rfl
@[simp] theorem isCancelFor_handed (r : Nat) (g' : Nat) (m : RMsg) : isCancelFor r (.handed g' m) = false := rfl
@[simp] theorem isCancelFor_progress (r : Nat) (g' : Nat) (m : RMsg) : isCancelFor r (.progress g' m) = false := rfl
@[simp] theorem isCancelFor_recv (r : Nat) (m : RMsg) : isCancelFor r (.recv m) = false := rfl
@[simp] theorem isCancelFor_unclaimed (r : Nat) (m : RMsg) : isCancelFor r (.unclaimed m) = false := rfl
@[simp] theorem isCancelFor_eventStart (r : Nat) (s p : Nat) (a : List Val) (k : Dict) : isCancelFor r (.eventStart s p a k) = false := rfl
@[simp] theorem isCancelFor_eventEnd (r : Nat)  : isCancelFor r Out.eventEnd = false := rfl
@[simp] theorem isCancelFor_eventDropped (r : Nat) (s : Nat) : isCancelFor r (.eventDropped s) = false := rfl
@[simp] theorem isCancelFor_unhandled (r : Nat) (t : Nat) : isCancelFor r (.unhandled t) = false := rfl
@[simp] theorem isCancelFor_toWorker (r : Nat) (m : RMsg) : isCancelFor r (.toWorker m) = false := rfl
@[simp] theorem isCancelFor_done (r : Nat)  : isCancelFor r Out.done = false := rfl
@[simp] theorem isCancelFor_closeReturned (r : Nat)  : isCancelFor r Out.closeReturned = false := rfl

/-- A call whose waiter is not in phase `returned` has no `ret` in the log. -/
theorem no_ret_of_not_returned {st : State}
    (hc1 : ∀ g, List.countP (isRet g) st.out = if (st.ws g).phase.isReturned then 1 else 0)
    (g : Nat) (hg : (st.ws g).phase.isReturned = false) : List.countP (isRet g) st.out = 0 := by
  rw [hc1 g, hg]; rfl

/-- Nothing is handed to a waiter, and its progress handler is not called, once `ret g` is logged
    (the log is newest first). -/
def quietAfterRet : List Out → Prop
  | [] => True
  | o :: rest => quietAfterRet rest ∧
      ∀ g, (isHanded g o = true ∨ isProgress g o = true) → List.countP (isRet g) rest = 0

/-- Each API call returns at most once, exactly when its waiter is in phase `returned`; after that
    nothing reaches it any more. -/
def InvRet (st : State) : Prop :=
  (∀ g, List.countP (isRet g) st.out = if (st.ws g).phase.isReturned then 1 else 0) ∧
  quietAfterRet st.out

theorem invRet_init : InvRet {} := by
  constructor
  · intro g; simp [Phase.isReturned]
  · simp [quietAfterRet]

set_option hygiene false in
macro "log_close" : tactic => `(tactic| (
  split_mod
  all_goals (try (simp [returnNow, startRequest, fireAndForget, State.nextId, quietAfterRet,
    Phase.isReturned, Phase.early, List.countP_cons, -List.countP_eq_zero] at *))
  all_goals (try (simp only [hws, haw, hrun, hout] at *))
  all_goals (try (grind [Phase.isReturned, Waiter.wf]))
  all_goals (try (simp_all [quietAfterRet, Phase.isReturned, Phase.early, List.countP_cons, -List.countP_eq_zero]))
  all_goals (try grind [Phase.isReturned, Waiter.wf])))

theorem invRet_step (cfg : Cfg) (st : State) (ev : Ev) (st' : State)
    (hinv : InvRet st) (h : step cfg st ev = some st') : InvRet st' := by
  obtain ⟨hc1, hq⟩ := hinv
  analyse_step
  all_goals (refine ⟨?_, ?_⟩)
  all_goals log_close

/-! ### at most one reply for the single-reply operations -/

/-- Everything but Call takes exactly one message from its reply channel. -/
def InvHand (st : State) : Prop :=
  ∀ g, (st.ws g).op ≠ .call →
    List.countP (isHanded g) st.out ≤ 1 ∧ ((st.ws g).phase.early = true → List.countP (isHanded g) st.out = 0)

/-- Nothing was handed to a call that has not started. -/
def InvHand0 (st : State) : Prop :=
  ∀ g, (st.ws g).phase = .idle → List.countP (isHanded g) st.out = 0 ∧ List.countP (isProgress g) st.out = 0

theorem invHand0_init : InvHand0 {} := by intro g _; simp
theorem invHand_init : InvHand {} := by intro g _; simp

theorem invHand0_step (cfg : Cfg) (st : State) (ev : Ev) (st' : State)
    (h0 : InvHand0 st) (h : step cfg st ev = some st') : InvHand0 st' := by
  analyse_step
  all_goals (intro b hb; have h0b := h0 b)
  all_goals log_close

theorem invHand_step (cfg : Cfg) (st : State) (ev : Ev) (st' : State)
    (hw : ∀ g, (st.ws g).wf) (h0 : InvHand0 st) (hinv : InvHand st) (h : step cfg st ev = some st') : InvHand st' := by
  analyse_step
  all_goals (intro b hb; have hib := hinv b; have hwb := hw b; have h0b := h0 b)
  all_goals log_close

/-! ### progress results reach the handler in the order they were handed over -/

def handedMsgs (g : Nat) : List Out → List RMsg
  | [] => []
  | .handed g' m :: rest => if g' = g then m :: handedMsgs g rest else handedMsgs g rest
  | _ :: rest => handedMsgs g rest

def progressMsgs (g : Nat) : List Out → List RMsg
  | [] => []
  | .progress g' m :: rest => if g' = g then m :: progressMsgs g rest else progressMsgs g rest
  | _ :: rest => progressMsgs g rest

/-- The progressive result a waiter is about to pass to the progress goroutine. -/
def Phase.pendingProg : Phase → List RMsg
  | .progSending m => [m]
  | _ => []

@[simp] theorem pendingProg_idle : Phase.idle.pendingProg = [] := rfl
@[simp] theorem pendingProg_pending : Phase.pending.pendingProg = [] := rfl
@[simp] theorem pendingProg_waiting : Phase.waiting.pendingProg = [] := rfl
@[simp] theorem pendingProg_progSending (m : RMsg) : (Phase.progSending m).pendingProg = [m] := rfl
@[simp] theorem pendingProg_cancelWaiting (k : CtxKind) : (Phase.cancelWaiting k).pendingProg = [] := rfl
@[simp] theorem pendingProg_finishing (r : Ret) : (Phase.finishing r).pendingProg = [] := rfl
@[simp] theorem pendingProg_closing (r : Ret) : (Phase.closing r).pendingProg = [] := rfl
@[simp] theorem pendingProg_returned (r : Ret) : (Phase.returned r).pendingProg = [] := rfl

/-- What the progress handler of call `g` has seen (plus the result its waiter is about to pass on)
    is a subsequence, in order, of what was handed to the waiter. -/
def InvProg (st : State) : Prop :=
  ∀ g, ((st.ws g).phase.pendingProg ++ progressMsgs g st.out).Sublist (handedMsgs g st.out)

theorem invProg_init : InvProg {} := by
  intro g; simp [progressMsgs, handedMsgs]

set_option hygiene false in
macro "prog_close" : tactic => `(tactic| (
  split_mod
  all_goals (try (simp [returnNow, startRequest, fireAndForget, State.nextId, progressMsgs, handedMsgs] at *))
  all_goals (try (simp only [hws, haw, hrun, hout] at *))
  all_goals (try (simp [progressMsgs, handedMsgs] at *))
  all_goals (try (split <;> simp_all [progressMsgs, handedMsgs]))
  all_goals (try (simp_all [progressMsgs, handedMsgs]))
  all_goals (try (first | exact List.Sublist.cons _ hib | exact List.Sublist.cons₂ _ hib))))

theorem invProg_step (cfg : Cfg) (st : State) (ev : Ev) (st' : State)
    (hinv : InvProg st) (h : step cfg st ev = some st') : InvProg st' := by
  analyse_step
  all_goals (intro b; have hib := hinv b)
  all_goals prog_close
  all_goals (
    split <;> rename_i hbg
    · subst hbg
      simp_all
      all_goals (first
      | exact hib
      | exact List.Sublist.cons _ hib
      | exact List.Sublist.cons₂ _ hib)
    · have hgb : ¬ _ = b := fun e => hbg e.symm
      simp_all)

/-! ### CANCEL: configured mode, exactly one per call whose context ended while it was waiting -/

def cancelsOf : List Out → List (Nat × String)
  | [] => []
  | .send (.cancel r mode) :: rest => (r, mode) :: cancelsOf rest
  | _ :: rest => cancelsOf rest

@[simp] theorem isCancelFor_send_subscribe (r : Nat) (q : Nat) (t : String) : isCancelFor r (.send (.subscribe q t)) = false := rfl
@[simp] theorem cancelsOf_send_subscribe (q : Nat) (t : String) (rest : List Out) : cancelsOf (.send (.subscribe q t) :: rest) = cancelsOf rest := rfl
@[simp] theorem isCancelFor_send_unsubscribe (r : Nat) (q s : Nat) : isCancelFor r (.send (.unsubscribe q s)) = false := rfl
@[simp] theorem cancelsOf_send_unsubscribe (q s : Nat) (rest : List Out) : cancelsOf (.send (.unsubscribe q s) :: rest) = cancelsOf rest := rfl
@[simp] theorem isCancelFor_send_publish (r : Nat) (q : Nat) (t : String) (a : Bool) : isCancelFor r (.send (.publish q t a)) = false := rfl
@[simp] theorem cancelsOf_send_publish (q : Nat) (t : String) (a : Bool) (rest : List Out) : cancelsOf (.send (.publish q t a) :: rest) = cancelsOf rest := rfl
@[simp] theorem isCancelFor_send_register (r : Nat) (q : Nat) (t : String) : isCancelFor r (.send (.register q t)) = false := rfl
@[simp] theorem cancelsOf_send_register (q : Nat) (t : String) (rest : List Out) : cancelsOf (.send (.register q t) :: rest) = cancelsOf rest := rfl
@[simp] theorem isCancelFor_send_unregister (r : Nat) (q s : Nat) : isCancelFor r (.send (.unregister q s)) = false := rfl
@[simp] theorem cancelsOf_send_unregister (q s : Nat) (rest : List Out) : cancelsOf (.send (.unregister q s) :: rest) = cancelsOf rest := rfl
@[simp] theorem isCancelFor_send_call (r : Nat) (q : Nat) (t : String) (a : Bool) : isCancelFor r (.send (.call q t a)) = false := rfl
@[simp] theorem cancelsOf_send_call (q : Nat) (t : String) (a : Bool) (rest : List Out) : cancelsOf (.send (.call q t a) :: rest) = cancelsOf rest := rfl
@[simp] theorem isCancelFor_send_yield (r : Nat) (q : Nat) (a : Bool) : isCancelFor r (.send (.yield q a)) = false := rfl
@[simp] theorem cancelsOf_send_yield (q : Nat) (a : Bool) (rest : List Out) : cancelsOf (.send (.yield q a) :: rest) = cancelsOf rest := rfl
@[simp] theorem isCancelFor_send_error (r : Nat) (t q : Nat) (e : String) : isCancelFor r (.send (.error t q e)) = false := rfl
@[simp] theorem cancelsOf_send_error (t q : Nat) (e : String) (rest : List Out) : cancelsOf (.send (.error t q e) :: rest) = cancelsOf rest := rfl
@[simp] theorem isCancelFor_send_goodbye (r : Nat) (e : String) : isCancelFor r (.send (.goodbye e)) = false := rfl
@[simp] theorem cancelsOf_send_goodbye (e : String) (rest : List Out) : cancelsOf (.send (.goodbye e) :: rest) = cancelsOf rest := rfl
@[simp] theorem isCancelFor_send_abort (r : Nat) (e : String) : isCancelFor r (.send (.abort e)) = false := rfl
@[simp] theorem cancelsOf_send_abort (e : String) (rest : List Out) : cancelsOf (.send (.abort e) :: rest) = cancelsOf rest := rfl

@[simp] theorem cancelsOf_request (op : OpKind) (id : Nat) (name : String) (x : Nat) (prog : Bool) (rest : List Out) :
    cancelsOf (.send (requestMsg op id name x prog) :: rest) = cancelsOf rest := by
  cases op <;> rfl

@[simp] theorem isCancelFor_request (r : Nat) (op : OpKind) (id : Nat) (name : String) (x : Nat) (prog : Bool) :
    isCancelFor r (.send (requestMsg op id name x prog)) = false := by
  cases op <;> rfl

/-- Every CANCEL sent carries the configured mode and the id of a request drawn so far. -/
def InvCancelMode (cfg : Cfg) (st : State) : Prop :=
  st.drawn < 2 ^ 53 → ∀ p ∈ cancelsOf st.out, p.2 = cfg.cancelMode ∧ p.1 ≤ st.drawn

theorem invCancelMode_init (cfg : Cfg) : InvCancelMode cfg {} := by
  intro _ p hp; simp [cancelsOf] at hp

set_option hygiene false in
macro "cancel_close" : tactic => `(tactic| (
  split_mod
  all_goals (try (simp [returnNow, startRequest, fireAndForget, State.nextId, cancelsOf, List.countP_cons,
    -List.countP_eq_zero] at *))
  all_goals (try (simp only [hws, haw, hrun, hout, hdrawn, hidg] at *))
  all_goals (try (simp [cancelsOf, List.countP_cons, -List.countP_eq_zero] at *))
  all_goals (try (grind [Waiter.wf]))
  all_goals (try (simp_all [cancelsOf, List.countP_cons, -List.countP_eq_zero]))
  all_goals (try grind [Waiter.wf])))

theorem invCancelMode_step (cfg : Cfg) (st : State) (ev : Ev) (st' : State)
    (hids : InvIds st) (hinv : InvCancelMode cfg st) (h : step cfg st ev = some st') : InvCancelMode cfg st' := by
  intro hb
  have hmono := drawn_mono cfg st ev st' h
  have hi := hinv (by omega)
  obtain ⟨_, hle, _, _⟩ := hids (by omega)
  clear hmono hinv hids
  analyse_step
  all_goals (intro p hp)
  all_goals cancel_close

/-- No CANCEL in the log names an id above every id it mentions. -/
theorem count_cancel_fresh (out : List Out) (d r : Nat) (h : ∀ p ∈ cancelsOf out, p.1 ≤ d) (hr : d < r) :
    List.countP (isCancelFor r) out = 0 := by
  induction out with
  | nil => rfl
  | cons o rest ih =>
    rw [List.countP_cons]
    cases o with
    | send m =>
      cases m with
      | cancel r' mode =>
        have h1 := h (r', mode) (by simp [cancelsOf])
        have : (r' == r) = false := by simp; omega
        simp only [isCancelFor_send_cancel, this, Bool.false_eq_true, if_false, Nat.add_zero]
        exact ih (fun p hp => h p (by simp [cancelsOf, hp]))
      | _ => simpa [isCancelFor, -List.countP_eq_zero] using ih (fun p hp => h p (by simpa [cancelsOf] using hp))
    | _ => simpa [-List.countP_eq_zero] using ih (fun p hp => h p (by simpa [cancelsOf] using hp))

end Nexus.Client.R
