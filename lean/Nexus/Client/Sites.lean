/-
  Client model: the hand-written account of every place in client/*.go (non-test) where a bare
  type assertion or an unchecked index could panic.  `Nexus.C17.sites_accounted` decides that
  every row of the REGENERATED table `Nexus.Gen.Client.sites` is matched here, so a new bare
  assertion in client code breaks the build of `Nexus.Props.C17` until it is modelled.

  `how`:
    * `guarded` — unreachable: `args[0]` after the function's leading `if len(args) == 0 { return … }`
                  (the extractor verifies the guard and that `args` is never reassigned);
    * `ranged`  — unreachable: the index variable is the key of the enclosing `for i := range`
                  over the indexed slice (or over a slice of the same length);
    * `user`    — the value comes from the application (options passed to Publish/Call, the map a
                  SendProgressiveData callback returns), never from the router: outside C17.

  Since fix 652e15e no bare site on router-supplied data is left; `modelSites` lists the places
  where the PPT model would panic if the table listed them as bare again.
-/
import Nexus.Client.Ppt

namespace Nexus.Client
open Nexus.Gen

inductive How where
  | guarded
  | ranged
  | user (why : String)
  deriving Repr, DecidableEq

structure Accounted where
  fn : String
  kind : String
  expr : String
  how : How
  deriving Repr

def accounted : List Accounted := [
  { fn := "unpackPPTPayload", kind := "index-guarded", expr := "args[0]", how := .guarded },
  { fn := "unpackE2EEPayload", kind := "index-guarded", expr := "args[0]", how := .guarded },
  { fn := "wampErrorString", kind := "index-ranged", expr := "werr.Arguments[i]", how := .ranged },
  { fn := "wampErrorString", kind := "index-ranged", expr := "args[i]", how := .ranged },
  { fn := "packE2EEPayload", kind := "assert", expr := "options[wamp.OptPPTSerializer].(string)",
    how := .user "options of Publish/Call or of an invocation handler's result" },
  { fn := "CallProgressive", kind := "assert", expr := "cliOptions[wamp.OptProgress].(bool)",
    how := .user "options returned by the application's SendProgressiveData callback" }]

def siteAccounted (s : Client.Site) : Bool :=
  accounted.any fun a => a.fn == s.fn && a.kind == s.kind && a.expr == s.expr

/-- Every place where the PPT model consults the table, as (fn, kind, expr). -/
def modelSites : List (String × String × String) := [
  ("unpackPPTPayload", "assert", "pptSerializerStr.(string)"),
  ("unpackPPTPayload", "index", "args[0]"),
  ("unpackPPTPayload", "assert", "args[0].([]byte)"),
  ("unpackPPTPayload", "assert", "args[0].(*wamp.PassthruPayload)"),
  ("unpackE2EEPayload", "assert", "details[wamp.OptPPTSerializer].(string)"),
  ("unpackE2EEPayload", "index", "args[0]"),
  ("unpackE2EEPayload", "assert", "args[0].([]byte)")]

/-- No model site is bare, and the payload pointer is nil-checked. -/
def PptFacts.clean (F : PptFacts) : Prop :=
  (∀ p ∈ modelSites, F.bare p.1 p.2.1 p.2.2 = false) ∧ F.nilChecked = true

end Nexus.Client
