/-
  Client model: the hand-written account of every place in client/*.go (non-test) where a bare
  type assertion or an unchecked index could panic.  `Nexus.C17.sites_accounted` decides that
  every row of the REGENERATED table `Nexus.Gen.Client.sites` is matched here, so a new bare
  assertion in client code breaks the build of `Nexus.Props.C17` until it is modelled.

  `how`:
    * `panic`  — the model function `fn'` returns `Outcome.panic (siteText fn kind expr)` there
                 (`modelSites` lists them; `Nexus.C17.model_sites_reachable` exhibits an input each);
    * `ranged` — unreachable: the index variable is the key of the enclosing `for i := range`
                 over the indexed slice (or over a slice of the same length);
    * `user`   — the value comes from the application (options passed to Publish/Call, the map a
                 SendProgressiveData callback returns), never from the router: outside C17.
-/
import Nexus.Client.Ppt

namespace Nexus.Client
open Nexus.Gen

inductive How where
  | panic (modelFn : String)
  | ranged
  | user (why : String)
  deriving Repr, DecidableEq

structure Accounted where
  fn : String
  kind : String
  expr : String
  how : How
  deriving Repr

def accounted : List Accounted := [
  { fn := "unpackPPTPayload", kind := "assert", expr := "pptSerializerStr.(string)", how := .panic "unpackPPTPayload" },
  { fn := "unpackPPTPayload", kind := "index", expr := "args[0]", how := .panic "unpackPPTPayload" },
  { fn := "unpackPPTPayload", kind := "assert", expr := "args[0].([]byte)", how := .panic "unpackPPTPayload" },
  { fn := "unpackPPTPayload", kind := "assert", expr := "args[0].(*wamp.PassthruPayload)", how := .panic "unpackPPTPayload" },
  { fn := "unpackE2EEPayload", kind := "assert", expr := "details[wamp.OptPPTSerializer].(string)", how := .panic "unpackE2EEPayload" },
  { fn := "unpackE2EEPayload", kind := "index", expr := "args[0]", how := .panic "unpackE2EEPayload" },
  { fn := "unpackE2EEPayload", kind := "assert", expr := "args[0].([]byte)", how := .panic "unpackE2EEPayload" },
  { fn := "wampErrorString", kind := "index-ranged", expr := "werr.Arguments[i]", how := .ranged },
  { fn := "wampErrorString", kind := "index-ranged", expr := "args[i]", how := .ranged },
  { fn := "packE2EEPayload", kind := "assert", expr := "options[wamp.OptPPTSerializer].(string)",
    how := .user "options of Publish/Call or of an invocation handler's result" },
  { fn := "CallProgressive", kind := "assert", expr := "cliOptions[wamp.OptProgress].(bool)",
    how := .user "options returned by the application's SendProgressiveData callback" }]

def siteAccounted (s : Client.Site) : Bool :=
  accounted.any fun a => a.fn == s.fn && a.kind == s.kind && a.expr == s.expr

/-- Every panic text the PPT model can produce, as (fn, kind, expr). -/
def modelSites : List (String × String × String) := [
  ("unpackPPTPayload", "assert", "pptSerializerStr.(string)"),
  ("unpackPPTPayload", "index", "args[0]"),
  ("unpackPPTPayload", "assert", "args[0].([]byte)"),
  ("unpackPPTPayload", "assert", "args[0].(*wamp.PassthruPayload)"),
  ("unpackPPTPayload", "deref", nilDeref),
  ("unpackE2EEPayload", "assert", "details[wamp.OptPPTSerializer].(string)"),
  ("unpackE2EEPayload", "index", "args[0]"),
  ("unpackE2EEPayload", "assert", "args[0].([]byte)")]

/-- A model site is backed by a row of the regenerated table (the nil dereference is neither an
    assertion nor an index, so the extractor does not list it). -/
def modelSiteInTable (p : String × String × String) : Bool :=
  p.2.1 == "deref" || Client.sites.any fun s => s.fn == p.1 && s.kind == p.2.1 && s.expr == p.2.2

end Nexus.Client
