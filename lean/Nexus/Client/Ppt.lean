/-
  Client model, part 2 (L1, pure): payload passthru unpacking — `unpackPPTPayload`,
  `unpackE2EEPayload`, `isPPTSchemeValid`, the PPT branches of `runHandleEvent` and
  `runHandleInvocation`, and `prepareCallResultMessage` (client/client.go), decision by decision.

  Where the Go code does a bare `x.(T)` or indexes `args[0]` on router-supplied data the model
  returns `Outcome.panic site`; `checked = true` is the same code with every such site turned
  into an error return (the shape of the proposed fix).  `checked` is instantiated from the
  regenerated site table (`pptChecked`): it is `false` as long as the table lists a bare site
  in one of the two unpack functions.

  The third-party decoders are a parameter (`Deser`): what `DeserializeDataItem` made of the
  byte string — an error, a nil payload pointer (the encodings of `null`), or a payload.
  Core-only.
-/
import Nexus.Client.Val
import Nexus.Gen.Client
import Nexus.Gen.Names

namespace Nexus.Client
open Nexus.Gen

inductive DeserRes where
  | err
  | nil
  | val (args : List Val) (kw : Dict)
  deriving Repr, Inhabited

/-- serializer name → bytes → what the decoder produced -/
abbrev Deser := String → List UInt8 → DeserRes

inductive PptErr where
  | serializerInvalid     -- ErrPPTSerializerInvalid
  | serialization         -- ErrSerialization
  | schemeInvalid         -- ErrPPTSchemeInvalid
  | notSupportedByRouter  -- ErrPPTNotSupportedByRouter
  deriving Repr, Inhabited, DecidableEq

abbrev Unpacked := Except PptErr (List Val × Dict)

/-- `true` iff the regenerated site table has no bare assertion / unchecked index left in the
    two unpack functions. -/
def pptChecked : Bool :=
  !(Client.sites.any fun s => s.fn == "unpackPPTPayload" || s.fn == "unpackE2EEPayload")

/-- The text a model panic carries: function, kind and expression exactly as the regenerated
    site table (`Nexus.Gen.Client.sites`) spells them. -/
def siteText (fn kind expr : String) : String := fn ++ ": " ++ kind ++ " " ++ expr

def nilDeref : String := "payloadTyped.Arguments (nil pointer)"

/-- A bare site: panics today, returns `e` once checked. -/
def bare (checked : Bool) (fn kind expr : String) (e : PptErr) : Outcome Unpacked :=
  if checked then .ok (.error e) else .panic (siteText fn kind expr)

def isPPTSchemeValid (s : String) : Bool :=
  s == Client.WampPPTScheme || s == Client.MqttPPTScheme || s.startsWith Client.customSchemePrefix

/-- `payloadTyped = args[0].(*wamp.PassthruPayload)` then `payloadTyped.Arguments`. -/
def nativePayload (checked : Bool) (args : List Val) : Outcome Unpacked :=
  match args with
  | [] => bare checked "unpackPPTPayload" "index" "args[0]" .serialization
  | .payload false a k :: _ => .ok (.ok (a, k))
  | .payload true _ _ :: _ => bare checked "unpackPPTPayload" "deref" nilDeref .serialization
  | _ :: _ => bare checked "unpackPPTPayload" "assert" "args[0].(*wamp.PassthruPayload)" .serialization

def unpackPPTPayload (checked : Bool) (deser : Deser) (details : Dict) (args : List Val) : Outcome Unpacked :=
  match details.get? N.OptPPTSerializer with
  | none => nativePayload checked args
  | some (.str s) =>
    if s == "native" then nativePayload checked args
    else if Client.PPTSerializers.contains s then
      match args with
      | [] => bare checked "unpackPPTPayload" "index" "args[0]" .serialization
      | .bin b :: _ =>
        match deser s b with
        | .err => .ok (.error .serialization)
        | .nil => bare checked "unpackPPTPayload" "deref" nilDeref .serialization
        | .val a k => .ok (.ok (a, k))
      | _ :: _ => bare checked "unpackPPTPayload" "assert" "args[0].([]byte)" .serialization
    else .ok (.error .serializerInvalid)
  | some _ => bare checked "unpackPPTPayload" "assert" "pptSerializerStr.(string)" .serializerInvalid

def unpackE2EEPayload (checked : Bool) (deser : Deser) (details : Dict) (args : List Val) : Outcome Unpacked :=
  match details.get? N.OptPPTSerializer with
  | some (.str s) =>
    if Client.E2eeSerializers.contains s then
      match args with
      | [] => bare checked "unpackE2EEPayload" "index" "args[0]" .serialization
      | .bin b :: _ =>
        match deser s b with
        | .err => .ok (.error .serialization)
        | .nil => .ok (.ok ([], []))       -- decodes into a struct value: stays zero
        | .val a k => .ok (.ok (a, k))
      | _ :: _ => bare checked "unpackE2EEPayload" "assert" "args[0].([]byte)" .serialization
    else .ok (.error .serializerInvalid)
  | _ => bare checked "unpackE2EEPayload" "assert" "details[wamp.OptPPTSerializer].(string)" .serializerInvalid

/-- The `if pptScheme == WampPPTScheme { unpackE2EE… } else { unpackPPT… }` shared by the callers. -/
def unpackByScheme (checked : Bool) (deser : Deser) (scheme : String) (details : Dict) (args : List Val) :
    Outcome Unpacked :=
  if scheme == Client.WampPPTScheme then unpackE2EEPayload checked deser details args
  else unpackPPTPayload checked deser details args

/-- What `runHandleEvent` does with an EVENT whose subscription has a handler. -/
inductive EventAct where
  | dropped (why : PptErr)                 -- logged, handler not called
  | handle (args : List Val) (kw : Dict)   -- handler called with these arguments
  deriving Repr, Inhabited

def eventPpt (checked : Bool) (deser : Deser) (details : Dict) (args : List Val) (kw : Dict) : Outcome EventAct :=
  let scheme := details.optString N.OptPPTScheme
  if scheme == "" then .ok (.handle args kw)
  else if !isPPTSchemeValid scheme then .ok (.dropped .schemeInvalid)
  else (unpackByScheme checked deser scheme details args).map fun
    | .error e => .dropped e
    | .ok (a, k) => .handle a k

/-- What `runHandleInvocation` does (after the handler lookup succeeded) before it queues the
    invocation: answer with ERROR invalid_argument, or go on with these arguments. -/
inductive InvAct where
  | errorReply (why : PptErr)
  | proceed (args : List Val) (kw : Dict)
  deriving Repr, Inhabited

def invocationPpt (checked : Bool) (deser : Deser) (details : Dict) (args : List Val) (kw : Dict) : Outcome InvAct :=
  let scheme := details.optString N.OptPPTScheme
  if scheme == "" then .ok (.proceed args kw)
  else if !isPPTSchemeValid scheme then .ok (.errorReply .schemeInvalid)
  else (unpackByScheme checked deser scheme details args).map fun
    | .error e => .errorReply e
    | .ok (a, k) => .proceed a k

/-- `prepareCallResultMessage`: the RESULT's arguments as `Call` returns them, an error, or an
    error together with an ABORT to send (after which `Call` closes the session's send side). -/
inductive ResAct where
  | abort                                   -- (abortMsg, err): protocol violation
  | err (why : PptErr)
  | ok (args : List Val) (kw : Dict)
  deriving Repr, Inhabited

def prepareCallResult (checked : Bool) (deser : Deser) (dealerPPT : Bool)
    (details : Dict) (args : List Val) (kw : Dict) : Outcome ResAct :=
  let scheme := details.optString N.OptPPTScheme
  if scheme == "" then .ok (.ok args kw)
  else if !dealerPPT then .ok .abort
  else if !isPPTSchemeValid scheme then .ok (.err .schemeInvalid)
  else (unpackByScheme checked deser scheme details args).map fun
    | .error e => .err e
    | .ok (a, k) => .ok a k

end Nexus.Client
