/-
  Client model, part 2 (L1, pure): payload passthru unpacking — `unpackPPTPayload`,
  `unpackE2EEPayload`, `isPPTSchemeValid`, the PPT branches of `runHandleEvent` and
  `runHandleInvocation`, and `prepareCallResultMessage` (client/client.go), decision by decision.

  The functions are modelled as they are in the source now (fix 652e15e: length check first,
  comma-ok assertions, nil check).  Each place where a bare `x.(T)` or an unguarded `args[0]`
  WOULD panic consults the regenerated site table (`PptFacts`): if the table lists the site as
  bare the model returns `Outcome.panic site`, otherwise the error the checked code returns.  On
  today's tree no site is bare, so the functions are total (`Nexus.C17.unpack_total`); if a bare
  assertion comes back the table changes, the theorem's side condition fails and the model
  predicts the crash the family then finds.

  The third-party decoders are a parameter (`Deser`): what `DeserializeDataItem` made of the
  byte string — an error, a nil payload pointer (the encodings of `null`), or a payload.
  Core-only.
-/
import Nexus.Client.Val
import Nexus.Gen.Client
import Nexus.Gen.Names

namespace Nexus.Client
open Nexus.Gen

inductive DeserRes where
  | err
  | nil
  | val (args : List Val) (kw : Dict)
  deriving Repr, Inhabited

/-- serializer name → bytes → what the decoder produced -/
abbrev Deser := String → List UInt8 → DeserRes

inductive PptErr where
  | serializerInvalid     -- ErrPPTSerializerInvalid
  | serialization         -- ErrSerialization
  | schemeInvalid         -- ErrPPTSchemeInvalid
  | notSupportedByRouter  -- ErrPPTNotSupportedByRouter
  deriving Repr, Inhabited, DecidableEq

abbrev Unpacked := Except PptErr (List Val × Dict)

/-- What the model takes from the regenerated site table: is (function, kind, expression) listed
    as a BARE site (a type assertion without comma-ok, an index not preceded by a length check)?
    and is the decoded payload pointer checked for nil?  Where the table says "bare" the model
    panics, otherwise it returns the error the checked code returns. -/
structure PptFacts where
  bare : String → String → String → Bool
  nilChecked : Bool

def bareIn (t : List Client.Site) (fn kind expr : String) : Bool :=
  t.any fun s => s.fn == fn && s.kind == kind && s.expr == expr

/-- The facts of the source as it is now. -/
def PptFacts.gen : PptFacts := { bare := bareIn Client.sites, nilChecked := Client.pptNilChecked }

/-- The facts of the code before fix 652e15e (every site bare, no nil check): regression witness. -/
def PptFacts.allBare : PptFacts := { bare := fun _ _ _ => true, nilChecked := false }

/-- The text a model panic carries: function, kind and expression exactly as the regenerated
    site table (`Nexus.Gen.Client.sites`) spells them. -/
def siteText (fn kind expr : String) : String := fn ++ ": " ++ kind ++ " " ++ expr

def nilDeref : String := "payloadTyped.Arguments (nil pointer)"

/-- A site: panics if the table lists it as bare, returns `e` otherwise. -/
def atSite (F : PptFacts) (fn kind expr : String) (e : PptErr) : Outcome Unpacked :=
  if F.bare fn kind expr then .panic (siteText fn kind expr) else .ok (.error e)

/-- `if payloadTyped == nil { return ErrSerialization }` (if present) before the dereference. -/
def nilPayload (F : PptFacts) : Outcome Unpacked :=
  if F.nilChecked then .ok (.error .serialization) else .panic (siteText "unpackPPTPayload" "deref" nilDeref)

def isPPTSchemeValid (s : String) : Bool :=
  s == Client.WampPPTScheme || s == Client.MqttPPTScheme || s.startsWith Client.customSchemePrefix

/-- `payloadTyped, _ = args[0].(*wamp.PassthruPayload)`, the nil check, `payloadTyped.Arguments`. -/
def nativePayload (F : PptFacts) (args : List Val) : Outcome Unpacked :=
  match args with
  | [] => atSite F "unpackPPTPayload" "index" "args[0]" .serialization
  | .payload false a k :: _ => .ok (.ok (a, k))
  | .payload true _ _ :: _ => nilPayload F
  | _ :: _ =>
    if F.bare "unpackPPTPayload" "assert" "args[0].(*wamp.PassthruPayload)" then
      .panic (siteText "unpackPPTPayload" "assert" "args[0].(*wamp.PassthruPayload)")
    else nilPayload F       -- comma-ok leaves the pointer nil

def unpackPPTPayload (F : PptFacts) (deser : Deser) (details : Dict) (args : List Val) : Outcome Unpacked :=
  -- the leading `if len(args) == 0 { return ErrSerialization }` (present iff `args[0]` is not bare)
  if args.isEmpty && !F.bare "unpackPPTPayload" "index" "args[0]" then .ok (.error .serialization) else
  let withName (s : String) : Outcome Unpacked :=
    if Client.PPTSerializers.contains s then
      match args with
      | [] => atSite F "unpackPPTPayload" "index" "args[0]" .serialization
      | .bin b :: _ =>
        match deser s b with
        | .err => .ok (.error .serialization)
        | .nil => nilPayload F
        | .val a k => .ok (.ok (a, k))
      | _ :: _ => atSite F "unpackPPTPayload" "assert" "args[0].([]byte)" .serialization
    else .ok (.error .serializerInvalid)
  match details.get? N.OptPPTSerializer with
  | none => nativePayload F args
  | some (.str s) => if s == "native" then nativePayload F args else withName s
  | some _ =>
    if F.bare "unpackPPTPayload" "assert" "pptSerializerStr.(string)" then
      .panic (siteText "unpackPPTPayload" "assert" "pptSerializerStr.(string)")
    else withName ""        -- comma-ok: the name is ""

def unpackE2EEPayload (F : PptFacts) (deser : Deser) (details : Dict) (args : List Val) : Outcome Unpacked :=
  if args.isEmpty && !F.bare "unpackE2EEPayload" "index" "args[0]" then .ok (.error .serialization) else
  let withName (s : String) : Outcome Unpacked :=
    if Client.E2eeSerializers.contains s then
      match args with
      | [] => atSite F "unpackE2EEPayload" "index" "args[0]" .serialization
      | .bin b :: _ =>
        match deser s b with
        | .err => .ok (.error .serialization)
        | .nil => .ok (.ok ([], []))       -- decodes into a struct value: stays zero
        | .val a k => .ok (.ok (a, k))
      | _ :: _ => atSite F "unpackE2EEPayload" "assert" "args[0].([]byte)" .serialization
    else .ok (.error .serializerInvalid)
  match details.get? N.OptPPTSerializer with
  | some (.str s) => withName s
  | _ =>
    if F.bare "unpackE2EEPayload" "assert" "details[wamp.OptPPTSerializer].(string)" then
      .panic (siteText "unpackE2EEPayload" "assert" "details[wamp.OptPPTSerializer].(string)")
    else withName ""

/-- The `if pptScheme == WampPPTScheme { unpackE2EE… } else { unpackPPT… }` shared by the callers. -/
def unpackByScheme (F : PptFacts) (deser : Deser) (scheme : String) (details : Dict) (args : List Val) :
    Outcome Unpacked :=
  if scheme == Client.WampPPTScheme then unpackE2EEPayload F deser details args
  else unpackPPTPayload F deser details args

/-- What `runHandleEvent` does with an EVENT whose subscription has a handler. -/
inductive EventAct where
  | dropped (why : PptErr)                 -- logged, handler not called
  | handle (args : List Val) (kw : Dict)   -- handler called with these arguments
  deriving Repr, Inhabited

def eventPpt (F : PptFacts) (deser : Deser) (details : Dict) (args : List Val) (kw : Dict) : Outcome EventAct :=
  let scheme := details.optString N.OptPPTScheme
  if scheme == "" then .ok (.handle args kw)
  else if !isPPTSchemeValid scheme then .ok (.dropped .schemeInvalid)
  else (unpackByScheme F deser scheme details args).map fun
    | .error e => .dropped e
    | .ok (a, k) => .handle a k

/-- What `runHandleInvocation` does (after the handler lookup succeeded) before it queues the
    invocation: answer with ERROR invalid_argument, or go on with these arguments. -/
inductive InvAct where
  | errorReply (why : PptErr)
  | proceed (args : List Val) (kw : Dict)
  deriving Repr, Inhabited

def invocationPpt (F : PptFacts) (deser : Deser) (details : Dict) (args : List Val) (kw : Dict) : Outcome InvAct :=
  let scheme := details.optString N.OptPPTScheme
  if scheme == "" then .ok (.proceed args kw)
  else if !isPPTSchemeValid scheme then .ok (.errorReply .schemeInvalid)
  else (unpackByScheme F deser scheme details args).map fun
    | .error e => .errorReply e
    | .ok (a, k) => .proceed a k

/-- `prepareCallResultMessage`: the RESULT's arguments as `Call` returns them, an error, or an
    error together with an ABORT to send (after which `Call` closes the session's send side). -/
inductive ResAct where
  | abort                                   -- (abortMsg, err): protocol violation
  | err (why : PptErr)
  | ok (args : List Val) (kw : Dict)
  deriving Repr, Inhabited

def prepareCallResult (F : PptFacts) (deser : Deser) (dealerPPT : Bool)
    (details : Dict) (args : List Val) (kw : Dict) : Outcome ResAct :=
  let scheme := details.optString N.OptPPTScheme
  if scheme == "" then .ok (.ok args kw)
  else if !dealerPPT then .ok .abort
  else if !isPPTSchemeValid scheme then .ok (.err .schemeInvalid)
  else (unpackByScheme F deser scheme details args).map fun
    | .error e => .err e
    | .ok (a, k) => .ok a k

end Nexus.Client
