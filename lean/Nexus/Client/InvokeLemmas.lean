/-
  Invariants of the invocation-worker model (`Nexus.Client.I`), for every event sequence.
  Proof file.
-/
import Nexus.Client.Invoke

namespace Nexus.Client.I
open Nexus.Gen Nexus.Client

section frames
variable (st : State) (w : Nat) (x : Worker) (o : Out)
@[simp] theorem emit_ws : (st.emit o).ws = st.ws := rfl
@[simp] theorem emit_n : (st.emit o).n = st.n := rfl
@[simp] theorem emit_out : (st.emit o).out = o :: st.out := rfl
@[simp] theorem emit_kill : (st.emit o).kill = st.kill := rfl
@[simp] theorem emit_pendingSend : (st.emit o).pendingSend = st.pendingSend := rfl
@[simp] theorem emit_lastRecv : (st.emit o).lastRecv = st.lastRecv := rfl
@[simp] theorem emit_clientDone : (st.emit o).clientDone = st.clientDone := rfl
@[simp] theorem emit_crashed : (st.emit o).crashed = st.crashed := rfl
@[simp] theorem emit_now : (st.emit o).now = st.now := rfl
@[simp] theorem setW_ws : (st.setW w x).ws = fun w' => if w' = w then x else st.ws w' := rfl
@[simp] theorem setW_n : (st.setW w x).n = st.n := rfl
@[simp] theorem setW_out : (st.setW w x).out = st.out := rfl
@[simp] theorem setW_kill : (st.setW w x).kill = st.kill := rfl
@[simp] theorem setW_pendingSend : (st.setW w x).pendingSend = st.pendingSend := rfl
@[simp] theorem setW_lastRecv : (st.setW w x).lastRecv = st.lastRecv := rfl
@[simp] theorem setW_clientDone : (st.setW w x).clientDone = st.clientDone := rfl
@[simp] theorem setW_crashed : (st.setW w x).crashed = st.crashed := rfl
@[simp] theorem setW_now : (st.setW w x).now = st.now := rfl
end frames

theorem steps_invariant (cfg : Cfg) (P : State → Prop)
    (hstep : ∀ st ev st', P st → step cfg st ev = some st' → P st') :
    ∀ (evs : List Ev) (st st' : State), P st → steps cfg st evs = some st' → P st' := by
  intro evs
  induction evs with
  | nil => intro st st' h hs; simp [steps] at hs; exact hs ▸ h
  | cons e es ih =>
    intro st st' h hs
    simp only [steps] at hs
    cases h1 : step cfg st e with
    | none => simp [h1] at hs
    | some st1 =>
      simp [h1] at hs
      exact ih st1 st' (hstep st e st1 h h1) hs

theorem reachable_invariant (cfg : Cfg) (P : State → Prop) (h0 : P {})
    (hstep : ∀ st ev st', P st → step cfg st ev = some st' → P st') :
    ∀ st, Reachable cfg st → P st := by
  intro st ⟨evs, h⟩
  exact steps_invariant cfg P hstep evs {} st h0 h

/-! ### findLive -/

theorem findLive_some {st : State} {reg req k w : Nat} (h : findLive st reg req k = some w) :
    w < k ∧ (st.ws w).live = true ∧ (st.ws w).reg = reg ∧ (st.ws w).req = req := by
  induction k with
  | zero => simp [findLive] at h
  | succ k ih =>
    simp only [findLive] at h
    split at h
    · rename_i hc
      simp at h; subst h
      simp at hc
      exact ⟨by omega, hc.1.1, hc.1.2, hc.2⟩
    · obtain ⟨h1, h2⟩ := ih h
      exact ⟨by omega, h2⟩

theorem findLive_none {st : State} {reg req k : Nat} (h : findLive st reg req k = none) :
    ∀ w, w < k → ¬ ((st.ws w).live = true ∧ (st.ws w).reg = reg ∧ (st.ws w).req = req) := by
  induction k with
  | zero => intro w hw; omega
  | succ k ih =>
    simp only [findLive] at h
    split at h
    · simp at h
    · rename_i hc
      intro w hw
      by_cases hwk : w = k
      · subst hwk; simp at hc; intro ⟨a, b, c⟩; exact absurd c (hc a b)
      · exact ih h w (by omega)

/-- The shapes `accept` can take. -/
theorem accept_cases (cfg : Cfg) (st : State) (i : Inv) :
    (∃ w, findLive st i.reg i.req st.n = some w ∧ cfg.finalGate = true ∧ (st.ws w).final = true ∧
       accept cfg st i = st.emit (.repeated i.req)) ∨
    (∃ w, findLive st i.reg i.req st.n = some w ∧ (cfg.finalGate = true → (st.ws w).final = false) ∧
       accept cfg st i = enqueue cfg st w i) ∨
    (findLive st i.reg i.req st.n = none ∧ cfg.invGate = true ∧
       isNewRecvID st.lastRecv (UInt64.ofNat i.req) = false ∧ accept cfg st i = st.emit (.ignored i.req)) ∨
    (findLive st i.reg i.req st.n = none ∧
       (cfg.invGate = true → isNewRecvID st.lastRecv (UInt64.ofNat i.req) = true) ∧
       accept cfg st i = create st i (cfg.finalGate && !i.progress)) := by
  unfold accept
  split
  · rename_i w hw
    split
    · rename_i hf
      simp at hf
      exact .inl ⟨w, hw, hf.1, hf.2, rfl⟩
    · rename_i hf
      simp at hf
      exact .inr (.inl ⟨w, hw, hf, rfl⟩)
  · rename_i hn
    have hsnd : (updateLastRecvID st.lastRecv (UInt64.ofNat i.req)).2 = isNewRecvID st.lastRecv (UInt64.ofNat i.req) := by
      unfold updateLastRecvID; split <;> simp_all
    split
    · rename_i hg
      simp [hsnd] at hg
      exact .inr (.inr (.inl ⟨hn, hg.1, hg.2, rfl⟩))
    · rename_i hg
      simp [hsnd] at hg
      exact .inr (.inr (.inr ⟨hn, hg, rfl⟩))

/-- The shapes `recvInvocation` can take. -/
theorem recvInvocation_cases {cfg : Cfg} {st st' : State} {i : Inv} {hasH : Bool}
    (h : recvInvocation cfg st i hasH = some st') :
    st.pendingSend = none ∧
    (st' = st.emit (.send (.error tINVOCATION i.req N.ErrInvalidArgument)) ∨
     (∃ site, st' = { st with crashed := some site }) ∨
     (∃ a k, hasH = true ∧ st' = accept cfg st { i with args := a, kw := k })) := by
  unfold recvInvocation at h
  split at h
  · simp at h
  · rename_i hp
    refine ⟨by simpa using hp, ?_⟩
    split at h
    · simp at h; exact .inl h.symm
    · rename_i hh
      split at h
      · simp at h; exact .inr (.inl ⟨_, h.symm⟩)
      · simp at h; exact .inl h.symm
      · simp at h; exact .inr (.inr ⟨_, _, by simpa using hh, h.symm⟩)

/-! ### step analysis -/

set_option hygiene false in
/-- From `h : step cfg st ev = some st'` to one goal per shape of `st'`. -/
macro "analyse_istep" : tactic => `(tactic| (
  unfold step at h
  split at h
  · simp at h
  rename_i hc
  cases ev <;> simp only at h
  case' recvInvocation i hasH =>
    obtain ⟨hps, hcs⟩ := recvInvocation_cases h
    clear h
    rcases hcs with rfl | ⟨site, rfl⟩ | ⟨a, k, hh, rfl⟩
    rotate_left
    rotate_left
    rcases accept_cases cfg st { i with args := a, kw := k } with
      ⟨w, hfl, hfg, hfin, hacc⟩ | ⟨w, hfl, hfin, hacc⟩ | ⟨hfl, hgate, hnew, hacc⟩ | ⟨hfl, hnew, hacc⟩
    all_goals (try rw [hacc])
  all_goals (
    repeat' (split at h)
    all_goals (try (simp at h))
    all_goals (try subst h))))

/-! ### one worker per live (registration, request) -/

def InvLive (st : State) : Prop :=
  (∀ w, st.n ≤ w → (st.ws w).live = false) ∧
  (∀ w w', (st.ws w).live = true → (st.ws w').live = true →
     (st.ws w).reg = (st.ws w').reg → (st.ws w).req = (st.ws w').req → w = w')

theorem invLive_init : InvLive {} := by
  constructor
  · intro w _; rfl
  · intro w w' h; simp at h

set_option hygiene false in
macro "i_close" : tactic => `(tactic| (
  all_goals (try (simp [cleanup, afterResult, outerFinish, enqueue, create] at *))
  all_goals (try (by_cases hq : (st.ws w).queue.length < cfg.queueCap <;> simp [hq] at *))
  all_goals (try (grind [cleanup, afterResult]))
  all_goals (try (simp_all [cleanup, afterResult, outerFinish, enqueue, create]))
  all_goals (try grind [cleanup, afterResult])))

theorem invLive_step (cfg : Cfg) (st : State) (ev : Ev) (st' : State)
    (hinv : InvLive st) (h : step cfg st ev = some st') : InvLive st' := by
  obtain ⟨h0, hu⟩ := hinv
  analyse_istep
  all_goals (try (have hfs := findLive_some hfl))
  all_goals (try (have hfn := findLive_none hfl))
  all_goals (refine ⟨?_, ?_⟩)
  all_goals i_close

/-- Worker slots not yet created hold the default worker; the kill switches and a pending queue
    send refer to created workers. -/
def InvFresh (st : State) : Prop :=
  (∀ w, st.n ≤ w → st.ws w = {}) ∧
  (∀ w i, st.pendingSend = some (w, i) → w < st.n) ∧
  (∀ r w, st.kill r = some w → w < st.n)

theorem invFresh_init : InvFresh {} := by
  refine ⟨?_, ?_, ?_⟩
  · intro w _; rfl
  · intro w i h; simp at h
  · intro r w h; simp at h

theorem invFresh_step (cfg : Cfg) (st : State) (ev : Ev) (st' : State)
    (hinv : InvFresh st) (h : step cfg st ev = some st') : InvFresh st' := by
  obtain ⟨hf, hp, hk⟩ := hinv
  analyse_istep
  all_goals (try (have hfs := findLive_some hfl))
  all_goals (refine ⟨?_, ?_, ?_⟩)
  all_goals intros
  all_goals i_close
  all_goals (try (split <;> simp_all))
  all_goals (try omega)
  all_goals (try grind)

@[simp] theorem ite_outer (c : Prop) [Decidable c] (x y : Worker) :
    (if c then x else y).outer = if c then x.outer else y.outer := by split <;> rfl

/-! ### exactly one YIELD or ERROR per completed worker -/

def isAnswer (w : Nat) : Out → Bool
  | .answer w' _ => w' == w
  | _ => false

@[simp] theorem isAnswer_send (w : Nat) (m : CMsg) : isAnswer w (.send m) = false := rfl
@[simp] theorem isAnswer_created (w a b c : Nat) : isAnswer w (.created a b c) = false := rfl
@[simp] theorem isAnswer_handlerStart (w a : Nat) (i : Inv) : isAnswer w (.handlerStart a i) = false := rfl
@[simp] theorem isAnswer_answer (w a : Nat) (m : CMsg) : isAnswer w (.answer a m) = (a == w) := rfl
@[simp] theorem isAnswer_ignored (w a : Nat) : isAnswer w (.ignored a) = false := rfl
@[simp] theorem isAnswer_lost (w a : Nat) (i : Inv) : isAnswer w (.lost a i) = false := rfl
@[simp] theorem isAnswer_repeated (w a : Nat) : isAnswer w (.repeated a) = false := rfl
@[simp] theorem isAnswer_abandoned (w a : Nat) (i : Inv) : isAnswer w (.abandoned a i) = false := rfl
@[simp] theorem isAnswer_progressSent (w a : Nat) : isAnswer w (.progressSent a) = false := rfl
@[simp] theorem isAnswer_progressRefused (w a : Nat) : isAnswer w (.progressRefused a) = false := rfl

def Outer.answered : Outer → Bool
  | .exited true => true
  | _ => false

@[simp] theorem answered_waiting : Outer.waiting.answered = false := rfl
@[simp] theorem answered_final (r : HRes) : (Outer.final r).answered = false := rfl
@[simp] theorem answered_exited (b : Bool) : (Outer.exited b).answered = b := by cases b <;> rfl

@[simp] theorem ite_answered (c : Prop) [Decidable c] (x y : Outer) :
    (if c then x else y).answered = if c then x.answered else y.answered := by split <;> rfl

/-- The answers logged for worker `w`: one iff its outer goroutine ended by answering. -/
def InvAnswer (st : State) : Prop :=
  ∀ w, List.countP (isAnswer w) st.out = if (st.ws w).outer.answered then 1 else 0

theorem invAnswer_init : InvAnswer {} := by intro w; simp

/-- An answer is a final YIELD or an ERROR of type INVOCATION bearing the worker's request id. -/
def answerFor (req : Nat) (m : CMsg) : Bool :=
  match m with
  | .yield r false => r == req
  | .error t r _ => t == tINVOCATION && r == req
  | _ => false

def InvAnswerShape (st : State) : Prop :=
  ∀ o ∈ st.out, ∀ w m, o = .answer w m → w < st.n ∧ answerFor (st.ws w).req m = true

theorem invAnswerShape_init : InvAnswerShape {} := by intro o h; simp at h

theorem invAnswer_step (cfg : Cfg) (st : State) (ev : Ev) (st' : State)
    (hl : InvLive st) (hf : InvFresh st) (hinv : InvAnswer st) (h : step cfg st ev = some st') : InvAnswer st' := by
  obtain ⟨h0, _⟩ := hl
  have hfn := hf.1 st.n (Nat.le_refl _)
  analyse_istep
  all_goals (try (have hfs := findLive_some hfl))
  all_goals (intro b; have hib := hinv b)
  all_goals (try (simp [cleanup, afterResult, outerFinish, enqueue, create, List.countP_cons, -List.countP_eq_zero] at *))
  all_goals (try (by_cases hq : (st.ws w).queue.length < cfg.queueCap <;> simp [hq] at *))
  all_goals (try (grind [cleanup, afterResult]))
  all_goals (try (simp_all [cleanup, afterResult, outerFinish, enqueue, create, List.countP_cons, -List.countP_eq_zero]))
  all_goals (try grind [cleanup, afterResult])
  all_goals (try (split <;> split <;> simp_all))
  all_goals (try omega)

end Nexus.Client.I
